//go:build verif

// Line-protocol server exposing the unexported parseFlags of cmd/gateway (and the real flag set of
// the static-mode command) to the C19 harness.  Injected with `go build -tags verif -overlay`; nothing
// in /repo is modified.  It only acts when VERIF_C19_SERVER=1: it then serves stdin/stdout and exits
// before main().
//
// request : <hex(arg)>,<hex(arg)>,...        a command line for `gateway static-mode` ("-" = no args)
// response: perr=<hex(parse error)|-> flags=<f>,<f>,...  values=<hex>,<hex>,...
//
//	<f> = hex(name):b:<0|1>                       for flags whose Value.Type()=="bool" and String() is true/false
//	<f> = hex(name):o:hex(Value.String()):hex(DefValue):hex(Type())   otherwise
//
// values are what the REAL parseFlags returned for that flag set (same order as flags).
package main

import (
	"bufio"
	"encoding/hex"
	"fmt"
	"io"
	"os"
	"strings"

	"github.com/spf13/pflag"
)

func verifC19Hex(s string) string {
	if s == "" {
		return "_"
	}
	return hex.EncodeToString([]byte(s))
}

func verifC19One(line string) (resp string) {
	defer func() {
		if r := recover(); r != nil {
			resp = "panic " + verifC19Hex(fmt.Sprint(r))
		}
	}()
	var args []string
	if line != "-" {
		for _, p := range strings.Split(line, ",") {
			if p == "_" {
				args = append(args, "")
				continue
			}
			b, err := hex.DecodeString(p)
			if err != nil {
				return "bad"
			}
			args = append(args, string(b))
		}
	}
	cmd := createStaticModeCommand()
	cmd.SetOut(io.Discard)
	cmd.SetErr(io.Discard)
	perr := "-"
	// cobra's ParseFlags = what Execute does before RunE; a failing argument leaves the flags parsed so
	// far set, which is still a legal input for parseFlags.
	if err := cmd.ParseFlags(args); err != nil {
		perr = verifC19Hex(err.Error())
	}
	var fl []string
	cmd.Flags().VisitAll(func(f *pflag.Flag) {
		s := f.Value.String()
		if f.Value.Type() == "bool" && (s == "true" || s == "false") {
			b := "0"
			if s == "true" {
				b = "1"
			}
			fl = append(fl, verifC19Hex(f.Name)+":b:"+b)
		} else {
			fl = append(fl, verifC19Hex(f.Name)+":o:"+verifC19Hex(s)+":"+verifC19Hex(f.DefValue)+":"+verifC19Hex(f.Value.Type()))
		}
	})
	names, values := parseFlags(cmd.Flags())
	vs := make([]string, len(values))
	for i, v := range values {
		vs[i] = verifC19Hex(v)
	}
	ns := make([]string, len(names))
	for i, v := range names {
		ns[i] = verifC19Hex(v)
	}
	return "perr=" + perr + " flags=" + strings.Join(fl, ",") + " names=" + strings.Join(ns, ",") +
		" values=" + strings.Join(vs, ",")
}

func verifC19Serve() {
	in := bufio.NewReaderSize(os.Stdin, 1<<20)
	out := bufio.NewWriterSize(os.Stdout, 1<<20)
	defer out.Flush()
	for {
		line, rerr := in.ReadString('\n')
		line = strings.TrimRight(line, "\n")
		if line != "" {
			out.WriteString(verifC19One(line))
			out.WriteByte('\n')
		}
		if rerr != nil {
			return
		}
	}
}

func init() {
	if os.Getenv("VERIF_C19_SERVER") == "1" {
		verifC19Serve()
		os.Exit(0)
	}
}
