//go:build verif

// Line-protocol server exposing the unexported CLI validators of cmd/gateway to the C20 harness.
// Injected with `go build -tags verif -overlay`; nothing in /repo is modified. It only acts when the
// environment variable VERIF_C20_SERVER=1 is set: it then serves stdin/stdout and exits before main().
//
// request : <op> <hex(arg)>[,<hex(arg)>...]
// response: ok | err <hex(error message)> | panic <hex(value)>
package main

import (
	"bufio"
	"encoding/hex"
	"fmt"
	"io"
	"os"
	"strconv"
	"strings"
)

func verifC20Decode(s string) ([]string, error) {
	if s == "" {
		return nil, nil
	}
	parts := strings.Split(s, ",")
	out := make([]string, len(parts))
	for i, p := range parts {
		b, err := hex.DecodeString(p)
		if err != nil {
			return nil, err
		}
		out[i] = string(b)
	}
	return out, nil
}

func verifC20Call(op string, args []string) (err error) {
	arg0 := ""
	if len(args) > 0 {
		arg0 = args[0]
	}
	switch op {
	case "endpoint":
		return validateEndpoint(arg0)
	case "endpointopt":
		return validateEndpointOptionalPort(arg0)
	case "ip":
		return validateIP(arg0)
	case "resname":
		return validateResourceName(arg0)
	case "nsname":
		return validateNamespaceName(arg0)
	case "nsresname":
		_, err := parseNamespacedResourceName(arg0)
		return err
	case "qname":
		return validateQualifiedName(arg0)
	case "ctlr":
		return validateGatewayControllerName(arg0)
	case "intflag":
		// the real pflag.Value used for --metrics-port / --health-port
		v := intValidatingValue{validator: validatePort}
		return v.Set(arg0)
	case "collide":
		ports := make([]int, 0, len(args))
		for _, a := range args {
			n, perr := strconv.Atoi(a)
			if perr != nil {
				return fmt.Errorf("verif: bad port %q", a)
			}
			ports = append(ports, n)
		}
		return ensureNoPortCollisions(ports...)
	case "static", "provisioner":
		// args[0..2] = build-time variables telemetryReportPeriod, telemetryEndpoint,
		// telemetryEndpointInsecure; the rest is the command line. POD_IP is unset, so a command line
		// that passes every validation stops at createGatewayPodConfig, before StartManager.
		if len(args) < 3 {
			return fmt.Errorf("verif: static needs 3 build vars")
		}
		if op == "provisioner" {
			return fmt.Errorf("verif: provisioner not served")
		}
		telemetryReportPeriod, telemetryEndpoint, telemetryEndpointInsecure = args[0], args[1], args[2]
		cmd := createStaticModeCommand()
		cmd.SetArgs(args[3:])
		cmd.SetOut(io.Discard)
		cmd.SetErr(io.Discard)
		return cmd.Execute()
	}
	return fmt.Errorf("verif: unknown op %q", op)
}

func verifC20Serve() {
	for _, k := range []string{"POD_IP", "POD_UID", "POD_NAMESPACE", "POD_NAME"} {
		_ = os.Unsetenv(k)
	}
	// the static-mode command logs its start-up line through zap to stderr
	if devnull, err := os.OpenFile(os.DevNull, os.O_WRONLY, 0); err == nil {
		os.Stderr = devnull
	}
	in := bufio.NewReaderSize(os.Stdin, 1<<20)
	out := bufio.NewWriterSize(os.Stdout, 1<<20)
	defer out.Flush()
	for {
		line, rerr := in.ReadString('\n')
		line = strings.TrimRight(line, "\n")
		if line == "flush" {
			out.Flush()
		} else if line != "" {
			op, rest, _ := strings.Cut(line, " ")
			args, derr := verifC20Decode(rest)
			var resp string
			if derr != nil {
				resp = "bad " + hex.EncodeToString([]byte(derr.Error()))
			} else {
				func() {
					defer func() {
						if r := recover(); r != nil {
							resp = "panic " + hex.EncodeToString([]byte(fmt.Sprint(r)))
						}
					}()
					if err := verifC20Call(op, args); err != nil {
						resp = "err " + hex.EncodeToString([]byte(err.Error()))
					} else {
						resp = "ok"
					}
				}()
			}
			out.WriteString(resp)
			out.WriteByte('\n')
		}
		if rerr != nil {
			return
		}
	}
}

func init() {
	if os.Getenv("VERIF_C20_SERVER") == "1" {
		verifC20Serve()
		os.Stdout.Sync()
		os.Exit(0)
	}
}
