//go:build verif

package status

// Verification-only accessors for property C08 (injected with `go build -overlay`, never part of
// the repository): the unexported status setter constructors.

import (
	gatewayv1 "sigs.k8s.io/gateway-api/apis/v1"
	"sigs.k8s.io/gateway-api/apis/v1alpha2"

	ngfAPI "github.com/nginx/nginx-gateway-fabric/apis/v1alpha1"
	frameworkStatus "github.com/nginx/nginx-gateway-fabric/internal/framework/status"
)

func VerifC08HTTPRouteSetter(s gatewayv1.HTTPRouteStatus, ctlr string) frameworkStatus.Setter {
	return newHTTPRouteStatusSetter(s, ctlr)
}

func VerifC08GRPCRouteSetter(s gatewayv1.GRPCRouteStatus, ctlr string) frameworkStatus.Setter {
	return newGRPCRouteStatusSetter(s, ctlr)
}

func VerifC08TLSRouteSetter(s v1alpha2.TLSRouteStatus, ctlr string) frameworkStatus.Setter {
	return newTLSRouteStatusSetter(s, ctlr)
}

func VerifC08NGFPolicySetter(s v1alpha2.PolicyStatus, ctlr string) frameworkStatus.Setter {
	return newNGFPolicyStatusSetter(s, ctlr)
}

func VerifC08BackendTLSPolicySetter(s v1alpha2.PolicyStatus, ctlr string) frameworkStatus.Setter {
	return newBackendTLSPolicyStatusSetter(s, ctlr)
}

func VerifC08SnippetsFilterSetter(s ngfAPI.SnippetsFilterStatus, ctlr string) frameworkStatus.Setter {
	return newSnippetsFilterStatusSetter(s, ctlr)
}

func VerifC08GatewaySetter(s gatewayv1.GatewayStatus) frameworkStatus.Setter {
	return newGatewayStatusSetter(s)
}

func VerifC08GatewayClassSetter(s gatewayv1.GatewayClassStatus) frameworkStatus.Setter {
	return newGatewayClassStatusSetter(s)
}

func VerifC08NginxGatewaySetter(s ngfAPI.NginxGatewayStatus) frameworkStatus.Setter {
	return newNginxGatewayStatusSetter(s)
}
