//go:build verif

package static

// C19 verification accessors (injected with `go build -overlay`; /repo is not modified).
// All identifiers are prefixed VerifC19.

import (
	"context"
	"time"

	"github.com/go-logr/logr"
	"k8s.io/client-go/tools/record"
	"sigs.k8s.io/controller-runtime/pkg/client"

	"github.com/nginx/nginx-gateway-fabric/internal/framework/events"
	frameworkStatus "github.com/nginx/nginx-gateway-fabric/internal/framework/status"
	ngfConfig "github.com/nginx/nginx-gateway-fabric/internal/mode/static/config"
	"github.com/nginx/nginx-gateway-fabric/internal/mode/static/licensing"
	ngxConfig "github.com/nginx/nginx-gateway-fabric/internal/mode/static/nginx/config"
	"github.com/nginx/nginx-gateway-fabric/internal/mode/static/nginx/file"
	"github.com/nginx/nginx-gateway-fabric/internal/mode/static/nginx/runtime"
	"github.com/nginx/nginx-gateway-fabric/internal/mode/static/state"
	"github.com/nginx/nginx-gateway-fabric/internal/mode/static/state/dataplane"
	"github.com/nginx/nginx-gateway-fabric/internal/mode/static/state/resolver"
)

// VerifC19Deps are the collaborators of the real eventHandlerImpl that the harness supplies.
type VerifC19Deps struct {
	Plus          bool
	Generator     ngxConfig.Generator
	FileMgr       file.Manager
	RuntimeMgr    runtime.Manager
	Processor     state.ChangeProcessor
	Resolver      resolver.ServiceResolver
	StatusUpdater frameworkStatus.GroupUpdater
	K8sClient     client.Client
	DeployCtx     licensing.Collector
	EventRecorder record.EventRecorder
	CtlrName      string
}

// VerifC19Handler wraps the real eventHandlerImpl. It is handed to telemetry.NewDataCollectorImpl as ConfigurationGetter:
// GetLatestConfiguration below is the real method, exactly what manager.go passes (`ConfigurationGetter: eventHandler`).
type VerifC19Handler struct {
	h *eventHandlerImpl
}

type verifC19MetricsCollector struct{}

func (verifC19MetricsCollector) ObserveLastEventBatchProcessTime(time.Duration) {}

func VerifC19NewHandler(d VerifC19Deps) *VerifC19Handler {
	h := newEventHandlerImpl(eventHandlerConfig{
		plus:                          d.Plus,
		generator:                     d.Generator,
		nginxFileMgr:                  d.FileMgr,
		nginxRuntimeMgr:               d.RuntimeMgr,
		processor:                     d.Processor,
		serviceResolver:               d.Resolver,
		statusUpdater:                 d.StatusUpdater,
		k8sClient:                     d.K8sClient,
		deployCtxCollector:            d.DeployCtx,
		eventRecorder:                 d.EventRecorder,
		metricsCollector:              verifC19MetricsCollector{},
		nginxConfiguredOnStartChecker: newNginxConfiguredOnStartChecker(),
		gatewayCtlrName:               d.CtlrName,
		updateGatewayClassStatus:      true,
		gatewayPodConfig:              ngfConfig.GatewayPodConfig{ServiceName: "nginx-gateway", Namespace: "nginx-gateway", PodIP: "10.0.0.1"},
	})
	return &VerifC19Handler{h: h}
}

// HandleEventBatch is the real HandleEventBatch.
func (v *VerifC19Handler) HandleEventBatch(ctx context.Context, batch events.EventBatch) {
	v.h.HandleEventBatch(ctx, logr.Discard(), batch)
}

// GetLatestConfiguration is the real eventHandlerImpl.GetLatestConfiguration (telemetry.ConfigurationGetter).
func (v *VerifC19Handler) GetLatestConfiguration() *dataplane.Configuration {
	return v.h.GetLatestConfiguration()
}

// Version is h.version.
func (v *VerifC19Handler) Version() int { return v.h.version }

// LatestReloadErr is h.latestReloadResult.Error.
func (v *VerifC19Handler) LatestReloadErr() error { return v.h.latestReloadResult.Error }
