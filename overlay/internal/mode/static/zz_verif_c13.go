//go:build verif

package static

// C13 verification accessors (injected with `go build -overlay`; /repo is not modified).
// All identifiers are prefixed VerifC13.

import (
	"context"
	"time"

	"github.com/go-logr/logr"
	ngxclient "github.com/nginxinc/nginx-plus-go-client/client"
	"sigs.k8s.io/controller-runtime/pkg/client"

	"github.com/nginx/nginx-gateway-fabric/internal/framework/events"
	frameworkStatus "github.com/nginx/nginx-gateway-fabric/internal/framework/status"
	"github.com/nginx/nginx-gateway-fabric/internal/mode/static/licensing"
	ngxConfig "github.com/nginx/nginx-gateway-fabric/internal/mode/static/nginx/config"
	"github.com/nginx/nginx-gateway-fabric/internal/mode/static/nginx/file"
	"github.com/nginx/nginx-gateway-fabric/internal/mode/static/nginx/runtime"
	"github.com/nginx/nginx-gateway-fabric/internal/mode/static/state"
	"github.com/nginx/nginx-gateway-fabric/internal/mode/static/state/dataplane"
	"github.com/nginx/nginx-gateway-fabric/internal/mode/static/state/resolver"
)

// VerifC13Deps are the collaborators of the real eventHandlerImpl that the harness replaces.
type VerifC13Deps struct {
	Plus          bool
	Generator     ngxConfig.Generator
	FileMgr       file.Manager
	RuntimeMgr    runtime.Manager
	Processor     state.ChangeProcessor
	Resolver      resolver.ServiceResolver
	StatusUpdater frameworkStatus.GroupUpdater
	K8sClient     client.Client
	DeployCtx     licensing.Collector
}

// VerifC13Handler wraps the real, unexported eventHandlerImpl.
type VerifC13Handler struct{ h *eventHandlerImpl }

type verifC13MetricsCollector struct{}

func (verifC13MetricsCollector) ObserveLastEventBatchProcessTime(time.Duration) {}

func VerifC13NewHandler(d VerifC13Deps) *VerifC13Handler {
	h := newEventHandlerImpl(eventHandlerConfig{
		plus:                          d.Plus,
		generator:                     d.Generator,
		nginxFileMgr:                  d.FileMgr,
		nginxRuntimeMgr:               d.RuntimeMgr,
		processor:                     d.Processor,
		serviceResolver:               d.Resolver,
		statusUpdater:                 d.StatusUpdater,
		k8sClient:                     d.K8sClient,
		deployCtxCollector:            d.DeployCtx,
		metricsCollector:              verifC13MetricsCollector{},
		nginxConfiguredOnStartChecker: newNginxConfiguredOnStartChecker(),
	})
	return &VerifC13Handler{h: h}
}

// UpdateUpstreamServers is the real updateUpstreamServers.
func (v *VerifC13Handler) UpdateUpstreamServers(conf dataplane.Configuration) error {
	return v.h.updateUpstreamServers(conf)
}

// UpdateNginxConf is the real updateNginxConf (generate, replace files, reload, update upstream servers).
func (v *VerifC13Handler) UpdateNginxConf(ctx context.Context, conf dataplane.Configuration) error {
	return v.h.updateNginxConf(ctx, conf)
}

// HandleEventBatch is the real HandleEventBatch.
func (v *VerifC13Handler) HandleEventBatch(ctx context.Context, batch events.EventBatch) {
	v.h.HandleEventBatch(ctx, logr.Discard(), batch)
}

// HandleEventBatchLog is the real HandleEventBatch with the caller's logger (the harness counts the errors the
// handler records for the batch).
func (v *VerifC13Handler) HandleEventBatchLog(ctx context.Context, logger logr.Logger, batch events.EventBatch) {
	v.h.HandleEventBatch(ctx, logger, batch)
}

// LatestReloadError is latestReloadResult.Error ("" when nil).
func (v *VerifC13Handler) LatestReloadError() string {
	if v.h.latestReloadResult.Error == nil {
		return ""
	}
	return v.h.latestReloadResult.Error.Error()
}

// LatestConfiguration returns what the handler stored as latest configuration.
func (v *VerifC13Handler) LatestConfiguration() *dataplane.Configuration {
	return v.h.GetLatestConfiguration()
}

// VerifC13ServersEqual is the real serversEqual instantiated for http servers/peers.
func VerifC13ServersEqual(newServers []ngxclient.UpstreamServer, oldServers []ngxclient.Peer) bool {
	return serversEqual(newServers, oldServers)
}

// VerifC13StreamServersEqual is the real serversEqual instantiated for stream servers/peers.
func VerifC13StreamServersEqual(newServers []ngxclient.StreamUpstreamServer, oldServers []ngxclient.StreamPeer) bool {
	return serversEqual(newServers, oldServers)
}
