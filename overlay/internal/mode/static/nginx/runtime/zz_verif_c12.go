//go:build verif

package runtime

// C12 verification accessors (injected with `go build -overlay`; /repo is not modified).
// The version socket path is a constant and Reload formats the children path from a package
// variable; both must point into a temp dir for the simulated NGINX master.

import (
	"context"
	"net"
	"net/http"
	"time"
)

// VerifC12NewVerifyClient is NewVerifyClient with a caller-supplied socket path. Everything else
// (GetConfigVersion, WaitForCorrectVersion, EnsureConfigVersion) is the real code.
func VerifC12NewVerifyClient(socket string, timeout time.Duration) *VerifyClient {
	return &VerifyClient{
		client: &http.Client{
			Transport: &http.Transport{
				DialContext: func(_ context.Context, _, _ string) (net.Conn, error) {
					return net.Dial("unix", socket)
				},
			},
		},
		timeout: timeout,
	}
}

// VerifC12SetChildProcPathFmt replaces childProcPathFmt and returns the previous value.
func VerifC12SetChildProcPathFmt(f string) string {
	old := childProcPathFmt
	childProcPathFmt = f
	return old
}

// VerifC12ConfigVersionURI returns the socket path the production client dials.
func VerifC12ConfigVersionURI() string { return configVersionURI }
