//go:build verif

package file

// VerifLastWrittenPaths exposes the tracked paths of a ManagerImpl to the C11 correspondence harness
// (injected with `go build -overlay`; nothing in /repo is modified).
func (m *ManagerImpl) VerifLastWrittenPaths() []string {
	out := make([]string, len(m.lastWrittenPaths))
	copy(out, m.lastWrittenPaths)
	return out
}
