//go:build verif

package validation

import "regexp"

// VerifC04Regexps exposes the compiled validator regexes to the C04 correspondence harness.
func VerifC04Regexps() map[string]*regexp.Regexp {
	return map[string]*regexp.Regexp{
		"pathRegexp":                            pathRegexp,
		"escapedStringsFmtRegexp":               escapedStringsFmtRegexp,
		"escapedStringsNoVarExpansionFmtRegexp": escapedStringsNoVarExpansionFmtRegexp,
		"alphaNumericStringFmtRegexp":           alphaNumericStringFmtRegexp,
		"durationStringFmtRegexp":               durationStringFmtRegexp,
		"sizeStringFmtRegexp":                   sizeStringFmtRegexp,
		"endpointStringFmtRegexp":               endpointStringFmtRegexp,
	}
}
