//go:build verif

package config

import "github.com/nginx/nginx-gateway-fabric/internal/mode/static/state/dataplane"

// Accessors for the C03 correspondence harness (name manglings of the generator). No logic here.

func VerifC03SafeVar(s string) string               { return convertStringToSafeVariableName(s) }
func VerifC03AddHeaderVar(s string) string          { return generateAddHeaderMapVariableName(s) }
func VerifC03SocketTLS(port int32, h string) string { return getSocketNameTLS(port, h) }
func VerifC03SocketHTTPS(port int32) string         { return getSocketNameHTTPS(port) }
func VerifC03PassthroughVar(port int32) string      { return getTLSPassthroughVarName(port) }
func VerifC03PEMFile(id string) string              { return generatePEMFileName(dataplane.SSLKeyPairID(id)) }
func VerifC03BundleFile(id string) string {
	return generateCertBundleFileName(dataplane.CertBundleID(id))
}
func VerifC03IncludesFolder() string { return includesFolder }

// VerifC03MainRewritePrefix is createMainRewriteForFilters for a ReplacePrefixMatch modifier.
func VerifC03MainRewritePrefix(replacement, path string) string {
	return createMainRewriteForFilters(&dataplane.HTTPPathModifier{Type: dataplane.ReplacePrefixMatch, Replacement: replacement}, path)
}

// VerifC03InternalLocPath is the path initializeInternalLocation gives to match j of path rule i.
func VerifC03InternalLocPath(i, j int) string {
	loc, _ := initializeInternalLocation(i, j, dataplane.Match{}, false)
	return loc.Path
}
