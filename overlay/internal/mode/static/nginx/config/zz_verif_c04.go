//go:build verif

package config

import "github.com/nginx/nginx-gateway-fabric/internal/mode/static/state/dataplane"

// VerifC04MainRewrite exposes createMainRewriteForFilters to the C04 correspondence harness.
func VerifC04MainRewrite(typ, replacement, path string) string {
	return createMainRewriteForFilters(
		&dataplane.HTTPPathModifier{Type: dataplane.PathModifierType(typ), Replacement: replacement}, path)
}

// VerifC04RewriteFilter exposes createRewritesValForRewriteFilter (MainRewrite of a URLRewrite filter).
func VerifC04RewriteFilter(typ, replacement, path string) string {
	r := createRewritesValForRewriteFilter(&dataplane.HTTPURLRewriteFilter{
		Path: &dataplane.HTTPPathModifier{Type: dataplane.PathModifierType(typ), Replacement: replacement},
	}, path)
	return r.MainRewrite
}

// VerifC04RedirectBody exposes the `return` body built by createReturnAndRewriteConfigForRedirectFilter.
func VerifC04RedirectBody(scheme, hostname *string, port *int32, hasPath bool, listenerPort int32) string {
	f := &dataplane.HTTPRequestRedirectFilter{Scheme: scheme, Hostname: hostname, Port: port}
	if hasPath {
		f.Path = &dataplane.HTTPPathModifier{Type: dataplane.ReplaceFullPath, Replacement: "/x"}
	}
	ret, _ := createReturnAndRewriteConfigForRedirectFilter(f, listenerPort, "/p")
	return ret.Body
}
