//go:build verif

package config

import (
	"github.com/nginx/nginx-gateway-fabric/internal/mode/static/nginx/config/http"
	"github.com/nginx/nginx-gateway-fabric/internal/mode/static/nginx/config/policies"
	"github.com/nginx/nginx-gateway-fabric/internal/mode/static/state/dataplane"
)

// VerifC02CreateLocations exposes createLocations (no policies, no keep-alive) to the C02 correspondence harness.
func VerifC02CreateLocations(server *dataplane.VirtualServer) []http.Location {
	locs, _, _ := createLocations(server, "1", &policies.UnimplementedGenerator{}, func(string) bool { return false })
	return locs
}
