//go:build verif

package config

// Verification-only accessors for property C06 (injected with `go build -overlay`): where a backend
// group sends its traffic (upstream name, split_clients value, or the invalid-backend-ref upstream).

import "github.com/nginx/nginx-gateway-fabric/internal/mode/static/state/dataplane"

const VerifC06InvalidBackendRef = invalidBackendRef

func VerifC06BackendGroupName(g dataplane.BackendGroup) string { return backendGroupName(g) }

func VerifC06SplitClientValue(b dataplane.Backend) string { return getSplitClientValue(b) }

func VerifC06NeedsSplit(g dataplane.BackendGroup) bool { return backendGroupNeedsSplit(g) }
