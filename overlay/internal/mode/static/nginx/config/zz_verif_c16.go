//go:build verif

package config

// Verification-only accessors for property C16 (injected with `go build -overlay`).

import (
	"github.com/nginx/nginx-gateway-fabric/internal/mode/static/state/dataplane"
)

// (The PEM files are exercised through the exported Generate — see harness/c16/loop.go — so that a change of the
// unexported generatePEM signature cannot keep the harness from building.)

// VerifC16ProxyTLS runs createProxyTLSFromBackends + generateProtocolString:
// (has verify, trusted certificate, name, protocol).
func VerifC16ProxyTLS(backends []dataplane.Backend, grpc bool) (bool, string, string, string) {
	v := createProxyTLSFromBackends(backends)
	proto := generateProtocolString(v, grpc)
	if v == nil {
		return false, "", "", proto
	}
	return true, v.TrustedCertificate, v.Name, proto
}
