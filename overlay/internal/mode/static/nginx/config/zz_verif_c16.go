//go:build verif

package config

// Verification-only accessors for property C16 (injected with `go build -overlay`).

import (
	"github.com/nginx/nginx-gateway-fabric/internal/mode/static/state/dataplane"
)

// VerifC16PEM runs generatePEM and returns (path, content).
func VerifC16PEM(id string, cert, key []byte) (string, []byte) {
	f := generatePEM(dataplane.SSLKeyPairID(id), cert, key)
	return f.Path, f.Content
}

// VerifC16ProxyTLS runs createProxyTLSFromBackends + generateProtocolString:
// (has verify, trusted certificate, name, protocol).
func VerifC16ProxyTLS(backends []dataplane.Backend, grpc bool) (bool, string, string, string) {
	v := createProxyTLSFromBackends(backends)
	proto := generateProtocolString(v, grpc)
	if v == nil {
		return false, "", "", proto
	}
	return true, v.TrustedCertificate, v.Name, proto
}
