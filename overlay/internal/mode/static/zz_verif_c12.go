//go:build verif

package static

// C12 verification accessors (injected with `go build -overlay`; /repo is not modified).
// All identifiers are prefixed VerifC12.

import (
	"context"
	"time"

	"github.com/go-logr/logr"
	"k8s.io/client-go/tools/record"
	"sigs.k8s.io/controller-runtime/pkg/client"

	"github.com/nginx/nginx-gateway-fabric/internal/framework/events"
	frameworkStatus "github.com/nginx/nginx-gateway-fabric/internal/framework/status"
	ngfConfig "github.com/nginx/nginx-gateway-fabric/internal/mode/static/config"
	"github.com/nginx/nginx-gateway-fabric/internal/mode/static/licensing"
	ngxConfig "github.com/nginx/nginx-gateway-fabric/internal/mode/static/nginx/config"
	"github.com/nginx/nginx-gateway-fabric/internal/mode/static/nginx/file"
	"github.com/nginx/nginx-gateway-fabric/internal/mode/static/nginx/runtime"
	"github.com/nginx/nginx-gateway-fabric/internal/mode/static/state"
	"github.com/nginx/nginx-gateway-fabric/internal/mode/static/state/resolver"
)

// VerifC12Deps are the collaborators of the real eventHandlerImpl that the harness supplies.
type VerifC12Deps struct {
	Plus          bool
	Generator     ngxConfig.Generator
	FileMgr       file.Manager
	RuntimeMgr    runtime.Manager
	Processor     state.ChangeProcessor
	Resolver      resolver.ServiceResolver
	StatusUpdater frameworkStatus.GroupUpdater
	K8sClient     client.Client
	DeployCtx     licensing.Collector
	EventRecorder record.EventRecorder
	CtlrName      string
}

// VerifC12Handler wraps the real, unexported eventHandlerImpl and its readiness checker.
type VerifC12Handler struct {
	h *eventHandlerImpl
	c *nginxConfiguredOnStartChecker
}

type verifC12MetricsCollector struct{}

func (verifC12MetricsCollector) ObserveLastEventBatchProcessTime(time.Duration) {}

func VerifC12NewHandler(d VerifC12Deps) *VerifC12Handler {
	c := newNginxConfiguredOnStartChecker()
	h := newEventHandlerImpl(eventHandlerConfig{
		plus:                          d.Plus,
		generator:                     d.Generator,
		nginxFileMgr:                  d.FileMgr,
		nginxRuntimeMgr:               d.RuntimeMgr,
		processor:                     d.Processor,
		serviceResolver:               d.Resolver,
		statusUpdater:                 d.StatusUpdater,
		k8sClient:                     d.K8sClient,
		deployCtxCollector:            d.DeployCtx,
		eventRecorder:                 d.EventRecorder,
		metricsCollector:              verifC12MetricsCollector{},
		nginxConfiguredOnStartChecker: c,
		gatewayCtlrName:               d.CtlrName,
		gatewayPodConfig:              ngfConfig.GatewayPodConfig{ServiceName: "nginx-gateway", Namespace: "nginx-gateway", PodIP: "10.0.0.1"},
	})
	return &VerifC12Handler{h: h, c: c}
}

// HandleEventBatch is the real HandleEventBatch.
func (v *VerifC12Handler) HandleEventBatch(ctx context.Context, batch events.EventBatch) {
	v.h.HandleEventBatch(ctx, logr.Discard(), batch)
}

// Version is h.version.
func (v *VerifC12Handler) Version() int { return v.h.version }

// LatestConfigVersion is the Version of the stored latest configuration (-1 if none).
func (v *VerifC12Handler) LatestConfigVersion() int {
	c := v.h.GetLatestConfiguration()
	if c == nil {
		return -1
	}
	return c.Version
}

// LatestReloadErr is h.latestReloadResult.Error.
func (v *VerifC12Handler) LatestReloadErr() error { return v.h.latestReloadResult.Error }

// ReadyzOK is what the readyz endpoint reports: the real readyCheck.
func (v *VerifC12Handler) ReadyzOK() bool { return v.c.readyCheck(nil) == nil }

// FirstBatchErr is checker.firstBatchError.
func (v *VerifC12Handler) FirstBatchErr() error { return v.c.firstBatchError }

// ReadyChClosed reports whether the channel returned by getReadyCh is closed.
func (v *VerifC12Handler) ReadyChClosed() bool {
	select {
	case <-v.c.getReadyCh():
		return true
	default:
		return false
	}
}
