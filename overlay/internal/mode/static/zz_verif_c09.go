//go:build verif

package static

// C09 verification accessors (injected with `go build -overlay`; /repo is not modified).
// All identifiers are prefixed VerifC09. Gives the harness the real, unexported eventHandlerImpl, wired as
// StartManager wires it, with the status updater chosen by the harness (the real LeaderAwareGroupUpdater).

import (
	"context"
	"time"

	"github.com/go-logr/logr"
	"go.uber.org/zap"
	"k8s.io/apimachinery/pkg/types"
	"k8s.io/client-go/tools/record"
	"sigs.k8s.io/controller-runtime/pkg/client"

	"github.com/nginx/nginx-gateway-fabric/internal/framework/events"
	frameworkStatus "github.com/nginx/nginx-gateway-fabric/internal/framework/status"
	ngfConfig "github.com/nginx/nginx-gateway-fabric/internal/mode/static/config"
	"github.com/nginx/nginx-gateway-fabric/internal/mode/static/licensing"
	ngxConfig "github.com/nginx/nginx-gateway-fabric/internal/mode/static/nginx/config"
	"github.com/nginx/nginx-gateway-fabric/internal/mode/static/nginx/file"
	"github.com/nginx/nginx-gateway-fabric/internal/mode/static/nginx/runtime"
	"github.com/nginx/nginx-gateway-fabric/internal/mode/static/state"
	"github.com/nginx/nginx-gateway-fabric/internal/mode/static/state/resolver"
)

// VerifC09Deps are the collaborators of the real eventHandlerImpl that the harness supplies.
type VerifC09Deps struct {
	ControllerName string
	Generator      ngxConfig.Generator
	FileMgr        file.Manager
	RuntimeMgr     runtime.Manager
	Processor      state.ChangeProcessor
	Resolver       resolver.ServiceResolver
	StatusUpdater  frameworkStatus.GroupUpdater
	K8sClient      client.Client
	DeployCtx      licensing.Collector
	PodConfig      ngfConfig.GatewayPodConfig
	// ControlConfigNSName is the NginxGateway object of this controller.
	ControlConfigNSName types.NamespacedName
}

// VerifC09Handler wraps the real eventHandlerImpl.
type VerifC09Handler struct{ h *eventHandlerImpl }

type verifC09MetricsCollector struct{}

func (verifC09MetricsCollector) ObserveLastEventBatchProcessTime(time.Duration) {}

// VerifC09NewHandler wires the handler as StartManager does.
func VerifC09NewHandler(d VerifC09Deps) *VerifC09Handler {
	h := newEventHandlerImpl(eventHandlerConfig{
		generator:                     d.Generator,
		nginxFileMgr:                  d.FileMgr,
		nginxRuntimeMgr:               d.RuntimeMgr,
		processor:                     d.Processor,
		serviceResolver:               d.Resolver,
		statusUpdater:                 d.StatusUpdater,
		k8sClient:                     d.K8sClient,
		deployCtxCollector:            d.DeployCtx,
		metricsCollector:              verifC09MetricsCollector{},
		nginxConfiguredOnStartChecker: newNginxConfiguredOnStartChecker(),
		eventRecorder:                 record.NewFakeRecorder(1 << 12),
		gatewayPodConfig:              d.PodConfig,
		controlConfigNSName:           d.ControlConfigNSName,
		logLevelSetter:                newZapLogLevelSetter(zap.NewAtomicLevel()),
		gatewayCtlrName:               d.ControllerName,
		updateGatewayClassStatus:      true,
	})
	return &VerifC09Handler{h: h}
}

// HandleEventBatch is the real HandleEventBatch.
func (v *VerifC09Handler) HandleEventBatch(ctx context.Context, batch events.EventBatch) {
	v.h.HandleEventBatch(ctx, logr.Discard(), batch)
}

// Group names of handler.go, in the order of the Lean model (gAll, gGateways, gControl).
func VerifC09GroupNames() []string {
	return []string{groupAllExceptGateways, groupGateways, groupControlPlane}
}
