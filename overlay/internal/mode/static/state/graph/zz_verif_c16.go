//go:build verif

package graph

// Verification-only accessors for property C16 (injected with `go build -overlay`): the loop that
// decides whether the backends of one rule agree on their BackendTLSPolicy, and the policy lookup.

import (
	apiv1 "k8s.io/api/core/v1"
	"k8s.io/apimachinery/pkg/types"
	gatewayv1 "sigs.k8s.io/gateway-api/apis/v1"
)

// VerifC16BTPMismatch reports whether validateBackendTLSPolicyMatchingAllBackends returns a condition.
func VerifC16BTPMismatch(backendRefs []BackendRef) bool {
	return validateBackendTLSPolicyMatchingAllBackends(backendRefs) != nil
}

// VerifC16FindBTP runs findBackendTLSPolicyForService.
func VerifC16FindBTP(
	policies map[types.NamespacedName]*BackendTLSPolicy,
	refNamespace *gatewayv1.Namespace,
	refName, routeNamespace string,
) (*BackendTLSPolicy, error) {
	return findBackendTLSPolicyForService(policies, refNamespace, refName, routeNamespace)
}

// VerifC16FindAcceptedHostnames runs findAcceptedHostnames ("" = nil listener hostname).
func VerifC16FindAcceptedHostnames(listenerHostname string, routeHostnames []string) []string {
	var lh *gatewayv1.Hostname
	if listenerHostname != "" {
		lh = (*gatewayv1.Hostname)(&listenerHostname)
	}
	hs := make([]gatewayv1.Hostname, 0, len(routeHostnames))
	for _, h := range routeHostnames {
		hs = append(hs, gatewayv1.Hostname(h))
	}
	return findAcceptedHostnames(lh, hs)
}

// VerifC16ResolveSeq creates ONE secretResolver over the given cluster Secrets and resolves the keys in order (as
// buildListeners does for the HTTPS listeners of a Gateway); the result says for each call whether it succeeded.
func VerifC16ResolveSeq(secrets []*apiv1.Secret, keys []types.NamespacedName) []bool {
	m := make(map[types.NamespacedName]*apiv1.Secret, len(secrets))
	for _, s := range secrets {
		m[types.NamespacedName{Namespace: s.Namespace, Name: s.Name}] = s
	}
	r := newSecretResolver(m)
	out := make([]bool, 0, len(keys))
	for _, k := range keys {
		out = append(out, r.resolve(k) == nil)
	}
	return out
}
