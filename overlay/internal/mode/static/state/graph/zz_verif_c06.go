//go:build verif

package graph

// Verification-only accessors for property C06 (injected with `go build -overlay`): the unexported
// ReferenceGrant resolver, its to*/from* constructors, and the validators that consult it.

import (
	"fmt"
	"reflect"
	"sort"

	apiv1 "k8s.io/api/core/v1"
	"k8s.io/apimachinery/pkg/types"
	"k8s.io/apimachinery/pkg/util/validation/field"
	gatewayv1 "sigs.k8s.io/gateway-api/apis/v1"
	"sigs.k8s.io/gateway-api/apis/v1beta1"
)

// VerifC06To / VerifC06From mirror toResource / fromResource with exported fields.
type VerifC06To struct{ Group, Kind, Name, Namespace string }
type VerifC06From struct{ Group, Kind, Namespace string }

func verifC06To(t toResource) VerifC06To {
	return VerifC06To{Group: t.group, Kind: t.kind, Name: t.name, Namespace: t.namespace}
}

func verifC06From(f fromResource) VerifC06From {
	return VerifC06From{Group: f.group, Kind: f.kind, Namespace: f.namespace}
}

func (t VerifC06To) real() toResource {
	return toResource{group: t.Group, kind: t.Kind, name: t.Name, namespace: t.Namespace}
}

func (f VerifC06From) real() fromResource {
	return fromResource{group: f.Group, kind: f.Kind, namespace: f.Namespace}
}

// VerifC06Resolver wraps the real resolver.
type VerifC06Resolver struct{ r *referenceGrantResolver }

func VerifC06NewResolver(grants map[types.NamespacedName]*v1beta1.ReferenceGrant) VerifC06Resolver {
	return VerifC06Resolver{r: newReferenceGrantResolver(grants)}
}

func (v VerifC06Resolver) RefAllowed(to VerifC06To, from VerifC06From) bool {
	return v.r.refAllowed(to.real(), from.real())
}

// RefAllowedFrom goes through the closure the route code uses.
func (v VerifC06Resolver) RefAllowedFrom(from VerifC06From, to VerifC06To) bool {
	return v.r.refAllowedFrom(from.real())(to.real())
}

// Keys renders the key set of the `allowed` map, sorted. It reads the resolver by reflection so that the harness
// still builds when the internal representation changes (then the keys come out as "<other representation: …>"
// and the resolver correspondence reports the difference, while every other stream keeps running).
func (v VerifC06Resolver) Keys() []string {
	out := []string{}
	rv := reflect.ValueOf(v.r).Elem().FieldByName("allowed")
	if !rv.IsValid() || rv.Kind() != reflect.Map {
		return []string{"<no map field `allowed`>"}
	}
	str := func(x reflect.Value, path ...string) (string, bool) {
		for _, f := range path {
			if x.Kind() != reflect.Struct {
				return "", false
			}
			x = x.FieldByName(f)
			if !x.IsValid() {
				return "", false
			}
		}
		if x.Kind() != reflect.String {
			return "", false
		}
		return x.String(), true
	}
	paths := [][]string{{"to", "group"}, {"to", "kind"}, {"to", "name"}, {"to", "namespace"},
		{"from", "group"}, {"from", "kind"}, {"from", "namespace"}}
	for _, k := range rv.MapKeys() {
		var parts []string
		ok := true
		for _, pth := range paths {
			x, found := str(k, pth...)
			ok = ok && found
			parts = append(parts, x)
		}
		if !ok {
			out = append(out, fmt.Sprintf("<other representation: %v -> %v>", k, rv.MapIndex(k)))
			continue
		}
		out = append(out, fmt.Sprintf("%s|%s|%s|%s<-%s|%s|%s", parts[0], parts[1], parts[2], parts[3], parts[4], parts[5], parts[6]))
	}
	sort.Strings(out)
	return out
}

func VerifC06ToSecret(nn types.NamespacedName) VerifC06To  { return verifC06To(toSecret(nn)) }
func VerifC06ToService(nn types.NamespacedName) VerifC06To { return verifC06To(toService(nn)) }
func VerifC06FromGateway(ns string) VerifC06From           { return verifC06From(fromGateway(ns)) }
func VerifC06FromHTTPRoute(ns string) VerifC06From         { return verifC06From(fromHTTPRoute(ns)) }
func VerifC06FromGRPCRoute(ns string) VerifC06From         { return verifC06From(fromGRPCRoute(ns)) }
func VerifC06FromTLSRoute(ns string) VerifC06From          { return verifC06From(fromTLSRoute(ns)) }

// VerifC06FromRoute is getRefGrantFromResourceForRoute for HTTP/GRPC and fromTLSRoute for "TLSRoute".
func VerifC06FromRoute(kind, ns string) VerifC06From {
	switch kind {
	case "HTTPRoute":
		return verifC06From(getRefGrantFromResourceForRoute(RouteTypeHTTP, ns))
	case "GRPCRoute":
		return verifC06From(getRefGrantFromResourceForRoute(RouteTypeGRPC, ns))
	default:
		return verifC06From(fromTLSRoute(ns))
	}
}

// VerifC06ValidateRef runs the validator a route of the given kind uses for one backendRef
// (validateRouteBackendRef for HTTPRoute/GRPCRoute with nFilters backendRef filters,
// validateBackendRef for TLSRoute) with the real closure, and returns validity and condition reason.
func VerifC06ValidateRef(
	grants map[types.NamespacedName]*v1beta1.ReferenceGrant,
	kind, routeNs string,
	ref gatewayv1.BackendRef,
	nFilters int,
) (bool, string) {
	r := newReferenceGrantResolver(grants)
	path := field.NewPath("spec").Child("rules").Index(0).Child("backendRefs").Index(0)
	switch kind {
	case "HTTPRoute", "GRPCRoute":
		rt := RouteTypeHTTP
		if kind == "GRPCRoute" {
			rt = RouteTypeGRPC
		}
		rbr := RouteBackendRef{BackendRef: ref}
		for i := 0; i < nFilters; i++ {
			rbr.Filters = append(rbr.Filters, struct{}{})
		}
		valid, cond := validateRouteBackendRef(rbr, routeNs, r.refAllowedFrom(getRefGrantFromResourceForRoute(rt, routeNs)), path)
		return valid, cond.Reason
	default:
		valid, cond := validateBackendRef(ref, routeNs, r.refAllowedFrom(fromTLSRoute(routeNs)), path)
		return valid, cond.Reason
	}
}

// VerifC06ResolveCert runs createExternalReferencesForTLSSecretsResolver on a listener that passed the
// validators, and returns Valid, the condition reasons and the resolved secret ("" if none).
func VerifC06ResolveCert(
	grants map[types.NamespacedName]*v1beta1.ReferenceGrant,
	secrets map[types.NamespacedName]*apiv1.Secret,
	gwNs string,
	certRefs []gatewayv1.SecretObjectReference,
) (bool, []string, string) {
	l := &Listener{
		Source: gatewayv1.Listener{TLS: &gatewayv1.GatewayTLSConfig{CertificateRefs: certRefs}},
		Valid:  true,
	}
	createExternalReferencesForTLSSecretsResolver(gwNs, newSecretResolver(secrets), newReferenceGrantResolver(grants))(l)
	var reasons []string
	for _, c := range l.Conditions {
		reasons = append(reasons, c.Type+"/"+string(c.Status)+"/"+c.Reason)
	}
	res := ""
	if l.ResolvedSecret != nil {
		res = l.ResolvedSecret.Namespace + "/" + l.ResolvedSecret.Name
	}
	return l.Valid, reasons, res
}
