//go:build verif

package graph

import (
	v1 "k8s.io/api/core/v1"
	"k8s.io/apimachinery/pkg/types"
	"k8s.io/apimachinery/pkg/util/validation/field"
	gatewayv1 "sigs.k8s.io/gateway-api/apis/v1"
)

// VerifC15BackendRefWeight runs the real createBackendRef on a backendRef with the given weight
// (nil = absent) pointing at an existing or a missing Service, and returns the weight and validity
// of the BackendRef it produces. Used by /verif/harness/c15 only.
func VerifC15BackendRefWeight(weight *int32, serviceExists bool) (int32, bool) {
	port := gatewayv1.PortNumber(80)
	ref := RouteBackendRef{
		BackendRef: gatewayv1.BackendRef{
			BackendObjectReference: gatewayv1.BackendObjectReference{Name: "svc", Port: &port},
			Weight:                 weight,
		},
	}
	services := map[types.NamespacedName]*v1.Service{}
	if serviceExists {
		services[types.NamespacedName{Namespace: "ns", Name: "svc"}] = &v1.Service{
			Spec: v1.ServiceSpec{Ports: []v1.ServicePort{{Port: 80}}},
		}
	}
	br, _ := createBackendRef(
		ref, "ns", func(toResource) bool { return true }, services, field.NewPath("spec"), nil, nil,
	)
	return br.Weight, br.Valid
}
