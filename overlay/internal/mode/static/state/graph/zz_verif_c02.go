//go:build verif

package graph

import v1 "sigs.k8s.io/gateway-api/apis/v1"

// VerifC02FindAcceptedHostnames exposes findAcceptedHostnames to the C02 correspondence harness.
func VerifC02FindAcceptedHostnames(listenerHostname *v1.Hostname, routeHostnames []v1.Hostname) []string {
	return findAcceptedHostnames(listenerHostname, routeHostnames)
}

// VerifC02Match exposes match.
func VerifC02Match(listenerHost, routeHost string) bool { return match(listenerHost, routeHost) }
