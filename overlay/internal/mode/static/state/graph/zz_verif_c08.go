//go:build verif

package graph

// Verification-only accessors for property C08 (injected with `go build -overlay`): the
// "ancestor list is full" checks, the attach function that consults them, and the route builders
// (to obtain real aggregated validation messages).

import (
	"k8s.io/apimachinery/pkg/types"
	v1 "sigs.k8s.io/gateway-api/apis/v1"
	"sigs.k8s.io/gateway-api/apis/v1alpha2"

	"github.com/nginx/nginx-gateway-fabric/internal/mode/static/state/validation"
)

const VerifC08MaxAncestors = maxAncestors

func VerifC08BackendTLSPolicyAncestorsFull(ancestors []v1alpha2.PolicyAncestorStatus, ctlrName string) bool {
	return backendTLSPolicyAncestorsFull(ancestors, ctlrName)
}

func VerifC08NGFPolicyAncestorsFull(policy *Policy, ctlrName string) bool {
	return ngfPolicyAncestorsFull(policy, ctlrName)
}

func VerifC08AttachPolicyToRoute(policy *Policy, route *L7Route, ctlrName string) {
	attachPolicyToRoute(policy, route, ctlrName)
}

func VerifC08BuildHTTPRoute(
	validator validation.HTTPFieldsValidator,
	hr *v1.HTTPRoute,
	gatewayNsNames []types.NamespacedName,
) *L7Route {
	return buildHTTPRoute(validator, hr, gatewayNsNames, nil)
}

func VerifC08BuildGRPCRoute(
	validator validation.HTTPFieldsValidator,
	gr *v1.GRPCRoute,
	gatewayNsNames []types.NamespacedName,
) *L7Route {
	return buildGRPCRoute(validator, gr, gatewayNsNames, false, nil)
}
