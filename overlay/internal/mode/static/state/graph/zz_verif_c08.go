//go:build verif

package graph

// Verification-only accessors for property C08 (injected with `go build -overlay`): the
// "ancestor list is full" checks and the attach function that consults them.

import (
	"sigs.k8s.io/gateway-api/apis/v1alpha2"
)

const VerifC08MaxAncestors = maxAncestors

func VerifC08BackendTLSPolicyAncestorsFull(ancestors []v1alpha2.PolicyAncestorStatus, ctlrName string) bool {
	return backendTLSPolicyAncestorsFull(ancestors, ctlrName)
}

func VerifC08NGFPolicyAncestorsFull(policy *Policy, ctlrName string) bool {
	return ngfPolicyAncestorsFull(policy, ctlrName)
}

func VerifC08AttachPolicyToRoute(policy *Policy, route *L7Route, ctlrName string) {
	attachPolicyToRoute(policy, route, ctlrName)
}
