//go:build verif

package graph

// VerifC04ValidateHostname exposes validateHostname (validation.go) to the C04 correspondence harness.
func VerifC04ValidateHostname(h string) error { return validateHostname(h) }
