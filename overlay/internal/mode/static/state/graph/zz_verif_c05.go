//go:build verif

package graph

// Verification-only accessor for property C05 (injected with `go build -overlay`).

import (
	apiv1 "k8s.io/api/core/v1"
	"k8s.io/apimachinery/pkg/types"
	"k8s.io/apimachinery/pkg/util/validation/field"
	gatewayv1 "sigs.k8s.io/gateway-api/apis/v1"
	"sigs.k8s.io/gateway-api/apis/v1alpha3"

	"github.com/nginx/nginx-gateway-fabric/internal/mode/static/state/validation"
)

// VerifC05ValidateBTP runs the real validateBackendTLSPolicy and reports what
// findBackendTLSPolicyForService will find on the processed policy: validity, whether the ancestor list
// is full for this controller, and the number of conditions.
func VerifC05ValidateBTP(
	btp *v1alpha3.BackendTLSPolicy,
	configMaps map[types.NamespacedName]*apiv1.ConfigMap,
	ctlrName string,
) (valid, ignored, full bool, nconds int) {
	v, ig, conds := validateBackendTLSPolicy(btp, newConfigMapResolver(configMaps), ctlrName)
	return v, ig, backendTLSPolicyAncestorsFull(btp.Status.Ancestors, ctlrName), len(conds)
}

// ---- task C05-nil: the functions whose implicit panic sites are mirrored in lean/NGF/Model/NilGuards.lean ----

// VerifC05ValidateFilter runs the real validateFilter and returns the number of errors.
func VerifC05ValidateFilter(v validation.HTTPFieldsValidator, f Filter) int {
	return len(validateFilter(v, f, field.NewPath("filter")))
}

// VerifC05ValidatePathMatch runs the real validatePathMatch and returns the number of errors.
func VerifC05ValidatePathMatch(v validation.HTTPFieldsValidator, p *gatewayv1.HTTPPathMatch) int {
	return len(validatePathMatch(v, p, field.NewPath("path")))
}

// VerifC05BuildListeners runs the real buildListeners (getConfiguratorForListener, the validators, the conflict
// and external reference resolvers) on the Gateway's listeners.
func VerifC05BuildListeners(gw *gatewayv1.Gateway, secrets map[types.NamespacedName]*apiv1.Secret) []*Listener {
	return buildListeners(gw, newSecretResolver(secrets), newReferenceGrantResolver(nil), ProtectedPorts{})
}

// VerifC05CreateBackendRef runs the real createBackendRef (validateRouteBackendRef, getIPFamilyAndPortFromRef, …).
func VerifC05CreateBackendRef(
	ref gatewayv1.BackendRef,
	nFilters int,
	routeNs string,
	granted bool,
	services map[types.NamespacedName]*apiv1.Service,
) (valid, hasCond bool) {
	rb := RouteBackendRef{BackendRef: ref}
	for i := 0; i < nFilters; i++ {
		rb.Filters = append(rb.Filters, struct{}{})
	}
	br, cond := createBackendRef(rb, routeNs, func(toResource) bool { return granted }, services,
		field.NewPath("backendRefs").Index(0), nil, nil)
	return br.Valid, cond != nil
}

// VerifC05ProcessBTP runs the real processBackendTLSPolicies on one policy with a Gateway present.
func VerifC05ProcessBTP(
	btp *v1alpha3.BackendTLSPolicy,
	configMaps map[types.NamespacedName]*apiv1.ConfigMap,
	ctlrName string,
) (valid bool, nconds int) {
	gw := &Gateway{Source: &gatewayv1.Gateway{}}
	gw.Source.Namespace, gw.Source.Name = "default", "gw0"
	key := types.NamespacedName{Namespace: btp.Namespace, Name: btp.Name}
	out := processBackendTLSPolicies(map[types.NamespacedName]*v1alpha3.BackendTLSPolicy{key: btp},
		newConfigMapResolver(configMaps), ctlrName, gw)
	return out[key].Valid, len(out[key].Conditions)
}
