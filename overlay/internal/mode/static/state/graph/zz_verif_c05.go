//go:build verif

package graph

// Verification-only accessor for property C05 (injected with `go build -overlay`).

import (
	apiv1 "k8s.io/api/core/v1"
	"k8s.io/apimachinery/pkg/types"
	"sigs.k8s.io/gateway-api/apis/v1alpha3"
)

// VerifC05ValidateBTP runs the real validateBackendTLSPolicy and reports what
// findBackendTLSPolicyForService will find on the processed policy: validity, whether the ancestor list
// is full for this controller, and the number of conditions.
func VerifC05ValidateBTP(
	btp *v1alpha3.BackendTLSPolicy,
	configMaps map[types.NamespacedName]*apiv1.ConfigMap,
	ctlrName string,
) (valid, ignored, full bool, nconds int) {
	v, ig, conds := validateBackendTLSPolicy(btp, newConfigMapResolver(configMaps), ctlrName)
	return v, ig, backendTLSPolicyAncestorsFull(btp.Status.Ancestors, ctlrName), len(conds)
}
