//go:build verif

package state

// Verification-only accessors for property C05 (injected with `go build -overlay`).

import (
	"k8s.io/apimachinery/pkg/runtime/schema"

	"github.com/nginx/nginx-gateway-fabric/internal/mode/static/state/graph"
)

// VerifC05ClusterState returns the processor's cluster state (the maps are the live ones: callers
// must copy before changing anything).
func (c *ChangeProcessorImpl) VerifC05ClusterState() graph.ClusterState {
	c.lock.Lock()
	defer c.lock.Unlock()
	return c.clusterState
}

// VerifC05SupportedGVKs lists the GVKs the change-tracking updater accepts (assertSupportedGVK) and
// the ones it persists (mustFindStoreForObj is only reached for these).
func (c *ChangeProcessorImpl) VerifC05SupportedGVKs() (supported, persisted []schema.GroupVersionKind) {
	u, ok := c.updater.(*changeTrackingUpdater)
	if !ok {
		return nil, nil
	}
	return append([]schema.GroupVersionKind(nil), u.supportedGVKs...),
		append([]schema.GroupVersionKind(nil), u.store.persistedGVKs...)
}
