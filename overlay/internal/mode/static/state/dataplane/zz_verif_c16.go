//go:build verif

package dataplane

// Verification-only accessors for property C16 (injected with `go build -overlay`).

import (
	"k8s.io/apimachinery/pkg/types"
	v1 "sigs.k8s.io/gateway-api/apis/v1"
)

// VerifC16KeyPairID runs generateSSLKeyPairID.
func VerifC16KeyPairID(ns, name string) string {
	return string(generateSSLKeyPairID(types.NamespacedName{Namespace: ns, Name: name}))
}

// VerifC16CertBundleID runs generateCertBundleID.
func VerifC16CertBundleID(ns, name string) string {
	return string(generateCertBundleID(types.NamespacedName{Namespace: ns, Name: name}))
}

// VerifC16ListenerHostnameMoreSpecific runs listenerHostnameMoreSpecific ("" = nil hostname).
func VerifC16ListenerHostnameMoreSpecific(h1, h2 string) bool {
	var p1, p2 *v1.Hostname
	if h1 != "" {
		p1 = (*v1.Hostname)(&h1)
	}
	if h2 != "" {
		p2 = (*v1.Hostname)(&h2)
	}
	return listenerHostnameMoreSpecific(p1, p2)
}
