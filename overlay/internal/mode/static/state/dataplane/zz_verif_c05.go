//go:build verif

package dataplane

// Verification-only accessors for property C05, task C05-nil (injected with `go build -overlay`).

import (
	"github.com/nginx/nginx-gateway-fabric/internal/mode/static/state/graph"
)

// VerifC05CreateHTTPFilters runs the real createHTTPFilters (convertHTTP*Filter, convertPathModifier).
func VerifC05CreateHTTPFilters(fs []graph.Filter) { _ = createHTTPFilters(fs) }

// VerifC05BuildServers runs the real buildServers (the protocol map of the first loop) and returns the
// number of HTTP and SSL servers.
func VerifC05BuildServers(g *graph.Graph) (int, int) {
	h, s := buildServers(g)
	return len(h), len(s)
}
