//go:build verif

package dataplane

// VerifC02SortMatchRules exposes sortMatchRules to the C02 correspondence harness.
func VerifC02SortMatchRules(rules []MatchRule) { sortMatchRules(rules) }
