//go:build verif

package state

// C01 verification accessors (injected with `go build -overlay`; /repo is not modified).
// They only READ the change-tracking updater: the real Upsert/Delete/Process path is never bypassed.

import (
	"k8s.io/apimachinery/pkg/types"
	"sigs.k8s.io/controller-runtime/pkg/client"

	ngftypes "github.com/nginx/nginx-gateway-fabric/internal/framework/types"
)

// VerifC01Peek is what the real relevance predicate of the object's kind answers for this event in the
// current state (latest graph, current store), without storing anything.
type VerifC01Peek struct {
	Supported bool // kind registered in NewChangeProcessorImpl
	Persisted bool // kind has a store
	InStore   bool // persisted and an object with this name is in the store now
	HasPred   bool // kind has a stateChangedPredicate (nil predicate = every event is a change)
	Verdict   bool // the predicate's answer (true when HasPred is false)
}

func (c *ChangeProcessorImpl) verifC01Updater() *changeTrackingUpdater {
	u, ok := c.updater.(*changeTrackingUpdater)
	if !ok {
		panic("verif: updater is not a *changeTrackingUpdater")
	}
	return u
}

// VerifC01PeekUpsert evaluates the registered predicate on (object in store, obj).
func (c *ChangeProcessorImpl) VerifC01PeekUpsert(obj client.Object) (p VerifC01Peek) {
	c.lock.Lock()
	defer c.lock.Unlock()
	u := c.verifC01Updater()
	gvk := u.extractGVK(obj)
	p.Supported = u.supportedGVKs.contains(gvk)
	if !p.Supported {
		return p
	}
	p.Persisted = u.store.persists(gvk)
	var old client.Object
	if p.Persisted {
		old = u.store.get(obj, client.ObjectKeyFromObject(obj))
		p.InStore = old != nil
	}
	pred, ok := u.stateChangedPredicates[gvk]
	p.HasPred = ok
	if !ok {
		p.Verdict = true
		return p
	}
	p.Verdict = pred.upsert(old, obj)
	return p
}

// VerifC01PeekDelete evaluates the registered predicate as changeTrackingUpdater.delete does since ecaa5d2: on the
// stored object for persisted kinds, on the bare type otherwise. (The harness cross-checks the peek against the
// observed change of the pending changeType, so a tree in which delete judges something else is noticed.)
func (c *ChangeProcessorImpl) VerifC01PeekDelete(objType ngftypes.ObjectType, nsname types.NamespacedName) (p VerifC01Peek) {
	c.lock.Lock()
	defer c.lock.Unlock()
	u := c.verifC01Updater()
	gvk := u.extractGVK(objType)
	p.Supported = u.supportedGVKs.contains(gvk)
	if !p.Supported {
		return p
	}
	p.Persisted = u.store.persists(gvk)
	subject := client.Object(objType)
	if p.Persisted {
		old := u.store.get(objType, nsname)
		p.InStore = old != nil
		if old != nil {
			subject = old
		}
	}
	pred, ok := u.stateChangedPredicates[gvk]
	p.HasPred = ok
	if !ok {
		p.Verdict = true
		return p
	}
	p.Verdict = pred.delete(subject, nsname)
	return p
}

// VerifC01Pending is the pending changeType of the updater (not reset).
func (c *ChangeProcessorImpl) VerifC01Pending() int {
	c.lock.Lock()
	defer c.lock.Unlock()
	return int(c.verifC01Updater().changeType)
}
