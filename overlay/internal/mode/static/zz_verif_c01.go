//go:build verif

package static

// C01 verification accessors (injected with `go build -overlay`; /repo is not modified).
// All identifiers are prefixed VerifC01.

import (
	"context"
	"time"

	"github.com/go-logr/logr"
	"go.uber.org/zap"
	"k8s.io/apimachinery/pkg/types"
	"k8s.io/client-go/tools/record"
	"sigs.k8s.io/controller-runtime/pkg/client"

	"github.com/nginx/nginx-gateway-fabric/internal/framework/events"
	frameworkStatus "github.com/nginx/nginx-gateway-fabric/internal/framework/status"
	ngfConfig "github.com/nginx/nginx-gateway-fabric/internal/mode/static/config"
	"github.com/nginx/nginx-gateway-fabric/internal/mode/static/licensing"
	ngxConfig "github.com/nginx/nginx-gateway-fabric/internal/mode/static/nginx/config"
	"github.com/nginx/nginx-gateway-fabric/internal/mode/static/nginx/file"
	"github.com/nginx/nginx-gateway-fabric/internal/mode/static/nginx/runtime"
	"github.com/nginx/nginx-gateway-fabric/internal/mode/static/state"
	"github.com/nginx/nginx-gateway-fabric/internal/mode/static/state/resolver"
)

// VerifC01Deps are the collaborators of the real eventHandlerImpl that the harness replaces.
type VerifC01Deps struct {
	Plus           bool
	ControllerName string
	Generator      ngxConfig.Generator
	FileMgr        file.Manager
	RuntimeMgr     runtime.Manager
	Processor      state.ChangeProcessor
	Resolver       resolver.ServiceResolver
	StatusUpdater  frameworkStatus.GroupUpdater
	K8sClient      client.Client
	DeployCtx      licensing.Collector
	PodConfig      ngfConfig.GatewayPodConfig
	// ControlConfigNSName is the NginxGateway object of this controller (StartManager: cfg.GatewayPodConfig.Namespace / cfg.ConfigName)
	ControlConfigNSName types.NamespacedName
}

// VerifC01Handler wraps the real, unexported eventHandlerImpl.
type VerifC01Handler struct{ h *eventHandlerImpl }

type verifC01MetricsCollector struct{}

func (verifC01MetricsCollector) ObserveLastEventBatchProcessTime(time.Duration) {}

// VerifC01NewHandler wires the handler as StartManager does.
func VerifC01NewHandler(d VerifC01Deps) *VerifC01Handler {
	h := newEventHandlerImpl(eventHandlerConfig{
		plus:                          d.Plus,
		generator:                     d.Generator,
		nginxFileMgr:                  d.FileMgr,
		nginxRuntimeMgr:               d.RuntimeMgr,
		processor:                     d.Processor,
		serviceResolver:               d.Resolver,
		statusUpdater:                 d.StatusUpdater,
		k8sClient:                     d.K8sClient,
		deployCtxCollector:            d.DeployCtx,
		metricsCollector:              verifC01MetricsCollector{},
		nginxConfiguredOnStartChecker: newNginxConfiguredOnStartChecker(),
		eventRecorder:                 record.NewFakeRecorder(1 << 12),
		gatewayPodConfig:              d.PodConfig,
		controlConfigNSName:           d.ControlConfigNSName,
		logLevelSetter:                newZapLogLevelSetter(zap.NewAtomicLevel()),
		gatewayCtlrName:               d.ControllerName,
		updateGatewayClassStatus:      true,
	})
	return &VerifC01Handler{h: h}
}

// HandleEventBatch is the real HandleEventBatch.
func (v *VerifC01Handler) HandleEventBatch(ctx context.Context, batch events.EventBatch) {
	v.h.HandleEventBatch(ctx, logr.Discard(), batch)
}

// VerifC01FirstBatchArgs is the real prepareFirstEventBatchPreparerArgs.
func VerifC01FirstBatchArgs(className string, experimental, snippets bool) ([]client.Object, []client.ObjectList) {
	return prepareFirstEventBatchPreparerArgs(ngfConfig.Config{
		GatewayClassName:     className,
		ExperimentalFeatures: experimental,
		SnippetsFilters:      snippets,
	})
}
