//go:build verif

package static

// C07 verification accessors (injected with `go build -overlay`; /repo is not modified).
// All identifiers are prefixed VerifC07. Gives the harness the real, unexported eventHandlerImpl so that the
// reload result that reaches status preparation is the one the REAL HandleEventBatch records.

import (
	"context"
	"time"

	"github.com/go-logr/logr"
	"k8s.io/client-go/tools/record"
	"sigs.k8s.io/controller-runtime/pkg/client"

	"github.com/nginx/nginx-gateway-fabric/internal/framework/events"
	frameworkStatus "github.com/nginx/nginx-gateway-fabric/internal/framework/status"
	ngfConfig "github.com/nginx/nginx-gateway-fabric/internal/mode/static/config"
	"github.com/nginx/nginx-gateway-fabric/internal/mode/static/licensing"
	ngxConfig "github.com/nginx/nginx-gateway-fabric/internal/mode/static/nginx/config"
	"github.com/nginx/nginx-gateway-fabric/internal/mode/static/nginx/file"
	"github.com/nginx/nginx-gateway-fabric/internal/mode/static/nginx/runtime"
	"github.com/nginx/nginx-gateway-fabric/internal/mode/static/state"
	"github.com/nginx/nginx-gateway-fabric/internal/mode/static/state/dataplane"
	"github.com/nginx/nginx-gateway-fabric/internal/mode/static/state/resolver"
)

// VerifC07Deps are the collaborators of the real eventHandlerImpl that the harness supplies.
type VerifC07Deps struct {
	Plus          bool
	Generator     ngxConfig.Generator
	FileMgr       file.Manager
	RuntimeMgr    runtime.Manager
	Processor     state.ChangeProcessor
	Resolver      resolver.ServiceResolver
	StatusUpdater frameworkStatus.GroupUpdater
	K8sClient     client.Client
	DeployCtx     licensing.Collector
	EventRecorder record.EventRecorder
	CtlrName      string
}

// VerifC07Handler wraps the real eventHandlerImpl.
type VerifC07Handler struct {
	h *eventHandlerImpl
}

type verifC07MetricsCollector struct{}

func (verifC07MetricsCollector) ObserveLastEventBatchProcessTime(time.Duration) {}

func VerifC07NewHandler(d VerifC07Deps) *VerifC07Handler {
	h := newEventHandlerImpl(eventHandlerConfig{
		plus:                          d.Plus,
		generator:                     d.Generator,
		nginxFileMgr:                  d.FileMgr,
		nginxRuntimeMgr:               d.RuntimeMgr,
		processor:                     d.Processor,
		serviceResolver:               d.Resolver,
		statusUpdater:                 d.StatusUpdater,
		k8sClient:                     d.K8sClient,
		deployCtxCollector:            d.DeployCtx,
		eventRecorder:                 d.EventRecorder,
		metricsCollector:              verifC07MetricsCollector{},
		nginxConfiguredOnStartChecker: newNginxConfiguredOnStartChecker(),
		gatewayCtlrName:               d.CtlrName,
		updateGatewayClassStatus:      true,
		gatewayPodConfig:              ngfConfig.GatewayPodConfig{ServiceName: "nginx-gateway", Namespace: "nginx-gateway", PodIP: "10.0.0.1"},
	})
	return &VerifC07Handler{h: h}
}

// HandleEventBatch is the real HandleEventBatch.
func (v *VerifC07Handler) HandleEventBatch(ctx context.Context, batch events.EventBatch) {
	v.h.HandleEventBatch(ctx, logr.Discard(), batch)
}

// Version is h.version.
func (v *VerifC07Handler) Version() int { return v.h.version }

// LatestReloadErr is h.latestReloadResult.Error.
func (v *VerifC07Handler) LatestReloadErr() error { return v.h.latestReloadResult.Error }

// LatestConfiguration is the configuration the handler built last (nil before the first change).
func (v *VerifC07Handler) LatestConfiguration() *dataplane.Configuration { return v.h.GetLatestConfiguration() }
