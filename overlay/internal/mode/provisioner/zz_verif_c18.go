//go:build verif

package provisioner

// Injected by /verif with `go build -overlay` (never present in /repo): in-package access to the
// unexported provisioner event handler for the C18 correspondence harness.

import (
	"context"
	"sort"
	"time"

	"github.com/go-logr/logr"
	metav1 "k8s.io/apimachinery/pkg/apis/meta/v1"
	"sigs.k8s.io/controller-runtime/pkg/client"

	"github.com/nginx/nginx-gateway-fabric/internal/framework/events"
	"github.com/nginx/nginx-gateway-fabric/internal/framework/status"
)

// VerifHandler wraps the real eventHandler.
type VerifHandler struct{ h *eventHandler }

// VerifNewEventHandler calls the real newEventHandler with a fixed clock.
func VerifNewEventHandler(gcName string, su *status.Updater, c client.Client, depYAML []byte) *VerifHandler {
	t := metav1.NewTime(time.Unix(1700000000, 0))
	return &VerifHandler{h: newEventHandler(gcName, su, c, depYAML, func() metav1.Time { return t })}
}

// Handle runs the real HandleEventBatch.
func (v *VerifHandler) Handle(ctx context.Context, batch events.EventBatch) {
	v.h.HandleEventBatch(ctx, logr.Discard(), batch)
}

// VerifProvision is one entry of eventHandler.provisions.
type VerifProvision struct {
	GwNs, GwName, DepName string
}

// Provisions dumps eventHandler.provisions.
func (v *VerifHandler) Provisions() []VerifProvision {
	out := make([]VerifProvision, 0, len(v.h.provisions))
	for k, d := range v.h.provisions {
		name := "<nil>"
		if d != nil {
			name = d.Name
		}
		out = append(out, VerifProvision{k.Namespace, k.Name, name})
	}
	return out
}

// StoreGateways dumps store.gateways as "ns/name" -> gatewayClassName.
func (v *VerifHandler) StoreGateways() map[string]string {
	out := map[string]string{}
	for k, g := range v.h.store.gateways {
		out[k.String()] = string(g.Spec.GatewayClassName)
	}
	return out
}

// StoreGatewayClasses dumps the keys of store.gatewayClasses.
func (v *VerifHandler) StoreGatewayClasses() []string {
	out := []string{}
	for k := range v.h.store.gatewayClasses {
		out = append(out, k.Name)
	}
	sort.Strings(out)
	return out
}

// NextID returns eventHandler.gatewayNextID.
func (v *VerifHandler) NextID() int64 { return v.h.gatewayNextID }
