// Runs the UNMODIFIED httpmatches.js (path in argv[2]) on the N cases of harness/c02 read from stdin
// (one JSON object per line: {"matches":[…],"req":{"method","headers":[[k,v]…],"args":[[k,v]…]}}) and
// prints one answer per line: the redirectPath of the winning match, "404" or "500".
//
// The mock request object follows the njs reference (DESIGN §4):
//   r.headersIn[name]  case-insensitive lookup; several header lines of one name are joined with ","
//   r.args             object keyed case-sensitively; a repeated key becomes an array in order of appearance
//   r.return(code), r.internalRedirect(uri), r.error(msg), r.method, r.variables
import fs from 'node:fs';
import readline from 'node:readline';

const src = fs.readFileSync(process.argv[2], 'utf8');
const mod = await import('data:text/javascript;base64,' + Buffer.from(src).toString('base64'));
const hm = mod.default;

function mkReq(req) {
	const headers = {};
	for (const [k, v] of req.headers) {
		const lk = k.toLowerCase();
		headers[lk] = lk in headers ? headers[lk] + ',' + v : v;
	}
	const headersIn = new Proxy({}, { get: (_, name) => (typeof name === 'string' ? headers[name.toLowerCase()] : undefined) });
	const args = {};
	for (const [k, v] of req.args) {
		if (k in args) {
			args[k] = Array.isArray(args[k]) ? [...args[k], v] : [args[k], v];
		} else {
			args[k] = v;
		}
	}
	const r = {
		method: req.method, headersIn, args, variables: {}, out: null,
		return(code) { this.out = String(code); },
		internalRedirect(uri) { this.out = uri.split('?')[0]; },
		error() {},
	};
	return r;
}

const rl = readline.createInterface({ input: process.stdin });
for await (const line of rl) {
	if (!line.trim()) continue;
	const c = JSON.parse(line);
	const r = mkReq(c.req);
	try {
		hm.verifyMatchList(c.matches);
		hm.redirectForMatchList(r, c.matches);
	} catch (e) {
		r.out = '500';
	}
	console.log(JSON.stringify(r.out));
}
