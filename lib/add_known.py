#!/usr/bin/env python3
"""add_known.py <ID> <signature> "<what fails>" [--fixed <commit>]   — edits known_findings.json under a lock."""
import fcntl, json, os, sys
VERIF = os.path.dirname(os.path.dirname(os.path.abspath(__file__)))
pid, sig, what = sys.argv[1], sys.argv[2], sys.argv[3]
fixed = sys.argv[5] if len(sys.argv) > 5 and sys.argv[4] == "--fixed" else None
p = os.path.join(VERIF, "known_findings.json")
os.makedirs(os.path.join(VERIF, "work"), exist_ok=True)
with open(os.path.join(VERIF, "work", "known.lock"), "w") as lk:
    fcntl.flock(lk, fcntl.LOCK_EX)
    d = json.load(open(p))
    if fixed:
        d["fixed"] = [e for e in d["fixed"] if not (e["property"] == pid and e["signature"] == sig)]
        d["fixed"].append({"property": pid, "signature": sig, "commit": fixed, "what": what,
                           "line": f"fixed: property={pid} {fixed} {what}"})
        d["findings"] = [e for e in d["findings"] if not (e["property"] == pid and e["signature"] == sig)]
    else:
        d["findings"] = [e for e in d["findings"] if not (e["property"] == pid and e["signature"] == sig)]
        d["findings"].append({"property": pid, "signature": sig, "what": what})
    tmp = p + ".tmp"
    json.dump(d, open(tmp, "w"), indent=1)
    os.replace(tmp, p)
print("ok")
