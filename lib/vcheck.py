"""Common machinery of the /verif checks (see DESIGN.md §3).

A property plugin (props/cNN.py) exposes  run(ctx) -> None  and uses the helpers below:

  ctx.prepare()                      regenerate facts from /repo, build harness + Lean driver
  ctx.obligations("NGF.Props.C10")   lake build + axiom audit of the property theorems
  ctx.harness([...]) / ctx.driver(prop, mode, lines)
  ctx.finding(...) / ctx.broken(...) record judge failures / broken ties
  ctx.finish(coverage)               known-findings matching, VIOLATION lines, evidence, exit code
"""
import fcntl
import hashlib
import json
import os
import re
import subprocess
import sys
import time

VERIF = os.path.dirname(os.path.dirname(os.path.abspath(__file__)))
REPO = os.environ.get("VERIF_REPO", "/repo")
LEAN = os.path.join(VERIF, "lean")
WORK = os.path.join(VERIF, "work")
GENERATED = os.path.join(LEAN, "NGF", "Generated")
TRANSLATOR_BIN = os.path.join(VERIF, "translator", "bin", "translator")
ALLOWED_AXIOMS = {"propext", "Classical.choice", "Quot.sound"}
FORBIDDEN_RE = re.compile(
    r"\bsorry\b|\badmit\b|^axiom\s|native_decide|bv_decide|implemented_by|\bunsafe\s|maxHeartbeats\s+0")

GOENV = dict(os.environ)
GOENV.update({"GOFLAGS": "-mod=mod", "GOPROXY": "off", "GOSUMDB": "off", "GOTOOLCHAIN": "local",
              "CGO_ENABLED": "0"})

TRUSTED_BASE_COMMON = [
    "Lean 4.33.0 kernel; axioms limited to propext, Classical.choice, Quot.sound (audited per theorem)",
    "translator (/verif/translator, go/ast) reading the current /repo sources",
    "correspondence harness (/verif/harness) driving the real Go code in-process",
]


def sh(cmd, cwd=None, env=None, timeout=None, input=None):
    p = subprocess.run(cmd, cwd=cwd, env=env, timeout=timeout, input=input,
                       stdout=subprocess.PIPE, stderr=subprocess.PIPE, text=True)
    return p.returncode, p.stdout, p.stderr


class Lock:
    """File lock shared by all check processes; re-entrant within one process."""
    _held = {}

    def __init__(self, name):
        os.makedirs(WORK, exist_ok=True)
        self.name = name
        self.path = os.path.join(WORK, name + ".lock")

    def __enter__(self):
        ent = Lock._held.get(self.name)
        if ent:
            ent[1] += 1
            return self
        f = open(self.path, "w")
        fcntl.flock(f, fcntl.LOCK_EX)
        Lock._held[self.name] = [f, 1]
        return self

    def __exit__(self, *a):
        ent = Lock._held[self.name]
        ent[1] -= 1
        if ent[1] == 0:
            fcntl.flock(ent[0], fcntl.LOCK_UN)
            ent[0].close()
            del Lock._held[self.name]


def strip_comments(text):
    """Remove Lean block and line comments (good enough for the forbidden-word grep)."""
    out, i, depth, n = [], 0, 0, len(text)
    while i < n:
        if text.startswith("/-", i):
            depth += 1
            i += 2
        elif depth and text.startswith("-/", i):
            depth -= 1
            i += 2
        elif depth:
            if text[i] == "\n":
                out.append("\n")
            i += 1
        elif text.startswith("--", i):
            while i < n and text[i] != "\n":
                i += 1
        else:
            out.append(text[i])
            i += 1
    return "".join(out)


class Ctx:
    def __init__(self, prop, tier, seed, replay=None):
        self.prop = prop
        self.tier = tier
        self.seed = seed
        self.replay_in = replay
        self.t0 = time.time()
        self.findings = []      # judge failures with a concrete input
        self.brokens = []       # broken obligations / correspondence without (yet) a failing input
        self.obl_total = 0
        self.obl_ok = 0
        self.obl_names = []
        self.notes = []
        self.build_errors = []
        self.facts = {}
        os.makedirs(WORK, exist_ok=True)
        os.makedirs(os.path.join(WORK, "replays"), exist_ok=True)
        for fn in os.listdir(os.path.join(WORK, "replays")):
            if fn.startswith(prop + "-"):
                os.remove(os.path.join(WORK, "replays", fn))

    # ------------------------------------------------------------------ build
    def log(self, msg):
        print(f"[{self.prop}] {msg}", file=sys.stderr, flush=True)

    def prepare(self, harness=None, driver=None):
        """Rebuild everything that depends on /repo's working tree.
        harness: list of harness commands (directories under harness/cmd) to build, default [<prop>];
        driver: list of Lean driver ids (files NGF/Driver/<ID>.lean), default [<PROP>]."""
        harness = [self.prop.lower()] if harness is None else harness
        driver = [self.prop] if driver is None else driver
        self.bindir = os.path.join(WORK, "bin", f"{self.prop}-{os.getpid()}")
        os.makedirs(self.bindir, exist_ok=True)
        import atexit
        import shutil
        atexit.register(lambda: shutil.rmtree(self.bindir, ignore_errors=True))
        with Lock("translator"):
            rc, out, err = sh(["go", "build", "-o", TRANSLATOR_BIN, "."],
                              cwd=os.path.join(VERIF, "translator"), env=GOENV)
            if rc != 0:
                raise SystemExit(f"translator does not build (framework error):\n{err}")
            rc, out, err = sh([TRANSLATOR_BIN, "-repo", REPO, "-out", GENERATED])
            if rc not in (0, 3):
                raise SystemExit(f"translator crashed (framework error):\n{err}")
            self.translator_errors = [l for l in err.splitlines() if l.strip()]
            try:
                self.facts = json.load(open(os.path.join(GENERATED, "facts.json")))
            except Exception:
                self.facts = {}
        self.harness_ok = True
        for h in harness:
            if not self._build_harness(h):
                self.harness_ok = False
        if driver:
            with Lock("build"):
                sh([sys.executable, os.path.join(LEAN, "gen_driver.py")])
                rc, out, err = sh(["lake", "build"] + [f"ngfdriver_{d}" for d in driver], cwd=LEAN)
            if rc != 0:
                raise SystemExit(f"Lean driver does not build (framework error):\n{out}\n{err}")

    def _harness_mod(self):
        """go.mod/go.sum/overlay for the harness, pointing at REPO (default /repo)."""
        hdir = os.path.join(VERIF, "harness")
        tag = hashlib.sha1(REPO.encode()).hexdigest()[:8]
        mod = os.path.join(WORK, f"harness-{tag}.mod")
        base = open(os.path.join(hdir, "go.mod")).read().replace("=> /repo", "=> " + REPO)
        sums = open(os.path.join(REPO, "go.sum")).read()
        extra_p = os.path.join(hdir, "extra.sum")
        if os.path.exists(extra_p):
            sums += open(extra_p).read()
        for path, want in ((mod, base), (mod[:-4] + ".sum", sums)):
            if not os.path.exists(path) or open(path).read() != want:
                open(path, "w").write(want)
        # overlay: every file under /verif/overlay/<rel> is injected at REPO/<rel>
        odir = os.path.join(VERIF, "overlay")
        repl = {}
        for root, _, files in os.walk(odir):
            for fn in files:
                if fn.endswith(".go"):
                    full = os.path.join(root, fn)
                    repl[os.path.join(REPO, os.path.relpath(full, odir))] = full
        ov = os.path.join(WORK, f"overlay-{tag}.json")
        want = json.dumps({"Replace": repl}, indent=1, sort_keys=True)
        if not os.path.exists(ov) or open(ov).read() != want:
            open(ov, "w").write(want)
        return mod, ov

    def _build_harness(self, name):
        hdir = os.path.join(VERIF, "harness")
        with Lock("harnessmod"):
            mod, ov = self._harness_mod()
        out_bin = os.path.join(self.bindir, name)
        cmd = ["go", "build", "-tags", "verif", "-modfile", mod, "-overlay", ov, "-o", out_bin, "./cmd/" + name]
        rc, out, err = sh(cmd, cwd=hdir, env=GOENV)
        if rc != 0:
            # An accessor file of ANOTHER property may name an identifier the tree under test no longer has. This
            # command only needs the accessors of the harness packages it imports: retry with exactly those, so that a
            # change to the repository disturbs only the checks whose own accessors it touches.
            rc2, deps, _ = sh(["go", "list", "-deps", "-tags", "verif", "-modfile", mod, "./cmd/" + name], cwd=hdir, env=GOENV)
            ids = {name} | {l.rsplit("/", 1)[1] for l in deps.splitlines() if "/verifharness/" in l}
            full = json.load(open(ov))["Replace"]
            own = {k: v for k, v in full.items()
                   if (m := re.search(r"/zz_verif_([a-z0-9]+?)(?:_[^/]*)?\.go$", v)) and m.group(1) in ids}
            if rc2 == 0 and len(own) < len(full):
                ov2 = os.path.join(self.bindir, f"overlay-{name}.json")
                open(ov2, "w").write(json.dumps({"Replace": own}, indent=1, sort_keys=True))
                cmd2 = [ov2 if c == ov else c for c in cmd]
                rc3, out3, err3 = sh(cmd2, cwd=hdir, env=GOENV)
                if rc3 == 0:
                    self.notes.append(f"harness {name} built with its own accessor files only "
                                      f"({len(own)} of {len(full)}): another property's accessor does not compile on this tree")
                    self.log(self.notes[-1])
                    return True
            self.build_errors.append(f"harness {name}: " + err[-4000:])
            self.log(f"harness {name} build FAILED:\n" + err[-2000:])
            return False
        return True

    # ------------------------------------------------------------ obligations
    def obligations(self, module, extra_sources=()):
        """lake build <module>, audit axioms, grep for forbidden constructs.
        Returns True when every obligation is discharged."""
        rel = module.replace(".", "/") + ".lean"
        path = os.path.join(LEAN, rel)
        text = open(path).read()
        names = re.findall(r"^(?:@\[[^\]]*\]\s*)?theorem\s+([^\s:({\[]+)", text, re.M)
        self.obl_names += [f"{module}:{n}" for n in names]
        self.obl_total += len(names)
        ok = True
        # forbidden constructs in this module and every hand-written module it imports (transitively)
        for src in self._transitive_sources(path):
            body = strip_comments(open(src).read())
            for ln, line in enumerate(body.splitlines(), 1):
                if FORBIDDEN_RE.search(line):
                    self.broken(f"forbidden construct in {os.path.relpath(src, LEAN)}:{ln}: {line.strip()[:80]}",
                                kind="obligation")
                    ok = False
        # Generated/ is shared by all check processes (possibly of different VERIF_REPO trees): hold the
        # translator lock from regeneration to the end of build + audit so the facts are those of OUR tree.
        with Lock("translator"):
            sh([TRANSLATOR_BIN, "-repo", REPO, "-out", GENERATED])
            return self._obligations_locked(module, rel, text, names, ok)

    def _obligations_locked(self, module, rel, text, names, ok):
        with Lock("build"):
            rc, out, err = sh(["lake", "build", module], cwd=LEAN)
        if rc != 0:
            failed = self._failed_theorems(out + err, rel, text)
            gen_errs = [l for l in (out + err).splitlines() if "error" in l][:8]
            for n in failed or ["<module does not build>"]:
                self.broken(f"theorem {module}:{n} no longer checks", kind="obligation",
                            detail="\n".join(gen_errs))
            self.obl_ok += max(0, len(names) - max(1, len(failed)))
            return False
        # axiom audit
        audit = os.path.join(WORK, f"audit_{module.replace('.', '_')}.lean")
        open(audit, "w").write(f"import NGF.AuditLib\nimport {module}\n#audit_module {module}\n")
        with Lock("build"):
            sh(["lake", "build", "NGF.AuditLib"], cwd=LEAN)
            rc, out, err = sh(["lake", "env", "lean", audit], cwd=LEAN)
        if rc != 0 or "AUDITED" not in out:
            self.broken(f"axiom audit of {module} failed to run", kind="obligation", detail=(out + err)[-2000:])
            return False
        seen = {}
        for line in out.splitlines():
            m = re.match(r"AXIOMS (\S+) \[(.*)\]", line)
            if m:
                axs = [a.strip() for a in m.group(2).split(",") if a.strip()]
                seen[m.group(1)] = axs
                bad = [a for a in axs if a not in ALLOWED_AXIOMS]
                if bad:
                    self.broken(f"theorem {m.group(1)} depends on axioms {bad}", kind="obligation")
                    ok = False
            elif line.startswith("SUSPECT"):
                self.broken(f"{line} in {module}", kind="obligation")
                ok = False
        good = 0
        for n in names:
            hit = [k for k in seen if k == n or k.endswith("." + n)]
            if hit:
                good += 1
            else:
                self.broken(f"theorem {module}:{n} not found by the audit", kind="obligation")
                ok = False
        self.obl_ok += good
        return ok

    def _transitive_sources(self, path, acc=None):
        acc = acc if acc is not None else []
        if path in acc or not os.path.exists(path):
            return acc
        acc.append(path)
        for m in re.findall(r"^import\s+(NGF\.[\w.]+)", open(path).read(), re.M):
            if m.startswith("NGF.Generated") or m == "NGF.AuditLib":
                continue
            self._transitive_sources(os.path.join(LEAN, m.replace(".", "/") + ".lean"), acc)
        return acc

    @staticmethod
    def _failed_theorems(log, rel, text):
        lines = text.splitlines()
        starts = []
        for i, l in enumerate(lines, 1):
            m = re.match(r"(?:@\[[^\]]*\]\s*)?(?:private\s+)?(?:theorem|example|def|lemma)\s*([^\s:({\[]*)", l)
            if m:
                starts.append((i, m.group(1) or f"example@{i}"))
        failed = []
        errlines = "\n".join(l for l in log.splitlines() if "error" in l)
        for m in re.finditer(re.escape(rel) + r":(\d+):\d+", errlines):
            ln = int(m.group(1))
            name = None
            for s, n in starts:
                if s <= ln:
                    name = n
            if name and name not in failed:
                failed.append(name)
        return failed

    def leanchecker(self, module):
        with Lock("build"):
            rc, out, err = sh(["lake", "env", "leanchecker", module], cwd=LEAN, timeout=1800)
        if rc != 0:
            self.broken(f"leanchecker rejects {module}", kind="obligation", detail=(out + err)[-2000:])
            return False
        return True

    # ----------------------------------------------------------- running code
    def harness(self, args, timeout=3600, input=None, env=None, cmd=None):
        """Run harness command `cmd` (default: this property's) with args; returns stdout lines or None."""
        cmd = cmd or self.prop.lower()
        binp = os.path.join(self.bindir, cmd)
        if not os.path.exists(binp):
            return None
        e = dict(os.environ)
        e.setdefault("GOMEMLIMIT", "8GiB")
        e["VERIF_REPO"] = REPO
        if env:
            e.update(env)
        try:
            rc, out, err = sh([binp] + [str(a) for a in args], timeout=timeout, input=input, env=e)
        except subprocess.TimeoutExpired:
            self.log(f"harness {cmd} {args} timed out after {timeout}s")
            self.harness_rc, self.harness_err = -1, "timeout"
            return None
        self.harness_rc, self.harness_err = rc, err[-4000:]
        if rc != 0:
            self.log(f"harness {cmd} {args} exited {rc}: {err[-1500:]}")
        return out.splitlines()

    def driver(self, mode, lines, timeout=3600, prop=None):
        """Pipe lines through the Lean driver `ngfdriver_<prop> <mode…>`; one answer per line."""
        prop = prop or self.prop
        binp = os.path.join(LEAN, ".lake", "build", "bin", f"ngfdriver_{prop}")
        modes = mode if isinstance(mode, (list, tuple)) else [mode]
        rc, out, err = sh([binp] + list(modes), input="\n".join(lines) + ("\n" if lines else ""),
                          timeout=timeout)
        if rc != 0:
            raise SystemExit(f"Lean driver failed (framework error): {err[-2000:]}")
        res = out.splitlines()
        if len(res) != len(lines):
            raise SystemExit(f"Lean driver answered {len(res)} lines for {len(lines)} inputs")
        return res

    # ---------------------------------------------------------------- verdict
    def finding(self, signature, what, replay):
        """A concrete input on which the property fails on the real code."""
        self.findings.append({"signature": signature, "what": what, "replay": replay})

    def broken(self, what, kind="correspondence", detail="", replay=None):
        """A proof obligation or a correspondence that no longer checks."""
        self.brokens.append({"kind": kind, "what": what, "detail": detail, "replay": replay})

    def dependency(self, other, why):
        """This property's theorems ASSUME a mechanism that is the subject of a sibling property `other`
        (e.g. C07's statuses reach the API through the leader-aware updater of C09). The assumption is
        discharged by running the sibling's check on the same tree and tier: a violation it reports
        (with its concrete replay, if it found one) is a violation of this property's end-to-end claim.
        Known findings of the sibling are the sibling's business and are not repeated here.
        VERIF_NO_DEPS=1 (set for the nested run) prevents recursion."""
        self.deps = getattr(self, "deps", [])
        if os.environ.get("VERIF_NO_DEPS") == "1":
            return
        env = dict(os.environ, VERIF_NO_DEPS="1", VERIF_EVIDENCE_SUFFIX=f".dep-of-{self.prop}",
                   VERIF_SEED=str(self.seed))
        try:
            rc, out, err = sh([os.path.join(VERIF, "check"), other, "--tier", self.tier], cwd=VERIF, env=env,
                              timeout=3600)
        except subprocess.TimeoutExpired:
            self.broken(f"dependency check {other} timed out", kind="dependency")
            self.deps.append({"property": other, "why": why, "exit": "timeout"})
            return
        vio = [l for l in out.splitlines() if l.startswith("VIOLATION")]
        self.deps.append({"property": other, "why": why, "exit": rc, "violations": len(vio)})
        if rc not in (0, 1):
            self.broken(f"dependency check {other} failed to run (exit {rc}): {err[-300:]}", kind="dependency")
        for l in vio:
            parts = dict(x.split("=", 1) for x in l.split()[1:] if "=" in x)
            rp = parts.get("replay", "")
            inner = None
            try:
                inner = json.load(open(rp))
            except Exception:
                pass
            if "no-failing-input-found" in l:
                self.broken(f"assumed mechanism of {other} ({why}): its obligations/correspondence no longer check",
                            kind="dependency", detail=json.dumps(inner)[:4000] if inner else l)
            else:
                sig = (inner or {}).get("signature", os.path.basename(rp))
                self.finding(f"{self.prop}:via-{sig}",
                             f"{why}: the check of {other} found a failing input ({(inner or {}).get('what', '')[:300]})",
                             {"dependency": other, "replay_of_dependency": inner})

    TIMING_RE = re.compile(r"hang|stuck|time-?out|timed out|inconclusive|deadline|did not return", re.I)

    def _confirm_timing_items(self):
        """Verdicts that rest on a wall-clock bound (a step that 'hangs', a send that is 'stuck', an inconclusive
        timeout) are not evidence on a machine that was stalled for a moment. Before such an item is reported the
        whole check is run once more (same seed and tier, no dependencies); the item is kept only if that run also
        reports a violation of the timing class. Everything else is reported as usual; a deterministic defect
        reproduces and is kept."""
        if os.environ.get("VERIF_CONFIRM") == "1":
            return
        known = load_known().get(self.prop, [])
        is_t = lambda txt: bool(self.TIMING_RE.search(txt or ""))
        tf = [f for f in self.findings if match_known(known, f["signature"]) is None
              and is_t(f["signature"] + " " + f.get("what", ""))]
        tb = [b for b in self.brokens if is_t(b.get("what", ""))]
        if not tf and not tb:
            return
        env = dict(os.environ, VERIF_CONFIRM="1", VERIF_NO_DEPS="1", VERIF_SEED=str(self.seed),
                   VERIF_EVIDENCE_SUFFIX=f".confirm-{self.prop}")
        confirmed = False
        try:
            rc, out, err = sh([os.path.join(VERIF, "check"), self.prop, "--tier", self.tier], cwd=VERIF, env=env,
                              timeout=3600)
            for l in out.splitlines():
                if not l.startswith("VIOLATION"):
                    continue
                rp = dict(x.split("=", 1) for x in l.split()[1:] if "=" in x).get("replay", "")
                try:
                    inner = json.load(open(rp))
                except Exception:
                    inner = {}
                texts = [inner.get("signature", ""), inner.get("what", "")] + \
                        [b.get("what", "") for b in inner.get("broken", [])]
                if any(is_t(t) for t in texts):
                    confirmed = True
        except subprocess.TimeoutExpired:
            confirmed = True
        if confirmed:
            return
        self.findings = [f for f in self.findings if f not in tf]
        self.brokens = [b for b in self.brokens if b not in tb]
        self.notes.append(f"{len(tf)} finding(s) and {len(tb)} broken item(s) that rest on a wall-clock bound did not "
                          f"reproduce when the check was run again and are not reported: "
                          + "; ".join([f['signature'] for f in tf] + [b['what'][:80] for b in tb])[:600])
        self.log(self.notes[-1])

    def finish(self, coverage, assumptions=(), trusted=()):
        self._confirm_timing_items()
        known = load_known().get(self.prop, [])
        violations = 0
        printed_known = set()
        unlisted = []
        for f in self.findings:
            k = match_known(known, f["signature"])
            if k is not None:
                if k["signature"] not in printed_known:
                    printed_known.add(k["signature"])
                    print(f"KNOWN-FINDING: property={self.prop} {k['what']}")
            else:
                unlisted.append(f)
        # one VIOLATION line per distinct signature
        by_sig = {}
        for f in unlisted:
            by_sig.setdefault(f["signature"], f)
        for sig, f in by_sig.items():
            path = self._write_replay(sig, {"property": self.prop, "signature": sig, "what": f["what"],
                                            "input": f["replay"], "seed": self.seed, "tier": self.tier})
            print(f"VIOLATION property={self.prop} replay={path}")
            violations += 1
        if self.brokens and not by_sig:
            # Broken tie / obligation and the search found no failing input that is not already listed.
            # If every broken item is explained by a listed known finding, it is not reported again.
            unexplained = [b for b in self.brokens if not b.get("explained_by_known")]
            if unexplained:
                sig = "broken:" + hashlib.sha1(unexplained[0]["what"].encode()).hexdigest()[:10]
                path = self._write_replay(sig, {"property": self.prop, "no_failing_input_found": True,
                                                "broken": unexplained, "seed": self.seed, "tier": self.tier})
                print(f"VIOLATION property={self.prop} replay={path} no-failing-input-found")
                violations += 1
        cov = dict(coverage)
        cov.setdefault("obligations", self.obl_total)
        cov.setdefault("discharged", self.obl_ok)
        cov.setdefault("checker_cmd", f"cd /verif/lean && lake build NGF.Props.{self.prop} && lake env lean work/audit (#audit_module: #print axioms per theorem)")
        cov.setdefault("trusted_base", TRUSTED_BASE_COMMON + list(trusted))
        cov["obligation_names"] = self.obl_names
        cov["broken"] = [b["what"] for b in self.brokens]
        cov["known_findings_seen"] = sorted(printed_known)
        cov["translator_errors"] = getattr(self, "translator_errors", [])
        if self.notes:
            cov["notes"] = self.notes
        if getattr(self, "deps", None):
            cov["assumptions_discharged_by_sibling_checks"] = self.deps
        ev = {
            "property_id": self.prop,
            "tier": self.tier,
            "seed": self.seed,
            "level": "proof",
            "coverage": cov,
            "assumptions": list(assumptions),
            "wall_s": round(time.time() - self.t0, 2),
            "violations": violations,
        }
        # Evidence of the registered commands comes from /repo itself; a run against a scratch tree
        # (VERIF_REPO, used for seeded changes) writes its evidence under work/ instead.
        evdir = os.path.join(VERIF, "evidence") if os.path.realpath(REPO) == "/repo" else \
            os.path.join(WORK, "evidence-" + hashlib.sha1(REPO.encode()).hexdigest()[:8])
        if os.environ.get("VERIF_EVIDENCE_SUFFIX"):
            # nested run on behalf of another property (ctx.dependency): never touch the registered evidence file
            evdir = os.path.join(WORK, "evidence" + os.environ["VERIF_EVIDENCE_SUFFIX"])
        os.makedirs(evdir, exist_ok=True)
        with open(os.path.join(evdir, f"{self.prop}.json"), "w") as f:
            json.dump(ev, f, indent=1, sort_keys=True)
            f.write("\n")
        self.log(f"done in {ev['wall_s']}s: obligations {self.obl_ok}/{self.obl_total}, "
                 f"findings {len(self.findings)} ({len(by_sig)} unlisted), broken {len(self.brokens)}")
        sys.stdout.flush()
        sys.exit(1 if violations else 0)

    def _write_replay(self, sig, obj):
        name = re.sub(r"[^A-Za-z0-9_.-]+", "_", f"{self.prop}-{sig}")[:120] + ".json"
        path = os.path.join(WORK, "replays", name)
        with open(path, "w") as f:
            json.dump(obj, f, indent=1)
        return path


def load_known():
    p = os.path.join(VERIF, "known_findings.json")
    if not os.path.exists(p):
        return {}
    data = json.load(open(p))
    out = {}
    for e in data.get("findings", []):
        out.setdefault(e["property"], []).append(e)
    return out


def match_known(known, signature):
    for k in known:
        if k["signature"] == signature:
            return k
    return None


def corpus(prop):
    """Minimised past failures / regression inputs, run first."""
    d = os.path.join(VERIF, "corpus", prop)
    out = []
    if os.path.isdir(d):
        for fn in sorted(os.listdir(d)):
            with open(os.path.join(d, fn)) as f:
                out.append((fn, f.read()))
    return out
