#!/bin/sh
# sweep.sh <tier> <seed>...   — runs every check on /repo for the given seeds; prints one line per run.
# Used with `vp run` (background, from a snapshot of the committed /verif): builds what it needs first.
tier=$1; shift
./setup.sh >/dev/null 2>&1
for seed in "$@"; do
  for i in 01 02 03 04 05 06 07 08 09 10 11 12 13 14 15 16 17 18 19 20; do
    out=$(VERIF_SEED=$seed ./check C$i --tier $tier 2>&1); rc=$?
    echo "seed=$seed C$i rc=$rc $(echo "$out" | grep -E '^VIOLATION|done in' | cut -c1-200 | tr '\n' ' ')"
  done
done
