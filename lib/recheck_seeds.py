#!/usr/bin/env python3
"""recheck_seeds.py [-j N] [--tier quick|thorough] [name-prefix ...]

Re-runs `./check <ID>` against every confirmed seeded change (seeded/<name>/patch.diff applied to a scratch
worktree of /repo under /var/tmp, removed afterwards) and records the current verdict in meta.json under
"recheck" (the verdict at confirmation time stays under "check"). Never touches /repo's working tree."""
import concurrent.futures as cf
import json
import os
import shutil
import subprocess
import sys
import time

VERIF = os.path.dirname(os.path.dirname(os.path.abspath(__file__)))


def sh(cmd, cwd=None, env=None, timeout=7200):
    p = subprocess.run(cmd, cwd=cwd, env=env, timeout=timeout, stdout=subprocess.PIPE, stderr=subprocess.STDOUT, text=True)
    return p.returncode, p.stdout


def one(name, tier):
    d = os.path.join(VERIF, "seeded", name)
    meta = json.load(open(os.path.join(d, "meta.json")))
    pid = meta["property"]
    scratch = f"/var/tmp/recheck-{name}"
    wt = os.path.join(scratch, "repo")
    shutil.rmtree(scratch, ignore_errors=True)
    os.makedirs(scratch)
    rc, out = sh(["git", "-C", "/repo", "worktree", "add", "-q", "--detach", wt, "HEAD"])
    if rc != 0:
        return name, None, "worktree: " + out[-300:]
    try:
        rc, out = sh(["git", "apply", os.path.join(d, "patch.diff")], cwd=wt)
        if rc != 0:
            return name, None, "patch does not apply: " + out[-300:]
        env = dict(os.environ, VERIF_REPO=wt, VERIF_TIER=tier)
        t0 = time.time()
        rc, out = sh([os.path.join(VERIF, "check"), pid, "--tier", tier], cwd=VERIF, env=env)
        lines = [l for l in out.splitlines() if l.startswith("VIOLATION")]
        detected = rc == 1 and bool(lines)
        concrete = [l for l in lines if "no-failing-input-found" not in l]
        meta["recheck"] = {"tier": tier, "exit": rc, "detected": detected,
                           "with_failing_input": bool(concrete),
                           "verdict_lines": [l.replace(VERIF + "/work/replays/", "") for l in lines[:6]],
                           "wall_s": round(time.time() - t0, 1)}
        json.dump(meta, open(os.path.join(d, "meta.json"), "w"), indent=1)
        return name, detected, ("input " if concrete else "no-input ") + " ".join(
            l.split("replay=")[-1].split("/")[-1][:70] for l in lines[:3])
    finally:
        sh(["git", "-C", "/repo", "worktree", "remove", "--force", wt])
        shutil.rmtree(scratch, ignore_errors=True)


def main():
    args = sys.argv[1:]
    j, tier, pre = 4, "quick", []
    while args:
        a = args.pop(0)
        if a == "-j":
            j = int(args.pop(0))
        elif a == "--tier":
            tier = args.pop(0)
        else:
            pre.append(a)
    names = sorted(n for n in os.listdir(os.path.join(VERIF, "seeded"))
                   if os.path.exists(os.path.join(VERIF, "seeded", n, "patch.diff"))
                   and (not pre or any(n.startswith(p) for p in pre)))
    sh(["git", "-C", "/repo", "worktree", "prune"])
    missed = []
    with cf.ThreadPoolExecutor(j) as ex:
        for name, det, info in ex.map(lambda n: one(n, tier), names):
            print(f"{name}: {'CAUGHT' if det else ('ERROR' if det is None else 'MISSED')} {info}", flush=True)
            if not det:
                missed.append(name)
    print("missed/error:", missed)


if __name__ == "__main__":
    main()
