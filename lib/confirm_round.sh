#!/bin/sh
# confirm_round.sh <round-prefix e.g. seed2> <tag e.g. r2> <ids...> : confirm + check all delivered seeds of those properties (4 in parallel)
pre=$1; tag=$2; shift 2
for id in "$@"; do
  lc=$(echo $id | tr A-Z a-z)
  for d in /var/tmp/$pre-$lc/out/m*; do
    [ -f "$d/meta.json" ] || continue
    m=$(basename $d)
    echo "$d $id $id-$tag$m"
  done
done | xargs -P 4 -L 1 sh -c 'python3 /verif/lib/confirm_seed.py $0 $1 $2 2>&1 | tail -2 | grep -v "^CONFIRMED" | sed -E "s/.KNOWN-FINDING: property=[A-Z0-9]+ [^V]*//g" | cut -c1-260'
