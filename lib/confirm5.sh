#!/bin/sh
# confirm3.sh <ID> [--no-check] : confirm the round-5 seeds delivered under /var/tmp/seed5-<id>/out/m* as seeded/<ID>-r3mN
id=$1; shift
lc=$(echo $id | tr A-Z a-z)
for d in /var/tmp/seed5-$lc/out/m*; do
  [ -f "$d/meta.json" ] || continue
  m=$(basename $d)
  python3 /verif/lib/confirm_seed.py $d $id $id-r5$m "$@" 2>&1 | tail -3 | sed -E "s/.KNOWN-FINDING: property=[A-Z0-9]+ [^V]*//g" | cut -c1-300
done
