#!/bin/sh
# runall.sh <tier> [parallel] — every check once on /repo (or $VERIF_REPO); one summary line per check.
tier=${1:-quick}; par=${2:-4}
cd "$(dirname "$0")/.."
mkdir -p work/runall
for i in 01 02 03 04 05 06 07 08 09 10 11 12 13 14 15 16 17 18 19 20; do echo C$i; done | \
 xargs -P "$par" -I{} sh -c './check {} --tier '"$tier"' > work/runall/{}.out 2> work/runall/{}.err; echo "{} rc=$? $(grep -c "^KNOWN-FINDING" work/runall/{}.out) known; $(grep "^VIOLATION" work/runall/{}.out | tr "\n" " ") $(grep "done in" work/runall/{}.err | tail -1)"'
