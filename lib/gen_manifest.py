#!/usr/bin/env python3
"""Regenerates /verif/MANIFEST.json from props/<id>.json (one small metadata file per claimed
property) and properties.jsonl (everything not claimed is listed under not_applicable)."""
import json
import os

VERIF = os.path.dirname(os.path.dirname(os.path.abspath(__file__)))
props = [json.loads(l) for l in open(os.path.join(VERIF, "properties.jsonl")) if l.strip()]
checks, na = [], []
for p in props:
    pid = p["id"]
    meta_p = os.path.join(VERIF, "props", pid.lower() + ".json")
    plugin = os.path.join(VERIF, "props", pid.lower() + ".py")
    if os.path.exists(meta_p) and os.path.exists(plugin):
        m = json.load(open(meta_p))
        if m.get("not_applicable"):
            na.append({"property_id": pid, "reason": m["not_applicable"]})
            continue
        import re as _re
        deps = sorted(set(_re.findall(r'dependency,?\(?\s*"(C\d\d)"', open(plugin).read())))
        if deps:
            m["level_note"] = m["level_note"].rstrip() + (" Assumptions about mechanisms that are the subject of sibling properties are "
                "discharged by running those checks on the same tree and tier (ctx.dependency; DESIGN §12.3): "
                + ", ".join(deps) + " — a violation found there is reported as a violation of this property.")
        checks.append({
            "property_id": pid,
            "quick_cmd": f"./check {pid} --tier quick",
            "thorough_cmd": f"./check {pid} --tier thorough",
            "evidence_file": f"/verif/evidence/{pid}.json",
            "replay_cmd_template": f"./check {pid} --replay {{path}}",
            "engine": "lean4+correspondence",
            "level_claimed": {"category": "proof", "text": m["level_text"],
                              "design_ref": m.get("design_ref", f"DESIGN.md §6 {pid}")},
            "level_note": m["level_note"],
            "technique": m["technique"],
        })
    else:
        na.append({"property_id": pid,
                   "reason": "check not built yet in this round (planned as Lean 4 proof + correspondence, DESIGN.md §6); not a claim that the technique cannot apply"})
manifest = {
    "version": 1,
    "setup_cmd": "./setup.sh",
    "hooks": {
        "guard": "verif",
        "enable": "go build -tags verif -overlay /verif/overlay/overlay.json (harness module github.com/nginx/nginx-gateway-fabric/verifharness with replace => /repo); no file of /repo is modified by hooks",
        "baseline_off_cmd": "for m in . ./site ./tests ./tests/framework/crossplane; do (cd /repo/$m && GOFLAGS=-mod=mod go test -json -vet=off -count=1 -timeout 25m ./...); done",
        "source_commits": [],
        "add_only": True,
    },
    "engines": [
        {"name": "lean4+correspondence", "path": "/verif/lean",
         "serves_properties": [c["property_id"] for c in checks],
         "kind_free_text": "Lean 4 models + theorems (lake project NGF, core-only), facts regenerated from /repo by /verif/translator, "
                           "behavioural correspondence and judge-on-real-output through /verif/harness (Go, in-process)"},
    ],
    "checks": checks,
    "not_applicable": na,
    "notes": "See DESIGN.md. Every check: regenerate facts from /repo -> lake build property theorems + axiom audit -> "
             "run the real code and the Lean model/judge on the same generated inputs -> VIOLATION / KNOWN-FINDING protocol.",
}
with open(os.path.join(VERIF, "MANIFEST.json"), "w") as f:
    json.dump(manifest, f, indent=1)
    f.write("\n")
print(f"MANIFEST.json: {len(checks)} checks, {len(na)} not_applicable")
