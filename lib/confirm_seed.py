#!/usr/bin/env python3
"""confirm_seed.py <seed-out-dir> <property-id> <name>

Confirms a seeded change independently of its author, in a fresh scratch worktree of /repo:
  1. patch applies; go build ./... ok; the repository's test suite passes with the patch
     (TestGetBuildInfo excluded: fails on the unchanged tree too)
  2. the demonstration test FAILS with the patch and PASSES without it
and, when all of that holds, stores it as /verif/seeded/<name>/ (patch.diff, demo_test.go, meta.json
extended with what was run). Then (unless --no-check) runs `./check <ID>` against the patched worktree
(VERIF_REPO) and records the verdict in meta.json ("detected": true/false, "verdict_lines").
The scratch worktree is removed at the end.
"""
import json
import os
import shutil
import subprocess
import sys

VERIF = os.path.dirname(os.path.dirname(os.path.abspath(__file__)))
ENV = dict(os.environ, GOFLAGS="-mod=mod", GOPROXY="off", GOSUMDB="off", GOTOOLCHAIN="local")


def sh(cmd, cwd=None, timeout=3600, env=ENV):
    p = subprocess.run(cmd, cwd=cwd, env=env, timeout=timeout, stdout=subprocess.PIPE, stderr=subprocess.STDOUT, text=True)
    return p.returncode, p.stdout


def main():
    src, pid, name = sys.argv[1], sys.argv[2].upper(), sys.argv[3]
    no_check = "--no-check" in sys.argv
    tier = "thorough" if "--thorough" in sys.argv else "quick"
    meta = json.load(open(os.path.join(src, "meta.json")))
    scratch = f"/var/tmp/confirm-{name}"
    wt = os.path.join(scratch, "repo")
    shutil.rmtree(scratch, ignore_errors=True)
    os.makedirs(scratch)
    sh(["git", "-C", "/repo", "worktree", "prune"])
    rc, out = sh(["git", "-C", "/repo", "worktree", "add", "-q", "--detach", wt, "HEAD"])
    if rc != 0:
        print("cannot create worktree:", out)
        return 2
    ran = []
    ok = True
    try:
        pkg = meta["package_dir"].strip("./")
        demo_dst = os.path.join(wt, pkg, "zz_seed_demo_test.go")
        # demo passes without the patch
        shutil.copy(os.path.join(src, "demo_test.go"), demo_dst)
        rc, out = sh(["go", "test", "-vet=off", "-count=1", "-run", "TestSeedDemo", "./" + pkg], cwd=wt)
        ran.append(f"unpatched: go test -run TestSeedDemo ./{pkg} -> rc={rc}")
        if rc != 0:
            print("REJECT: demo does not pass on the unchanged tree\n", out[-1500:])
            ok = False
        os.remove(demo_dst)
        # patch applies, builds, suite passes
        rc, out = sh(["git", "apply", os.path.abspath(os.path.join(src, "patch.diff"))], cwd=wt)
        ran.append(f"git apply patch.diff -> rc={rc}")
        if rc != 0:
            print("REJECT: patch does not apply\n", out[-1500:])
            ok = False
        if ok:
            rc, out = sh(["go", "build", "./..."], cwd=wt)
            ran.append(f"go build ./... -> rc={rc}")
            if rc != 0:
                print("REJECT: does not build\n", out[-1500:])
                ok = False
        if ok:
            rc, out = sh(["go", "test", "-vet=off", "-count=1", "./..."], cwd=wt)
            fails = [l for l in out.splitlines() if l.startswith("--- FAIL")]
            real = [l for l in fails if "TestGetBuildInfo" not in l]
            pk_fail = [l for l in out.splitlines() if l.startswith("FAIL\t") and "cmd/gateway" not in l]
            ran.append(f"patched: go test ./... -> failing tests: {real or 'none (TestGetBuildInfo excluded)'}")
            if real or pk_fail:
                print("REJECT: existing tests fail with the patch:", real, pk_fail)
                ok = False
        if ok:
            shutil.copy(os.path.join(src, "demo_test.go"), demo_dst)
            rc, out = sh(["go", "test", "-vet=off", "-count=1", "-run", "TestSeedDemo", "./" + pkg], cwd=wt)
            ran.append(f"patched: go test -run TestSeedDemo ./{pkg} -> rc={rc}")
            os.remove(demo_dst)
            if rc == 0:
                print("REJECT: demo passes with the patch")
                ok = False
        if not ok:
            return 1
        dst = os.path.join(VERIF, "seeded", name)
        os.makedirs(dst, exist_ok=True)
        shutil.copy(os.path.join(src, "patch.diff"), dst)
        shutil.copy(os.path.join(src, "demo_test.go"), dst)
        meta["property"] = pid
        meta["confirmed_by"] = ran
        if not no_check:
            env = dict(os.environ, VERIF_REPO=wt, VERIF_TIER=tier)
            rc, out = sh([os.path.join(VERIF, "check"), pid, "--tier", tier], cwd=VERIF, env=env, timeout=7200)
            lines = [l for l in out.splitlines() if l.startswith("VIOLATION") or l.startswith("KNOWN-FINDING")]
            meta["check"] = {"cmd": f"VERIF_REPO=<patched worktree> ./check {pid} --tier {tier}", "exit": rc,
                             "verdict_lines": lines[:6], "detected": rc == 1 and any(l.startswith("VIOLATION") for l in lines)}
            for l in lines:
                if l.startswith("VIOLATION"):
                    # keep the replay next to the seed
                    parts = dict(x.split("=", 1) for x in l.split()[1:] if "=" in x)
                    rp = parts.get("replay")
                    if rp and os.path.exists(rp):
                        shutil.copy(rp, os.path.join(dst, "replay_" + os.path.basename(rp)))
            print(f"{name}: check exit={rc} detected={meta['check']['detected']} {lines[:3]}")
        json.dump(meta, open(os.path.join(dst, "meta.json"), "w"), indent=1)
        print(f"CONFIRMED {name}")
        return 0
    finally:
        sh(["git", "-C", "/repo", "worktree", "remove", "--force", wt])
        shutil.rmtree(scratch, ignore_errors=True)


if __name__ == "__main__":
    sys.exit(main())
