package c13

// pipeE: EndpointSlices INSIDE the pipeline model. In-fragment scenarios (C02's generator c02.GenFragment: one served
// Gateway, HTTP listeners, HTTPRoutes with Exact/PathPrefix matches, redirects, foreign class / younger Gateway /
// unattached routes) whose Services (port names, targetPorts), backendRefs, ReferenceGrants and EndpointSlices are
// redrawn here, run through the REAL ChangeProcessor → BuildConfiguration (real resolver over the fake client) →
// Generate. The `upstream` blocks parsed from the REAL http.conf are compared by the Lean driver with
// `PipelineEndpoints.httpUpstreams` of the same cluster (Model/PipelineEndpoints.lean; the cluster is decoded by
// `PipelineRefsTie.toScenarioR` from C02's flat view + the backendRefs as written).

import (
	"fmt"
	"regexp"
	"sort"
	"strings"

	apiv1 "k8s.io/api/core/v1"
	discoveryV1 "k8s.io/api/discovery/v1"
	"k8s.io/apimachinery/pkg/util/intstr"
	"sigs.k8s.io/controller-runtime/pkg/client"
	gatewayv1 "sigs.k8s.io/gateway-api/apis/v1"
	"sigs.k8s.io/gateway-api/apis/v1beta1"

	"github.com/nginx/nginx-gateway-fabric/verifharness/c02"
	p "github.com/nginx/nginx-gateway-fabric/verifharness/pipeline"
	"github.com/nginx/nginx-gateway-fabric/verifharness/rng"
)

const httpConfPath = "/etc/nginx/conf.d/http.conf"

type peRef struct {
	Group    *string `json:"group"`
	Kind     *string `json:"kind"`
	Ns       *string `json:"ns"`
	Name     string  `json:"name"`
	Port     *int32  `json:"port"`
	Weight   *int32  `json:"weight"`
	NFilters int     `json:"nfilters"`
}

type peRule struct {
	Refs []peRef `json:"refs"`
}

type peRoute struct {
	Ns    string   `json:"ns"`
	Name  string   `json:"name"`
	Rules []peRule `json:"rules"`
}

type peFrom struct {
	Group string `json:"group"`
	Kind  string `json:"kind"`
	Ns    string `json:"ns"`
}

type peTo struct {
	Group string  `json:"group"`
	Kind  string  `json:"kind"`
	Name  *string `json:"name"`
}

type peGrant struct {
	Ns   string   `json:"ns"`
	Name string   `json:"name"`
	From []peFrom `json:"from"`
	To   []peTo   `json:"to"`
}

type pePort struct {
	Ns   string   `json:"ns"`
	Name string   `json:"name"`
	SP   jSvcPort `json:"sp"`
}

type pipeEIn struct {
	Flat   c02.Flat  `json:"flat"`
	Routes []peRoute `json:"routes"`
	Grants []peGrant `json:"grants"`
	Ports  []pePort  `json:"ports"`
	Slices []jSlice  `json:"slices"`
	// Objs: the cluster as YAML-free object dump for replay
	Objs string `json:"objs"`
}

type pipeEOut struct {
	Upstreams []ngxUpstream `json:"upstreams"`
	Conf      []jUp         `json:"conf"` // Configuration.Upstreams of the real BuildConfiguration
	// Proxied: upstream names the REAL http.conf sends traffic to: `proxy_pass http://NAME…` and the values of
	// split_clients distributions with a non-zero share
	Proxied []string `json:"proxied"`
	Panic   string   `json:"panic,omitempty"`
	NoConf  bool     `json:"noConf,omitempty"`
}

func flatRefs(objs []client.Object) ([]peRoute, []peGrant) {
	var routes []peRoute
	var grants []peGrant
	for _, o := range objs {
		switch x := o.(type) {
		case *gatewayv1.HTTPRoute:
			rt := peRoute{Ns: x.Namespace, Name: x.Name, Rules: []peRule{}}
			for _, rule := range x.Spec.Rules {
				pr := peRule{Refs: []peRef{}}
				for _, hb := range rule.BackendRefs {
					b := hb.BackendRef
					ref := peRef{Name: string(b.Name), NFilters: len(hb.Filters), Weight: b.Weight}
					if b.Group != nil {
						ref.Group = ptr(string(*b.Group))
					}
					if b.Kind != nil {
						ref.Kind = ptr(string(*b.Kind))
					}
					if b.Namespace != nil {
						ref.Ns = ptr(string(*b.Namespace))
					}
					if b.Port != nil {
						ref.Port = ptr(int32(*b.Port))
					}
					pr.Refs = append(pr.Refs, ref)
				}
				rt.Rules = append(rt.Rules, pr)
			}
			routes = append(routes, rt)
		case *v1beta1.ReferenceGrant:
			g := peGrant{Ns: x.Namespace, Name: x.Name, From: []peFrom{}, To: []peTo{}}
			for _, f := range x.Spec.From {
				g.From = append(g.From, peFrom{string(f.Group), string(f.Kind), string(f.Namespace)})
			}
			for _, t := range x.Spec.To {
				to := peTo{Group: string(t.Group), Kind: string(t.Kind)}
				if t.Name != nil {
					to.Name = ptr(string(*t.Name))
				}
				g.To = append(g.To, to)
			}
			grants = append(grants, g)
		}
	}
	return routes, grants
}

func fromK8sSlice(es *discoveryV1.EndpointSlice) jSlice {
	s := jSlice{Ns: es.Namespace, Obj: es.Name, Type: string(es.AddressType), Ports: []jPort{}, Eps: []jEndpoint{}}
	if v, ok := es.Labels[discoveryV1.LabelServiceName]; ok {
		s.Label = ptr(v)
	}
	for _, pt := range es.Ports {
		s.Ports = append(s.Ports, jPort{Name: pt.Name, Port: pt.Port})
	}
	for _, e := range es.Endpoints {
		s.Eps = append(s.Eps, jEndpoint{Addrs: append([]string{}, e.Addresses...), Ready: e.Conditions.Ready,
			Serving: e.Conditions.Serving, Terminating: e.Conditions.Terminating})
	}
	return s
}

func viewOfObjs(objs []client.Object) (ports []pePort, slices []jSlice) {
	ports, slices = []pePort{}, []jSlice{}
	for _, o := range objs {
		switch x := o.(type) {
		case *apiv1.Service:
			for _, sp := range x.Spec.Ports {
				j := jSvcPort{Name: sp.Name, Port: sp.Port}
				if sp.TargetPort.Type == intstr.String {
					j.TPS = ptr(sp.TargetPort.StrVal)
				} else {
					j.TPI = ptr(sp.TargetPort.IntVal)
				}
				ports = append(ports, pePort{Ns: x.Namespace, Name: x.Name, SP: j})
			}
		case *discoveryV1.EndpointSlice:
			slices = append(slices, fromK8sSlice(x))
		}
	}
	return ports, slices
}

func runPipeE(objs []client.Object) (in pipeEIn, out pipeEOut) {
	opts := p.DefaultOptions()
	in.Flat = c02.Flatten(objs, opts)
	in.Routes, in.Grants = flatRefs(objs)
	in.Ports, in.Slices = viewOfObjs(objs)
	in.Objs = string(p.EncodeObjects(objs))
	_, res := p.RunFresh(objs, opts, nil)
	out.Upstreams = []ngxUpstream{}
	out.Conf = []jUp{}
	if res.Panic != "" {
		out.Panic = p.PanicSite(res.Panic)
		return in, out
	}
	if res.Conf == nil {
		out.NoConf = true
		return in, out
	}
	out.Conf = toJUps(res.Conf.Upstreams)
	text := p.FileText(res.Files, httpConfPath)
	out.Upstreams = sortConf(parseUpstreams(text))
	out.Proxied = proxiedNames(text)
	return in, out
}

var (
	reProxyPass   = regexp.MustCompile(`^\s*proxy_pass\s+https?://([^$;/\s]+)`)
	reSplitOpen   = regexp.MustCompile(`^\s*split_clients\s+\S+\s+\S+\s*\{\s*$`)
	reSplitEntry  = regexp.MustCompile(`^\s*(\S+)%\s+(\S+?)\s*;\s*$`)
	reSplitClosed = regexp.MustCompile(`^\s*\}\s*$`)
)

// proxiedNames lists the upstream names the configuration text proxies to (sorted, distinct).
func proxiedNames(text string) []string {
	seen := map[string]bool{}
	inSplit := false
	for _, line := range strings.Split(text, "\n") {
		switch {
		case inSplit && reSplitClosed.MatchString(line):
			inSplit = false
		case inSplit:
			if m := reSplitEntry.FindStringSubmatch(line); m != nil && m[1] != "0.00" {
				seen[m[2]] = true
			}
		case reSplitOpen.MatchString(line):
			inSplit = true
		default:
			if m := reProxyPass.FindStringSubmatch(line); m != nil {
				seen[m[1]] = true
			}
		}
	}
	out := make([]string, 0, len(seen))
	for n := range seen {
		out = append(out, n)
	}
	sort.Strings(out)
	return out
}

// genPipeE redraws Services, backendRefs, grants and EndpointSlices of an in-fragment scenario.
func genPipeE(r *rng.R) []client.Object {
	base := c02.GenFragment(r)
	c02.ApplyDefaults(base.Objs)
	var objs []client.Object
	var nss []string
	var routes []*gatewayv1.HTTPRoute
	for _, o := range base.Objs {
		switch x := o.(type) {
		case *apiv1.Namespace:
			nss = append(nss, x.Name)
			objs = append(objs, o)
		case *apiv1.Service, *discoveryV1.EndpointSlice:
			// redrawn below
		case *gatewayv1.HTTPRoute:
			routes = append(routes, x)
			objs = append(objs, o)
		default:
			objs = append(objs, o)
		}
	}
	type svcKey struct{ ns, name string }
	svcPorts := map[svcKey][]apiv1.ServicePort{}
	for _, ns := range nss {
		for i := 0; i < 3; i++ {
			name := fmt.Sprintf("svc%d", i)
			if r.Chance(8, 100) {
				continue // Service absent
			}
			svc := &apiv1.Service{ObjectMeta: p.Meta(ns, name, 0)}
			svc.Spec.Type = apiv1.ServiceTypeClusterIP
			svc.Spec.IPFamilies = []apiv1.IPFamily{apiv1.IPv4Protocol}
			nums := rng.Pick(r, [][]int32{{80}, {80}, {80, 8080}, {8080, 80, 443}, {443}})
			names := append([]string{}, portNames...)
			rng.Shuffle(r, names)
			for k, n := range nums {
				sp := apiv1.ServicePort{Name: names[k], Port: n, Protocol: apiv1.ProtocolTCP}
				switch x := r.Intn(100); {
				case x < 15: // no targetPort (int 0)
				case x < 70:
					sp.TargetPort = intstr.FromInt32(rng.Pick(r, []int32{8080, 9090, 3000}))
				default:
					sp.TargetPort = intstr.FromString(rng.Pick(r, []string{"http", "web"}))
				}
				svc.Spec.Ports = append(svc.Spec.Ports, sp)
			}
			svcPorts[svcKey{ns, name}] = svc.Spec.Ports
			objs = append(objs, svc)
			// EndpointSlices around this Service: own slices, slices of look-alike names, other namespaces, FQDN, unready
			prefer := []string{}
			for _, sp := range svc.Spec.Ports {
				prefer = append(prefer, sp.Name)
			}
			for k, n := 0, rng.Pick(r, []int{0, 1, 1, 2, 2, 3, 4}); k < n; k++ {
				js := genSlice(r, k, ns, name, false, prefer)
				js.Obj = fmt.Sprintf("%s-%s-%d", name, js.Obj, k)
				if js.Label != nil && *js.Label != name && r.Chance(50, 100) {
					js.Label = ptr(fmt.Sprintf("svc%d", r.Intn(3))) // the slice of a sibling Service
				}
				objs = append(objs, js.k8s())
			}
		}
	}
	other := func(ns string) string {
		for tries := 0; tries < 8; tries++ {
			if o := rng.Pick(r, nss); o != ns {
				return o
			}
		}
		return ns
	}
	grantNo := 0
	for _, rt := range routes {
		for ri := range rt.Spec.Rules {
			rule := &rt.Spec.Rules[ri]
			rule.BackendRefs = nil
			if len(rule.Filters) > 0 {
				continue // RequestRedirect rule: no backendRefs in the fragment
			}
			for a, n := 0, rng.Pick(r, []int{0, 1, 1, 1, 2, 2, 2, 3, 3}); a < n; a++ {
				svcNS := rt.Namespace
				if r.Chance(35, 100) {
					svcNS = other(rt.Namespace)
				}
				name := fmt.Sprintf("svc%d", r.Intn(3))
				if r.Chance(5, 100) {
					name = "no-such-svc"
				}
				b := gatewayv1.BackendRef{BackendObjectReference: gatewayv1.BackendObjectReference{Name: gatewayv1.ObjectName(name)}}
				if ports := svcPorts[svcKey{svcNS, name}]; len(ports) > 0 && !r.Chance(8, 100) {
					b.Port = ptr(gatewayv1.PortNumber(rng.Pick(r, ports).Port))
				} else {
					b.Port = ptr(gatewayv1.PortNumber(rng.Pick(r, []int32{80, 8080, 81})))
				}
				if svcNS != rt.Namespace || r.Chance(30, 100) {
					b.Namespace = ptr(gatewayv1.Namespace(svcNS))
				}
				switch k := r.Intn(100); {
				case k < 45:
				case k < 52:
					b.Weight = ptr(int32(0))
				default:
					b.Weight = ptr(int32(rng.Pick(r, []int{1, 1, 2, 3, 7, 10})))
				}
				rule.BackendRefs = append(rule.BackendRefs, gatewayv1.HTTPBackendRef{BackendRef: b})
				if svcNS != rt.Namespace && r.Chance(70, 100) {
					grantNo++
					to := p.GrantTo{Kind: "Service"}
					if r.Chance(40, 100) {
						to.Name = name
					}
					fromNS := rt.Namespace
					if r.Chance(12, 100) {
						fromNS = other(rt.Namespace) // a grant for somebody else
					}
					objs = append(objs, p.ReferenceGrant(svcNS, fmt.Sprintf("rg-%d", grantNo),
						[]p.GrantFrom{{Group: "gateway.networking.k8s.io", Kind: "HTTPRoute", Namespace: fromNS}},
						[]p.GrantTo{to}))
				}
			}
		}
	}
	return objs
}
