// Package c13 drives the real endpoint resolver, configuration builder, NGINX configuration generator
// and the real event handler's upstream-server update code on generated inputs.
//
// Output: one JSON object per line  {"k":<mode>,"id":n,"in":{…},"out":{…}}; the same line is the input of
// the Lean driver in `model` mode (recomputes "out" from "in") and `judge` mode (evaluates the property
// on "in" and the real "out").
package c13

import (
	"bufio"
	"context"
	"encoding/json"
	"errors"
	"flag"
	"fmt"
	"os"
	"sort"
	"strconv"
	"strings"

	"github.com/go-logr/logr"
	ngxclient "github.com/nginxinc/nginx-plus-go-client/client"
	v1 "k8s.io/api/core/v1"
	discoveryV1 "k8s.io/api/discovery/v1"
	metav1 "k8s.io/apimachinery/pkg/apis/meta/v1"
	"k8s.io/apimachinery/pkg/types"
	gatewayv1 "sigs.k8s.io/gateway-api/apis/v1"
	"sigs.k8s.io/gateway-api/apis/v1alpha2"

	ngfAPI "github.com/nginx/nginx-gateway-fabric/apis/v1alpha1"
	"github.com/nginx/nginx-gateway-fabric/internal/framework/events"
	static "github.com/nginx/nginx-gateway-fabric/internal/mode/static"
	ngfConfig "github.com/nginx/nginx-gateway-fabric/internal/mode/static/config"
	ngxConfig "github.com/nginx/nginx-gateway-fabric/internal/mode/static/nginx/config"
	"github.com/nginx/nginx-gateway-fabric/internal/mode/static/nginx/runtime"
	"github.com/nginx/nginx-gateway-fabric/internal/mode/static/state"
	"github.com/nginx/nginx-gateway-fabric/internal/mode/static/state/dataplane"
	"github.com/nginx/nginx-gateway-fabric/internal/mode/static/state/graph"
	"github.com/nginx/nginx-gateway-fabric/internal/mode/static/state/resolver"
	"github.com/nginx/nginx-gateway-fabric/verifharness/pipeline"
	"github.com/nginx/nginx-gateway-fabric/verifharness/rng"
)

type jEp struct {
	A  string `json:"a"`
	P  int32  `json:"p"`
	V6 bool   `json:"v6"`
}

func toJEps(eps []resolver.Endpoint) []jEp {
	out := make([]jEp, 0, len(eps))
	for _, e := range eps {
		out = append(out, jEp{e.Address, e.Port, e.IPv6})
	}
	sort.Slice(out, func(i, j int) bool {
		if out[i].A != out[j].A {
			return out[i].A < out[j].A
		}
		if out[i].P != out[j].P {
			return out[i].P < out[j].P
		}
		return !out[i].V6 && out[j].V6
	})
	return out
}

func fromJEps(eps []jEp) []resolver.Endpoint {
	out := make([]resolver.Endpoint, 0, len(eps))
	for _, e := range eps {
		out = append(out, resolver.Endpoint{Address: e.A, Port: e.P, IPv6: e.V6})
	}
	return out
}

type line struct {
	K   string `json:"k"`
	ID  int    `json:"id"`
	In  any    `json:"in"`
	Out any    `json:"out"`
}

// ------------------------------------------------------------------ resolve

type resolveIn struct {
	Slices  []jSlice `json:"slices"`
	Ns      string   `json:"ns"`
	Name    string   `json:"name"`
	SP      jSvcPort `json:"sp"`
	Allowed []string `json:"allowed"`
}

type resolveOut struct {
	Res string `json:"res"`
	Eps []jEp  `json:"eps"`
	Msg string `json:"msg,omitempty"`
}

func runResolve(in resolveIn) (out resolveOut) {
	defer func() {
		if r := recover(); r != nil {
			out = resolveOut{Res: "panic", Eps: []jEp{}, Msg: fmt.Sprint(r)}
		}
	}()
	c := newK8sClient(in.Slices)
	allowed := make([]discoveryV1.AddressType, 0, len(in.Allowed))
	for _, a := range in.Allowed {
		allowed = append(allowed, discoveryV1.AddressType(a))
	}
	eps, err := resolver.NewServiceResolverImpl(c).Resolve(
		context.Background(), types.NamespacedName{Namespace: in.Ns, Name: in.Name}, in.SP.k8s(), allowed)
	if err != nil {
		switch {
		case strings.HasPrefix(err.Error(), "no endpoints found"):
			return resolveOut{Res: "errNoEndpoints", Eps: toJEps(eps)}
		case strings.HasPrefix(err.Error(), "no valid endpoints found"):
			return resolveOut{Res: "errNoValid", Eps: toJEps(eps)}
		}
		return resolveOut{Res: "errOther", Eps: toJEps(eps), Msg: err.Error()}
	}
	return resolveOut{Res: "ok", Eps: toJEps(eps)}
}

func genAllowed(r *rng.R) []string {
	switch x := r.Intn(100); {
	case x < 35:
		return []string{"IPv4", "IPv6"}
	case x < 55:
		return []string{"IPv4"}
	case x < 75:
		return []string{"IPv6"}
	case x < 80:
		return []string{}
	}
	all := []string{"IPv4", "IPv6", "FQDN", "IPX"}
	out := []string{}
	for _, a := range all {
		if r.Bool() {
			out = append(out, a)
		}
	}
	return out
}

func genResolve(r *rng.R) resolveIn {
	in := resolveIn{Ns: rng.Pick(r, nsPool), Name: rng.Pick(r, svcPool)}
	hostile := r.Chance(25, 100)
	if hostile && r.Chance(4, 100) {
		in.Name = ""
	}
	in.SP = genSvcPort(r, hostile)
	in.Slices = genWorld(r, in.Ns, in.Name, 6, hostile, []string{in.SP.Name})
	in.Allowed = genAllowed(r)
	return in
}

// ------------------------------------------------------------------ pipe: slices -> BuildConfiguration -> handler -> NGINX

type jRef struct {
	Ns     string   `json:"ns"`
	Name   string   `json:"name"`
	SP     jSvcPort `json:"sp"`
	Stream bool     `json:"stream"`
}

type pipeIn struct {
	Slices []jSlice `json:"slices"`
	Fam    string   `json:"fam"`
	Plus   bool     `json:"plus"`
	Refs   []jRef   `json:"refs"`
}

type jUp struct {
	Name string `json:"name"`
	Eps  []jEp  `json:"eps"`
}

type pipeOut struct {
	HTTP       []jUp         `json:"http"`   // conf.Upstreams as built by the real BuildConfiguration
	Stream     []jUp         `json:"stream"` // conf.StreamUpstreams
	HTTPConf   []ngxUpstream `json:"httpConf"`
	StreamConf []ngxUpstream `json:"streamConf"`
	View       ngxView       `json:"view"`
	Err        string        `json:"err,omitempty"`
}

func buildGraph(fam string, refs []jRef) *graph.Graph {
	httpRules := []graph.RouteRule{}
	l4 := map[graph.L4RouteKey]*graph.L4Route{}
	for i, ref := range refs {
		br := graph.BackendRef{
			SvcNsName:   types.NamespacedName{Namespace: ref.Ns, Name: ref.Name},
			ServicePort: ref.SP.k8s(),
			Valid:       true,
			Weight:      1,
		}
		if ref.Stream {
			key := graph.L4RouteKey{NamespacedName: types.NamespacedName{Namespace: "gw", Name: fmt.Sprintf("tls-%d", i)}}
			l4[key] = &graph.L4Route{
				Source: &v1alpha2.TLSRoute{ObjectMeta: metav1.ObjectMeta{Namespace: "gw", Name: fmt.Sprintf("tls-%d", i)}},
				Valid:  true,
				Spec:   graph.L4RouteSpec{BackendRef: br},
			}
		} else {
			httpRules = append(httpRules, graph.RouteRule{
				ValidMatches: true,
				Filters:      graph.RouteRuleFilters{Valid: true},
				BackendRefs:  []graph.BackendRef{br},
			})
		}
	}
	hr := &gatewayv1.HTTPRoute{ObjectMeta: metav1.ObjectMeta{Namespace: "gw", Name: "hr"}}
	routes := map[graph.RouteKey]*graph.L7Route{
		graph.CreateRouteKey(hr): {
			Source:    hr,
			RouteType: graph.RouteTypeHTTP,
			Valid:     true,
			Spec:      graph.L7RouteSpec{Rules: httpRules},
		},
	}
	g := &graph.Graph{
		GatewayClass: &graph.GatewayClass{Source: &gatewayv1.GatewayClass{}, Valid: true},
		Gateway: &graph.Gateway{
			Source: &gatewayv1.Gateway{ObjectMeta: metav1.ObjectMeta{Namespace: "gw", Name: "gw"}},
			Valid:  true,
			Listeners: []*graph.Listener{
				{
					Name:   "http",
					Valid:  true,
					Source: gatewayv1.Listener{Name: "http", Port: 80, Protocol: gatewayv1.HTTPProtocolType},
					Routes: routes,
				},
				{
					Name:     "tls",
					Valid:    true,
					Source:   gatewayv1.Listener{Name: "tls", Port: 443, Protocol: gatewayv1.TLSProtocolType},
					L4Routes: l4,
				},
			},
		},
	}
	g.PlusSecrets = map[types.NamespacedName][]graph.PlusSecretFile{
		{Namespace: "gw", Name: "license"}: {{FieldName: "license.jwt", Content: []byte("token"), Type: graph.PlusReportJWTToken}},
	}
	var ipf *ngfAPI.IPFamilyType
	switch fam {
	case "ipv4":
		ipf = ptr(ngfAPI.IPv4)
	case "ipv6":
		ipf = ptr(ngfAPI.IPv6)
	case "dual":
		if len(refs)%2 == 0 {
			ipf = ptr(ngfAPI.Dual)
		} // else: no NginxProxy at all (default = dual)
	}
	if ipf != nil {
		g.NginxProxy = &graph.NginxProxy{
			Valid:  true,
			Source: &ngfAPI.NginxProxy{Spec: ngfAPI.NginxProxySpec{IPFamily: ipf}},
		}
	}
	return g
}

func newHandler(plus bool, n *fakeNginx) *static.VerifC13Handler {
	return static.VerifC13NewHandler(newHandlerDeps(plus, n))
}

func newHandlerDeps(plus bool, n *fakeNginx) static.VerifC13Deps {
	var mgr *runtime.ManagerImpl
	if plus {
		mgr = runtime.NewManagerImpl(n, nil, logr.Discard(), nil, nil)
	} else {
		mgr = runtime.NewManagerImpl(nil, nil, logr.Discard(), nil, nil)
	}
	return static.VerifC13Deps{
		Plus:       plus,
		Generator:  ngxConfig.NewGeneratorImpl(plus, &ngfConfig.UsageReportConfig{}, logr.Discard()),
		FileMgr:    n,
		RuntimeMgr: fakeManager{ManagerImpl: mgr, n: n},
	}
}

func toJUps(ups []dataplane.Upstream) []jUp {
	out := make([]jUp, 0, len(ups))
	for _, u := range ups {
		out = append(out, jUp{Name: u.Name, Eps: toJEps(u.Endpoints)})
	}
	sort.Slice(out, func(i, j int) bool { return out[i].Name < out[j].Name })
	return out
}

func sortConf(c []ngxUpstream) []ngxUpstream {
	out := make([]ngxUpstream, 0, len(c))
	for _, u := range c {
		u.Servers = sorted(u.Servers)
		out = append(out, u)
	}
	sort.SliceStable(out, func(i, j int) bool { return out[i].Name < out[j].Name })
	return out
}

func runPipe(in pipeIn) (out pipeOut) {
	defer func() {
		if r := recover(); r != nil {
			out.Err = "panic: " + fmt.Sprint(r)
		}
	}()
	c := newK8sClient(in.Slices)
	g := buildGraph(in.Fam, in.Refs)
	conf := dataplane.BuildConfiguration(context.Background(), g, resolver.NewServiceResolverImpl(c), 1)
	out.HTTP = toJUps(conf.Upstreams)
	out.Stream = toJUps(conf.StreamUpstreams)
	n := newFakeNginx()
	h := newHandler(in.Plus, n)
	if err := h.UpdateNginxConf(context.Background(), conf); err != nil {
		out.Err = err.Error()
	}
	out.HTTPConf = sortConf(n.httpConf)
	out.StreamConf = sortConf(n.streamConf)
	out.View = n.view()
	return out
}

func genPipe(r *rng.R) pipeIn {
	in := pipeIn{Fam: rng.Pick(r, []string{"dual", "dual", "ipv4", "ipv6"}), Plus: r.Chance(40, 100)}
	ns, name := rng.Pick(r, nsPool), rng.Pick(r, svcPool)
	nRefs := r.Range(1, 4)
	ports := map[string]jSvcPort{}
	for i := 0; i < nRefs; i++ {
		ref := jRef{Ns: ns, Name: name, Stream: r.Chance(30, 100)}
		if r.Chance(30, 100) {
			ref.Ns, ref.Name = rng.Pick(r, nsPool), rng.Pick(r, svcPool)
		}
		sp := genSvcPort(r, false)
		key := fmt.Sprintf("%s/%s/%d", ref.Ns, ref.Name, sp.Port)
		if old, ok := ports[key]; ok {
			sp = old // a Service has one ServicePort per port number
		}
		ports[key] = sp
		ref.SP = sp
		in.Refs = append(in.Refs, ref)
	}
	prefer := []string{}
	for _, ref := range in.Refs {
		prefer = append(prefer, ref.SP.Name)
	}
	in.Slices = genWorld(r, ns, name, 7, false, prefer)
	return in
}

// ------------------------------------------------------------------ plus: sequences of configurations through the real handler

type plusOp struct {
	Op     string `json:"op"` // "reload" (updateNginxConf) | "endpoints" (updateUpstreamServers only)
	HTTP   []jUp  `json:"http"`
	Stream []jUp  `json:"stream"`
}

type plusIn struct {
	Ops []plusOp `json:"ops"`
}

type plusOut struct {
	Views []ngxView  `json:"views"` // NGINX after each op
	Alts  []*ngxView `json:"alts"`  // for "endpoints" ops: NGINX had the same configuration gone through the reload path
	Errs  []string   `json:"errs"`
	Calls []int      `json:"calls"` // API update calls made by each op
}

// fakeResolver serves the synthetic endpoint lists of the current step (the real resolver is exercised by the
// resolve, pipe and e2e modes; here arbitrary endpoint lists are pushed through the real handler).
type fakeResolver struct {
	eps map[string][]resolver.Endpoint
}

func (f *fakeResolver) Resolve(
	_ context.Context, n types.NamespacedName, p v1.ServicePort, _ []discoveryV1.AddressType,
) ([]resolver.Endpoint, error) {
	eps := f.eps[fmt.Sprintf("%s_%s_%d", n.Namespace, n.Name, p.Port)]
	if len(eps) == 0 {
		return nil, errors.New("no endpoints found")
	}
	return eps, nil
}

// refOfName inverts BackendRef.ServicePortReference for the generated upstream names (ns_name_port).
func refOfName(name string, stream bool) jRef {
	parts := strings.Split(name, "_")
	port, _ := strconv.Atoi(parts[len(parts)-1])
	return jRef{
		Ns: parts[0], Name: strings.Join(parts[1:len(parts)-1], "_"),
		SP: jSvcPort{Name: "p", Port: int32(port)}, Stream: stream,
	}
}

// runPlus drives the real HandleEventBatch: "reload" = ClusterStateChange, "endpoints" = EndpointsOnlyChange.
func runPlus(in plusIn) (out plusOut) {
	out.Errs = []string{}
	n := newFakeNginx()
	c := newK8sClient(nil)
	p := &fakeProcessor{}
	fr := &fakeResolver{}
	mk := func(n *fakeNginx, p *fakeProcessor) *static.VerifC13Handler {
		d := newHandlerDeps(true, n)
		d.Processor, d.Resolver, d.StatusUpdater, d.K8sClient, d.DeployCtx = p, fr, fakeStatus{}, c, fakeDepCtx{}
		return static.VerifC13NewHandler(d)
	}
	h := mk(n, p)
	for _, op := range in.Ops {
		func() {
			defer func() {
				if r := recover(); r != nil {
					out.Errs = append(out.Errs, "panic: "+fmt.Sprint(r))
				}
			}()
			fr.eps = map[string][]resolver.Endpoint{}
			var refs []jRef
			for _, u := range op.HTTP {
				fr.eps[u.Name] = fromJEps(u.Eps)
				refs = append(refs, refOfName(u.Name, false))
			}
			for _, u := range op.Stream {
				fr.eps[u.Name] = fromJEps(u.Eps)
				refs = append(refs, refOfName(u.Name, true))
			}
			var alt *ngxView
			before := n.apiCalls
			if op.Op == "reload" {
				p.ct, p.g = state.ClusterStateChange, buildGraph("dual", refs)
			} else {
				n2 := n.clone()
				h2 := mk(n2, &fakeProcessor{ct: state.ClusterStateChange, g: buildGraph("dual", refs)})
				h2.HandleEventBatch(context.Background(), events.EventBatch{})
				v := n2.view()
				alt = &v
				p.ct, p.g = state.EndpointsOnlyChange, buildGraph("dual", refs)
			}
			h.HandleEventBatch(context.Background(), events.EventBatch{})
			out.Views = append(out.Views, n.view())
			out.Alts = append(out.Alts, alt)
			out.Calls = append(out.Calls, n.apiCalls-before)
		}()
	}
	return out
}

func genEps(r *rng.R, max int) []jEp {
	n := r.Intn(max + 1)
	if r.Chance(20, 100) {
		n = 0
	}
	seen := map[jEp]bool{}
	out := []jEp{}
	for i := 0; i < n; i++ {
		var e jEp
		if r.Chance(30, 100) {
			e = jEp{A: rng.Pick(r, v6Pool), P: rng.Pick(r, portNumbers), V6: true}
		} else {
			e = jEp{A: rng.Pick(r, v4Pool), P: rng.Pick(r, portNumbers)}
		}
		if !seen[e] {
			seen[e] = true
			out = append(out, e)
		}
	}
	return out
}

// mutateEps makes a small change: often same length (swap one server for another), sometimes add/remove.
func mutateEps(r *rng.R, eps []jEp) []jEp {
	out := append([]jEp{}, eps...)
	switch x := r.Intn(100); {
	case x < 15:
		return out
	case x < 50 && len(out) > 0: // replace one (length stays equal)
		fresh := genEps(r, 3)
		for _, f := range fresh {
			dup := false
			for _, o := range out {
				if o == f {
					dup = true
				}
			}
			if !dup {
				out[r.Intn(len(out))] = f
				break
			}
		}
		return out
	case x < 65 && len(out) > 0:
		i := r.Intn(len(out))
		return append(out[:i], out[i+1:]...)
	case x < 75:
		return []jEp{}
	default:
		return genEps(r, 4)
	}
}

func genPlus(r *rng.R, maxOps int) plusIn {
	names := []string{"ns_svc_80", "ns_svc_443", "ns2_svc-a_8080", "ns_sv_80"}
	var in plusIn
	var httpNames, streamNames []string
	cur := map[string][]jEp{}
	nOps := r.Range(2, maxOps)
	for i := 0; i < nOps; i++ {
		op := plusOp{Op: "endpoints", HTTP: []jUp{}, Stream: []jUp{}}
		if i == 0 || r.Chance(20, 100) {
			op.Op = "reload"
			all := append([]string{}, names...)
			rng.Shuffle(r, all)
			k := r.Range(1, 3)
			httpNames = append([]string{}, all[:k]...)
			streamNames = append([]string{}, all[k:k+r.Intn(len(all)-k+1)]...)
			if len(streamNames) > 2 {
				streamNames = streamNames[:2]
			}
		}
		for _, nm := range httpNames {
			key := "h/" + nm
			if _, ok := cur[key]; !ok {
				cur[key] = genEps(r, 4)
			} else {
				cur[key] = mutateEps(r, cur[key])
			}
			op.HTTP = append(op.HTTP, jUp{Name: nm, Eps: cur[key]})
		}
		for _, nm := range streamNames {
			key := "s/" + nm
			if _, ok := cur[key]; !ok {
				cur[key] = genEps(r, 3)
			} else {
				cur[key] = mutateEps(r, cur[key])
			}
			op.Stream = append(op.Stream, jUp{Name: nm, Eps: cur[key]})
		}
		in.Ops = append(in.Ops, op)
	}
	return in
}

// ------------------------------------------------------------------ seq: serversEqual alone

type seqIn struct {
	New []string `json:"new"`
	Old []string `json:"old"`
}

type seqOut struct {
	Eq       bool `json:"eq"`
	EqStream bool `json:"eqStream"`
}

func runSeq(in seqIn) seqOut {
	var ns []ngxclient.UpstreamServer
	var nss []ngxclient.StreamUpstreamServer
	var os []ngxclient.Peer
	var oss []ngxclient.StreamPeer
	for _, x := range in.New {
		ns = append(ns, ngxclient.UpstreamServer{Server: x})
		nss = append(nss, ngxclient.StreamUpstreamServer{Server: x})
	}
	for i, x := range in.Old {
		os = append(os, ngxclient.Peer{Server: x, ID: i})
		oss = append(oss, ngxclient.StreamPeer{Server: x, ID: i})
	}
	return seqOut{Eq: static.VerifC13ServersEqual(ns, os), EqStream: static.VerifC13StreamServersEqual(nss, oss)}
}

func genSeq(r *rng.R) seqIn {
	pool := []string{"10.0.0.1:80", "10.0.0.2:80", "10.0.0.3:80", "[fd00::1]:80", "10.0.0.1:8080"}
	pick := func(dups bool) []string {
		n := r.Intn(5)
		out := []string{}
		for i := 0; i < n; i++ {
			x := rng.Pick(r, pool)
			dup := false
			for _, o := range out {
				if o == x {
					dup = true
				}
			}
			if !dup || dups {
				out = append(out, x)
			}
		}
		return out
	}
	dups := r.Chance(25, 100)
	in := seqIn{New: pick(dups), Old: pick(dups)}
	if r.Chance(30, 100) { // a permutation, possibly with one element replaced
		in.New = append([]string{}, in.Old...)
		rng.Shuffle(r, in.New)
		if len(in.New) > 0 && r.Bool() {
			in.New[r.Intn(len(in.New))] = rng.Pick(r, pool)
		}
	}
	return in
}

// ------------------------------------------------------------------ main

func Run(args []string) int {
	fs := flag.NewFlagSet("c13", flag.ContinueOnError)
	seed := fs.Uint64("seed", 1, "seed")
	mode := fs.String("mode", "resolve", "resolve|pipe|plus|e2e|seq|faults|pipeE|hist|replay")
	n := fs.Int("n", 100, "number of cases")
	maxOps := fs.Int("maxops", 8, "maximum sequence length (plus)")
	if err := fs.Parse(args); err != nil {
		return 2
	}
	w := bufio.NewWriter(os.Stdout)
	defer w.Flush()
	emit := func(l line) {
		b, err := json.Marshal(l)
		if err != nil {
			panic(err)
		}
		w.Write(b)
		w.WriteByte('\n')
		w.Flush()
	}
	if *mode == "replay" {
		// stdin: lines {"k":..,"in":..}; re-run the real code on each
		sc := bufio.NewScanner(os.Stdin)
		sc.Buffer(make([]byte, 1<<20), 1<<26)
		id := 0
		for sc.Scan() {
			var raw struct {
				K  string          `json:"k"`
				In json.RawMessage `json:"in"`
			}
			if err := json.Unmarshal(sc.Bytes(), &raw); err != nil {
				continue
			}
			id++
			switch raw.K {
			case "resolve":
				var in resolveIn
				if json.Unmarshal(raw.In, &in) == nil {
					emit(line{"resolve", id, in, runResolve(in)})
				}
			case "pipe":
				var in pipeIn
				if json.Unmarshal(raw.In, &in) == nil {
					emit(line{"pipe", id, in, runPipe(in)})
				}
			case "plus":
				var in plusIn
				if json.Unmarshal(raw.In, &in) == nil {
					emit(line{"plus", id, in, runPlus(in)})
				}
			case "e2e":
				var in e2eIn
				if json.Unmarshal(raw.In, &in) == nil {
					emit(line{"e2e", id, in, runE2E(in)})
				}
			case "seq":
				var in seqIn
				if json.Unmarshal(raw.In, &in) == nil {
					emit(line{"seq", id, in, runSeq(in)})
				}
			case "faults":
				var in faultsIn
				if json.Unmarshal(raw.In, &in) == nil {
					emit(line{"faults", id, in, runFaults(in)})
				}
			case "hist":
				var in histIn
				if json.Unmarshal(raw.In, &in) == nil {
					emit(line{"hist", id, in, runHist(in)})
				}
			case "pipeE":
				var in struct {
					Objs string `json:"objs"`
				}
				if json.Unmarshal(raw.In, &in) == nil {
					if objs, err := pipeline.DecodeObjects([]byte(in.Objs)); err == nil {
						pin, pout := runPipeE(objs)
						emit(line{"pipeE", id, pin, pout})
					}
				}
			}
		}
		return 0
	}
	root := rng.New(*seed)
	for i := 0; i < *n; i++ {
		r := root.Fork()
		switch *mode {
		case "resolve":
			in := genResolve(r)
			emit(line{"resolve", i, in, runResolve(in)})
		case "pipe":
			in := genPipe(r)
			emit(line{"pipe", i, in, runPipe(in)})
		case "plus":
			in := genPlus(r, *maxOps)
			emit(line{"plus", i, in, runPlus(in)})
		case "e2e":
			in := genE2E(r, *maxOps)
			emit(line{"e2e", i, in, runE2E(in)})
		case "seq":
			in := genSeq(r)
			emit(line{"seq", i, in, runSeq(in)})
		case "faults":
			in := genFaults(r, *maxOps)
			emit(line{"faults", i, in, runFaults(in)})
		case "hist":
			in := genHist(r, *maxOps)
			emit(line{"hist", i, in, runHist(in)})
		case "pipeE":
			pin, pout := runPipeE(genPipeE(r))
			emit(line{"pipeE", i, pin, pout})
		default:
			fmt.Fprintln(os.Stderr, "unknown mode")
			return 2
		}
	}
	return 0
}
