package c13

// Generated inputs: EndpointSlices, ServicePorts, IP families; conversion to the real k8s objects.

import (
	"fmt"

	v1 "k8s.io/api/core/v1"
	discoveryV1 "k8s.io/api/discovery/v1"
	metav1 "k8s.io/apimachinery/pkg/apis/meta/v1"
	k8sruntime "k8s.io/apimachinery/pkg/runtime"
	"k8s.io/apimachinery/pkg/util/intstr"
	"sigs.k8s.io/controller-runtime/pkg/client"
	"sigs.k8s.io/controller-runtime/pkg/client/fake"

	"github.com/nginx/nginx-gateway-fabric/internal/framework/controller/index"
	"github.com/nginx/nginx-gateway-fabric/verifharness/rng"
)

type jPort struct {
	Name *string `json:"name"`
	Port *int32  `json:"port"`
}

type jEndpoint struct {
	Addrs       []string `json:"addrs"`
	Ready       *bool    `json:"ready"`
	Serving     *bool    `json:"serving"`
	Terminating *bool    `json:"terminating"`
}

type jSlice struct {
	Ns    string      `json:"ns"`
	Obj   string      `json:"obj"`   // object name
	Label *string     `json:"label"` // value of kubernetes.io/service-name (nil: label absent)
	Type  string      `json:"type"`
	Ports []jPort     `json:"ports"`
	Eps   []jEndpoint `json:"eps"`
}

type jSvcPort struct {
	Name string  `json:"name"`
	Port int32   `json:"port"`
	TPI  *int32  `json:"tpi"` // integer targetPort
	TPS  *string `json:"tps"` // named targetPort
}

func (p jSvcPort) k8s() v1.ServicePort {
	sp := v1.ServicePort{Name: p.Name, Port: p.Port, Protocol: v1.ProtocolTCP}
	switch {
	case p.TPS != nil:
		sp.TargetPort = intstr.FromString(*p.TPS)
	case p.TPI != nil:
		sp.TargetPort = intstr.FromInt32(*p.TPI)
	}
	return sp
}

func (s jSlice) k8s() *discoveryV1.EndpointSlice {
	labels := map[string]string{
		// decoys: labels that look like the service-name label but are not
		"app":                                    s.Obj,
		"kubernetes.io/service-name-alias":       "svc",
		"endpointslice.kubernetes.io/managed-by": "endpointslice-controller.k8s.io",
	}
	if s.Label != nil {
		labels[index.KubernetesServiceNameLabel] = *s.Label
	}
	es := &discoveryV1.EndpointSlice{
		ObjectMeta:  metav1.ObjectMeta{Namespace: s.Ns, Name: s.Obj, Labels: labels},
		AddressType: discoveryV1.AddressType(s.Type),
	}
	for _, p := range s.Ports {
		es.Ports = append(es.Ports, discoveryV1.EndpointPort{Name: p.Name, Port: p.Port})
	}
	for _, e := range s.Eps {
		es.Endpoints = append(es.Endpoints, discoveryV1.Endpoint{
			Addresses:  e.Addrs,
			Conditions: discoveryV1.EndpointConditions{Ready: e.Ready, Serving: e.Serving, Terminating: e.Terminating},
		})
	}
	return es
}

func newK8sClient(slices []jSlice) client.Client {
	scheme := k8sruntime.NewScheme()
	if err := discoveryV1.AddToScheme(scheme); err != nil {
		panic(err)
	}
	if err := v1.AddToScheme(scheme); err != nil {
		panic(err)
	}
	objs := make([]client.Object, 0, len(slices))
	for _, s := range slices {
		objs = append(objs, s.k8s())
	}
	return fake.NewClientBuilder().
		WithScheme(scheme).
		WithObjects(objs...).
		WithIndex(&discoveryV1.EndpointSlice{}, index.KubernetesServiceNameIndexField, index.ServiceNameIndexFunc).
		Build()
}

func ptr[T any](v T) *T { return &v }

var (
	nsPool      = []string{"ns", "ns2"}
	svcPool     = []string{"svc", "svc-a", "sv", "svc2"}
	portNames   = []string{"", "http", "https", "grpc"}
	portNumbers = []int32{80, 8080, 443, 9090, 8443}
	v4Pool      = []string{"10.0.0.1", "10.0.0.2", "10.0.0.3", "10.0.1.1", "192.168.7.9"}
	v6Pool      = []string{"fd00::1", "fd00::2", "fd00::3", "2001:db8::a", "fe80:cd00:0:cde:1257:0:211e:729c"}
	fqdnPool    = []string{"a.example.com", "b.example.com", "10.0.0.1"}
)

func genOptBool(r *rng.R, pNil, pTrue int) *bool {
	x := r.Intn(100)
	switch {
	case x < pNil:
		return nil
	case x < pNil+pTrue:
		return ptr(true)
	default:
		return ptr(false)
	}
}

// genSlice generates one EndpointSlice around the target service ns/name.
func genSlice(r *rng.R, i int, ns, name string, hostile bool, prefer []string) jSlice {
	s := jSlice{Obj: fmt.Sprintf("slice-%d", i), Ns: ns}
	friendly := len(prefer) > 0 && !hostile
	if r.Chance(15, 100) && !(friendly && r.Chance(60, 100)) {
		s.Ns = rng.Pick(r, nsPool)
	}
	switch x := r.Intn(100); {
	case x < 65 || (friendly && x < 85):
		s.Label = ptr(name)
	case x < 82:
		s.Label = ptr(rng.Pick(r, svcPool))
	case x < 90:
		s.Label = ptr(name + "x")
	case x < 95:
		s.Label = ptr("")
	default:
		s.Label = nil
	}
	var pool []string
	switch x := r.Intn(100); {
	case x < 50:
		s.Type, pool = "IPv4", v4Pool
	case x < 80:
		s.Type, pool = "IPv6", v6Pool
	case x < 94:
		s.Type, pool = "FQDN", fqdnPool
	default:
		s.Type, pool = "IPX", v4Pool
	}
	nPorts := r.Intn(4)
	names := append([]string{}, portNames...)
	rng.Shuffle(r, names)
	if len(prefer) > 0 && r.Chance(70, 100) {
		// make the slice likely to expose a referenced port
		want := rng.Pick(r, prefer)
		for k, nm := range names {
			if nm == want {
				j := r.Intn(2)
				names[k], names[j] = names[j], names[k]
			}
		}
		if nPorts == 0 {
			nPorts = r.Range(1, 3)
		}
	}
	s.Ports = []jPort{}
	for k := 0; k < nPorts; k++ {
		var p jPort
		nm := names[k]
		if hostile && r.Chance(15, 100) {
			nm = rng.Pick(r, portNames) // duplicate names inside one slice (not admissible in k8s)
		}
		p.Name = ptr(nm)
		if hostile && r.Chance(8, 100) {
			p.Name = nil
		}
		switch x := r.Intn(100); {
		case x < 10:
			p.Port = nil
		case x < 13 && hostile:
			p.Port = ptr(int32(0))
		default:
			p.Port = ptr(rng.Pick(r, portNumbers))
		}
		s.Ports = append(s.Ports, p)
	}
	nEps := r.Intn(5)
	s.Eps = []jEndpoint{}
	for k := 0; k < nEps; k++ {
		e := jEndpoint{Addrs: []string{}}
		nA := r.Range(1, 3)
		if r.Chance(5, 100) {
			nA = 0
		}
		for a := 0; a < nA; a++ {
			e.Addrs = append(e.Addrs, rng.Pick(r, pool))
		}
		e.Ready = genOptBool(r, 15, 60)
		e.Serving = genOptBool(r, 30, 50)
		e.Terminating = genOptBool(r, 40, 20)
		s.Eps = append(s.Eps, e)
	}
	return s
}

func genSvcPort(r *rng.R, allowZero bool) jSvcPort {
	p := jSvcPort{Name: rng.Pick(r, []string{"", "http", "https"}), Port: rng.Pick(r, []int32{80, 443, 8080})}
	if allowZero && r.Chance(2, 100) {
		p.Port = 0
	}
	switch x := r.Intn(100); {
	case x < 20:
		p.TPI = ptr(int32(0))
	case x < 65:
		p.TPI = ptr(rng.Pick(r, []int32{8080, 9090, 3000}))
	case x < 90:
		p.TPS = ptr(rng.Pick(r, []string{"http", "web"}))
	}
	return p
}

func genWorld(r *rng.R, ns, name string, maxSlices int, hostile bool, prefer []string) []jSlice {
	n := r.Intn(maxSlices + 1)
	out := make([]jSlice, 0, n)
	for i := 0; i < n; i++ {
		out = append(out, genSlice(r, i, ns, name, hostile, prefer))
	}
	return out
}
