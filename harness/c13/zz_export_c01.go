package c13

// Exported entry points for C01's in-fragment history stream (harness/c01/pipeline.go; file added and owned by C01).
// They expose, unchanged, the in-fragment scenario generator of pipeE and the encoder of the model input
// (C02's flat view + backendRefs as written + ReferenceGrants + Service ports + EndpointSlices) that
// `PipelineRefsTie.toScenarioR` / Driver modes decode, so that C01 replays HISTORIES over the same fragment.

import (
	"sigs.k8s.io/controller-runtime/pkg/client"

	"github.com/nginx/nginx-gateway-fabric/verifharness/c02"
	p "github.com/nginx/nginx-gateway-fabric/verifharness/pipeline"
	"github.com/nginx/nginx-gateway-fabric/verifharness/rng"
)

// GenPipeE draws an in-fragment cluster (see genPipeE).
func GenPipeE(r *rng.R) []client.Object { return genPipeE(r) }

// PipeEState is the model's view of a cluster, in the JSON shape of pipeEIn (without the object dump).
func PipeEState(objs []client.Object) any {
	var in pipeEIn
	in.Flat = c02.Flatten(objs, p.DefaultOptions())
	in.Routes, in.Grants = flatRefs(objs)
	in.Ports, in.Slices = viewOfObjs(objs)
	return in
}

// Upstream is one `upstream` block of a generated http.conf.
type Upstream struct {
	Name    string   `json:"name"`
	Servers []string `json:"servers"`
}

// HTTPUpstreams parses the upstream blocks of an http.conf text (sorted by name, servers sorted).
func HTTPUpstreams(text string) []Upstream {
	out := []Upstream{}
	for _, u := range sortConf(parseUpstreams(text)) {
		out = append(out, Upstream{Name: u.Name, Servers: u.Servers})
	}
	return out
}
