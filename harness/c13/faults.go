package c13

// faults: sequences of EndpointSlice changes × fault scripts through the REAL HandleEventBatch — both the OSS
// reload path and the NGINX Plus API path — against the stand-in NGINX. After every batch the harness records
// what NGINX holds, whether the handler recorded an error FOR THIS BATCH (it logged "Failed to update NGINX
// configuration"), what latestReloadResult says, and whether an injected fault actually hit a call.
//
// Model: traceH of lean/NGF/Model/ResolverFaults.lean.  Judge: a batch the handler reports as successful (or
// that no fault hit) must leave NGINX with the resolved endpoints of the current cluster.

import (
	"context"
	"fmt"

	"github.com/go-logr/logr"
	"sigs.k8s.io/controller-runtime/pkg/client"

	"github.com/nginx/nginx-gateway-fabric/internal/framework/events"
	static "github.com/nginx/nginx-gateway-fabric/internal/mode/static"
	"github.com/nginx/nginx-gateway-fabric/internal/mode/static/state"
	"github.com/nginx/nginx-gateway-fabric/internal/mode/static/state/resolver"
	"github.com/nginx/nginx-gateway-fabric/verifharness/rng"
)

type faultOp struct {
	Op     string    `json:"op"` // "reload" = ClusterStateChange, "endpoints" = EndpointsOnlyChange
	Slices []jSlice  `json:"slices"`
	Refs   []jRef    `json:"refs"`
	Faults ngxFaults `json:"faults"`
	Note   string    `json:"note,omitempty"` // how the generator derived this step (informational)
}

type faultsIn struct {
	Fam  string    `json:"fam"`
	Plus bool      `json:"plus"`
	Ops  []faultOp `json:"ops"`
}

type faultsOut struct {
	Confs    []e2eConf `json:"confs"`    // upstreams of the configuration the real handler built in each batch
	Views    []ngxView `json:"views"`    // what NGINX holds after each batch
	Errs     []bool    `json:"errs"`     // the handler logged "Failed to update NGINX configuration" in this batch
	LastErrs []bool    `json:"lastErrs"` // latestReloadResult.Error != nil after the batch
	Fired    []bool    `json:"fired"`    // an injected fault hit a call of this batch
	Reloads  []int     `json:"reloads"`
	Calls    []int     `json:"calls"`
	Panics   []string  `json:"panics"`
}

// errSink is a logr sink that counts the handler's "Failed to update NGINX configuration" errors.
type errSink struct{ failed *int }

func (errSink) Init(logr.RuntimeInfo)                    {}
func (errSink) Enabled(int) bool                         { return true }
func (errSink) Info(int, string, ...interface{})         {}
func (s errSink) WithValues(...interface{}) logr.LogSink { return s }
func (s errSink) WithName(string) logr.LogSink           { return s }
func (s errSink) Error(_ error, msg string, _ ...interface{}) {
	if msg == "Failed to update NGINX configuration" {
		*s.failed++
	}
}

func newFaultsHandler(plus bool, n *fakeNginx, p *fakeProcessor, c client.Client) *static.VerifC13Handler {
	base := newHandlerDeps(plus, n)
	base.Processor = p
	base.Resolver = resolver.NewServiceResolverImpl(c)
	base.StatusUpdater = fakeStatus{}
	base.K8sClient = c
	base.DeployCtx = fakeDepCtx{}
	return static.VerifC13NewHandler(base)
}

func runFaults(in faultsIn) (out faultsOut) {
	out.Panics = []string{}
	n := newFakeNginx()
	c := newK8sClient(nil)
	p := &fakeProcessor{}
	h := newFaultsHandler(in.Plus, n, p, c)
	failed := 0
	logger := logr.New(errSink{failed: &failed})
	for _, op := range in.Ops {
		func() {
			defer func() {
				if r := recover(); r != nil {
					out.Panics = append(out.Panics, "panic: "+fmt.Sprint(r))
				}
			}()
			if err := setSlices(c, op.Slices); err != nil {
				out.Panics = append(out.Panics, "setSlices: "+err.Error())
				return
			}
			g := buildGraph(in.Fam, op.Refs)
			if op.Op == "reload" {
				p.ct, p.g = state.ClusterStateChange, g
			} else {
				p.ct, p.g = state.EndpointsOnlyChange, g
			}
			callsBefore, reloadsBefore, failedBefore := n.apiCalls, n.reloads, failed
			n.faults, n.fired = op.Faults, false
			h.HandleEventBatchLog(context.Background(), logger, events.EventBatch{})
			n.faults = ngxFaults{}
			conf := h.LatestConfiguration()
			if conf == nil {
				out.Panics = append(out.Panics, "no configuration")
				return
			}
			out.Confs = append(out.Confs, e2eConf{HTTP: toJUps(conf.Upstreams), Stream: toJUps(conf.StreamUpstreams)})
			out.Views = append(out.Views, n.view())
			out.Errs = append(out.Errs, failed > failedBefore)
			out.LastErrs = append(out.LastErrs, h.LatestReloadError() != "")
			out.Fired = append(out.Fired, n.fired)
			out.Reloads = append(out.Reloads, n.reloads-reloadsBefore)
			out.Calls = append(out.Calls, n.apiCalls-callsBefore)
		}()
	}
	return out
}

func upstreamNames(refs []jRef, stream bool) []string {
	seen := map[string]bool{}
	var out []string
	for _, r := range refs {
		if r.Stream != stream {
			continue
		}
		nm := fmt.Sprintf("%s_%s_%d", r.Ns, r.Name, r.SP.Port)
		if !seen[nm] {
			seen[nm] = true
			out = append(out, nm)
		}
	}
	return out
}

// genFaultScript picks what goes wrong in one batch. An EndpointsOnlyChange under NGINX Plus makes API calls only, so
// only API faults can hit it; every other batch goes through ReplaceFiles/Reload (and, with Plus, the API afterwards).
func genFaultScript(r *rng.R, plus bool, op string, refs []jRef) ngxFaults {
	f := ngxFaults{HTTP: []string{}, Stream: []string{}}
	hn, sn := upstreamNames(refs, false), upstreamNames(refs, true)
	api := func() {
		switch x := r.Intn(100); {
		case x < 25:
			f.Get = true
		case x < 50:
			f.HTTP, f.Stream = hn, sn // every update call of the batch fails
		case x < 80 && len(hn) > 0:
			f.HTTP = append(f.HTTP, rng.Pick(r, hn))
		case len(sn) > 0:
			f.Stream = append(f.Stream, rng.Pick(r, sn))
		default:
			f.HTTP, f.Stream = hn, sn
		}
		if f.HTTP == nil {
			f.HTTP = []string{}
		}
		if f.Stream == nil {
			f.Stream = []string{}
		}
	}
	if plus && op == "endpoints" {
		api()
		return f
	}
	switch x := r.Intn(100); {
	case x < 30:
		f.Replace = true
	case x < 70 || !plus:
		f.Reload = true
	default:
		api()
	}
	return f
}

func cloneSlices(w []jSlice) []jSlice { return append([]jSlice{}, w...) }

// forceChange adds a ready endpoint with a fresh address to every slice that carries the Service's label (or a new
// slice of the Service when there is none), so that the resolved set of every upstream that has endpoints changes.
func forceChange(r *rng.R, world []jSlice, ns, name string, prefer []string, step int) []jSlice {
	w := cloneSlices(world)
	hit := false
	for k, s := range w {
		if s.Ns != ns || s.Label == nil || *s.Label != name || (s.Type != "IPv4" && s.Type != "IPv6") {
			continue
		}
		addr := fmt.Sprintf("10.7.%d.%d", step, k+1)
		if s.Type == "IPv6" {
			addr = fmt.Sprintf("fd07::%d:%d", step, k+1)
		}
		s.Eps = append(append([]jEndpoint{}, s.Eps...), jEndpoint{Addrs: []string{addr}, Ready: ptr(true)})
		w[k] = s
		hit = true
	}
	if !hit {
		s := genSlice(r, 700+step, ns, name, false, prefer)
		s.Ns, s.Label, s.Type = ns, ptr(name), "IPv4"
		s.Eps = append(s.Eps, jEndpoint{Addrs: []string{fmt.Sprintf("10.7.%d.99", step)}, Ready: ptr(true)})
		w = append(w, s)
	}
	return w
}

// genFaults: EndpointSlice histories with the patterns that matter for retry — "change, then an event that
// re-resolves to the same set" (identical slices, or a change that does not touch the ready set: an unready
// endpoint, a slice of another Service), "A -> B -> A" — crossed with fault scripts; a faulty batch is usually
// followed by an undisturbed one.
func genFaults(r *rng.R, maxOps int) faultsIn {
	in := faultsIn{Fam: rng.Pick(r, []string{"dual", "dual", "ipv4", "ipv6"}), Plus: r.Bool()}
	ns, name := rng.Pick(r, nsPool), rng.Pick(r, svcPool)
	refs := genRefs(r, ns, name)
	prefer := func() []string {
		out := []string{}
		for _, ref := range refs {
			out = append(out, ref.SP.Name)
		}
		return out
	}
	world := genWorld(r, ns, name, 4, false, prefer())
	if len(world) == 0 {
		world = append(world, genSlice(r, 0, ns, name, false, prefer()))
	}
	var history [][]jSlice
	nOps := r.Range(3, maxOps)
	prevFaulty := false
	for i := 0; i < nOps; i++ {
		op := faultOp{Op: "endpoints", Faults: ngxFaults{HTTP: []string{}, Stream: []string{}}}
		if i == 0 || r.Chance(12, 100) {
			op.Op = "reload"
			if i > 0 && r.Chance(40, 100) {
				refs = genRefs(r, ns, name)
			}
		}
		if i > 0 {
			switch x := r.Intn(100); {
			case x < 30 || (prevFaulty && x < 65):
				op.Note = "same slices again"
			case x < 42:
				// a change that cannot alter any ready set: an unready endpoint appears, a foreign slice appears
				w := cloneSlices(world)
				if len(w) > 0 && r.Bool() {
					k := r.Intn(len(w))
					s := w[k]
					s.Eps = append(append([]jEndpoint{}, s.Eps...),
						jEndpoint{Addrs: []string{rng.Pick(r, v4Pool)}, Ready: ptr(false)})
					w[k] = s
				} else {
					f := genSlice(r, 500+i, "other-ns", "other-svc", false, nil)
					f.Ns, f.Label = "other-ns", ptr("other-svc")
					w = append(w, f)
				}
				world = w
				op.Note = "irrelevant change"
			case x < 55 && len(history) >= 2:
				world = cloneSlices(history[len(history)-2])
				op.Note = "back to the slices of two steps ago (A -> B -> A)"
			default:
				world = mutateWorld(r, world, ns, name, prefer())
				op.Note = "endpoints change"
			}
		}
		faultChance := 30
		if prevFaulty {
			faultChance = 15
		}
		if i == 0 {
			faultChance = 8
		}
		prevFaulty = false
		if r.Chance(faultChance, 100) {
			op.Faults = genFaultScript(r, in.Plus, op.Op, refs)
			prevFaulty = true
			if i > 0 && r.Chance(75, 100) {
				// make sure the faulty batch has something to apply: a new ready address in a slice of the Service
				world = forceChange(r, world, ns, name, prefer(), i)
				op.Note = "endpoints change (new ready address)"
			}
		}
		op.Slices = cloneSlices(world)
		op.Refs = append([]jRef{}, refs...)
		history = append(history, cloneSlices(world))
		in.Ops = append(in.Ops, op)
	}
	return in
}
