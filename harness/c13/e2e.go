package c13

// e2e: sequences of EndpointSlice changes through the REAL HandleEventBatch (change type dispatch,
// BuildConfiguration with the real resolver over the fake k8s client, generator, updateNginxConf /
// updateUpstreamServers) against the stand-in NGINX Plus.

import (
	"context"
	"fmt"

	discoveryV1 "k8s.io/api/discovery/v1"
	"k8s.io/apimachinery/pkg/types"
	"sigs.k8s.io/controller-runtime/pkg/client"

	"github.com/nginx/nginx-gateway-fabric/internal/framework/events"
	frameworkStatus "github.com/nginx/nginx-gateway-fabric/internal/framework/status"
	ngftypes "github.com/nginx/nginx-gateway-fabric/internal/framework/types"
	static "github.com/nginx/nginx-gateway-fabric/internal/mode/static"
	"github.com/nginx/nginx-gateway-fabric/internal/mode/static/state"
	"github.com/nginx/nginx-gateway-fabric/internal/mode/static/state/dataplane"
	"github.com/nginx/nginx-gateway-fabric/internal/mode/static/state/graph"
	"github.com/nginx/nginx-gateway-fabric/internal/mode/static/state/resolver"
	"github.com/nginx/nginx-gateway-fabric/verifharness/rng"
)

type e2eOp struct {
	Op     string   `json:"op"` // "reload" = ClusterStateChange, "endpoints" = EndpointsOnlyChange
	Slices []jSlice `json:"slices"`
	Refs   []jRef   `json:"refs"`
}

type e2eIn struct {
	Fam string  `json:"fam"`
	Ops []e2eOp `json:"ops"`
}

type e2eConf struct {
	HTTP   []jUp `json:"http"`
	Stream []jUp `json:"stream"`
}

type e2eOut struct {
	Confs []e2eConf  `json:"confs"` // upstreams of the configuration the real handler built in each step
	Views []ngxView  `json:"views"`
	Alts  []*ngxView `json:"alts"`
	Errs  []string   `json:"errs"`
	Calls []int      `json:"calls"`
	// Reloads: number of NGINX reloads each step caused (informational: an endpoints-only change under Plus
	// is expected to cause none, but reloading instead would not violate the property)
	Reloads []int `json:"reloads"`
}

// fakeProcessor plays the ChangeProcessor: the harness decides change type and graph of each batch.
type fakeProcessor struct {
	ct state.ChangeType
	g  *graph.Graph
}

func (p *fakeProcessor) CaptureUpsertChange(client.Object)                             {}
func (p *fakeProcessor) CaptureDeleteChange(ngftypes.ObjectType, types.NamespacedName) {}
func (p *fakeProcessor) Process() (state.ChangeType, *graph.Graph)                     { return p.ct, p.g }
func (p *fakeProcessor) GetLatestGraph() *graph.Graph                                  { return p.g }

type fakeStatus struct{}

func (fakeStatus) UpdateGroup(context.Context, string, ...frameworkStatus.UpdateRequest) {}

type fakeDepCtx struct{}

func (fakeDepCtx) Collect(context.Context) (dataplane.DeploymentContext, error) {
	return dataplane.DeploymentContext{}, nil
}

func newE2EHandler(n *fakeNginx, p *fakeProcessor, c client.Client) *static.VerifC13Handler {
	base := newHandlerDeps(true, n)
	base.Processor = p
	base.Resolver = resolver.NewServiceResolverImpl(c)
	base.StatusUpdater = fakeStatus{}
	base.K8sClient = c
	base.DeployCtx = fakeDepCtx{}
	return static.VerifC13NewHandler(base)
}

// setSlices makes the cluster hold exactly the given slices.
func setSlices(c client.Client, slices []jSlice) error {
	ctx := context.Background()
	var list discoveryV1.EndpointSliceList
	if err := c.List(ctx, &list); err != nil {
		return err
	}
	for i := range list.Items {
		if err := c.Delete(ctx, &list.Items[i]); err != nil {
			return err
		}
	}
	for _, s := range slices {
		if err := c.Create(ctx, s.k8s()); err != nil {
			return err
		}
	}
	return nil
}

func runE2E(in e2eIn) (out e2eOut) {
	out.Errs = []string{}
	n := newFakeNginx()
	c := newK8sClient(nil)
	p := &fakeProcessor{}
	h := newE2EHandler(n, p, c)
	for _, op := range in.Ops {
		func() {
			defer func() {
				if r := recover(); r != nil {
					out.Errs = append(out.Errs, "panic: "+fmt.Sprint(r))
				}
			}()
			if err := setSlices(c, op.Slices); err != nil {
				out.Errs = append(out.Errs, "setSlices: "+err.Error())
				return
			}
			g := buildGraph(in.Fam, op.Refs)
			var alt *ngxView
			before := n.apiCalls
			reloadsBefore := n.reloads
			if op.Op == "reload" {
				p.ct, p.g = state.ClusterStateChange, g
			} else {
				// what the reload path would have produced from the same cluster state
				n2 := n.clone()
				h2 := newE2EHandler(n2, &fakeProcessor{ct: state.ClusterStateChange, g: buildGraph(in.Fam, op.Refs)}, c)
				h2.HandleEventBatch(context.Background(), events.EventBatch{})
				v := n2.view()
				alt = &v
				p.ct, p.g = state.EndpointsOnlyChange, g
			}
			h.HandleEventBatch(context.Background(), events.EventBatch{})
			conf := h.LatestConfiguration()
			if conf == nil {
				out.Errs = append(out.Errs, "no configuration")
				return
			}
			out.Reloads = append(out.Reloads, n.reloads-reloadsBefore)
			out.Confs = append(out.Confs, e2eConf{HTTP: toJUps(conf.Upstreams), Stream: toJUps(conf.StreamUpstreams)})
			out.Views = append(out.Views, n.view())
			out.Alts = append(out.Alts, alt)
			out.Calls = append(out.Calls, n.apiCalls-before)
		}()
	}
	return out
}

// mutateWorld changes endpoints only: readiness flips, addresses added/removed, slices added/removed.
func mutateWorld(r *rng.R, slices []jSlice, ns, name string, prefer []string) []jSlice {
	out := make([]jSlice, 0, len(slices)+1)
	for _, s := range slices {
		if r.Chance(6, 100) {
			continue // slice deleted
		}
		c := s
		c.Eps = make([]jEndpoint, 0, len(s.Eps))
		for _, e := range s.Eps {
			switch x := r.Intn(100); {
			case x < 10:
				continue // endpoint gone
			case x < 40:
				e.Ready = genOptBool(r, 10, 65)
			}
			c.Eps = append(c.Eps, e)
		}
		if r.Chance(25, 100) {
			fresh := genSlice(r, 0, ns, name, false, prefer)
			for _, e := range fresh.Eps {
				if s.Type == fresh.Type {
					c.Eps = append(c.Eps, e)
				}
			}
		}
		if r.Chance(8, 100) {
			for i := range c.Eps {
				c.Eps[i].Ready = ptr(false) // scale to zero
			}
		}
		out = append(out, c)
	}
	if r.Chance(30, 100) || len(out) == 0 {
		s := genSlice(r, 100+r.Intn(1000), ns, name, false, prefer)
		dup := false
		for _, o := range out {
			if o.Obj == s.Obj && o.Ns == s.Ns {
				dup = true
			}
		}
		if !dup {
			out = append(out, s)
		}
	}
	return out
}

func genRefs(r *rng.R, ns, name string) []jRef {
	nRefs := r.Range(1, 3)
	ports := map[string]jSvcPort{}
	var refs []jRef
	for i := 0; i < nRefs; i++ {
		ref := jRef{Ns: ns, Name: name, Stream: r.Chance(35, 100)}
		if r.Chance(15, 100) {
			ref.Name = rng.Pick(r, svcPool)
		}
		sp := genSvcPort(r, false)
		key := fmt.Sprintf("%s/%s/%d", ref.Ns, ref.Name, sp.Port)
		if old, ok := ports[key]; ok {
			sp = old
		}
		ports[key] = sp
		ref.SP = sp
		refs = append(refs, ref)
	}
	return refs
}

func genE2E(r *rng.R, maxOps int) e2eIn {
	in := e2eIn{Fam: rng.Pick(r, []string{"dual", "dual", "ipv4", "ipv6"})}
	ns, name := rng.Pick(r, nsPool), rng.Pick(r, svcPool)
	refs := genRefs(r, ns, name)
	prefer := func() []string {
		out := []string{}
		for _, ref := range refs {
			out = append(out, ref.SP.Name)
		}
		return out
	}
	world := genWorld(r, ns, name, 5, false, prefer())
	if len(world) == 0 {
		world = append(world, genSlice(r, 0, ns, name, false, prefer()))
	}
	nOps := r.Range(2, maxOps)
	for i := 0; i < nOps; i++ {
		op := e2eOp{Op: "endpoints"}
		if i == 0 || r.Chance(15, 100) {
			op.Op = "reload"
			if i > 0 && r.Chance(50, 100) {
				refs = genRefs(r, ns, name)
			}
		}
		if i > 0 {
			world = mutateWorld(r, world, ns, name, prefer())
		}
		op.Slices = append([]jSlice{}, world...)
		op.Refs = append([]jRef{}, refs...)
		in.Ops = append(in.Ops, op)
	}
	return in
}
