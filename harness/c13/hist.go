package c13

// hist: HISTORIES of watch events through the REAL ChangeProcessor (it decides NoChange / EndpointsOnlyChange /
// ClusterStateChange for every batch, with its EndpointSlice tracking store and latest graph) wired into the REAL
// eventHandlerImpl (real resolver over the fake client that plays the informer cache, real generator) against the
// stand-in NGINX, OSS and Plus. Event orders that matter: EndpointSlices seen before any route references their
// Service, the Service created after its slices, routes removed and re-added around slice changes, a slice
// deleted / emptied / relabelled alone in a batch.
//
// After EVERY drained batch the harness records the change type the real processor reported and what NGINX holds.
// Model: Model/ResolverHistory.lean (`runBatch`). Judge: the servers NGINX holds for every upstream of a resolvable
// backendRef = the ready endpoints of that Service port in the CURRENT cluster (503 placeholder when none).

import (
	"context"
	"fmt"

	"github.com/go-logr/logr"
	apiv1 "k8s.io/api/core/v1"
	discoveryV1 "k8s.io/api/discovery/v1"
	metav1 "k8s.io/apimachinery/pkg/apis/meta/v1"
	"k8s.io/apimachinery/pkg/types"
	"sigs.k8s.io/controller-runtime/pkg/client"
	gatewayv1 "sigs.k8s.io/gateway-api/apis/v1"

	"k8s.io/client-go/tools/record"

	"github.com/nginx/nginx-gateway-fabric/internal/framework/events"
	"github.com/nginx/nginx-gateway-fabric/internal/framework/kinds"
	ngftypes "github.com/nginx/nginx-gateway-fabric/internal/framework/types"
	static "github.com/nginx/nginx-gateway-fabric/internal/mode/static"
	"github.com/nginx/nginx-gateway-fabric/internal/mode/static/nginx/config/policies"
	ngxvalidation "github.com/nginx/nginx-gateway-fabric/internal/mode/static/nginx/config/validation"
	"github.com/nginx/nginx-gateway-fabric/internal/mode/static/state"
	"github.com/nginx/nginx-gateway-fabric/internal/mode/static/state/graph"
	"github.com/nginx/nginx-gateway-fabric/internal/mode/static/state/resolver"
	"github.com/nginx/nginx-gateway-fabric/internal/mode/static/state/validation"
	"github.com/nginx/nginx-gateway-fabric/verifharness/pipeline"
	"github.com/nginx/nginx-gateway-fabric/verifharness/rng"
)

type hSvc struct {
	Ns    string     `json:"ns"`
	Name  string     `json:"name"`
	Ports []jSvcPort `json:"ports"`
}

type hRef struct {
	Name string `json:"name"` // Service in the route's namespace
	Port int32  `json:"port"`
}

type hRoute struct {
	Ns   string `json:"ns"`
	Name string `json:"name"`
	Refs []hRef `json:"refs"`
}

type histEv struct {
	Op    string  `json:"op"`   // upsert | delete
	Kind  string  `json:"kind"` // slice | svc | route
	Slice *jSlice `json:"slice,omitempty"`
	Svc   *hSvc   `json:"svc,omitempty"`
	Route *hRoute `json:"route,omitempty"`
	Ns    string  `json:"ns,omitempty"`   // delete
	Name  string  `json:"name,omitempty"` // delete
	Note  string  `json:"note,omitempty"`
}

type histIn struct {
	Plus    bool       `json:"plus"`
	Batches [][]histEv `json:"batches"`
}

type histOut struct {
	Changes []string  `json:"changes"` // none | endpoints | cluster — what the REAL processor reported for the batch
	Views   []ngxView `json:"views"`   // what NGINX holds after the batch
	Confs   []e2eConf `json:"confs"`   // latestConfiguration after the batch
	Errs    []bool    `json:"errs"`
	Panics  []string  `json:"panics"`
}

// recProcessor is the REAL ChangeProcessorImpl; it only records what Process returned.
type recProcessor struct {
	inner *state.ChangeProcessorImpl
	last  state.ChangeType
}

func (p *recProcessor) CaptureUpsertChange(o client.Object) { p.inner.CaptureUpsertChange(o) }
func (p *recProcessor) CaptureDeleteChange(t ngftypes.ObjectType, n types.NamespacedName) {
	p.inner.CaptureDeleteChange(t, n)
}
func (p *recProcessor) Process() (state.ChangeType, *graph.Graph) {
	ct, g := p.inner.Process()
	p.last = ct
	return ct, g
}
func (p *recProcessor) GetLatestGraph() *graph.Graph { return p.inner.GetLatestGraph() }

func newRealProcessor() *state.ChangeProcessorImpl {
	mustExtractGVK := kinds.NewMustExtractGKV(pipeline.Scheme)
	gv := ngxvalidation.GenericValidator{}
	return state.NewChangeProcessorImpl(state.ChangeProcessorConfig{
		GatewayCtlrName:  pipeline.DefaultController,
		GatewayClassName: pipeline.DefaultClass,
		Logger:           logr.Discard(),
		Validators: validation.Validators{
			HTTPFieldsValidator: ngxvalidation.HTTPValidator{},
			GenericValidator:    gv,
			PolicyValidator:     policies.NewManager(mustExtractGVK),
		},
		EventRecorder:  record.NewFakeRecorder(1 << 16),
		MustExtractGVK: mustExtractGVK,
		ProtectedPorts: map[int32]string{9113: "MetricsPort", 8081: "HealthPort"},
		PlusSecrets: map[types.NamespacedName][]graph.PlusSecretFile{
			{Namespace: "gw", Name: "license"}: {{FieldName: "license.jwt", Content: []byte("token"), Type: graph.PlusReportJWTToken}},
		},
	})
}

func (s hSvc) k8s() *apiv1.Service {
	svc := &apiv1.Service{ObjectMeta: pipeline.Meta(s.Ns, s.Name, 0)}
	svc.Spec.Type = apiv1.ServiceTypeClusterIP
	svc.Spec.IPFamilies = []apiv1.IPFamily{apiv1.IPv4Protocol}
	for _, p := range s.Ports {
		svc.Spec.Ports = append(svc.Spec.Ports, p.k8s())
	}
	return svc
}

func (r hRoute) k8s() *gatewayv1.HTTPRoute {
	var bs []pipeline.Backend
	for _, ref := range r.Refs {
		bs = append(bs, pipeline.Backend{Ref: ref.Name, Port: ref.Port, Weight: 1})
	}
	return pipeline.HTTPRoute(r.Ns, r.Name, 5, []gatewayv1.ParentReference{pipeline.ParentRef("gw", "gw", "")},
		[]string{r.Name + ".example.com"},
		pipeline.HTTPRule([]gatewayv1.HTTPRouteMatch{pipeline.PathMatch("PathPrefix", "/")}, bs...))
}

func changeName(ct state.ChangeType) string {
	switch ct {
	case state.NoChange:
		return "none"
	case state.EndpointsOnlyChange:
		return "endpoints"
	default:
		return "cluster"
	}
}

func runHist(in histIn) (out histOut) {
	out.Panics, out.Changes, out.Views, out.Confs, out.Errs = []string{}, []string{}, []ngxView{}, []e2eConf{}, []bool{}
	// real ChangeProcessorImpl (wired as pipeline.NewController / StartManager do, plus the NGINX Plus license secret
	// the Plus configuration needs) + fake client (the informer cache) + real resolver
	cl := newK8sClient(nil)
	proc := &recProcessor{inner: newRealProcessor()}
	n := newFakeNginx()
	deps := newHandlerDeps(in.Plus, n)
	deps.Processor, deps.Resolver, deps.StatusUpdater, deps.K8sClient, deps.DeployCtx = proc, resolver.NewServiceResolverImpl(cl), fakeStatus{}, cl, fakeDepCtx{}
	h := static.VerifC13NewHandler(deps)
	failed := 0
	logger := logr.New(errSink{failed: &failed})
	ctx := context.Background()

	deliver := func(batch events.EventBatch) (ok bool) {
		defer func() {
			if r := recover(); r != nil {
				out.Panics = append(out.Panics, "panic: "+fmt.Sprint(r))
				ok = false
			}
		}()
		proc.last = state.NoChange
		h.HandleEventBatchLog(ctx, logger, batch)
		return true
	}
	// start-up batch: the GatewayClass and the Gateway
	if !deliver(events.EventBatch{
		&events.UpsertEvent{Resource: pipeline.GatewayClass(pipeline.DefaultClass, pipeline.DefaultController, 1)},
		&events.UpsertEvent{Resource: pipeline.Gateway("gw", "gw", pipeline.DefaultClass, 2,
			pipeline.Listener{Name: "http", Port: 80, Protocol: "HTTP", FromNS: "All"})},
	}) {
		return out
	}
	for _, evs := range in.Batches {
		var batch events.EventBatch
		for _, e := range evs {
			switch {
			case e.Kind == "slice" && e.Op == "upsert" && e.Slice != nil:
				es := e.Slice.k8s()
				existing := &discoveryV1.EndpointSlice{}
				if err := cl.Get(ctx, client.ObjectKeyFromObject(es), existing); err == nil {
					es.ResourceVersion = existing.ResourceVersion
					_ = cl.Update(ctx, es)
				} else {
					_ = cl.Create(ctx, es)
				}
				batch = append(batch, &events.UpsertEvent{Resource: e.Slice.k8s()})
			case e.Kind == "slice" && e.Op == "delete":
				_ = cl.Delete(ctx, &discoveryV1.EndpointSlice{ObjectMeta: metav1.ObjectMeta{Namespace: e.Ns, Name: e.Name}})
				batch = append(batch, &events.DeleteEvent{Type: &discoveryV1.EndpointSlice{},
					NamespacedName: types.NamespacedName{Namespace: e.Ns, Name: e.Name}})
			case e.Kind == "svc" && e.Op == "upsert" && e.Svc != nil:
				batch = append(batch, &events.UpsertEvent{Resource: e.Svc.k8s()})
			case e.Kind == "svc" && e.Op == "delete":
				batch = append(batch, &events.DeleteEvent{Type: &apiv1.Service{},
					NamespacedName: types.NamespacedName{Namespace: e.Ns, Name: e.Name}})
			case e.Kind == "route" && e.Op == "upsert" && e.Route != nil:
				batch = append(batch, &events.UpsertEvent{Resource: e.Route.k8s()})
			case e.Kind == "route" && e.Op == "delete":
				batch = append(batch, &events.DeleteEvent{Type: &gatewayv1.HTTPRoute{},
					NamespacedName: types.NamespacedName{Namespace: e.Ns, Name: e.Name}})
			}
		}
		failedBefore := failed
		if !deliver(batch) {
			return out
		}
		out.Changes = append(out.Changes, changeName(proc.last))
		out.Views = append(out.Views, n.view())
		c := e2eConf{HTTP: []jUp{}, Stream: []jUp{}}
		if conf := h.LatestConfiguration(); conf != nil {
			c = e2eConf{HTTP: toJUps(conf.Upstreams), Stream: toJUps(conf.StreamUpstreams)}
		}
		out.Confs = append(out.Confs, c)
		out.Errs = append(out.Errs, failed > failedBefore)
	}
	return out
}

// ------------------------------------------------------------------ generator

type histWorld struct {
	slices map[string]jSlice // key ns/obj
	svcs   map[string]hSvc
	routes map[string]hRoute
}

func histSvc(r *rng.R, name string) hSvc {
	s := hSvc{Ns: "ns", Name: name}
	for k, num := range rng.Pick(r, [][]int32{{80}, {80}, {80, 8080}}) {
		p := jSvcPort{Name: []string{"http", "web"}[k], Port: num}
		switch x := r.Intn(100); {
		case x < 20:
			p.TPI = ptr(int32(0))
		case x < 80:
			p.TPI = ptr(rng.Pick(r, []int32{8080, 9090}))
		default:
			p.TPS = ptr("http")
		}
		s.Ports = append(s.Ports, p)
	}
	return s
}

// histSlice: a slice that publishes the Service's ports, with a few addresses.
func histSlice(r *rng.R, svc string, obj string, step int) jSlice {
	s := jSlice{Ns: "ns", Obj: obj, Label: ptr(svc), Type: "IPv4",
		Ports: []jPort{{Name: ptr("http"), Port: ptr(int32(8080))}, {Name: ptr("web"), Port: ptr(int32(8081))}}}
	if r.Chance(10, 100) {
		s.Ports = []jPort{{Name: ptr("http"), Port: nil}}
	}
	for k, n := 0, r.Range(1, 3); k < n; k++ {
		s.Eps = append(s.Eps, jEndpoint{Addrs: []string{fmt.Sprintf("10.%d.%d.%d", step%200, len(obj), k+1)},
			Ready: genOptBool(r, 5, 80)})
	}
	return s
}

// genHist draws a history. Services svc, svc-a in namespace ns; slices svc-s0..2, svc-a-s0..1; routes r0, r1.
func genHist(r *rng.R, maxOps int) histIn {
	in := histIn{Plus: r.Bool(), Batches: [][]histEv{}}
	w := histWorld{slices: map[string]jSlice{}, svcs: map[string]hSvc{}, routes: map[string]hRoute{}}
	svcNames := []string{"svc", "svc-a"}
	objNames := map[string][]string{"svc": {"svc-s0", "svc-s1", "svc-s2"}, "svc-a": {"svc-a-s0", "svc-a-s1"}}
	step := 0
	upSlice := func(s jSlice, note string) histEv {
		w.slices[s.Ns+"/"+s.Obj] = s
		c := s
		return histEv{Op: "upsert", Kind: "slice", Slice: &c, Note: note}
	}
	delSlice := func(key string, note string) histEv {
		s := w.slices[key]
		delete(w.slices, key)
		return histEv{Op: "delete", Kind: "slice", Ns: s.Ns, Name: s.Obj, Note: note}
	}
	anySlice := func() (string, bool) {
		keys := make([]string, 0, len(w.slices))
		for _, sv := range svcNames {
			for _, o := range objNames[sv] {
				if _, ok := w.slices["ns/"+o]; ok {
					keys = append(keys, "ns/"+o)
				}
			}
		}
		if len(keys) == 0 {
			return "", false
		}
		return rng.Pick(r, keys), true
	}
	one := func() []histEv {
		step++
		switch x := r.Intn(100); {
		case x < 22: // a new or updated slice (possibly long before anything references its Service)
			sv := rng.Pick(r, svcNames)
			return []histEv{upSlice(histSlice(r, sv, rng.Pick(r, objNames[sv]), step), "slice upserted")}
		case x < 34: // Service created / updated
			s := histSvc(r, rng.Pick(r, svcNames))
			w.svcs[s.Name] = s
			return []histEv{{Op: "upsert", Kind: "svc", Svc: &s, Note: "service upserted"}}
		case x < 50: // route created / changed
			name := rng.Pick(r, []string{"r0", "r1"})
			rt := hRoute{Ns: "ns", Name: name}
			for k, n := 0, r.Range(1, 2); k < n; k++ {
				rt.Refs = append(rt.Refs, hRef{Name: rng.Pick(r, svcNames), Port: rng.Pick(r, []int32{80, 80, 8080})})
			}
			w.routes[name] = rt
			return []histEv{{Op: "upsert", Kind: "route", Route: &rt, Note: "route upserted"}}
		case x < 58: // route removed
			name := rng.Pick(r, []string{"r0", "r1"})
			if _, ok := w.routes[name]; !ok {
				return nil
			}
			delete(w.routes, name)
			return []histEv{{Op: "delete", Kind: "route", Ns: "ns", Name: name, Note: "route deleted"}}
		case x < 72: // a slice deleted alone
			if k, ok := anySlice(); ok {
				return []histEv{delSlice(k, "slice deleted alone")}
			}
		case x < 82: // a slice emptied alone (every endpoint unready)
			if k, ok := anySlice(); ok {
				s := w.slices[k]
				s.Eps = append([]jEndpoint{}, s.Eps...)
				for i := range s.Eps {
					s.Eps[i].Ready = ptr(false)
				}
				return []histEv{upSlice(s, "slice emptied alone")}
			}
		case x < 92: // a slice relabelled alone (to the other Service, or the label removed)
			if k, ok := anySlice(); ok {
				s := w.slices[k]
				if r.Chance(70, 100) {
					other := "svc"
					if s.Label != nil && *s.Label == "svc" {
						other = "svc-a"
					}
					s.Label = ptr(other)
				} else {
					s.Label = nil
				}
				return []histEv{upSlice(s, "slice relabelled alone")}
			}
		case x < 96: // Service deleted
			name := rng.Pick(r, svcNames)
			if _, ok := w.svcs[name]; ok {
				delete(w.svcs, name)
				return []histEv{{Op: "delete", Kind: "svc", Ns: "ns", Name: name, Note: "service deleted"}}
			}
		default: // a foreign slice (other namespace / other Service)
			s := histSlice(r, "other", "other-s0", step)
			s.Ns = rng.Pick(r, []string{"ns", "ns2"})
			return []histEv{upSlice(s, "foreign slice")}
		}
		return nil
	}
	// prologue families
	switch r.Intn(4) {
	case 0: // backend first: slices, then the Service, then the route
		in.Batches = append(in.Batches, []histEv{upSlice(histSlice(r, "svc", "svc-s0", 1), "slice first"),
			upSlice(histSlice(r, "svc", "svc-s1", 2), "slice first")})
		s := histSvc(r, "svc")
		w.svcs["svc"] = s
		in.Batches = append(in.Batches, []histEv{{Op: "upsert", Kind: "svc", Svc: &s, Note: "service after its slices"}})
		rt := hRoute{Ns: "ns", Name: "r0", Refs: []hRef{{Name: "svc", Port: 80}}}
		w.routes["r0"] = rt
		in.Batches = append(in.Batches, []histEv{{Op: "upsert", Kind: "route", Route: &rt, Note: "route later"}})
	case 1: // route first, then Service and slices in one batch
		rt := hRoute{Ns: "ns", Name: "r0", Refs: []hRef{{Name: "svc", Port: 80}}}
		w.routes["r0"] = rt
		in.Batches = append(in.Batches, []histEv{{Op: "upsert", Kind: "route", Route: &rt, Note: "route first"}})
		s := histSvc(r, "svc")
		w.svcs["svc"] = s
		in.Batches = append(in.Batches, []histEv{{Op: "upsert", Kind: "svc", Svc: &s, Note: "service later"},
			upSlice(histSlice(r, "svc", "svc-s0", 1), "slice with its service")})
	}
	for len(in.Batches) < maxOps {
		var batch []histEv
		for k, n := 0, rng.Pick(r, []int{1, 1, 1, 1, 2, 3}); k < n; k++ {
			batch = append(batch, one()...)
		}
		if len(batch) > 0 {
			in.Batches = append(in.Batches, batch)
		} else if r.Chance(20, 100) {
			break
		}
	}
	return in
}
