package c13

// A stateful stand-in for NGINX (Plus): it "loads" the files the real generator produced and holds the
// upstream server sets the way the NGINX Plus API exposes and changes them. It is the ENVIRONMENT of the
// code under test (file.Manager + runtime.NginxPlusClient + Reload), see notes/C13.md "trusted base".

import (
	"context"
	"errors"
	"fmt"
	"regexp"
	"sort"
	"strings"

	ngxclient "github.com/nginxinc/nginx-plus-go-client/client"

	"github.com/nginx/nginx-gateway-fabric/internal/mode/static/nginx/file"
	"github.com/nginx/nginx-gateway-fabric/internal/mode/static/nginx/runtime"
)

type ngxUpstream struct {
	Name    string   `json:"name"`
	Zone    string   `json:"zone"`
	State   string   `json:"state"`
	Servers []string `json:"servers"` // `server` lines of the configuration file
}

type fakeNginx struct {
	files      []file.File
	httpConf   []ngxUpstream       // upstream blocks of the loaded http configuration
	streamConf []ngxUpstream       // upstream blocks of the loaded stream configuration
	http       map[string][]string // API view: upstreams with a zone -> peers
	stream     map[string][]string
	stateFiles map[string][]string // state file path -> servers (survives reloads)
	apiCalls   int
	reloads    int
	// fault injection (harness/c13/faults.go): what the environment does to the calls of the current batch
	faults ngxFaults
	fired  bool // a fault hit a call of the current batch
}

// ngxFaults is the fault script of one batch.
type ngxFaults struct {
	Replace bool     `json:"replace"` // file.Manager.ReplaceFiles returns an error (files unchanged)
	Reload  bool     `json:"reload"`  // runtime.Manager.Reload returns an error (NGINX keeps running what it has)
	Get     bool     `json:"get"`     // NginxPlusClient.GetUpstreams returns an error
	HTTP    []string `json:"http"`    // UpdateHTTPServers(name, …) returns an error for these names (nothing changes)
	Stream  []string `json:"stream"`  // UpdateStreamServers(name, …) likewise
}

func (f ngxFaults) has(list []string, name string) bool {
	for _, n := range list {
		if n == name {
			return true
		}
	}
	return false
}

func newFakeNginx() *fakeNginx {
	return &fakeNginx{http: map[string][]string{}, stream: map[string][]string{}, stateFiles: map[string][]string{}}
}

func cloneTable(t map[string][]string) map[string][]string {
	out := make(map[string][]string, len(t))
	for k, v := range t {
		out[k] = append([]string(nil), v...)
	}
	return out
}

func (n *fakeNginx) clone() *fakeNginx {
	c := &fakeNginx{
		files:      n.files,
		httpConf:   append([]ngxUpstream(nil), n.httpConf...),
		streamConf: append([]ngxUpstream(nil), n.streamConf...),
		http:       cloneTable(n.http),
		stream:     cloneTable(n.stream),
		stateFiles: cloneTable(n.stateFiles),
	}
	return c
}

// ---- file.Manager

func (n *fakeNginx) ReplaceFiles(files []file.File) error {
	if n.faults.Replace {
		n.fired = true
		return errors.New("injected: cannot write configuration files")
	}
	n.files = files
	return nil
}

var (
	reUpstream = regexp.MustCompile(`^\s*upstream\s+(\S+)\s*\{\s*$`)
	reServer   = regexp.MustCompile(`^\s*server\s+(\S+?)\s*;\s*$`)
	reState    = regexp.MustCompile(`^\s*state\s+(\S+?)\s*;\s*$`)
	reZone     = regexp.MustCompile(`^\s*zone\s+(\S+)\s+(\S+?)\s*;\s*$`)
	reClose    = regexp.MustCompile(`^\s*\}\s*$`)
)

// parseUpstreams extracts the upstream blocks of a generated configuration text.
func parseUpstreams(text string) []ngxUpstream {
	var out []ngxUpstream
	var cur *ngxUpstream
	for _, line := range strings.Split(text, "\n") {
		if cur == nil {
			if m := reUpstream.FindStringSubmatch(line); m != nil {
				cur = &ngxUpstream{Name: m[1], Servers: []string{}}
			}
			continue
		}
		switch {
		case reClose.MatchString(line):
			out = append(out, *cur)
			cur = nil
		case reServer.MatchString(line):
			cur.Servers = append(cur.Servers, reServer.FindStringSubmatch(line)[1])
		case reState.MatchString(line):
			cur.State = reState.FindStringSubmatch(line)[1]
		case reZone.MatchString(line):
			cur.Zone = reZone.FindStringSubmatch(line)[2]
		}
	}
	return out
}

func (n *fakeNginx) load(ups []ngxUpstream) map[string][]string {
	t := map[string][]string{}
	for _, u := range ups {
		if u.Zone == "" {
			continue // upstreams without a shared memory zone are not visible in the API
		}
		if u.State != "" {
			t[u.Name] = append([]string(nil), n.stateFiles[u.State]...)
		} else {
			t[u.Name] = append([]string(nil), u.Servers...)
		}
	}
	return t
}

// ---- runtime.Manager (Reload) on top of the real ManagerImpl for the API calls

func (n *fakeNginx) reload() {
	n.reloads++
	var httpText, streamText string
	for _, f := range n.files {
		switch {
		case strings.HasSuffix(f.Path, "/conf.d/http.conf"):
			httpText += string(f.Content)
		case strings.HasSuffix(f.Path, "/stream-conf.d/stream.conf"):
			streamText += string(f.Content)
		}
	}
	n.httpConf = parseUpstreams(httpText)
	n.streamConf = parseUpstreams(streamText)
	n.http = n.load(n.httpConf)
	n.stream = n.load(n.streamConf)
}

type fakeManager struct {
	*runtime.ManagerImpl
	n *fakeNginx
}

func (m fakeManager) Reload(context.Context, int) error {
	if m.n.faults.Reload {
		m.n.fired = true
		return errors.New("injected: NGINX did not load the new configuration")
	}
	m.n.reload()
	return nil
}

// ---- runtime.NginxPlusClient

func dedupStrings(in []string) []string {
	seen := map[string]bool{}
	out := []string{}
	for _, s := range in {
		if !seen[s] {
			seen[s] = true
			out = append(out, s)
		}
	}
	return out
}

func (n *fakeNginx) stateOf(conf []ngxUpstream, name string) string {
	for _, u := range conf {
		if u.Name == name {
			return u.State
		}
	}
	return ""
}

func (n *fakeNginx) UpdateHTTPServers(upstream string, servers []ngxclient.UpstreamServer) (
	[]ngxclient.UpstreamServer, []ngxclient.UpstreamServer, []ngxclient.UpstreamServer, error,
) {
	n.apiCalls++
	if n.faults.has(n.faults.HTTP, upstream) {
		n.fired = true
		return nil, nil, nil, fmt.Errorf("injected: API update of upstream %q failed", upstream)
	}
	if _, ok := n.http[upstream]; !ok {
		return nil, nil, nil, fmt.Errorf("upstream %q not found", upstream)
	}
	l := make([]string, 0, len(servers))
	for _, s := range servers {
		l = append(l, s.Server)
	}
	n.http[upstream] = dedupStrings(l)
	if st := n.stateOf(n.httpConf, upstream); st != "" {
		n.stateFiles[st] = n.http[upstream]
	}
	return nil, nil, nil, nil
}

func (n *fakeNginx) UpdateStreamServers(upstream string, servers []ngxclient.StreamUpstreamServer) (
	[]ngxclient.StreamUpstreamServer, []ngxclient.StreamUpstreamServer, []ngxclient.StreamUpstreamServer, error,
) {
	n.apiCalls++
	if n.faults.has(n.faults.Stream, upstream) {
		n.fired = true
		return nil, nil, nil, fmt.Errorf("injected: API update of stream upstream %q failed", upstream)
	}
	if _, ok := n.stream[upstream]; !ok {
		return nil, nil, nil, fmt.Errorf("stream upstream %q not found", upstream)
	}
	l := make([]string, 0, len(servers))
	for _, s := range servers {
		l = append(l, s.Server)
	}
	n.stream[upstream] = dedupStrings(l)
	if st := n.stateOf(n.streamConf, upstream); st != "" {
		n.stateFiles[st] = n.stream[upstream]
	}
	return nil, nil, nil, nil
}

func (n *fakeNginx) GetUpstreams() (*ngxclient.Upstreams, error) {
	if n.faults.Get {
		n.fired = true
		return nil, errors.New("injected: GET upstreams failed")
	}
	out := ngxclient.Upstreams{}
	for name, servers := range n.http {
		u := ngxclient.Upstream{Zone: name}
		for i, s := range servers {
			u.Peers = append(u.Peers, ngxclient.Peer{Server: s, ID: i})
		}
		out[name] = u
	}
	return &out, nil
}

func (n *fakeNginx) GetStreamUpstreams() (*ngxclient.StreamUpstreams, error) {
	out := ngxclient.StreamUpstreams{}
	for name, servers := range n.stream {
		u := ngxclient.StreamUpstream{Zone: name}
		for i, s := range servers {
			u.Peers = append(u.Peers, ngxclient.StreamPeer{Server: s, ID: i})
		}
		out[name] = u
	}
	return &out, nil
}

// view: the servers NGINX balances across, per upstream of the loaded configuration.
type ngxView struct {
	HTTP   map[string][]string `json:"http"`
	Stream map[string][]string `json:"stream"`
}

func sorted(l []string) []string {
	out := append([]string{}, l...)
	sort.Strings(out)
	return out
}

func (n *fakeNginx) view() ngxView {
	v := ngxView{HTTP: map[string][]string{}, Stream: map[string][]string{}}
	for _, u := range n.httpConf {
		if u.State != "" {
			v.HTTP[u.Name] = sorted(n.http[u.Name])
		} else {
			v.HTTP[u.Name] = sorted(u.Servers)
		}
	}
	for _, u := range n.streamConf {
		if u.State != "" {
			v.Stream[u.Name] = sorted(n.stream[u.Name])
		} else {
			v.Stream[u.Name] = sorted(u.Servers)
		}
	}
	return v
}
