package c15

// End-to-end stream: the property judged from the ROUTE SPEC. HTTPRoute/GRPCRoute rules with 2..16
// backendRefs go through the real pipeline (ChangeProcessor -> graph.BuildGraph -> createBackendRef ->
// dataplane.BuildConfiguration/newBackendGroup -> Generator.Generate); the harness prints, per rule,
//
//	E kind= ns= name= idx= sw=<nil|int,..> sv=<1|0,..> su=<ns_svc_port|~,..> sk=<class,..>   the spec
//	  gw= gv= gu=     weight / valid / ServicePortReference of graph RouteRule.BackendRefs
//	  bw= bv= bu=     Weight / Valid / UpstreamName of the rule's dataplane.BackendGroup
//	  block= pp= inv500=   split_clients block of the variable the rule's location proxies to
//
// sv/su are what the spec implies by construction (class of the ref), not read from the code.

import (
	"bufio"
	"fmt"
	"strings"

	"k8s.io/apimachinery/pkg/types"
	"sigs.k8s.io/controller-runtime/pkg/client"
	gatewayv1 "sigs.k8s.io/gateway-api/apis/v1"

	"github.com/nginx/nginx-gateway-fabric/internal/mode/static/state/dataplane"
	"github.com/nginx/nginx-gateway-fabric/internal/mode/static/state/graph"
	"github.com/nginx/nginx-gateway-fabric/verifharness/pipeline"
	"github.com/nginx/nginx-gateway-fabric/verifharness/rng"
)

type dataplaneBackend = dataplane.Backend

func ptr[T any](v T) *T { return &v }

type specRef struct {
	class  string // ok, dup, otherport, grant, missing, badport, kind, nogrant
	ns     string // "" = route namespace
	svc    string
	port   int32
	kind   string
	weight *int32
}

func (s specRef) valid() bool {
	switch s.class {
	case "ok", "dup", "otherport", "grant":
		return true
	}
	return false
}

func (s specRef) upstream() string {
	if !s.valid() {
		return "~"
	}
	ns := s.ns
	if ns == "" {
		ns = "app"
	}
	return fmt.Sprintf("%s_%s_%d", ns, s.svc, s.port)
}

type e2eRule struct {
	grpc  bool
	name  string
	idx   int
	path  string // location path
	refs  []specRef
	route int
}

var okTargets = []specRef{
	{class: "ok", svc: "svc-a", port: 80}, {class: "ok", svc: "svc-b", port: 80}, {class: "ok", svc: "svc-c", port: 80},
	{class: "ok", svc: "svc-d", port: 80}, {class: "otherport", svc: "svc-a", port: 8080},
	{class: "grant", ns: "other", svc: "svc-y", port: 80},
}

func genRefs(r *rng.R) []specRef {
	k := r.Range(2, 16)
	if r.Chance(1, 2) {
		k = r.Range(2, 5)
	}
	prof := r.Intn(6) // 0: all valid distinct-ish, 1: duplicates, 2: several invalid, 3..: mixed
	var refs []specRef
	for j := 0; j < k; j++ {
		var s specRef
		c := r.Intn(10)
		switch {
		case prof == 0:
			s = rng.Pick(r, okTargets)
		case prof == 1 && j > 0 && c < 6:
			s = refs[r.Intn(j)]
			if s.valid() {
				s.class = "dup"
			}
		case prof == 2 && c < 7, c < 3:
			switch r.Intn(4) {
			case 0:
				s = specRef{class: "missing", svc: fmt.Sprintf("nosuch-%d", r.Intn(3)), port: 80}
			case 1:
				s = specRef{class: "badport", svc: "svc-a", port: 9999}
			case 2:
				s = specRef{class: "kind", svc: "svc-a", port: 80, kind: "Gamma"}
			default:
				s = specRef{class: "nogrant", ns: "other", svc: "svc-x", port: 80}
			}
		default:
			s = rng.Pick(r, okTargets)
			for _, p := range refs {
				if p.valid() && p.upstream() == s.upstream() {
					s.class = "dup"
				}
			}
		}
		switch w := r.Intn(12); {
		case w == 0:
			s.weight = nil
		case w == 1:
			s.weight = ptr(int32(0))
		case w == 2:
			s.weight = ptr(int32(maxW))
		case w < 8:
			s.weight = ptr(int32(r.Range(1, 5)))
		case w < 10:
			s.weight = ptr(int32(r.Range(0, 100)))
		default:
			s.weight = ptr(int32(r.Range(0, maxW)))
		}
		refs = append(refs, s)
	}
	return refs
}

func fixedE2E() [][]specRef {
	one, two := ptr(int32(1)), ptr(int32(2))
	miss := func(n string, w *int32) specRef { return specRef{class: "missing", svc: n, port: 80, weight: w} }
	ok := func(svc string, w *int32) specRef { return specRef{class: "ok", svc: svc, port: 80, weight: w} }
	dup := func(svc string, w *int32) specRef { return specRef{class: "dup", svc: svc, port: 80, weight: w} }
	return [][]specRef{
		{miss("nosuch-0", one), miss("nosuch-1", one), ok("svc-a", two)},
		{miss("nosuch-0", one), miss("nosuch-0", one), ok("svc-a", two)},
		{ok("svc-a", one), dup("svc-a", one), ok("svc-b", two)},
		{ok("svc-a", nil), ok("svc-b", nil)},
		{ok("svc-a", ptr(int32(83))), ok("svc-b", ptr(int32(42))), ok("svc-c", ptr(int32(0)))},
		{specRef{class: "kind", svc: "svc-a", port: 80, kind: "Gamma", weight: one},
			specRef{class: "nogrant", ns: "other", svc: "svc-x", port: 80, weight: one},
			specRef{class: "badport", svc: "svc-a", port: 9999, weight: one}, ok("svc-a", one)},
	}
}

func backendRef(s specRef) gatewayv1.BackendRef {
	br := gatewayv1.BackendRef{
		BackendObjectReference: gatewayv1.BackendObjectReference{
			Name: gatewayv1.ObjectName(s.svc),
			Port: ptr(gatewayv1.PortNumber(s.port)),
			Kind: ptr(gatewayv1.Kind("Service")),
		},
		Weight: s.weight,
	}
	if s.kind != "" {
		br.Kind = ptr(gatewayv1.Kind(s.kind))
	}
	if s.ns != "" {
		br.Namespace = ptr(gatewayv1.Namespace(s.ns))
	}
	return br
}

func baseObjects() []client.Object {
	objs := []client.Object{
		pipeline.GatewayClass(pipeline.DefaultClass, pipeline.DefaultController, 0),
		pipeline.Namespace("gw", nil), pipeline.Namespace("app", nil), pipeline.Namespace("other", nil),
		pipeline.Gateway("gw", "gw", pipeline.DefaultClass, 1,
			pipeline.Listener{Name: "http", Port: 80, Protocol: "HTTP", FromNS: "All"}),
		pipeline.ReferenceGrant("other", "allow-y",
			[]pipeline.GrantFrom{
				{Group: "gateway.networking.k8s.io", Kind: "HTTPRoute", Namespace: "app"},
				{Group: "gateway.networking.k8s.io", Kind: "GRPCRoute", Namespace: "app"},
			},
			[]pipeline.GrantTo{{Group: "", Kind: "Service", Name: "svc-y"}}),
	}
	svc := func(ns, name string, ports ...int32) {
		objs = append(objs, pipeline.Service(ns, name, ports...),
			pipeline.EndpointSlice(ns, name, "a", ports, "10.1.0.1", "10.1.0.2"))
	}
	svc("app", "svc-a", 80, 8080)
	svc("app", "svc-b", 80)
	svc("app", "svc-c", 80)
	svc("app", "svc-d", 80)
	svc("other", "svc-x", 80)
	svc("other", "svc-y", 80)
	return objs
}

func listStr[T any](xs []T, f func(T) string) string { return join(xs, f) }

func b2s(b bool) string {
	if b {
		return "1"
	}
	return "0"
}

func orTilde(s string) string {
	if s == "" {
		return "~"
	}
	return s
}

// runE2E builds `perRun` routes per fresh controller and prints one E line per rule.
func runE2E(out *bufio.Writer, r *rng.R, n int) {
	const perRun = 20
	var all [][]specRef
	all = append(all, fixedE2E()...)
	for len(all) < n+len(fixedE2E()) {
		all = append(all, genRefs(r))
	}
	parents := []gatewayv1.ParentReference{pipeline.ParentRef("gw", "gw", "")}
	routeNo := 0
	for s := 0; s < len(all); {
		objs := baseObjects()
		var rules []*e2eRule
		for len(rules) < perRun && s < len(all) {
			grpc := r.Chance(1, 4)
			nRules := 1
			if r.Chance(1, 3) && s+1 < len(all) {
				nRules = 2
			}
			name := fmt.Sprintf("e2e-%d", routeNo)
			host := fmt.Sprintf("r%d.example.com", routeNo)
			var hr []gatewayv1.HTTPRouteRule
			var gr []gatewayv1.GRPCRouteRule
			for idx := 0; idx < nRules; idx++ {
				ru := &e2eRule{grpc: grpc, name: name, idx: idx, refs: all[s], route: routeNo}
				s++
				if grpc {
					ru.path = fmt.Sprintf("/pkg.S%d/M%d", routeNo, idx)
					rule := gatewayv1.GRPCRouteRule{Matches: []gatewayv1.GRPCRouteMatch{{Method: &gatewayv1.GRPCMethodMatch{
						Type:    ptr(gatewayv1.GRPCMethodMatchExact),
						Service: ptr(fmt.Sprintf("pkg.S%d", routeNo)), Method: ptr(fmt.Sprintf("M%d", idx)),
					}}}}
					for _, sr := range ru.refs {
						rule.BackendRefs = append(rule.BackendRefs, gatewayv1.GRPCBackendRef{BackendRef: backendRef(sr)})
					}
					gr = append(gr, rule)
				} else {
					ru.path = fmt.Sprintf("/e2e%dr%d", routeNo, idx)
					rule := gatewayv1.HTTPRouteRule{Matches: []gatewayv1.HTTPRouteMatch{pipeline.PathMatch("Exact", ru.path)}}
					for _, sr := range ru.refs {
						rule.BackendRefs = append(rule.BackendRefs, gatewayv1.HTTPBackendRef{BackendRef: backendRef(sr)})
					}
					hr = append(hr, rule)
				}
				rules = append(rules, ru)
			}
			if grpc {
				objs = append(objs, pipeline.GRPCRoute("app", name, 10+routeNo, parents, []string{host}, gr...))
			} else {
				objs = append(objs, pipeline.HTTPRoute("app", name, 10+routeNo, parents, []string{host}, hr...))
			}
			routeNo++
		}
		_, o := pipeline.RunFresh(objs, pipeline.DefaultOptions(), nil)
		if o.Panic != "" || o.Conf == nil || o.Graph == nil {
			fmt.Fprintf(out, "X e2e pipeline failed: %s\n", esc(strings.SplitN(o.Panic, "\n", 2)[0]))
			continue
		}
		httpConf := ""
		for _, f := range o.Files {
			if strings.HasSuffix(f.Path, "/http.conf") {
				httpConf = string(f.Content)
			}
		}
		inv500 := false
		if k := strings.Index(httpConf, "upstream invalid-backend-ref {"); k >= 0 {
			body := httpConf[k:]
			if e := strings.Index(body, "}"); e >= 0 {
				body = body[:e]
			}
			inv500 = strings.Contains(body, "server unix:/var/run/nginx/nginx-500-server.sock;")
		}
		for _, ru := range rules {
			emitE2E(out, ru, &o, httpConf, inv500)
		}
	}
}

func emitE2E(out *bufio.Writer, ru *e2eRule, o *pipeline.Output, httpConf string, inv500 bool) {
	kind := "http"
	rt := graph.RouteTypeHTTP
	if ru.grpc {
		kind, rt = "grpc", graph.RouteTypeGRPC
	}
	spec := fmt.Sprintf("E\tkind=%s\tns=app\tname=%s\tidx=%d\tsw=%s\tsv=%s\tsu=%s\tsk=%s", kind, ru.name, ru.idx,
		listStr(ru.refs, func(s specRef) string {
			if s.weight == nil {
				return "nil"
			}
			return fmt.Sprint(*s.weight)
		}),
		listStr(ru.refs, func(s specRef) string { return b2s(s.valid()) }),
		listStr(ru.refs, func(s specRef) string { return s.upstream() }),
		listStr(ru.refs, func(s specRef) string { return s.class }))

	// graph stage
	gw, gv, gu := "?", "?", "?"
	key := graph.RouteKey{NamespacedName: types.NamespacedName{Namespace: "app", Name: ru.name}, RouteType: rt}
	if route, ok := o.Graph.Routes[key]; ok && ru.idx < len(route.Spec.Rules) {
		refs := route.Spec.Rules[ru.idx].BackendRefs
		gw = listStr(refs, func(b graph.BackendRef) string { return fmt.Sprint(b.Weight) })
		gv = listStr(refs, func(b graph.BackendRef) string { return b2s(b.Valid) })
		gu = listStr(refs, func(b graph.BackendRef) string { return orTilde(b.ServicePortReference()) })
	}
	// dataplane stage
	bw, bv, bu := "?", "?", "?"
	for _, g := range o.Conf.BackendGroups {
		if g.Source.Namespace == "app" && g.Source.Name == ru.name && g.RuleIdx == ru.idx {
			bw = listStr(g.Backends, func(b dataplaneBackend) string { return fmt.Sprint(b.Weight) })
			bv = listStr(g.Backends, func(b dataplaneBackend) string { return b2s(b.Valid) })
			bu = listStr(g.Backends, func(b dataplaneBackend) string { return orTilde(b.UpstreamName) })
		}
	}
	// generated text: the location of this rule, the variable it proxies to, that variable's block
	pp, block := "-", "-"
	loc := "location = " + ru.path + " {"
	host := fmt.Sprintf("server_name r%d.example.com;", ru.route)
	if h := strings.Index(httpConf, host); h >= 0 {
		if k := strings.Index(httpConf[h:], loc); k >= 0 {
			body := httpConf[h+k:]
			if e := strings.Index(body, "\n    }"); e >= 0 {
				body = body[:e]
			}
			for _, d := range []string{"proxy_pass ", "grpc_pass "} {
				if p := strings.Index(body, d); p >= 0 {
					arg := body[p+len(d):]
					if sc := strings.Index(arg, ";"); sc >= 0 {
						pp = arg[:sc]
					}
				}
			}
		}
	}
	if i := strings.Index(pp, "$"); i >= 0 {
		v := pp[i+1:]
		if j := strings.Index(v, "$"); j >= 0 {
			v = v[:j]
		}
		hdr := "\nsplit_clients $request_id $" + v + " {"
		if k := strings.Index(httpConf, hdr); k >= 0 {
			if e := strings.Index(httpConf[k:], "\n}\n"); e >= 0 {
				block = httpConf[k : k+e+3]
			}
		}
	}
	fmt.Fprintf(out, "%s\tgw=%s\tgv=%s\tgu=%s\tbw=%s\tbv=%s\tbu=%s\tblock=%s\tpp=%s\tinv500=%s\n",
		spec, gw, gv, gu, bw, bv, bu, esc(block), pp, b2s(inv500))
}
