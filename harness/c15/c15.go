// Package c15 drives the real NGINX configuration generator (config.NewGeneratorImpl(...).Generate) on
// synthetic dataplane.Configurations whose backend groups carry generated weight vectors, and prints
// what the generated http.conf says about each group.
//
// Output: one line per backend group, tab separated fields
//
//	fam=<family> ns=<ns> name=<route> idx=<rule> w=<w1,..> v=<1|0,..> ups=<u1,..>      the input
//	block=<text of the split_clients block, "\n" written as "|", or "-" when there is none>
//	pp=<argument of proxy_pass in the group's location>  inv500=<0|1> (invalid-backend-ref upstream
//	present with the 500 server)
//
// or `X <reason>` for an anomaly (panic, block count mismatch).
package c15

import (
	"bufio"
	"flag"
	"fmt"
	"os"
	"runtime"
	"strings"

	"github.com/go-logr/logr"
	metav1 "k8s.io/apimachinery/pkg/apis/meta/v1"
	"k8s.io/apimachinery/pkg/types"

	"github.com/nginx/nginx-gateway-fabric/internal/mode/static/nginx/config"
	"github.com/nginx/nginx-gateway-fabric/internal/mode/static/state/dataplane"
	"github.com/nginx/nginx-gateway-fabric/internal/mode/static/state/graph"
	"github.com/nginx/nginx-gateway-fabric/internal/mode/static/state/resolver"
	"github.com/nginx/nginx-gateway-fabric/verifharness/rng"
)

type Case struct {
	Fam   string
	NS    string
	Name  string
	Idx   int
	W     []int32
	V     []bool
	Ups   []string
	Block string
	PP    string
}

func join[T any](xs []T, f func(T) string) string {
	if len(xs) == 0 {
		return "-"
	}
	p := make([]string, len(xs))
	for i, x := range xs {
		p[i] = f(x)
	}
	return strings.Join(p, ",")
}

func (c *Case) input() string {
	return fmt.Sprintf("fam=%s\tns=%s\tname=%s\tidx=%d\tw=%s\tv=%s\tups=%s", c.Fam, c.NS, c.Name, c.Idx,
		join(c.W, func(w int32) string { return fmt.Sprint(w) }),
		join(c.V, func(b bool) string {
			if b {
				return "1"
			}
			return "0"
		}),
		join(c.Ups, func(s string) string { return s }))
}

// generate runs the real generator on one configuration holding all cases and fills Block/PP.
func generate(cases []*Case) (inv500 bool, err error) {
	defer func() {
		if r := recover(); r != nil {
			err = fmt.Errorf("panic: %v", r)
		}
	}()
	conf := dataplane.Configuration{}
	upSeen := map[string]bool{}
	var rules []dataplane.PathRule
	for i, c := range cases {
		bg := dataplane.BackendGroup{
			Source:  types.NamespacedName{Namespace: c.NS, Name: c.Name},
			RuleIdx: c.Idx,
		}
		for j := range c.W {
			bg.Backends = append(bg.Backends, dataplane.Backend{UpstreamName: c.Ups[j], Weight: c.W[j], Valid: c.V[j]})
			if !upSeen[c.Ups[j]] && c.V[j] {
				upSeen[c.Ups[j]] = true
				conf.Upstreams = append(conf.Upstreams, dataplane.Upstream{
					Name:      c.Ups[j],
					Endpoints: []resolver.Endpoint{{Address: "10.0.0.1", Port: 80}},
				})
			}
		}
		conf.BackendGroups = append(conf.BackendGroups, bg)
		rules = append(rules, dataplane.PathRule{
			Path:     fmt.Sprintf("/g%d", i),
			PathType: dataplane.PathTypeExact,
			MatchRules: []dataplane.MatchRule{{
				Source:       &metav1.ObjectMeta{Namespace: c.NS, Name: c.Name},
				BackendGroup: bg,
			}},
		})
	}
	conf.HTTPServers = []dataplane.VirtualServer{
		{IsDefault: true, Port: 80},
		{Hostname: "c15.example.com", Port: 80, PathRules: rules},
	}
	files := config.NewGeneratorImpl(false, nil, logr.Discard()).Generate(conf)
	var httpConf string
	for _, f := range files {
		if strings.HasSuffix(f.Path, "/http.conf") {
			httpConf = string(f.Content)
		}
	}
	if httpConf == "" {
		return false, fmt.Errorf("no http.conf generated")
	}
	// split_clients blocks, in file order
	var blocks []string
	rest := httpConf
	for {
		k := strings.Index(rest, "\nsplit_clients ")
		if k < 0 {
			break
		}
		e := strings.Index(rest[k:], "\n}\n")
		if e < 0 {
			return false, fmt.Errorf("unterminated split_clients block")
		}
		blocks = append(blocks, rest[k:k+e+3])
		rest = rest[k+e+2:]
	}
	if len(cases) == 1 && len(blocks) <= 1 {
		// one group alone: whatever block exists (or none) is this group's; the judge decides
		if len(blocks) == 0 {
			blocks = append(blocks, "-")
		}
		if len(cases[0].W) <= 1 && blocks[0] == "-" {
			blocks = nil
		}
	}
	bi := 0
	for i, c := range cases {
		c.Block = "-"
		if len(c.W) > 1 || (len(cases) == 1 && len(blocks) == 1) {
			if bi >= len(blocks) {
				return false, fmt.Errorf("fewer split_clients blocks (%d) than groups needing a split", len(blocks))
			}
			c.Block = blocks[bi]
			bi++
		}
		loc := fmt.Sprintf("location = /g%d {", i)
		k := strings.Index(httpConf, loc)
		c.PP = "-"
		if k >= 0 {
			body := httpConf[k:]
			if e := strings.Index(body, "\n    }"); e >= 0 {
				body = body[:e]
			}
			if p := strings.Index(body, "proxy_pass "); p >= 0 {
				arg := body[p+len("proxy_pass "):]
				if s := strings.Index(arg, ";"); s >= 0 {
					c.PP = arg[:s]
				}
			}
		}
	}
	if bi != len(blocks) {
		return false, fmt.Errorf("more split_clients blocks (%d) than groups needing a split (%d)", len(blocks), bi)
	}
	// the invalid-backend-ref upstream answers 500
	k := strings.Index(httpConf, "upstream invalid-backend-ref {")
	if k >= 0 {
		body := httpConf[k:]
		if e := strings.Index(body, "}"); e >= 0 {
			body = body[:e]
		}
		inv500 = strings.Contains(body, "server unix:/var/run/nginx/nginx-500-server.sock;")
	}
	return inv500, nil
}

func esc(s string) string { return strings.ReplaceAll(s, "\n", "|") }

// Run is the command entry point.
func Run(args []string) int {
	fs := flag.NewFlagSet("c15", flag.ContinueOnError)
	seed := fs.Uint64("seed", 1, "seed")
	n := fs.Int("n", 1000, "number of random weight vectors")
	exh := fs.Int("exhaustive", 0, "exhaustive n=2,3 with weights <= this bound (0 = off)")
	batch := fs.Int("batch", 200, "groups per Generate call")
	corpus := fs.String("corpus", "", "file with fixed cases: one `w1,w2,..` per line")
	e2e := fs.Int("e2e", 0, "number of route rules sent through the whole pipeline (0 = off)")
	if err := fs.Parse(args); err != nil {
		return 2
	}
	out := bufio.NewWriterSize(os.Stdout, 1<<20)
	defer out.Flush()
	r := rng.New(*seed)

	var all []*Case
	if *corpus != "" {
		cs, err := corpusCases(*corpus)
		if err != nil {
			fmt.Fprintln(os.Stderr, err)
			return 2
		}
		all = append(all, cs...)
	}
	all = append(all, fixedCases()...)
	all = append(all, randomCases(r, *n)...)
	if *exh > 0 {
		all = append(all, exhaustiveCases(*exh)...)
	}
	weightCases(out, r)
	if *e2e > 0 {
		runE2E(out, rng.New(*seed+77), *e2e)
	}
	// decorate sequentially (one random stream), generate the batches in parallel, print in order
	type result struct {
		lines     []string
		anomalies int
	}
	nb := (len(all) + *batch - 1) / *batch
	results := make([]chan result, nb)
	sem := make(chan struct{}, max(1, min(12, runtime.GOMAXPROCS(0))))
	for bi := 0; bi < nb; bi++ {
		s := bi * *batch
		e := min(s+*batch, len(all))
		chunk := all[s:e]
		decorate(r, chunk, s)
		ch := make(chan result, 1)
		results[bi] = ch
		sem <- struct{}{}
		go func() {
			defer func() { <-sem }()
			var res result
			inv, err := generate(chunk)
			if err != nil {
				// retry one by one to isolate the offending case
				for _, c := range chunk {
					inv1, err1 := generate([]*Case{c})
					if err1 != nil {
						res.lines = append(res.lines, fmt.Sprintf("X %s\t%s", esc(err1.Error()), c.input()))
						res.anomalies++
						continue
					}
					res.lines = append(res.lines, line(c, inv1))
				}
			} else {
				for _, c := range chunk {
					res.lines = append(res.lines, line(c, inv))
				}
			}
			ch <- res
		}()
	}
	anomalies := 0
	for _, ch := range results {
		res := <-ch
		for _, l := range res.lines {
			fmt.Fprintln(out, l)
		}
		anomalies += res.anomalies
		if anomalies > 12 {
			fmt.Fprintf(out, "X too many anomalies, stopping\n")
			return 0
		}
	}
	return 0
}

func line(c *Case, inv bool) string {
	i := 0
	if inv {
		i = 1
	}
	return fmt.Sprintf("%s\tblock=%s\tpp=%s\tinv500=%d", c.input(), esc(c.Block), c.PP, i)
}

// weightCases runs the real createBackendRef (through the verif overlay) on absent, in-range and
// out-of-range weights: `W in=<nil|int> svc=<0|1> out=<int> valid=<0|1>`.
func weightCases(out *bufio.Writer, r *rng.R) {
	vals := []int64{-2147483648, -1000001, -1000000, -2, -1, 0, 1, 2, 3, 999999, 1000000, 1000001, 1000002, 2147483647}
	for i := 0; i < 40; i++ {
		switch r.Intn(3) {
		case 0:
			vals = append(vals, int64(r.Range(0, maxW)))
		case 1:
			vals = append(vals, int64(maxW)+1+int64(r.Intn(1<<30)))
		default:
			vals = append(vals, -1-int64(r.Intn(1<<30)))
		}
	}
	run := func(in string, w *int32, svc bool) {
		defer func() {
			if rec := recover(); rec != nil {
				fmt.Fprintf(out, "X panic in createBackendRef: %v\tin=%s\n", rec, in)
			}
		}()
		o, valid := graph.VerifC15BackendRefWeight(w, svc)
		b2i := func(b bool) int {
			if b {
				return 1
			}
			return 0
		}
		fmt.Fprintf(out, "W\tin=%s\tsvc=%d\tout=%d\tvalid=%d\n", in, b2i(svc), o, b2i(valid))
	}
	for _, svc := range []bool{true, false} {
		run("nil", nil, svc)
		for _, v := range vals {
			w := int32(v)
			run(fmt.Sprint(w), &w, svc)
		}
	}
}
