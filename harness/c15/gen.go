package c15

import (
	"bufio"
	"fmt"
	"os"
	"strconv"
	"strings"

	"github.com/nginx/nginx-gateway-fabric/verifharness/rng"
)

const maxW = 1_000_000

var primes = []int32{
	2, 3, 5, 7, 11, 13, 17, 19, 23, 29, 31, 37, 41, 43, 47, 53, 59, 61, 67, 71, 73, 79, 83, 89, 97, 101, 127, 131,
	251, 257, 509, 521, 1009, 1021, 4093, 8191, 10007, 65521, 65537, 99991, 131071, 262139, 524287, 999983, 999979,
}

// divisors of 10^4: shares k/d are exact two-decimal percentages
var div1e4 = []int32{2, 4, 5, 8, 10, 16, 20, 25, 40, 50, 80, 100, 125, 200, 250, 400, 500, 625, 1000, 1250, 2000, 2500, 5000, 10000}

var extremes = []int32{0, 0, 1, 1, 2, 3, maxW, maxW, maxW - 1, maxW / 2, 999_983, 7}

func mk(fam string, ws ...int32) *Case { return &Case{Fam: fam, W: ws} }

// the witnesses of DESIGN.md §7 row 4 and a few shapes the unit tests of the repo use
func fixedCases() []*Case {
	return []*Case{
		mk("fixed", 83, 42, 0), mk("fixed", 1, 1, 1, 0), mk("fixed", 23, 102), mk("fixed", 1, 1, 1),
		mk("fixed", 0, 0), mk("fixed", 0, 0, 0, 0), mk("fixed", 1, 0), mk("fixed", 0, 1), mk("fixed", 1, 1),
		mk("fixed", 20, 20, 20, 20, 20), mk("fixed", 8, 8, 8, 8, 8, 8, 8, 8, 8, 8, 8, 8), mk("fixed", 2, 1),
		mk("fixed", maxW, maxW, maxW, maxW, maxW, maxW, maxW, maxW, maxW, maxW, maxW, maxW, maxW, maxW, maxW, maxW),
		mk("fixed", 1, maxW), mk("fixed", maxW, 1), mk("fixed", 1, 1, 1, 1, 1, 1, 1, 1, 1, 1, 1, 1, 1, 1, 1, maxW),
		mk("fixed", 9999, 1), mk("fixed", 1, 9999), mk("fixed", 1, 19999), mk("fixed", 3, 3, 3, 0, 0),
		mk("single", 5), mk("single", 0), mk("single"),
		// rules with one backend are outside the quantifier of C15; they exercise backendGroupName only
		mk("single", 0), mk("single", 0), mk("single", 0), mk("single", 0), mk("single", 0), mk("single", 0),
		mk("single", 1), mk("single", 7), mk("single", maxW), mk("single", 3), mk("single", 2), mk("single", 9),
	}
}

// composition of total into k positive parts
func composition(r *rng.R, total int32, k int) []int32 {
	if int(total) < k {
		k = int(total)
	}
	parts := make([]int32, k)
	for i := range parts {
		parts[i] = 1
	}
	left := total - int32(k)
	for i := 0; i < k-1 && left > 0; i++ {
		x := int32(r.Intn(int(left) + 1))
		if r.Chance(1, 2) {
			x = int32(r.Intn(int(left)/(k-i) + 1))
		}
		parts[i] += x
		left -= x
	}
	parts[k-1] += left
	rng.Shuffle(r, parts)
	return parts
}

func clampScale(ws []int32, m int32) []int32 {
	for _, w := range ws {
		if int64(w)*int64(m) > maxW {
			return ws
		}
	}
	out := make([]int32, len(ws))
	for i, w := range ws {
		out[i] = w * m
	}
	return out
}

func randomCases(r *rng.R, n int) []*Case {
	var out []*Case
	for i := 0; i < n; i++ {
		k := r.Range(2, 16)
		if r.Chance(1, 3) {
			k = r.Range(2, 4)
		}
		var c *Case
		switch f := r.Intn(20); {
		case f < 5: // uniform over the whole range
			ws := make([]int32, k)
			for j := range ws {
				ws[j] = int32(r.Range(0, maxW))
			}
			c = mk("random", ws...)
		case f < 8: // small weights (what users write)
			ws := make([]int32, k)
			hi := rng.Pick(r, []int{1, 2, 3, 10, 20, 100})
			for j := range ws {
				ws[j] = int32(r.Range(0, hi))
			}
			c = mk("small", ws...)
		case f < 12: // every share is an exact two-decimal percentage, last weight zero
			d := rng.Pick(r, div1e4)
			parts := composition(r, d, k-1)
			parts = clampScale(parts, int32(rng.Pick(r, []int{1, 1, 3, 7, 13, 100, 999})))
			c = mk("exactzero", append(parts, 0)...)
		case f < 14: // ratios k/(2^a 5^b), last weight not zero
			d := rng.Pick(r, div1e4)
			parts := composition(r, d, k)
			parts = clampScale(parts, int32(rng.Pick(r, []int{1, 1, 3, 7, 13, 100, 999})))
			c = mk("ratio", parts...)
		case f < 16:
			ws := make([]int32, k)
			for j := range ws {
				ws[j] = rng.Pick(r, primes)
			}
			c = mk("primes", ws...)
		case f < 18:
			ws := make([]int32, k)
			for j := range ws {
				ws[j] = rng.Pick(r, extremes)
			}
			c = mk("extremes", ws...)
		case f < 19: // one or few non-zero
			ws := make([]int32, k)
			for t := r.Range(0, 2); t >= 0; t-- {
				ws[r.Intn(k)] = int32(r.Range(0, rng.Pick(r, []int{1, 5, maxW})))
			}
			c = mk("sparse", ws...)
		default: // equal weights
			ws := make([]int32, k)
			w := int32(r.Range(1, rng.Pick(r, []int{3, 1000, maxW})))
			for j := range ws {
				ws[j] = w
			}
			if r.Chance(1, 3) {
				ws[k-1] = 0
			}
			c = mk("equal", ws...)
		}
		out = append(out, c)
	}
	return out
}

func exhaustiveCases(bound int) []*Case {
	var out []*Case
	for a := 0; a <= bound; a++ {
		for b := 0; b <= bound; b++ {
			out = append(out, mk("exh2", int32(a), int32(b)))
		}
	}
	for a := 0; a <= bound; a++ {
		for b := a; b <= bound; b++ { // the two non-last positions are symmetric
			for c := 0; c <= bound; c++ {
				if c != 0 && c%7 != 0 && c != 1 { // last weight: 0, 1 and a sample of the others
					continue
				}
				out = append(out, mk("exh3", int32(a), int32(b), int32(c)))
			}
		}
	}
	return out
}

func corpusCases(path string) ([]*Case, error) {
	f, err := os.Open(path)
	if err != nil {
		return nil, err
	}
	defer f.Close()
	var out []*Case
	sc := bufio.NewScanner(f)
	for sc.Scan() {
		l := strings.TrimSpace(sc.Text())
		if l == "" || strings.HasPrefix(l, "#") {
			continue
		}
		var ws []int32
		for _, p := range strings.Split(l, ",") {
			v, err := strconv.Atoi(strings.TrimSpace(p))
			if err != nil {
				return nil, fmt.Errorf("corpus %s: %v", path, err)
			}
			ws = append(ws, int32(v))
		}
		out = append(out, mk("corpus", ws...))
	}
	return out, sc.Err()
}

var namespaces = []string{"ns", "team-a", "d3", "default"}

// decorate assigns route identity, upstream names and a validity pattern.
func decorate(r *rng.R, cs []*Case, base int) {
	for i, c := range cs {
		k := len(c.W)
		c.NS = rng.Pick(r, namespaces)
		if r.Chance(1, 2) {
			c.Name = fmt.Sprintf("r%d", base+i)
		} else {
			c.Name = fmt.Sprintf("my-route-%d", base+i)
		}
		c.Idx = r.Intn(4)
		c.V = make([]bool, k)
		c.Ups = make([]string, k)
		pat := r.Intn(8)
		for j := 0; j < k; j++ {
			switch pat {
			case 0, 1, 2:
				c.V[j] = true
			case 3:
				c.V[j] = false
			case 4:
				c.V[j] = j != k-1
			case 5:
				c.V[j] = j == 0
			default:
				c.V[j] = r.Bool()
			}
			c.Ups[j] = fmt.Sprintf("%s_svc%d_%d", strings.ReplaceAll(c.NS, "-", "_"), r.Intn(k+2), 80+j%3)
		}
	}
}
