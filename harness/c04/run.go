package c04

import (
	"bufio"
	"context"
	"encoding/json"
	"fmt"
	"hash/fnv"
	"reflect"
	"runtime/debug"
	"sort"
	"strings"

	"github.com/go-logr/logr"

	metav1 "k8s.io/apimachinery/pkg/apis/meta/v1"
	"sigs.k8s.io/controller-runtime/pkg/client"

	ngfConfig "github.com/nginx/nginx-gateway-fabric/internal/mode/static/config"
	ngxcfg "github.com/nginx/nginx-gateway-fabric/internal/mode/static/nginx/config"
	"github.com/nginx/nginx-gateway-fabric/internal/mode/static/nginx/file"
	"github.com/nginx/nginx-gateway-fabric/internal/mode/static/state"
	"github.com/nginx/nginx-gateway-fabric/internal/mode/static/state/dataplane"
	"github.com/nginx/nginx-gateway-fabric/internal/mode/static/state/graph"
	p "github.com/nginx/nginx-gateway-fabric/verifharness/pipeline"
	"github.com/nginx/nginx-gateway-fabric/verifharness/rng"
)

// Marker is the benign alphabetic marker embedded in every probe value. It survives lower-casing and
// the `-`→`_` mangling of variable names.
const Marker = "zqmq"

// Payload is one member of the hostile family: Make(v) builds the value from a benign value v that
// already contains the marker.
type Payload struct {
	Class string
	Make  func(v string) string
}

func suffix(class, h string) Payload { return Payload{class, func(v string) string { return v + h }} }
func prefix(class, h string) Payload {
	return Payload{class + "-prefix", func(v string) string { return h + v }}
}
func alone(class, h string) Payload {
	return Payload{class + "-alone", func(string) string { return h }}
}

// atoms of the hostile family (each carries the marker again after the hostile character so that a
// split value shows up on both sides)
var atoms = []struct{ class, h string }{
	{"semicolon", ";" + Marker},
	{"open-brace", "{" + Marker},
	{"close-brace", "}" + Marker},
	{"brace-pair", " { " + Marker + " } "},
	{"dquote", "\"" + Marker},
	{"squote", "'" + Marker},
	{"trailing-backslash", Marker + "\\"},
	{"double-trailing-backslash", Marker + "\\\\"},
	{"backslash-dquote", "\\\";" + Marker},
	{"newline", "\n" + Marker},
	{"space", " " + Marker},
	{"tab", "\t" + Marker},
	{"hash", "#" + Marker},
	{"space-hash", " #" + Marker},
	{"dollar-var", "$" + Marker},
	{"dollar-brace-var", "${" + Marker + "}"},
	{"escaped-dollar", "\\$" + Marker},
	{"trailing-dollar", Marker + "$"},
	{"load-module", "\";\nload_module /" + Marker + ".so;#"},
	{"load-module-bare", ";\nload_module /" + Marker + ".so;#"},
	{"close-and-reopen", ";}\nserver { listen 81; #" + Marker},
}

// Family returns the payload family; quick = suffix forms + a few prefix/alone forms.
func Family(thorough bool) []Payload {
	var out []Payload
	for _, a := range atoms {
		out = append(out, suffix(a.class, a.h))
	}
	for i, a := range atoms {
		if thorough || i%5 == 0 {
			out = append(out, prefix(a.class, a.h))
		}
		if thorough || i%5 == 2 {
			out = append(out, alone(a.class, a.h))
		}
	}
	return out
}

// RandomCombo concatenates 2-4 random atoms.
func RandomCombo(r *rng.R) Payload {
	n := r.Range(2, 4)
	var h strings.Builder
	for i := 0; i < n; i++ {
		h.WriteString(rng.Pick(r, atoms).h)
	}
	s := h.String()
	return suffix("combo", s)
}

// ---------------------------------------------------------------------------------------------

// Run is the observable result of one pipeline run.
type Run struct {
	Files  []file.File // sorted by path
	Conds  []string    // sorted status conditions "Kind/ns/name|path|Type=Status/Reason"
	Panic  string
	NoConf bool
}

// runPlus is RunFresh for NGINX Plus: the pipeline package wires no usage-report settings and no license
// secret, so the same steps as Controller.Apply are taken here with the JWT put into the configuration.
func runPlus(objs []client.Object, opts p.Options) (out p.Output) {
	defer func() {
		if r := recover(); r != nil {
			out.Panic = fmt.Sprintf("%v\n%s", r, debug.Stack())
		}
	}()
	c := p.NewController(opts)
	c.Gen = ngxcfg.NewGeneratorImpl(true, &ngfConfig.UsageReportConfig{Endpoint: "usage.example.com:443", Resolver: "10.0.0.53"}, logr.Discard())
	for _, o := range objs {
		c.Upsert(o)
	}
	ct, gr := c.Proc.Process()
	out.Change = ct
	if ct == state.NoChange {
		return out
	}
	out.Graph = gr
	conf := dataplane.BuildConfiguration(context.Background(), gr, c.Resolver, 1)
	if conf.AuxiliarySecrets == nil {
		conf.AuxiliarySecrets = map[graph.SecretFileType][]byte{}
	}
	conf.AuxiliarySecrets[graph.PlusReportJWTToken] = []byte("jwt")
	out.Conf = &conf
	out.Files = c.Gen.Generate(conf)
	out.Requests = p.PrepareRequests(gr, opts.Controller, nil)
	return out
}

func doRun(objs []client.Object, opts p.Options) Run {
	var out p.Output
	if opts.Plus {
		out = runPlus(objs, opts)
	} else {
		_, out = p.RunFresh(objs, opts, nil)
	}
	r := Run{Panic: out.Panic}
	if out.Panic != "" {
		return r
	}
	if out.Conf == nil {
		r.NoConf = true
	}
	r.Files = p.SortedFiles(out.Files)
	res, _, _ := p.ApplyStatuses(out.Requests, objs)
	for k, o := range res {
		collectConds(k.String(), reflect.ValueOf(o), "", &r.Conds)
	}
	sort.Strings(r.Conds)
	return r
}

// Verbose prints condition messages (debug aid).
var Verbose bool

// stripIdx drops the index of the condition inside its list (it shifts when conditions are added).
func stripIdx(path string) string {
	if i := strings.LastIndex(path, "["); i >= 0 {
		return path[:i]
	}
	return path
}

var condType = reflect.TypeOf(metav1.Condition{})

func collectConds(key string, v reflect.Value, path string, out *[]string) {
	switch v.Kind() {
	case reflect.Ptr, reflect.Interface:
		if !v.IsNil() {
			collectConds(key, v.Elem(), path, out)
		}
	case reflect.Struct:
		if v.Type() == condType {
			c := v.Interface().(metav1.Condition)
			if Verbose {
				fmt.Println("COND", key, path, c.Type, c.Status, c.Reason, c.Message)
			}
			h := fnv.New32a()
			h.Write([]byte(c.Message))
			*out = append(*out, fmt.Sprintf("%s|%s|%s=%s/%s#%08x", key, stripIdx(path), c.Type, c.Status, c.Reason, h.Sum32()))
			return
		}
		t := v.Type()
		for i := 0; i < t.NumField(); i++ {
			f := t.Field(i)
			if !f.IsExported() {
				continue
			}
			if path == "" && f.Name != "Status" {
				continue
			}
			collectConds(key, v.Field(i), path+"."+f.Name, out)
		}
	case reflect.Slice:
		for i := 0; i < v.Len(); i++ {
			collectConds(key, v.Index(i), fmt.Sprintf("%s[%d]", path, i), out)
		}
	}
}

func (r Run) hasMarker() bool {
	for _, f := range r.Files {
		if strings.Contains(strings.ToLower(f.Path), Marker) || strings.Contains(strings.ToLower(string(f.Content)), Marker) {
			return true
		}
	}
	return false
}

// Esc escapes a string for the tab-separated line protocol.
func Esc(s string) string {
	var b strings.Builder
	for i := 0; i < len(s); i++ {
		switch c := s[i]; c {
		case '\\':
			b.WriteString("\\\\")
		case '\t':
			b.WriteString("\\t")
		case '\n':
			b.WriteString("\\n")
		case '\r':
			b.WriteString("\\r")
		default:
			b.WriteByte(c)
		}
	}
	return b.String()
}

// fileRef is a generated file reduced to what the judge needs.
type fileRef struct{ Path, Content string }

func reduceFiles(files []file.File) []fileRef {
	out := make([]fileRef, 0, len(files))
	for _, f := range files {
		c := string(f.Content)
		if f.Type != file.TypeRegular {
			// key material is irrelevant to the judge (and large): only its presence and whether it
			// carries the marker
			if strings.Contains(strings.ToLower(c), Marker) {
				c = "SECRET " + Marker
			} else {
				c = "SECRET"
			}
		}
		out = append(out, fileRef{f.Path, c})
	}
	return out
}

// emitter writes F lines (each distinct content once, named by a small integer) and file lists.
type emitter struct {
	w   *bufio.Writer
	ids map[string]int
}

func (e *emitter) fields(files []fileRef) string {
	var b strings.Builder
	fmt.Fprintf(&b, "%d", len(files))
	for _, f := range files {
		id, ok := e.ids[f.Content]
		if !ok {
			id = len(e.ids) + 1
			e.ids[f.Content] = id
			fmt.Fprintf(e.w, "F\t%d\t%s\n", id, Esc(f.Content))
		}
		fmt.Fprintf(&b, "\t%s\t%d", Esc(f.Path), id)
	}
	return b.String()
}

// Meta describes one probe for the plugin.
type Meta struct {
	ID          int      `json:"id"`
	Base        string   `json:"base"`
	Variant     string   `json:"variant"`
	Kind        string   `json:"kind"`
	Path        string   `json:"path"`
	Generic     string   `json:"generic"`
	Type        string   `json:"type"`
	Class       string   `json:"class"`
	Value       string   `json:"value"`
	Benign      string   `json:"benign"`
	Reaches     bool     `json:"reaches"` // the benign marker value of this leaf reaches the generated files
	Panic       string   `json:"panic,omitempty"`
	CondsNew    []string `json:"conds_new,omitempty"`     // conditions present with the payload, absent with the benign value
	CondsGone   []string `json:"conds_gone,omitempty"`    // and vice versa
	Gate        string   `json:"gate,omitempty"`          // the sibling/ancestor field varied together with the leaf
	SameAsUnset bool     `json:"same_as_unset,omitempty"` // (empty probe) the files equal those generated with the field unset
}

func diffConds(a, b []string) (onlyA []string) {
	m := map[string]int{}
	for _, x := range b {
		m[x]++
	}
	for _, x := range a {
		if m[x] > 0 {
			m[x]--
		} else {
			onlyA = append(onlyA, x)
		}
	}
	return
}

// benignCandidates are marker-carrying benign values tried for a leaf, most specific first.
func benignCandidates(l Leaf) []string {
	v := l.Value
	c := []string{}
	if v != "" {
		c = append(c, v+Marker, Marker+v)
		if i := strings.Index(v, "."); i > 0 {
			c = append(c, v[:i]+Marker+v[i:]) // host label
		}
	}
	c = append(c, Marker, "/"+Marker, Marker+".example.com", "X-"+Marker)
	return c
}

// Config of a search.
type Config struct {
	Seed     uint64
	Thorough bool
	Combos   int    // random combination payloads per leaf
	Only     string // substring filter on the leaf path (replay)
	Levels   int    // struct levels above a leaf whose gate fields are varied with it (0 = no gating search)
	Stride   int    // take every Stride-th payload (rotated by seed) for leaves whose benign value does not reach the files; 1 = all
	Workers  int
}

type record struct {
	tag   string // B, P or Q (Q: empty-string probe of a *string leaf, judged with the relaxed rule)
	label string
	files []fileRef
	meta  *Meta
}

type leafResult struct {
	recs  []record
	stats map[string]int
}

// gatePayloads is the reduced family used in the leaf x gate contexts.
var gatePayloads = []Payload{
	suffix("semicolon", ";"+Marker), suffix("load-module", "\";\nload_module /"+Marker+".so;#"), suffix("dollar-var", "$"+Marker),
	suffix("trailing-backslash", Marker+"\\"), suffix("space", " "+Marker), suffix("open-brace", "{"+Marker),
}

func probeLeaf(base Base, variant Variant, objs0 []client.Object, r0 Run, l Leaf, cfg Config, r *rng.R, rot int,
	gates []Gate) leafResult {
	res := leafResult{stats: map[string]int{}}
	st := res.stats
	st["leaftype:"+l.Type]++
	// metadata.name/namespace: the API server enforces the name syntax whatever the CRD says, so
	// only admissible odd names are probed
	var fam []Payload
	benign, reaches := l.Value, false
	baseRun := r0
	if l.Meta {
		if l.Value == "" {
			return res // cluster-scoped object: no namespace
		}
		fam = []Payload{suffix("name-dash", "-"+Marker)}
		if l.Kind != "Service" && l.Kind != "Namespace" && !strings.HasSuffix(l.Path, ".namespace") {
			fam = append(fam, suffix("name-dot", "."+Marker))
		}
		// baseline: the same object renamed with a plain marker suffix (references break the same way)
		benign = l.Value + Marker
		o := CopyObjs(objs0)
		if SetLeaf(o[l.Obj], l.Path, benign) {
			rr := doRun(o, base.Opts)
			st["runs"]++
			if rr.Panic == "" && !rr.NoConf {
				baseRun = rr
				reaches = rr.hasMarker()
			}
		}
	} else {
		for _, cand := range benignCandidates(l) {
			o := CopyObjs(objs0)
			if !SetLeaf(o[l.Obj], l.Path, cand) {
				break
			}
			rr := doRun(o, base.Opts)
			st["runs"]++
			if rr.Panic == "" && !rr.NoConf && rr.hasMarker() {
				benign, reaches, baseRun = cand, true, rr
				break
			}
		}
		fam = Family(cfg.Thorough)
		for i := 0; i < cfg.Combos; i++ {
			fam = append(fam, RandomCombo(r))
		}
	}
	if reaches {
		st["leaves-reaching-config"]++
	}
	wroteB := false
	for i, pl := range fam {
		if cfg.Stride > 1 && !reaches && !l.Meta && (i+rot)%cfg.Stride != 0 {
			continue
		}
		var val string
		if reaches || l.Meta {
			val = pl.Make(benign)
		} else {
			// no benign marker value reaches the files: start from the valid base value
			val = pl.Make(l.Value + Marker)
		}
		o := CopyObjs(objs0)
		if !SetLeaf(o[l.Obj], l.Path, val) {
			continue
		}
		rr := doRun(o, base.Opts)
		st["runs"]++
		m := &Meta{
			Base: base.Name, Variant: variant.Name, Kind: l.Kind, Path: l.Path, Generic: l.Generic(),
			Type: l.Type, Class: pl.Class, Value: val, Benign: benign, Reaches: reaches, Panic: rr.Panic,
			CondsNew: diffConds(rr.Conds, baseRun.Conds), CondsGone: diffConds(baseRun.Conds, rr.Conds),
		}
		if len(m.Panic) > 600 {
			m.Panic = m.Panic[:600]
		}
		if !wroteB {
			res.recs = append(res.recs, record{tag: "B", label: base.Name + "/" + variant.Name + "/" + l.Path, files: reduceFiles(baseRun.Files)})
			wroteB = true
		}
		res.recs = append(res.recs, record{tag: "P", files: reduceFiles(rr.Files), meta: m})
		st["class:"+pl.Class]++
		st["variant:"+variant.Name]++
		if rr.hasMarker() {
			st["payload-reaches-files"]++
		}
	}
	// leaf x gate: the same leaf with one sibling / enclosing optional field or discriminator changed
	if !l.Meta && variant.Name == "valid" && cfg.Levels > 0 && !strings.Contains(l.Path, "{") {
		for _, g := range GatesFor(l.Path, gates, cfg.Levels) {
			for _, alt := range g.Alts {
				oc := CopyObjs(objs0)
				if !ApplyGate(oc[l.Obj], g.Path, alt) {
					continue
				}
				benC := benign
				if !reaches {
					benC = l.Value + Marker
				}
				ob := CopyObjs(oc)
				if !SetLeaf(ob[l.Obj], l.Path, benC) {
					continue
				}
				rb := doRun(ob, base.Opts)
				st["runs"]++
				st["gate-contexts"]++
				if rb.Panic != "" || rb.NoConf {
					st["gate-contexts-without-config"]++
					continue
				}
				reachesC := rb.hasMarker()
				fam := gatePayloads
				if !reachesC {
					fam = gatePayloads[:1]
				} else {
					st["gate-contexts-reaching-config"]++
				}
				desc := gateDesc(g.Path, alt)
				wroteC := false
				for _, pl := range fam {
					op := CopyObjs(oc)
					val := pl.Make(benC)
					if !SetLeaf(op[l.Obj], l.Path, val) {
						continue
					}
					rr := doRun(op, base.Opts)
					st["runs"]++
					m := &Meta{
						Base: base.Name, Variant: variant.Name, Kind: l.Kind, Path: l.Path, Generic: l.Generic(),
						Type: l.Type, Class: pl.Class, Value: val, Benign: benC, Reaches: reachesC, Panic: rr.Panic,
						CondsNew: diffConds(rr.Conds, rb.Conds), CondsGone: diffConds(rb.Conds, rr.Conds), Gate: desc,
					}
					if len(m.Panic) > 600 {
						m.Panic = m.Panic[:600]
					}
					if !wroteC {
						res.recs = append(res.recs, record{tag: "B", label: base.Name + "/" + variant.Name + "/" + l.Path + " @ " + desc,
							files: reduceFiles(rb.Files)})
						wroteC = true
						wroteB = false // the next record of the base context needs its baseline again
					}
					res.recs = append(res.recs, record{tag: "P", files: reduceFiles(rr.Files), meta: m})
					st["class:gated-"+pl.Class]++
				}
			}
		}
	}
	// *string leaves: the empty string is a value of its own (not "unset"). It must be rejected, or be
	// equivalent to the unset field, or leave the token skeleton of the benign run intact.
	if l.Ptr && !l.Meta && reaches {
		o := CopyObjs(objs0)
		o2 := CopyObjs(objs0)
		if SetLeaf(o[l.Obj], l.Path, "") && SetLeaf(o2[l.Obj], l.Path, nilValue) {
			re := doRun(o, base.Opts)
			rn := doRun(o2, base.Opts)
			st["runs"] += 2
			m := &Meta{
				Base: base.Name, Variant: variant.Name, Kind: l.Kind, Path: l.Path, Generic: l.Generic(),
				Type: l.Type, Class: "empty", Value: "", Benign: benign, Reaches: reaches, Panic: re.Panic,
				CondsNew: diffConds(re.Conds, baseRun.Conds), CondsGone: diffConds(baseRun.Conds, re.Conds),
				SameAsUnset: sameFiles(re.Files, rn.Files),
			}
			if !wroteB {
				res.recs = append(res.recs, record{tag: "B", label: base.Name + "/" + variant.Name + "/" + l.Path, files: reduceFiles(baseRun.Files)})
			}
			res.recs = append(res.recs, record{tag: "Q", files: reduceFiles(re.Files), meta: m})
			st["class:empty"]++
		}
	}
	return res
}

func sameFiles(a, b []file.File) bool {
	if len(a) != len(b) {
		return false
	}
	for i := range a {
		if a[i].Path != b[i].Path || string(a[i].Content) != string(b[i].Content) {
			return false
		}
	}
	return true
}

var coreKinds = map[string]bool{"Service": true, "Secret": true, "ConfigMap": true, "Namespace": true, "EndpointSlice": true}

// Search enumerates base × variant × leaf × payload and writes F/B/P/M lines.
func Search(w *bufio.Writer, cfg Config) (stats map[string]int) {
	stats = map[string]int{}
	r := rng.New(cfg.Seed)
	if cfg.Stride < 1 {
		cfg.Stride = 1
	}
	if cfg.Workers < 1 {
		cfg.Workers = 1
	}
	p.CertPair(1)
	p.CertPair(7)
	var scen [][]client.Object
	for _, b := range Bases() {
		scen = append(scen, b.Objs)
	}
	pool := TypePool(scen...)
	em := &emitter{w: w, ids: map[string]int{}}
	id := 0
	for _, base := range Bases() {
		for _, variant := range Variants() {
			base := base // per-variant copy (the Plus variant changes the options)
			objs0 := CopyObjs(base.Objs)
			if variant.Apply == nil {
				// NGINX Plus: only the scenario with the richest HTTP configuration, to bound the cost
				if base.Name != "http" && base.Name != "grpctls" {
					continue
				}
				base.Opts.Plus = true
			} else {
				variant.Apply(objs0)
			}
			r0 := doRun(objs0, base.Opts)
			if r0.Panic != "" || r0.NoConf {
				fmt.Fprintf(w, "X\tbase scenario %s/%s does not produce a configuration: %s\n", base.Name, variant.Name, Esc(r0.Panic))
				continue
			}
			var leaves []Leaf
			for _, l := range Leaves(objs0) {
				// core kinds are validated by the API server itself (not by a CRD schema): names only
				if coreKinds[l.Kind] && !l.Meta {
					continue
				}
				// renaming a Namespace object leaves every namespaced object in a namespace that does not exist
				if l.Kind == "Namespace" {
					continue
				}
				if cfg.Only == "" || strings.Contains(l.Path, cfg.Only) {
					leaves = append(leaves, l)
				}
			}
			stats["leaves"] += len(leaves)
			gatesByObj := map[int][]Gate{}
			if cfg.Levels > 0 && variant.Name == "valid" {
				for i, o := range objs0 {
					if !coreKinds[p.KindOf(o)] {
						gatesByObj[i] = Gates(o, pool)
					}
				}
			}
			results := make([]chan leafResult, len(leaves))
			sem := make(chan struct{}, cfg.Workers)
			for i := range leaves {
				results[i] = make(chan leafResult, 1)
				lr := r.Fork()
				rot := int(cfg.Seed) + i
				go func(i int) {
					sem <- struct{}{}
					defer func() { <-sem }()
					results[i] <- probeLeaf(base, variant, objs0, r0, leaves[i], cfg, lr, rot, gatesByObj[leaves[i].Obj])
				}(i)
			}
			for i := range leaves {
				res := <-results[i]
				for k, v := range res.stats {
					stats[k] += v
				}
				for _, rec := range res.recs {
					fl := em.fields(rec.files)
					if rec.tag == "B" {
						fmt.Fprintf(w, "B\t%s\t%s\n", Esc(rec.label), fl)
						continue
					}
					id++
					rec.meta.ID = id
					mb, _ := json.Marshal(rec.meta)
					fmt.Fprintf(w, "%s\t%d\t%s\n", rec.tag, id, fl)
					fmt.Fprintf(w, "M\t%s\n", mb)
				}
				w.Flush()
			}
		}
	}
	stats["distinct-file-contents"] = len(em.ids)
	return stats
}
