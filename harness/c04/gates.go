package c04

import (
	"fmt"
	"reflect"
	"sort"
	"strings"

	"sigs.k8s.io/controller-runtime/pkg/client"

	p "github.com/nginx/nginx-gateway-fabric/verifharness/pipeline"
)

// A Gate is a field next to (or above) a string leaf whose presence or value may decide whether and how
// the leaf is validated: optional pointers (set / nil), enum-like named strings (other values of the same
// Go type seen in the base scenarios, "", an out-of-enum value) and booleans. The search varies every
// leaf together with each alternative of each gate in its own struct, the enclosing struct and the one
// above it (pairwise: one leaf, one gate).
type Gate struct {
	Path string   // json path of the gate field
	Alts []string // alternative values; gateNil = nil pointer, gateToggle = negated bool
}

const (
	gateNil    = "\x00nil"
	gateToggle = "\x00toggle"
)

func gateDesc(path, alt string) string {
	switch alt {
	case gateNil:
		alt = "<nil>"
	case gateToggle:
		alt = "<toggled>"
	case "":
		alt = `""`
	}
	if i := strings.Index(path, "."); i >= 0 {
		path = path[i+1:]
	}
	return path + "=" + alt
}

type gateVisitor func(path string, v reflect.Value)

func gateWalk(path string, v reflect.Value, visit gateVisitor) {
	switch v.Kind() {
	case reflect.Ptr:
		if v.CanSet() {
			visit(path, v)
		}
		if !v.IsNil() && v.Elem().Kind() == reflect.Struct {
			gateWalk(path, v.Elem(), visit)
		}
	case reflect.Struct:
		t := v.Type()
		if t.PkgPath() == "k8s.io/apimachinery/pkg/apis/meta/v1" {
			return
		}
		for i := 0; i < t.NumField(); i++ {
			f := t.Field(i)
			if !f.IsExported() {
				continue
			}
			if f.Name == "Status" && strings.Count(path, ".") == 0 {
				continue
			}
			name, inline := jsonName(f)
			sub := path + "." + name
			if inline {
				sub = path
			}
			gateWalk(sub, v.Field(i), visit)
		}
	case reflect.Slice:
		if v.Type().Elem().Kind() == reflect.Uint8 {
			return
		}
		for i := 0; i < v.Len(); i++ {
			gateWalk(fmt.Sprintf("%s[%d]", path, i), v.Index(i), visit)
		}
	case reflect.String, reflect.Bool:
		if v.CanSet() {
			visit(path, v)
		}
	}
}

// container returns the path of the struct that holds the field (or slice element) at path.
func container(path string) string {
	for strings.HasSuffix(path, "]") {
		path = path[:strings.LastIndex(path, "[")]
	}
	if i := strings.LastIndex(path, "."); i >= 0 {
		return path[:i]
	}
	return ""
}

// TypePool collects, per named string type, the values that occur in the scenarios.
func TypePool(scenarios ...[]client.Object) map[string][]string {
	set := map[string]map[string]bool{}
	for _, objs := range scenarios {
		for _, l := range Leaves(objs) {
			if l.Type == "string" || l.Value == "" {
				continue
			}
			if set[l.Type] == nil {
				set[l.Type] = map[string]bool{}
			}
			set[l.Type][l.Value] = true
		}
	}
	out := map[string][]string{}
	for t, m := range set {
		for v := range m {
			out[t] = append(out[t], v)
		}
		sort.Strings(out[t])
	}
	return out
}

// Gates enumerates the gate fields of one object.
func Gates(o client.Object, pool map[string][]string) []Gate {
	var out []Gate
	gateWalk(p.KindOf(o), reflect.ValueOf(o), func(path string, v reflect.Value) {
		if strings.Count(path, ".") == 0 {
			return
		}
		g := Gate{Path: path}
		enum := func(t reflect.Type, cur string, has bool) {
			if t.Kind() != reflect.String || t.Name() == "string" {
				return
			}
			n := 0
			for _, val := range pool[t.String()] {
				if (!has || val != cur) && n < 3 {
					g.Alts = append(g.Alts, val)
					n++
				}
			}
			g.Alts = append(g.Alts, "Bogus")
			if has && cur != "" {
				g.Alts = append(g.Alts, "")
			}
		}
		switch v.Kind() {
		case reflect.Ptr:
			et := v.Type().Elem()
			if v.IsNil() {
				enum(et, "", false)
			} else {
				g.Alts = append(g.Alts, gateNil)
				switch et.Kind() {
				case reflect.String:
					enum(et, v.Elem().String(), true)
				case reflect.Bool:
					g.Alts = append(g.Alts, gateToggle)
				}
			}
		case reflect.String:
			enum(v.Type(), v.String(), true)
		case reflect.Bool:
			g.Alts = append(g.Alts, gateToggle)
		}
		if len(g.Alts) > 0 {
			out = append(out, g)
		}
	})
	return out
}

// ApplyGate sets the gate field at path to the alternative.
func ApplyGate(o client.Object, path, alt string) bool {
	done := false
	gateWalk(p.KindOf(o), reflect.ValueOf(o), func(pth string, v reflect.Value) {
		if pth != path || done {
			return
		}
		done = true
		switch v.Kind() {
		case reflect.Ptr:
			switch {
			case alt == gateNil:
				v.Set(reflect.Zero(v.Type()))
			case alt == gateToggle:
				if !v.IsNil() && v.Elem().Kind() == reflect.Bool {
					v.Elem().SetBool(!v.Elem().Bool())
				}
			default:
				if v.Type().Elem().Kind() == reflect.String {
					nv := reflect.New(v.Type().Elem())
					nv.Elem().SetString(alt)
					v.Set(nv)
				}
			}
		case reflect.String:
			v.SetString(alt)
		case reflect.Bool:
			v.SetBool(!v.Bool())
		}
	})
	return done
}

// GatesFor selects the gates relevant to a leaf: fields of the leaf's struct and of the `levels-1` structs
// above it, except the leaf itself and its own ancestors.
func GatesFor(leafPath string, gates []Gate, levels int) []Gate {
	conts := map[string]bool{}
	c := container(leafPath)
	for i := 0; i < levels && c != ""; i++ {
		conts[c] = true
		c = container(c)
	}
	var out []Gate
	for _, g := range gates {
		if g.Path == leafPath || strings.HasPrefix(leafPath, g.Path+".") || strings.HasPrefix(leafPath, g.Path+"[") {
			continue
		}
		if conts[container(g.Path)] {
			out = append(out, g)
		}
	}
	return out
}
