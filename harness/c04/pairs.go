package c04

import (
	"bufio"
	"encoding/json"
	"fmt"
	"reflect"
	"regexp"
	"sort"
	"strings"
	"sync/atomic"

	"sigs.k8s.io/controller-runtime/pkg/client"

	p "github.com/nginx/nginx-gateway-fabric/verifharness/pipeline"
)

// `-mode pairs`: the SAME value in TWO leaves, and statefulness.
//
// The leaf search (Search) puts a payload into one leaf at a time, each time a different string. A validator with
// memory shared between a lenient and a strict member of one family (match path ↔ filter path replacement, header
// name ↔ header value, route/listener hostname ↔ redirect hostname) is invisible to it: the strict leaf rejects the
// value on its own and accepts it only after the lenient leaf has been given the SAME string. Here, for every ordered
// pair (A, B) of leaves of one family that belong to different groups (= are guarded by different validators), and every
// payload of the reduced family:
//
//	pre  run(A = u, B unchanged)        u = a value of the same payload class, a different string: does A accept the class?
//	                                     (only then can changing A from benign to the value be judged against a benign baseline)
//	B'   run(A = benign, B = v)          the baseline: what B does with v on its own (v is unique to this probe: a counter)
//	P    run(A = v, B = v)               one batch, fresh controller
//	P'   the same objects once more      fresh controller, same process: whatever P left behind in the process
//	P2   one controller, two batches     batch 1: A = v, B = benign; batch 2: B = v  (state of the controller / process
//	                                     survives; the lenient leaf is validated strictly before the strict one)
//
// P, P' and P2 are judged against B' exactly like the probes of the leaf search (token skeleton up to marker-bearing words,
// `$` in interpolating arguments). Independently of that: P and P' must be THE SAME — status conditions compared here
// (D line on a difference), files by the judge after its order normalisation (R line directly after the P line of P: the
// canonical token streams must be equal, no tolerance for marker words). The base scenarios themselves are also run twice
// (L line, then R line).
//
// Lines: F/B/P/M as in the search (M carries the pair in path/generic and the run kind in gate; an R record has its M too),
// L <label> <files>, R <id> <files>, D <json>, S <key> <n>.

type famLeaf struct {
	leaf  Leaf
	group string
}

// family and group of a leaf by its generic path ("" = in no family)
func familyOf(l Leaf) (family, group string) {
	g := l.Generic()
	has := func(s string) bool { return strings.Contains(g, s) }
	switch {
	case l.Meta:
		return "", ""
	case strings.HasSuffix(g, "matches[].path.value"):
		return "path", "match-path"
	case has(".path.replaceFullPath") || has(".path.replacePrefixMatch"):
		return "path", "filter-path"
	case strings.HasSuffix(g, "matches[].headers[].name"):
		return "header", "match-header-name"
	case strings.HasSuffix(g, "matches[].headers[].value"):
		return "header", "match-header-value"
	case strings.HasSuffix(g, "matches[].queryParams[].name"):
		return "header", "match-query-name"
	case strings.HasSuffix(g, "matches[].queryParams[].value"):
		return "header", "match-query-value"
	case has("HeaderModifier.") && (strings.HasSuffix(g, "[].name") || strings.HasSuffix(g, ".remove[]")):
		return "header", "filter-header-name"
	case has("HeaderModifier.") && strings.HasSuffix(g, "[].value"):
		return "header", "filter-header-value"
	case strings.HasSuffix(g, "Gateway.spec.listeners[].hostname"):
		return "hostname", "listener-hostname"
	case strings.HasSuffix(g, "Route.spec.hostnames[]"):
		return "hostname", "route-hostname"
	case strings.HasSuffix(g, "requestRedirect.hostname") || strings.HasSuffix(g, "urlRewrite.hostname"):
		return "hostname", "filter-hostname"
	}
	return "", ""
}

// the plain marker value of a family (accepted by every member), made unique by k
func familyBase(family string, k int64) string {
	switch family {
	case "path":
		return fmt.Sprintf("/%sp%d", Marker, k)
	case "header":
		return fmt.Sprintf("X-%s%d", Marker, k)
	default:
		return fmt.Sprintf("%s%d.example.com", Marker, k)
	}
}

// pairPayloads: what one member of a family may accept and another must not
var pairPayloads = []Payload{
	suffix("dollar-var", "$"+Marker), suffix("trailing-backslash", Marker+"\\"), suffix("escaped-dollar", "\\$"+Marker),
	suffix("semicolon", ";"+Marker), suffix("space", " "+Marker), suffix("dquote", "\""+Marker), suffix("hash", "#"+Marker),
	suffix("colon", ":"+Marker), suffix("underscore-upper", "_"+strings.ToUpper(Marker)),
}

var versionRe = regexp.MustCompile(`return 200 \d+;`)

var pairCounter int64

func uniq() int64 { return atomic.AddInt64(&pairCounter, 1) }

// runTwoBatches delivers `first` as the start-up batch of one controller, applies, then upserts `changed` and applies
// again; the result of the second apply is returned in the form of doRun.
func runTwoBatches(first []client.Object, changed client.Object, final []client.Object, opts p.Options) (r Run) {
	c, out := p.RunFresh(first, opts, nil)
	if out.Panic != "" {
		return Run{Panic: out.Panic}
	}
	func() {
		defer func() {
			if rec := recover(); rec != nil {
				r.Panic = fmt.Sprint(rec)
			}
		}()
		c.Upsert(changed)
		out = c.Apply(nil)
	}()
	if r.Panic != "" {
		return r
	}
	if out.Panic != "" {
		return Run{Panic: out.Panic}
	}
	if out.Conf == nil {
		r.NoConf = true
	}
	r.Files = p.SortedFiles(out.Files)
	// the configuration version counts the applies of the controller: 2 here, 1 in every single-batch run
	for i := range r.Files {
		if strings.HasSuffix(r.Files[i].Path, "config-version.conf") {
			r.Files[i].Content = versionRe.ReplaceAll(r.Files[i].Content, []byte("return 200 1;"))
		}
	}
	res, _, _ := p.ApplyStatuses(out.Requests, final)
	for k, o := range res {
		collectConds(k.String(), reflect.ValueOf(o), "", &r.Conds)
	}
	sort.Strings(r.Conds)
	return r
}

// condsNoMsg drops the message hash of every condition: messages aggregate errors in an order that varies from run to run.
func condsNoMsg(cs []string) []string {
	out := make([]string, len(cs))
	for i, c := range cs {
		if j := strings.LastIndex(c, "#"); j >= 0 {
			c = c[:j]
		}
		out[i] = c
	}
	sort.Strings(out)
	return out
}

func sameRun(a, b Run) bool {
	a.Conds, b.Conds = condsNoMsg(a.Conds), condsNoMsg(b.Conds)
	// the FILES are compared by the Lean judge (R line) after order normalisation: NGF iterates over Go maps
	if a.Panic != b.Panic || a.NoConf != b.NoConf || len(a.Conds) != len(b.Conds) {
		return false
	}
	for i := range a.Conds {
		if a.Conds[i] != b.Conds[i] {
			return false
		}
	}
	return true
}

// Divergence is a D line: the same objects gave different outputs in one process.
type Divergence struct {
	What  string `json:"what"`
	Base  string `json:"base"`
	Pair  string `json:"pair,omitempty"`
	Value string `json:"value,omitempty"`
	Diff  string `json:"diff"`
}

func runDiff(a, b Run) string {
	if a.Panic != b.Panic {
		return "panic: " + a.Panic + " / " + b.Panic
	}
	a.Conds, b.Conds = condsNoMsg(a.Conds), condsNoMsg(b.Conds)
	if d := diffConds(a.Conds, b.Conds); len(d) > 0 {
		return "condition only in the first run: " + d[0]
	}
	if d := diffConds(b.Conds, a.Conds); len(d) > 0 {
		return "condition only in the second run: " + d[0]
	}
	return ""
}

type pairResult struct {
	recs  []record
	divs  []Divergence
	stats map[string]int
}

func probePair(base Base, objs0 []client.Object, a, b famLeaf, family string, fam []Payload) pairResult {
	res := pairResult{stats: map[string]int{}}
	st := res.stats
	A, B := a.leaf, b.leaf
	pairPath := A.Path + " == " + B.Path
	generic := "same-value(" + A.Generic() + " -> " + B.Generic() + ")"
	set2 := func(va, vb string) []client.Object {
		o := CopyObjs(objs0)
		if va != "" && !SetLeaf(o[A.Obj], A.Path, va) {
			return nil
		}
		if vb != "" && !SetLeaf(o[B.Obj], B.Path, vb) {
			return nil
		}
		return o
	}
	// both leaves must be rendered with the plain value of the family (each on its own)
	benA, benB := familyBase(family, uniq()), familyBase(family, uniq())
	oa, ob := set2(benA, ""), set2("", benB)
	if oa == nil || ob == nil {
		return res
	}
	ra, rb := doRun(oa, base.Opts), doRun(ob, base.Opts)
	st["runs"] += 2
	if ra.Panic != "" || rb.Panic != "" || !ra.hasMarker() || !rb.hasMarker() {
		st["pairs-not-rendered"]++
		return res
	}
	st["pairs"]++
	st["pairgroup:"+a.group+"->"+b.group]++
	for _, pl := range fam {
		// does A accept the payload class at all?
		u := pl.Make(familyBase(family, uniq()))
		ou := set2(u, "")
		ru := doRun(ou, base.Opts)
		st["runs"]++
		if ru.Panic != "" || ru.NoConf || !ru.hasMarker() {
			st["pair-class-rejected-by-first-leaf"]++
			continue
		}
		v := pl.Make(familyBase(family, uniq()))
		obase := set2(benA, v)
		rbase := doRun(obase, base.Opts)
		st["runs"]++
		if rbase.Panic != "" || rbase.NoConf {
			continue
		}
		st["pair-probes"]++
		st["pairclass:"+pl.Class]++
		op := set2(v, v)
		r1 := doRun(op, base.Opts)
		r2 := doRun(CopyObjs(op), base.Opts)
		// two batches: A = v first, then the object that holds B
		first := set2(v, benB)
		r3 := runTwoBatches(first, CopyObjs(op)[B.Obj], op, base.Opts)
		st["runs"] += 4
		if !sameRun(r1, r2) {
			res.divs = append(res.divs, Divergence{What: "the same objects, run twice in one process, give different outputs",
				Base: base.Name, Pair: pairPath, Value: v, Diff: runDiff(r1, r2)})
		}
		res.recs = append(res.recs, record{tag: "B", label: base.Name + "/pair/" + pairPath + " = " + v, files: reduceFiles(rbase.Files)})
		for _, x := range []struct {
			kind string
			r    Run
		}{{"one batch", r1}, {"repeat", r2}, {"one batch, second run in the process", r2}, {"two batches of one controller (first leaf, then second leaf)", r3}} {
			m := &Meta{
				Base: base.Name, Variant: "valid", Kind: B.Kind, Path: pairPath, Generic: generic, Type: B.Type, Class: "pair-" + pl.Class,
				Value: v, Benign: benA, Reaches: rbase.hasMarker(), Panic: x.r.Panic,
				CondsNew: diffConds(x.r.Conds, rbase.Conds), CondsGone: diffConds(rbase.Conds, x.r.Conds),
				Gate: "the same value in both leaves, " + x.kind,
			}
			if len(m.Panic) > 600 {
				m.Panic = m.Panic[:600]
			}
			tag := "P"
			if x.kind == "repeat" {
				// directly after the P record of the first run: the judge compares with the files it has just seen
				tag = "R"
				m.Gate = "the same value in both leaves, the same objects run a second time in the process"
			}
			res.recs = append(res.recs, record{tag: tag, files: reduceFiles(x.r.Files), meta: m})
		}
	}
	return res
}

// Pairs runs the same-value and statefulness probes and writes F/B/P/M/D/S lines. perGroup bounds the number of leaf
// pairs per ordered pair of groups and base scenario (0 = all).
func Pairs(w *bufio.Writer, seed uint64, perGroup, workers int, only string) {
	if workers < 1 {
		workers = 1
	}
	p.CertPair(1)
	p.CertPair(7)
	em := &emitter{w: w, ids: map[string]int{}}
	stats := map[string]int{}
	id := 0
	for _, base := range Bases() {
		objs0 := CopyObjs(base.Objs)
		r0 := doRun(objs0, base.Opts)
		r0b := doRun(CopyObjs(objs0), base.Opts)
		stats["runs"] += 2
		if r0.Panic != "" || r0.NoConf {
			fmt.Fprintf(w, "X\tbase scenario %s does not produce a configuration: %s\n", base.Name, Esc(r0.Panic))
			continue
		}
		stats["base-scenarios-run-twice"]++
		if !sameRun(r0, r0b) {
			d, _ := json.Marshal(Divergence{What: "the base scenario, run twice in one process, gives different outputs", Base: base.Name,
				Diff: runDiff(r0, r0b)})
			fmt.Fprintf(w, "D\t%s\n", d)
		}
		fmt.Fprintf(w, "L\t%s\t%s\n", Esc("base "+base.Name), em.fields(reduceFiles(r0.Files)))
		id++
		mb0, _ := json.Marshal(&Meta{ID: id, Base: base.Name, Variant: "valid", Path: "(base scenario " + base.Name + ")", Generic: "base-scenario",
			Class: "repeat", Gate: "the base scenario run a second time in the process"})
		fmt.Fprintf(w, "R\t%d\t%s\n", id, em.fields(reduceFiles(r0b.Files)))
		fmt.Fprintf(w, "M\t%s\n", mb0)
		byFam := map[string][]famLeaf{}
		for _, l := range Leaves(objs0) {
			if coreKinds[l.Kind] || l.Nil {
				continue
			}
			if f, g := familyOf(l); f != "" {
				byFam[f] = append(byFam[f], famLeaf{l, g})
			}
		}
		type job struct {
			a, b   famLeaf
			family string
		}
		var jobs []job
		fams := make([]string, 0, len(byFam))
		for f := range byFam {
			fams = append(fams, f)
		}
		sort.Strings(fams)
		for _, f := range fams {
			ls := byFam[f]
			count := map[string]int{}
			// rotate by the seed so that different runs take different pairs when bounded
			for i := range ls {
				for j := range ls {
					a, b := ls[(i+int(seed))%len(ls)], ls[(j+int(seed))%len(ls)]
					if a.group == b.group || (a.leaf.Obj == b.leaf.Obj && a.leaf.Path == b.leaf.Path) {
						continue
					}
					if only != "" && !strings.Contains(a.leaf.Path+" "+b.leaf.Path, only) {
						continue
					}
					// prefer variety of position: same object / other object, A before / after B
					key := fmt.Sprintf("%s>%s/%v/%v", a.group, b.group, a.leaf.Obj == b.leaf.Obj, a.leaf.Obj < b.leaf.Obj || (a.leaf.Obj == b.leaf.Obj && a.leaf.Path < b.leaf.Path))
					if perGroup > 0 && count[key] >= perGroup {
						continue
					}
					count[key]++
					jobs = append(jobs, job{a, b, f})
				}
			}
		}
		results := make([]chan pairResult, len(jobs))
		sem := make(chan struct{}, workers)
		for i := range jobs {
			results[i] = make(chan pairResult, 1)
			go func(i int) {
				sem <- struct{}{}
				defer func() { <-sem }()
				results[i] <- probePair(base, objs0, jobs[i].a, jobs[i].b, jobs[i].family, pairPayloads)
			}(i)
		}
		for i := range jobs {
			res := <-results[i]
			for k, v := range res.stats {
				stats[k] += v
			}
			for _, d := range res.divs {
				db, _ := json.Marshal(d)
				fmt.Fprintf(w, "D\t%s\n", db)
			}
			for _, rec := range res.recs {
				fl := em.fields(rec.files)
				if rec.tag == "B" {
					fmt.Fprintf(w, "B\t%s\t%s\n", Esc(rec.label), fl)
					continue
				}
				id++
				rec.meta.ID = id
				mb, _ := json.Marshal(rec.meta)
				fmt.Fprintf(w, "%s\t%d\t%s\n", rec.tag, id, fl)
				fmt.Fprintf(w, "M\t%s\n", mb)
			}
			w.Flush()
		}
	}
	stats["distinct-file-contents"] = len(em.ids)
	keys := make([]string, 0, len(stats))
	for k := range stats {
		keys = append(keys, k)
	}
	sort.Strings(keys)
	for _, k := range keys {
		fmt.Fprintf(w, "S\t%s\t%d\n", k, stats[k])
	}
}
