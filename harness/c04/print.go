package c04

import (
	"encoding/json"
	"fmt"
	"io"

	"sigs.k8s.io/controller-runtime/pkg/client"
	gatewayv1 "sigs.k8s.io/gateway-api/apis/v1"

	"github.com/nginx/nginx-gateway-fabric/verifharness/c02"
	p "github.com/nginx/nginx-gateway-fabric/verifharness/pipeline"
	"github.com/nginx/nginx-gateway-fabric/verifharness/rng"
)

// `-mode print`: the tie of Model/Print + Model/PrintGuards (lean) to the real pipeline.
//
// Scenarios of C02's fragment profile (the domain of Model/Render); every guarded string field of the scenario (a "site")
// gets, in turn, a benign marker value and the members of the payload family of its class; every variant runs through the
// REAL pipeline (ChangeProcessor, BuildGraph, BuildConfiguration, Generate). One JSON line per run: the flat form of the
// mutated scenario (what PipelineTie/PrintTie read) and the real http.conf / matches.json. The Lean driver (mode `print`)
// evaluates the guards of PrintGuards on the scenario, prints `render (genR s)` with Print.printDirs, lexes both texts and
// compares; the plugin relates "the real validators accepted the value" (the marker reaches a generated file) to the guards.

// PrintJ is one line of the stream.
type PrintJ struct {
	ID      string    `json:"id"`
	Scen    int       `json:"scen"`
	Site    string    `json:"site"`  // e.g. route[1].rules[0].matches[1].path
	Class   string    `json:"class"` // listener-hostname, route-hostname, path, header-name, …
	Value   string    `json:"value"`
	Benign  bool      `json:"benign"`
	Flat    *c02.Flat `json:"flat,omitempty"`
	HTTP    string    `json:"http"`
	Matches string    `json:"matches"`
	Panic   string    `json:"panic,omitempty"`
}

const (
	printHTTPConf = "/etc/nginx/conf.d/http.conf"
	printMatches  = "/etc/nginx/conf.d/matches.json"
)

// a site: where a string of the scenario lives, and how to overwrite it in a deep copy of the objects
type site struct {
	name  string
	class string
	set   func(objs []client.Object, v string)
}

func routesOf(objs []client.Object) []*gatewayv1.HTTPRoute {
	var out []*gatewayv1.HTTPRoute
	for _, o := range objs {
		if r, ok := o.(*gatewayv1.HTTPRoute); ok {
			out = append(out, r)
		}
	}
	return out
}

func gatewaysOf(objs []client.Object) []*gatewayv1.Gateway {
	var out []*gatewayv1.Gateway
	for _, o := range objs {
		if g, ok := o.(*gatewayv1.Gateway); ok {
			out = append(out, g)
		}
	}
	return out
}

// sitesOf enumerates the guarded string fields of a fragment scenario.
func sitesOf(objs []client.Object) []site {
	var out []site
	for gi, g := range gatewaysOf(objs) {
		for li, l := range g.Spec.Listeners {
			if l.Hostname == nil {
				continue
			}
			gi, li := gi, li
			out = append(out, site{fmt.Sprintf("gateway[%d].listeners[%d].hostname", gi, li), "listener-hostname",
				func(o []client.Object, v string) {
					gatewaysOf(o)[gi].Spec.Listeners[li].Hostname = ptr(gatewayv1.Hostname(v))
				}})
		}
	}
	for ri, r := range routesOf(objs) {
		ri := ri
		out = append(out, site{fmt.Sprintf("route[%d].name", ri), "route-name",
			func(o []client.Object, v string) { routesOf(o)[ri].Name = v }})
		for hi := range r.Spec.Hostnames {
			hi := hi
			out = append(out, site{fmt.Sprintf("route[%d].hostnames[%d]", ri, hi), "route-hostname",
				func(o []client.Object, v string) { routesOf(o)[ri].Spec.Hostnames[hi] = gatewayv1.Hostname(v) }})
		}
		for ui, rule := range r.Spec.Rules {
			ui := ui
			for mi, m := range rule.Matches {
				mi := mi
				pre := fmt.Sprintf("route[%d].rules[%d].matches[%d]", ri, ui, mi)
				if m.Path != nil && m.Path.Value != nil {
					out = append(out, site{pre + ".path", "path", func(o []client.Object, v string) {
						routesOf(o)[ri].Spec.Rules[ui].Matches[mi].Path.Value = ptr(v)
					}})
				}
				if m.Method != nil {
					out = append(out, site{pre + ".method", "method", func(o []client.Object, v string) {
						routesOf(o)[ri].Spec.Rules[ui].Matches[mi].Method = ptr(gatewayv1.HTTPMethod(v))
					}})
				}
				for hi := range m.Headers {
					hi := hi
					out = append(out, site{fmt.Sprintf("%s.headers[%d].name", pre, hi), "header-name", func(o []client.Object, v string) {
						routesOf(o)[ri].Spec.Rules[ui].Matches[mi].Headers[hi].Name = gatewayv1.HTTPHeaderName(v)
					}}, site{fmt.Sprintf("%s.headers[%d].value", pre, hi), "header-value", func(o []client.Object, v string) {
						routesOf(o)[ri].Spec.Rules[ui].Matches[mi].Headers[hi].Value = v
					}})
				}
				for qi := range m.QueryParams {
					qi := qi
					out = append(out, site{fmt.Sprintf("%s.queryParams[%d].name", pre, qi), "query-name", func(o []client.Object, v string) {
						routesOf(o)[ri].Spec.Rules[ui].Matches[mi].QueryParams[qi].Name = gatewayv1.HTTPHeaderName(v)
					}}, site{fmt.Sprintf("%s.queryParams[%d].value", pre, qi), "query-value", func(o []client.Object, v string) {
						routesOf(o)[ri].Spec.Rules[ui].Matches[mi].QueryParams[qi].Value = v
					}})
				}
			}
			for fi, f := range rule.Filters {
				fi := fi
				if f.RequestRedirect == nil {
					continue
				}
				pre := fmt.Sprintf("route[%d].rules[%d].filters[%d].requestRedirect", ri, ui, fi)
				// the hostname site exists also when the filter has none: the value is then put where the template's `$host` was
				out = append(out, site{pre + ".hostname", "redirect-hostname", func(o []client.Object, v string) {
					routesOf(o)[ri].Spec.Rules[ui].Filters[fi].RequestRedirect.Hostname = ptr(gatewayv1.PreciseHostname(v))
				}}, site{pre + ".scheme", "redirect-scheme", func(o []client.Object, v string) {
					routesOf(o)[ri].Spec.Rules[ui].Filters[fi].RequestRedirect.Scheme = ptr(v)
				}})
			}
		}
	}
	return out
}

// benign marker value and payload family per class. Every value carries the marker `zqmq` (case-insensitively).
func printFamily(class string) (benign string, hostile []string) {
	switch class {
	case "listener-hostname", "route-hostname":
		return "zqmq.example.com", []string{
			"zqmq.example.com;", "zqmq;.example.com", "zqmq{.example.com", "zqmq}.example.com", "zqmq .example.com",
			"zqmq\t.example.com", "zqmq.example.com\nlisten 1", "zqmq$host.example.com", "zqmq\".example.com", "zqmq'.example.com",
			"zqmq#.example.com", "zqmq\\.example.com", "zqmq.example.com\\", "ZQMQ.example.com", "zqmq..example.com",
			"-zqmq.example.com", "~^zqmq", "*.zqmq.example.com", "zqmq-1.example.com", "*zqmq.example.com",
			"zqmq.example.com; } server { listen 81",
		}
	case "path":
		return "/zqmq", []string{
			"/zqmq;x", "/zqmq{", "/zqmq}", "/zqmq x", "/zqmq\tx", "/zqmq\nx", "/zqmq\"x", "/zqmq'x#y", "/zqmq#", "/zqmq$v", "/zqmq$",
			"/zqmq${v}", "/zqmq\\x", "/zqmq\\", "/zqmq\\\\", "/zqmq\\;", "zqmq", "/zqmq;}\nserver {", "/zqmq { return 200; } location /x",
			"/zqmq\"", "/zqmq/a.b-c_d~e", "/zqmq\\n", "/ZQMQ%20x", "/zqmqé",
		}
	case "method":
		return "GET", []string{"zqmq", "GET;zqmq", "GET zqmq"}
	case "header-name":
		return "X-Zqmq", []string{"X-Zqmq;", "X Zqmq", "X-Zqmq:", "X-Zqmq$v", "X-Zqmq\"", "X-Zqmq{", "X-Zqmq\\", "X-Zqmq\n", "x-zqmq_1", "X-Zqmq#"}
	case "header-value":
		return "zqmq", []string{"zqmq;x", "zqmq\"x", "zqmq$v", "zqmq:x", "zqmq\\", "zqmq x}", "zqmq\nx", "zqmq{", "zqmq#x", "zqmq'", " zqmq"}
	case "query-name":
		return "zqmq", []string{"zqmq;x", "zqmq\"x", "zqmq$v", "zqmq=x", "zqmq\\", "zqmq x}", "zqmq{", "zqmq#x", "zqmq&x"}
	case "query-value":
		return "zqmq", []string{"zqmq;x", "zqmq\"x", "zqmq$v", "zqmq=x", "zqmq\\", "zqmq x}", "zqmq{", "zqmq#x", "zqmq&x"}
	case "redirect-hostname":
		return "zqmq.example.com", []string{
			"zqmq;x", "zqmq x", "zqmq{}", "zqmq}", "zqmq\"x", "zqmq\\\"x", "zqmq$v", "zqmq\\$v", "zqmq\\", "zqmq\\\\", "zqmq#x", "zqmq\nx",
			"zqmq'x", "zqmq\";\nreturn 200 \"", "zqmq; } location /y {", "zqmq\\n", "zqmq${v}", "ZQMQ.example.com:8080",
		}
	case "redirect-scheme":
		return "https", []string{"zqmq", "https;zqmq", "https zqmq", "https\"zqmq", "$zqmq", "zqmq\\"}
	case "route-name":
		// metadata.name syntax is enforced by the API server (assumption of C04): admissible odd names only
		return "zqmq", []string{"zqmq-x", "zqmq.x", "zqmq--x", "z.q.m.q-zqmq", "0zqmq0"}
	}
	return "", nil
}

func deepCopy(objs []client.Object) []client.Object {
	out := make([]client.Object, len(objs))
	for i, o := range objs {
		out[i] = o.DeepCopyObject().(client.Object)
	}
	return out
}

// Print emits the stream for n scenarios. stride > 1 keeps every stride-th hostile payload of a site (rotated by the seed
// and the site index); the benign value is always run. only >= 0 restricts to one scenario.
func Print(w io.Writer, seed uint64, n, stride, only int, onlySite string) {
	enc := json.NewEncoder(w)
	enc.SetEscapeHTML(false)
	r := rng.New(seed ^ 0xc04f7a9)
	if stride < 1 {
		stride = 1
	}
	panics := 0
	for i := 0; i < n; i++ {
		s := c02.GenFragment(r.Fork())
		c02.ApplyDefaults(s.Objs)
		if only >= 0 && i != only {
			continue
		}
		run := func(objs []client.Object, line PrintJ) {
			_, out := p.RunFresh(objs, s.Opts, nil)
			if out.Panic != "" {
				line.Panic = p.PanicSite(out.Panic)
				panics++
				_ = enc.Encode(line)
				return
			}
			fl := c02.Flatten(objs, s.Opts)
			line.Flat = &fl
			line.HTTP = p.FileText(out.Files, printHTTPConf)
			line.Matches = p.FileText(out.Files, printMatches)
			_ = enc.Encode(line)
		}
		// the unmodified scenario first: the plain text tie (lex(real) = lex(print(render(genR s))))
		run(s.Objs, PrintJ{ID: fmt.Sprintf("p%d-%d", seed, i), Scen: i, Site: "", Class: "base", Benign: true})
		for si, st := range sitesOf(s.Objs) {
			if onlySite != "" && st.name != onlySite {
				continue
			}
			benign, hostile := printFamily(st.class)
			vals := []string{benign}
			for k, h := range hostile {
				if (k+si+int(seed))%stride == 0 || onlySite != "" {
					vals = append(vals, h)
				}
			}
			for vi, v := range vals {
				objs := deepCopy(s.Objs)
				st.set(objs, v)
				run(objs, PrintJ{ID: fmt.Sprintf("p%d-%d-%d-%d", seed, i, si, vi), Scen: i, Site: st.name, Class: st.class,
					Value: v, Benign: vi == 0})
				if panics > 12 {
					return
				}
			}
		}
	}
}
