package c04

import (
	"bufio"
	"fmt"
	"sort"
	"strings"
	"unicode/utf8"

	ngxcfg "github.com/nginx/nginx-gateway-fabric/internal/mode/static/nginx/config"
	ngxvalidation "github.com/nginx/nginx-gateway-fabric/internal/mode/static/nginx/config/validation"
	"github.com/nginx/nginx-gateway-fabric/internal/mode/static/state/graph"
	"github.com/nginx/nginx-gateway-fabric/verifharness/rng"
)

func errOK(err error) bool { return err == nil }

// realValidators are the REAL validator functions, by the name the Lean model uses.
func realValidators() map[string]func(string) bool {
	hv := ngxvalidation.HTTPValidator{}
	gv := ngxvalidation.GenericValidator{}
	m := map[string]func(string) bool{
		"ValidatePathInMatch":                 func(s string) bool { return errOK(hv.ValidatePathInMatch(s)) },
		"ValidatePath":                        func(s string) bool { return errOK(hv.ValidatePath(s)) },
		"ValidateHeaderNameInMatch":           func(s string) bool { return errOK(hv.ValidateHeaderNameInMatch(s)) },
		"ValidateHeaderValueInMatch":          func(s string) bool { return errOK(hv.ValidateHeaderValueInMatch(s)) },
		"ValidateQueryParamNameInMatch":       func(s string) bool { return errOK(hv.ValidateQueryParamNameInMatch(s)) },
		"ValidateQueryParamValueInMatch":      func(s string) bool { return errOK(hv.ValidateQueryParamValueInMatch(s)) },
		"ValidateMethodInMatch":               func(s string) bool { ok, _ := hv.ValidateMethodInMatch(s); return ok },
		"ValidateRedirectScheme":              func(s string) bool { ok, _ := hv.ValidateRedirectScheme(s); return ok },
		"ValidateRedirectHostname":            func(s string) bool { return errOK(hv.ValidateHostname(s)) },
		"ValidateFilterHeaderName":            func(s string) bool { return errOK(hv.ValidateFilterHeaderName(s)) },
		"ValidateFilterHeaderValue":           func(s string) bool { return errOK(hv.ValidateFilterHeaderValue(s)) },
		"ValidateEscapedStringNoVarExpansion": func(s string) bool { return errOK(gv.ValidateEscapedStringNoVarExpansion(s)) },
		"ValidateServiceName":                 func(s string) bool { return errOK(gv.ValidateServiceName(s)) },
		"ValidateNginxDuration":               func(s string) bool { return errOK(gv.ValidateNginxDuration(s)) },
		"ValidateNginxSize":                   func(s string) bool { return errOK(gv.ValidateNginxSize(s)) },
		"ValidateEndpoint":                    func(s string) bool { return errOK(gv.ValidateEndpoint(s)) },
		"graph.validateHostname":              func(s string) bool { return errOK(graph.VerifC04ValidateHostname(s)) },
	}
	for name, re := range ngxvalidation.VerifC04Regexps() {
		re := re
		m["regex:"+name] = re.MatchString
	}
	return m
}

var exemplars = []string{
	"", "/", "/coffee", "/coffee/latte", "/a b", "/a;b", "/a{b}", "/a$b", "/a\\", "/a\\\\", "/a\"b", "/a'b", "/a#b", "/a\tb",
	"/a\nb", "/a\vb", "/a\fb", "/a\rb", "coffee", "/é", "/ ", "/ x", "/x　",
	"host", "example.com", "*.example.com", "*.", "*.a", "a..b", "-a.com", "a-.com", "A.com", "a_b.com", "1.2.3.4",
	strings.Repeat("a", 63) + ".com", strings.Repeat("a", 64) + ".com", strings.Repeat("a.", 126) + "a", strings.Repeat("a.", 127) + "a",
	"X-Header", "x_header", "Host", "hOsT", "Connection", "UPGRADE", "X:Y", "x y", strings.Repeat("h", 256), strings.Repeat("h", 257),
	"value", "va\"lue", "va\\\"lue", "va\\lue", "value\\", "value\\\\", "va$lue", "va\\$lue", "\\", "\\\\", "\\\n", "\\n", "a\nb", "$", "\"",
	" ", "  ", "\t", " ", "\u0085", " x ", "GET", "get", "PATCH", "TRACE", "CONNECT", "http", "https", "HTTP", "ftp",
	"5s", "5ms", "10000s", "5", "5d", "5s;", "5s\n", "\n5s", "05m", "1h", "9999h", "١s",
	"1024", "8k", "20m", "1g", "1G", "12345", "1k;", "1kk", "٣k",
	"my-endpoint", "my.endpoint:5678", "http://my-endpoint", "https://x", "htt://x", "http:/x", "x:123456", "x:", "x:1", "a-", "-a", "a.b-", "UP.case",
	"x" + strings.Repeat("-", 61) + "y", "x" + strings.Repeat("-", 62) + "y", "a;b", "a b", "a{", "svc_1", "svc-1", "svc.1", "sv c",
}

var alphabet = []string{
	"a", "b", "z", "A", "Z", "0", "9", "-", "_", ".", "/", ":", ";", "{", "}", "\"", "'", "\\", "$", "#", " ", "\t", "\n", "\r", "\v", "\f",
	"*", "%", "(", ")", "[", "]", "?", "=", "m", "s", "h", "k", "g", "é", " ", " ", "日", "\x00", "\x7f",
}

func randString(r *rng.R) string {
	switch r.Intn(4) {
	case 0: // random over the alphabet
		n := r.Intn(8)
		var b strings.Builder
		for i := 0; i < n; i++ {
			b.WriteString(rng.Pick(r, alphabet))
		}
		return b.String()
	case 1: // exemplar with an inserted character
		e := rng.Pick(r, exemplars)
		rs := []rune(e)
		i := r.Intn(len(rs) + 1)
		return string(rs[:i]) + rng.Pick(r, alphabet) + string(rs[i:])
	case 2: // exemplar with a deleted character
		e := rng.Pick(r, exemplars)
		rs := []rune(e)
		if len(rs) == 0 {
			return e
		}
		i := r.Intn(len(rs))
		return string(rs[:i]) + string(rs[i+1:])
	default: // concatenation of two exemplars
		return rng.Pick(r, exemplars) + rng.Pick(r, exemplars)
	}
}

func validatorsImpl(w *bufio.Writer, seed uint64, n int) {
	r := rng.New(seed)
	vs := realValidators()
	names := make([]string, 0, len(vs))
	for k := range vs {
		names = append(names, k)
	}
	sort.Strings(names)
	strs := append([]string(nil), exemplars...)
	for _, a := range atoms {
		strs = append(strs, a.h, "/"+Marker+a.h, "x"+a.h)
	}
	for i := 0; i < n; i++ {
		strs = append(strs, randString(r))
	}
	for _, s := range strs {
		if !utf8.ValidString(s) {
			continue
		}
		for _, name := range names {
			acc := 0
			if vs[name](s) {
				acc = 1
			}
			fmt.Fprintf(w, "V\t%s\t%s\t%d\n", name, Esc(s), acc)
		}
	}
	// composite arguments built in Go (servers.go): "C <query fields> = <result>"
	paths := []string{"/", "/coffee", "/coffee/", "/a b", "/x\\", "/" + Marker + ";x", "", "/é"}
	repls := []string{"", "/", "/beans", "/beans/", "/x\\", "/$1", "/a b;", "/" + Marker + "\"", "x"}
	opt := func(s *string) string {
		if s == nil {
			return "~"
		}
		return Esc(*s)
	}
	for i := 0; i < 40+n/20; i++ {
		path, repl := rng.Pick(r, paths), rng.Pick(r, repls)
		if r.Chance(1, 3) {
			path = "/" + randString(r)
		}
		if r.Chance(1, 3) {
			repl = randString(r)
		}
		if !utf8.ValidString(path) || !utf8.ValidString(repl) {
			continue
		}
		typ := rng.Pick(r, []string{"ReplaceFullPath", "ReplacePrefixMatch"})
		fmt.Fprintf(w, "C\tcompose:mainRewrite\t%s\t%s\t%s\t\\=\t%s\n", typ, Esc(repl), Esc(path), Esc(ngxcfg.VerifC04MainRewrite(typ, repl, path)))
		fmt.Fprintf(w, "C\tcompose:rewriteFilter\t%s\t%s\t%s\t\\=\t%s\n", typ, Esc(repl), Esc(path), Esc(ngxcfg.VerifC04RewriteFilter(typ, repl, path)))
		var scheme, host *string
		var port *int32
		if r.Chance(2, 3) {
			scheme = ptr(rng.Pick(r, []string{"http", "https", "ftp", "HTTP", Marker + "\";"}))
		}
		if r.Chance(2, 3) {
			host = ptr(rng.Pick(r, []string{"example.com", "a b", Marker + "\\\"", "$host", ""}))
		}
		if r.Chance(1, 2) {
			port = ptr(rng.Pick(r, []int32{80, 443, 8080, 0, 65535}))
		}
		lport := rng.Pick(r, []int32{80, 443, 8443})
		hasPath := r.Bool()
		ps := "~"
		if port != nil {
			ps = fmt.Sprint(*port)
		}
		hp := "0"
		if hasPath {
			hp = "1"
		}
		fmt.Fprintf(w, "C\tcompose:redirectBody\t%s\t%s\t%s\t%s\t%d\t\\=\t%s\n", opt(scheme), opt(host), ps, hp, lport,
			Esc(ngxcfg.VerifC04RedirectBody(scheme, host, port, hasPath, lport)))
	}
}
