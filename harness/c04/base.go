// Package c04 is the harness of property C04 (no configuration injection through field values).
//
// base.go: hand-built, fully populated base scenarios. Every optional string field that the
// control plane reads is set to a valid value, so that the reflection walk of leaves.go reaches it.
package c04

import (
	apiv1 "k8s.io/api/core/v1"
	"sigs.k8s.io/controller-runtime/pkg/client"
	gatewayv1 "sigs.k8s.io/gateway-api/apis/v1"
	"sigs.k8s.io/gateway-api/apis/v1alpha2"
	"sigs.k8s.io/gateway-api/apis/v1alpha3"

	ngfAPI "github.com/nginx/nginx-gateway-fabric/apis/v1alpha1"
	ngfAPIv2 "github.com/nginx/nginx-gateway-fabric/apis/v1alpha2"
	p "github.com/nginx/nginx-gateway-fabric/verifharness/pipeline"
)

func ptr[T any](v T) *T { return &v }

const gwGroup = "gateway.networking.k8s.io"

// Base is one base scenario.
type Base struct {
	Name string
	Objs []client.Object
	Opts p.Options
}

func hdr(n, v string) gatewayv1.HTTPHeader {
	return gatewayv1.HTTPHeader{Name: gatewayv1.HTTPHeaderName(n), Value: v}
}

func nginxProxy(mode ngfAPI.RewriteClientIPModeType, fam ngfAPI.IPFamilyType) *ngfAPI.NginxProxy {
	np := &ngfAPI.NginxProxy{ObjectMeta: p.Meta("", "np", 0)}
	np.Spec.IPFamily = ptr(fam)
	np.Spec.Telemetry = &ngfAPI.Telemetry{
		Exporter: &ngfAPI.TelemetryExporter{
			Endpoint: "otel.example.com:4317", Interval: ptr(ngfAPI.Duration("5s")),
			BatchSize: ptr(int32(512)), BatchCount: ptr(int32(4)),
		},
		ServiceName:    ptr("my-svc"),
		SpanAttributes: []ngfAPI.SpanAttribute{{Key: "globalkey", Value: "globalvalue"}},
	}
	np.Spec.RewriteClientIP = &ngfAPI.RewriteClientIP{
		Mode:             ptr(mode),
		SetIPRecursively: ptr(true),
		TrustedAddresses: []ngfAPI.Address{
			{Type: ngfAPI.CIDRAddressType, Value: "10.0.0.0/8"},
			{Type: ngfAPI.IPAddressType, Value: "192.168.1.7"},
			{Type: ngfAPI.HostnameAddressType, Value: "lb.example.com"},
		},
	}
	np.Spec.Logging = &ngfAPI.NginxLogging{ErrorLevel: ptr(ngfAPI.NginxLogLevelWarn)}
	return np
}

func gatewayClass() *gatewayv1.GatewayClass {
	gc := p.GatewayClass(p.DefaultClass, p.DefaultController, 0)
	gc.Spec.ParametersRef = &gatewayv1.ParametersReference{Group: ngfAPI.GroupName, Kind: "NginxProxy", Name: "np"}
	gc.Spec.Description = ptr("the class")
	return gc
}

func common(objs []client.Object) []client.Object {
	objs = append(objs,
		p.Namespace("default", map[string]string{"team": "a"}),
		p.Service("default", "svc1", 80), p.EndpointSlice("default", "svc1", "a", []int32{80}, "10.1.0.1", "10.1.0.2"),
		p.Service("default", "svc2", 80, 443), p.EndpointSlice("default", "svc2", "a", []int32{80, 443}, "10.2.0.1"),
		p.Service("default", "svc3", 80), p.EndpointSlice("default", "svc3", "a", []int32{80}, "10.3.0.1"),
		p.TLSSecret("default", "cert", 1),
	)
	cert, _ := p.CertPair(7)
	objs = append(objs, &apiv1.ConfigMap{ObjectMeta: p.Meta("default", "ca-bundle", 0), Data: map[string]string{"ca.crt": string(cert)}})
	return objs
}

// BaseHTTP: HTTP + HTTPS listeners, an HTTPRoute using every filter kind and match kind, all three
// NGF policies, a BackendTLSPolicy with a ConfigMap CA, NginxProxy with every field set.
func BaseHTTP() Base {
	var objs []client.Object
	objs = append(objs, gatewayClass(), nginxProxy(ngfAPI.RewriteClientIPModeXForwardedFor, ngfAPI.Dual))
	gw := p.Gateway("default", "gw", p.DefaultClass, 1,
		p.Listener{Name: "http", Port: 80, Protocol: "HTTP", Hostname: "*.example.com", FromNS: "Same", Kinds: []string{"HTTPRoute"}},
		p.Listener{Name: "https", Port: 443, Protocol: "HTTPS", Hostname: "cafe.example.com", CertRefs: []string{"default/cert"}},
	)
	gw.Spec.Addresses = []gatewayv1.GatewayAddress{}
	objs = append(objs, gw)

	// rule 0: every match kind + header modifiers + URL rewrite (prefix) + single backend
	r0 := p.HTTPRule([]gatewayv1.HTTPRouteMatch{{
		Path:        &gatewayv1.HTTPPathMatch{Type: ptr(gatewayv1.PathMatchPathPrefix), Value: ptr("/coffee")},
		Headers:     []gatewayv1.HTTPHeaderMatch{{Type: ptr(gatewayv1.HeaderMatchExact), Name: "X-Version", Value: "v1"}},
		QueryParams: []gatewayv1.HTTPQueryParamMatch{{Type: ptr(gatewayv1.QueryParamMatchExact), Name: "great", Value: "example"}},
		Method:      ptr(gatewayv1.HTTPMethodGet),
	}}, p.Backend{Ref: "svc1", Port: 80, Weight: -1})
	r0.Name = ptr(gatewayv1.SectionName("rule-zero"))
	r0.Filters = []gatewayv1.HTTPRouteFilter{
		{Type: gatewayv1.HTTPRouteFilterRequestHeaderModifier, RequestHeaderModifier: &gatewayv1.HTTPHeaderFilter{
			Add: []gatewayv1.HTTPHeader{hdr("My-Add", "addval")}, Set: []gatewayv1.HTTPHeader{hdr("My-Set", "setval")},
			Remove: []string{"My-Remove"},
		}},
		{Type: gatewayv1.HTTPRouteFilterResponseHeaderModifier, ResponseHeaderModifier: &gatewayv1.HTTPHeaderFilter{
			Add: []gatewayv1.HTTPHeader{hdr("Resp-Add", "raddval")}, Set: []gatewayv1.HTTPHeader{hdr("Resp-Set", "rsetval")},
			Remove: []string{"Resp-Remove"},
		}},
		{Type: gatewayv1.HTTPRouteFilterURLRewrite, URLRewrite: &gatewayv1.HTTPURLRewriteFilter{
			Hostname: ptr(gatewayv1.PreciseHostname("rewritten.example.com")),
			Path:     &gatewayv1.HTTPPathModifier{Type: gatewayv1.PrefixMatchHTTPPathModifier, ReplacePrefixMatch: ptr("/beans")},
		}},
	}
	// rule 1: exact path + redirect with every field and a full-path replacement
	r1 := p.HTTPRule([]gatewayv1.HTTPRouteMatch{p.PathMatch("Exact", "/tea")})
	r1.Filters = []gatewayv1.HTTPRouteFilter{{Type: gatewayv1.HTTPRouteFilterRequestRedirect, RequestRedirect: &gatewayv1.HTTPRequestRedirectFilter{
		Scheme: ptr("https"), Hostname: ptr(gatewayv1.PreciseHostname("redirect.example.com")), Port: ptr(gatewayv1.PortNumber(8443)),
		StatusCode: ptr(301), Path: &gatewayv1.HTTPPathModifier{Type: gatewayv1.FullPathHTTPPathModifier, ReplaceFullPath: ptr("/full")},
	}}}
	// rule 2: path-only prefix + full-path rewrite + weighted backends (split_clients)
	r2 := p.HTTPRule([]gatewayv1.HTTPRouteMatch{p.PathMatch("PathPrefix", "/latte")},
		p.Backend{Ref: "svc1", Port: 80, Weight: 80}, p.Backend{Ref: "svc3", Port: 80, Weight: 20})
	r2.Filters = []gatewayv1.HTTPRouteFilter{{Type: gatewayv1.HTTPRouteFilterURLRewrite, URLRewrite: &gatewayv1.HTTPURLRewriteFilter{
		Path: &gatewayv1.HTTPPathModifier{Type: gatewayv1.FullPathHTTPPathModifier, ReplaceFullPath: ptr("/replaced")},
	}}}
	// rule 3: redirect with prefix replacement, no scheme/host
	r3 := p.HTTPRule([]gatewayv1.HTTPRouteMatch{p.PathMatch("PathPrefix", "/old")})
	r3.Filters = []gatewayv1.HTTPRouteFilter{{Type: gatewayv1.HTTPRouteFilterRequestRedirect, RequestRedirect: &gatewayv1.HTTPRequestRedirectFilter{
		Path: &gatewayv1.HTTPPathModifier{Type: gatewayv1.PrefixMatchHTTPPathModifier, ReplacePrefixMatch: ptr("/new")},
	}}}
	// rule 4: backend with TLS policy alone, backendRef-level filter
	r4 := p.HTTPRule([]gatewayv1.HTTPRouteMatch{p.PathMatch("PathPrefix", "/secure/")}, p.Backend{Ref: "svc2", Port: 443, Weight: -1})
	hr := p.HTTPRoute("default", "hr", 2,
		[]gatewayv1.ParentReference{p.ParentRef("default", "gw", "http"), p.ParentRef("", "gw", "https")},
		[]string{"cafe.example.com"}, r0, r1, r2, r3, r4)
	hr.Spec.ParentRefs[0].Group = ptr(gatewayv1.Group(gwGroup))
	hr.Spec.ParentRefs[0].Kind = ptr(gatewayv1.Kind("Gateway"))
	objs = append(objs, hr)

	btp := &v1alpha3.BackendTLSPolicy{ObjectMeta: p.Meta("default", "btp", 3)}
	btp.Spec.TargetRefs = []v1alpha2.LocalPolicyTargetReferenceWithSectionName{{
		LocalPolicyTargetReference: v1alpha2.LocalPolicyTargetReference{Group: "", Kind: "Service", Name: "svc2"},
	}}
	btp.Spec.Validation.Hostname = "backend.example.com"
	btp.Spec.Validation.CACertificateRefs = []gatewayv1.LocalObjectReference{{Group: "", Kind: "ConfigMap", Name: "ca-bundle"}}
	btp.Spec.Options = map[gatewayv1.AnnotationKey]gatewayv1.AnnotationValue{"example.com/o": "x"}
	objs = append(objs, btp)

	csp := &ngfAPI.ClientSettingsPolicy{ObjectMeta: p.Meta("default", "csp", 4)}
	csp.Spec.TargetRef = v1alpha2.LocalPolicyTargetReference{Group: gwGroup, Kind: "Gateway", Name: "gw"}
	csp.Spec.Body = &ngfAPI.ClientBody{MaxSize: ptr(ngfAPI.Size("10m")), Timeout: ptr(ngfAPI.Duration("30s"))}
	csp.Spec.KeepAlive = &ngfAPI.ClientKeepAlive{
		Requests: ptr(int32(100)), Time: ptr(ngfAPI.Duration("1h")),
		Timeout: &ngfAPI.ClientKeepAliveTimeout{Server: ptr(ngfAPI.Duration("75s")), Header: ptr(ngfAPI.Duration("60s"))},
	}
	objs = append(objs, csp)

	csp2 := &ngfAPI.ClientSettingsPolicy{ObjectMeta: p.Meta("default", "csp-route", 5)}
	csp2.Spec.TargetRef = v1alpha2.LocalPolicyTargetReference{Group: gwGroup, Kind: "HTTPRoute", Name: "hr"}
	csp2.Spec.Body = &ngfAPI.ClientBody{MaxSize: ptr(ngfAPI.Size("2k"))}
	objs = append(objs, csp2)

	obs := &ngfAPIv2.ObservabilityPolicy{ObjectMeta: p.Meta("default", "obs", 6)}
	obs.Spec.TargetRefs = []v1alpha2.LocalPolicyTargetReference{{Group: gwGroup, Kind: "HTTPRoute", Name: "hr"}}
	obs.Spec.Tracing = &ngfAPIv2.Tracing{
		Strategy: ngfAPIv2.TraceStrategyRatio, Ratio: ptr(int32(25)), Context: ptr(ngfAPIv2.TraceContextExtract),
		SpanName:       ptr("myspan"),
		SpanAttributes: []ngfAPI.SpanAttribute{{Key: "spankey", Value: "spanvalue"}},
	}
	objs = append(objs, obs)

	usp := &ngfAPI.UpstreamSettingsPolicy{ObjectMeta: p.Meta("default", "usp", 7)}
	usp.Spec.TargetRefs = []v1alpha2.LocalPolicyTargetReference{{Group: "core", Kind: "Service", Name: "svc1"}}
	usp.Spec.ZoneSize = ptr(ngfAPI.Size("1m"))
	usp.Spec.KeepAlive = &ngfAPI.UpstreamKeepAlive{
		Connections: ptr(int32(32)), Requests: ptr(int32(1000)), Time: ptr(ngfAPI.Duration("1h")), Timeout: ptr(ngfAPI.Duration("60s")),
	}
	objs = append(objs, usp)

	return Base{Name: "http", Objs: common(objs), Opts: p.DefaultOptions()}
}

// BaseGRPCTLS: GRPCRoute with method/header matches and header filters, TLS passthrough listener and
// TLSRoute, HTTPS listener on the same port (shared port sockets), BackendTLSPolicy with system CAs,
// NginxProxy in ProxyProtocol mode, cross-namespace backend with a ReferenceGrant.
func BaseGRPCTLS() Base {
	var objs []client.Object
	objs = append(objs, gatewayClass(), nginxProxy(ngfAPI.RewriteClientIPModeProxyProtocol, ngfAPI.IPv4))
	gw := p.Gateway("default", "gw", p.DefaultClass, 1,
		p.Listener{Name: "http", Port: 80, Protocol: "HTTP", FromNS: "All"},
		p.Listener{Name: "tls", Port: 443, Protocol: "TLS", Hostname: "*.tls.example.com", FromNS: "Selector", Selector: map[string]string{"team": "a"}},
		p.Listener{Name: "https", Port: 443, Protocol: "HTTPS", Hostname: "secure.example.com", CertRefs: []string{"cert"}},
	)
	objs = append(objs, gw)

	gr := p.GRPCRoute("default", "gr", 2, []gatewayv1.ParentReference{p.ParentRef("", "gw", "")}, []string{"grpc.example.com"},
		gatewayv1.GRPCRouteRule{
			Matches: []gatewayv1.GRPCRouteMatch{{
				Method:  &gatewayv1.GRPCMethodMatch{Type: ptr(gatewayv1.GRPCMethodMatchExact), Service: ptr("helloworld.Greeter"), Method: ptr("SayHello")},
				Headers: []gatewayv1.GRPCHeaderMatch{{Type: ptr(gatewayv1.GRPCHeaderMatchExact), Name: "X-Grpc", Value: "yes"}},
			}},
			Filters: []gatewayv1.GRPCRouteFilter{
				{Type: gatewayv1.GRPCRouteFilterRequestHeaderModifier, RequestHeaderModifier: &gatewayv1.HTTPHeaderFilter{
					Add: []gatewayv1.HTTPHeader{hdr("G-Add", "gaddval")}, Set: []gatewayv1.HTTPHeader{hdr("G-Set", "gsetval")}, Remove: []string{"G-Remove"},
				}},
				{Type: gatewayv1.GRPCRouteFilterResponseHeaderModifier, ResponseHeaderModifier: &gatewayv1.HTTPHeaderFilter{
					Add: []gatewayv1.HTTPHeader{hdr("GR-Add", "graddval")}, Set: []gatewayv1.HTTPHeader{hdr("GR-Set", "grsetval")}, Remove: []string{"GR-Remove"},
				}},
			},
			BackendRefs: []gatewayv1.GRPCBackendRef{{BackendRef: p.BackendRef(p.Backend{Ref: "svc2", Port: 443, Weight: -1})}},
		},
		gatewayv1.GRPCRouteRule{
			Matches: []gatewayv1.GRPCRouteMatch{{
				Method: &gatewayv1.GRPCMethodMatch{Type: ptr(gatewayv1.GRPCMethodMatchExact), Service: ptr("other.Svc"), Method: ptr("Do")},
			}},
			BackendRefs: []gatewayv1.GRPCBackendRef{{BackendRef: p.BackendRef(p.Backend{Ref: "team-b/xsvc", Port: 80, Weight: -1})}},
		},
	)
	objs = append(objs, gr)

	tr := p.TLSRoute("default", "tr", 3, []gatewayv1.ParentReference{p.ParentRef("", "gw", "tls")}, []string{"app.tls.example.com"},
		p.Backend{Ref: "svc1", Port: 80, Weight: -1})
	objs = append(objs, tr)

	// a small HTTPRoute on the HTTPS listener so that the shared-port (socket) server has locations
	hr := p.HTTPRoute("default", "hs", 4, []gatewayv1.ParentReference{p.ParentRef("", "gw", "https")}, []string{"secure.example.com"},
		p.HTTPRule([]gatewayv1.HTTPRouteMatch{p.PathMatch("PathPrefix", "/")}, p.Backend{Ref: "svc3", Port: 80, Weight: -1}))
	objs = append(objs, hr)

	btp := &v1alpha3.BackendTLSPolicy{ObjectMeta: p.Meta("default", "btp", 5)}
	btp.Spec.TargetRefs = []v1alpha2.LocalPolicyTargetReferenceWithSectionName{{
		LocalPolicyTargetReference: v1alpha2.LocalPolicyTargetReference{Group: "", Kind: "Service", Name: "svc2"},
		SectionName:                ptr(gatewayv1.SectionName("p443")),
	}}
	btp.Spec.Validation.Hostname = "backend.example.com"
	btp.Spec.Validation.WellKnownCACertificates = ptr(v1alpha3.WellKnownCACertificatesSystem)
	btp.Spec.Validation.SubjectAltNames = []v1alpha3.SubjectAltName{{Type: v1alpha3.HostnameSubjectAltNameType, Hostname: "alt.example.com"}}
	objs = append(objs, btp)

	objs = append(objs,
		p.Namespace("team-b", map[string]string{"team": "b"}),
		p.Service("team-b", "xsvc", 80), p.EndpointSlice("team-b", "xsvc", "a", []int32{80}, "10.9.0.1"),
		p.ReferenceGrant("team-b", "rg", []p.GrantFrom{{Group: gwGroup, Kind: "GRPCRoute", Namespace: "default"}},
			[]p.GrantTo{{Group: "", Kind: "Service", Name: "xsvc"}}),
	)

	obs := &ngfAPIv2.ObservabilityPolicy{ObjectMeta: p.Meta("default", "obs", 6)}
	obs.Spec.TargetRefs = []v1alpha2.LocalPolicyTargetReference{{Group: gwGroup, Kind: "GRPCRoute", Name: "gr"}}
	obs.Spec.Tracing = &ngfAPIv2.Tracing{Strategy: ngfAPIv2.TraceStrategyParent, Context: ptr(ngfAPIv2.TraceContextPropagate)}
	objs = append(objs, obs)

	csp := &ngfAPI.ClientSettingsPolicy{ObjectMeta: p.Meta("default", "csp", 7)}
	csp.Spec.TargetRef = v1alpha2.LocalPolicyTargetReference{Group: gwGroup, Kind: "GRPCRoute", Name: "gr"}
	csp.Spec.KeepAlive = &ngfAPI.ClientKeepAlive{Timeout: &ngfAPI.ClientKeepAliveTimeout{Server: ptr(ngfAPI.Duration("10s"))}}
	objs = append(objs, csp)

	opts := p.DefaultOptions()
	return Base{Name: "grpctls", Objs: common(objs), Opts: opts}
}

// Variant is a "surrounding validity" pre-mutation applied to a base before the leaf is replaced.
type Variant struct {
	Name  string
	Apply func(objs []client.Object)
}

func find[T client.Object](objs []client.Object) (T, bool) {
	var zero T
	for _, o := range objs {
		if t, ok := o.(T); ok {
			return t, true
		}
	}
	return zero, false
}

func Variants() []Variant {
	return []Variant{
		{Name: "valid", Apply: func([]client.Object) {}},
		// NginxProxy found invalid by validateNginxProxy: none of its settings may be rendered
		{Name: "invalid-nginxproxy", Apply: func(objs []client.Object) {
			if np, ok := find[*ngfAPI.NginxProxy](objs); ok {
				np.Spec.IPFamily = ptr(ngfAPI.IPFamilyType("ipv5"))
			}
		}},
		// one rule of each route is invalid (relative path / unsupported method type): the route is
		// partially invalid, the other rules are still rendered
		{Name: "partially-invalid-route", Apply: func(objs []client.Object) {
			for _, o := range objs {
				switch r := o.(type) {
				case *gatewayv1.HTTPRoute:
					r.Spec.Rules = append(r.Spec.Rules, p.HTTPRule([]gatewayv1.HTTPRouteMatch{p.PathMatch("PathPrefix", "relative;path")},
						p.Backend{Ref: "svc1", Port: 80, Weight: -1}))
				case *gatewayv1.GRPCRoute:
					r.Spec.Rules = append(r.Spec.Rules, gatewayv1.GRPCRouteRule{
						Matches: []gatewayv1.GRPCRouteMatch{{Method: &gatewayv1.GRPCMethodMatch{
							Type: ptr(gatewayv1.GRPCMethodMatchRegularExpression), Service: ptr("a;b"), Method: ptr("c"),
						}}},
						BackendRefs: []gatewayv1.GRPCBackendRef{{BackendRef: p.BackendRef(p.Backend{Ref: "svc1", Port: 80, Weight: -1})}},
					})
				}
			}
		}},
		// NGINX Plus flag on (status_zone holes, state files)
		{Name: "plus", Apply: nil},
	}
}

// BaseExtras: the string fields of features NGF does not implement (timeouts, retry, session persistence,
// request mirror, extension refs, infrastructure, addresses of unsupported type, SAN lists, backendRef
// filters, port/sectionName combinations). Each sits in its own rule so that the rest is still rendered.
func BaseExtras() Base {
	var objs []client.Object
	gc := gatewayClass()
	gc.Spec.ParametersRef.Namespace = ptr(gatewayv1.Namespace("ignored-ns"))
	objs = append(objs, gc, nginxProxy(ngfAPI.RewriteClientIPModeXForwardedFor, ngfAPI.Dual))
	gw := p.Gateway("default", "gw", p.DefaultClass, 1,
		p.Listener{Name: "http", Port: 8080, Protocol: "HTTP"},
		p.Listener{Name: "named", Port: 8080, Protocol: "HTTP", Hostname: "named.example.com"},
	)
	gw.Spec.Infrastructure = &gatewayv1.GatewayInfrastructure{
		Labels:        map[gatewayv1.LabelKey]gatewayv1.LabelValue{"infra-label": "lv"},
		Annotations:   map[gatewayv1.AnnotationKey]gatewayv1.AnnotationValue{"infra/anno": "av"},
		ParametersRef: &gatewayv1.LocalParametersReference{Group: "example.com", Kind: "Params", Name: "p"},
	}
	gw.Labels = map[string]string{"gw-label": "x"}
	gw.Annotations = map[string]string{"gw/annotation": "y"}
	objs = append(objs, gw)

	r0 := p.HTTPRule([]gatewayv1.HTTPRouteMatch{p.PathMatch("PathPrefix", "/a")}, p.Backend{Ref: "svc1", Port: 80, Weight: -1})
	r0.Timeouts = &gatewayv1.HTTPRouteTimeouts{Request: ptr(gatewayv1.Duration("10s")), BackendRequest: ptr(gatewayv1.Duration("5s"))}
	r0.Retry = &gatewayv1.HTTPRouteRetry{Codes: []gatewayv1.HTTPRouteRetryStatusCode{503}, Attempts: ptr(2), Backoff: ptr(gatewayv1.Duration("100ms"))}
	r0.SessionPersistence = &gatewayv1.SessionPersistence{
		SessionName: ptr("sess"), AbsoluteTimeout: ptr(gatewayv1.Duration("1h")), IdleTimeout: ptr(gatewayv1.Duration("10m")),
		Type: ptr(gatewayv1.CookieBasedSessionPersistence), CookieConfig: &gatewayv1.CookieConfig{LifetimeType: ptr(gatewayv1.SessionCookieLifetimeType)},
	}
	r0.BackendRefs[0].Filters = []gatewayv1.HTTPRouteFilter{{Type: gatewayv1.HTTPRouteFilterRequestHeaderModifier,
		RequestHeaderModifier: &gatewayv1.HTTPHeaderFilter{Set: []gatewayv1.HTTPHeader{hdr("B-Set", "bval")}}}}
	r1 := p.HTTPRule([]gatewayv1.HTTPRouteMatch{p.PathMatch("PathPrefix", "/m")}, p.Backend{Ref: "svc1", Port: 80, Weight: -1})
	r1.Filters = []gatewayv1.HTTPRouteFilter{{Type: gatewayv1.HTTPRouteFilterRequestMirror, RequestMirror: &gatewayv1.HTTPRequestMirrorFilter{
		BackendRef: p.BackendRef(p.Backend{Ref: "svc3", Port: 80, Weight: -1}).BackendObjectReference}}}
	r2 := p.HTTPRule([]gatewayv1.HTTPRouteMatch{p.PathMatch("PathPrefix", "/e")}, p.Backend{Ref: "svc1", Port: 80, Weight: -1})
	r2.Filters = []gatewayv1.HTTPRouteFilter{{Type: gatewayv1.HTTPRouteFilterExtensionRef,
		ExtensionRef: &gatewayv1.LocalObjectReference{Group: ngfAPI.GroupName, Kind: "SnippetsFilter", Name: "sf"}}}
	r3 := p.HTTPRule([]gatewayv1.HTTPRouteMatch{{
		Path:        &gatewayv1.HTTPPathMatch{Type: ptr(gatewayv1.PathMatchRegularExpression), Value: ptr("/re.*")},
		Headers:     []gatewayv1.HTTPHeaderMatch{{Type: ptr(gatewayv1.HeaderMatchRegularExpression), Name: "X-Re", Value: "v.*"}},
		QueryParams: []gatewayv1.HTTPQueryParamMatch{{Type: ptr(gatewayv1.QueryParamMatchRegularExpression), Name: "q", Value: "v.*"}},
	}}, p.Backend{Ref: "svc1", Port: 80, Weight: -1})
	r4 := p.HTTPRule([]gatewayv1.HTTPRouteMatch{p.PathMatch("Exact", "/plain"), p.PathMatch("PathPrefix", "/plain")},
		p.Backend{Ref: "svc2", Port: 80, Weight: 1}, p.Backend{Ref: "nosuch", Port: 80, Weight: 1}, p.Backend{Ref: "svc3", Port: 81, Weight: 1},
		p.Backend{Ref: "svc3", Port: 80, Weight: 0, Kind: "Other", Group: "example.com"})
	hr := p.HTTPRoute("default", "ex", 2,
		[]gatewayv1.ParentReference{p.ParentRef("", "gw", ""), p.ParentRef("default", "gw", "named")},
		[]string{"ex.example.com", "*.wild.example.com"}, r0, r1, r2, r3, r4)
	hr.Spec.ParentRefs[1].Port = ptr(gatewayv1.PortNumber(8080))
	hr.Labels = map[string]string{"route-label": "l"}
	hr.Annotations = map[string]string{"route/annotation": "a"}
	objs = append(objs, hr)

	// a second route on the same hostname and path (conflict resolution by age), with a policy on it
	hr2 := p.HTTPRoute("default", "ex2", 3, []gatewayv1.ParentReference{p.ParentRef("", "gw", "http")}, []string{"ex.example.com"},
		p.HTTPRule([]gatewayv1.HTTPRouteMatch{p.PathMatch("PathPrefix", "/a")}, p.Backend{Ref: "svc3", Port: 80, Weight: -1}))
	objs = append(objs, hr2)

	btp := &v1alpha3.BackendTLSPolicy{ObjectMeta: p.Meta("default", "btp", 5)}
	btp.Spec.TargetRefs = []v1alpha2.LocalPolicyTargetReferenceWithSectionName{
		{LocalPolicyTargetReference: v1alpha2.LocalPolicyTargetReference{Group: "", Kind: "Service", Name: "svc2"}},
		{LocalPolicyTargetReference: v1alpha2.LocalPolicyTargetReference{Group: "", Kind: "Service", Name: "svc3"}},
	}
	btp.Spec.Validation.Hostname = "backend.example.com"
	btp.Spec.Validation.CACertificateRefs = []gatewayv1.LocalObjectReference{{Group: "", Kind: "ConfigMap", Name: "ca-bundle"}}
	btp.Spec.Validation.SubjectAltNames = []v1alpha3.SubjectAltName{
		{Type: v1alpha3.HostnameSubjectAltNameType, Hostname: "alt.example.com"},
		{Type: v1alpha3.URISubjectAltNameType, URI: "spiffe://example.com/ns/default"},
	}
	objs = append(objs, btp)

	usp := &ngfAPI.UpstreamSettingsPolicy{ObjectMeta: p.Meta("default", "usp", 7)}
	usp.Spec.TargetRefs = []v1alpha2.LocalPolicyTargetReference{{Group: "core", Kind: "Service", Name: "svc1"}, {Group: "", Kind: "Service", Name: "svc3"}}
	usp.Spec.ZoneSize = ptr(ngfAPI.Size("2m"))
	objs = append(objs, usp)

	obs := &ngfAPIv2.ObservabilityPolicy{ObjectMeta: p.Meta("default", "obs", 8)}
	obs.Spec.TargetRefs = []v1alpha2.LocalPolicyTargetReference{{Group: gwGroup, Kind: "HTTPRoute", Name: "ex"}, {Group: gwGroup, Kind: "HTTPRoute", Name: "ex2"}}
	obs.Spec.Tracing = &ngfAPIv2.Tracing{Strategy: ngfAPIv2.TraceStrategyRatio, SpanName: ptr("span two"),
		SpanAttributes: []ngfAPI.SpanAttribute{{Key: "k1", Value: "v1"}, {Key: "k2", Value: "v 2"}}}
	objs = append(objs, obs)

	return Base{Name: "extras", Objs: common(objs), Opts: p.DefaultOptions()}
}

func Bases() []Base { return []Base{BaseHTTP(), BaseGRPCTLS(), BaseExtras()} }
