package c04

import "bufio"

// Validators is filled in by validators_impl.go.
func Validators(w *bufio.Writer, seed uint64, n int) { validatorsImpl(w, seed, n) }
