package c04

import (
	"fmt"
	"strings"
)

// Dump prints the files and conditions of a base scenario (debug aid).
func Dump(b Base) {
	Verbose = true
	r := doRun(b.Objs, b.Opts)
	for _, f := range r.Files {
		if f.Type == 0 {
			fmt.Println("#### ", f.Path)
			fmt.Println(string(f.Content))
		}
	}
	for _, c := range r.Conds {
		fmt.Println(c)
	}
	fmt.Println(r.Panic)
}

// Probe sets one leaf (first whose path contains `only`) of base `baseName` to value and prints the
// lines of the generated files that differ from the unmodified base, plus new conditions (replay aid).
func Probe(baseName, only, value string) {
	for _, b := range Bases() {
		if b.Name != baseName {
			continue
		}
		r0 := doRun(b.Objs, b.Opts)
		for _, l := range Leaves(b.Objs) {
			if !strings.Contains(l.Path, only) {
				continue
			}
			o := CopyObjs(b.Objs)
			SetLeaf(o[l.Obj], l.Path, value)
			r := doRun(o, b.Opts)
			fmt.Printf("leaf %s: %q -> %q\n", l.Path, l.Value, value)
			base := map[string]map[string]bool{}
			for _, f := range r0.Files {
				m := map[string]bool{}
				for _, ln := range strings.Split(string(f.Content), "\n") {
					m[ln] = true
				}
				base[f.Path] = m
			}
			for _, f := range r.Files {
				if f.Type != 0 {
					continue
				}
				for _, ln := range strings.Split(string(f.Content), "\n") {
					if !base[f.Path][ln] {
						fmt.Printf("  + %s: %s\n", f.Path, ln)
					}
				}
			}
			for _, c := range diffConds(r.Conds, r0.Conds) {
				fmt.Println("  cond+", c)
			}
			if r.Panic != "" {
				fmt.Println("  PANIC", r.Panic[:200])
			}
			return
		}
	}
}
