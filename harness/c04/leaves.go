package c04

import (
	"fmt"
	"reflect"
	"sort"
	"strings"

	"sigs.k8s.io/controller-runtime/pkg/client"

	p "github.com/nginx/nginx-gateway-fabric/verifharness/pipeline"
)

// Leaf is one string-typed leaf of an object: a field of kind string (including named string types),
// an element of a []string, a map key or a map value of kind string, or a *string (nil or not).
type Leaf struct {
	Obj   int    // index of the object in the scenario
	Kind  string // Kind of the object
	Path  string // Kind.json.path[0].field ; map entries as field{key} (value) / field{key}#key (key)
	Value string // current value ("" for a nil pointer)
	Nil   bool   // the leaf is a nil *string
	Type  string // Go type name of the leaf (for the evidence histogram)
	Meta  bool   // metadata.name / metadata.namespace (syntax enforced by the API server itself)
	Ptr   bool   // the leaf is a *string (nil and "" are different values)
}

// Generic identifies the leaf independent of slice indices and map keys (used for signatures).
func (l Leaf) Generic() string {
	var b strings.Builder
	depth := 0
	for _, c := range l.Path {
		switch {
		case c == '[' || c == '{':
			depth++
			b.WriteRune(c)
		case c == ']' || c == '}':
			depth--
			b.WriteRune(c)
		case depth > 0:
		default:
			b.WriteRune(c)
		}
	}
	return b.String()
}

type visitor func(path string, v reflect.Value, set func(string), isNil bool)

func jsonName(f reflect.StructField) (string, bool) {
	tag := f.Tag.Get("json")
	name := strings.Split(tag, ",")[0]
	inline := strings.Contains(tag, ",inline") || (f.Anonymous && name == "")
	if name == "" {
		name = f.Name
	}
	return name, inline
}

var metaKeep = map[string]bool{"Name": true, "Namespace": true, "Labels": true, "Annotations": true}

func walk(path string, v reflect.Value, visit visitor) {
	switch v.Kind() {
	case reflect.String:
		if v.CanSet() {
			vv := v
			visit(path, vv, func(s string) { vv.SetString(s) }, false)
		}
	case reflect.Ptr:
		if v.Type().Elem().Kind() == reflect.String {
			vv := v
			if v.IsNil() {
				visit(path, reflect.Zero(v.Type().Elem()), func(s string) {
					nv := reflect.New(vv.Type().Elem())
					nv.Elem().SetString(s)
					vv.Set(nv)
				}, true)
			} else {
				ev := v.Elem()
				visit(path+"\x00ptr", ev, func(s string) {
					if s == nilValue {
						vv.Set(reflect.Zero(vv.Type()))
						return
					}
					ev.SetString(s)
				}, false)
			}
			return
		}
		if !v.IsNil() {
			walk(path, v.Elem(), visit)
		}
	case reflect.Struct:
		t := v.Type()
		isMeta := t.PkgPath() == "k8s.io/apimachinery/pkg/apis/meta/v1" && t.Name() == "ObjectMeta"
		if t.PkgPath() == "k8s.io/apimachinery/pkg/apis/meta/v1" && (t.Name() == "TypeMeta" || t.Name() == "Time") {
			return
		}
		for i := 0; i < t.NumField(); i++ {
			f := t.Field(i)
			if !f.IsExported() {
				continue
			}
			if isMeta && !metaKeep[f.Name] {
				continue
			}
			name, inline := jsonName(f)
			if f.Name == "Status" && strings.Count(path, ".") == 0 {
				continue
			}
			sub := path + "." + name
			if inline {
				sub = path
			}
			walk(sub, v.Field(i), visit)
		}
	case reflect.Slice:
		if v.Type().Elem().Kind() == reflect.Uint8 {
			return
		}
		for i := 0; i < v.Len(); i++ {
			walk(fmt.Sprintf("%s[%d]", path, i), v.Index(i), visit)
		}
	case reflect.Map:
		if v.Type().Key().Kind() != reflect.String {
			return
		}
		keys := v.MapKeys()
		sort.Slice(keys, func(i, j int) bool { return keys[i].String() < keys[j].String() })
		for _, k := range keys {
			kk := k
			mv := v
			ev := v.MapIndex(kk)
			// key leaf
			visit(fmt.Sprintf("%s{%s}#key", path, kk.String()), kk, func(s string) {
				old := mv.MapIndex(kk)
				nk := reflect.New(mv.Type().Key()).Elem()
				nk.SetString(s)
				mv.SetMapIndex(kk, reflect.Value{})
				mv.SetMapIndex(nk, old)
			}, false)
			if ev.Kind() == reflect.String {
				visit(fmt.Sprintf("%s{%s}", path, kk.String()), ev, func(s string) {
					nv := reflect.New(mv.Type().Elem()).Elem()
					nv.SetString(s)
					mv.SetMapIndex(kk, nv)
				}, false)
			}
		}
	case reflect.Interface:
		// not used by the supported kinds
	}
}

// nilValue, passed to SetLeaf, resets a *string leaf to nil.
const nilValue = "\x00nil"

// Leaves enumerates every string leaf of every object.
func Leaves(objs []client.Object) []Leaf {
	var out []Leaf
	for i, o := range objs {
		kind := p.KindOf(o)
		walk(kind, reflect.ValueOf(o), func(path string, v reflect.Value, _ func(string), isNil bool) {
			isPtr := isNil
			if strings.HasSuffix(path, "\x00ptr") {
				path = strings.TrimSuffix(path, "\x00ptr")
				isPtr = true
			}
			out = append(out, Leaf{
				Obj: i, Kind: kind, Path: path, Value: v.String(), Nil: isNil, Type: v.Type().String(),
				Meta: path == kind+".metadata.name" || path == kind+".metadata.namespace", Ptr: isPtr,
			})
		})
	}
	return out
}

// SetLeaf replaces the leaf at path in obj (which must be the object the path was enumerated from,
// or a deep copy). Returns false if the path was not found.
func SetLeaf(o client.Object, path, value string) bool {
	done := false
	walk(p.KindOf(o), reflect.ValueOf(o), func(pth string, _ reflect.Value, set func(string), _ bool) {
		if strings.TrimSuffix(pth, "\x00ptr") == path && !done {
			// maps are mutated while being walked: the walk iterates a snapshot of the keys
			set(value)
			done = true
		}
	})
	return done
}

// CopyObjs deep-copies a scenario.
func CopyObjs(objs []client.Object) []client.Object {
	out := make([]client.Object, len(objs))
	for i, o := range objs {
		out[i] = o.DeepCopyObject().(client.Object)
	}
	return out
}
