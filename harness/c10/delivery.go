package c10

// Delivery streams of C10 (producer side of the event loop and the start-up batch).
//
//	-delivery : the real controller.Reconciler (one worker per reconciler, requests in queue order, fake Getter and
//	            name filter) feeding the real events.EventLoop whose start-up (Prepare) is stalled for a generated
//	            time, so that every reconciler is parked in its final select for that long; optionally the manager's
//	            context is cancelled. All cases of one run execute concurrently (the long stall costs its own length).
//	            D qs=.. first=.. ops=..   the schedule in the vocabulary of NGF.Delivery.Sys, rebuilt from what was observed
//	            O from=.. dropped=.. failed=.. skippedids=.. gets=.. ctx=..   what was observed, model's output vocabulary
//	            J qs=.. recv=.. errs=.. cancelled=.. stall=..                 input of the Lean judge
//	-prepare  : the real events.FirstEventBatchPreparerImpl over a fake reader, every present/missing/error combination
//	            of up to 4 individually-fetched objects and lists of 0–3 items (or failing).
//	            P objs=.. lists=..        O batch=..|ERR calls=..

import (
	"bufio"
	"context"
	"errors"
	"fmt"
	"os"
	"sort"
	"strconv"
	"strings"
	"sync"
	"time"

	"github.com/go-logr/logr"
	apiv1 "k8s.io/api/core/v1"
	apierrors "k8s.io/apimachinery/pkg/api/errors"
	"k8s.io/apimachinery/pkg/runtime/schema"
	"k8s.io/apimachinery/pkg/types"
	"sigs.k8s.io/controller-runtime/pkg/client"
	"sigs.k8s.io/controller-runtime/pkg/reconcile"

	"github.com/nginx/nginx-gateway-fabric/internal/framework/controller"
	"github.com/nginx/nginx-gateway-fabric/internal/framework/events"
	"github.com/nginx/nginx-gateway-fabric/verifharness/rng"
)

// ---------------------------------------------------------------------------------------------- delivery

// dreq is ONE invocation of Reconcile. A request whose Get fails is requeued by controller-runtime: the worker invokes
// Reconcile again for the same request, so a request is a run of consecutive entries with the same id (the scripted Get
// results of its attempts), and an entry that follows an entry of the same id is invoked only if that one returned an error.
type dreq struct {
	id   int
	pass bool
	get  byte // 'f' found, 'n' NotFound; errors: 'e' plain, 'd' wraps context.DeadlineExceeded, 'c' wraps context.Canceled
}

func isErrClass(g byte) bool { return g == 'e' || g == 'd' || g == 'c' }

func (q dreq) String() string {
	p := 0
	if q.pass {
		p = 1
	}
	return fmt.Sprintf("%d:%d:%c", q.id, p, q.get)
}

// evCode: the model's encoding of events (upsert id = 2*id, delete id = 2*id+1); undecodable = huge.
func evCode(e interface{}) int {
	switch x := e.(type) {
	case *events.UpsertEvent:
		if v := idFromName(x.Resource.GetName()); v >= 0 {
			return 2 * v
		}
	case *events.DeleteEvent:
		if _, ok := x.Type.(*apiv1.ConfigMap); ok {
			if v := idFromName(x.NamespacedName.Name); v >= 0 {
				return 2*v + 1
			}
		}
	}
	return 1999999
}

func (q dreq) ev() (int, bool) {
	if !q.pass || isErrClass(q.get) {
		return 0, false
	}
	if q.get == 'n' {
		return 2*q.id + 1, true
	}
	return 2 * q.id, true
}

type dworld struct {
	mu      sync.Mutex
	script  map[int][]dreq // per request id: the Get result of each attempt
	att     map[int]int
	gets    []int
	filters []int // ids rejected by the filter
}

func (w *dworld) Get(_ context.Context, key client.ObjectKey, obj client.Object, _ ...client.GetOption) error {
	id := idFromName(key.Name)
	w.mu.Lock()
	w.gets = append(w.gets, id)
	sc := w.script[id]
	a := w.att[id]
	w.att[id]++
	w.mu.Unlock()
	if len(sc) == 0 {
		return errors.New("unknown object")
	}
	if a >= len(sc) {
		a = len(sc) - 1
	}
	// errors are returned although the caller's context is alive (client-side timeout, cache not synced, …)
	switch sc[a].get {
	case 'n':
		return apierrors.NewNotFound(schema.GroupResource{Resource: "configmaps"}, key.Name)
	case 'e':
		return errors.New("api server unavailable")
	case 'd':
		return fmt.Errorf("get %s: client rate limiter Wait returned an error: %w", key.Name, context.DeadlineExceeded)
	case 'c':
		return fmt.Errorf("get %s: informer cache not started: %w", key.Name, context.Canceled)
	}
	cm, ok := obj.(*apiv1.ConfigMap)
	if !ok {
		return fmt.Errorf("unexpected type %T", obj)
	}
	cm.Namespace, cm.Name = key.Namespace, key.Name
	return nil
}

func (w *dworld) filter(nsname types.NamespacedName) (bool, string) {
	id := idFromName(nsname.Name)
	w.mu.Lock()
	defer w.mu.Unlock()
	if sc := w.script[id]; len(sc) > 0 && !sc[0].pass {
		w.filters = append(w.filters, id)
		return false, "ignored"
	}
	return true, ""
}

type stallPreparer struct {
	d     time.Duration
	first events.EventBatch
}

func (p stallPreparer) Prepare(context.Context) (events.EventBatch, error) {
	time.Sleep(p.d) // the start-up listing takes this long; nobody reads the event channel meanwhile
	return p.first, nil
}

type recHandler struct {
	mu      sync.Mutex
	batches [][]int
}

func (h *recHandler) HandleEventBatch(_ context.Context, _ logr.Logger, batch events.EventBatch) {
	codes := make([]int, 0, len(batch))
	for _, e := range batch {
		codes = append(codes, evCode(e))
	}
	h.mu.Lock()
	h.batches = append(h.batches, codes)
	h.mu.Unlock()
}

func (h *recHandler) flat() (int, []int) {
	h.mu.Lock()
	defer h.mu.Unlock()
	var out []int
	for i, b := range h.batches {
		if i == 0 {
			continue
		}
		out = append(out, b...)
	}
	return len(h.batches), out
}

type dcase struct {
	qs       [][]dreq
	stallMs  int
	cancelMs int // -1: the context is cancelled only after everything was handled
	filtered bool
}

func genDCase(r *rng.R, stallMs int, allowCancel bool) dcase {
	c := dcase{stallMs: stallMs, cancelMs: -1}
	w := r.Range(1, 3)
	for i := 0; i < w; i++ {
		n := r.Range(1, 4)
		var q []dreq
		errClasses := []byte{'e', 'd', 'c'}
		for k := 0; k < n; k++ {
			d := dreq{id: i*1000 + k + 1, pass: !r.Chance(12, 100), get: 'f'}
			x := r.Intn(100)
			if x < 30 {
				d.get = 'n'
			}
			if x >= 88 { // the Get keeps failing: the request ends with an error (requeue budget of the test exhausted)
				for a := r.Range(1, 2); a > 0; a-- {
					q = append(q, dreq{id: d.id, pass: d.pass, get: rng.Pick(r, errClasses)})
					if !d.pass {
						break
					}
				}
				continue
			}
			if d.pass { // transient failures of the first attempts, then the object (or NotFound)
				t := 0
				switch y := r.Intn(100); {
				case y < 10:
					t = 2
				case y < 40:
					t = 1
				}
				for ; t > 0; t-- {
					q = append(q, dreq{id: d.id, pass: true, get: rng.Pick(r, errClasses)})
				}
			}
			q = append(q, d)
		}
		c.qs = append(c.qs, q)
	}
	if allowCancel && r.Chance(30, 100) {
		c.cancelMs = r.Intn(stallMs + 40)
	}
	return c
}

func qsString(qs [][]dreq) string {
	parts := make([]string, len(qs))
	for i, q := range qs {
		s := make([]string, len(q))
		for k, d := range q {
			s[k] = d.String()
		}
		parts[i] = strings.Join(s, ",")
		if len(q) == 0 {
			parts[i] = "-"
		}
	}
	return strings.Join(parts, "|")
}

type outcome struct {
	returned bool
	err      bool
	ms       int64
}

// runDCase executes one delivery case on the real Reconciler and EventLoop.
func runDCase(c dcase) (line string) {
	defer func() {
		if p := recover(); p != nil {
			line = fmt.Sprintf("X panic: %v", p)
		}
	}()
	w := &dworld{script: map[int][]dreq{}, att: map[int]int{}}
	for _, q := range c.qs {
		for _, d := range q {
			w.script[d.id] = append(w.script[d.id], d)
		}
	}
	ch := make(chan interface{})
	h := &recHandler{}
	first := events.EventBatch{&events.UpsertEvent{Resource: &apiv1.ConfigMap{}}}
	el := events.NewEventLoop(ch, logr.Discard(), h, stallPreparer{d: time.Duration(c.stallMs) * time.Millisecond, first: first})
	ctx, cancel := context.WithCancel(context.Background())
	defer cancel()
	t0 := time.Now()
	startDone := make(chan error, 1)
	go func() { startDone <- el.Start(ctx) }()

	outs := make([][]outcome, len(c.qs))
	var wg sync.WaitGroup
	for i, q := range c.qs {
		outs[i] = make([]outcome, len(q))
		rec := controller.NewReconciler(controller.ReconcilerConfig{
			Getter: w, ObjectType: &apiv1.ConfigMap{}, EventCh: ch, NamespacedNameFilter: w.filter,
		})
		wg.Add(1)
		go func(i int, q []dreq) { // the controller's single worker: one Reconcile at a time, in queue order
			defer wg.Done()
			prevID, prevErr := -1, false
			for k, d := range q {
				if d.id == prevID && !prevErr {
					continue // controller-runtime requeues a request only when Reconcile returned an error
				}
				func() {
					defer func() { _ = recover() }()
					_, err := rec.Reconcile(ctx, reconcile.Request{NamespacedName: types.NamespacedName{Namespace: "ns", Name: "obj-" + strconv.Itoa(d.id)}})
					outs[i][k] = outcome{returned: true, err: err != nil, ms: time.Since(t0).Milliseconds()}
					prevID, prevErr = d.id, err != nil
				}()
			}
		}(i, c.qs[i])
	}
	cancelled := false
	var cancelTimer *time.Timer
	var cmu sync.Mutex
	if c.cancelMs >= 0 {
		cancelTimer = time.AfterFunc(time.Duration(c.cancelMs)*time.Millisecond, func() {
			cancel()
			cmu.Lock()
			cancelled = true
			cmu.Unlock()
		})
		defer cancelTimer.Stop()
	}
	workersDone := make(chan struct{})
	go func() { wg.Wait(); close(workersDone) }()
	select {
	case <-workersDone:
	case <-time.After(time.Duration(c.stallMs)*time.Millisecond + 10*time.Second):
		cancel()
		return "X workers did not finish"
	}
	want := 0
	for _, q := range c.qs {
		for _, d := range q {
			if _, ok := d.ev(); ok {
				want++
			}
		}
	}
	fired := cancelTimer != nil && !cancelTimer.Stop()
	if fired {
		// the manager's context was (or is being) cancelled by the case: wait for the flag
		for k := 0; k < 20000; k++ {
			cmu.Lock()
			f := cancelled
			cmu.Unlock()
			if f {
				break
			}
			time.Sleep(50 * time.Microsecond)
		}
	} else {
		// no cancellation: every Reconcile has returned, i.e. the loop has received whatever was sent;
		// wait for the handler to have seen it
		deadline := time.Now().Add(8 * time.Second)
		for time.Now().Before(deadline) {
			if _, f := h.flat(); len(f) >= want {
				break
			}
			time.Sleep(200 * time.Microsecond)
		}
	}
	cancel()
	select {
	case <-startDone:
	case <-time.After(6 * time.Second):
		return "X Start did not return after cancel"
	}
	// events still in nextBatch at shutdown are not handled (the loop is stopping): only cancel cases
	_, recv := h.flat()
	cmu.Lock()
	wasCancelled := cancelled
	cmu.Unlock()

	// ---- observation in the model's vocabulary
	inRecv := map[int]bool{}
	for _, e := range recv {
		inRecv[e] = true
	}
	W := len(c.qs)
	from := make([][]int, W)
	for _, e := range recv {
		i := e / 2000
		if i < W {
			from[i] = append(from[i], e)
		}
	}
	dropped, failed := make([][]int, W), make([][]int, W)
	var errs []int
	minRet := int64(-1)
	for i, q := range c.qs {
		for k, d := range q {
			o := outs[i][k]
			if e, ok := d.ev(); ok {
				if minRet < 0 || o.ms < minRet {
					minRet = o.ms
				}
				if !inRecv[e] && !o.err {
					dropped[i] = append(dropped[i], e)
				}
			}
			if o.err {
				failed[i] = append(failed[i], d.id)
				errs = append(errs, d.id)
			}
		}
	}
	skippedIDs := make([][]int, W)
	w.mu.Lock()
	for _, id := range w.filters {
		if id/1000 < W && id >= 0 {
			skippedIDs[id/1000] = append(skippedIDs[id/1000], id)
		}
	}
	gets := append([]int(nil), w.gets...)
	w.mu.Unlock()
	sort.Ints(gets)

	// ---- the schedule, rebuilt: begins as early as possible, deliveries in the order the loop received them,
	// give-ups of a reconciler just before its next delivery (or at the end)
	var ops []string
	next := make([]int, W) // index of the request reconciler i is working on / will start
	cEmitted := false
	begin := func(i int) { // start requests until one parks in the select (or the queue is empty)
		for next[i] < len(c.qs[i]) {
			ops = append(ops, "b"+strconv.Itoa(i))
			if _, ok := c.qs[i][next[i]].ev(); ok {
				return
			}
			next[i]++
		}
	}
	giveupsBefore := func(i int, target int) { // requests of i before `target` that were not delivered
		for next[i] < len(c.qs[i]) {
			e, _ := c.qs[i][next[i]].ev()
			if e == target {
				return
			}
			if wasCancelled && !cEmitted {
				ops = append(ops, "c")
				cEmitted = true
			}
			ops = append(ops, "g"+strconv.Itoa(i))
			next[i]++
			begin(i)
		}
	}
	for i := 0; i < W; i++ {
		begin(i)
	}
	for _, e := range recv {
		i := e / 2000
		if i >= W {
			ops = append(ops, "d9:"+strconv.Itoa(e)) // an event nobody sent: never enabled in the model
			continue
		}
		giveupsBefore(i, e)
		ops = append(ops, "d"+strconv.Itoa(i)+":"+strconv.Itoa(e))
		if next[i] < len(c.qs[i]) {
			next[i]++
		}
		begin(i)
	}
	for i := 0; i < W; i++ {
		giveupsBefore(i, -1)
	}
	if wasCancelled && !cEmitted {
		ops = append(ops, "c")
	}
	cx := 0
	if wasCancelled {
		cx = 1
	}
	opstr := strings.Join(ops, ",")
	if opstr == "" {
		opstr = "-"
	}
	qss := qsString(c.qs)
	return fmt.Sprintf("D qs=%s first=0 ops=%s\tO from=%s dropped=%s failed=%s skippedids=%s gets=%s ctx=%d\tJ qs=%s recv=%s errs=%s cancelled=%d stall=%d minret=%d",
		qss, opstr, natLists(from), natLists(dropped), natLists(failed), natLists(skippedIDs), natList(gets), cx,
		qss, natList(recv), natList(errs), cx, c.stallMs, minRet)
}

func runDelivery(seed uint64, n int, longStalls []int, maxStall int) int {
	r := rng.New(seed)
	var cases []dcase
	for _, ms := range longStalls {
		cases = append(cases, genDCase(r.Fork(), ms, false))
	}
	for i := 0; i < n; i++ {
		cr := r.Fork()
		cases = append(cases, genDCase(cr, cr.Intn(maxStall+1), true))
	}
	lines := make([]string, len(cases))
	sem := make(chan struct{}, 48)
	var wg sync.WaitGroup
	for i := range cases {
		wg.Add(1)
		go func(i int) {
			defer wg.Done()
			if i >= len(longStalls) { // the long cases start at once; the others share 48 slots
				sem <- struct{}{}
				defer func() { <-sem }()
			}
			lines[i] = runDCase(cases[i])
		}(i)
	}
	wg.Wait()
	w := bufio.NewWriter(os.Stdout)
	defer w.Flush()
	for _, l := range lines {
		fmt.Fprintln(w, l)
	}
	return 0
}

// ---------------------------------------------------------------------------------------------- prepare

type pobj struct {
	id  int
	get byte
}

type plist struct {
	items []int
	fail  bool
}

type preader struct {
	objs  map[int]byte
	lists map[client.ObjectList]int
	spec  []plist
	calls []int
}

func (p *preader) Get(_ context.Context, key client.ObjectKey, obj client.Object, _ ...client.GetOption) error {
	id := idFromName(key.Name)
	p.calls = append(p.calls, 2*id)
	switch p.objs[id] {
	case 'n':
		return apierrors.NewNotFound(schema.GroupResource{Resource: "configmaps"}, key.Name)
	case 'e':
		return errors.New("api server unavailable")
	}
	obj.SetNamespace(key.Namespace)
	obj.SetName(key.Name)
	return nil
}

func (p *preader) List(_ context.Context, list client.ObjectList, _ ...client.ListOption) error {
	j, ok := p.lists[list]
	if !ok {
		p.calls = append(p.calls, 999999)
		return errors.New("unknown list")
	}
	p.calls = append(p.calls, 2*j+1)
	if p.spec[j].fail {
		return errors.New("api server unavailable")
	}
	switch l := list.(type) {
	case *apiv1.ConfigMapList:
		for _, id := range p.spec[j].items {
			cm := apiv1.ConfigMap{}
			cm.Namespace, cm.Name = "ns", "obj-"+strconv.Itoa(id)
			l.Items = append(l.Items, cm)
		}
	case *apiv1.SecretList:
		for _, id := range p.spec[j].items {
			s := apiv1.Secret{}
			s.Namespace, s.Name = "ns", "obj-"+strconv.Itoa(id)
			l.Items = append(l.Items, s)
		}
	case *apiv1.ServiceList:
		for _, id := range p.spec[j].items {
			s := apiv1.Service{}
			s.Namespace, s.Name = "ns", "obj-"+strconv.Itoa(id)
			l.Items = append(l.Items, s)
		}
	}
	return nil
}

func runPCase(objs []pobj, lists []plist) (line string) {
	var os_, ls []string
	for _, o := range objs {
		os_ = append(os_, fmt.Sprintf("%d:%c", o.id, o.get))
	}
	for _, l := range lists {
		switch {
		case l.fail:
			ls = append(ls, "E")
		default:
			ls = append(ls, natList(l.items))
		}
	}
	in := "objs=" + strings.Join(os_, ",") + " lists=" + strings.Join(ls, "|")
	if len(objs) == 0 {
		in = "objs=- lists=" + strings.Join(ls, "|")
	}
	if len(lists) == 0 {
		in = strings.Replace(in, "lists=", "lists=~", 1)
	}
	defer func() {
		if p := recover(); p != nil {
			line = fmt.Sprintf("P %s\tO batch=PANIC calls=-", in)
		}
	}()
	rd := &preader{objs: map[int]byte{}, lists: map[client.ObjectList]int{}, spec: lists}
	var cobjs []client.Object
	for k, o := range objs {
		rd.objs[o.id] = o.get
		// individually-fetched objects of different kinds, as in the manager (GatewayClass, Gateway, …)
		var co client.Object
		switch k % 3 {
		case 0:
			co = &apiv1.ConfigMap{}
		case 1:
			co = &apiv1.Secret{}
		default:
			co = &apiv1.Service{}
		}
		co.SetNamespace("ns")
		co.SetName("obj-" + strconv.Itoa(o.id))
		cobjs = append(cobjs, co)
	}
	var clists []client.ObjectList
	for j := range lists {
		var cl client.ObjectList
		switch j % 3 {
		case 0:
			cl = &apiv1.ConfigMapList{}
		case 1:
			cl = &apiv1.SecretList{}
		default:
			cl = &apiv1.ServiceList{}
		}
		rd.lists[cl] = j
		clists = append(clists, cl)
	}
	p := events.NewFirstEventBatchPreparerImpl(rd, cobjs, clists)
	batch, err := p.Prepare(context.Background())
	out := "ERR"
	if err == nil {
		codes := make([]int, 0, len(batch))
		for _, e := range batch {
			codes = append(codes, evCode(e))
		}
		out = natList(codes)
	}
	return fmt.Sprintf("P %s\tO batch=%s calls=%s", in, out, natList(rd.calls))
}

func runPrepare(seed uint64, maxLists int, random int) int {
	w := bufio.NewWriter(os.Stdout)
	defer w.Flush()
	states := []byte{'f', 'n', 'e'}
	// list configurations: every list has 0–3 items or fails
	var listCfgs [][]plist
	var genLists func(cur []plist, nextID int)
	genLists = func(cur []plist, nextID int) {
		cp := append([]plist(nil), cur...)
		listCfgs = append(listCfgs, cp)
		if len(cur) == maxLists {
			return
		}
		for n := 0; n <= 3; n++ {
			items := make([]int, n)
			for k := range items {
				items[k] = nextID + k
			}
			genLists(append(cur, plist{items: items}), nextID+n)
		}
		genLists(append(cur, plist{fail: true}), nextID)
	}
	genLists(nil, 10)
	var objCfgs [][]pobj
	for n := 0; n <= 4; n++ {
		total := 1
		for i := 0; i < n; i++ {
			total *= 3
		}
		for c := 0; c < total; c++ {
			objs := make([]pobj, n)
			x := c
			for i := 0; i < n; i++ {
				objs[i] = pobj{id: i + 1, get: states[x%3]}
				x /= 3
			}
			objCfgs = append(objCfgs, objs)
		}
	}
	for _, o := range objCfgs {
		for _, l := range listCfgs {
			fmt.Fprintln(w, runPCase(o, l))
		}
	}
	// random larger configurations (more objects, more lists, repeated ids across lists)
	r := rng.New(seed)
	for i := 0; i < random; i++ {
		n := r.Range(0, 7)
		objs := make([]pobj, n)
		for k := range objs {
			objs[k] = pobj{id: k + 1, get: states[[]int{0, 0, 0, 1, 1, 2}[r.Intn(6)]]}
			if r.Chance(90, 100) && objs[k].get == 'e' {
				objs[k].get = 'n'
			}
		}
		nl := r.Range(0, 5)
		lists := make([]plist, nl)
		id := 10
		for j := range lists {
			if r.Chance(4, 100) {
				lists[j].fail = true
				continue
			}
			for k := r.Intn(7); k > 0; k-- {
				lists[j].items = append(lists[j].items, id)
				id++
			}
		}
		fmt.Fprintln(w, runPCase(objs, lists))
	}
	return 0
}
