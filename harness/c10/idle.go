package c10

// The "idle" family of the loop stream: a start-up batch, or a burst coalesced while one batch is in flight, of
// 1024..1100 events (large enough to grow a double buffer past any plausible "buffer full" threshold), then several
// further events each offered ONLY after the handler was observed idle. Clause judged: no event waits once the handler
// is idle (an event offered while idle is received and handled within a bounded time), and exactly-once-in-order.

import (
	"context"
	"fmt"
	"runtime"
	"strconv"
	"strings"
	"time"

	"github.com/go-logr/logr"

	"github.com/nginx/nginx-gateway-fabric/internal/framework/events"
	"github.com/nginx/nginx-gateway-fabric/verifharness/rng"
)

// idleGrace is the additional time an event offered to an idle loop is given before it is declared stuck.
const idleGrace = 2 * time.Second

// kind selects the member of the family:
//
//	0: start-up batch of 1024..1100 events, no burst
//	1: burst of 1024..1100 events coalesced while the start-up batch is in flight
//	2..7: burst of 60..70 (even kinds) or 120..135 (odd kinds) events coalesced WHILE a batch is in flight, after
//	      `earlier` = 1,2,2,1,0,3 single-event batches were handled — so that either of the two buffers is the one in
//	      flight and sizes around small powers of two (initial capacities, growth steps) are crossed.
func runIdleFamily(r *rng.R, kind int) (res result) {
	kind %= 8
	burst := kind != 0
	n := 1024 + r.Intn(77) // 1024..1100
	earlier := 0
	if kind >= 2 {
		n = 60 + r.Intn(11)
		if kind%2 == 1 {
			n = 120 + r.Intn(16)
		}
		earlier = []int{1, 2, 2, 1, 0, 3}[kind-2]
	}
	nFirst := n
	if burst {
		nFirst = 1 + r.Intn(3)
	}
	first := make(events.EventBatch, 0, nFirst)
	firstInts := []int{}
	next := 1
	for i := 0; i < nFirst; i++ {
		first = append(first, next)
		firstInts = append(firstInts, next)
		next++
	}
	ch := make(chan interface{})
	h := &handler{entered: make(chan struct{}, 4096), release: make(chan struct{})}
	el := events.NewEventLoop(ch, logr.Discard(), h, preparer{first})
	ctx, cancel := context.WithCancel(context.Background())
	defer cancel()
	done := make(chan error, 1)
	go func() { done <- el.Start(ctx) }()
	waitEntered := func() bool {
		select {
		case <-h.entered:
			return true
		case <-time.After(wait):
			return false
		}
	}
	send := func(e int, d time.Duration) bool {
		select {
		case ch <- e:
			return true
		case <-time.After(d):
			return false
		}
	}
	var ops []string
	var sent []int
	judge := func(drained, stuck int) string {
		return fmt.Sprintf("first=%s sent=%s batches=%s exits=%s maxconc=%d early=0 drained=%d stuck=%d",
			natList(firstInts), natList(sent), natLists(h.snapshot()), natLists(h.snapshotExits()), h.maxconc, drained, stuck)
	}
	if !waitEntered() {
		res.inconclusive = "first batch never started"
		return res
	}
	pending := 0
	// release handlers until the loop is idle; false = judge line already set / inconclusive
	toIdle := func() bool {
		for {
			n0 := runtime.NumGoroutine()
			if !h.doRelease() {
				res.inconclusive = "no handler to release"
				return false
			}
			ops = append(ops, "h")
			if pending > 0 {
				if !waitEntered() {
					res.judge = judge(1, 0) // pending events not handled after the acknowledgement
					return false
				}
				ops = append(ops, "a")
				pending = 0
				continue
			}
			deadline := time.Now().Add(wait)
			for runtime.NumGoroutine() >= n0 && time.Now().Before(deadline) {
				time.Sleep(100 * time.Microsecond)
			}
			if runtime.NumGoroutine() >= n0 {
				res.inconclusive = "ack not observed"
				return false
			}
			ops = append(ops, "a")
			return true
		}
	}
	if burst {
		// `earlier` single-event batches, the last of which stays in flight during the burst
		for j := 0; j < earlier; j++ {
			if !toIdle() {
				return res
			}
			e := next
			next++
			if !send(e, wait) && !send(e, idleGrace) {
				sent = append(sent, e)
				res.judge = judge(0, 1)
				return res
			}
			sent = append(sent, e)
			ops = append(ops, "r"+strconv.Itoa(e))
			if !waitEntered() {
				res.judge = judge(1, 0)
				return res
			}
		}
		for i := 0; i < n; i++ {
			if !send(next, wait) {
				break // a loop that applies back-pressure while busy: go on with what was taken
			}
			sent = append(sent, next)
			ops = append(ops, "r"+strconv.Itoa(next))
			next++
			pending++
		}
	}
	if !toIdle() {
		return res
	}
	for k := 3 + r.Intn(3); k > 0; k-- {
		e := next
		next++
		// the handler is idle (its goroutine was acknowledged and has exited): the event must be taken
		if !send(e, wait) && !send(e, idleGrace) {
			sent = append(sent, e) // offered; never received
			res.judge = judge(0, 1)
			return res
		}
		sent = append(sent, e)
		ops = append(ops, "r"+strconv.Itoa(e))
		if !waitEntered() {
			res.judge = judge(1, 0) // received but not handed to the idle handler
			return res
		}
		if !toIdle() {
			return res
		}
	}
	cancel()
	ops = append(ops, "c")
	select {
	case <-done:
	case <-time.After(wait):
		res.inconclusive = "Start did not return after cancel"
		return res
	}
	res.model = fmt.Sprintf("first=%s ops=%s", natList(firstInts), strings.Join(ops, ","))
	res.obs = fmt.Sprintf("log=%s phase=stopped", natLists(h.snapshot()))
	res.judge = judge(1, 0)
	return res
}
