// Package c10 drives the real events.EventLoop with generated schedules of
// (send event | release handler | cancel) and records what the handler observed.
//
// Output, one line per schedule, three tab-separated parts:
//
//	M first=<..> ops=<..>      the schedule in the vocabulary of the Lean model (sync mode only)
//	O log=<..> phase=<..>      what was observed, in the model's output vocabulary (sync mode only)
//	J first=.. sent=.. batches=.. exits=.. maxconc=.. early=.. drained=..   input of the Lean judge
package c10

import (
	"bufio"
	"context"
	"flag"
	"fmt"
	"os"
	"runtime"
	"strconv"
	"strings"
	"sync"
	"time"

	"github.com/go-logr/logr"
	apiv1 "k8s.io/api/core/v1"
	apierrors "k8s.io/apimachinery/pkg/api/errors"
	"k8s.io/apimachinery/pkg/runtime/schema"
	"k8s.io/apimachinery/pkg/types"
	"sigs.k8s.io/controller-runtime/pkg/client"
	"sigs.k8s.io/controller-runtime/pkg/reconcile"

	"github.com/nginx/nginx-gateway-fabric/internal/framework/controller"
	"github.com/nginx/nginx-gateway-fabric/internal/framework/events"
	"github.com/nginx/nginx-gateway-fabric/verifharness/rng"
)

type preparer struct{ first events.EventBatch }

func (p preparer) Prepare(context.Context) (events.EventBatch, error) { return p.first, nil }

type handler struct {
	mu       sync.Mutex
	running  int
	maxconc  int
	batches  [][]int
	exits    [][]int
	entered  chan struct{}
	release  chan struct{}
	finished int
}

// evID decodes the identity of an event: plain ints (direct mode) or the id carried in the name of
// the object of an UpsertEvent / the NamespacedName of a DeleteEvent (reconciler mode). The id is
// re-read from the event every time, so an object shared or overwritten between events shows up.
func evID(e interface{}) int {
	switch x := e.(type) {
	case int:
		return x
	case *events.UpsertEvent:
		return idFromName(x.Resource.GetName())
	case *events.DeleteEvent:
		if _, ok := x.Type.(*apiv1.ConfigMap); !ok {
			return -2
		}
		return idFromName(x.NamespacedName.Name)
	}
	return -1
}

func idFromName(n string) int {
	if !strings.HasPrefix(n, "obj-") {
		return -3
	}
	v, err := strconv.Atoi(n[4:])
	if err != nil {
		return -4
	}
	return v
}

func toInts(b events.EventBatch) []int {
	out := make([]int, 0, len(b))
	for _, e := range b {
		v := evID(e)
		if v < 0 {
			v = 900000 - v // an undecodable event: never equal to a sent id
		}
		out = append(out, v)
	}
	return out
}

// getter is the fake API server of reconciler mode: ids in `deleted` are NotFound, all others exist.
type getter struct{ deleted map[int]bool }

func (g getter) Get(_ context.Context, key client.ObjectKey, obj client.Object, _ ...client.GetOption) error {
	id := idFromName(key.Name)
	if g.deleted[id] {
		return apierrors.NewNotFound(schema.GroupResource{Resource: "configmaps"}, key.Name)
	}
	cm, ok := obj.(*apiv1.ConfigMap)
	if !ok {
		return fmt.Errorf("unexpected type %T", obj)
	}
	cm.Namespace, cm.Name = key.Namespace, key.Name
	cm.Data = map[string]string{"id": strconv.Itoa(id)}
	return nil
}

func (h *handler) HandleEventBatch(_ context.Context, _ logr.Logger, batch events.EventBatch) {
	h.mu.Lock()
	h.running++
	if h.running > h.maxconc {
		h.maxconc = h.running
	}
	h.batches = append(h.batches, toInts(batch))
	idx := len(h.batches) - 1
	h.mu.Unlock()
	h.entered <- struct{}{}
	<-h.release
	h.mu.Lock()
	for len(h.exits) <= idx {
		h.exits = append(h.exits, nil)
	}
	h.exits[idx] = toInts(batch)
	h.running--
	h.finished++
	h.mu.Unlock()
}

// doRelease lets the blocked handler return; false when no handler takes the token in time.
func (h *handler) doRelease() bool {
	select {
	case h.release <- struct{}{}:
		return true
	case <-time.After(wait):
		return false
	}
}

func natList(l []int) string {
	if len(l) == 0 {
		return "-"
	}
	s := make([]string, len(l))
	for i, v := range l {
		s[i] = strconv.Itoa(v)
	}
	return strings.Join(s, ",")
}

func natLists(l [][]int) string {
	if len(l) == 0 {
		return "~"
	}
	s := make([]string, len(l))
	for i, v := range l {
		s[i] = natList(v)
	}
	return strings.Join(s, "|")
}

const wait = 400 * time.Millisecond

type result struct {
	model, obs, judge string
	inconclusive     string
}

// runSchedule executes one schedule. ops: 's' send, 'r' release, 'c' cancel.
func runSchedule(r *rng.R, sync bool, maxOps int, viaReconciler bool, bigFirst int) result {
	nFirst := r.Intn(4)
	if bigFirst > 0 {
		// a start-up batch larger than any plausible "idle capacity" of the double buffers
		nFirst = bigFirst + r.Intn(64)
	}
	first := make(events.EventBatch, 0, nFirst)
	firstInts := []int{}
	next := 1
	for i := 0; i < nFirst; i++ {
		first = append(first, next)
		firstInts = append(firstInts, next)
		next++
	}
	ch := make(chan interface{})
	h := &handler{entered: make(chan struct{}, 1024), release: make(chan struct{})}
	el := events.NewEventLoop(ch, logr.Discard(), h, preparer{first})
	ctx, cancel := context.WithCancel(context.Background())
	defer cancel()
	// reconciler mode: events reach the channel through the real controller.Reconciler
	gt := getter{deleted: map[int]bool{}}
	rec := controller.NewReconciler(controller.ReconcilerConfig{
		Getter: gt, ObjectType: &apiv1.ConfigMap{}, EventCh: ch,
	})
	send := func(e int) bool {
		if !viaReconciler {
			select {
			case ch <- e:
				return true
			case <-time.After(wait):
				return false
			}
		}
		if r.Chance(30, 100) {
			gt.deleted[e] = true
		}
		done := make(chan struct{})
		rctx, rcancel := context.WithTimeout(ctx, wait)
		defer rcancel()
		go func() {
			_, _ = rec.Reconcile(rctx, reconcile.Request{NamespacedName: types.NamespacedName{Namespace: "ns", Name: "obj-" + strconv.Itoa(e)}})
			close(done)
		}()
		select {
		case <-done:
			return rctx.Err() == nil
		case <-time.After(2 * wait):
			return false
		}
	}
	done := make(chan error, 1)
	go func() { done <- el.Start(ctx) }()

	res := result{}
	waitEntered := func() bool {
		select {
		case <-h.entered:
			return true
		case <-time.After(wait):
			return false
		}
	}
	if !waitEntered() {
		// The handler was not called with the start-up batch. Offer one event: if the handler's FIRST invocation then
		// carries that event, the start-up batch was skipped (reported through the judge, clause first_batch_first).
		res.inconclusive = "first batch never started"
		if send(next) && waitEntered() {
			res.inconclusive = ""
			res.judge = fmt.Sprintf("first=%s sent=%d batches=%s exits=%s maxconc=%d early=0 drained=0",
				natList(firstInts), next, natLists(h.snapshot()), natLists(h.snapshotExits()), h.maxconc)
		}
		return res
	}
	inflight := true // a handler is blocked in HandleEventBatch
	pending := 0     // events sent since the last batch start (harness's own bookkeeping)
	var ops []string
	var sent []int
	early := false
	cancelled := false
	nOps := r.Range(1, maxOps)
	for i := 0; i < nOps && !cancelled; i++ {
		k := r.Intn(10)
		switch {
		case k < 5: // send
			e := next
			next++
			if !send(e) {
				res.inconclusive = "send blocked"
				if sync && !inflight && !viaReconciler {
					// the handler is idle (acknowledged, goroutine gone) and the loop does not take the event
					select {
					case ch <- e:
						res.inconclusive = "send slow"
					case <-time.After(idleGrace):
						res.inconclusive = ""
						sent = append(sent, e)
						res.judge = fmt.Sprintf("first=%s sent=%s batches=%s exits=%s maxconc=%d early=0 drained=0 stuck=1",
							natList(firstInts), natList(sent), natLists(h.snapshot()), natLists(h.snapshotExits()), h.maxconc)
					}
				}
				return res
			}
			sent = append(sent, e)
			ops = append(ops, "r"+strconv.Itoa(e))
			if inflight {
				pending++
			} else {
				// loop must start a batch right away
				if !waitEntered() {
					res.judge = fmt.Sprintf("first=%s sent=%s batches=%s exits=%s maxconc=%d early=0 drained=1",
						natList(firstInts), natList(sent), natLists(h.snapshot()), natLists(h.snapshotExits()), h.maxconc)
					res.inconclusive = ""
					// event waits although handler idle: report through the judge as not drained properly
					return res
				}
				inflight = true
				pending = 0
			}
		case k < 9: // release
			if !inflight {
				continue
			}
			n0 := runtime.NumGoroutine()
			if !h.doRelease() {
				res.inconclusive = "no handler to release"
				return res
			}
			ops = append(ops, "h")
			if sync {
				if pending > 0 {
					if !waitEntered() {
						res.inconclusive = ""
						res.judge = fmt.Sprintf("first=%s sent=%s batches=%s exits=%s maxconc=%d early=0 drained=1",
							natList(firstInts), natList(sent), natLists(h.snapshot()), natLists(h.snapshotExits()), h.maxconc)
						return res
					}
					pending = 0
					inflight = true
				} else {
					// wait until the handler goroutine has been acknowledged and has exited
					deadline := time.Now().Add(wait)
					for runtime.NumGoroutine() >= n0 && time.Now().Before(deadline) {
						time.Sleep(100 * time.Microsecond)
					}
					if runtime.NumGoroutine() >= n0 {
						res.inconclusive = "ack not observed"
						return res
					}
					inflight = false
				}
				ops = append(ops, "a")
			} else {
				// racy mode: do not wait; find out later what happened
				if pending > 0 {
					if !waitEntered() {
						res.inconclusive = "no batch after release with pending events"
					}
					pending = 0
					inflight = true
				} else {
					// the ack may or may not have happened before the next send; in racy mode only
					// the judge is used, so just track in-flight status lazily
					inflight = false
					// give the loop a random tiny head start
					if r.Bool() {
						runtime.Gosched()
					}
					// next send will start a batch either immediately (ack first) or at ack time
				}
			}
		default: // cancel
			cancel()
			cancelled = true
			ops = append(ops, "c")
			if inflight {
				select {
				case <-done:
					early = true
				case <-time.After(3 * time.Millisecond):
				}
				if !early {
					if !h.doRelease() {
						res.inconclusive = "no handler to release"
						return res
					}
					ops = append(ops, "h", "d")
				}
			}
		}
	}
	drained := false
	if !cancelled {
		// drain: release handlers until everything sent has been handled
		deadline := time.Now().Add(wait)
		for time.Now().Before(deadline) {
			if inflight {
				n0 := runtime.NumGoroutine()
				if !h.doRelease() {
					res.inconclusive = "no handler to release"
					return res
				}
				ops = append(ops, "h", "a")
				if pending > 0 {
					if !waitEntered() {
						break
					}
					pending = 0
				} else {
					for runtime.NumGoroutine() >= n0 && time.Now().Before(deadline) {
						time.Sleep(100 * time.Microsecond)
					}
					inflight = false
				}
			} else {
				break
			}
		}
		drained = true
		cancel()
		ops = append(ops, "c")
	}
	if !early {
		select {
		case <-done:
		case <-time.After(wait):
			res.inconclusive = "Start did not return after cancel"
			return res
		}
	}
	phase := "stopped"
	b, x := h.snapshot(), h.snapshotExits()
	res.model = fmt.Sprintf("first=%s ops=%s", natList(firstInts), strings.Join(ops, ","))
	res.obs = fmt.Sprintf("log=%s phase=%s", natLists(b), phase)
	e := 0
	if early {
		e = 1
	}
	d := 0
	if drained {
		d = 1
	}
	res.judge = fmt.Sprintf("first=%s sent=%s batches=%s exits=%s maxconc=%d early=%d drained=%d",
		natList(firstInts), natList(sent), natLists(b), natLists(x), h.maxconc, e, d)
	return res
}

func (h *handler) snapshot() [][]int {
	h.mu.Lock()
	defer h.mu.Unlock()
	out := make([][]int, len(h.batches))
	copy(out, h.batches)
	return out
}

func (h *handler) snapshotExits() [][]int {
	h.mu.Lock()
	defer h.mu.Unlock()
	out := make([][]int, len(h.batches))
	for i := range out {
		if i < len(h.exits) && h.exits[i] != nil {
			out[i] = h.exits[i]
		} else {
			out[i] = h.batches[i] // handler still blocked: nothing re-read yet
		}
	}
	return out
}

func Run(args []string) int {
	fs := flag.NewFlagSet("c10", flag.ExitOnError)
	seed := fs.Uint64("seed", 1, "seed")
	n := fs.Int("n", 100, "number of schedules")
	maxOps := fs.Int("maxops", 30, "max ops per schedule")
	racy := fs.Bool("racy", false, "do not wait for acknowledgements (judge only)")
	big := fs.Int("bigfirst", 0, "size of the start-up batch (large clusters); 0 = small random")
	viaRec := fs.Bool("reconciler", false, "deliver events through the real controller.Reconciler (upserts and deletes)")
	delivery := fs.Bool("delivery", false, "delivery stream: real Reconcilers parked behind a stalled loop start-up (see delivery.go)")
	long := fs.String("long", "", "delivery: comma-separated stalls (ms) of the long cases, run concurrently with the others")
	maxStall := fs.Int("maxstall", 300, "delivery: maximal stall (ms) of the ordinary cases")
	prepare := fs.Bool("prepare", false, "prepare stream: real FirstEventBatchPreparerImpl over a fake reader (see delivery.go)")
	maxLists := fs.Int("maxlists", 2, "prepare: number of lists enumerated exhaustively")
	idleFam := fs.Bool("idlefamily", false, "idle family: start-up batch / in-flight burst of 1024..1100 events, then events offered only while idle (see idle.go)")
	_ = fs.Parse(args)
	if *delivery {
		var ls []int
		for _, f := range strings.Split(*long, ",") {
			if v, err := strconv.Atoi(f); err == nil {
				ls = append(ls, v)
			}
		}
		return runDelivery(*seed, *n, ls, *maxStall)
	}
	if *prepare {
		return runPrepare(*seed, *maxLists, *n)
	}
	r := rng.New(*seed)
	w := bufio.NewWriter(os.Stdout)
	defer w.Flush()
	anomalies := 0
	for i := 0; i < *n && anomalies < 12; i++ {
		var res result
		if *idleFam {
			res = runIdleFamily(r.Fork(), i)
		} else {
			res = runSchedule(r.Fork(), !*racy, *maxOps, *viaRec, *big)
		}
		if res.inconclusive != "" && res.judge == "" {
			anomalies++
			fmt.Fprintf(w, "X %s\n", res.inconclusive)
			continue
		}
		if res.model == "" {
			anomalies++
		}
		if *racy {
			fmt.Fprintf(w, "J %s\n", res.judge)
		} else if res.model != "" {
			fmt.Fprintf(w, "M %s\tO %s\tJ %s\n", res.model, res.obs, res.judge)
		} else {
			fmt.Fprintf(w, "J %s\n", res.judge)
		}
	}
	return 0
}
