package main

import "github.com/nginx/nginx-gateway-fabric/verifharness/c10"

func init() { commands["c10"] = c10.Run }
