module github.com/nginx/nginx-gateway-fabric/verifharness

go 1.23.0

require (
	github.com/go-logr/logr v1.4.2
	github.com/nginx/nginx-gateway-fabric v0.0.0
	github.com/nginxinc/nginx-go-crossplane v0.4.71
	github.com/nginxinc/nginx-plus-go-client v1.3.0
	k8s.io/api v0.32.1
	k8s.io/apiextensions-apiserver v0.32.1
	k8s.io/apimachinery v0.32.1
	k8s.io/client-go v0.32.1
	sigs.k8s.io/controller-runtime v0.20.1
	sigs.k8s.io/gateway-api v1.2.1
	sigs.k8s.io/yaml v1.4.0
)

require (
	github.com/beorn7/perks v1.0.1 // indirect
	github.com/cenkalti/backoff/v4 v4.3.0 // indirect
	github.com/cespare/xxhash/v2 v2.3.0 // indirect
	github.com/davecgh/go-spew v1.1.2-0.20180830191138-d8f796af33cc // indirect
	github.com/emicklei/go-restful/v3 v3.12.0 // indirect
	github.com/evanphx/json-patch/v5 v5.9.0 // indirect
	github.com/fsnotify/fsnotify v1.7.0 // indirect
	github.com/fxamacker/cbor/v2 v2.7.0 // indirect
	github.com/go-kit/log v0.2.1 // indirect
	github.com/go-logfmt/logfmt v0.5.1 // indirect
	github.com/go-logr/stdr v1.2.2 // indirect
	github.com/go-openapi/jsonpointer v0.21.0 // indirect
	github.com/go-openapi/jsonreference v0.21.0 // indirect
	github.com/go-openapi/swag v0.23.0 // indirect
	github.com/gogo/protobuf v1.3.2 // indirect
	github.com/golang/protobuf v1.5.4 // indirect
	github.com/google/btree v1.1.3 // indirect
	github.com/google/gnostic-models v0.6.8 // indirect
	github.com/google/go-cmp v0.6.0 // indirect
	github.com/google/gofuzz v1.2.0 // indirect
	github.com/google/uuid v1.6.0 // indirect
	github.com/grpc-ecosystem/grpc-gateway/v2 v2.25.1 // indirect
	github.com/josharian/intern v1.0.0 // indirect
	github.com/json-iterator/go v1.1.12 // indirect
	github.com/klauspost/compress v1.17.9 // indirect
	github.com/mailru/easyjson v0.7.7 // indirect
	github.com/modern-go/concurrent v0.0.0-20180306012644-bacd9c7ef1dd // indirect
	github.com/modern-go/reflect2 v1.0.2 // indirect
	github.com/munnerz/goautoneg v0.0.0-20191010083416-a7dc8b61c822 // indirect
	github.com/nginx/telemetry-exporter v0.1.3 // indirect
	github.com/nginxinc/nginx-prometheus-exporter v1.3.0 // indirect
	github.com/pkg/errors v0.9.1 // indirect
	github.com/prometheus/client_golang v1.20.5 // indirect
	github.com/prometheus/client_model v0.6.1 // indirect
	github.com/prometheus/common v0.60.1 // indirect
	github.com/prometheus/procfs v0.15.1 // indirect
	github.com/spf13/pflag v1.0.5 // indirect
	github.com/x448/float16 v0.8.4 // indirect
	go.opentelemetry.io/auto/sdk v1.1.0 // indirect
	go.opentelemetry.io/otel v1.34.0 // indirect
	go.opentelemetry.io/otel/exporters/otlp/otlptrace v1.34.0 // indirect
	go.opentelemetry.io/otel/exporters/otlp/otlptrace/otlptracegrpc v1.34.0 // indirect
	go.opentelemetry.io/otel/metric v1.34.0 // indirect
	go.opentelemetry.io/otel/sdk v1.34.0 // indirect
	go.opentelemetry.io/otel/trace v1.34.0 // indirect
	go.opentelemetry.io/proto/otlp v1.5.0 // indirect
	go.uber.org/multierr v1.11.0 // indirect
	go.uber.org/zap v1.27.0 // indirect
	golang.org/x/net v0.34.0 // indirect
	golang.org/x/oauth2 v0.24.0 // indirect
	golang.org/x/sync v0.10.0 // indirect
	golang.org/x/sys v0.29.0 // indirect
	golang.org/x/term v0.28.0 // indirect
	golang.org/x/text v0.21.0 // indirect
	golang.org/x/time v0.7.0 // indirect
	gomodules.xyz/jsonpatch/v2 v2.4.0 // indirect
	google.golang.org/grpc v1.69.4 // indirect
	google.golang.org/protobuf v1.36.3 // indirect
	gopkg.in/evanphx/json-patch.v4 v4.12.0 // indirect
	gopkg.in/inf.v0 v0.9.1 // indirect
	gopkg.in/yaml.v3 v3.0.1 // indirect
	k8s.io/klog/v2 v2.130.1 // indirect
	k8s.io/kube-openapi v0.0.0-20241105132330-32ad38e42d3f // indirect
	k8s.io/utils v0.0.0-20241104100929-3ea5e8cea738 // indirect
	sigs.k8s.io/json v0.0.0-20241010143419-9aa6b5e7a4b3 // indirect
	sigs.k8s.io/structured-merge-diff/v4 v4.4.2 // indirect
)

// needed by every harness that (transitively) imports google.golang.org/grpc (telemetry, static):
// without these two lines the unpruned graph pulls the monolithic google.golang.org/genproto, which
// is not in the module cache (added for C19; same versions as /repo/go.mod).
require (
	google.golang.org/genproto/googleapis/api v0.0.0-20250115164207-1a7da9e5054f // indirect
	google.golang.org/genproto/googleapis/rpc v0.0.0-20250115164207-1a7da9e5054f // indirect
)

replace github.com/nginx/nginx-gateway-fabric => /repo
