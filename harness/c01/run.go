package c01

import (
	"fmt"
	"sort"
	"strings"

	apiv1 "k8s.io/api/core/v1"
	"sigs.k8s.io/controller-runtime/pkg/client"
	"sigs.k8s.io/controller-runtime/pkg/event"

	"github.com/go-logr/logr"
	"github.com/nginx/nginx-gateway-fabric/internal/framework/events"
	ngxcfg "github.com/nginx/nginx-gateway-fabric/internal/mode/static/nginx/config"
	"github.com/nginx/nginx-gateway-fabric/internal/mode/static/state/dataplane"
	"github.com/nginx/nginx-gateway-fabric/internal/mode/static/state/graph"
	p "github.com/nginx/nginx-gateway-fabric/verifharness/pipeline"
	"github.com/nginx/nginx-gateway-fabric/verifharness/rng"
)

func sortKeys(keys []p.Key) {
	sort.Slice(keys, func(i, j int) bool { return keys[i].String() < keys[j].String() })
}

// MutRec is one cluster mutation and what became of it.
type MutRec struct {
	Op        string // create / update / delete
	Key       p.Key
	Label     string
	Delivered bool   // passed the watch predicates, i.e. reconciled into an event
	// filtered (watch predicate / name filter) / control (handled by the handler's filter callback only; kind unknown to
	// the processor) / swallowed (kind known to the processor, but the handler did not hand the event to it) /
	// dropped (relevance predicate said no) / relevant
	Disp  string
	Batch int
}

var dispRank = map[string]int{"filtered": 0, "control": 1, "swallowed": 2, "dropped": 3, "relevant": 4}

func (m MutRec) Cause() string {
	s := strings.ToLower(m.Key.Kind) + "-" + m.Op + "-" + m.Disp
	if m.Op == "update" {
		s += ":" + m.Label
	}
	return s
}

// BatchRec is one handled batch.
type BatchRec struct {
	Restart bool // first batch of a (re)started controller
	Obs     BatchObs
	CT      int // change type returned by the real Process()
	// pipeline stream (Runner.KeepStates): what the long-lived controller holds applied after this batch
	Snap *pipeSnap
	// States[i] of the Result is the cluster each event of the batch was reconciled from
	EvState []int
}

// pipeSnap: the files last handed to the file manager and ReferencedServices of the latest graph.
type pipeSnap struct {
	HasFiles              bool
	HTTP, Stream, Matches string
	RefSvcs               []string
}

// Snapshot is the order-normalised view of what was last applied / issued.
type Snapshot struct {
	Files, FilesExact, Status map[string]string
	FileText, StatusText      map[string]string
}

// Checkpoint compares the long-lived controller with a fresh one at a drained queue.
type Checkpoint struct {
	Batch          int // index of the last handled batch
	FromBatch      int // batches (FromBatch, Batch] were handled since the previous checkpoint
	MutFrom        int // mutations [MutFrom, MutTo) happened since the previous checkpoint
	MutTo          int
	Applied        Snapshot
	Fresh          Snapshot
	FreshFirst     map[string]string // files after the fresh controller's start-up batch only
	FreshFirstText map[string]string
	FilesEqual     bool
	StatusEqual    bool
	ExactEqual     bool
	FirstBatchOK   bool
}

type Result struct {
	Batches               []BatchRec
	Muts                  []MutRec
	CPs                   []Checkpoint
	Fail                  int // index of the first failing checkpoint, -1 if none
	Panic                 string
	// PanicInCapture: the real handler panicked while capturing the events of a batch (parseAndCaptureEvent, a filter
	// callback, changeTrackingUpdater.Upsert/Delete) — before Process/BuildGraph was reached
	PanicInCapture bool
	Err            string
	KeyIDs                map[p.Key]int
	Nondet, NondetSkipped int
	ctrl                  *Ctrl // the long-lived controller at the end of the run
	SvcWatch              []string
	world                 *World
	// States: the cluster at the start and after every applied mutation (Runner.KeepStates)
	States [][]client.Object
}

type Runner struct {
	Watches map[string][]watch
	// CheckEvery: compare at every drained batch boundary (true) or only at the end (false).
	CheckEvery bool
	// Samples: how many fresh derivations are drawn before a divergence is believed (0 = 8).
	Samples int
	// shuffle drives the permutation of the start-up events of the fresh sample controllers
	shuffle *rng.R
	// KeepStates: record cluster states and per-batch applied files (pipeline stream)
	KeepStates bool
}

func (rn *Runner) snap(c *Ctrl) *pipeSnap {
	if !rn.KeepStates {
		return nil
	}
	sn := &pipeSnap{HasFiles: c.files.calls > 0, RefSvcs: []string{}}
	if sn.HasFiles {
		sn.HTTP = p.FileText(c.files.last, "/etc/nginx/conf.d/http.conf")
		sn.Stream = p.FileText(c.files.last, "/etc/nginx/stream-conf.d/stream.conf")
		sn.Matches = p.FileText(c.files.last, matchesFile)
	}
	if g := c.proc.real.GetLatestGraph(); g != nil {
		for k := range g.ReferencedServices {
			sn.RefSvcs = append(sn.RefSvcs, k.Namespace+"/"+k.Name)
		}
	}
	sort.Strings(sn.RefSvcs)
	return sn
}

func constInts(n, v int) []int {
	out := make([]int, n)
	for i := range out {
		out[i] = v
	}
	return out
}

type live struct {
	c *Ctrl
}

func mapsEqual(a, b map[string]string) bool {
	if len(a) != len(b) {
		return false
	}
	for k, v := range a {
		if b[k] != v {
			return false
		}
	}
	return true
}

// A controller that never had a relevant event has written nothing: NGINX runs the image's empty
// configuration. This is identified with the default configuration the handler writes for a graph
// without a valid GatewayClass/Gateway (no listeners either way); see notes/C01.md.
var baseline = ngxcfg.NewGeneratorImpl(false, nil, logr.Discard()).Generate(dataplane.GetDefaultConfiguration(&graph.Graph{}, 1))

func snapshotOf(c *Ctrl, w *World) Snapshot {
	var s Snapshot
	files := c.files.last
	if c.files.calls == 0 {
		files = baseline
	}
	s.FilesExact, s.Files, s.FileText = FilesSnapshot(files)
	s.Status, s.StatusText, _ = StatusSnapshot(c.Issued(), w.Objects())
	return s
}

// start creates a controller on the world and runs the start-up sequence: the real first batch, then
// the informers' initial Create notifications (every existing object, filtered by the watch
// predicates' Create, reconciled by the real Reconciler) as a second batch.
func (rn *Runner) start(w *World, res *Result) (*Ctrl, [2]map[string]string, error) {
	return rn.startOrd(w, res, false)
}

// startOrd: with permute, the start-up events are delivered in a random order ("the order of the events
// doesn't matter", first_eventbatch_preparer.go). Used for the fresh samples so that an output that depends
// on arrival / map insertion order shows up as disagreement among the samples.
func (rn *Runner) startOrd(w *World, res *Result, permute bool) (*Ctrl, [2]map[string]string, error) {
	c := NewCtrl(w, p.DefaultOptions())
	var none [2]map[string]string
	fb, err := c.FirstBatch()
	if err != nil {
		return nil, none, err
	}
	if permute {
		if rn.shuffle == nil {
			rn.shuffle = rng.New(4242)
		}
		rng.Shuffle(rn.shuffle, fb)
	}
	obs := c.Handle(fb)
	if res != nil {
		res.Batches = append(res.Batches, BatchRec{Restart: true, Obs: obs, CT: c.proc.lastCT, Snap: rn.snap(c),
			EvState: constInts(len(obs.In), len(res.States)-1)})
	}
	if c.Panic != "" {
		return c, none, nil
	}
	ffiles := c.files.last
	if c.files.calls == 0 {
		ffiles = baseline
	}
	_, ff, ft := FilesSnapshot(ffiles)
	firstFiles := [2]map[string]string{ff, ft}
	var replay events.EventBatch
	for _, k := range w.Keys() {
		// one Create notification per controller of the kind
		for i := deliveries(rn.Watches[k.Kind], nil, w.objs[k]); i > 0; i-- {
			e, err := c.Reconcile(k)
			if err != nil {
				return nil, none, err
			}
			if e != nil {
				replay = append(replay, e)
			}
		}
	}
	if permute {
		rng.Shuffle(rn.shuffle, replay)
	}
	if len(replay) > 0 {
		obs := c.Handle(replay)
		if res != nil {
			res.Batches = append(res.Batches, BatchRec{Obs: obs, CT: c.proc.lastCT, Snap: rn.snap(c),
				EvState: constInts(len(obs.In), len(res.States)-1)})
		}
	}
	return c, firstFiles, nil
}

// Run executes a history.
func (rn *Runner) Run(h *History) (res *Result) {
	res = &Result{Fail: -1, KeyIDs: map[p.Key]int{}}
	defer func() {
		if r := recover(); r != nil {
			res.Err = fmt.Sprintf("harness panic: %v", r)
		}
	}()
	w := NewWorld()
	res.world = w
	for _, o := range h.Init {
		if _, _, err := w.Apply(p.KeyOf(o), o); err != nil {
			res.Err = "init: " + err.Error()
			return res
		}
	}
	if rn.KeepStates {
		res.States = append(res.States, w.Objects())
	}
	c, _, err := rn.start(w, res)
	if err != nil {
		res.Err = err.Error()
		return res
	}
	if c.Panic != "" {
		res.Panic, res.PanicInCapture = c.Panic, c.PanicInCapture
		return res
	}
	res.ctrl = c
	defer func() { res.ctrl = c }()
	var pending events.EventBatch
	var pendingMuts []int
	lastCPBatch, lastCPMut := len(res.Batches)-1, 0

	flush := func() bool {
		if len(pending) == 0 {
			return true
		}
		obs := c.Handle(pending)
		evState := make([]int, len(pendingMuts))
		for i, mi := range pendingMuts {
			evState[i] = mi + 1 // the event was reconciled right after mutation mi
		}
		res.Batches = append(res.Batches, BatchRec{Obs: obs, CT: c.proc.lastCT, Snap: rn.snap(c), EvState: evState})
		b := len(res.Batches) - 1
		// attribute what became of each event to its mutation (a mutation seen by several controllers has several events)
		for i, mi := range pendingMuts {
			res.Muts[mi].Batch = b
			if i >= len(obs.In) {
				continue
			}
			in, d := obs.In[i], ""
			switch {
			case in.Fwd && in.Ev.Changed():
				d = "relevant"
			case in.Fwd:
				d = "dropped"
			case handlerOnlyKinds[in.Kind]:
				d = "control"
			default:
				d = "swallowed"
			}
			if dispRank[d] > dispRank[res.Muts[mi].Disp] {
				res.Muts[mi].Disp = d
			}
		}
		pending, pendingMuts = nil, nil
		if c.Panic != "" {
			res.Panic, res.PanicInCapture = c.Panic, c.PanicInCapture
			return false
		}
		return true
	}
	checkpoint := func() bool {
		if len(res.Muts) == lastCPMut && len(res.Batches)-1 == lastCPBatch {
			return true
		}
		cp := Checkpoint{Batch: len(res.Batches) - 1, FromBatch: lastCPBatch, MutFrom: lastCPMut, MutTo: len(res.Muts)}
		lastCPBatch, lastCPMut = cp.Batch, cp.MutTo
		cp.Applied = snapshotOf(c, w)
		// The build itself is not deterministic on some inputs (Go map iteration order reaches the output:
		// C14's business). A divergence counts only if it is stable over repeated fresh derivations.
		var freshes []Snapshot
		var firsts [][2]map[string]string
		inSamples := func(files, status map[string]string) int {
			for i, fr := range freshes {
				if mapsEqual(files, fr.Files) && (status == nil || mapsEqual(status, fr.Status)) {
					return i
				}
			}
			return -1
		}
		firstOK := func() bool {
			for _, f := range firsts {
				if inSamples(f[0], nil) >= 0 {
					return true
				}
			}
			return false
		}
		// Go iterates a small map from a random slot: with two entries the order is reversed with
		// probability 1/8 only, so a build whose output depends on that order needs many samples to show it.
		maxTry := rn.Samples
		if maxTry == 0 {
			maxTry = 8
		}
		disagree := func() bool {
			for _, fr := range freshes[1:] {
				if !mapsEqual(fr.Files, freshes[0].Files) || !mapsEqual(fr.Status, freshes[0].Status) {
					return true
				}
			}
			return false
		}
		for try := 0; try < maxTry; try++ {
			if try >= 2 && disagree() {
				break
			}
			fc, first, err := rn.startOrd(w, nil, try > 0)
			if err != nil {
				res.Err = "fresh: " + err.Error()
				return false
			}
			if fc.Panic != "" {
				res.Panic, res.PanicInCapture = "fresh controller: "+fc.Panic, fc.PanicInCapture
				return false
			}
			freshes = append(freshes, snapshotOf(fc, w))
			firsts = append(firsts, first)
			if inSamples(cp.Applied.Files, cp.Applied.Status) >= 0 && firstOK() {
				break
			}
		}
		pick := inSamples(cp.Applied.Files, cp.Applied.Status)
		if pick < 0 {
			pick = 0
		}
		cp.Fresh, cp.FreshFirst, cp.FreshFirstText = freshes[pick], firsts[pick][0], firsts[pick][1]
		cp.FilesEqual = mapsEqual(cp.Applied.Files, cp.Fresh.Files)
		cp.StatusEqual = mapsEqual(cp.Applied.Status, cp.Fresh.Status)
		cp.ExactEqual = mapsEqual(cp.Applied.FilesExact, cp.Fresh.FilesExact)
		cp.FirstBatchOK = firstOK()
		if cp.FirstBatchOK {
			cp.FreshFirst, cp.FreshFirstText = cp.Fresh.Files, cp.Fresh.FileText
		}
		nondet := false
		for _, fr := range freshes[1:] {
			if !mapsEqual(fr.Files, freshes[0].Files) || !mapsEqual(fr.Status, freshes[0].Status) {
				nondet = true
			}
		}
		if nondet {
			res.Nondet++
			if !(cp.FilesEqual && cp.StatusEqual && cp.FirstBatchOK) {
				// fresh derivations disagree among themselves: no verdict for this state
				res.NondetSkipped++
				return true
			}
		}
		res.CPs = append(res.CPs, cp)
		if !(cp.FilesEqual && cp.StatusEqual && cp.FirstBatchOK) && res.Fail < 0 {
			res.Fail = len(res.CPs) - 1
			return false // stop at the first divergence
		}
		return true
	}

	for oi, op := range h.Ops {
		last := oi == len(h.Ops)-1
		switch op.Op {
		case "cut":
			if !flush() {
				return res
			}
			if rn.CheckEvery && !checkpoint() {
				return res
			}
		case "restart":
			if !flush() {
				return res
			}
			if rn.CheckEvery && !checkpoint() {
				return res
			}
			c, _, err = rn.start(w, res)
			if err != nil {
				res.Err = err.Error()
				return res
			}
			if c.Panic != "" {
				res.Panic, res.PanicInCapture = c.Panic, c.PanicInCapture
				return res
			}
			lastCPBatch = len(res.Batches) - 1
		case "u", "d":
			var obj client.Object
			if op.Op == "u" {
				obj = op.Obj
			}
			if op.Op == "d" && w.objs[op.Key] == nil {
				continue
			}
			oldObj, newObj, err := w.Apply(op.Key, obj)
			if err != nil {
				res.Err = fmt.Sprintf("op %d: %v", oi, err)
				return res
			}
			m := MutRec{Key: op.Key, Label: op.Label, Batch: -1}
			ws := rn.Watches[op.Key.Kind]
			switch {
			case oldObj == nil:
				m.Op, m.Delivered = "create", passCreate(ws, newObj)
			case newObj == nil:
				m.Op, m.Delivered = "delete", passDelete(ws, oldObj)
			default:
				m.Op, m.Delivered = "update", passUpdate(ws, oldObj, newObj)
				m.Label = diffLabel(oldObj, newObj, op.Key.Kind, op.Label)
				if os, ok := oldObj.(*apiv1.Service); ok {
					// what the REAL user-service predicate answered, for the correspondence of Footprint.watchSvc
					for _, w := range ws {
						if w.name == "user-service" && w.pred != nil {
							v := w.pred.Update(event.UpdateEvent{ObjectOld: oldObj, ObjectNew: newObj})
							res.SvcWatch = append(res.SvcWatch, fmt.Sprintf("old=%s new=%s\t%v", svcToken(os), svcToken(newObj.(*apiv1.Service)), v))
						}
					}
				}
			}
			if _, ok := res.KeyIDs[op.Key]; !ok {
				res.KeyIDs[op.Key] = len(res.KeyIDs)
			}
			m.Disp = "filtered"
			res.Muts = append(res.Muts, m)
			if rn.KeepStates {
				res.States = append(res.States, w.Objects())
			}
			if m.Delivered {
				got := 0
				for i := deliveries(ws, oldObj, newObj); i > 0; i-- {
					e, err := c.Reconcile(op.Key)
					if err != nil {
						res.Err = err.Error()
						return res
					}
					if e == nil {
						continue // the controller's namespaced-name filter ignores this object
					}
					got++
					pending = append(pending, e)
					pendingMuts = append(pendingMuts, len(res.Muts)-1)
				}
				if got == 0 {
					res.Muts[len(res.Muts)-1].Delivered = false
				}
			}
		}
		_ = last
	}
	if !flush() {
		return res
	}
	checkpoint()
	return res
}

// FailClass says what differs at the first failing checkpoint (used to keep shrinking on the same failure).
func (res *Result) FailClass() string {
	if res.Fail < 0 {
		return ""
	}
	cp := res.CPs[res.Fail]
	switch {
	case !cp.FilesEqual:
		return "files:" + firstDiffKey(cp.Applied.Files, cp.Fresh.Files)
	case !cp.StatusEqual:
		k := firstDiffKey(cp.Applied.Status, cp.Fresh.Status)
		return "status:" + strings.SplitN(k, "/", 2)[0]
	default:
		return "firstbatch"
	}
}

// Signature names the failing input class of a (shrunk) history: the last mutation at or before the
// first failing checkpoint that was NOT turned into a rebuild (filtered by a watch predicate, or
// dropped by the relevance predicate); `rebuild-mismatch…` when every mutation led to a rebuild and
// the outputs still differ; `first-batch-incomplete` when the start-up listing alone does not yield
// the configuration of the drained start-up.
func (res *Result) Signature() string {
	if res.Fail < 0 {
		return ""
	}
	cp := res.CPs[res.Fail]
	if cp.FilesEqual && cp.StatusEqual {
		return "first-batch-incomplete"
	}
	// A rebuild heals every event dropped before it (persisted kinds are stored whatever the verdict, the
	// cache is read at build time); it does not heal what the watch predicates kept away from the store.
	lastRebuild := -1
	for b := 0; b <= cp.Batch && b < len(res.Batches); b++ {
		if res.Batches[b].CT > 0 {
			lastRebuild = b
		}
	}
	for i := cp.MutTo - 1; i >= 0; i-- {
		if m := res.Muts[i]; m.Disp == "dropped" && m.Batch > lastRebuild {
			return res.rootCause(m)
		}
	}
	for i := cp.MutTo - 1; i >= 0; i-- {
		// neither a watch-filtered mutation nor one the handler kept from the processor ever reaches the store
		if m := res.Muts[i]; m.Disp == "filtered" || m.Disp == "swallowed" {
			return res.rootCause(m)
		}
	}
	if cp.MutTo > 0 {
		return "rebuild-mismatch-after-" + strings.ToLower(res.Muts[cp.MutTo-1].Key.Kind) + "-" + res.Muts[cp.MutTo-1].Op
	}
	return "rebuild-mismatch"
}

func firstDiffKey(a, b map[string]string) string {
	keys := map[string]bool{}
	for k := range a {
		keys[k] = true
	}
	for k := range b {
		keys[k] = true
	}
	ks := make([]string, 0, len(keys))
	for k := range keys {
		ks = append(ks, k)
	}
	sort.Strings(ks)
	for _, k := range ks {
		if a[k] != b[k] {
			return k
		}
	}
	return ""
}

// rootCause refines the cause of a discarded mutation with the context that makes it matter, so that one
// signature names one defect of the code rather than one event shape.
func (res *Result) rootCause(m MutRec) string {
	switch m.Key.Kind {
	case "Service":
		if m.Disp == "dropped" && res.ctrl != nil && serviceOnlyOnIgnoredGateways(res.ctrl, m.Key) {
			// graph.buildReferencedServices skips routes that do not belong to the winning Gateway, although
			// their backendRefs were resolved against the Services (conditions in their status)
			return "service-dropped:route-of-ignored-gateway"
		}
	case "GatewayClass":
		if m.Disp == "filtered" && m.Key.NN.Name == p.DefaultClass {
			// the first batch Gets the configured class whatever its controllerName; the watch predicate drops
			// every event of a class whose controllerName is foreign
			return "gatewayclass-filtered:configured-class-foreign-controller"
		}
	}
	return m.Cause()
}

// serviceOnlyOnIgnoredGateways: some route of the latest graph references the Service and none of the
// routes referencing it belongs to the winning Gateway.
func serviceOnlyOnIgnoredGateways(c *Ctrl, key p.Key) bool {
	g := c.proc.real.GetLatestGraph()
	if g == nil || g.Gateway == nil || g.Gateway.Source == nil {
		return false
	}
	winner := client.ObjectKeyFromObject(g.Gateway.Source)
	belongs := func(refs []graph.ParentRef) bool {
		for _, r := range refs {
			if r.Gateway == winner {
				return true
			}
		}
		return false
	}
	found := false
	for _, r := range g.Routes {
		for _, rule := range r.Spec.Rules {
			for _, br := range rule.BackendRefs {
				if br.SvcNsName == key.NN {
					if belongs(r.ParentRefs) {
						return false
					}
					found = true
				}
			}
		}
	}
	for _, r := range g.L4Routes {
		if r.Spec.BackendRef.SvcNsName == key.NN {
			if belongs(r.ParentRefs) {
				return false
			}
			found = true
		}
	}
	return found
}

// svcToken renders what the footprint model knows of a Service: ports in order (number:name:targetPort) / ipFamilies.
func svcToken(s *apiv1.Service) string {
	var ps, fs []string
	for _, p := range s.Spec.Ports {
		ps = append(ps, fmt.Sprintf("%d:%s:%s", p.Port, fpStr(p.Name), fpStr(p.TargetPort.String())))
	}
	for _, f := range s.Spec.IPFamilies {
		fs = append(fs, string(f))
	}
	return fpList(ps, "+") + "/" + fpList(fs, "+")
}
