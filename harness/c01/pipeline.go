package c01

// Pipeline stream: HISTORIES over the fragment of the concrete pipeline model (lean/NGF/Model/StorePipeline.lean).
// The initial cluster is an in-fragment scenario of C02's generator with the Services, backendRefs, ReferenceGrants and
// EndpointSlices redrawn by C13's pipeE generator; the history creates, updates and deletes GatewayClasses, Gateways,
// HTTPRoutes, Services, ReferenceGrants and EndpointSlices, with batch cuts and restarts, and is run through the REAL
// long-lived controller (Runner.Run: real watch predicates, Reconciler, eventHandlerImpl, ChangeProcessorImpl,
// BuildConfiguration, Generate). One line per history carries
//   * the model's view of the cluster at the start and after every mutation (C13's pipeE encoding),
//   * every event the real handler received (kind, key, upsert/delete, the cluster state it was reconciled from, whether
//     it reached the processor and what the REAL relevance predicate decided),
//   * after every batch the http.conf / matches.json the long-lived controller holds applied, its upstream blocks and the
//     ReferencedServices of its latest graph.
// The Lean driver (`ngfdriver_C01 pipeline`) replays the events in the instantiated store machine — the modelled
// predicates, no oracle — and compares verdict by verdict and drained point by drained point.

import (
	"encoding/json"
	"fmt"
	"reflect"

	apiv1 "k8s.io/api/core/v1"
	discoveryV1 "k8s.io/api/discovery/v1"
	"k8s.io/apimachinery/pkg/util/intstr"
	"sigs.k8s.io/controller-runtime/pkg/client"
	gatewayv1 "sigs.k8s.io/gateway-api/apis/v1"
	gatewayv1beta1 "sigs.k8s.io/gateway-api/apis/v1beta1"

	"github.com/nginx/nginx-gateway-fabric/verifharness/c13"
	p "github.com/nginx/nginx-gateway-fabric/verifharness/pipeline"
	"github.com/nginx/nginx-gateway-fabric/verifharness/rng"
)

var pipeKinds = map[string]bool{"GatewayClass": true, "Gateway": true, "HTTPRoute": true, "Service": true,
	"ReferenceGrant": true, "EndpointSlice": true}

// mutatePipe: an update that stays inside the fragment (nil = no mutator applies).
func mutatePipe(r *rng.R, obj client.Object, gwNames []string) (client.Object, string) {
	o := obj.DeepCopyObject().(client.Object)
	svc := func() string { return fmt.Sprintf("svc%d", r.Intn(3)) }
	switch x := o.(type) {
	case *apiv1.Service:
		names := []string{"http", "web", "metrics"}
		rng.Shuffle(r, names)
		nums := rng.Pick(r, [][]int32{{80}, {80, 8080}, {8080, 80, 443}, {443}, {8080}, {81}})
		x.Spec.Ports = nil
		for k, n := range nums {
			sp := apiv1.ServicePort{Name: names[k], Port: n, Protocol: apiv1.ProtocolTCP}
			switch y := r.Intn(100); {
			case y < 15:
			case y < 70:
				sp.TargetPort = intstr.FromInt32(rng.Pick(r, []int32{8080, 9090, 3000}))
			default:
				sp.TargetPort = intstr.FromString(rng.Pick(r, []string{"http", "web"}))
			}
			x.Spec.Ports = append(x.Spec.Ports, sp)
		}
		return x, "svc-ports"
	case *discoveryV1.EndpointSlice:
		switch r.Intn(5) {
		case 0:
			x.Endpoints = append(x.Endpoints, discoveryV1.Endpoint{
				Addresses:  []string{fmt.Sprintf("10.7.%d.%d", r.Intn(4), r.Range(1, 9))},
				Conditions: discoveryV1.EndpointConditions{Ready: ptr(true)},
			})
			return x, "es-add-endpoint"
		case 1:
			if len(x.Endpoints) > 0 {
				x.Endpoints = x.Endpoints[:len(x.Endpoints)-1]
				return x, "es-remove-endpoint"
			}
		case 2:
			if len(x.Endpoints) > 0 {
				i := r.Intn(len(x.Endpoints))
				rd := x.Endpoints[i].Conditions.Ready
				x.Endpoints[i].Conditions.Ready = ptr(rd != nil && !*rd)
				return x, "es-ready-flip"
			}
		case 3:
			if x.Labels == nil {
				x.Labels = map[string]string{}
			}
			x.Labels[discoveryV1.LabelServiceName] = svc()
			return x, "es-owner-label"
		default:
			if len(x.Ports) > 0 {
				x.Ports[0].Port = ptr(rng.Pick(r, []int32{8080, 9090, 3000}))
				return x, "es-port"
			}
		}
		return nil, ""
	case *gatewayv1.HTTPRoute:
		var withRefs []int
		for i, rule := range x.Spec.Rules {
			if len(rule.Filters) == 0 {
				withRefs = append(withRefs, i)
			}
		}
		if len(withRefs) > 0 && r.Chance(80, 100) {
			rule := &x.Spec.Rules[rng.Pick(r, withRefs)]
			switch k := r.Intn(4); {
			case k == 0 || len(rule.BackendRefs) == 0:
				b := gatewayv1.BackendRef{BackendObjectReference: gatewayv1.BackendObjectReference{
					Name: gatewayv1.ObjectName(svc()), Port: ptr(gatewayv1.PortNumber(rng.Pick(r, []int32{80, 8080, 443})))}}
				if r.Chance(40, 100) {
					b.Weight = ptr(int32(rng.Pick(r, []int{0, 1, 2, 5})))
				}
				rule.BackendRefs = append(rule.BackendRefs, gatewayv1.HTTPBackendRef{BackendRef: b})
				return x, "hr-add-backend"
			case k == 1:
				rule.BackendRefs[r.Intn(len(rule.BackendRefs))].Name = gatewayv1.ObjectName(svc())
				return x, "hr-backend"
			case k == 2:
				rule.BackendRefs = rule.BackendRefs[:len(rule.BackendRefs)-1]
				return x, "hr-remove-backend"
			default:
				rule.BackendRefs[r.Intn(len(rule.BackendRefs))].Port = ptr(gatewayv1.PortNumber(rng.Pick(r, []int32{80, 8080, 443, 81})))
				return x, "hr-backend-port"
			}
		}
		if len(x.Spec.ParentRefs) > 0 && len(gwNames) > 0 {
			x.Spec.ParentRefs[0].Name = gatewayv1.ObjectName(rng.Pick(r, gwNames))
			return x, "hr-parent"
		}
		return nil, ""
	case *gatewayv1beta1.ReferenceGrant:
		if len(x.Spec.To) > 0 {
			if x.Spec.To[0].Name == nil {
				x.Spec.To[0].Name = ptr(gatewayv1.ObjectName(svc()))
			} else {
				x.Spec.To[0].Name = nil
			}
			return x, "grant-to-name"
		}
		return nil, ""
	case *gatewayv1.Gateway:
		if string(x.Spec.GatewayClassName) == p.DefaultClass {
			x.Spec.GatewayClassName = "other"
		} else {
			x.Spec.GatewayClassName = gatewayv1.ObjectName(p.DefaultClass)
		}
		return x, "gw-class"
	}
	return nil, ""
}

// GeneratePipe draws an in-fragment history.
func GeneratePipe(r *rng.R, maxOps int) *History {
	objs := c13.GenPipeE(r.Fork())
	h := &History{Opts: p.DefaultOptions(), Tags: map[string]int{"pipeline": 1}}
	var pool []client.Object
	present := map[p.Key]client.Object{}
	var gwNames []string
	for _, o := range objs {
		k := p.KindOf(o)
		if gw, ok := o.(*gatewayv1.Gateway); ok {
			gwNames = append(gwNames, gw.Name)
		}
		if !pipeKinds[k] || r.Chance(82, 100) {
			h.Init = append(h.Init, o)
			present[p.KeyOf(o)] = o
		} else {
			pool = append(pool, o)
		}
	}
	weights := map[string]int{"EndpointSlice": 6, "Service": 6, "HTTPRoute": 4, "ReferenceGrant": 3, "Gateway": 2, "GatewayClass": 1}
	pick := func() client.Object {
		var keys []p.Key
		for k := range present {
			for i := 0; i < weights[k.Kind]; i++ {
				keys = append(keys, k)
			}
		}
		if len(keys) == 0 {
			return nil
		}
		sortKeys(keys)
		return present[keys[r.Intn(len(keys))]]
	}
	var deleted []client.Object
	for i, n := 0, r.Range(3, maxOps); i < n; i++ {
		switch k := r.Intn(100); {
		case k < 18 && len(pool)+len(deleted) > 0:
			var o client.Object
			if len(pool) > 0 && (len(deleted) == 0 || r.Bool()) {
				j := r.Intn(len(pool))
				o, pool = pool[j], append(pool[:j], pool[j+1:]...)
			} else {
				j := r.Intn(len(deleted))
				o, deleted = deleted[j], append(deleted[:j], deleted[j+1:]...)
			}
			if _, ok := present[p.KeyOf(o)]; ok {
				continue
			}
			present[p.KeyOf(o)] = o
			h.Ops = append(h.Ops, Op{Op: "u", Key: p.KeyOf(o), Obj: o, Label: "create"})
			h.Tags["pipe:create:"+p.KindOf(o)]++
		case k < 38:
			o := pick()
			if o == nil {
				continue
			}
			delete(present, p.KeyOf(o))
			deleted = append(deleted, o)
			h.Ops = append(h.Ops, Op{Op: "d", Key: p.KeyOf(o), Label: "delete"})
			h.Tags["pipe:delete:"+p.KindOf(o)]++
		case k < 95:
			o := pick()
			if o == nil {
				continue
			}
			n, label := mutatePipe(r, o, gwNames)
			if n == nil || reflect.DeepEqual(specOf(o, true), specOf(n, true)) {
				continue // no mutator, or a no-op update (nothing would be delivered)
			}
			present[p.KeyOf(o)] = n
			h.Ops = append(h.Ops, Op{Op: "u", Key: p.KeyOf(o), Obj: n, Label: label})
			h.Tags["pipe:update:"+label]++
		default:
			h.Ops = append(h.Ops, Op{Op: "restart"})
			h.Tags["pipe:restart"]++
			continue
		}
		if r.Chance(55, 100) {
			h.Ops = append(h.Ops, Op{Op: "cut"})
		}
	}
	return h
}

type pipeStep struct {
	T string `json:"t"` // ev / cut / restart
	// ev
	Kind    string `json:"kind,omitempty"`
	NS      string `json:"ns"`
	Name    string `json:"name,omitempty"`
	Del     bool   `json:"del,omitempty"`
	State   int    `json:"state"`
	Fwd     bool   `json:"fwd,omitempty"`
	Changed bool   `json:"changed,omitempty"`
	// cut
	HasFiles  bool           `json:"hasFiles,omitempty"`
	HTTP      string         `json:"http,omitempty"`
	Stream    string         `json:"stream,omitempty"`
	Matches   string         `json:"matches,omitempty"`
	RefSvcs   []string       `json:"refsvcs,omitempty"`
	Upstreams []c13.Upstream `json:"upstreams,omitempty"`
	CT        int            `json:"ct"`
}

type pipeLineDoc struct {
	Front  []string   `json:"front"`
	States []any      `json:"states"`
	Steps  []pipeStep `json:"steps"`
}

// pipeDoc renders a run for the Lean driver; why != "" when the history cannot be replayed in the model.
func pipeDoc(res *Result) (doc pipeLineDoc, why string) {
	if res.Err != "" || res.Panic != "" {
		return doc, "harness error or panic"
	}
	for _, m := range res.Muts {
		if !m.Delivered && pipeKinds[m.Key.Kind] {
			// the model of this stream delivers every mutation (the watch predicates are Footprint's subject)
			return doc, "watch-filtered mutation (" + m.Cause() + ")"
		}
	}
	doc.Front = []string{podConfig.Namespace, podConfig.ServiceName}
	for _, st := range res.States {
		doc.States = append(doc.States, c13.PipeEState(st))
	}
	for bi, b := range res.Batches {
		if b.CT < 0 || b.Snap == nil {
			return doc, "batch without Process result"
		}
		if b.Restart {
			st := len(res.States) - 1
			if len(b.EvState) > 0 {
				st = b.EvState[0]
			} else if bi == 0 {
				st = 0
			}
			doc.Steps = append(doc.Steps, pipeStep{T: "restart", State: st})
		} else {
			for i, in := range b.Obs.In {
				if !pipeKinds[in.Kind] {
					if in.Fwd && in.Ev.Changed() {
						return doc, "relevant event of a kind outside the model: " + in.Kind
					}
					continue
				}
				st := 0
				if i < len(b.EvState) {
					st = b.EvState[i]
				}
				doc.Steps = append(doc.Steps, pipeStep{T: "ev", Kind: in.Kind, NS: in.NN.Namespace, Name: in.NN.Name, Del: in.Del,
					State: st, Fwd: in.Fwd, Changed: in.Fwd && in.Ev.Changed()})
			}
		}
		cut := pipeStep{T: "cut", HasFiles: b.Snap.HasFiles, HTTP: b.Snap.HTTP, Stream: b.Snap.Stream, Matches: b.Snap.Matches,
			RefSvcs: b.Snap.RefSvcs, CT: b.CT}
		if b.Snap.HasFiles {
			cut.Upstreams = c13.HTTPUpstreams(b.Snap.HTTP)
		}
		doc.Steps = append(doc.Steps, cut)
	}
	return doc, ""
}

// runPipeline emits `L <id> <json>` per replayable history, `Q <id> <why>` for those the model cannot replay, `PH` statistics.
func runPipeline(seed uint64, n, maxOps int, ws map[string][]watch, emit func(string, ...any)) {
	rn := &Runner{Watches: ws, CheckEvery: false, Samples: 2, KeepStates: true}
	r := rng.New(seed*1000003 + 104729)
	for id := 0; id < n; id++ {
		h := GeneratePipe(r.Fork(), maxOps)
		res := rn.Run(h)
		doc, why := pipeDoc(res)
		nev := 0
		for _, s := range doc.Steps {
			if s.T == "ev" {
				nev++
			}
		}
		emit("PH %d ops=%d init=%d muts=%d batches=%d events=%d states=%d", id, len(h.Ops), len(h.Init), len(res.Muts),
			len(res.Batches), nev, len(res.States))
		if why != "" {
			emit("Q %d %s", id, why)
			continue
		}
		b, err := json.Marshal(doc)
		if err != nil {
			emit("X %d pipeline encode: %v", id, err)
			continue
		}
		emit("L %d %s", id, string(b))
	}
}
