package c01

import (
	"context"
	"fmt"
	"runtime/debug"

	"github.com/go-logr/logr"
	ngxclient "github.com/nginxinc/nginx-plus-go-client/client"
	"k8s.io/apimachinery/pkg/types"
	"k8s.io/client-go/tools/record"
	"sigs.k8s.io/controller-runtime/pkg/client"
	"sigs.k8s.io/controller-runtime/pkg/reconcile"

	ngfAPIv1alpha1 "github.com/nginx/nginx-gateway-fabric/apis/v1alpha1"
	ngfAPIv1alpha2 "github.com/nginx/nginx-gateway-fabric/apis/v1alpha2"
	"github.com/nginx/nginx-gateway-fabric/internal/framework/controller"
	"github.com/nginx/nginx-gateway-fabric/internal/framework/events"
	"github.com/nginx/nginx-gateway-fabric/internal/framework/kinds"
	frameworkStatus "github.com/nginx/nginx-gateway-fabric/internal/framework/status"
	ngftypes "github.com/nginx/nginx-gateway-fabric/internal/framework/types"
	"github.com/nginx/nginx-gateway-fabric/internal/mode/static"
	ngfConfig "github.com/nginx/nginx-gateway-fabric/internal/mode/static/config"
	ngxcfg "github.com/nginx/nginx-gateway-fabric/internal/mode/static/nginx/config"
	"github.com/nginx/nginx-gateway-fabric/internal/mode/static/nginx/config/policies"
	"github.com/nginx/nginx-gateway-fabric/internal/mode/static/nginx/config/policies/clientsettings"
	"github.com/nginx/nginx-gateway-fabric/internal/mode/static/nginx/config/policies/observability"
	"github.com/nginx/nginx-gateway-fabric/internal/mode/static/nginx/config/policies/upstreamsettings"
	ngxvalidation "github.com/nginx/nginx-gateway-fabric/internal/mode/static/nginx/config/validation"
	"github.com/nginx/nginx-gateway-fabric/internal/mode/static/nginx/file"
	"github.com/nginx/nginx-gateway-fabric/internal/mode/static/state"
	"github.com/nginx/nginx-gateway-fabric/internal/mode/static/state/graph"
	"github.com/nginx/nginx-gateway-fabric/internal/mode/static/state/resolver"
	"github.com/nginx/nginx-gateway-fabric/internal/mode/static/state/validation"
	p "github.com/nginx/nginx-gateway-fabric/verifharness/pipeline"
)

// ---- recording collaborators of the real handler

type recFiles struct {
	calls int
	last  []file.File
}

func (r *recFiles) ReplaceFiles(files []file.File) error {
	r.calls++
	r.last = files
	return nil
}

type recRuntime struct{ reloads int }

func (r *recRuntime) Reload(context.Context, int) error { r.reloads++; return nil }
func (r *recRuntime) IsPlus() bool                      { return false }
func (r *recRuntime) GetUpstreams() (ngxclient.Upstreams, ngxclient.StreamUpstreams, error) {
	return ngxclient.Upstreams{}, ngxclient.StreamUpstreams{}, nil
}
func (r *recRuntime) UpdateHTTPServers(string, []ngxclient.UpstreamServer) error         { return nil }
func (r *recRuntime) UpdateStreamServers(string, []ngxclient.StreamUpstreamServer) error { return nil }

type recStatus struct {
	calls  int
	groups map[string][]frameworkStatus.UpdateRequest
}

func (r *recStatus) UpdateGroup(_ context.Context, name string, reqs ...frameworkStatus.UpdateRequest) {
	r.calls++
	if r.groups == nil {
		r.groups = map[string][]frameworkStatus.UpdateRequest{}
	}
	r.groups[name] = reqs
}

// ---- the processor seen by the handler: the real one, with a read-only peek before each capture

// EvRec is one event as the change processor received it.
type EvRec struct {
	Kind    string
	Del     bool
	NN      types.NamespacedName
	Peek    state.VerifC01Peek
	Pending int // pending changeType right after the capture
	Before  int // pending changeType right before the capture
}

// Changed is what the REAL updater decided for this event. While nothing was pending it is read off the
// pending changeType itself (exact, whatever the code does); otherwise it is the peeked predicate verdict.
func (e EvRec) Changed() bool {
	if e.Before == 0 {
		return e.Pending != 0
	}
	if e.Del && e.Peek.Persisted && !e.Peek.InStore {
		return false
	}
	return e.Peek.Verdict
}

type peekProc struct {
	real   *state.ChangeProcessorImpl
	log    []EvRec
	lastCT int // change type returned by the last Process() (-1: Process not reached)
}

func (q *peekProc) CaptureUpsertChange(obj client.Object) {
	r := EvRec{Kind: p.KindOf(obj), NN: client.ObjectKeyFromObject(obj)}
	r.Peek = q.real.VerifC01PeekUpsert(obj)
	r.Before = q.real.VerifC01Pending()
	q.real.CaptureUpsertChange(obj)
	r.Pending = q.real.VerifC01Pending()
	q.log = append(q.log, r)
}

func (q *peekProc) CaptureDeleteChange(t ngftypes.ObjectType, nn types.NamespacedName) {
	r := EvRec{Kind: p.KindOf(t), Del: true, NN: nn}
	r.Peek = q.real.VerifC01PeekDelete(t, nn)
	r.Before = q.real.VerifC01Pending()
	q.real.CaptureDeleteChange(t, nn)
	r.Pending = q.real.VerifC01Pending()
	q.log = append(q.log, r)
}

func (q *peekProc) Process() (state.ChangeType, *graph.Graph) {
	ct, g := q.real.Process()
	q.lastCT = int(ct)
	return ct, g
}
func (q *peekProc) GetLatestGraph() *graph.Graph { return q.real.GetLatestGraph() }

// ---- one controller instance

type Ctrl struct {
	opts    p.Options
	world   *World
	proc    *peekProc
	handler *static.VerifC01Handler
	files   *recFiles
	rt      *recRuntime
	st      *recStatus
	recs    map[string]*controller.Reconciler
	evCh    chan interface{}
	Panic   string
}

var podConfig = ngfConfig.GatewayPodConfig{PodIP: "10.0.0.1", ServiceName: "ngf-svc", Namespace: "nginx-gateway", Name: "ngf-pod"}

func policyManager(mustExtractGVK kinds.MustExtractGVK, v validation.GenericValidator) *policies.CompositeValidator {
	cfgs := []policies.ManagerConfig{
		{GVK: mustExtractGVK(&ngfAPIv1alpha1.ClientSettingsPolicy{}), Validator: clientsettings.NewValidator(v)},
		{GVK: mustExtractGVK(&ngfAPIv1alpha2.ObservabilityPolicy{}), Validator: observability.NewValidator(v)},
		{GVK: mustExtractGVK(&ngfAPIv1alpha1.UpstreamSettingsPolicy{}), Validator: upstreamsettings.NewValidator(v)},
	}
	return policies.NewManager(mustExtractGVK, cfgs...)
}

// NewCtrl wires processor + handler as StartManager does, over the world's client.
func NewCtrl(w *World, opts p.Options) *Ctrl {
	mustExtractGVK := kinds.NewMustExtractGKV(p.Scheme)
	gv := ngxvalidation.GenericValidator{}
	real := state.NewChangeProcessorImpl(state.ChangeProcessorConfig{
		GatewayCtlrName:  opts.Controller,
		GatewayClassName: opts.Class,
		Logger:           logr.Discard(),
		Validators: validation.Validators{
			HTTPFieldsValidator: ngxvalidation.HTTPValidator{},
			GenericValidator:    gv,
			PolicyValidator:     policyManager(mustExtractGVK, gv),
		},
		EventRecorder:  record.NewFakeRecorder(1 << 12),
		MustExtractGVK: mustExtractGVK,
		ProtectedPorts: opts.ProtectedPorts,
		PlusSecrets:    map[types.NamespacedName][]graph.PlusSecretFile{},
	})
	c := &Ctrl{opts: opts, world: w, proc: &peekProc{real: real}, files: &recFiles{}, rt: &recRuntime{}, st: &recStatus{},
		recs: map[string]*controller.Reconciler{}, evCh: make(chan interface{}, 4)}
	c.handler = static.VerifC01NewHandler(static.VerifC01Deps{
		ControllerName: opts.Controller,
		Generator:      ngxcfg.NewGeneratorImpl(false, nil, logr.Discard()),
		FileMgr:        c.files,
		RuntimeMgr:     c.rt,
		Processor:      c.proc,
		Resolver:       resolver.NewServiceResolverImpl(w.cl),
		StatusUpdater:  c.st,
		K8sClient:      w.cl,
		PodConfig:      podConfig,
	})
	for _, k := range kindTable {
		c.recs[k.name] = controller.NewReconciler(controller.ReconcilerConfig{
			Getter: w.cl, ObjectType: k.bare(), EventCh: c.evCh,
		})
	}
	return c
}

// Reconcile runs the REAL Reconciler for the key: it Gets the object from the cache and produces an
// UpsertEvent (full object) or a DeleteEvent (registered bare type + name).
func (c *Ctrl) Reconcile(key p.Key) (interface{}, error) {
	r, ok := c.recs[key.Kind]
	if !ok {
		return nil, fmt.Errorf("no reconciler for kind %s", key.Kind)
	}
	if _, err := r.Reconcile(context.Background(), reconcile.Request{NamespacedName: key.NN}); err != nil {
		return nil, err
	}
	select {
	case e := <-c.evCh:
		return e, nil
	default:
		return nil, fmt.Errorf("reconciler produced no event for %s", key)
	}
}

// BatchObs is what one HandleEventBatch call did.
type BatchObs struct {
	Events      []EvRec
	FileCalls   int
	StatusCalls int
	Reloads     int
}

// Handle runs the real HandleEventBatch on the batch.
func (c *Ctrl) Handle(batch events.EventBatch) (obs BatchObs) {
	f0, s0, r0, l0 := c.files.calls, c.st.calls, c.rt.reloads, len(c.proc.log)
	c.proc.lastCT = -1
	func() {
		defer func() {
			if r := recover(); r != nil {
				c.Panic = fmt.Sprintf("%v\n%s", r, debug.Stack())
			}
		}()
		c.handler.HandleEventBatch(context.Background(), batch)
	}()
	obs.Events = append(obs.Events, c.proc.log[l0:]...)
	obs.FileCalls, obs.StatusCalls, obs.Reloads = c.files.calls-f0, c.st.calls-s0, c.rt.reloads-r0
	return obs
}

// FirstBatch is the real FirstEventBatchPreparerImpl over the real prepareFirstEventBatchPreparerArgs.
func (c *Ctrl) FirstBatch() (events.EventBatch, error) {
	objects, lists := static.VerifC01FirstBatchArgs(c.opts.Class, true, true)
	return events.NewFirstEventBatchPreparerImpl(c.world.cl, objects, lists).Prepare(context.Background())
}

// Issued returns the requests last issued, all groups (gateways last).
func (c *Ctrl) Issued() []frameworkStatus.UpdateRequest {
	var out []frameworkStatus.UpdateRequest
	out = append(out, c.st.groups["all-graphs-except-gateways"]...)
	out = append(out, c.st.groups["gateways"]...)
	for g, reqs := range c.st.groups {
		if g != "all-graphs-except-gateways" && g != "gateways" {
			out = append(out, reqs...)
		}
	}
	return out
}
