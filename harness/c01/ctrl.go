package c01

import (
	"context"
	"fmt"
	"runtime/debug"

	"github.com/go-logr/logr"
	ngxclient "github.com/nginxinc/nginx-plus-go-client/client"
	"k8s.io/apimachinery/pkg/types"
	"k8s.io/client-go/tools/record"
	"sigs.k8s.io/controller-runtime/pkg/client"
	"sigs.k8s.io/controller-runtime/pkg/reconcile"

	ngfAPIv1alpha1 "github.com/nginx/nginx-gateway-fabric/apis/v1alpha1"
	ngfAPIv1alpha2 "github.com/nginx/nginx-gateway-fabric/apis/v1alpha2"
	"github.com/nginx/nginx-gateway-fabric/internal/framework/controller"
	"github.com/nginx/nginx-gateway-fabric/internal/framework/events"
	"github.com/nginx/nginx-gateway-fabric/internal/framework/kinds"
	frameworkStatus "github.com/nginx/nginx-gateway-fabric/internal/framework/status"
	ngftypes "github.com/nginx/nginx-gateway-fabric/internal/framework/types"
	"github.com/nginx/nginx-gateway-fabric/internal/mode/static"
	ngfConfig "github.com/nginx/nginx-gateway-fabric/internal/mode/static/config"
	ngxcfg "github.com/nginx/nginx-gateway-fabric/internal/mode/static/nginx/config"
	"github.com/nginx/nginx-gateway-fabric/internal/mode/static/nginx/config/policies"
	"github.com/nginx/nginx-gateway-fabric/internal/mode/static/nginx/config/policies/clientsettings"
	"github.com/nginx/nginx-gateway-fabric/internal/mode/static/nginx/config/policies/observability"
	"github.com/nginx/nginx-gateway-fabric/internal/mode/static/nginx/config/policies/upstreamsettings"
	ngxvalidation "github.com/nginx/nginx-gateway-fabric/internal/mode/static/nginx/config/validation"
	"github.com/nginx/nginx-gateway-fabric/internal/mode/static/nginx/file"
	"github.com/nginx/nginx-gateway-fabric/internal/mode/static/state"
	"github.com/nginx/nginx-gateway-fabric/internal/mode/static/state/graph"
	"github.com/nginx/nginx-gateway-fabric/internal/mode/static/state/resolver"
	"github.com/nginx/nginx-gateway-fabric/internal/mode/static/state/validation"
	p "github.com/nginx/nginx-gateway-fabric/verifharness/pipeline"
)

// ---- recording collaborators of the real handler

type recFiles struct {
	calls int
	last  []file.File
}

func (r *recFiles) ReplaceFiles(files []file.File) error {
	r.calls++
	r.last = files
	return nil
}

type recRuntime struct{ reloads int }

func (r *recRuntime) Reload(context.Context, int) error { r.reloads++; return nil }
func (r *recRuntime) IsPlus() bool                      { return false }
func (r *recRuntime) GetUpstreams() (ngxclient.Upstreams, ngxclient.StreamUpstreams, error) {
	return ngxclient.Upstreams{}, ngxclient.StreamUpstreams{}, nil
}
func (r *recRuntime) UpdateHTTPServers(string, []ngxclient.UpstreamServer) error         { return nil }
func (r *recRuntime) UpdateStreamServers(string, []ngxclient.StreamUpstreamServer) error { return nil }

type recStatus struct {
	calls  int
	groups map[string][]frameworkStatus.UpdateRequest
	trace  *[]traceEnt
}

// traceEnt is one observable action of the real handler, in the order it happened: a Capture…Change call on the
// change processor, an UpdateGroup call on the status updater, the Process call.
type traceEnt struct {
	what string // "cap" / "grp" / "process"
	name string // grp: the group
	ev   int    // cap: index into peekProc.log
}

func (r *recStatus) UpdateGroup(_ context.Context, name string, reqs ...frameworkStatus.UpdateRequest) {
	r.calls++
	if r.trace != nil {
		*r.trace = append(*r.trace, traceEnt{what: "grp", name: name})
	}
	if r.groups == nil {
		r.groups = map[string][]frameworkStatus.UpdateRequest{}
	}
	r.groups[name] = reqs
}

// ---- the processor seen by the handler: the real one, with a read-only peek before each capture

// EvRec is one event as the change processor received it.
type EvRec struct {
	Kind    string
	Del     bool
	NN      types.NamespacedName
	Peek    state.VerifC01Peek
	Pending int // pending changeType right after the capture
	Before  int // pending changeType right before the capture
}

// Changed is what the REAL updater decided for this event. While nothing was pending it is read off the
// pending changeType itself (exact, whatever the code does); otherwise it is the peeked predicate verdict.
func (e EvRec) Changed() bool {
	if e.Before == 0 {
		return e.Pending != 0
	}
	if e.Del && e.Peek.Persisted && !e.Peek.InStore {
		return false
	}
	return e.Peek.Verdict
}

type peekProc struct {
	real   *state.ChangeProcessorImpl
	log    []EvRec
	lastCT int // change type returned by the last Process() (-1: Process not reached)
	trace  *[]traceEnt
}

func (q *peekProc) CaptureUpsertChange(obj client.Object) {
	r := EvRec{Kind: p.KindOf(obj), NN: client.ObjectKeyFromObject(obj)}
	r.Peek = q.real.VerifC01PeekUpsert(obj)
	r.Before = q.real.VerifC01Pending()
	// logged before the call: a capture that panics (kind not registered with the processor) was still attempted
	*q.trace = append(*q.trace, traceEnt{what: "cap", ev: len(q.log)})
	q.log = append(q.log, r)
	q.real.CaptureUpsertChange(obj)
	q.log[len(q.log)-1].Pending = q.real.VerifC01Pending()
}

func (q *peekProc) CaptureDeleteChange(t ngftypes.ObjectType, nn types.NamespacedName) {
	r := EvRec{Kind: p.KindOf(t), Del: true, NN: nn}
	r.Peek = q.real.VerifC01PeekDelete(t, nn)
	r.Before = q.real.VerifC01Pending()
	*q.trace = append(*q.trace, traceEnt{what: "cap", ev: len(q.log)})
	q.log = append(q.log, r)
	q.real.CaptureDeleteChange(t, nn)
	q.log[len(q.log)-1].Pending = q.real.VerifC01Pending()
}

func (q *peekProc) Process() (state.ChangeType, *graph.Graph) {
	*q.trace = append(*q.trace, traceEnt{what: "process"})
	ct, g := q.real.Process()
	q.lastCT = int(ct)
	return ct, g
}
func (q *peekProc) GetLatestGraph() *graph.Graph { return q.real.GetLatestGraph() }

// ---- one controller instance

type Ctrl struct {
	opts    p.Options
	world   *World
	proc    *peekProc
	handler *static.VerifC01Handler
	files   *recFiles
	rt      *recRuntime
	st      *recStatus
	recs    map[string]*controller.Reconciler
	evCh    chan interface{}
	Panic   string
	// PanicInCapture: the panic happened before Process was reached (capture phase of HandleEventBatch)
	PanicInCapture bool
	trace          []traceEnt
}

var podConfig = ngfConfig.GatewayPodConfig{PodIP: "10.0.0.1", ServiceName: "ngf-svc", Namespace: "nginx-gateway", Name: "ngf-pod"}

// controlConfig is the NginxGateway object of the controller (StartManager: GatewayPodConfig.Namespace / cfg.ConfigName).
var controlConfig = types.NamespacedName{Namespace: podConfig.Namespace, Name: "ngf-config"}

// ngfSvcKey / controlConfigKey: the two objects the handler's objectFilters single out.
var (
	ngfSvcKey        = p.Key{Kind: "Service", NN: types.NamespacedName{Namespace: podConfig.Namespace, Name: podConfig.ServiceName}}
	controlConfigKey = p.Key{Kind: "NginxGateway", NN: controlConfig}
)

// nnFilters: the namespaced-name filters of registerControllers (regenerated table, `-nnfilter`), per kind.
var nnFilters = map[string]controller.NamespacedNameFilterFunc{}

func policyManager(mustExtractGVK kinds.MustExtractGVK, v validation.GenericValidator) *policies.CompositeValidator {
	cfgs := []policies.ManagerConfig{
		{GVK: mustExtractGVK(&ngfAPIv1alpha1.ClientSettingsPolicy{}), Validator: clientsettings.NewValidator(v)},
		{GVK: mustExtractGVK(&ngfAPIv1alpha2.ObservabilityPolicy{}), Validator: observability.NewValidator(v)},
		{GVK: mustExtractGVK(&ngfAPIv1alpha1.UpstreamSettingsPolicy{}), Validator: upstreamsettings.NewValidator(v)},
	}
	return policies.NewManager(mustExtractGVK, cfgs...)
}

// NewCtrl wires processor + handler as StartManager does, over the world's client.
func NewCtrl(w *World, opts p.Options) *Ctrl {
	mustExtractGVK := kinds.NewMustExtractGKV(p.Scheme)
	gv := ngxvalidation.GenericValidator{}
	real := state.NewChangeProcessorImpl(state.ChangeProcessorConfig{
		GatewayCtlrName:  opts.Controller,
		GatewayClassName: opts.Class,
		Logger:           logr.Discard(),
		Validators: validation.Validators{
			HTTPFieldsValidator: ngxvalidation.HTTPValidator{},
			GenericValidator:    gv,
			PolicyValidator:     policyManager(mustExtractGVK, gv),
		},
		EventRecorder:  record.NewFakeRecorder(1 << 12),
		MustExtractGVK: mustExtractGVK,
		ProtectedPorts: opts.ProtectedPorts,
		PlusSecrets:    map[types.NamespacedName][]graph.PlusSecretFile{},
	})
	c := &Ctrl{opts: opts, world: w, proc: &peekProc{real: real}, files: &recFiles{}, rt: &recRuntime{}, st: &recStatus{},
		recs: map[string]*controller.Reconciler{}, evCh: make(chan interface{}, 4)}
	c.proc.trace, c.st.trace = &c.trace, &c.trace
	c.handler = static.VerifC01NewHandler(static.VerifC01Deps{
		ControllerName: opts.Controller,
		Generator:      ngxcfg.NewGeneratorImpl(false, nil, logr.Discard()),
		FileMgr:        c.files,
		RuntimeMgr:     c.rt,
		Processor:      c.proc,
		Resolver:       resolver.NewServiceResolverImpl(w.cl),
		StatusUpdater:  c.st,
		K8sClient:      w.cl,
		PodConfig:      podConfig,

		ControlConfigNSName: controlConfig,
	})
	for _, k := range kindTable {
		c.recs[k.name] = controller.NewReconciler(controller.ReconcilerConfig{
			Getter: w.cl, ObjectType: k.bare(), EventCh: c.evCh, NamespacedNameFilter: nnFilters[k.name],
		})
	}
	return c
}

// Reconcile runs the REAL Reconciler for the key: it Gets the object from the cache and produces an
// UpsertEvent (full object) or a DeleteEvent (registered bare type + name).
func (c *Ctrl) Reconcile(key p.Key) (interface{}, error) {
	r, ok := c.recs[key.Kind]
	if !ok {
		return nil, fmt.Errorf("no reconciler for kind %s", key.Kind)
	}
	if _, err := r.Reconcile(context.Background(), reconcile.Request{NamespacedName: key.NN}); err != nil {
		return nil, err
	}
	select {
	case e := <-c.evCh:
		return e, nil
	default:
		if nnFilters[key.Kind] != nil {
			return nil, nil // ignored by the controller's namespaced-name filter
		}
		return nil, fmt.Errorf("reconciler produced no event for %s", key)
	}
}

// InRec is one event handed to HandleEventBatch and what parseAndCaptureEvent did with it.
type InRec struct {
	Kind   string
	Del    bool
	NN     types.NamespacedName
	Fwd    bool     // the handler called Capture…Change for it
	Ev     EvRec    // Fwd: what the processor saw
	Pend   int      // pending changeType after the event
	Panics bool     // the capture panicked
}

// BatchObs is what one HandleEventBatch call did.
type BatchObs struct {
	In          []InRec
	Events      []EvRec
	FileCalls   int
	StatusCalls int // UpdateGroup calls after Process (the batch's own status update)
	CbCalls     int // UpdateGroup calls made by filter callbacks, before Process
	// EmitRuns: UpdateGroup calls between consecutive Capture…Change calls: one entry per captured event (the calls
	// since the previous capture) and a last entry for the calls between the last capture and Process. (The handler
	// offers no boundary between two events, so callbacks of events it keeps to itself cannot be told apart from the
	// callback of the next captured event; the model's column is folded the same way.)
	EmitRuns []int
	Reloads     int
}

func eventID(e interface{}) (kind string, del bool, nn types.NamespacedName) {
	switch x := e.(type) {
	case *events.UpsertEvent:
		return p.KindOf(x.Resource), false, client.ObjectKeyFromObject(x.Resource)
	case *events.DeleteEvent:
		return p.KindOf(x.Type), true, x.NamespacedName
	}
	return fmt.Sprintf("%T", e), false, types.NamespacedName{}
}

// Handle runs the real HandleEventBatch on the batch.
func (c *Ctrl) Handle(batch events.EventBatch) (obs BatchObs) {
	f0, s0, r0, l0, t0 := c.files.calls, c.st.calls, c.rt.reloads, len(c.proc.log), len(c.trace)
	c.proc.lastCT = -1
	func() {
		defer func() {
			if r := recover(); r != nil {
				c.Panic = fmt.Sprintf("%v\n%s", r, debug.Stack())
			}
		}()
		c.handler.HandleEventBatch(context.Background(), batch)
	}()
	obs.Events = append(obs.Events, c.proc.log[l0:]...)
	obs.FileCalls, obs.StatusCalls, obs.Reloads = c.files.calls-f0, c.st.calls-s0, c.rt.reloads-r0
	// attribute the handler's actions of the capture phase (everything before Process) to the input events, in order:
	// per event [callback: UpdateGroup*] [Capture…Change of that very (kind, op, name)]
	tr := c.trace[t0:]
	i := 0
	pend := 0 // Process resets the pending changeType; a new controller starts with NoChange
	run := 0
	if c.Panic != "" {
		c.PanicInCapture = true
		for _, te := range tr {
			if te.what == "process" {
				c.PanicInCapture = false
			}
		}
	}
	for _, te := range tr {
		if te.what == "process" {
			break
		}
		switch te.what {
		case "grp":
			obs.CbCalls++
			run++
		case "cap":
			obs.EmitRuns = append(obs.EmitRuns, run)
			run = 0
		}
	}
	obs.EmitRuns = append(obs.EmitRuns, run)
	for _, e := range batch {
		in := InRec{}
		in.Kind, in.Del, in.NN = eventID(e)
		for i < len(tr) && tr[i].what == "grp" {
			i++ // a filter callback issued a status group (counted in EmitRuns)
		}
		if i < len(tr) && tr[i].what == "cap" {
			if r := c.proc.log[tr[i].ev]; r.Kind == in.Kind && r.Del == in.Del && r.NN == in.NN {
				in.Fwd, in.Ev = true, r
				pend = r.Pending
				i++
				if i == len(tr) && c.Panic != "" {
					in.Panics = true
				}
			}
		}
		in.Pend = pend
		obs.In = append(obs.In, in)
	}
	obs.StatusCalls -= obs.CbCalls
	return obs
}

// FirstBatch is the real FirstEventBatchPreparerImpl over the real prepareFirstEventBatchPreparerArgs.
func (c *Ctrl) FirstBatch() (events.EventBatch, error) {
	objects, lists := static.VerifC01FirstBatchArgs(c.opts.Class, true, true)
	return events.NewFirstEventBatchPreparerImpl(c.world.cl, objects, lists).Prepare(context.Background())
}

// Issued returns the requests last issued, all groups (gateways last).
func (c *Ctrl) Issued() []frameworkStatus.UpdateRequest {
	var out []frameworkStatus.UpdateRequest
	out = append(out, c.st.groups["all-graphs-except-gateways"]...)
	out = append(out, c.st.groups["gateways"]...)
	for g, reqs := range c.st.groups {
		if g != "all-graphs-except-gateways" && g != "gateways" {
			out = append(out, reqs...)
		}
	}
	return out
}
