package c01

import (
	"fmt"
	"sort"
	"strings"

	apiv1 "k8s.io/api/core/v1"
	"k8s.io/apimachinery/pkg/types"
	"sigs.k8s.io/controller-runtime/pkg/client"
	gatewayv1 "sigs.k8s.io/gateway-api/apis/v1"
	gatewayv1alpha3 "sigs.k8s.io/gateway-api/apis/v1alpha3"
	gatewayv1beta1 "sigs.k8s.io/gateway-api/apis/v1beta1"

	ngfAPI "github.com/nginx/nginx-gateway-fabric/apis/v1alpha1"
	"github.com/nginx/nginx-gateway-fabric/internal/framework/kinds"
	"github.com/nginx/nginx-gateway-fabric/internal/mode/static/nginx/config/policies"
	"github.com/nginx/nginx-gateway-fabric/internal/mode/static/state/graph"
	p "github.com/nginx/nginx-gateway-fabric/verifharness/pipeline"
)

// Footprint correspondence: the input of the Lean footprint model (NGF.Model.Footprint) is cut out of the REAL
// graph (routes after addBackendRefsToRouteRules, winning Gateway, listeners) and of the source objects; the
// sets the model recomputes must be the ReferencedServices / ReferencedNamespaces / ReferencedCaCertConfigMaps
// (and bound the ReferencedSecrets) of the real BuildGraph.

func fpList(xs []string, sep string) string {
	if len(xs) == 0 {
		return "-"
	}
	return strings.Join(xs, sep)
}

func fpStr(s string) string {
	if s == "" {
		return "~"
	}
	return s
}

func fpKeys[V any](m map[types.NamespacedName]V) string {
	var ks []string
	for k := range m {
		ks = append(ks, k.String())
	}
	sort.Strings(ks)
	return fpList(ks, ",")
}

func labelTokens(m map[string]string) string {
	var ts []string
	for k, v := range m {
		ts = append(ts, k+"="+v)
	}
	sort.Strings(ts)
	return fpList(ts, "+")
}

// grantAllows: a ReferenceGrant in the Secret's namespace permits Gateways of gwNs to reference the Secret.
func grantAllows(objs []client.Object, gwNs string, secret types.NamespacedName) bool {
	for _, o := range objs {
		rg, ok := o.(*gatewayv1beta1.ReferenceGrant)
		if !ok || rg.Namespace != secret.Namespace {
			continue
		}
		from := false
		for _, f := range rg.Spec.From {
			if f.Group == gatewayv1.GroupName && f.Kind == "Gateway" && string(f.Namespace) == gwNs {
				from = true
			}
		}
		if !from {
			continue
		}
		for _, t := range rg.Spec.To {
			if (t.Group == "" || t.Group == "core") && t.Kind == "Secret" && (t.Name == nil || string(*t.Name) == secret.Name) {
				return true
			}
		}
	}
	return false
}

// footprintLine renders model input and real sets for the latest graph of the controller.
func footprintLine(c *Ctrl, w *World) (model, real string, ok bool) {
	g := c.proc.real.GetLatestGraph()
	if g == nil {
		return "", "", false
	}
	winner := "-"
	if g.Gateway != nil && g.Gateway.Source != nil {
		winner = client.ObjectKeyFromObject(g.Gateway.Source).String()
	}
	parents := func(refs []graph.ParentRef) string {
		var ps []string
		for _, r := range refs {
			ps = append(ps, r.Gateway.String())
		}
		return fpList(ps, "+")
	}
	b01 := func(b bool) string {
		if b {
			return "1"
		}
		return "0"
	}
	var routes []string
	var rkeys []string
	byKey := map[string]string{}
	for k, r := range g.Routes {
		var bs []string
		for _, rule := range r.Spec.Rules {
			for _, br := range rule.BackendRefs {
				s := ""
				if br.SvcNsName != (types.NamespacedName{}) {
					s = br.SvcNsName.String()
				}
				bs = append(bs, fpStr(s))
			}
		}
		id := fmt.Sprintf("%v/%s", k.RouteType, k.NamespacedName)
		rkeys = append(rkeys, id)
		byKey[id] = b01(r.Valid) + ";" + parents(r.ParentRefs) + ";" + fpList(bs, "+")
	}
	for k, r := range g.L4Routes {
		s := ""
		if r.Spec.BackendRef.SvcNsName != (types.NamespacedName{}) {
			s = r.Spec.BackendRef.SvcNsName.String()
		}
		id := "l4/" + k.NamespacedName.String()
		rkeys = append(rkeys, id)
		byKey[id] = b01(r.Valid) + ";" + parents(r.ParentRefs) + ";" + fpStr(s)
	}
	sort.Strings(rkeys)
	for _, k := range rkeys {
		routes = append(routes, byKey[k])
	}

	var sels, ls, resolved []string
	if g.Gateway != nil {
		gwNs := g.Gateway.Source.Namespace
		for _, l := range g.Gateway.Listeners {
			if l.AllowedRouteLabelSelector != nil {
				if sel := graph.GetAllowedRouteLabelSelector(l.Source); sel != nil {
					if len(sel.MatchExpressions) > 0 {
						return "", "", false // the model covers matchLabels only
					}
					// validity is passed along: `isNamespaceReferenced` does NOT look at it (an invalid listener may
					// still be attachable), the weakened variant of the model does
					sels = append(sels, b01(l.Valid)+";"+labelTokens(sel.MatchLabels))
				}
			}
			ref, allowed := "-", true
			if l.Source.TLS != nil && len(l.Source.TLS.CertificateRefs) > 0 {
				cr := l.Source.TLS.CertificateRefs[0]
				ns := gwNs
				if cr.Namespace != nil {
					ns = string(*cr.Namespace)
				}
				nn := types.NamespacedName{Namespace: ns, Name: string(cr.Name)}
				ref = nn.String()
				allowed = ns == gwNs || grantAllows(w.Objects(), gwNs, nn)
			}
			ls = append(ls, string(l.Source.Protocol)+";"+ref+";"+b01(allowed))
			if l.ResolvedSecret != nil {
				resolved = append(resolved, l.ResolvedSecret.String())
			}
		}
	}
	var nss, btps []string
	for _, o := range w.Objects() {
		switch x := o.(type) {
		case *apiv1.Namespace:
			nss = append(nss, client.ObjectKeyFromObject(x).String()+":"+labelTokens(x.Labels))
		case *gatewayv1alpha3.BackendTLSPolicy:
			kind, group, name := "", "", "-"
			if n := len(x.Spec.Validation.CACertificateRefs); n > 0 {
				r := x.Spec.Validation.CACertificateRefs[0]
				kind, group, name = string(r.Kind), string(r.Group), string(r.Name)
			}
			btps = append(btps, fmt.Sprintf("%s;%d;%s;%s;%s;%s", x.Namespace, len(x.Spec.Validation.CACertificateRefs),
				b01(x.Spec.Validation.WellKnownCACertificates != nil), fpStr(kind), fpStr(group), name))
		}
	}
	sort.Strings(resolved)

	// NginxProxy: the parametersRef of the graph's GatewayClass; real = Graph.IsReferenced for every NginxProxy of the cluster
	gcref := "-" // no GatewayClass in the graph
	if g.GatewayClass != nil && g.GatewayClass.Source != nil {
		gcref = "none"
		if r := g.GatewayClass.Source.Spec.ParametersRef; r != nil {
			gcref = fpStr(string(r.Group)) + ";" + fpStr(string(r.Kind)) + ";" + fpStr(r.Name)
		}
	}
	var nps, npRef []string
	// NGF policies: the core the targetRefs are resolved against; real = Graph.IsNGFPolicyRelevant / g.NGFPolicies
	var gws, rks, pols, polRel, polGraph, secMissing []string
	if g.Gateway != nil && g.Gateway.Source != nil {
		gws = append(gws, client.ObjectKeyFromObject(g.Gateway.Source).String())
		for k := range g.IgnoredGateways {
			gws = append(gws, k.String())
		}
	}
	sort.Strings(gws)
	for k := range g.Routes {
		kind := map[graph.RouteType]string{graph.RouteTypeHTTP: "HTTPRoute", graph.RouteTypeGRPC: "GRPCRoute"}[k.RouteType]
		rks = append(rks, kind+";"+k.NamespacedName.String())
	}
	sort.Strings(rks)
	mustGVK := kinds.NewMustExtractGKV(p.Scheme)
	for _, o := range w.Objects() {
		if np, ok := o.(*ngfAPI.NginxProxy); ok {
			nps = append(nps, fpStr(np.Name))
			if g.IsReferenced(np, client.ObjectKeyFromObject(np)) {
				npRef = append(npRef, fpStr(np.Name))
			}
		}
		pol, ok := o.(policies.Policy)
		if !ok {
			continue
		}
		key := p.KindOf(o) + "/" + client.ObjectKeyFromObject(o).String()
		var refs []string
		for _, r := range pol.GetTargetRefs() {
			refs = append(refs, fpStr(string(r.Group))+"^"+fpStr(string(r.Kind))+"^"+fpStr(string(r.Name)))
		}
		pols = append(pols, key+";"+fpStr(pol.GetNamespace())+";"+fpList(refs, "+"))
		gvk := mustGVK(o)
		if g.IsNGFPolicyRelevant(pol, gvk, client.ObjectKeyFromObject(o)) {
			polRel = append(polRel, key)
		}
		if _, in := g.NGFPolicies[graph.PolicyKey{NsName: client.ObjectKeyFromObject(o), GVK: gvk}]; in {
			polGraph = append(polGraph, key)
		}
	}
	// Secrets / ConfigMaps that are referenced although they do not exist (the resolvers record them all the same)
	for k, sec := range g.ReferencedSecrets {
		if sec == nil || sec.Source == nil {
			secMissing = append(secMissing, k.String())
		}
	}
	var cmMissing []string
	for k, cm := range g.ReferencedCaCertConfigMaps {
		if cm == nil || cm.Source == nil {
			cmMissing = append(cmMissing, k.String())
		}
	}
	sort.Strings(secMissing)
	sort.Strings(cmMissing)
	model = fmt.Sprintf("winner=%s routes=%s sels=%s nss=%s hasgw=%s btps=%s ls=%s gcref=%s nps=%s gws=%s rkeys=%s refsvcs=%s pols=%s", winner,
		fpList(routes, "|"), fpList(sels, "|"), fpList(nss, "|"), b01(g.Gateway != nil), fpList(btps, "|"), fpList(ls, "|"),
		gcref, fpList(nps, ","), fpList(gws, "+"), fpList(rks, "|"), strings.ReplaceAll(fpKeys(g.ReferencedServices), ",", "+"), fpList(pols, "|"))
	real = fmt.Sprintf("svcs=%s nss=%s cms=%s secs=%s resolved=%s nprefs=%s polrel=%s polgraph=%s secmissing=%s cmmissing=%s", fpKeys(g.ReferencedServices),
		fpKeys(g.ReferencedNamespaces), fpKeys(g.ReferencedCaCertConfigMaps), fpKeys(g.ReferencedSecrets), fpList(resolved, ","),
		fpList(npRef, ","), fpList(polRel, ","), fpList(polGraph, ","), fpList(secMissing, ","), fpList(cmMissing, ","))
	return model, real, true
}
