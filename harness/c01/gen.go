package c01

import (
	"fmt"
	"time"

	apiv1 "k8s.io/api/core/v1"
	discoveryV1 "k8s.io/api/discovery/v1"
	metav1 "k8s.io/apimachinery/pkg/apis/meta/v1"
	"k8s.io/apimachinery/pkg/types"
	"k8s.io/apimachinery/pkg/util/intstr"
	"sigs.k8s.io/controller-runtime/pkg/client"
	gatewayv1 "sigs.k8s.io/gateway-api/apis/v1"
	gatewayv1alpha2 "sigs.k8s.io/gateway-api/apis/v1alpha2"
	gatewayv1alpha3 "sigs.k8s.io/gateway-api/apis/v1alpha3"
	gatewayv1beta1 "sigs.k8s.io/gateway-api/apis/v1beta1"

	ngfAPI "github.com/nginx/nginx-gateway-fabric/apis/v1alpha1"
	ngfAPIv2 "github.com/nginx/nginx-gateway-fabric/apis/v1alpha2"
	p "github.com/nginx/nginx-gateway-fabric/verifharness/pipeline"
	"github.com/nginx/nginx-gateway-fabric/verifharness/rng"
	"github.com/nginx/nginx-gateway-fabric/verifharness/scen"
)

// Op is one step of a history.
type Op struct {
	Op    string        // "u" create-or-update, "d" delete, "cut" close the batch, "restart"
	Key   p.Key         // u, d
	Obj   client.Object // u: the desired object
	Label string        // which mutator produced it (for signatures and histograms)
}

// History is an initial cluster plus a list of steps.
type History struct {
	Opts p.Options
	Init []client.Object
	Ops  []Op
	Tags map[string]int
}

func ptr[T any](v T) *T { return &v }

var svcNames = []string{"svc0", "svc1", "svc2"}

// mutate returns an updated copy of obj and a label, or nil when no mutator applies.
func mutate(r *rng.R, obj client.Object, namespaces []string) (client.Object, string) {
	o := obj.DeepCopyObject().(client.Object)
	// metadata-only change: irrelevant for every kind except Namespace labels / EndpointSlice labels
	if r.Chance(6, 100) {
		a := o.GetAnnotations()
		if a == nil {
			a = map[string]string{}
		}
		a["verif/touched"] = fmt.Sprint(r.Intn(1000))
		o.SetAnnotations(a)
		return o, "annotation"
	}
	if o.GetDeletionTimestamp() == nil && r.Chance(4, 100) {
		// deletion requested while a finalizer holds the object: it stays in the cluster (Terminating), possibly for good
		markTerminating(o)
		return o, "mark-terminating"
	}
	switch x := o.(type) {
	case *ngfAPI.NginxGateway:
		x.Spec.Logging = &ngfAPI.Logging{Level: ptr(ngfAPI.ControllerLogLevel(rng.Pick(r, []string{"info", "debug", "error", "verbose"})))}
		return x, "ng-loglevel"
	case *apiv1.Service:
		if p.KeyOf(x) == ngfSvcKey && r.Chance(35, 100) {
			// the role the handler's filter is there for: the addresses of the Gateway status
			switch r.Intn(3) {
			case 0:
				x.Spec.Type = apiv1.ServiceTypeLoadBalancer
				x.Status.LoadBalancer.Ingress = []apiv1.LoadBalancerIngress{{IP: fmt.Sprintf("203.0.113.%d", r.Range(1, 250))}}
				return x, "svc-lb-ingress"
			case 1:
				x.Spec.Type = apiv1.ServiceTypeLoadBalancer
				x.Status.LoadBalancer.Ingress = append(x.Status.LoadBalancer.Ingress, apiv1.LoadBalancerIngress{Hostname: fmt.Sprintf("lb%d.example.com", r.Intn(9))})
				return x, "svc-lb-ingress"
			default:
				if x.Spec.Type == apiv1.ServiceTypeLoadBalancer {
					x.Spec.Type, x.Status.LoadBalancer.Ingress = apiv1.ServiceTypeClusterIP, nil
				} else {
					x.Spec.Type = apiv1.ServiceTypeLoadBalancer
					x.Status.LoadBalancer.Ingress = []apiv1.LoadBalancerIngress{{IP: "203.0.113.10"}}
				}
				return x, "svc-lb-type"
			}
		}
		if len(x.Spec.Ports) == 0 {
			x.Spec.Ports = []apiv1.ServicePort{{Name: "p80", Port: 80, TargetPort: intstr.FromInt32(8080), Protocol: apiv1.ProtocolTCP}}
			return x, "svc-add-port"
		}
		i := r.Intn(len(x.Spec.Ports))
		hasUDP := false
		for _, sp := range x.Spec.Ports {
			if sp.Protocol == apiv1.ProtocolUDP && sp.Port == x.Spec.Ports[i].Port {
				hasUDP = true
			}
		}
		if x.Spec.Ports[i].Protocol != apiv1.ProtocolUDP && !hasUDP && r.Chance(18, 100) {
			// same port number for a second protocol (53/TCP + 53/UDP): fewer distinct (port,targetPort) pairs than entries
			dup := x.Spec.Ports[i]
			dup.Name, dup.Protocol = dup.Name+"-udp", apiv1.ProtocolUDP
			if len(x.Spec.Ports) > 1 && r.Bool() {
				x.Spec.Ports[(i+1)%len(x.Spec.Ports)] = dup // replaces another entry: count unchanged
				return x, "svc-replace-by-dup-port"
			}
			x.Spec.Ports = append(x.Spec.Ports, dup)
			return x, "svc-add-dup-port"
		}
		if len(x.Spec.Ports) > 1 && r.Chance(18, 100) {
			// replace one entry by a port routes may be waiting for, keeping the count
			np := rng.Pick(r, []int32{80, 8080, 81, 9000})
			x.Spec.Ports[i] = apiv1.ServicePort{Name: fmt.Sprintf("p%d", np), Port: np, TargetPort: intstr.FromInt32(np + 8000), Protocol: apiv1.ProtocolTCP}
			return x, "svc-replace-port"
		}
		switch r.Intn(9) {
		case 0:
			x.Spec.Ports[i].Port = rng.Pick(r, []int32{80, 81, 8080})
			return x, "svc-port"
		case 1:
			x.Spec.Ports[i].TargetPort = intstr.FromInt32(rng.Pick(r, []int32{8080, 8081, 16080}))
			return x, "svc-targetport"
		case 2:
			x.Spec.Ports[i].Name = rng.Pick(r, []string{"p80", "p8080", "web", "other"})
			return x, "svc-portname"
		case 3:
			if x.Spec.Ports[i].AppProtocol == nil {
				x.Spec.Ports[i].AppProtocol = ptr(rng.Pick(r, []string{"kubernetes.io/h2c", "kubernetes.io/ws", "kubernetes.io/wss"}))
			} else {
				x.Spec.Ports[i].AppProtocol = nil
			}
			return x, "svc-appprotocol"
		case 4:
			if x.Spec.Type == apiv1.ServiceTypeExternalName {
				x.Spec.Type = apiv1.ServiceTypeClusterIP
				x.Spec.ExternalName = ""
			} else {
				x.Spec.Type = apiv1.ServiceTypeExternalName
				x.Spec.ExternalName = "ext.example.com"
			}
			return x, "svc-type"
		case 5:
			if len(x.Spec.IPFamilies) == 1 && x.Spec.IPFamilies[0] == apiv1.IPv4Protocol {
				x.Spec.IPFamilies = []apiv1.IPFamily{apiv1.IPv6Protocol}
			} else {
				x.Spec.IPFamilies = []apiv1.IPFamily{apiv1.IPv4Protocol}
			}
			return x, "svc-ipfamilies"
		case 6:
			x.Spec.Ports = append(x.Spec.Ports, apiv1.ServicePort{Name: "extra", Port: 9000, TargetPort: intstr.FromInt32(9000), Protocol: apiv1.ProtocolTCP})
			return x, "svc-add-port"
		case 7:
			x.Spec.Ports = x.Spec.Ports[:len(x.Spec.Ports)-1]
			return x, "svc-remove-port"
		default:
			x.Spec.Ports[i].TargetPort = intstr.FromString(rng.Pick(r, []string{"p80", "web"}))
			return x, "svc-targetport-name"
		}
	case *discoveryV1.EndpointSlice:
		switch r.Intn(6) {
		case 0:
			x.Endpoints = append(x.Endpoints, discoveryV1.Endpoint{
				Addresses:  []string{fmt.Sprintf("10.9.%d.%d", r.Intn(4), r.Range(1, 9))},
				Conditions: discoveryV1.EndpointConditions{Ready: ptr(true)},
			})
			return x, "es-add-endpoint"
		case 1:
			x.Endpoints = nil
			return x, "es-empty"
		case 2:
			if len(x.Endpoints) > 0 {
				i := r.Intn(len(x.Endpoints))
				rd := x.Endpoints[i].Conditions.Ready
				x.Endpoints[i].Conditions.Ready = ptr(rd != nil && !*rd)
				return x, "es-ready-flip"
			}
			return nil, ""
		case 3:
			if len(x.Ports) > 0 {
				if r.Chance(40, 100) {
					x.Ports[0].Port = nil // "all ports": the resolver falls back to the Service's targetPort
					return x, "es-port-nil"
				}
				x.Ports[0].Port = ptr(rng.Pick(r, []int32{8080, 8081, 16080}))
				return x, "es-port"
			}
			return nil, ""
		case 4:
			x.Labels = map[string]string{discoveryV1.LabelServiceName: rng.Pick(r, svcNames)}
			return x, "es-owner-label"
		default:
			if len(x.Endpoints) > 0 {
				x.Endpoints = x.Endpoints[:len(x.Endpoints)-1]
				return x, "es-remove-endpoint"
			}
			return nil, ""
		}
	case *apiv1.Secret:
		switch r.Intn(4) {
		case 0, 1:
			c, k := p.CertPair(r.Intn(6) + 20)
			x.Type = apiv1.SecretTypeTLS
			x.Data = map[string][]byte{apiv1.TLSCertKey: c, apiv1.TLSPrivateKeyKey: k}
			return x, "secret-rotate"
		case 2:
			x.Data[apiv1.TLSCertKey] = []byte("not a cert")
			return x, "secret-break"
		default:
			if x.Type == apiv1.SecretTypeTLS {
				x.Type = apiv1.SecretTypeOpaque
			} else {
				x.Type = apiv1.SecretTypeTLS
			}
			return x, "secret-type"
		}
	case *apiv1.Namespace:
		if x.Labels == nil {
			x.Labels = map[string]string{}
		}
		if _, ok := x.Labels["team"]; ok {
			delete(x.Labels, "team")
		} else {
			x.Labels["team"] = "dev"
		}
		return x, "ns-relabel"
	case *apiv1.ConfigMap:
		if r.Bool() {
			c, _ := p.CertPair(r.Intn(3) + 30)
			x.Data = map[string]string{"ca.crt": string(c)}
			return x, "cm-rotate"
		}
		x.Data = map[string]string{"ca.crt": "garbage"}
		return x, "cm-break"
	case *gatewayv1beta1.ReferenceGrant:
		switch r.Intn(3) {
		case 0:
			if len(x.Spec.From) > 0 {
				x.Spec.From[0].Namespace = gatewayv1.Namespace(rng.Pick(r, namespaces))
				return x, "grant-from-ns"
			}
		case 1:
			if len(x.Spec.To) > 0 {
				if x.Spec.To[0].Name == nil {
					x.Spec.To[0].Name = ptr(gatewayv1.ObjectName(rng.Pick(r, []string{"svc0", "svc1", "tls-a", "tls-b"})))
				} else {
					x.Spec.To[0].Name = nil
				}
				return x, "grant-to-name"
			}
		default:
			if len(x.Spec.To) > 0 {
				x.Spec.To[0].Kind = gatewayv1.Kind(rng.Pick(r, []string{"Service", "Secret"}))
				return x, "grant-to-kind"
			}
		}
		return nil, ""
	case *gatewayv1.GatewayClass:
		switch r.Intn(3) {
		case 0, 1:
			if string(x.Spec.ControllerName) == p.DefaultController {
				x.Spec.ControllerName = scen.ForeignController
			} else {
				x.Spec.ControllerName = p.DefaultController
			}
			return x, "gc-controller"
		default:
			if x.Spec.ParametersRef == nil {
				x.Spec.ParametersRef = &gatewayv1.ParametersReference{Group: ngfAPI.GroupName, Kind: "NginxProxy", Name: "np"}
			} else {
				x.Spec.ParametersRef = nil
			}
			return x, "gc-paramsref"
		}
	case *gatewayv1.Gateway:
		switch r.Intn(5) {
		case 0:
			x.Spec.GatewayClassName = gatewayv1.ObjectName(rng.Pick(r, []string{p.DefaultClass, "other", "nginx-2"}))
			return x, "gw-class"
		case 1:
			if len(x.Spec.Listeners) > 0 {
				i := r.Intn(len(x.Spec.Listeners))
				x.Spec.Listeners[i].Hostname = ptr(gatewayv1.Hostname(rng.Pick(r, []string{"*.example.com", "cafe.example.com", "bar.org"})))
				return x, "gw-listener-hostname"
			}
		case 2:
			if len(x.Spec.Listeners) > 1 {
				x.Spec.Listeners = x.Spec.Listeners[:len(x.Spec.Listeners)-1]
				return x, "gw-remove-listener"
			}
		case 3:
			if len(x.Spec.Listeners) > 0 {
				i := r.Intn(len(x.Spec.Listeners))
				l := &x.Spec.Listeners[i]
				l.AllowedRoutes = &gatewayv1.AllowedRoutes{Namespaces: &gatewayv1.RouteNamespaces{
					From: ptr(gatewayv1.NamespacesFromSelector), Selector: nil,
				}}
				l.AllowedRoutes.Namespaces.Selector = selectorTeamDev()
				return x, "gw-selector"
			}
		default:
			if len(x.Spec.Listeners) > 0 {
				i := r.Intn(len(x.Spec.Listeners))
				if x.Spec.Listeners[i].TLS != nil && len(x.Spec.Listeners[i].TLS.CertificateRefs) > 0 {
					x.Spec.Listeners[i].TLS.CertificateRefs[0].Name = gatewayv1.ObjectName(rng.Pick(r, []string{"tls-a", "tls-b", "tls-missing"}))
					return x, "gw-certref"
				}
			}
		}
		x.Labels = map[string]string{"touched": fmt.Sprint(r.Intn(100))}
		return x, "gw-labels"
	case *gatewayv1.HTTPRoute:
		switch r.Intn(4) {
		case 0, 1:
			for i := range x.Spec.Rules {
				for j := range x.Spec.Rules[i].BackendRefs {
					if r.Bool() {
						br := &x.Spec.Rules[i].BackendRefs[j]
						br.Name = gatewayv1.ObjectName(rng.Pick(r, svcNames))
						if x.Namespace == podConfig.Namespace && r.Bool() {
							br.Name = gatewayv1.ObjectName(podConfig.ServiceName)
						}
						if r.Chance(30, 100) {
							br.Namespace = ptr(gatewayv1.Namespace(rng.Pick(r, namespaces)))
						}
						return x, "hr-backend"
					}
				}
			}
			if len(x.Spec.Rules) > 0 {
				x.Spec.Rules[0].BackendRefs = append(x.Spec.Rules[0].BackendRefs, gatewayv1.HTTPBackendRef{
					BackendRef: p.BackendRef(p.Backend{Ref: rng.Pick(r, svcNames), Port: 80, Weight: -1}),
				})
				return x, "hr-add-backend"
			}
		case 2:
			if len(x.Spec.ParentRefs) > 0 {
				x.Spec.ParentRefs[0].Name = gatewayv1.ObjectName(rng.Pick(r, []string{"gw0", "gw1", "foreign-gw"}))
				return x, "hr-parent"
			}
		default:
			x.Spec.Hostnames = []gatewayv1.Hostname{gatewayv1.Hostname(rng.Pick(r, []string{"cafe.example.com", "foo.example.com", "bar.org"}))}
			return x, "hr-hostname"
		}
		return nil, ""
	case *gatewayv1.GRPCRoute:
		for i := range x.Spec.Rules {
			for j := range x.Spec.Rules[i].BackendRefs {
				x.Spec.Rules[i].BackendRefs[j].Name = gatewayv1.ObjectName(rng.Pick(r, svcNames))
				return x, "gr-backend"
			}
		}
		if len(x.Spec.ParentRefs) > 0 {
			x.Spec.ParentRefs[0].Name = gatewayv1.ObjectName(rng.Pick(r, []string{"gw0", "gw1"}))
			return x, "gr-parent"
		}
		return nil, ""
	case *gatewayv1alpha2.TLSRoute:
		if len(x.Spec.Rules) > 0 && len(x.Spec.Rules[0].BackendRefs) > 0 && r.Bool() {
			x.Spec.Rules[0].BackendRefs[0].Name = gatewayv1.ObjectName(rng.Pick(r, svcNames))
			return x, "tr-backend"
		}
		if len(x.Spec.ParentRefs) > 0 {
			x.Spec.ParentRefs[0].Name = gatewayv1.ObjectName(rng.Pick(r, []string{"gw0", "gw1"}))
			return x, "tr-parent"
		}
		return nil, ""
	case *gatewayv1alpha3.BackendTLSPolicy:
		if r.Bool() {
			x.Spec.Validation.Hostname = gatewayv1.PreciseHostname(rng.Pick(r, []string{"backend.example.com", "b2.example.com"}))
			return x, "btp-hostname"
		}
		if len(x.Spec.TargetRefs) > 0 {
			x.Spec.TargetRefs[0].Name = gatewayv1.ObjectName(rng.Pick(r, svcNames))
			return x, "btp-target"
		}
		return nil, ""
	case *ngfAPI.ClientSettingsPolicy:
		if r.Bool() {
			x.Spec.Body = &ngfAPI.ClientBody{MaxSize: ptr(ngfAPI.Size(rng.Pick(r, []string{"10m", "20m", "1k"})))}
			return x, "csp-body"
		}
		x.Spec.TargetRef.Name = gatewayv1.ObjectName(rng.Pick(r, []string{"gw0", "gw1"}))
		return x, "csp-target"
	case *ngfAPIv2.ObservabilityPolicy:
		routes := []string{"hr0", "hr1", "hr2", "hr3", "hr-absent", "hr-absent2"}
		switch r.Intn(3) {
		case 0:
			rng.Shuffle(r, x.Spec.TargetRefs)
			return x, "obs-targets-shuffled"
		case 1:
			if len(x.Spec.TargetRefs) > 0 {
				x.Spec.TargetRefs[r.Intn(len(x.Spec.TargetRefs))].Name = gatewayv1.ObjectName(rng.Pick(r, routes))
				return x, "obs-target-moved"
			}
		default:
			x.Spec.Tracing = &ngfAPIv2.Tracing{Strategy: ngfAPIv2.TraceStrategyRatio, Ratio: ptr(int32(r.Range(1, 50)))}
			return x, "obs-ratio"
		}
		return nil, ""
	case *ngfAPI.UpstreamSettingsPolicy:
		switch r.Intn(3) {
		case 0:
			rng.Shuffle(r, x.Spec.TargetRefs)
			return x, "usp-targets-shuffled"
		case 1:
			if len(x.Spec.TargetRefs) > 0 {
				x.Spec.TargetRefs[r.Intn(len(x.Spec.TargetRefs))].Name = gatewayv1.ObjectName(rng.Pick(r, []string{"svc0", "svc1", "svc2", "svc-absent"}))
				return x, "usp-target-moved"
			}
		default:
			x.Spec.ZoneSize = ptr(ngfAPI.Size(rng.Pick(r, []string{"1m", "2m", "512k"})))
			return x, "usp-zone"
		}
		return nil, ""
	case *ngfAPI.NginxProxy:
		if r.Bool() {
			x.Spec.IPFamily = ptr(rng.Pick(r, []ngfAPI.IPFamilyType{ngfAPI.Dual, ngfAPI.IPv4, ngfAPI.IPv6}))
			return x, "np-ipfamily"
		}
		x.Spec.DisableHTTP2 = !x.Spec.DisableHTTP2
		return x, "np-http2"
	}
	return nil, ""
}

// Generate draws a history: a scen scenario split into an initial cluster and a pool created later,
// followed by mutations biased to dependency edges, with random batch cuts and restarts.
func Generate(r *rng.R, maxOps int) *History {
	cfg := scen.DefaultConfig()
	cfg.PForeignClass, cfg.PMissingClass, cfg.PCrossNS, cfg.PBackendTLS, cfg.PPolicies = 40, 8, 35, 35, 35
	s := scen.Generate(r.Fork(), cfg)
	h := &History{Opts: s.Opts, Tags: map[string]int{}}
	for k, v := range s.Tags {
		h.Tags["scen:"+k] += v
	}
	objs := append([]client.Object(nil), s.Objs...)
	// property-specific additions: an NginxProxy that the class may reference, an UpstreamSettingsPolicy
	// on a service, a route that is attached only to a Gateway that loses the election (§7 row 9)
	np := &ngfAPI.NginxProxy{ObjectMeta: p.Meta("", "np", 0)}
	np.Spec.IPFamily = ptr(ngfAPI.Dual) // CRD default
	objs = append(objs, np)
	if r.Chance(30, 100) {
		for _, o := range objs {
			if gc, ok := o.(*gatewayv1.GatewayClass); ok && gc.Name == p.DefaultClass {
				gc.Spec.ParametersRef = &gatewayv1.ParametersReference{Group: ngfAPI.GroupName, Kind: "NginxProxy", Name: "np"}
				h.Tags["class-paramsref"]++
			}
		}
	}
	if r.Chance(40, 100) {
		usp := &ngfAPI.UpstreamSettingsPolicy{ObjectMeta: p.Meta("default", "usp", 50)}
		usp.Spec.TargetRefs = []gatewayv1alpha2.LocalPolicyTargetReference{{Kind: "Service", Name: "svc0"}}
		if r.Bool() {
			// several targets, in either order: absent first / present first
			extra := gatewayv1alpha2.LocalPolicyTargetReference{Kind: "Service", Name: gatewayv1.ObjectName(rng.Pick(r, []string{"svc-absent", "svc1", "svc2"}))}
			if r.Bool() {
				usp.Spec.TargetRefs = append(usp.Spec.TargetRefs, extra)
			} else {
				usp.Spec.TargetRefs = append([]gatewayv1alpha2.LocalPolicyTargetReference{extra}, usp.Spec.TargetRefs...)
			}
			h.Tags["usp-multitarget"]++
		}
		usp.Spec.ZoneSize = ptr(ngfAPI.Size("1m"))
		objs = append(objs, usp)
		h.Tags["usp"]++
	}
	if r.Chance(45, 100) {
		// ObservabilityPolicy with several route targets, some absent, in either order
		op := &ngfAPIv2.ObservabilityPolicy{ObjectMeta: p.Meta(rng.Pick(r, cfg.Namespaces), "obs", 51)}
		op.Spec.Tracing = &ngfAPIv2.Tracing{Strategy: ngfAPIv2.TraceStrategyRatio, Ratio: ptr(int32(10))}
		names := []string{"hr-absent", rng.Pick(r, []string{"hr0", "hr1", "hr2"})}
		if r.Chance(40, 100) {
			names = append(names, rng.Pick(r, []string{"hr-absent2", "hr3", "hr1"}))
		}
		rng.Shuffle(r, names)
		seen := map[string]bool{}
		for _, n := range names {
			if seen[n] {
				continue
			}
			seen[n] = true
			op.Spec.TargetRefs = append(op.Spec.TargetRefs, gatewayv1alpha2.LocalPolicyTargetReference{
				Group: "gateway.networking.k8s.io", Kind: "HTTPRoute", Name: gatewayv1.ObjectName(n)})
		}
		objs = append(objs, op)
		h.Tags["obs-multitarget"]++
	}

	if r.Chance(45, 100) {
		// the objects the handler's objectFilters single out, in ordinary roles: the front Service of NGF as the
		// backend of a route, the NginxGateway control-plane configuration
		nsNGF, ngfSvc, esNGF, routeLoop, ngfCfg := ngfObjects()
		objs = append(objs, nsNGF, ngfSvc)
		h.Tags["special:front-svc"]++
		if r.Chance(30, 100) {
			ngfSvc.Spec.Type, ngfSvc.Status.LoadBalancer.Ingress = apiv1.ServiceTypeClusterIP, nil
		}
		if r.Chance(75, 100) {
			for _, o := range objs {
				if gw, ok := o.(*gatewayv1.Gateway); ok && r.Bool() {
					routeLoop.Spec.ParentRefs = []gatewayv1.ParentReference{p.ParentRef(gw.Namespace, gw.Name, "")}
				}
			}
			objs = append(objs, routeLoop, esNGF)
			h.Tags["special:front-svc-as-backend"]++
		}
		if r.Chance(65, 100) {
			objs = append(objs, ngfCfg)
			h.Tags["special:control-config"]++
		}
		if r.Chance(15, 100) {
			other := &ngfAPI.NginxGateway{ObjectMeta: p.Meta(controlConfig.Namespace, "other-config", 14)}
			other.Spec.Logging = &ngfAPI.Logging{Level: ptr(ngfAPI.ControllerLogLevelDebug)}
			objs = append(objs, other)
			h.Tags["special:foreign-control-config"]++
		}
		if r.Chance(15, 100) {
			objs = append(objs, p.TLSSecret(podConfig.Namespace, podConfig.ServiceName, 2))
			h.Tags["special:secret-named-like-front-svc"]++
		}
	}

	// split: some objects exist before the controller starts, the others are created by the history
	var pool []client.Object
	for _, o := range objs {
		keep := 75
		switch p.KindOf(o) {
		case "Namespace":
			keep = 95
		case "EndpointSlice", "Service", "ReferenceGrant", "Secret":
			keep = 65
		case "ObservabilityPolicy", "UpstreamSettingsPolicy", "ClientSettingsPolicy":
			keep = 40 // mostly upserted after the graph with their targets exists
		}
		if r.Chance(keep, 100) {
			h.Init = append(h.Init, o)
		} else {
			pool = append(pool, o)
		}
	}
	present := map[p.Key]client.Object{}
	for _, o := range h.Init {
		present[p.KeyOf(o)] = o
	}
	deleted := []client.Object{}
	nops := r.Range(3, maxOps)
	weights := map[string]int{
		"EndpointSlice": 6, "Service": 5, "Secret": 3, "ReferenceGrant": 3, "Namespace": 3, "GatewayClass": 3,
		"Gateway": 3, "HTTPRoute": 4, "GRPCRoute": 2, "TLSRoute": 2, "BackendTLSPolicy": 2, "ConfigMap": 2,
		"ClientSettingsPolicy": 4, "UpstreamSettingsPolicy": 3, "ObservabilityPolicy": 4, "NginxProxy": 2,
		"NginxGateway": 3,
	}
	pickPresent := func() client.Object {
		var keys []p.Key
		hot := referencedKeys(present)
		for k := range present {
			w := weights[k.Kind]
			if hot[k] {
				w *= 4 // dependency edges: objects some route / listener / policy points at
			}
			if k == ngfSvcKey {
				w *= 3 // the filtered Service: deletes, re-creations, port edits, status edits
			}
			for i := 0; i < w; i++ {
				keys = append(keys, k)
			}
		}
		if len(keys) == 0 {
			return nil
		}
		sortKeys(keys)
		return present[keys[r.Intn(len(keys))]]
	}
	for i := 0; i < nops; i++ {
		k := r.Intn(100)
		switch {
		case k < 18 && len(pool)+len(deleted) > 0: // create
			var o client.Object
			if len(pool) > 0 && (len(deleted) == 0 || r.Bool()) {
				j := r.Intn(len(pool))
				o = pool[j]
				pool = append(pool[:j], pool[j+1:]...)
			} else {
				j := r.Intn(len(deleted))
				o = deleted[j]
				deleted = append(deleted[:j], deleted[j+1:]...)
			}
			if _, ok := present[p.KeyOf(o)]; ok {
				continue
			}
			present[p.KeyOf(o)] = o
			h.Ops = append(h.Ops, Op{Op: "u", Key: p.KeyOf(o), Obj: o, Label: "create"})
			h.Tags["op:create:"+p.KindOf(o)]++
		case k < 40: // delete
			o := pickPresent()
			if o == nil || (p.KindOf(o) == "Namespace" && !r.Chance(15, 100)) {
				continue
			}
			delete(present, p.KeyOf(o))
			deleted = append(deleted, o)
			h.Ops = append(h.Ops, Op{Op: "d", Key: p.KeyOf(o), Label: "delete"})
			h.Tags["op:delete:"+p.KindOf(o)]++
		case k < 95: // update
			o := pickPresent()
			if o == nil {
				continue
			}
			n, label := mutate(r, o, cfg.Namespaces)
			if n == nil {
				continue
			}
			present[p.KeyOf(o)] = n
			h.Ops = append(h.Ops, Op{Op: "u", Key: p.KeyOf(o), Obj: n, Label: label})
			h.Tags["op:update:"+label]++
		default:
			h.Ops = append(h.Ops, Op{Op: "restart"})
			h.Tags["op:restart"]++
			continue
		}
		if r.Chance(55, 100) {
			h.Ops = append(h.Ops, Op{Op: "cut"})
		}
	}
	return h
}

// markTerminating: what the object looks like once its deletion was requested while a finalizer holds it.
func markTerminating(o client.Object) {
	o.SetFinalizers(append(o.GetFinalizers(), HoldFinalizer))
	ts := metav1.NewTime(p.Epoch.Add(1000 * time.Hour))
	o.SetDeletionTimestamp(&ts)
}

func selectorTeamDev() *metav1.LabelSelector {
	return &metav1.LabelSelector{MatchLabels: map[string]string{"team": "dev"}}
}

// referencedKeys: Services named by backendRefs, EndpointSlices owned by them, Secrets named by listeners,
// ConfigMaps named by BackendTLSPolicies (whatever their validity: near misses are wanted too).
func referencedKeys(present map[p.Key]client.Object) map[p.Key]bool {
	hot := map[p.Key]bool{}
	svc := func(routeNS string, br gatewayv1.BackendObjectReference) {
		ns := routeNS
		if br.Namespace != nil {
			ns = string(*br.Namespace)
		}
		hot[p.Key{Kind: "Service", NN: types.NamespacedName{Namespace: ns, Name: string(br.Name)}}] = true
	}
	for _, o := range present {
		switch x := o.(type) {
		case *gatewayv1.HTTPRoute:
			for _, r := range x.Spec.Rules {
				for _, b := range r.BackendRefs {
					svc(x.Namespace, b.BackendObjectReference)
				}
			}
		case *gatewayv1.GRPCRoute:
			for _, r := range x.Spec.Rules {
				for _, b := range r.BackendRefs {
					svc(x.Namespace, b.BackendObjectReference)
				}
			}
		case *gatewayv1alpha2.TLSRoute:
			for _, r := range x.Spec.Rules {
				for _, b := range r.BackendRefs {
					svc(x.Namespace, b.BackendObjectReference)
				}
			}
		case *gatewayv1.Gateway:
			for _, l := range x.Spec.Listeners {
				if l.TLS == nil {
					continue
				}
				for _, c := range l.TLS.CertificateRefs {
					ns := x.Namespace
					if c.Namespace != nil {
						ns = string(*c.Namespace)
					}
					hot[p.Key{Kind: "Secret", NN: types.NamespacedName{Namespace: ns, Name: string(c.Name)}}] = true
				}
			}
		case *gatewayv1alpha3.BackendTLSPolicy:
			for _, c := range x.Spec.Validation.CACertificateRefs {
				hot[p.Key{Kind: "ConfigMap", NN: types.NamespacedName{Namespace: x.Namespace, Name: string(c.Name)}}] = true
			}
		}
	}
	for k, o := range present {
		if es, ok := o.(*discoveryV1.EndpointSlice); ok {
			owner := p.Key{Kind: "Service", NN: types.NamespacedName{Namespace: es.Namespace, Name: es.Labels[discoveryV1.LabelServiceName]}}
			if hot[owner] {
				hot[k] = true
			}
		}
	}
	return hot
}
