package c01

import (
	"encoding/json"
	"fmt"
	"os"
	"path/filepath"

	apiv1 "k8s.io/api/core/v1"
	discoveryV1 "k8s.io/api/discovery/v1"
	"k8s.io/apimachinery/pkg/util/intstr"
	"sigs.k8s.io/controller-runtime/pkg/client"
	gatewayv1 "sigs.k8s.io/gateway-api/apis/v1"
	gatewayv1alpha2 "sigs.k8s.io/gateway-api/apis/v1alpha2"
	gatewayv1alpha3 "sigs.k8s.io/gateway-api/apis/v1alpha3"
	gatewayv1beta1 "sigs.k8s.io/gateway-api/apis/v1beta1"

	ngfAPI "github.com/nginx/nginx-gateway-fabric/apis/v1alpha1"
	ngfAPIv2 "github.com/nginx/nginx-gateway-fabric/apis/v1alpha2"
	p "github.com/nginx/nginx-gateway-fabric/verifharness/pipeline"
	"github.com/nginx/nginx-gateway-fabric/verifharness/scen"
)

// Directed histories along the dependency edges named in DESIGN §6 C01 / §7 rows 7, 8, 9, 23. They are
// written once to corpus/C01 (`-emit-directed <dir>`) and replayed first by every check.
func directed() map[string]*History {
	ns := func() []client.Object {
		return []client.Object{
			p.Namespace("default", map[string]string{"kubernetes.io/metadata.name": "default"}),
			p.Namespace("team-a", map[string]string{"kubernetes.io/metadata.name": "team-a", "team": "dev"}),
		}
	}
	gc := p.GatewayClass(p.DefaultClass, p.DefaultController, 1)
	gw := p.Gateway("default", "gw0", p.DefaultClass, 2,
		p.Listener{Name: "http", Port: 80, Protocol: "HTTP", FromNS: "All"},
		p.Listener{Name: "https", Port: 443, Protocol: "HTTPS", Hostname: "cafe.example.com", CertRefs: []string{"tls-a"}, FromNS: "All"})
	route := p.HTTPRoute("default", "hr0", 3, []gatewayv1.ParentReference{p.ParentRef("", "gw0", "")}, []string{"cafe.example.com"},
		p.HTTPRule([]gatewayv1.HTTPRouteMatch{p.PathMatch("PathPrefix", "/")}, p.Backend{Ref: "svc0", Port: 80, Weight: -1}))
	svc0 := p.Service("default", "svc0", 80)
	es0 := p.EndpointSlice("default", "svc0", "s0", []int32{80}, "10.0.0.5", "10.0.0.6")
	sec := p.TLSSecret("default", "tls-a", 1)
	base := func(extra ...client.Object) []client.Object {
		return append(append(ns(), gc, gw, route, svc0, es0, sec), extra...)
	}
	upd := func(o client.Object, label string, f func(client.Object)) Op {
		n := o.DeepCopyObject().(client.Object)
		f(n)
		return Op{Op: "u", Key: p.KeyOf(o), Obj: n, Label: label}
	}
	del := func(o client.Object) Op { return Op{Op: "d", Key: p.KeyOf(o), Label: "delete"} }
	cut := Op{Op: "cut"}
	hs := map[string]*History{}
	add := func(name string, init []client.Object, ops ...Op) {
		hs[name] = &History{Opts: p.DefaultOptions(), Init: init, Ops: ops, Tags: map[string]int{"directed:" + name: 1}}
	}

	// §7 row 7: EndpointSlice deleted / emptied / re-owned
	add("es-delete", base(), del(es0), cut)
	add("es-empty", base(), upd(es0, "es-empty", func(o client.Object) { o.(*discoveryV1.EndpointSlice).Endpoints = nil }), cut)
	add("es-reowned", base(), upd(es0, "es-owner-label", func(o client.Object) {
		o.(*discoveryV1.EndpointSlice).Labels = map[string]string{discoveryV1.LabelServiceName: "svc9"}
	}), cut)
	// §7 row 8: Service updates that ServicePortsChangedPredicate filters
	add("svc-port-name", base(), upd(svc0, "svc-portname", func(o client.Object) { o.(*apiv1.Service).Spec.Ports[0].Name = "web" }), cut)
	add("svc-app-protocol", base(), upd(svc0, "svc-appprotocol", func(o client.Object) {
		o.(*apiv1.Service).Spec.Ports[0].AppProtocol = ptr("kubernetes.io/h2c")
	}), cut)
	add("svc-type-externalname", base(), upd(svc0, "svc-type", func(o client.Object) {
		s := o.(*apiv1.Service)
		s.Spec.Type, s.Spec.ExternalName = apiv1.ServiceTypeExternalName, "ext.example.com"
	}), cut)
	add("svc-ip-families", base(), upd(svc0, "svc-ipfamilies", func(o client.Object) {
		o.(*apiv1.Service).Spec.IPFamilies = []apiv1.IPFamily{apiv1.IPv6Protocol}
	}), cut)
	npV4 := &ngfAPI.NginxProxy{ObjectMeta: p.Meta("", "np", 0)}
	npV4.Spec.IPFamily = ptr(ngfAPI.IPv4)
	gcNP := p.GatewayClass(p.DefaultClass, p.DefaultController, 1)
	gcNP.Spec.ParametersRef = &gatewayv1.ParametersReference{Group: ngfAPI.GroupName, Kind: "NginxProxy", Name: "np"}
	add("svc-ip-families-nginxproxy-ipv4", append(ns(), gcNP, npV4, gw, route, svc0, es0, sec),
		upd(svc0, "svc-ipfamilies", func(o client.Object) {
			o.(*apiv1.Service).Spec.IPFamilies = []apiv1.IPFamily{apiv1.IPv6Protocol}
		}), cut)
	add("nginxproxy-ipfamily-changed", append(ns(), gcNP, npV4, gw, route, svc0, es0, sec),
		upd(npV4, "np-ipfamily", func(o client.Object) { o.(*ngfAPI.NginxProxy).Spec.IPFamily = ptr(ngfAPI.IPv6) }), cut)
	esNil := p.EndpointSlice("default", "svc0", "s0", []int32{80}, "10.0.0.5", "10.0.0.6")
	esNil.Ports[0].Port = nil
	add("svc-target-port-with-portless-slice", append(ns(), gc, gw, route, svc0, esNil, sec),
		upd(svc0, "svc-targetport", func(o client.Object) { o.(*apiv1.Service).Spec.Ports[0].TargetPort = intstr.FromInt32(9999) }), cut)
	add("svc-port-number", base(), upd(svc0, "svc-port", func(o client.Object) { o.(*apiv1.Service).Spec.Ports[0].Port = 81 }), cut)
	// Service referenced later / created later / deleted
	add("svc-created-later", append(ns(), gc, gw, route, sec), Op{Op: "u", Key: p.KeyOf(svc0), Obj: svc0, Label: "create"}, cut,
		Op{Op: "u", Key: p.KeyOf(es0), Obj: es0, Label: "create"}, cut)
	add("svc-deleted", base(), del(svc0), cut)
	add("route-created-later", append(ns(), gc, gw, svc0, es0, sec), Op{Op: "u", Key: p.KeyOf(route), Obj: route, Label: "create"}, cut,
		upd(es0, "es-empty", func(o client.Object) { o.(*discoveryV1.EndpointSlice).Endpoints = nil }), cut)
	// §7 row 9: the route is attached only to a Gateway that loses the election
	gwOld := p.Gateway("default", "gw-old", p.DefaultClass, 1, p.Listener{Name: "http", Port: 80, Protocol: "HTTP", FromNS: "All"})
	routeIgn := p.HTTPRoute("default", "hr-ign", 4, []gatewayv1.ParentReference{p.ParentRef("", "gw0", "")}, nil,
		p.HTTPRule([]gatewayv1.HTTPRouteMatch{p.PathMatch("PathPrefix", "/")}, p.Backend{Ref: "svc1", Port: 80, Weight: -1}))
	svc1 := p.Service("default", "svc1", 80)
	add("ignored-gateway-service-created", append(ns(), gc, gwOld, gw, routeIgn, sec),
		Op{Op: "u", Key: p.KeyOf(svc1), Obj: svc1, Label: "create"}, cut)
	add("ignored-gateway-service-deleted", append(ns(), gc, gwOld, gw, routeIgn, svc1, sec), del(svc1), cut)
	// Secret rotated / broken / deleted
	add("secret-rotated", base(), upd(sec, "secret-rotate", func(o client.Object) {
		c, k := p.CertPair(5)
		o.(*apiv1.Secret).Data = map[string][]byte{apiv1.TLSCertKey: c, apiv1.TLSPrivateKeyKey: k}
	}), cut)
	add("secret-deleted-recreated", base(), del(sec), cut, Op{Op: "u", Key: p.KeyOf(sec), Obj: sec, Label: "create"}, cut)
	// ReferenceGrant revoked
	routeX := p.HTTPRoute("team-a", "hr-x", 5, []gatewayv1.ParentReference{p.ParentRef("default", "gw0", "")}, nil,
		p.HTTPRule([]gatewayv1.HTTPRouteMatch{p.PathMatch("PathPrefix", "/x")}, p.Backend{Ref: "default/svc0", Port: 80, Weight: -1}))
	grant := p.ReferenceGrant("default", "rg", []p.GrantFrom{{Group: "gateway.networking.k8s.io", Kind: "HTTPRoute", Namespace: "team-a"}},
		[]p.GrantTo{{Kind: "Service"}})
	add("grant-revoked", base(routeX, grant), del(grant), cut, Op{Op: "u", Key: p.KeyOf(grant), Obj: grant, Label: "create"}, cut)
	// Namespace relabelled under a selector listener
	gwSel := p.Gateway("default", "gw0", p.DefaultClass, 2,
		p.Listener{Name: "http", Port: 80, Protocol: "HTTP", FromNS: "Selector", Selector: map[string]string{"team": "dev"}})
	routeA := p.HTTPRoute("team-a", "hr-a", 5, []gatewayv1.ParentReference{p.ParentRef("default", "gw0", "")}, nil,
		p.HTTPRule([]gatewayv1.HTTPRouteMatch{p.PathMatch("PathPrefix", "/a")}, p.Backend{Ref: "svc0", Port: 80, Weight: -1}))
	nsA := p.Namespace("team-a", map[string]string{"kubernetes.io/metadata.name": "team-a", "team": "dev"})
	add("namespace-unlabelled-relabelled", append(ns(), gc, gwSel, routeA, p.Service("team-a", "svc0", 80)),
		upd(nsA, "ns-relabel", func(o client.Object) { delete(o.(*apiv1.Namespace).Labels, "team") }), cut,
		upd(nsA, "ns-relabel", func(o client.Object) {}), cut)
	// NGF policies: deleted (bare type: no targetRefs) / retargeted away / body changed
	csp := &ngfAPI.ClientSettingsPolicy{ObjectMeta: p.Meta("default", "csp", 6)}
	csp.Spec.TargetRef = gatewayv1alpha2.LocalPolicyTargetReference{Group: "gateway.networking.k8s.io", Kind: "Gateway", Name: "gw0"}
	csp.Spec.Body = &ngfAPI.ClientBody{MaxSize: ptr(ngfAPI.Size("10m"))}
	add("policy-deleted", base(csp), del(csp), cut)
	add("policy-retargeted-away", base(csp), upd(csp, "csp-target", func(o client.Object) {
		o.(*ngfAPI.ClientSettingsPolicy).Spec.TargetRef.Name = "gw-nowhere"
	}), cut)
	add("policy-body-changed", base(csp), upd(csp, "csp-body", func(o client.Object) {
		o.(*ngfAPI.ClientSettingsPolicy).Spec.Body.MaxSize = ptr(ngfAPI.Size("20m"))
	}), cut)
	add("policy-created-later", base(), Op{Op: "u", Key: p.KeyOf(csp), Obj: csp, Label: "create"}, cut)
	usp := &ngfAPI.UpstreamSettingsPolicy{ObjectMeta: p.Meta("default", "usp", 7)}
	usp.Spec.TargetRefs = []gatewayv1alpha2.LocalPolicyTargetReference{{Kind: "Service", Name: "svc0"}}
	usp.Spec.ZoneSize = ptr(ngfAPI.Size("1m"))
	add("upstream-policy-deleted", base(usp), del(usp), cut)
	// --- Services that expose one port number for two protocols (53/TCP + 53/UDP): port-set edits that keep the count
	dns := p.Service("default", "dns", 53)
	dns.Spec.Ports = []apiv1.ServicePort{
		{Name: "dns-tcp", Protocol: apiv1.ProtocolTCP, Port: 53, TargetPort: intstr.FromInt32(8053)},
		{Name: "dns-udp", Protocol: apiv1.ProtocolUDP, Port: 53, TargetPort: intstr.FromInt32(8053)},
	}
	routeDNS := p.HTTPRoute("default", "hr-dns", 8, []gatewayv1.ParentReference{p.ParentRef("", "gw0", "")}, []string{"dns.example.com"},
		p.HTTPRule([]gatewayv1.HTTPRouteMatch{p.PathMatch("PathPrefix", "/")}, p.Backend{Ref: "dns", Port: 9153, Weight: -1}))
	esDNS := p.EndpointSlice("default", "dns", "s0", []int32{53}, "10.0.1.5")
	esDNS.Ports = []discoveryV1.EndpointPort{
		{Name: ptr("dns-tcp"), Port: ptr(int32(8053)), Protocol: ptr(apiv1.ProtocolTCP)},
		{Name: ptr("metrics"), Port: ptr(int32(9153)), Protocol: ptr(apiv1.ProtocolTCP)},
	}
	replaceDup := func(o client.Object) {
		o.(*apiv1.Service).Spec.Ports[1] = apiv1.ServicePort{Name: "metrics", Protocol: apiv1.ProtocolTCP, Port: 9153, TargetPort: intstr.FromInt32(9153)}
	}
	// a duplicate entry is replaced by a new port the route is waiting for (count unchanged)
	add("svc-dup-port-replaced-by-new-port", base(dns, routeDNS, esDNS), upd(dns, "svc-replace-dup-port", replaceDup), cut)
	// … and the mirror: a distinct port is replaced by a duplicate of the remaining one (the route loses its port)
	dnsNew := dns.DeepCopy()
	replaceDup(dnsNew)
	add("svc-port-replaced-by-dup-port", base(dnsNew, routeDNS, esDNS), Op{Op: "u", Key: p.KeyOf(dns), Obj: dns, Label: "svc-make-dup-port"}, cut)
	// both entries of the duplicate pair change to two different new ports
	add("svc-dup-ports-both-replaced", base(dns, routeDNS, esDNS), upd(dns, "svc-replace-dup-port", func(o client.Object) {
		s := o.(*apiv1.Service)
		s.Spec.Ports[0] = apiv1.ServicePort{Name: "web", Protocol: apiv1.ProtocolTCP, Port: 80, TargetPort: intstr.FromInt32(8080)}
		replaceDup(o)
	}), cut)
	// same port number, the duplicate changes only its targetPort (pair set grows, count unchanged)
	add("svc-dup-port-targetport-split", base(dns, esDNS,
		p.HTTPRoute("default", "hr-dns", 8, []gatewayv1.ParentReference{p.ParentRef("", "gw0", "")}, []string{"dns.example.com"},
			p.HTTPRule([]gatewayv1.HTTPRouteMatch{p.PathMatch("PathPrefix", "/")}, p.Backend{Ref: "dns", Port: 53, Weight: -1}))),
		upd(dns, "svc-targetport", func(o client.Object) {
			s := o.(*apiv1.Service)
			s.Spec.Ports[0], s.Spec.Ports[1] = s.Spec.Ports[1], s.Spec.Ports[0]
			s.Spec.Ports[0].Name, s.Spec.Ports[0].Protocol, s.Spec.Ports[0].TargetPort = "dns-tcp", apiv1.ProtocolTCP, intstr.FromInt32(9999)
			s.Spec.Ports[1].Name, s.Spec.Ports[1].Protocol = "dns-udp", apiv1.ProtocolUDP
		}), cut)

	// two entries with one port number and different names/targetPorts swap places: same (port,targetPort) set,
	// but getServicePort returns the first entry (Lean: service_port_order_diverges)
	dns2 := dns.DeepCopy()
	dns2.Spec.Ports[1].TargetPort = intstr.FromInt32(9053)
	esDNS2 := p.EndpointSlice("default", "dns", "s0", []int32{53}, "10.0.1.5")
	esDNS2.Ports = []discoveryV1.EndpointPort{
		{Name: ptr("dns-tcp"), Port: ptr(int32(8053)), Protocol: ptr(apiv1.ProtocolTCP)},
		{Name: ptr("dns-udp"), Port: ptr(int32(9053)), Protocol: ptr(apiv1.ProtocolUDP)},
	}
	add("svc-dup-port-order-swapped", base(dns2, esDNS2,
		p.HTTPRoute("default", "hr-dns", 8, []gatewayv1.ParentReference{p.ParentRef("", "gw0", "")}, []string{"dns.example.com"},
			p.HTTPRule([]gatewayv1.HTTPRouteMatch{p.PathMatch("PathPrefix", "/")}, p.Backend{Ref: "dns", Port: 53, Weight: -1}))),
		upd(dns2, "svc-port-order", func(o client.Object) {
			s := o.(*apiv1.Service)
			s.Spec.Ports[0], s.Spec.Ports[1] = s.Spec.Ports[1], s.Spec.Ports[0]
		}), cut)

	// --- policies with several targetRefs, upserted after the graph with their targets was built
	routeB := p.HTTPRoute("default", "hr-b", 9, []gatewayv1.ParentReference{p.ParentRef("", "gw0", "")}, []string{"b.example.com"},
		p.HTTPRule([]gatewayv1.HTTPRouteMatch{p.PathMatch("PathPrefix", "/b")}, p.Backend{Ref: "svc0", Port: 80, Weight: -1}))
	obs := func(name string, targets ...string) *ngfAPIv2.ObservabilityPolicy {
		o := &ngfAPIv2.ObservabilityPolicy{ObjectMeta: p.Meta("default", name, 10)}
		o.Spec.Tracing = &ngfAPIv2.Tracing{Strategy: ngfAPIv2.TraceStrategyRatio, Ratio: ptr(int32(10))}
		for _, t := range targets {
			o.Spec.TargetRefs = append(o.Spec.TargetRefs, gatewayv1alpha2.LocalPolicyTargetReference{
				Group: "gateway.networking.k8s.io", Kind: "HTTPRoute", Name: gatewayv1.ObjectName(t)})
		}
		return o
	}
	create := func(o client.Object) Op { return Op{Op: "u", Key: p.KeyOf(o), Obj: o, Label: "create"} }
	// first target absent, later one present
	add("policy-multitarget-absent-first", base(routeB), create(obs("obs", "hr-absent", "hr-b")), cut)
	// mirror: first present, later absent
	add("policy-multitarget-present-first", base(routeB), create(obs("obs", "hr-b", "hr-absent")), cut)
	add("policy-multitarget-absent-first-of-three", base(routeB), create(obs("obs", "hr-absent", "hr-absent2", "hr0")), cut)
	// all targets absent (irrelevant), then a target appears
	add("policy-multitarget-all-absent-then-route", base(), create(obs("obs", "hr-absent", "hr-b")), cut, create(routeB), cut)
	// a policy update moves a targetRef: away from the graph, and into it behind an absent one
	add("policy-targetref-moved-behind-absent", base(routeB, obs("obs", "hr-absent", "hr-absent2")),
		Op{Op: "u", Key: p.KeyOf(obs("obs")), Obj: obs("obs", "hr-absent", "hr-b"), Label: "obs-targets"}, cut)
	add("policy-targetref-moved-away", base(routeB, obs("obs", "hr-absent", "hr-b")),
		Op{Op: "u", Key: p.KeyOf(obs("obs")), Obj: obs("obs", "hr-absent", "hr-absent2"), Label: "obs-targets"}, cut)
	add("policy-targetrefs-swapped", base(routeB, obs("obs", "hr-b", "hr-absent")),
		Op{Op: "u", Key: p.KeyOf(obs("obs")), Obj: obs("obs", "hr-absent", "hr-b"), Label: "obs-targets"}, cut)
	add("policy-multitarget-deleted", base(routeB, obs("obs", "hr-absent", "hr-b")), del(obs("obs")), cut)
	// UpstreamSettingsPolicy with several Service targets: first unreferenced/absent, later referenced
	usp2 := func(targets ...string) *ngfAPI.UpstreamSettingsPolicy {
		u := &ngfAPI.UpstreamSettingsPolicy{ObjectMeta: p.Meta("default", "usp2", 11)}
		u.Spec.ZoneSize = ptr(ngfAPI.Size("2m"))
		for _, t := range targets {
			u.Spec.TargetRefs = append(u.Spec.TargetRefs, gatewayv1alpha2.LocalPolicyTargetReference{Kind: "Service", Name: gatewayv1.ObjectName(t)})
		}
		return u
	}
	add("upstream-policy-multitarget-absent-first", base(), create(usp2("svc-absent", "svc0")), cut)
	add("upstream-policy-multitarget-present-first", base(), create(usp2("svc0", "svc-absent")), cut)
	add("upstream-policy-targetref-moved", base(usp2("svc-absent", "svc-absent2")),
		Op{Op: "u", Key: p.KeyOf(usp2()), Obj: usp2("svc-absent", "svc0"), Label: "usp-targets"}, cut)

	// an object with a relevance predicate is deleted while nothing references it, the referrer arrives afterwards
	add("svc-deleted-unreferenced-then-referenced", append(ns(), gc, gw, svc0, es0, sec), del(svc0), cut, create(route), cut)
	gwNoTLS := p.Gateway("default", "gw0", p.DefaultClass, 2, p.Listener{Name: "http", Port: 80, Protocol: "HTTP", FromNS: "All"})
	add("secret-deleted-unreferenced-then-referenced", append(ns(), gc, gwNoTLS, route, svc0, es0, sec), del(sec), cut,
		Op{Op: "u", Key: p.KeyOf(gw), Obj: gw, Label: "gw-add-https-listener"}, cut)
	add("svc-deleted-and-referenced-in-one-batch", append(ns(), gc, gw, svc0, es0, sec), del(svc0), create(route), cut)

	// §7 row 23: GatewayClass controllerName
	gcForeign := p.GatewayClass(p.DefaultClass, scen.ForeignController, 1)
	add("class-created-foreign", append(ns(), gw, route, svc0, es0, sec), Op{Op: "u", Key: p.KeyOf(gcForeign), Obj: gcForeign, Label: "create"}, cut)
	add("class-foreign-deleted", append(ns(), gcForeign, gw, route, svc0, es0, sec), del(gcForeign), cut)
	add("class-controller-ours-to-foreign", base(), Op{Op: "u", Key: p.KeyOf(gc), Obj: gcForeign, Label: "gc-controller"}, cut,
		Op{Op: "u", Key: p.KeyOf(gc), Obj: gc, Label: "gc-controller"}, cut)
	add("class-deleted-recreated", base(), del(gc), cut, Op{Op: "u", Key: p.KeyOf(gc), Obj: gc, Label: "create"}, cut)
	// batching: a route and the objects it needs arrive in one batch, in both orders
	add("one-batch-route-first", append(ns(), gc, gw, sec), Op{Op: "u", Key: p.KeyOf(route), Obj: route, Label: "create"},
		Op{Op: "u", Key: p.KeyOf(svc0), Obj: svc0, Label: "create"}, Op{Op: "u", Key: p.KeyOf(es0), Obj: es0, Label: "create"}, cut)
	add("one-batch-route-last", append(ns(), gc, gw, sec), Op{Op: "u", Key: p.KeyOf(es0), Obj: es0, Label: "create"},
		Op{Op: "u", Key: p.KeyOf(svc0), Obj: svc0, Label: "create"}, Op{Op: "u", Key: p.KeyOf(route), Obj: route, Label: "create"}, cut)
	// restart in the middle
	add("restart-after-dropped-delete", base(), del(es0), cut, Op{Op: "restart"},
		Op{Op: "u", Key: p.KeyOf(es0), Obj: es0, Label: "create"}, cut)
	specialDirected(add, base, ns, gc, gw, route, svc0, es0, sec, upd, del, create, cut)
	return hs
}

// ngfObjects: the objects the handler singles out (objectFilters) in ORDINARY roles: the Service that fronts the NGF
// Pod (gatewayPodConfig.Namespace/ServiceName) is also the backend of a route; the NginxGateway control-plane
// configuration object of this controller.
func ngfObjects() (nsNGF *apiv1.Namespace, ngfSvc *apiv1.Service, esNGF *discoveryV1.EndpointSlice, routeLoop *gatewayv1.HTTPRoute, ngfCfg *ngfAPI.NginxGateway) {
	nsNGF = p.Namespace(podConfig.Namespace, map[string]string{"kubernetes.io/metadata.name": podConfig.Namespace})
	ngfSvc = p.Service(podConfig.Namespace, podConfig.ServiceName, 80)
	ngfSvc.Spec.Type = apiv1.ServiceTypeLoadBalancer
	ngfSvc.Status.LoadBalancer.Ingress = []apiv1.LoadBalancerIngress{{IP: "203.0.113.10"}}
	esNGF = p.EndpointSlice(podConfig.Namespace, podConfig.ServiceName, "s0", []int32{80}, "10.0.2.5", "10.0.2.6")
	routeLoop = p.HTTPRoute(podConfig.Namespace, "hr-loop", 12, []gatewayv1.ParentReference{p.ParentRef("default", "gw0", "")},
		[]string{"loop.example.com"},
		p.HTTPRule([]gatewayv1.HTTPRouteMatch{p.PathMatch("PathPrefix", "/")}, p.Backend{Ref: podConfig.ServiceName, Port: 80, Weight: -1}))
	ngfCfg = &ngfAPI.NginxGateway{ObjectMeta: p.Meta(controlConfig.Namespace, controlConfig.Name, 13)}
	ngfCfg.Spec.Logging = &ngfAPI.Logging{Level: ptr(ngfAPI.ControllerLogLevelInfo)}
	return
}

// specialDirected: for each special object: delete + upsert, alone in a batch and mixed with ordinary events.
func specialDirected(add func(string, []client.Object, ...Op), base func(...client.Object) []client.Object, ns func() []client.Object,
	gc, gw, route, svc0, es0, sec client.Object,
	upd func(client.Object, string, func(client.Object)) Op, del func(client.Object) Op, create func(client.Object) Op, cut Op) {
	nsNGF, ngfSvc, esNGF, routeLoop, ngfCfg := ngfObjects()
	full := func(extra ...client.Object) []client.Object {
		return append(base(nsNGF, ngfSvc, esNGF, routeLoop), extra...)
	}
	// --- the front Service as a Route backend
	add("front-svc-backend-deleted", full(), del(ngfSvc), cut)
	add("front-svc-backend-created-later", base(nsNGF, esNGF, routeLoop), create(ngfSvc), cut)
	otherPorts := ngfSvc.DeepCopy()
	otherPorts.Spec.Ports = []apiv1.ServicePort{{Name: "p8080", Port: 8080, TargetPort: intstr.FromInt32(8080), Protocol: apiv1.ProtocolTCP}}
	add("front-svc-backend-deleted-recreated-other-ports", full(), del(ngfSvc), cut, create(otherPorts), cut)
	add("front-svc-backend-deleted-recreated-same", full(), del(ngfSvc), cut, create(ngfSvc), cut)
	add("front-svc-backend-deleted-recreated-one-batch", full(), del(ngfSvc), create(otherPorts), cut)
	add("front-svc-backend-port-changed", full(), upd(ngfSvc, "svc-port", func(o client.Object) { o.(*apiv1.Service).Spec.Ports[0].Port = 81 }), cut)
	add("front-svc-backend-targetport-changed", full(), upd(ngfSvc, "svc-targetport", func(o client.Object) {
		o.(*apiv1.Service).Spec.Ports[0].TargetPort = intstr.FromInt32(9999)
	}), cut)
	add("front-svc-backend-port-renamed", full(), upd(ngfSvc, "svc-portname", func(o client.Object) { o.(*apiv1.Service).Spec.Ports[0].Name = "web" }), cut)
	add("front-svc-backend-deleted-mixed-batch", full(),
		upd(es0, "es-empty", func(o client.Object) { o.(*discoveryV1.EndpointSlice).Endpoints = nil }), del(ngfSvc),
		upd(sec, "annotation", func(o client.Object) { o.SetAnnotations(map[string]string{"verif/touched": "1"}) }), cut)
	add("front-svc-backend-deleted-after-irrelevant-batch", full(), upd(sec, "annotation", func(o client.Object) {
		o.SetAnnotations(map[string]string{"verif/touched": "1"})
	}), cut, del(ngfSvc), cut)
	add("front-svc-backend-route-created-later", base(nsNGF, ngfSvc, esNGF), create(routeLoop), cut, del(ngfSvc), cut)
	add("front-svc-backend-restart-then-deleted", full(), Op{Op: "restart"}, del(ngfSvc), cut)
	// --- the front Service in its own role only (Gateway status addresses), referenced by nothing
	newIngress := func(o client.Object) {
		o.(*apiv1.Service).Status.LoadBalancer.Ingress = []apiv1.LoadBalancerIngress{{IP: "203.0.113.99"}, {Hostname: "lb.example.com"}}
	}
	toClusterIP := func(o client.Object) {
		s := o.(*apiv1.Service)
		s.Spec.Type, s.Status.LoadBalancer.Ingress = apiv1.ServiceTypeClusterIP, nil
	}
	add("front-svc-ingress-changed", base(nsNGF, ngfSvc), upd(ngfSvc, "svc-lb-ingress", newIngress), cut)
	add("front-svc-type-changed", base(nsNGF, ngfSvc), upd(ngfSvc, "svc-lb-type", toClusterIP), cut)
	add("front-svc-unreferenced-deleted-recreated", base(nsNGF, ngfSvc), del(ngfSvc), cut, create(ngfSvc), cut)
	add("front-svc-created-later", base(nsNGF), create(ngfSvc), cut)
	// … and both roles at once
	add("front-svc-backend-ingress-changed", full(), upd(ngfSvc, "svc-lb-ingress", newIngress), cut)
	add("front-svc-backend-type-changed", full(), upd(ngfSvc, "svc-lb-type", toClusterIP), cut)
	add("front-svc-backend-ingress-changed-mixed-batch", full(), upd(ngfSvc, "svc-lb-ingress", newIngress), del(es0), cut)
	// an object of ANOTHER kind with the front Service's name (the filter key carries the type)
	secLike := p.TLSSecret(podConfig.Namespace, podConfig.ServiceName, 2)
	gwSecLike := gw.DeepCopyObject().(*gatewayv1.Gateway)
	for i := range gwSecLike.Spec.Listeners {
		if gwSecLike.Spec.Listeners[i].TLS != nil && len(gwSecLike.Spec.Listeners[i].TLS.CertificateRefs) > 0 {
			gwSecLike.Spec.Listeners[i].TLS.CertificateRefs[0].Name = gatewayv1.ObjectName(podConfig.ServiceName)
			gwSecLike.Spec.Listeners[i].TLS.CertificateRefs[0].Namespace = ptr(gatewayv1.Namespace(podConfig.Namespace))
		}
	}
	grantSec := p.ReferenceGrant(podConfig.Namespace, "rg-sec", []p.GrantFrom{{Group: "gateway.networking.k8s.io", Kind: "Gateway", Namespace: "default"}},
		[]p.GrantTo{{Kind: "Secret"}})
	add("secret-named-like-front-svc", append(ns(), nsNGF, gc, gwSecLike, route, svc0, es0, sec, grantSec, secLike, ngfSvc),
		del(secLike), cut, create(secLike), cut, del(ngfSvc), cut)
	// --- the NginxGateway control-plane configuration object
	level := func(l string) func(client.Object) {
		return func(o client.Object) { o.(*ngfAPI.NginxGateway).Spec.Logging = &ngfAPI.Logging{Level: ptr(ngfAPI.ControllerLogLevel(l))} }
	}
	add("control-config-created", base(nsNGF), create(ngfCfg), cut)
	add("control-config-updated", base(nsNGF, ngfCfg), upd(ngfCfg, "ng-loglevel", level("debug")), cut)
	add("control-config-invalid-level", base(nsNGF, ngfCfg), upd(ngfCfg, "ng-loglevel", level("verbose")), cut, upd(ngfCfg, "ng-loglevel", level("error")), cut)
	add("control-config-deleted-recreated", base(nsNGF, ngfCfg), del(ngfCfg), cut, create(ngfCfg), cut)
	add("control-config-mixed-batch", full(ngfCfg), upd(ngfCfg, "ng-loglevel", level("debug")), del(ngfSvc), del(ngfCfg), cut)
	add("control-config-between-relevant-events", full(ngfCfg), del(es0), upd(ngfCfg, "ng-loglevel", level("error")), create(es0), cut)
	// --- objects that are referenced while MISSING (the resolvers record the name all the same), created later / deleted and
	// re-created across rebuilds (ReferencedCaCertConfigMaps / ReferencedSecrets / the class' NginxProxy)
	cert, _ := p.CertPair(7)
	cm := &apiv1.ConfigMap{ObjectMeta: p.Meta("default", "ca-bundle", 0), Data: map[string]string{"ca.crt": string(cert)}}
	btp := &gatewayv1alpha3.BackendTLSPolicy{ObjectMeta: p.Meta("default", "btp-svc0", 15)}
	btp.Spec.TargetRefs = []gatewayv1alpha2.LocalPolicyTargetReferenceWithSectionName{{
		LocalPolicyTargetReference: gatewayv1alpha2.LocalPolicyTargetReference{Kind: "Service", Name: "svc0"},
	}}
	btp.Spec.Validation.Hostname = "backend.example.com"
	btp.Spec.Validation.CACertificateRefs = []gatewayv1.LocalObjectReference{{Kind: "ConfigMap", Name: "ca-bundle"}}
	add("configmap-missing-created-later", base(btp), create(cm), cut)
	add("configmap-deleted-recreated", base(btp, cm), del(cm), cut, create(cm), cut)
	add("configmap-missing-created-after-irrelevant-batch", base(btp), upd(sec, "annotation", func(o client.Object) {
		o.SetAnnotations(map[string]string{"verif/touched": "1"})
	}), cut, create(cm), cut)
	add("configmap-policy-then-configmap", base(), create(btp), cut, create(cm), cut, del(cm), cut)
	add("secret-missing-created-later", append(ns(), gc, gw, route, svc0, es0), create(sec), cut)
	npLater := &ngfAPI.NginxProxy{ObjectMeta: p.Meta("", "np", 0)}
	npLater.Spec.IPFamily = ptr(ngfAPI.IPv4)
	gcNP := p.GatewayClass(p.DefaultClass, p.DefaultController, 1)
	gcNP.Spec.ParametersRef = &gatewayv1.ParametersReference{Group: ngfAPI.GroupName, Kind: "NginxProxy", Name: "np"}
	add("nginxproxy-missing-created-later", append(ns(), gcNP, gw, route, svc0, es0, sec), create(npLater), cut, del(npLater), cut)
	// a Namespace that only an INVALID (but attachable) selector listener references
	gwInvSel := p.Gateway("default", "gw0", p.DefaultClass, 2,
		p.Listener{Name: "https", Port: 443, Protocol: "HTTPS", Hostname: "cafe.example.com", CertRefs: []string{"tls-missing"},
			FromNS: "Selector", Selector: map[string]string{"team": "dev"}})
	routeA := p.HTTPRoute("team-a", "hr-a", 5, []gatewayv1.ParentReference{p.ParentRef("default", "gw0", "")}, nil,
		p.HTTPRule([]gatewayv1.HTTPRouteMatch{p.PathMatch("PathPrefix", "/a")}, p.Backend{Ref: "svc0", Port: 80, Weight: -1}))
	nsA := p.Namespace("team-a", map[string]string{"kubernetes.io/metadata.name": "team-a", "team": "dev"})
	add("namespace-invalid-listener-unlabelled-relabelled", append(ns(), gc, gwInvSel, routeA, p.Service("team-a", "svc0", 80)),
		upd(nsA, "ns-relabel", func(o client.Object) { delete(o.(*apiv1.Namespace).Labels, "team") }), cut,
		upd(nsA, "ns-relabel", func(o client.Object) {}), cut)
	// --- Terminating objects: deletion requested while a finalizer holds the object (deletionTimestamp set, generation bumped):
	// still in the cluster, in the caches and in the start-up listing; then the finalizer goes and the object with it
	term := func(o client.Object) Op {
		return upd(o, "mark-terminating", func(x client.Object) { markTerminating(x) })
	}
	grantT := p.ReferenceGrant("default", "rg", []p.GrantFrom{{Group: "gateway.networking.k8s.io", Kind: "HTTPRoute", Namespace: "team-a"}},
		[]p.GrantTo{{Kind: "Service"}})
	routeXT := p.HTTPRoute("team-a", "hr-x", 5, []gatewayv1.ParentReference{p.ParentRef("default", "gw0", "")}, nil,
		p.HTTPRule([]gatewayv1.HTTPRouteMatch{p.PathMatch("PathPrefix", "/x")}, p.Backend{Ref: "default/svc0", Port: 80, Weight: -1}))
	cspT := &ngfAPI.ClientSettingsPolicy{ObjectMeta: p.Meta("default", "csp", 6)}
	cspT.Spec.TargetRef = gatewayv1alpha2.LocalPolicyTargetReference{Group: "gateway.networking.k8s.io", Kind: "Gateway", Name: "gw0"}
	cspT.Spec.Body = &ngfAPI.ClientBody{MaxSize: ptr(ngfAPI.Size("10m"))}
	for _, tc := range []struct {
		name string
		init []client.Object
		obj  client.Object
	}{
		{"gatewayclass", base(), gc}, {"gateway", base(), gw}, {"httproute", base(), route}, {"service", base(), svc0},
		{"endpointslice", base(), es0}, {"secret", base(), sec}, {"referencegrant", base(routeXT, grantT), grantT},
		{"clientsettingspolicy", base(cspT), cspT}, {"backendtlspolicy", base(btp, cm), btp}, {"configmap", base(btp, cm), cm},
		{"nginxproxy", append(ns(), gcNP, npLater, gw, route, svc0, es0, sec), npLater},
	} {
		add("terminating-"+tc.name, tc.init, term(tc.obj), cut, del(tc.obj), cut)
	}
	add("terminating-httproute-then-updated", base(), term(route), cut,
		upd(route, "hr-hostname", func(o client.Object) {
			markTerminating(o)
			o.(*gatewayv1.HTTPRoute).Spec.Hostnames = []gatewayv1.Hostname{"foo.example.com"}
		}), cut, Op{Op: "restart"}, del(route), cut)
	add("terminating-mixed-batch", base(), term(es0), term(route), upd(sec, "annotation", func(o client.Object) {
		o.SetAnnotations(map[string]string{"verif/touched": "1"})
	}), cut)
	// --- resourceVersions across digit-length boundaries: an object is updated often enough to pass 9 → 10 / 99 → 100
	hostOf := func(i int) func(client.Object) {
		return func(o client.Object) {
			o.(*gatewayv1.HTTPRoute).Spec.Hostnames = []gatewayv1.Hostname{gatewayv1.Hostname(fmt.Sprintf("h%d.example.com", i))}
		}
	}
	var many []Op
	for i := 0; i < 6; i++ {
		many = append(many, upd(route, "hr-hostname", hostOf(i)), cut)
	}
	add("resourceversion-boundary-route", base(), many...)
	var manyG []Op
	for i := 0; i < 6; i++ {
		to := []string{"svc0", "svc9"}[i%2]
		manyG = append(manyG, upd(grantT, "grant-to-name", func(o client.Object) {
			o.(*gatewayv1beta1.ReferenceGrant).Spec.To[0].Name = ptr(gatewayv1.ObjectName(to))
		}), cut)
	}
	add("resourceversion-boundary-grant", base(routeXT, grantT), manyG...)
	var manyS []Op
	for i := 0; i < 6; i++ {
		port := int32(80 + i%2)
		manyS = append(manyS, upd(svc0, "svc-port", func(o client.Object) { o.(*apiv1.Service).Spec.Ports[0].Port = port }), cut)
	}
	add("resourceversion-boundary-service", base(), manyS...)
	// another NginxGateway object: the controller's namespaced-name filter ignores it
	otherCfg := &ngfAPI.NginxGateway{ObjectMeta: p.Meta(controlConfig.Namespace, "other-config", 14)}
	otherCfg.Spec.Logging = &ngfAPI.Logging{Level: ptr(ngfAPI.ControllerLogLevelDebug)}
	add("control-config-foreign-object-ignored", base(nsNGF, ngfCfg), create(otherCfg), cut, del(otherCfg), cut)
}

func emitDirected(dir string) error {
	if err := os.MkdirAll(dir, 0o755); err != nil {
		return err
	}
	for name, h := range directed() {
		d := encodeHistory(h)
		d.Story = []string{"directed: " + name}
		b, err := json.MarshalIndent(d, "", " ")
		if err != nil {
			return err
		}
		if err := os.WriteFile(filepath.Join(dir, fmt.Sprintf("directed-%s.json", name)), append(b, '\n'), 0o644); err != nil {
			return err
		}
	}
	return nil
}
