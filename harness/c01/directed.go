package c01

import (
	"encoding/json"
	"fmt"
	"os"
	"path/filepath"

	apiv1 "k8s.io/api/core/v1"
	discoveryV1 "k8s.io/api/discovery/v1"
	"k8s.io/apimachinery/pkg/util/intstr"
	"sigs.k8s.io/controller-runtime/pkg/client"
	gatewayv1 "sigs.k8s.io/gateway-api/apis/v1"
	gatewayv1alpha2 "sigs.k8s.io/gateway-api/apis/v1alpha2"

	ngfAPI "github.com/nginx/nginx-gateway-fabric/apis/v1alpha1"
	ngfAPIv2 "github.com/nginx/nginx-gateway-fabric/apis/v1alpha2"
	p "github.com/nginx/nginx-gateway-fabric/verifharness/pipeline"
	"github.com/nginx/nginx-gateway-fabric/verifharness/scen"
)

// Directed histories along the dependency edges named in DESIGN §6 C01 / §7 rows 7, 8, 9, 23. They are
// written once to corpus/C01 (`-emit-directed <dir>`) and replayed first by every check.
func directed() map[string]*History {
	ns := func() []client.Object {
		return []client.Object{
			p.Namespace("default", map[string]string{"kubernetes.io/metadata.name": "default"}),
			p.Namespace("team-a", map[string]string{"kubernetes.io/metadata.name": "team-a", "team": "dev"}),
		}
	}
	gc := p.GatewayClass(p.DefaultClass, p.DefaultController, 1)
	gw := p.Gateway("default", "gw0", p.DefaultClass, 2,
		p.Listener{Name: "http", Port: 80, Protocol: "HTTP", FromNS: "All"},
		p.Listener{Name: "https", Port: 443, Protocol: "HTTPS", Hostname: "cafe.example.com", CertRefs: []string{"tls-a"}, FromNS: "All"})
	route := p.HTTPRoute("default", "hr0", 3, []gatewayv1.ParentReference{p.ParentRef("", "gw0", "")}, []string{"cafe.example.com"},
		p.HTTPRule([]gatewayv1.HTTPRouteMatch{p.PathMatch("PathPrefix", "/")}, p.Backend{Ref: "svc0", Port: 80, Weight: -1}))
	svc0 := p.Service("default", "svc0", 80)
	es0 := p.EndpointSlice("default", "svc0", "s0", []int32{80}, "10.0.0.5", "10.0.0.6")
	sec := p.TLSSecret("default", "tls-a", 1)
	base := func(extra ...client.Object) []client.Object {
		return append(append(ns(), gc, gw, route, svc0, es0, sec), extra...)
	}
	upd := func(o client.Object, label string, f func(client.Object)) Op {
		n := o.DeepCopyObject().(client.Object)
		f(n)
		return Op{Op: "u", Key: p.KeyOf(o), Obj: n, Label: label}
	}
	del := func(o client.Object) Op { return Op{Op: "d", Key: p.KeyOf(o), Label: "delete"} }
	cut := Op{Op: "cut"}
	hs := map[string]*History{}
	add := func(name string, init []client.Object, ops ...Op) {
		hs[name] = &History{Opts: p.DefaultOptions(), Init: init, Ops: ops, Tags: map[string]int{"directed:" + name: 1}}
	}

	// §7 row 7: EndpointSlice deleted / emptied / re-owned
	add("es-delete", base(), del(es0), cut)
	add("es-empty", base(), upd(es0, "es-empty", func(o client.Object) { o.(*discoveryV1.EndpointSlice).Endpoints = nil }), cut)
	add("es-reowned", base(), upd(es0, "es-owner-label", func(o client.Object) {
		o.(*discoveryV1.EndpointSlice).Labels = map[string]string{discoveryV1.LabelServiceName: "svc9"}
	}), cut)
	// §7 row 8: Service updates that ServicePortsChangedPredicate filters
	add("svc-port-name", base(), upd(svc0, "svc-portname", func(o client.Object) { o.(*apiv1.Service).Spec.Ports[0].Name = "web" }), cut)
	add("svc-app-protocol", base(), upd(svc0, "svc-appprotocol", func(o client.Object) {
		o.(*apiv1.Service).Spec.Ports[0].AppProtocol = ptr("kubernetes.io/h2c")
	}), cut)
	add("svc-type-externalname", base(), upd(svc0, "svc-type", func(o client.Object) {
		s := o.(*apiv1.Service)
		s.Spec.Type, s.Spec.ExternalName = apiv1.ServiceTypeExternalName, "ext.example.com"
	}), cut)
	add("svc-ip-families", base(), upd(svc0, "svc-ipfamilies", func(o client.Object) {
		o.(*apiv1.Service).Spec.IPFamilies = []apiv1.IPFamily{apiv1.IPv6Protocol}
	}), cut)
	npV4 := &ngfAPI.NginxProxy{ObjectMeta: p.Meta("", "np", 0)}
	npV4.Spec.IPFamily = ptr(ngfAPI.IPv4)
	gcNP := p.GatewayClass(p.DefaultClass, p.DefaultController, 1)
	gcNP.Spec.ParametersRef = &gatewayv1.ParametersReference{Group: ngfAPI.GroupName, Kind: "NginxProxy", Name: "np"}
	add("svc-ip-families-nginxproxy-ipv4", append(ns(), gcNP, npV4, gw, route, svc0, es0, sec),
		upd(svc0, "svc-ipfamilies", func(o client.Object) {
			o.(*apiv1.Service).Spec.IPFamilies = []apiv1.IPFamily{apiv1.IPv6Protocol}
		}), cut)
	add("nginxproxy-ipfamily-changed", append(ns(), gcNP, npV4, gw, route, svc0, es0, sec),
		upd(npV4, "np-ipfamily", func(o client.Object) { o.(*ngfAPI.NginxProxy).Spec.IPFamily = ptr(ngfAPI.IPv6) }), cut)
	esNil := p.EndpointSlice("default", "svc0", "s0", []int32{80}, "10.0.0.5", "10.0.0.6")
	esNil.Ports[0].Port = nil
	add("svc-target-port-with-portless-slice", append(ns(), gc, gw, route, svc0, esNil, sec),
		upd(svc0, "svc-targetport", func(o client.Object) { o.(*apiv1.Service).Spec.Ports[0].TargetPort = intstr.FromInt32(9999) }), cut)
	add("svc-port-number", base(), upd(svc0, "svc-port", func(o client.Object) { o.(*apiv1.Service).Spec.Ports[0].Port = 81 }), cut)
	// Service referenced later / created later / deleted
	add("svc-created-later", append(ns(), gc, gw, route, sec), Op{Op: "u", Key: p.KeyOf(svc0), Obj: svc0, Label: "create"}, cut,
		Op{Op: "u", Key: p.KeyOf(es0), Obj: es0, Label: "create"}, cut)
	add("svc-deleted", base(), del(svc0), cut)
	add("route-created-later", append(ns(), gc, gw, svc0, es0, sec), Op{Op: "u", Key: p.KeyOf(route), Obj: route, Label: "create"}, cut,
		upd(es0, "es-empty", func(o client.Object) { o.(*discoveryV1.EndpointSlice).Endpoints = nil }), cut)
	// §7 row 9: the route is attached only to a Gateway that loses the election
	gwOld := p.Gateway("default", "gw-old", p.DefaultClass, 1, p.Listener{Name: "http", Port: 80, Protocol: "HTTP", FromNS: "All"})
	routeIgn := p.HTTPRoute("default", "hr-ign", 4, []gatewayv1.ParentReference{p.ParentRef("", "gw0", "")}, nil,
		p.HTTPRule([]gatewayv1.HTTPRouteMatch{p.PathMatch("PathPrefix", "/")}, p.Backend{Ref: "svc1", Port: 80, Weight: -1}))
	svc1 := p.Service("default", "svc1", 80)
	add("ignored-gateway-service-created", append(ns(), gc, gwOld, gw, routeIgn, sec),
		Op{Op: "u", Key: p.KeyOf(svc1), Obj: svc1, Label: "create"}, cut)
	add("ignored-gateway-service-deleted", append(ns(), gc, gwOld, gw, routeIgn, svc1, sec), del(svc1), cut)
	// Secret rotated / broken / deleted
	add("secret-rotated", base(), upd(sec, "secret-rotate", func(o client.Object) {
		c, k := p.CertPair(5)
		o.(*apiv1.Secret).Data = map[string][]byte{apiv1.TLSCertKey: c, apiv1.TLSPrivateKeyKey: k}
	}), cut)
	add("secret-deleted-recreated", base(), del(sec), cut, Op{Op: "u", Key: p.KeyOf(sec), Obj: sec, Label: "create"}, cut)
	// ReferenceGrant revoked
	routeX := p.HTTPRoute("team-a", "hr-x", 5, []gatewayv1.ParentReference{p.ParentRef("default", "gw0", "")}, nil,
		p.HTTPRule([]gatewayv1.HTTPRouteMatch{p.PathMatch("PathPrefix", "/x")}, p.Backend{Ref: "default/svc0", Port: 80, Weight: -1}))
	grant := p.ReferenceGrant("default", "rg", []p.GrantFrom{{Group: "gateway.networking.k8s.io", Kind: "HTTPRoute", Namespace: "team-a"}},
		[]p.GrantTo{{Kind: "Service"}})
	add("grant-revoked", base(routeX, grant), del(grant), cut, Op{Op: "u", Key: p.KeyOf(grant), Obj: grant, Label: "create"}, cut)
	// Namespace relabelled under a selector listener
	gwSel := p.Gateway("default", "gw0", p.DefaultClass, 2,
		p.Listener{Name: "http", Port: 80, Protocol: "HTTP", FromNS: "Selector", Selector: map[string]string{"team": "dev"}})
	routeA := p.HTTPRoute("team-a", "hr-a", 5, []gatewayv1.ParentReference{p.ParentRef("default", "gw0", "")}, nil,
		p.HTTPRule([]gatewayv1.HTTPRouteMatch{p.PathMatch("PathPrefix", "/a")}, p.Backend{Ref: "svc0", Port: 80, Weight: -1}))
	nsA := p.Namespace("team-a", map[string]string{"kubernetes.io/metadata.name": "team-a", "team": "dev"})
	add("namespace-unlabelled-relabelled", append(ns(), gc, gwSel, routeA, p.Service("team-a", "svc0", 80)),
		upd(nsA, "ns-relabel", func(o client.Object) { delete(o.(*apiv1.Namespace).Labels, "team") }), cut,
		upd(nsA, "ns-relabel", func(o client.Object) {}), cut)
	// NGF policies: deleted (bare type: no targetRefs) / retargeted away / body changed
	csp := &ngfAPI.ClientSettingsPolicy{ObjectMeta: p.Meta("default", "csp", 6)}
	csp.Spec.TargetRef = gatewayv1alpha2.LocalPolicyTargetReference{Group: "gateway.networking.k8s.io", Kind: "Gateway", Name: "gw0"}
	csp.Spec.Body = &ngfAPI.ClientBody{MaxSize: ptr(ngfAPI.Size("10m"))}
	add("policy-deleted", base(csp), del(csp), cut)
	add("policy-retargeted-away", base(csp), upd(csp, "csp-target", func(o client.Object) {
		o.(*ngfAPI.ClientSettingsPolicy).Spec.TargetRef.Name = "gw-nowhere"
	}), cut)
	add("policy-body-changed", base(csp), upd(csp, "csp-body", func(o client.Object) {
		o.(*ngfAPI.ClientSettingsPolicy).Spec.Body.MaxSize = ptr(ngfAPI.Size("20m"))
	}), cut)
	add("policy-created-later", base(), Op{Op: "u", Key: p.KeyOf(csp), Obj: csp, Label: "create"}, cut)
	usp := &ngfAPI.UpstreamSettingsPolicy{ObjectMeta: p.Meta("default", "usp", 7)}
	usp.Spec.TargetRefs = []gatewayv1alpha2.LocalPolicyTargetReference{{Kind: "Service", Name: "svc0"}}
	usp.Spec.ZoneSize = ptr(ngfAPI.Size("1m"))
	add("upstream-policy-deleted", base(usp), del(usp), cut)
	// --- Services that expose one port number for two protocols (53/TCP + 53/UDP): port-set edits that keep the count
	dns := p.Service("default", "dns", 53)
	dns.Spec.Ports = []apiv1.ServicePort{
		{Name: "dns-tcp", Protocol: apiv1.ProtocolTCP, Port: 53, TargetPort: intstr.FromInt32(8053)},
		{Name: "dns-udp", Protocol: apiv1.ProtocolUDP, Port: 53, TargetPort: intstr.FromInt32(8053)},
	}
	routeDNS := p.HTTPRoute("default", "hr-dns", 8, []gatewayv1.ParentReference{p.ParentRef("", "gw0", "")}, []string{"dns.example.com"},
		p.HTTPRule([]gatewayv1.HTTPRouteMatch{p.PathMatch("PathPrefix", "/")}, p.Backend{Ref: "dns", Port: 9153, Weight: -1}))
	esDNS := p.EndpointSlice("default", "dns", "s0", []int32{53}, "10.0.1.5")
	esDNS.Ports = []discoveryV1.EndpointPort{
		{Name: ptr("dns-tcp"), Port: ptr(int32(8053)), Protocol: ptr(apiv1.ProtocolTCP)},
		{Name: ptr("metrics"), Port: ptr(int32(9153)), Protocol: ptr(apiv1.ProtocolTCP)},
	}
	replaceDup := func(o client.Object) {
		o.(*apiv1.Service).Spec.Ports[1] = apiv1.ServicePort{Name: "metrics", Protocol: apiv1.ProtocolTCP, Port: 9153, TargetPort: intstr.FromInt32(9153)}
	}
	// a duplicate entry is replaced by a new port the route is waiting for (count unchanged)
	add("svc-dup-port-replaced-by-new-port", base(dns, routeDNS, esDNS), upd(dns, "svc-replace-dup-port", replaceDup), cut)
	// … and the mirror: a distinct port is replaced by a duplicate of the remaining one (the route loses its port)
	dnsNew := dns.DeepCopy()
	replaceDup(dnsNew)
	add("svc-port-replaced-by-dup-port", base(dnsNew, routeDNS, esDNS), Op{Op: "u", Key: p.KeyOf(dns), Obj: dns, Label: "svc-make-dup-port"}, cut)
	// both entries of the duplicate pair change to two different new ports
	add("svc-dup-ports-both-replaced", base(dns, routeDNS, esDNS), upd(dns, "svc-replace-dup-port", func(o client.Object) {
		s := o.(*apiv1.Service)
		s.Spec.Ports[0] = apiv1.ServicePort{Name: "web", Protocol: apiv1.ProtocolTCP, Port: 80, TargetPort: intstr.FromInt32(8080)}
		replaceDup(o)
	}), cut)
	// same port number, the duplicate changes only its targetPort (pair set grows, count unchanged)
	add("svc-dup-port-targetport-split", base(dns, esDNS,
		p.HTTPRoute("default", "hr-dns", 8, []gatewayv1.ParentReference{p.ParentRef("", "gw0", "")}, []string{"dns.example.com"},
			p.HTTPRule([]gatewayv1.HTTPRouteMatch{p.PathMatch("PathPrefix", "/")}, p.Backend{Ref: "dns", Port: 53, Weight: -1}))),
		upd(dns, "svc-targetport", func(o client.Object) {
			s := o.(*apiv1.Service)
			s.Spec.Ports[0], s.Spec.Ports[1] = s.Spec.Ports[1], s.Spec.Ports[0]
			s.Spec.Ports[0].Name, s.Spec.Ports[0].Protocol, s.Spec.Ports[0].TargetPort = "dns-tcp", apiv1.ProtocolTCP, intstr.FromInt32(9999)
			s.Spec.Ports[1].Name, s.Spec.Ports[1].Protocol = "dns-udp", apiv1.ProtocolUDP
		}), cut)

	// two entries with one port number and different names/targetPorts swap places: same (port,targetPort) set,
	// but getServicePort returns the first entry (Lean: service_port_order_diverges)
	dns2 := dns.DeepCopy()
	dns2.Spec.Ports[1].TargetPort = intstr.FromInt32(9053)
	esDNS2 := p.EndpointSlice("default", "dns", "s0", []int32{53}, "10.0.1.5")
	esDNS2.Ports = []discoveryV1.EndpointPort{
		{Name: ptr("dns-tcp"), Port: ptr(int32(8053)), Protocol: ptr(apiv1.ProtocolTCP)},
		{Name: ptr("dns-udp"), Port: ptr(int32(9053)), Protocol: ptr(apiv1.ProtocolUDP)},
	}
	add("svc-dup-port-order-swapped", base(dns2, esDNS2,
		p.HTTPRoute("default", "hr-dns", 8, []gatewayv1.ParentReference{p.ParentRef("", "gw0", "")}, []string{"dns.example.com"},
			p.HTTPRule([]gatewayv1.HTTPRouteMatch{p.PathMatch("PathPrefix", "/")}, p.Backend{Ref: "dns", Port: 53, Weight: -1}))),
		upd(dns2, "svc-port-order", func(o client.Object) {
			s := o.(*apiv1.Service)
			s.Spec.Ports[0], s.Spec.Ports[1] = s.Spec.Ports[1], s.Spec.Ports[0]
		}), cut)

	// --- policies with several targetRefs, upserted after the graph with their targets was built
	routeB := p.HTTPRoute("default", "hr-b", 9, []gatewayv1.ParentReference{p.ParentRef("", "gw0", "")}, []string{"b.example.com"},
		p.HTTPRule([]gatewayv1.HTTPRouteMatch{p.PathMatch("PathPrefix", "/b")}, p.Backend{Ref: "svc0", Port: 80, Weight: -1}))
	obs := func(name string, targets ...string) *ngfAPIv2.ObservabilityPolicy {
		o := &ngfAPIv2.ObservabilityPolicy{ObjectMeta: p.Meta("default", name, 10)}
		o.Spec.Tracing = &ngfAPIv2.Tracing{Strategy: ngfAPIv2.TraceStrategyRatio, Ratio: ptr(int32(10))}
		for _, t := range targets {
			o.Spec.TargetRefs = append(o.Spec.TargetRefs, gatewayv1alpha2.LocalPolicyTargetReference{
				Group: "gateway.networking.k8s.io", Kind: "HTTPRoute", Name: gatewayv1.ObjectName(t)})
		}
		return o
	}
	create := func(o client.Object) Op { return Op{Op: "u", Key: p.KeyOf(o), Obj: o, Label: "create"} }
	// first target absent, later one present
	add("policy-multitarget-absent-first", base(routeB), create(obs("obs", "hr-absent", "hr-b")), cut)
	// mirror: first present, later absent
	add("policy-multitarget-present-first", base(routeB), create(obs("obs", "hr-b", "hr-absent")), cut)
	add("policy-multitarget-absent-first-of-three", base(routeB), create(obs("obs", "hr-absent", "hr-absent2", "hr0")), cut)
	// all targets absent (irrelevant), then a target appears
	add("policy-multitarget-all-absent-then-route", base(), create(obs("obs", "hr-absent", "hr-b")), cut, create(routeB), cut)
	// a policy update moves a targetRef: away from the graph, and into it behind an absent one
	add("policy-targetref-moved-behind-absent", base(routeB, obs("obs", "hr-absent", "hr-absent2")),
		Op{Op: "u", Key: p.KeyOf(obs("obs")), Obj: obs("obs", "hr-absent", "hr-b"), Label: "obs-targets"}, cut)
	add("policy-targetref-moved-away", base(routeB, obs("obs", "hr-absent", "hr-b")),
		Op{Op: "u", Key: p.KeyOf(obs("obs")), Obj: obs("obs", "hr-absent", "hr-absent2"), Label: "obs-targets"}, cut)
	add("policy-targetrefs-swapped", base(routeB, obs("obs", "hr-b", "hr-absent")),
		Op{Op: "u", Key: p.KeyOf(obs("obs")), Obj: obs("obs", "hr-absent", "hr-b"), Label: "obs-targets"}, cut)
	add("policy-multitarget-deleted", base(routeB, obs("obs", "hr-absent", "hr-b")), del(obs("obs")), cut)
	// UpstreamSettingsPolicy with several Service targets: first unreferenced/absent, later referenced
	usp2 := func(targets ...string) *ngfAPI.UpstreamSettingsPolicy {
		u := &ngfAPI.UpstreamSettingsPolicy{ObjectMeta: p.Meta("default", "usp2", 11)}
		u.Spec.ZoneSize = ptr(ngfAPI.Size("2m"))
		for _, t := range targets {
			u.Spec.TargetRefs = append(u.Spec.TargetRefs, gatewayv1alpha2.LocalPolicyTargetReference{Kind: "Service", Name: gatewayv1.ObjectName(t)})
		}
		return u
	}
	add("upstream-policy-multitarget-absent-first", base(), create(usp2("svc-absent", "svc0")), cut)
	add("upstream-policy-multitarget-present-first", base(), create(usp2("svc0", "svc-absent")), cut)
	add("upstream-policy-targetref-moved", base(usp2("svc-absent", "svc-absent2")),
		Op{Op: "u", Key: p.KeyOf(usp2()), Obj: usp2("svc-absent", "svc0"), Label: "usp-targets"}, cut)

	// an object with a relevance predicate is deleted while nothing references it, the referrer arrives afterwards
	add("svc-deleted-unreferenced-then-referenced", append(ns(), gc, gw, svc0, es0, sec), del(svc0), cut, create(route), cut)
	gwNoTLS := p.Gateway("default", "gw0", p.DefaultClass, 2, p.Listener{Name: "http", Port: 80, Protocol: "HTTP", FromNS: "All"})
	add("secret-deleted-unreferenced-then-referenced", append(ns(), gc, gwNoTLS, route, svc0, es0, sec), del(sec), cut,
		Op{Op: "u", Key: p.KeyOf(gw), Obj: gw, Label: "gw-add-https-listener"}, cut)
	add("svc-deleted-and-referenced-in-one-batch", append(ns(), gc, gw, svc0, es0, sec), del(svc0), create(route), cut)

	// §7 row 23: GatewayClass controllerName
	gcForeign := p.GatewayClass(p.DefaultClass, scen.ForeignController, 1)
	add("class-created-foreign", append(ns(), gw, route, svc0, es0, sec), Op{Op: "u", Key: p.KeyOf(gcForeign), Obj: gcForeign, Label: "create"}, cut)
	add("class-foreign-deleted", append(ns(), gcForeign, gw, route, svc0, es0, sec), del(gcForeign), cut)
	add("class-controller-ours-to-foreign", base(), Op{Op: "u", Key: p.KeyOf(gc), Obj: gcForeign, Label: "gc-controller"}, cut,
		Op{Op: "u", Key: p.KeyOf(gc), Obj: gc, Label: "gc-controller"}, cut)
	add("class-deleted-recreated", base(), del(gc), cut, Op{Op: "u", Key: p.KeyOf(gc), Obj: gc, Label: "create"}, cut)
	// batching: a route and the objects it needs arrive in one batch, in both orders
	add("one-batch-route-first", append(ns(), gc, gw, sec), Op{Op: "u", Key: p.KeyOf(route), Obj: route, Label: "create"},
		Op{Op: "u", Key: p.KeyOf(svc0), Obj: svc0, Label: "create"}, Op{Op: "u", Key: p.KeyOf(es0), Obj: es0, Label: "create"}, cut)
	add("one-batch-route-last", append(ns(), gc, gw, sec), Op{Op: "u", Key: p.KeyOf(es0), Obj: es0, Label: "create"},
		Op{Op: "u", Key: p.KeyOf(svc0), Obj: svc0, Label: "create"}, Op{Op: "u", Key: p.KeyOf(route), Obj: route, Label: "create"}, cut)
	// restart in the middle
	add("restart-after-dropped-delete", base(), del(es0), cut, Op{Op: "restart"},
		Op{Op: "u", Key: p.KeyOf(es0), Obj: es0, Label: "create"}, cut)
	return hs
}

func emitDirected(dir string) error {
	if err := os.MkdirAll(dir, 0o755); err != nil {
		return err
	}
	for name, h := range directed() {
		d := encodeHistory(h)
		d.Story = []string{"directed: " + name}
		b, err := json.MarshalIndent(d, "", " ")
		if err != nil {
			return err
		}
		if err := os.WriteFile(filepath.Join(dir, fmt.Sprintf("directed-%s.json", name)), append(b, '\n'), 0o644); err != nil {
			return err
		}
	}
	return nil
}
