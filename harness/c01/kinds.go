// Package c01 drives the REAL change processor + event handler of nginx-gateway-fabric with generated
// event histories (create/update/delete of every watched kind, delivery decided by the real watch
// predicates and the real Reconciler, random batching, restarts) and compares, whenever the event queue
// is drained, the NGINX files last handed to the file manager and the statuses last issued with those a
// freshly started controller derives from the same cluster (property C01).
package c01

import (
	apiv1 "k8s.io/api/core/v1"
	discoveryV1 "k8s.io/api/discovery/v1"
	"sigs.k8s.io/controller-runtime/pkg/client"
	gatewayv1 "sigs.k8s.io/gateway-api/apis/v1"
	gatewayv1alpha2 "sigs.k8s.io/gateway-api/apis/v1alpha2"
	gatewayv1alpha3 "sigs.k8s.io/gateway-api/apis/v1alpha3"
	gatewayv1beta1 "sigs.k8s.io/gateway-api/apis/v1beta1"

	ngfAPIv1alpha1 "github.com/nginx/nginx-gateway-fabric/apis/v1alpha1"
	ngfAPIv1alpha2 "github.com/nginx/nginx-gateway-fabric/apis/v1alpha2"
)

// kindInfo describes one watched kind: the bare object registered with the controller (this is what a
// DeleteEvent carries) and how generation is managed by the API server.
type kindInfo struct {
	name string
	bare func() client.Object
	// genOnSpec: metadata.generation is bumped by the API server when anything outside metadata/status
	// changes (custom resources; EndpointSlice additionally on label changes).
	genOnSpec bool
}

// The kinds registered by registerControllers (CustomResourceDefinition is outside the generated histories; see
// notes/C01.md). NginxGateway is registered with a controller but NOT with the change processor: the handler's
// objectFilters keep its events away from CaptureUpsertChange/CaptureDeleteChange.
var kindTable = []kindInfo{
	{"GatewayClass", func() client.Object { return &gatewayv1.GatewayClass{} }, true},
	{"Gateway", func() client.Object { return &gatewayv1.Gateway{} }, true},
	{"HTTPRoute", func() client.Object { return &gatewayv1.HTTPRoute{} }, true},
	{"Service", func() client.Object { return &apiv1.Service{} }, false},
	{"Secret", func() client.Object { return &apiv1.Secret{} }, false},
	{"EndpointSlice", func() client.Object { return &discoveryV1.EndpointSlice{} }, true},
	{"Namespace", func() client.Object { return &apiv1.Namespace{} }, false},
	{"ReferenceGrant", func() client.Object { return &gatewayv1beta1.ReferenceGrant{} }, true},
	{"NginxProxy", func() client.Object { return &ngfAPIv1alpha1.NginxProxy{} }, true},
	{"GRPCRoute", func() client.Object { return &gatewayv1.GRPCRoute{} }, true},
	{"ClientSettingsPolicy", func() client.Object { return &ngfAPIv1alpha1.ClientSettingsPolicy{} }, true},
	{"ObservabilityPolicy", func() client.Object { return &ngfAPIv1alpha2.ObservabilityPolicy{} }, true},
	{"UpstreamSettingsPolicy", func() client.Object { return &ngfAPIv1alpha1.UpstreamSettingsPolicy{} }, true},
	{"BackendTLSPolicy", func() client.Object { return &gatewayv1alpha3.BackendTLSPolicy{} }, true},
	{"ConfigMap", func() client.Object { return &apiv1.ConfigMap{} }, false},
	{"TLSRoute", func() client.Object { return &gatewayv1alpha2.TLSRoute{} }, true},
	{"SnippetsFilter", func() client.Object { return &ngfAPIv1alpha1.SnippetsFilter{} }, true},
	{"NginxGateway", func() client.Object { return &ngfAPIv1alpha1.NginxGateway{} }, true},
}

// handlerOnlyKinds: kinds with a controller but without an entry in NewChangeProcessorImpl.
var handlerOnlyKinds = map[string]bool{"NginxGateway": true}

var kindByName = func() map[string]kindInfo {
	m := map[string]kindInfo{}
	for _, k := range kindTable {
		m[k.name] = k
	}
	return m
}()
