package c01

import (
	"context"
	"encoding/json"
	"fmt"
	"reflect"
	"sort"
	"strconv"

	apiv1 "k8s.io/api/core/v1"
	discoveryV1 "k8s.io/api/discovery/v1"
	"k8s.io/apimachinery/pkg/api/meta"
	"k8s.io/apimachinery/pkg/runtime/schema"
	clientgoscheme "k8s.io/client-go/kubernetes/scheme"
	k8stesting "k8s.io/client-go/testing"
	"sigs.k8s.io/controller-runtime/pkg/client/apiutil"
	"sigs.k8s.io/controller-runtime/pkg/client"
	"sigs.k8s.io/controller-runtime/pkg/client/fake"

	"github.com/nginx/nginx-gateway-fabric/internal/framework/controller/index"
	p "github.com/nginx/nginx-gateway-fabric/verifharness/pipeline"
)

// World is the cluster: a controller-runtime fake client playing API server + informer cache. The
// controllers under test read it exactly where the real ones read the cache: Reconciler.Get, the
// first-batch preparer's Get/List, the ServiceResolver's EndpointSlice List, getGatewayAddresses.
type World struct {
	cl   client.WithWatch
	raw  k8stesting.ObjectTracker        // the store behind the fake client: written directly for what the client API refuses
	objs map[p.Key]client.Object // what the API server stores (after generation/resourceVersion bookkeeping)
	rv   int
	made int // objects created so far (picks the first resourceVersion of the next one)
}

// rvStarts: the resourceVersion the API server hands to a newly created object. Real resourceVersions are etcd revisions
// of any magnitude; the values sit just below digit-length boundaries so that histories cross them (8 → 9 → 10,
// 998 → 999 → 1000): a component that compares resourceVersions as strings sees an update as older than the stored copy.
var rvStarts = []int{8, 95, 998, 9995, 7, 97, 1, 9998, 9}

func NewWorld() *World {
	raw := k8stesting.NewObjectTracker(p.Scheme, clientgoscheme.Codecs.UniversalDecoder())
	cl := fake.NewClientBuilder().
		WithScheme(p.Scheme).
		WithObjectTracker(raw).
		WithIndex(&discoveryV1.EndpointSlice{}, index.KubernetesServiceNameIndexField, index.ServiceNameIndexFunc).
		Build()
	return &World{cl: cl, raw: raw, objs: map[p.Key]client.Object{}}
}

func gvrOf(o client.Object) (schema.GroupVersionResource, error) {
	gvk, err := apiutil.GVKForObject(o, p.Scheme)
	if err != nil {
		return schema.GroupVersionResource{}, err
	}
	gvr, _ := meta.UnsafeGuessKindToResource(gvk)
	return gvr, nil
}

// rewrite stores obj as it is (resourceVersion, deletionTimestamp, generation included), past the client API.
func (w *World) rewrite(o client.Object) error {
	gvr, err := gvrOf(o)
	if err != nil {
		return err
	}
	return w.raw.Update(gvr, o, o.GetNamespace())
}

func bumpRV(o client.Object) {
	n, _ := strconv.Atoi(o.GetResourceVersion())
	o.SetResourceVersion(strconv.Itoa(n + 1))
}

// HoldFinalizer keeps an object whose deletion was requested in the cluster (Terminating).
const HoldFinalizer = "verif.example.com/hold"

// specOf returns the object without metadata and status (what decides a generation bump).
func specOf(o client.Object, withLabels bool) any {
	b, err := json.Marshal(o)
	if err != nil {
		panic(err)
	}
	m := map[string]any{}
	if err := json.Unmarshal(b, &m); err != nil {
		panic(err)
	}
	delete(m, "status")
	md, _ := m["metadata"].(map[string]any)
	delete(m, "metadata")
	if withLabels && md != nil {
		m["__labels"] = md["labels"]
	}
	return m
}

// Apply performs one mutation as the API server would and returns (old, new) as the informer would
// report them (nil for absent). `obj == nil` means delete.
func (w *World) Apply(key p.Key, obj client.Object) (oldObj, newObj client.Object, err error) {
	ctx := context.Background()
	oldObj = w.objs[key]
	w.rv++
	if obj == nil {
		if oldObj == nil {
			return nil, nil, fmt.Errorf("delete of absent %s", key)
		}
		if len(oldObj.GetFinalizers()) > 0 {
			// the last finalizer is removed (and deletion requested, if it was not yet): the object is gone for good
			gvr, err := gvrOf(oldObj)
			if err != nil {
				return nil, nil, err
			}
			if err := w.raw.Delete(gvr, oldObj.GetNamespace(), oldObj.GetName()); err != nil {
				return nil, nil, err
			}
		} else if err := w.cl.Delete(ctx, oldObj.DeepCopyObject().(client.Object)); err != nil {
			return nil, nil, err
		}
		delete(w.objs, key)
		return oldObj, nil, nil
	}
	n := obj.DeepCopyObject().(client.Object)
	ki := kindByName[key.Kind]
	// Terminating: deletion was requested while a finalizer holds the object. The API server sets deletionTimestamp (and
	// bumps metadata.generation where the kind has one); the object stays in the cluster, in the caches and in every
	// listing until the finalizer goes. deletionTimestamp is immutable afterwards.
	markTerminating := n.GetDeletionTimestamp() != nil && (oldObj == nil || oldObj.GetDeletionTimestamp() == nil)
	wantTS, wantFin := n.GetDeletionTimestamp(), n.GetFinalizers()
	if markTerminating {
		n.SetDeletionTimestamp(nil)
		if oldObj != nil {
			n.SetFinalizers(oldObj.GetFinalizers())
		} else {
			n.SetFinalizers(nil)
		}
	} else if oldObj != nil && oldObj.GetDeletionTimestamp() != nil {
		n.SetDeletionTimestamp(oldObj.GetDeletionTimestamp())
		n.SetFinalizers(oldObj.GetFinalizers())
	}
	var wantStatus *apiv1.ServiceStatus // the fake client overwrites .status of the object passed to Create/Update
	if svc, ok := n.(*apiv1.Service); ok {
		wantStatus = svc.Status.DeepCopy()
	}
	if oldObj == nil {
		n.SetGeneration(1)
		n.SetResourceVersion("")
		if err := w.cl.Create(ctx, n); err != nil {
			return nil, nil, err
		}
		// the resourceVersion a new object gets is wherever the cluster's revision counter stands
		first := ki.bare()
		if err := w.cl.Get(ctx, key.NN, first); err != nil {
			return nil, nil, err
		}
		first.SetResourceVersion(strconv.Itoa(rvStarts[w.made%len(rvStarts)]))
		w.made++
		if err := w.rewrite(first); err != nil {
			return nil, nil, err
		}
	} else {
		gen := oldObj.GetGeneration()
		if ki.genOnSpec && !reflect.DeepEqual(specOf(oldObj, key.Kind == "EndpointSlice"), specOf(n, key.Kind == "EndpointSlice")) {
			gen++
		}
		n.SetGeneration(gen)
		n.SetCreationTimestamp(oldObj.GetCreationTimestamp())
		n.SetResourceVersion(oldObj.GetResourceVersion())
		if err := w.cl.Update(ctx, n); err != nil {
			return nil, nil, err
		}
	}
	if wantStatus != nil {
		// Service has a status sub-resource: Create/Update leave .status alone. The load-balancer controller writes it
		// separately; the harness folds that write into the same step (one informer notification, old → new).
		cur := &apiv1.Service{}
		if err := w.cl.Get(ctx, key.NN, cur); err != nil {
			return nil, nil, err
		}
		if !reflect.DeepEqual(cur.Status, *wantStatus) {
			cur.Status = *wantStatus
			if err := w.cl.Status().Update(ctx, cur); err != nil {
				return nil, nil, err
			}
		}
	}
	if markTerminating {
		cur := ki.bare()
		if err := w.cl.Get(ctx, key.NN, cur); err != nil {
			return nil, nil, err
		}
		if len(wantFin) == 0 {
			wantFin = []string{HoldFinalizer}
		}
		cur.SetFinalizers(wantFin)
		cur.SetDeletionTimestamp(wantTS)
		if cur.GetGeneration() > 0 && ki.genOnSpec {
			cur.SetGeneration(cur.GetGeneration() + 1)
		}
		bumpRV(cur)
		if err := w.rewrite(cur); err != nil {
			return nil, nil, err
		}
	}
	// read back what the server stored (resourceVersion assigned by the tracker)
	stored := ki.bare()
	if err := w.cl.Get(ctx, key.NN, stored); err != nil {
		return nil, nil, err
	}
	w.objs[key] = stored
	return oldObj, stored, nil
}

// Objects returns the current objects sorted by key.
func (w *World) Objects() []client.Object {
	keys := make([]p.Key, 0, len(w.objs))
	for k := range w.objs {
		keys = append(keys, k)
	}
	sort.Slice(keys, func(i, j int) bool { return keys[i].String() < keys[j].String() })
	out := make([]client.Object, 0, len(keys))
	for _, k := range keys {
		out = append(out, w.objs[k])
	}
	return out
}

func (w *World) Keys() []p.Key {
	keys := make([]p.Key, 0, len(w.objs))
	for k := range w.objs {
		keys = append(keys, k)
	}
	sort.Slice(keys, func(i, j int) bool { return keys[i].String() < keys[j].String() })
	return keys
}
