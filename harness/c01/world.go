package c01

import (
	"context"
	"encoding/json"
	"fmt"
	"reflect"
	"sort"

	apiv1 "k8s.io/api/core/v1"
	discoveryV1 "k8s.io/api/discovery/v1"
	"sigs.k8s.io/controller-runtime/pkg/client"
	"sigs.k8s.io/controller-runtime/pkg/client/fake"

	"github.com/nginx/nginx-gateway-fabric/internal/framework/controller/index"
	p "github.com/nginx/nginx-gateway-fabric/verifharness/pipeline"
)

// World is the cluster: a controller-runtime fake client playing API server + informer cache. The
// controllers under test read it exactly where the real ones read the cache: Reconciler.Get, the
// first-batch preparer's Get/List, the ServiceResolver's EndpointSlice List, getGatewayAddresses.
type World struct {
	cl   client.WithWatch
	objs map[p.Key]client.Object // what the API server stores (after generation/resourceVersion bookkeeping)
	rv   int
}

func NewWorld() *World {
	cl := fake.NewClientBuilder().
		WithScheme(p.Scheme).
		WithIndex(&discoveryV1.EndpointSlice{}, index.KubernetesServiceNameIndexField, index.ServiceNameIndexFunc).
		Build()
	return &World{cl: cl, objs: map[p.Key]client.Object{}}
}

// specOf returns the object without metadata and status (what decides a generation bump).
func specOf(o client.Object, withLabels bool) any {
	b, err := json.Marshal(o)
	if err != nil {
		panic(err)
	}
	m := map[string]any{}
	if err := json.Unmarshal(b, &m); err != nil {
		panic(err)
	}
	delete(m, "status")
	md, _ := m["metadata"].(map[string]any)
	delete(m, "metadata")
	if withLabels && md != nil {
		m["__labels"] = md["labels"]
	}
	return m
}

// Apply performs one mutation as the API server would and returns (old, new) as the informer would
// report them (nil for absent). `obj == nil` means delete.
func (w *World) Apply(key p.Key, obj client.Object) (oldObj, newObj client.Object, err error) {
	ctx := context.Background()
	oldObj = w.objs[key]
	w.rv++
	if obj == nil {
		if oldObj == nil {
			return nil, nil, fmt.Errorf("delete of absent %s", key)
		}
		if err := w.cl.Delete(ctx, oldObj.DeepCopyObject().(client.Object)); err != nil {
			return nil, nil, err
		}
		delete(w.objs, key)
		return oldObj, nil, nil
	}
	n := obj.DeepCopyObject().(client.Object)
	ki := kindByName[key.Kind]
	var wantStatus *apiv1.ServiceStatus // the fake client overwrites .status of the object passed to Create/Update
	if svc, ok := n.(*apiv1.Service); ok {
		wantStatus = svc.Status.DeepCopy()
	}
	if oldObj == nil {
		n.SetGeneration(1)
		n.SetResourceVersion("")
		if err := w.cl.Create(ctx, n); err != nil {
			return nil, nil, err
		}
	} else {
		gen := oldObj.GetGeneration()
		if ki.genOnSpec && !reflect.DeepEqual(specOf(oldObj, key.Kind == "EndpointSlice"), specOf(n, key.Kind == "EndpointSlice")) {
			gen++
		}
		n.SetGeneration(gen)
		n.SetCreationTimestamp(oldObj.GetCreationTimestamp())
		n.SetResourceVersion(oldObj.GetResourceVersion())
		if err := w.cl.Update(ctx, n); err != nil {
			return nil, nil, err
		}
	}
	if wantStatus != nil {
		// Service has a status sub-resource: Create/Update leave .status alone. The load-balancer controller writes it
		// separately; the harness folds that write into the same step (one informer notification, old → new).
		cur := &apiv1.Service{}
		if err := w.cl.Get(ctx, key.NN, cur); err != nil {
			return nil, nil, err
		}
		if !reflect.DeepEqual(cur.Status, *wantStatus) {
			cur.Status = *wantStatus
			if err := w.cl.Status().Update(ctx, cur); err != nil {
				return nil, nil, err
			}
		}
	}
	// read back what the server stored (resourceVersion assigned by the tracker)
	stored := ki.bare()
	if err := w.cl.Get(ctx, key.NN, stored); err != nil {
		return nil, nil, err
	}
	w.objs[key] = stored
	return oldObj, stored, nil
}

// Objects returns the current objects sorted by key.
func (w *World) Objects() []client.Object {
	keys := make([]p.Key, 0, len(w.objs))
	for k := range w.objs {
		keys = append(keys, k)
	}
	sort.Slice(keys, func(i, j int) bool { return keys[i].String() < keys[j].String() })
	out := make([]client.Object, 0, len(keys))
	for _, k := range keys {
		out = append(out, w.objs[k])
	}
	return out
}

func (w *World) Keys() []p.Key {
	keys := make([]p.Key, 0, len(w.objs))
	for k := range w.objs {
		keys = append(keys, k)
	}
	sort.Slice(keys, func(i, j int) bool { return keys[i].String() < keys[j].String() })
	return keys
}
