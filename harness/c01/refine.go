package c01

import (
	"reflect"
	"sort"
	"strings"

	apiv1 "k8s.io/api/core/v1"
	discoveryV1 "k8s.io/api/discovery/v1"
	"sigs.k8s.io/controller-runtime/pkg/client"
)

// fieldGroup is a part of an object that can be reverted to its previous value independently.
type fieldGroup struct {
	name   string
	differ func(old, new client.Object) bool
	revert func(old, new client.Object) // copies the group from old into new
}

func svc(o client.Object) *apiv1.Service             { return o.(*apiv1.Service) }
func eps(o client.Object) *discoveryV1.EndpointSlice { return o.(*discoveryV1.EndpointSlice) }
func samePortCount(a, b client.Object) bool          { return len(svc(a).Spec.Ports) == len(svc(b).Spec.Ports) }

var groupsByKind = map[string][]fieldGroup{
	"Service": {
		{"port-order", // the same entries in another order
			func(o, n client.Object) bool {
				a, b := svc(o).Spec.Ports, svc(n).Spec.Ports
				if len(a) != len(b) || reflect.DeepEqual(a, b) {
					return false
				}
				used := make([]bool, len(b))
				for _, x := range a {
					found := false
					for j, y := range b {
						if !used[j] && reflect.DeepEqual(x, y) {
							used[j], found = true, true
							break
						}
					}
					if !found {
						return false
					}
				}
				return true
			},
			func(o, n client.Object) { svc(n).Spec.Ports = svc(o).DeepCopy().Spec.Ports }},
		{"port-numbers",
			func(o, n client.Object) bool {
				if !samePortCount(o, n) {
					return true
				}
				for i := range svc(o).Spec.Ports {
					a, b := svc(o).Spec.Ports[i], svc(n).Spec.Ports[i]
					if a.Port != b.Port || a.TargetPort != b.TargetPort {
						return true
					}
				}
				return false
			},
			func(o, n client.Object) {
				if !samePortCount(o, n) {
					svc(n).Spec.Ports = svc(o).DeepCopy().Spec.Ports
					return
				}
				for i := range svc(o).Spec.Ports {
					svc(n).Spec.Ports[i].Port, svc(n).Spec.Ports[i].TargetPort = svc(o).Spec.Ports[i].Port, svc(o).Spec.Ports[i].TargetPort
				}
			}},
		{"protocol",
			func(o, n client.Object) bool {
				if !samePortCount(o, n) {
					return false
				}
				for i := range svc(o).Spec.Ports {
					if svc(o).Spec.Ports[i].Protocol != svc(n).Spec.Ports[i].Protocol {
						return true
					}
				}
				return false
			},
			func(o, n client.Object) {
				for i := range svc(o).Spec.Ports {
					svc(n).Spec.Ports[i].Protocol = svc(o).Spec.Ports[i].Protocol
				}
			}},
		{"port-name",
			func(o, n client.Object) bool {
				if !samePortCount(o, n) {
					return false
				}
				for i := range svc(o).Spec.Ports {
					if svc(o).Spec.Ports[i].Name != svc(n).Spec.Ports[i].Name {
						return true
					}
				}
				return false
			},
			func(o, n client.Object) {
				for i := range svc(o).Spec.Ports {
					svc(n).Spec.Ports[i].Name = svc(o).Spec.Ports[i].Name
				}
			}},
		{"app-protocol",
			func(o, n client.Object) bool {
				if !samePortCount(o, n) {
					return false
				}
				for i := range svc(o).Spec.Ports {
					if !reflect.DeepEqual(svc(o).Spec.Ports[i].AppProtocol, svc(n).Spec.Ports[i].AppProtocol) {
						return true
					}
				}
				return false
			},
			func(o, n client.Object) {
				for i := range svc(o).Spec.Ports {
					svc(n).Spec.Ports[i].AppProtocol = svc(o).DeepCopy().Spec.Ports[i].AppProtocol
				}
			}},
		{"type",
			func(o, n client.Object) bool {
				return svc(o).Spec.Type != svc(n).Spec.Type || svc(o).Spec.ExternalName != svc(n).Spec.ExternalName
			},
			func(o, n client.Object) {
				svc(n).Spec.Type, svc(n).Spec.ExternalName = svc(o).Spec.Type, svc(o).Spec.ExternalName
			}},
		{"ip-families",
			func(o, n client.Object) bool {
				return !reflect.DeepEqual(svc(o).Spec.IPFamilies, svc(n).Spec.IPFamilies)
			},
			func(o, n client.Object) { svc(n).Spec.IPFamilies = svc(o).DeepCopy().Spec.IPFamilies }},
	},
	"EndpointSlice": {
		{"owner-label",
			func(o, n client.Object) bool {
				return eps(o).Labels[discoveryV1.LabelServiceName] != eps(n).Labels[discoveryV1.LabelServiceName]
			},
			func(o, n client.Object) { eps(n).Labels = eps(o).DeepCopy().Labels }},
		{"endpoints",
			func(o, n client.Object) bool { return !reflect.DeepEqual(eps(o).Endpoints, eps(n).Endpoints) },
			func(o, n client.Object) { eps(n).Endpoints = eps(o).DeepCopy().Endpoints }},
		{"ports",
			func(o, n client.Object) bool { return !reflect.DeepEqual(eps(o).Ports, eps(n).Ports) },
			func(o, n client.Object) { eps(n).Ports = eps(o).DeepCopy().Ports }},
	},
}

func annotationsDiffer(o, n client.Object) bool {
	return !reflect.DeepEqual(o.GetAnnotations(), n.GetAnnotations())
}

// diffLabel names what an update changed (for Service and EndpointSlice by field group; otherwise the
// generator's label).
func diffLabel(oldObj, newObj client.Object, kind, fallback string) string {
	gs, ok := groupsByKind[kind]
	if !ok || oldObj == nil || newObj == nil {
		return fallback
	}
	var names []string
	for _, g := range gs {
		if g.differ(oldObj, newObj) {
			names = append(names, g.name)
		}
	}
	if oldObj.GetDeletionTimestamp() == nil && newObj.GetDeletionTimestamp() != nil {
		names = append(names, "terminating")
	}
	if len(names) == 0 {
		if annotationsDiffer(oldObj, newObj) {
			return "annotation"
		}
		return "nothing"
	}
	sort.Strings(names)
	return strings.Join(names, "+")
}
