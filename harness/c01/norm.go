package c01

import (
	"crypto/sha256"
	"encoding/hex"
	"encoding/json"
	"sort"
	"strings"

	"sigs.k8s.io/controller-runtime/pkg/client"

	frameworkStatus "github.com/nginx/nginx-gateway-fabric/internal/framework/status"
	"github.com/nginx/nginx-gateway-fabric/internal/mode/static/nginx/file"
	p "github.com/nginx/nginx-gateway-fabric/verifharness/pipeline"
)

func digest(s string) string {
	h := sha256.Sum256([]byte(s))
	return hex.EncodeToString(h[:6])
}

// ---- NGINX text: order-normalised canonical form (DESIGN §8): the directives of every block are
// sorted (recursively), comments and layout dropped.

type ngxNode struct {
	words []string
	kids  []*ngxNode
	block bool
}

func ngxTokens(s string) []string {
	var toks []string
	i := 0
	for i < len(s) {
		c := s[i]
		switch {
		case c == ' ' || c == '\t' || c == '\n' || c == '\r':
			i++
		case c == '#':
			for i < len(s) && s[i] != '\n' {
				i++
			}
		case c == '{' || c == '}' || c == ';':
			toks = append(toks, string(c))
			i++
		case c == '"' || c == '\'':
			j := i + 1
			for j < len(s) && s[j] != c {
				if s[j] == '\\' {
					j++
				}
				j++
			}
			if j >= len(s) {
				j = len(s) - 1
			}
			toks = append(toks, "q:"+s[i:j+1])
			i = j + 1
		default:
			j := i
			for j < len(s) && !strings.ContainsRune(" \t\n\r{};", rune(s[j])) {
				if s[j] == '\\' {
					j++
				}
				j++
			}
			if j > len(s) {
				j = len(s)
			}
			// "${" inside a word is a variable, not a block
			toks = append(toks, "w:"+s[i:j])
			i = j
		}
	}
	return toks
}

func ngxParse(toks []string, i int) ([]*ngxNode, int) {
	var out []*ngxNode
	cur := &ngxNode{}
	for i < len(toks) {
		t := toks[i]
		switch t {
		case ";":
			out = append(out, cur)
			cur = &ngxNode{}
			i++
		case "{":
			cur.block = true
			cur.kids, i = ngxParse(toks, i+1)
			out = append(out, cur)
			cur = &ngxNode{}
		case "}":
			if len(cur.words) > 0 {
				out = append(out, cur)
			}
			return out, i + 1
		default:
			cur.words = append(cur.words, t)
			i++
		}
	}
	if len(cur.words) > 0 {
		out = append(out, cur)
	}
	return out, i
}

func ngxCanon(ns []*ngxNode) string {
	parts := make([]string, 0, len(ns))
	for _, n := range ns {
		s := strings.Join(n.words, " ")
		if n.block {
			s += " {" + ngxCanon(n.kids) + "}"
		}
		parts = append(parts, s)
	}
	sort.Strings(parts)
	return strings.Join(parts, ";\n")
}

func canonNginx(text string) string {
	ns, _ := ngxParse(ngxTokens(text), 0)
	return ngxCanon(ns)
}

func canonJSONText(text string) string {
	var v any
	if err := json.Unmarshal([]byte(text), &v); err != nil {
		return "unparsable:" + text
	}
	b, _ := json.Marshal(v)
	return string(b)
}

// versionFile carries the monotonically increasing configuration version, which legitimately differs
// between a long-lived and a fresh controller.
const versionFile = "/etc/nginx/conf.d/config-version.conf"

const matchesFile = "/etc/nginx/conf.d/matches.json"

// FilesSnapshot maps path -> digest of the canonical content (exact, canon).
// The keys of matches.json ("<server index>_<path rule index>") are only links between a location's
// `set $match_key` and its entry; the server index depends on Go map iteration order (C14's business),
// so each key is replaced by the digest of the entry it names.
func FilesSnapshot(files []file.File) (exact, canon map[string]string, text map[string]string) {
	exact, canon, text = map[string]string{}, map[string]string{}, map[string]string{}
	matchOf := map[string]string{}
	for _, f := range files {
		if f.Path == matchesFile {
			m := map[string]json.RawMessage{}
			if json.Unmarshal(f.Content, &m) == nil {
				for k, v := range m {
					matchOf[k] = digest(canonJSONText(string(v)))
				}
			}
		}
	}
	for _, f := range files {
		if f.Path == versionFile {
			continue
		}
		c := string(f.Content)
		switch {
		case f.Path == matchesFile:
			vals := make([]string, 0, len(matchOf))
			for _, v := range matchOf {
				vals = append(vals, v)
			}
			sort.Strings(vals)
			c = strings.Join(vals, "\n")
		case strings.HasSuffix(f.Path, ".conf"):
			toks := ngxTokens(c)
			for i := 2; i < len(toks); i++ {
				if toks[i-2] == "w:set" && toks[i-1] == "w:$match_key" {
					if d, ok := matchOf[strings.TrimPrefix(toks[i], "w:")]; ok {
						toks[i] = "matchkey:" + d
					}
				}
			}
			ns, _ := ngxParse(toks, 0)
			c = ngxCanon(ns)
		case strings.HasSuffix(f.Path, ".json"):
			c = canonJSONText(c)
		}
		exact[f.Path] = digest(string(f.Content))
		canon[f.Path] = digest(c)
		text[f.Path] = c
	}
	return exact, canon, text
}

// ---- statuses: apply the issued setters to copies of the current objects, then compare the status
// sub-resources with arrays as multisets, without transition times and message texts.

func normStatus(v any) any {
	switch x := v.(type) {
	case map[string]any:
		out := map[string]any{}
		for k, e := range x {
			if k == "lastTransitionTime" || k == "message" {
				continue
			}
			out[k] = normStatus(e)
		}
		return out
	case []any:
		items := make([]string, 0, len(x))
		for _, e := range x {
			b, _ := json.Marshal(normStatus(e))
			items = append(items, string(b))
		}
		sort.Strings(items)
		out := make([]any, 0, len(items))
		for _, s := range items {
			out = append(out, json.RawMessage(s))
		}
		return out
	default:
		return v
	}
}

// StatusSnapshot maps "Kind/ns/name" -> digest of the normalised status the requests produce on the
// current objects. Requests whose object no longer exists are ignored (the updater gets NotFound).
func StatusSnapshot(reqs []frameworkStatus.UpdateRequest, objs []client.Object) (snap map[string]string, text map[string]string, panicked string) {
	snap, text = map[string]string{}, map[string]string{}
	defer func() {
		if r := recover(); r != nil {
			panicked = "status setter panic"
		}
	}()
	res, _, _ := p.ApplyStatuses(reqs, objs)
	for k, o := range res {
		b, err := json.Marshal(o)
		if err != nil {
			continue
		}
		m := map[string]any{}
		_ = json.Unmarshal(b, &m)
		nb, _ := json.Marshal(normStatus(m["status"]))
		snap[k.String()] = digest(string(nb))
		text[k.String()] = string(nb)
	}
	return snap, text, ""
}

func showMap(m map[string]string) string {
	if len(m) == 0 {
		return "-"
	}
	keys := make([]string, 0, len(m))
	for k := range m {
		keys = append(keys, k)
	}
	sort.Strings(keys)
	parts := make([]string, 0, len(keys))
	for _, k := range keys {
		parts = append(parts, k+"="+m[k])
	}
	return strings.Join(parts, ",")
}
