package c01

import (
	"bufio"
	"encoding/json"
	"flag"
	"fmt"
	"os"
	"path/filepath"
	"sort"
	"strings"

	"github.com/go-logr/logr"
	"k8s.io/apimachinery/pkg/types"
	"sigs.k8s.io/controller-runtime/pkg/client"
	ctrllog "sigs.k8s.io/controller-runtime/pkg/log"

	p "github.com/nginx/nginx-gateway-fabric/verifharness/pipeline"
	"github.com/nginx/nginx-gateway-fabric/verifharness/rng"
)

// ---- line protocol
//
//	H <id> ops=<n> init=<n> tags=<k:v,…>                       one per history
//	M <id> <model input>  \t O <observed>                         store-model correspondence
//	J <id> cp=<i> sig=<signature or -> <judge input>              one per checkpoint
//	R <id> <json>                                                 replay of a (shrunk) failing history
//	X <id> <reason>                                               inconclusive (harness error)
//	P <id> <panic site>                                           the real code panicked (C05's business)
//	K <id> <json>                                                 … while capturing an event, before Process: replay (C01's business)
//	L <id> <json> / Q <id> <why> / PH <id> …                      pipeline stream (-pipeline N, see pipeline.go)

// keyIDs numbers the (kind, name) pairs for the Lean model. 0 is reserved for the configured special name of a
// kind — the two names the handler's objectFilters are keyed with (`gatewayPodConfig.Namespace/ServiceName` for
// Service, `controlConfigNSName` for NginxGateway; configuration the harness itself hands to the handler).
type keyIDs struct {
	ids  map[p.Key]int
	next int
}

func newKeyIDs() *keyIDs {
	return &keyIDs{ids: map[p.Key]int{ngfSvcKey: 0, controlConfigKey: 0}, next: 1}
}

func (k *keyIDs) id(key p.Key) int {
	if v, ok := k.ids[key]; ok {
		return v
	}
	k.ids[key] = k.next
	k.next++
	return k.ids[key]
}

func evToken(in InRec, ids *keyIDs) string {
	id := ids.id(p.Key{Kind: in.Kind, NN: in.NN})
	op := "u"
	if in.Del {
		op = "d"
	}
	b := func(x bool) string {
		if x {
			return "1"
		}
		return "0"
	}
	if !in.Fwd {
		// the real handler kept the event from the change processor: no predicate answer was observed
		return fmt.Sprintf("%s:%s:%d:--", in.Kind, op, id)
	}
	e := in.Ev
	// the oracle bit handed to the model: the observed decision where it is exact, else the peeked verdict
	// (for a delete of an object that is not in the store the model never reads it)
	v := e.Peek.Verdict
	if e.Before == 0 && !(e.Del && e.Peek.Persisted && !e.Peek.InStore) {
		v = e.Pending != 0
	}
	return fmt.Sprintf("%s:%s:%d:%s%s", in.Kind, op, id, b(e.Peek.HasPred), b(v))
}

// modelLines renders the batches — EVERY event handed to HandleEventBatch — for the Lean handler+store model and what
// the real handler and updater did with them.
func modelLines(res *Result) (m, o string) {
	ids := newKeyIDs()
	var mb, pend, store, fwd, emit, cts []string
	for _, b := range res.Batches {
		ins, ct := b.Obs.In, b.CT
		if ct < 0 {
			// the real code panicked inside this batch (reported as P). If it was the capture of an event (a kind the
			// processor does not know), the model is asked about the batch up to that event; a panic elsewhere
			// (BuildGraph: C05's business) leaves no Process result to compare.
			cut := -1
			for i, in := range ins {
				if in.Panics {
					cut = i
				}
			}
			if cut < 0 {
				continue
			}
			ins, ct = ins[:cut+1], 9
		}
		var toks, ps, ss, fs, es []string
		for _, in := range ins {
			toks = append(toks, evToken(in, ids))
			ps = append(ps, fmt.Sprint(in.Pend))
			s := 0
			if in.Fwd && in.Ev.Peek.Persisted {
				s = 1
				if in.Ev.Peek.InStore {
					s = 2
				}
			}
			ss = append(ss, fmt.Sprint(s))
			f := 0
			if in.Fwd {
				f = 1
			}
			fs = append(fs, fmt.Sprint(f))
		}
		for _, n := range b.Obs.EmitRuns {
			es = append(es, fmt.Sprint(n))
		}
		t := strings.Join(toks, ",")
		if t == "" {
			t = "-"
		}
		if b.Restart {
			t = "!" + t
		}
		mb = append(mb, t)
		pend = append(pend, orDash(strings.Join(ps, ",")))
		store = append(store, orDash(strings.Join(ss, ",")))
		fwd = append(fwd, orDash(strings.Join(fs, ",")))
		emit = append(emit, orDash(strings.Join(es, ",")))
		cts = append(cts, fmt.Sprint(ct))
	}
	m = "batches=" + strings.Join(mb, "|")
	o = "pend=" + strings.Join(pend, "|") + " store=" + strings.Join(store, "|") + " fwd=" + strings.Join(fwd, "|") +
		" emit=" + strings.Join(emit, "|") + " ct=" + strings.Join(cts, ",")
	return m, o
}

func orDash(s string) string {
	if s == "" {
		return "-"
	}
	return s
}

func judgeLine(res *Result, i int) string {
	cp := res.CPs[i]
	var inert []string
	for b := cp.FromBatch + 1; b <= cp.Batch && b < len(res.Batches); b++ {
		br := res.Batches[b]
		inert = append(inert, fmt.Sprintf("%d:%d:%d:%d", br.CT, br.Obs.FileCalls, br.Obs.StatusCalls, br.Obs.Reloads))
	}
	fb := cp.FreshFirst
	return fmt.Sprintf("inert=%s a=%s f=%s sa=%s sf=%s fb=%s",
		orDash(strings.Join(inert, ",")), showMap(cp.Applied.Files), showMap(cp.Fresh.Files),
		showMap(cp.Applied.Status), showMap(cp.Fresh.Status), showMap(fb))
}

// ---- replay format

type replayOp struct {
	Op    string          `json:"op"`
	Kind  string          `json:"kind,omitempty"`
	NS    string          `json:"ns,omitempty"`
	Name  string          `json:"name,omitempty"`
	Label string          `json:"label,omitempty"`
	Obj   json.RawMessage `json:"obj,omitempty"`
}

type replayDoc struct {
	Init      json.RawMessage   `json:"init"`
	Ops       []replayOp        `json:"ops"`
	Signature string            `json:"signature,omitempty"`
	Story     []string          `json:"story,omitempty"`
	Diff      map[string]string `json:"diff,omitempty"`
}

func encodeHistory(h *History) replayDoc {
	d := replayDoc{Init: p.EncodeObjects(h.Init)}
	for _, op := range h.Ops {
		ro := replayOp{Op: op.Op, Label: op.Label}
		if op.Op == "u" || op.Op == "d" {
			ro.Kind, ro.NS, ro.Name = op.Key.Kind, op.Key.NN.Namespace, op.Key.NN.Name
		}
		if op.Op == "u" {
			arr := p.EncodeObjects([]client.Object{op.Obj})
			ro.Obj = arr[1 : len(arr)-1]
		}
		d.Ops = append(d.Ops, ro)
	}
	return d
}

func decodeHistory(d replayDoc) (*History, error) {
	h := &History{Opts: p.DefaultOptions(), Tags: map[string]int{}}
	var err error
	if len(d.Init) > 0 && string(d.Init) != "null" {
		if h.Init, err = p.DecodeObjects(d.Init); err != nil {
			return nil, err
		}
	}
	for _, ro := range d.Ops {
		op := Op{Op: ro.Op, Label: ro.Label}
		if ro.Op == "u" || ro.Op == "d" {
			op.Key = p.Key{Kind: ro.Kind, NN: types.NamespacedName{Namespace: ro.NS, Name: ro.Name}}
		}
		if ro.Op == "u" {
			objs, err := p.DecodeObjects([]byte("[" + string(ro.Obj) + "]"))
			if err != nil || len(objs) != 1 {
				return nil, fmt.Errorf("bad object in replay: %v", err)
			}
			op.Obj = objs[0]
		}
		h.Ops = append(h.Ops, op)
	}
	return h, nil
}

func story(res *Result) []string {
	var out []string
	for _, m := range res.Muts {
		out = append(out, fmt.Sprintf("%s %s [%s] -> %s (batch %d)", m.Op, m.Key, m.Label, m.Disp, m.Batch))
	}
	return out
}

func diffOf(cp Checkpoint) map[string]string {
	d := map[string]string{}
	add := func(pfx string, a, b map[string]string) {
		keys := map[string]bool{}
		for k := range a {
			keys[k] = true
		}
		for k := range b {
			keys[k] = true
		}
		for k := range keys {
			if a[k] != b[k] {
				d[pfx+k] = lineDiff(a[k], b[k])
			}
		}
	}
	add("file ", cp.Applied.FileText, cp.Fresh.FileText)
	add("status ", cp.Applied.StatusText, cp.Fresh.StatusText)
	if len(d) == 0 {
		add("first-batch(-) vs drained start-up(+) file ", cp.FreshFirstText, cp.Fresh.FileText)
	}
	return d
}

// lineDiff lists the lines only in the applied ("-") and only in the fresh ("+") text.
func lineDiff(a, b string) string {
	cnt := map[string]int{}
	for _, l := range strings.Split(a, "\n") {
		cnt[l]++
	}
	for _, l := range strings.Split(b, "\n") {
		cnt[l]--
	}
	var out []string
	for _, l := range strings.Split(a, "\n") {
		if cnt[l] > 0 {
			out = append(out, "- applied: "+l)
			cnt[l]--
		}
	}
	for _, l := range strings.Split(b, "\n") {
		if cnt[l] < 0 {
			out = append(out, "+ fresh:   "+l)
			cnt[l]++
		}
	}
	if len(out) > 40 {
		out = append(out[:40], "…")
	}
	return strings.Join(out, "\n")
}

// ---- shrinking: keep the same signature while removing steps and objects

func (rn *Runner) shrink(h *History, class string, budget int) *History {
	cur := h
	fails := func(c *History) bool {
		if budget <= 0 {
			return false
		}
		budget--
		r := rn.Run(c)
		return r.Fail >= 0 && r.FailClass() == class
	}
	// 0. drop everything after the failing checkpoint
	if r := rn.Run(cur); r.Fail >= 0 {
		n := 0
		seen := 0
		for i, op := range cur.Ops {
			if op.Op == "u" || op.Op == "d" {
				seen++
			}
			if seen >= r.CPs[r.Fail].MutTo {
				n = i + 1
				break
			}
		}
		if n > 0 && n < len(cur.Ops) {
			c := &History{Opts: cur.Opts, Init: cur.Init, Ops: append([]Op(nil), cur.Ops[:n]...)}
			if fails(c) {
				cur = c
			}
		}
	}
	for round := 0; round < 3 && budget > 0; round++ {
		before := len(cur.Ops) + len(cur.Init)
		// 1. absorb a prefix of the history into the initial cluster
		for k := len(cur.Ops) - 1; k >= 1; k-- {
			c := absorb(cur, k)
			if c != nil && fails(c) {
				cur = c
				break
			}
		}
		// 2. remove single steps, then single initial objects, to a fixpoint
		for changed := true; changed && budget > 0; {
			changed = false
			for i := 0; i < len(cur.Ops); i++ {
				c := &History{Opts: cur.Opts, Init: cur.Init}
				c.Ops = append(append([]Op(nil), cur.Ops[:i]...), cur.Ops[i+1:]...)
				if fails(c) {
					cur, changed = c, true
					i--
				}
			}
			for i := 0; i < len(cur.Init); i++ {
				c := &History{Opts: cur.Opts, Ops: cur.Ops}
				c.Init = append(append([]client.Object(nil), cur.Init[:i]...), cur.Init[i+1:]...)
				if fails(c) {
					cur, changed = c, true
					i--
				}
			}
		}
		if len(cur.Ops)+len(cur.Init) == before {
			break
		}
	}
	// 3. inside an update, revert the field groups that are not needed for the failure
	for i, op := range cur.Ops {
		gs := groupsByKind[op.Key.Kind]
		if op.Op != "u" || len(gs) == 0 {
			continue
		}
		var prev client.Object
		if a := absorb(cur, i); a != nil {
			for _, o := range a.Init {
				if p.KeyOf(o) == op.Key {
					prev = o
				}
			}
		}
		if prev == nil {
			continue
		}
		for _, g := range gs {
			if !g.differ(prev, cur.Ops[i].Obj) {
				continue
			}
			n := cur.Ops[i].Obj.DeepCopyObject().(client.Object)
			g.revert(prev, n)
			c := &History{Opts: cur.Opts, Init: cur.Init, Ops: append([]Op(nil), cur.Ops...)}
			c.Ops[i].Obj = n
			if fails(c) {
				cur = c
			}
		}
	}
	return cur
}

// absorb applies the first k steps to the initial cluster.
func absorb(h *History, k int) *History {
	objs := map[p.Key]client.Object{}
	var order []p.Key
	for _, o := range h.Init {
		objs[p.KeyOf(o)] = o
		order = append(order, p.KeyOf(o))
	}
	for _, op := range h.Ops[:k] {
		switch op.Op {
		case "u":
			if _, ok := objs[op.Key]; !ok {
				order = append(order, op.Key)
			}
			objs[op.Key] = op.Obj
		case "d":
			delete(objs, op.Key)
		}
	}
	c := &History{Opts: h.Opts, Ops: append([]Op(nil), h.Ops[k:]...)}
	for _, key := range order {
		if o, ok := objs[key]; ok {
			c.Init = append(c.Init, o)
			delete(objs, key)
		}
	}
	return c
}

// ---- entry point

func Run(args []string) int {
	fs := flag.NewFlagSet("c01", flag.ContinueOnError)
	seed := fs.Uint64("seed", 1, "")
	n := fs.Int("n", 50, "number of histories")
	maxOps := fs.Int("maxops", 30, "")
	watchSpec := fs.String("watch", DefaultWatchSpec, "watch table Kind|name|predicate;… (from the translator)")
	replay := fs.String("replay", "", "run the histories of these replay files (comma separated) instead of generating")
	shrinkBudget := fs.Int("shrink", 400, "runs spent on shrinking one failing history")
	maxFail := fs.Int("maxfail", 12, "stop after this many failing histories")
	emitDir := fs.String("emit-directed", "", "write the directed histories as replay files into this directory and exit")
	pipeN := fs.Int("pipeline", 0, "run this many in-fragment histories of the pipeline stream instead (see pipeline.go)")
	nnSpec := fs.String("nnfilter", DefaultNNFilterSpec, "namespaced-name filters Kind|name|guard|expr;… (from the translator)")
	if err := fs.Parse(args); err != nil {
		return 2
	}
	if *emitDir != "" {
		if err := emitDirected(*emitDir); err != nil {
			fmt.Fprintln(os.Stderr, err)
			return 1
		}
		return 0
	}
	out := bufio.NewWriter(os.Stdout)
	defer out.Flush()
	emit := func(format string, a ...any) {
		fmt.Fprintf(out, format+"\n", a...)
		out.Flush()
	}
	ctrllog.SetLogger(logr.Discard())
	ws, err := parseWatchSpec(*watchSpec, predEnv{controller: p.DefaultController, class: p.DefaultClass,
		ngfSvc: types.NamespacedName{Namespace: podConfig.Namespace, Name: podConfig.ServiceName}})
	if err != nil {
		emit("X 0 watch-table: %v", err)
		return 0
	}
	if nnFilters, err = parseNNFilterSpec(*nnSpec, controlConfig); err != nil {
		emit("X 0 nnfilter-table: %v", err)
		return 0
	}
	if *pipeN > 0 {
		runPipeline(*seed, *pipeN, *maxOps, ws, emit)
		return 0
	}
	rn := &Runner{Watches: ws, CheckEvery: true, Samples: 48}
	quick := &Runner{Watches: ws, CheckEvery: true, Samples: 8} // for shrinking: candidates are re-judged by rn

	var hists []*History
	if *replay != "" {
		for _, fn := range strings.Split(*replay, ",") {
			b, err := os.ReadFile(fn)
			if err != nil {
				emit("X 0 replay %s: %v", fn, err)
				continue
			}
			var d replayDoc
			if err := json.Unmarshal(b, &d); err != nil {
				emit("X 0 replay %s: %v", fn, err)
				continue
			}
			h, err := decodeHistory(d)
			if err != nil {
				emit("X 0 replay %s: %v", fn, err)
				continue
			}
			h.Tags["replay:"+filepath.Base(fn)] = 1
			hists = append(hists, h)
		}
	} else {
		r := rng.New(*seed*1000003 + 7919) // rng.New is linear in the seed: neighbouring seeds would share their streams
		for i := 0; i < *n; i++ {
			hists = append(hists, Generate(r.Fork(), *maxOps))
		}
	}

	failures := 0
	seenSig := map[string]int{}
	for id, h := range hists {
		res := rn.Run(h)
		tags := make([]string, 0, len(h.Tags))
		for k, v := range h.Tags {
			tags = append(tags, fmt.Sprintf("%s:%d", k, v))
		}
		sort.Strings(tags)
		nm, disp := 0, map[string]int{}
		for _, m := range res.Muts {
			nm++
			disp[m.Disp]++
		}
		// handler layer: events that matched an objectFilter, by (kind, op, forwarded)
		hl := map[string]int{}
		for _, b := range res.Batches {
			for _, in := range b.Obs.In {
				k := p.Key{Kind: in.Kind, NN: in.NN}
				if k != ngfSvcKey && k != controlConfigKey {
					continue
				}
				op, f := "u", "kept"
				if in.Del {
					op = "d"
				}
				if in.Fwd {
					f = "fwd"
				}
				hl[in.Kind+"-"+op+"-"+f]++
				if len(b.Obs.In) == 1 {
					hl["alone-in-batch"]++
				}
			}
		}
		for k, v := range hl {
			tags = append(tags, fmt.Sprintf("filter:%s:%d", k, v))
		}
		sort.Strings(tags)
		emit("H %d ops=%d init=%d muts=%d batches=%d cps=%d filtered=%d dropped=%d relevant=%d swallowed=%d control=%d nondet=%d nondetskip=%d tags=%s", id, len(h.Ops), len(h.Init),
			nm, len(res.Batches), len(res.CPs), disp["filtered"], disp["dropped"], disp["relevant"], disp["swallowed"], disp["control"], res.Nondet, res.NondetSkipped, orDash(strings.Join(tags, ",")))
		if res.Err != "" {
			emit("X %d %s", id, res.Err)
			continue
		}
		if res.Panic != "" {
			emit("P %d %s", id, p.PanicSite(res.Panic))
			if res.PanicInCapture {
				// the controller died while CAPTURING a delivered event (handler filter callback / unsupported kind handed
				// to the processor): no configuration will ever be applied again — a violation of C01 by itself
				d := encodeHistory(h)
				d.Signature = "handler-panic:" + strings.ReplaceAll(p.PanicSite(res.Panic), " ", ":")
				d.Story = append(story(res), "panic: "+strings.SplitN(res.Panic, "\n", 2)[0])
				b, _ := json.Marshal(d)
				emit("K %d %s", id, string(b))
			}
		}
		if res.ctrl != nil && res.world != nil && res.Panic == "" {
			// footprint correspondence on the cluster the history ended in (graph of the last rebuild may be
			// stale w.r.t. dropped events: a fresh controller's graph is taken)
			if fc, _, err := rn.start(res.world, nil); err == nil && fc.Panic == "" {
				if fm, fr, ok := footprintLine(fc, res.world); ok {
					emit("G %d %s\tO %s", id, fm, fr)
				}
			}
		}
		for _, wl := range res.SvcWatch {
			emit("W %d %s", id, wl)
		}
		if m, o := modelLines(res); m != "batches=" {
			emit("M %d %s\tO %s", id, m, o)
		}
		// a divergence must reproduce (the build is not deterministic on some inputs, see Runner.Run)
		class, flaky := res.FailClass(), false
		for k := 0; res.Fail >= 0 && k < 2 && !flaky; k++ {
			if r2 := rn.Run(h); r2.Fail < 0 || r2.FailClass() != class {
				flaky = true
			}
		}
		for i := range res.CPs {
			sig := "-"
			if i == res.Fail {
				if flaky {
					emit("F %d flaky divergence (%s) did not reproduce", id, class)
					continue
				}
				sig = "unshrunk:" + res.Signature()
			}
			emit("J %d cp=%d sig=%s %s", id, i, sig, judgeLine(res, i))
		}
		if res.Fail >= 0 && !flaky {
			failures++
			budget := *shrinkBudget
			if seenSig[res.Signature()] >= 3 {
				budget /= 6 // this failure class has been minimised several times already
			}
			small := quick.shrink(h, class, budget)
			sres := rn.Run(small)
			if sres.Fail < 0 || sres.FailClass() != class {
				small, sres = h, res
			}
			sig := sres.Signature()
			seenSig[sig]++
			d := encodeHistory(small)
			d.Signature = sig
			d.Story = story(sres)
			d.Diff = diffOf(sres.CPs[sres.Fail])
			b, _ := json.Marshal(d)
			emit("R %d %s", id, string(b))
			// the shrunk history is judged too (this is the input that is reported)
			emit("J %d cp=shrunk sig=%s %s", id, sig, judgeLine(sres, sres.Fail))
			if failures >= *maxFail {
				break
			}
		}
	}
	return 0
}
