// Package c09 drives the real status.LeaderAwareGroupUpdater (on top of the real status.Updater and a
// recording Kubernetes client) and the real runnables.EnableAfterBecameLeader with generated
// operation lists, sequentially and concurrently.
//
// Output, one line per case, tab-separated parts:
//
//	M ops=<..>                         the operation list in the vocabulary of the Lean model (sequential only)
//	O outs=<..>                        what every operation wrote, in the model's output vocabulary (sequential only)
//	J elected=.. ops=.. writes=..      the stamped history for the Lean judge (at most one Enable)
//	X <reason>                         inconclusive case (timeout = possible deadlock)
//
// A request with tag t addresses the resource (kind t%3 of ConfigMap/Secret/Service, namespace "verif", name t/3): requests are
// keyed by (kind, namespace, name) and consecutive tags share namespace/name. With -wiring the real eventHandlerImpl is put in
// front of the updater (see wiring.go).
//
// The harness plays controller-runtime's runnable groups: a runnable whose NeedLeaderElection() is
// false is started when the manager starts, the others when (and only if) the replica is elected.
package c09

import (
	"bufio"
	"context"
	"flag"
	"fmt"
	"os"
	"runtime"
	"strconv"
	"strings"
	"sync"
	"sync/atomic"
	"time"

	"github.com/go-logr/logr"
	v1 "k8s.io/api/core/v1"
	"k8s.io/apimachinery/pkg/types"
	"sigs.k8s.io/controller-runtime/pkg/client"

	"github.com/nginx/nginx-gateway-fabric/internal/framework/runnables"
	"github.com/nginx/nginx-gateway-fabric/internal/framework/status"
	"github.com/nginx/nginx-gateway-fabric/verifharness/rng"
)

// the group names used by internal/mode/static/handler.go
var groupNames = []string{"all-graphs-except-gateways", "gateways", "control-plane"}

type opSpec struct {
	enable bool
	direct bool // Enable called directly (a second time), not through the runnable
	g      int
	tags   []int
}

type opRec struct {
	opSpec
	call, ret int64
	panicked  bool
	done      bool
}

type result struct {
	model, obs, judge string
	inconclusive      string
	faultStats        string
}

type sys struct {
	clock atomic.Int64
	rec   *recorder
	lu    *status.LeaderAwareGroupUpdater
	run   *runnables.EnableAfterBecameLeader
}

func newSys(jitter bool, seed uint64) *sys {
	s := &sys{}
	s.rec = &recorder{clock: &s.clock, jitter: jitter, seed: seed}
	s.lu = status.NewLeaderAwareGroupUpdater(status.NewUpdater(s.rec, logr.Discard()))
	s.run = runnables.NewEnableAfterBecameLeader(s.lu.Enable)
	return s
}

// reqKinds: the resource types of the synthetic requests. Tag t addresses (kind t%3, namespace "verif", name t/3):
// tags 3k, 3k+1, 3k+2 share namespace/name and differ in kind only, so a request is identified by
// (kind, namespace, name), never by NsName alone.
var reqKinds = []client.Object{&v1.ConfigMap{}, &v1.Secret{}, &v1.Service{}}

func tagKey(t int) (kind int, nn types.NamespacedName) {
	return t % len(reqKinds), types.NamespacedName{Namespace: "verif", Name: strconv.Itoa(t / len(reqKinds))}
}

func kindIndex(obj client.Object) int {
	switch obj.(type) {
	case *v1.ConfigMap:
		return 0
	case *v1.Secret:
		return 1
	case *v1.Service:
		return 2
	}
	return -1
}

func mkReqs(_ int, tags []int) []status.UpdateRequest {
	reqs := make([]status.UpdateRequest, 0, len(tags))
	for _, t := range tags {
		tag := strconv.Itoa(t)
		kind, nn := tagKey(t)
		reqs = append(reqs, status.UpdateRequest{
			ResourceType: reqKinds[kind].DeepCopyObject().(client.Object),
			NsName:       nn,
			Setter: func(obj client.Object) bool {
				obj.SetAnnotations(map[string]string{"verif-tag": tag})
				return true
			},
		})
	}
	return reqs
}

// exec performs one operation of the real code and stamps it.
func (s *sys) exec(idx int, rec *opRec) {
	ctx := withOp(context.Background(), idx)
	rec.call = s.clock.Add(1)
	func() {
		defer func() {
			if r := recover(); r != nil {
				rec.panicked = true
			}
		}()
		switch {
		case rec.enable && rec.direct:
			s.lu.Enable(ctx)
		case rec.enable:
			if err := s.run.Start(ctx); err != nil {
				rec.panicked = true
			}
		default:
			s.lu.UpdateGroup(ctx, groupNames[rec.g], mkReqs(rec.g, rec.tags)...)
		}
	}()
	rec.ret = s.clock.Add(1)
	rec.done = true
}

func natList(l []int) string {
	if len(l) == 0 {
		return "-"
	}
	s := make([]string, len(l))
	for i, v := range l {
		s[i] = strconv.Itoa(v)
	}
	return strings.Join(s, ",")
}

func joinOr(parts []string, sep, empty string) string {
	if len(parts) == 0 {
		return empty
	}
	return strings.Join(parts, sep)
}

type chunk struct {
	g    int
	sub  int
	tags []int
}

// chunks groups the writes made by operation idx into runs belonging to the same submission.
func chunks(ws []write, idx int, subOf map[int]int, recs []*opRec) []chunk {
	var out []chunk
	for _, w := range ws {
		if w.op != idx {
			continue
		}
		sub, ok := subOf[w.tag]
		g := 99
		if ok {
			g = recs[sub].g
		} else {
			sub = -1
		}
		if n := len(out); n > 0 && out[n-1].sub == sub && sub >= 0 {
			out[n-1].tags = append(out[n-1].tags, w.tag)
		} else {
			out = append(out, chunk{g: g, sub: sub, tags: []int{w.tag}})
		}
	}
	return out
}

func render(s *sys, recs []*opRec, elected int64, wantModel bool) result {
	ws := s.rec.snapshot()
	subOf := map[int]int{}
	for i, r := range recs {
		if !r.enable {
			for _, t := range r.tags {
				subOf[t] = i
			}
		}
	}
	var mops, outs, jops, jws []string
	enables := 0
	for i, r := range recs {
		cs := chunks(ws, i, subOf, recs)
		var o []string
		var order []int
		for _, c := range cs {
			o = append(o, fmt.Sprintf("%d:%s", c.g, natList(c.tags)))
			order = append(order, c.g)
		}
		p := 0
		if r.panicked {
			p = 1
			outs = append(outs, "P")
		} else {
			outs = append(outs, joinOr(o, "|", "-"))
		}
		if r.enable {
			enables++
			mops = append(mops, "e:"+natList(order))
			jops = append(jops, fmt.Sprintf("e:%d:%d:%d", r.call, r.ret, p))
		} else {
			mops = append(mops, fmt.Sprintf("u:%d:%s", r.g, natList(r.tags)))
			jops = append(jops, fmt.Sprintf("u:%d:%d:%d:%s", r.g, r.call, r.ret, natList(r.tags)))
		}
	}
	for _, w := range ws {
		op := w.op
		if op < 0 {
			op = 9999
		}
		jws = append(jws, fmt.Sprintf("%d:%d:%d", op, w.tag, w.stamp))
	}
	res := result{}
	if wantModel {
		res.model = "ops=" + joinOr(mops, ";", "-")
		res.obs = "outs=" + joinOr(outs, ";", "-")
	}
	if enables <= 1 {
		el := "-"
		if elected > 0 {
			el = strconv.FormatInt(elected, 10)
		}
		res.judge = fmt.Sprintf("elected=%s ops=%s writes=%s", el, joinOr(jops, ";", "-"), joinOr(jws, ";", "-"))
	}
	return res
}

func genTags(r *rng.R, next *int) []int {
	n := 0
	if !r.Chance(1, 4) {
		n = r.Range(1, 3)
	}
	tags := make([]int, n)
	for i := range tags {
		tags[i] = *next
		*next++
	}
	return tags
}

// runSeq: one sequential operation list.
func runSeq(r *rng.R, maxOps int) result {
	s := newSys(false, 0)
	leader := r.Chance(5, 6)
	nUpd := r.Range(1, maxOps)
	enablePos, secondPos := -1, -1
	if leader {
		enablePos = r.Intn(nUpd + 1)
		if r.Chance(1, 8) {
			secondPos = enablePos + r.Intn(nUpd-enablePos+1)
		}
	}
	nGroups := r.Range(1, 3)
	next := 1
	var recs []*opRec
	var elected int64
	do := func(sp opSpec) {
		rec := &opRec{opSpec: sp}
		recs = append(recs, rec)
		s.exec(len(recs)-1, rec)
	}
	// manager start: runnables that do not need leader election are started at once
	if !s.run.NeedLeaderElection() {
		do(opSpec{enable: true})
	}
	for i := 0; i <= nUpd; i++ {
		if i == enablePos {
			elected = s.clock.Add(1)
			if s.run.NeedLeaderElection() {
				do(opSpec{enable: true})
			}
		}
		if i == secondPos {
			do(opSpec{enable: true, direct: true})
		}
		if i < nUpd {
			do(opSpec{g: r.Intn(nGroups), tags: genTags(r, &next)})
		}
	}
	return render(s, recs, elected, true)
}

// runFaults: a sequential operation list against an API server that, following a generated script, rejects the status
// writes of some resources persistently ('P'), fails their Get ('G'), has lost them ('N'), or rejects the first n
// attempts ('T'). The real Updater retries with its real exponential backoff (4 steps, 200 ms .. ~2 s for a persistent
// failure), so the cases mostly sleep; Run executes them in parallel.
// Output: F bad=<tags scripted P/G/N> ops=.. (model input), O outs=.. (successful writes), J bad=.. elected=.. ops=.. writes=..
func runFaults(r *rng.R, maxOps int) result {
	s := newSys(false, 0)
	s.rec.faults = map[int]fault{}
	nUpd := r.Range(1, maxOps)
	enablePos := r.Intn(nUpd + 1)
	if r.Chance(1, 10) {
		enablePos = -1
	}
	nGroups := r.Range(1, 3)
	next := 1
	var recs []*opRec
	var elected int64
	var bad []int
	persistent, budget := 0, 2 // at most two persistently failing resources per case (each costs ~1.5-2 s of backoff)
	do := func(sp opSpec) {
		rec := &opRec{opSpec: sp}
		recs = append(recs, rec)
		s.exec(len(recs)-1, rec)
	}
	for i := 0; i <= nUpd; i++ {
		if i == enablePos {
			elected = s.clock.Add(1)
			if s.run.NeedLeaderElection() {
				do(opSpec{enable: true})
			}
		}
		if i < nUpd {
			n := r.Range(1, 4)
			if r.Chance(1, 8) {
				n = 0
			}
			tags := make([]int, n)
			for k := range tags {
				tags[k] = next
				next++
			}
			// the script: mostly a request that is NOT the last of its list
			for k, t := range tags {
				last := k == len(tags)-1
				switch x := r.Intn(100); {
				case x < 14 && !last && persistent < budget, x < 3 && persistent < budget:
					s.rec.faults[t] = fault{kind: rng.Pick(r, []byte{'P', 'P', 'G'})}
					bad = append(bad, t)
					persistent++
				case x < 22:
					s.rec.faults[t] = fault{kind: 'N'}
					bad = append(bad, t)
				case x < 34:
					s.rec.faults[t] = fault{kind: 'T', n: r.Range(1, 2)}
				}
			}
			do(opSpec{g: r.Intn(nGroups), tags: tags})
		}
	}
	res := render(s, recs, elected, true)
	b := natList(bad)
	res.model = "bad=" + b + " " + res.model
	res.judge = "bad=" + b + " " + res.judge
	res.faultStats = fmt.Sprintf("persistent=%d gone_or_failing=%d transient=%d injected=%d", persistent, len(bad),
		len(s.rec.faults)-len(bad), s.rec.failed)
	return res
}

// runReplay: a corpus line `u:<g>:<tags>;e;E;...` (e = the replica is elected, E = Enable called directly).
func runReplay(line string) result {
	s := newSys(false, 0)
	var recs []*opRec
	var elected int64
	do := func(sp opSpec) {
		rec := &opRec{opSpec: sp}
		recs = append(recs, rec)
		s.exec(len(recs)-1, rec)
	}
	if !s.run.NeedLeaderElection() {
		do(opSpec{enable: true})
	}
	for _, f := range strings.Split(strings.TrimSpace(line), ";") {
		parts := strings.Split(f, ":")
		switch {
		case f == "e":
			if elected == 0 {
				elected = s.clock.Add(1)
				if s.run.NeedLeaderElection() {
					do(opSpec{enable: true})
				}
			}
		case f == "E":
			do(opSpec{enable: true, direct: true})
		case len(parts) == 3 && parts[0] == "u":
			g, err := strconv.Atoi(parts[1])
			if err != nil || g < 0 || g >= len(groupNames) {
				return result{inconclusive: "bad corpus line " + line}
			}
			var tags []int
			if parts[2] != "-" {
				for _, t := range strings.Split(parts[2], ",") {
					v, err := strconv.Atoi(t)
					if err != nil {
						return result{inconclusive: "bad corpus line " + line}
					}
					tags = append(tags, v)
				}
			}
			do(opSpec{g: g, tags: tags})
		default:
			return result{inconclusive: "bad corpus line " + line}
		}
	}
	return render(s, recs, elected, true)
}

// runConc: submissions from several goroutines racing with the election.
func runConc(r *rng.R) result {
	s := newSys(true, r.U64())
	nGroups := r.Range(1, 2)
	next := 1
	var recs []*opRec
	add := func(sp opSpec) int {
		recs = append(recs, &opRec{opSpec: sp})
		return len(recs) - 1
	}
	// sequential prefix, so that the flush has something to write
	for i, n := 0, r.Intn(3); i < n; i++ {
		idx := add(opSpec{g: r.Intn(nGroups), tags: genTags(r, &next)})
		s.exec(idx, recs[idx])
	}
	nWorkers := r.Range(2, 3)
	plan := make([][]int, nWorkers)
	budget := 5
	for w := range plan {
		for k, n := 0, r.Range(1, 2); k < n && budget > 0; k++ {
			plan[w] = append(plan[w], add(opSpec{g: r.Intn(nGroups), tags: genTags(r, &next)}))
			budget--
		}
	}
	eIdx := add(opSpec{enable: true})
	delays := make([]time.Duration, nWorkers+1)
	for i := range delays {
		delays[i] = time.Duration(r.Intn(120)) * time.Microsecond
	}
	var elected atomic.Int64
	start := make(chan struct{})
	var wg sync.WaitGroup
	for w := range plan {
		wg.Add(1)
		go func(w int) {
			defer wg.Done()
			<-start
			time.Sleep(delays[w])
			for _, idx := range plan[w] {
				s.exec(idx, recs[idx])
				runtime.Gosched()
			}
		}(w)
	}
	wg.Add(1)
	go func() {
		defer wg.Done()
		<-start
		time.Sleep(delays[nWorkers])
		elected.Store(s.clock.Add(1))
		s.exec(eIdx, recs[eIdx])
	}()
	close(start)
	fin := make(chan struct{})
	go func() { wg.Wait(); close(fin) }()
	select {
	case <-fin:
	case <-time.After(3 * time.Second):
		return result{inconclusive: "timeout"}
	}
	// sequential suffix: after Enable has returned every submission must be written at once
	for i, n := 0, r.Intn(2); i < n; i++ {
		idx := add(opSpec{g: r.Intn(nGroups), tags: genTags(r, &next)})
		s.exec(idx, recs[idx])
	}
	return render(s, recs, elected.Load(), false)
}

func Run(args []string) int {
	fs := flag.NewFlagSet("c09", flag.ExitOnError)
	seed := fs.Uint64("seed", 1, "seed")
	n := fs.Int("n", 100, "number of cases")
	maxOps := fs.Int("maxops", 10, "max submissions per sequential case")
	conc := fs.Bool("conc", false, "concurrent histories (judge only)")
	replay := fs.String("replay", "", "file with one sequential operation list per line (corpus)")
	wiring := fs.Bool("wiring", false, "real eventHandlerImpl in front of the real LeaderAwareGroupUpdater")
	maxSteps := fs.Int("maxsteps", 6, "max batches per wiring case")
	faults := fs.Bool("faults", false, "scripted per-resource API failures (sequential updater stream, or with -wiring)")
	_ = fs.Parse(args)
	if *wiring {
		return runWiringCases(*seed, *n, *maxSteps, *faults)
	}
	if *faults {
		return runFaultCases(*seed, *n, *maxOps)
	}
	r := rng.New(*seed)
	w := bufio.NewWriter(os.Stdout)
	defer w.Flush()
	anomalies := 0
	var corpus []string
	if *replay != "" {
		data, err := os.ReadFile(*replay)
		if err != nil {
			fmt.Fprintln(os.Stderr, err)
			return 2
		}
		for _, l := range strings.Split(string(data), "\n") {
			if l = strings.TrimSpace(l); l != "" && !strings.HasPrefix(l, "#") {
				corpus = append(corpus, l)
			}
		}
		*n = len(corpus)
	}
	for i := 0; i < *n && anomalies < 12; i++ {
		cr := r.Fork()
		ch := make(chan result, 1)
		go func() {
			defer func() {
				if p := recover(); p != nil {
					ch <- result{inconclusive: fmt.Sprintf("harness panic: %v", p)}
				}
			}()
			if corpus != nil {
				ch <- runReplay(corpus[i])
			} else if *conc {
				ch <- runConc(cr)
			} else {
				ch <- runSeq(cr, *maxOps)
			}
		}()
		var res result
		select {
		case res = <-ch:
		case <-time.After(5 * time.Second):
			res = result{inconclusive: "timeout"}
		}
		if res.inconclusive != "" {
			anomalies++
			fmt.Fprintf(w, "X %s\n", strings.ReplaceAll(res.inconclusive, "\n", " "))
			w.Flush()
			continue
		}
		var parts []string
		if res.model != "" {
			parts = append(parts, "M "+res.model, "O "+res.obs)
		}
		if res.judge != "" {
			parts = append(parts, "J "+res.judge)
		}
		fmt.Fprintln(w, strings.Join(parts, "\t"))
		w.Flush()
	}
	return 0
}

// runFaultCases runs the fault cases in parallel (they sleep in the Updater's backoff) and prints them in order.
func runFaultCases(seed uint64, n, maxOps int) int {
	r := rng.New(seed)
	out := make([]result, n)
	sem := make(chan struct{}, 48)
	var wg sync.WaitGroup
	for i := 0; i < n; i++ {
		cr := r.Fork()
		wg.Add(1)
		sem <- struct{}{}
		go func(i int) {
			defer wg.Done()
			defer func() { <-sem }()
			ch := make(chan result, 1)
			go func() {
				defer func() {
					if p := recover(); p != nil {
						ch <- result{inconclusive: fmt.Sprintf("harness panic: %v", p)}
					}
				}()
				ch <- runFaults(cr, maxOps)
			}()
			select {
			case out[i] = <-ch:
			case <-time.After(40 * time.Second):
				out[i] = result{inconclusive: "timeout"}
			}
		}(i)
	}
	wg.Wait()
	w := bufio.NewWriter(os.Stdout)
	defer w.Flush()
	for _, res := range out {
		if res.inconclusive != "" {
			fmt.Fprintf(w, "X %s\n", strings.ReplaceAll(res.inconclusive, "\n", " "))
			continue
		}
		fmt.Fprintln(w, strings.Join([]string{"M " + res.model, "O " + res.obs, "J " + res.judge, "S " + res.faultStats}, "\t"))
	}
	return 0
}
