package c09

import (
	"context"
	"errors"
	"strconv"
	"sync"
	"sync/atomic"
	"time"

	apierrors "k8s.io/apimachinery/pkg/api/errors"
	"k8s.io/apimachinery/pkg/runtime/schema"
	"k8s.io/apimachinery/pkg/types"
	"sigs.k8s.io/controller-runtime/pkg/client"
)

// opKey carries the index of the operation (UpdateGroup / Enable call) through the context that the
// real code hands down to the Kubernetes client, so every write can be attributed to its caller.
type opKey struct{}

func withOp(ctx context.Context, idx int) context.Context {
	return context.WithValue(ctx, opKey{}, idx)
}

type write struct {
	op    int
	tag   int
	stamp int64
}

// recorder is the environment of the code under test: a Kubernetes client whose Get always finds the
// object and whose Status().Update records (caller operation, request tag, global stamp).
// Only Get and Status().Update are reachable from status.Updater; any other method panics (nil embed).
type recorder struct {
	client.Client // nil: not used by status.Updater

	clock  *atomic.Int64
	mu     sync.Mutex
	writes []write
	jitter bool // concurrent mode: sleep a little inside client calls to widen race windows
	seed   uint64

	// fault script, per request tag (= per resource (kind, namespace, name)): see fault
	faults   map[int]fault
	attempts map[int]int // Status().Update attempts seen per tag
	failed   int         // injected failures so far
}

// fault: what the API server does to the status writes of one resource.
//
//	'P' persistent: every Status().Update is rejected (webhook / validation / permanent conflict)
//	'G' persistent: every Get fails with a non-NotFound error
//	'N' the resource is gone: Get answers NotFound (no write, no retry; not a failure of the updater)
//	'T' transient: the first n Status().Update attempts are rejected, then it succeeds (n < 4 = the backoff's steps)
type fault struct {
	kind byte
	n    int
}

var errInjected = errors.New("verif: injected API failure")

func tagOfKey(obj client.Object, key types.NamespacedName) int {
	n, err := strconv.Atoi(key.Name)
	k := kindIndex(obj)
	if err != nil || k < 0 || key.Namespace != "verif" {
		return -1
	}
	return n*len(reqKinds) + k
}

func (c *recorder) pause() {
	if !c.jitter {
		return
	}
	// cheap deterministic-ish jitter; the interleaving is decided by the scheduler anyway
	n := atomic.AddUint64(&c.seed, 0x9E3779B97F4A7C15)
	n ^= n >> 29
	time.Sleep(time.Duration(n%40) * time.Microsecond)
}

func (c *recorder) Get(_ context.Context, key types.NamespacedName, obj client.Object, _ ...client.GetOption) error {
	c.pause()
	if c.faults != nil {
		switch f := c.faults[tagOfKey(obj, key)]; f.kind {
		case 'G':
			c.mu.Lock()
			c.failed++
			c.mu.Unlock()
			return errInjected
		case 'N':
			return apierrors.NewNotFound(schema.GroupResource{Resource: "verif"}, key.Name)
		}
	}
	obj.SetNamespace(key.Namespace)
	obj.SetName(key.Name)
	return nil
}

func (c *recorder) Status() client.SubResourceWriter { return statusWriter{c} }

type statusWriter struct{ c *recorder }

func (s statusWriter) Create(context.Context, client.Object, client.Object, ...client.SubResourceCreateOption) error {
	panic("c09: unexpected Status().Create")
}

func (s statusWriter) Patch(context.Context, client.Object, client.Patch, ...client.SubResourcePatchOption) error {
	panic("c09: unexpected Status().Patch")
}

func (s statusWriter) Update(ctx context.Context, obj client.Object, _ ...client.SubResourceUpdateOption) error {
	s.c.pause()
	op := -1
	if v, ok := ctx.Value(opKey{}).(int); ok {
		op = v
	}
	// the tag travels in the annotation the request's setter wrote; the object the client is asked to update must be
	// the (kind, namespace, name) that tag addresses
	tag, err := strconv.Atoi(obj.GetAnnotations()["verif-tag"])
	if err == nil {
		kind, nn := tagKey(tag)
		if kindIndex(obj) != kind || obj.GetNamespace() != nn.Namespace || obj.GetName() != nn.Name {
			err = strconv.ErrSyntax
		}
	}
	if err != nil {
		tag = 999999 // a write that is not the result of any submitted request
	}
	if s.c.faults != nil {
		s.c.mu.Lock()
		if s.c.attempts == nil {
			s.c.attempts = map[int]int{}
		}
		s.c.attempts[tag]++
		n := s.c.attempts[tag]
		f := s.c.faults[tag]
		reject := f.kind == 'P' || (f.kind == 'T' && n <= f.n)
		if reject {
			s.c.failed++
		}
		s.c.mu.Unlock()
		if reject {
			return errInjected
		}
	}
	s.c.mu.Lock()
	s.c.writes = append(s.c.writes, write{op: op, tag: tag, stamp: s.c.clock.Add(1)})
	s.c.mu.Unlock()
	return nil
}

func (c *recorder) snapshot() []write {
	c.mu.Lock()
	defer c.mu.Unlock()
	out := make([]write, len(c.writes))
	copy(out, c.writes)
	return out
}
