package c09

import (
	"context"
	"strconv"
	"sync"
	"sync/atomic"
	"time"

	"k8s.io/apimachinery/pkg/types"
	"sigs.k8s.io/controller-runtime/pkg/client"
)

// opKey carries the index of the operation (UpdateGroup / Enable call) through the context that the
// real code hands down to the Kubernetes client, so every write can be attributed to its caller.
type opKey struct{}

func withOp(ctx context.Context, idx int) context.Context {
	return context.WithValue(ctx, opKey{}, idx)
}

type write struct {
	op    int
	tag   int
	stamp int64
}

// recorder is the environment of the code under test: a Kubernetes client whose Get always finds the
// object and whose Status().Update records (caller operation, request tag, global stamp).
// Only Get and Status().Update are reachable from status.Updater; any other method panics (nil embed).
type recorder struct {
	client.Client // nil: not used by status.Updater

	clock  *atomic.Int64
	mu     sync.Mutex
	writes []write
	jitter bool // concurrent mode: sleep a little inside client calls to widen race windows
	seed   uint64
}

func (c *recorder) pause() {
	if !c.jitter {
		return
	}
	// cheap deterministic-ish jitter; the interleaving is decided by the scheduler anyway
	n := atomic.AddUint64(&c.seed, 0x9E3779B97F4A7C15)
	n ^= n >> 29
	time.Sleep(time.Duration(n%40) * time.Microsecond)
}

func (c *recorder) Get(_ context.Context, key types.NamespacedName, obj client.Object, _ ...client.GetOption) error {
	c.pause()
	obj.SetNamespace(key.Namespace)
	obj.SetName(key.Name)
	return nil
}

func (c *recorder) Status() client.SubResourceWriter { return statusWriter{c} }

type statusWriter struct{ c *recorder }

func (s statusWriter) Create(context.Context, client.Object, client.Object, ...client.SubResourceCreateOption) error {
	panic("c09: unexpected Status().Create")
}

func (s statusWriter) Patch(context.Context, client.Object, client.Patch, ...client.SubResourcePatchOption) error {
	panic("c09: unexpected Status().Patch")
}

func (s statusWriter) Update(ctx context.Context, obj client.Object, _ ...client.SubResourceUpdateOption) error {
	s.c.pause()
	op := -1
	if v, ok := ctx.Value(opKey{}).(int); ok {
		op = v
	}
	// the tag travels in the annotation the request's setter wrote; the object the client is asked to update must be
	// the (kind, namespace, name) that tag addresses
	tag, err := strconv.Atoi(obj.GetAnnotations()["verif-tag"])
	if err == nil {
		kind, nn := tagKey(tag)
		if kindIndex(obj) != kind || obj.GetNamespace() != nn.Namespace || obj.GetName() != nn.Name {
			err = strconv.ErrSyntax
		}
	}
	if err != nil {
		tag = 999999 // a write that is not the result of any submitted request
	}
	s.c.mu.Lock()
	s.c.writes = append(s.c.writes, write{op: op, tag: tag, stamp: s.c.clock.Add(1)})
	s.c.mu.Unlock()
	return nil
}

func (c *recorder) snapshot() []write {
	c.mu.Lock()
	defer c.mu.Unlock()
	out := make([]write, len(c.writes))
	copy(out, c.writes)
	return out
}
