package c09

// Wiring stream (-wiring): the REAL static eventHandlerImpl (overlay accessor VerifC09NewHandler, wired as StartManager
// does) on top of the real ChangeProcessorImpl, with the REAL status.LeaderAwareGroupUpdater + real status.Updater +
// real runnables.EnableAfterBecameLeader in front of a recording Kubernetes client. The replica is NOT the leader
// for a generated prefix of batches: graph-changing batches, NginxGateway (control-plane) events, endpoints-only
// batches, fronting-Service events, no-change batches; then it is elected (Enable) at a generated point; then more
// batches.
//
// Output, one line per case, tab-separated parts:
//
//	M evs=<..>            the handler history in the vocabulary of the Lean wiring model (HEv), with the request VALUES of
//	                      every UpdateGroup call snapshotted at call time by a pass-through spy (interned ids)
//	O groups=.. outs=..   which groups every step submitted (spy) and what every call / Enable wrote (recording client)
//	J {json}              the history for the Lean judge: per step the groups it must submit, what reached the client, and
//	                      (for the steps that matter) what a FRESH handler computes for the cluster state of that step
//	D {json}              dictionary: interned ids -> readable (kind, namespace/name, status payload), steps
//	X <reason>            inconclusive case
//
// Request identity is (kind, namespace, name) + payload; the payload is the status the request's setter writes
// (conditions by type/status/reason/observedGeneration, parents, listeners, addresses; lastTransitionTime and
// message dropped). The generator deliberately reuses namespace/name across kinds (Gateway, HTTPRoute, GRPCRoute,
// NginxGateway `default/cafe`).

import (
	"bufio"
	"context"
	"encoding/json"
	"errors"
	"fmt"
	"os"
	"reflect"
	"sort"
	"strconv"
	"strings"
	"sync"
	"time"

	"github.com/go-logr/logr"
	ngxclient "github.com/nginxinc/nginx-plus-go-client/client"
	apiv1 "k8s.io/api/core/v1"
	discoveryV1 "k8s.io/api/discovery/v1"
	metav1 "k8s.io/apimachinery/pkg/apis/meta/v1"
	"k8s.io/apimachinery/pkg/types"
	"sigs.k8s.io/controller-runtime/pkg/client"
	gatewayv1 "sigs.k8s.io/gateway-api/apis/v1"

	ngfAPI "github.com/nginx/nginx-gateway-fabric/apis/v1alpha1"
	"github.com/nginx/nginx-gateway-fabric/internal/framework/events"
	"github.com/nginx/nginx-gateway-fabric/internal/framework/runnables"
	"github.com/nginx/nginx-gateway-fabric/internal/framework/status"
	ngftypes "github.com/nginx/nginx-gateway-fabric/internal/framework/types"
	static "github.com/nginx/nginx-gateway-fabric/internal/mode/static"
	ngfConfig "github.com/nginx/nginx-gateway-fabric/internal/mode/static/config"
	"github.com/nginx/nginx-gateway-fabric/internal/mode/static/licensing/licensingfakes"
	"github.com/nginx/nginx-gateway-fabric/internal/mode/static/nginx/file"
	"github.com/nginx/nginx-gateway-fabric/internal/mode/static/state"
	"github.com/nginx/nginx-gateway-fabric/internal/mode/static/state/dataplane"
	"github.com/nginx/nginx-gateway-fabric/internal/mode/static/state/graph"
	p "github.com/nginx/nginx-gateway-fabric/verifharness/pipeline"
	"github.com/nginx/nginx-gateway-fabric/verifharness/rng"
)

// kind ids shared with the Lean judge (Model/LeaderWiringJudge.lean: kGateway = 1, kNginxGateway = 4)
var wKinds = []string{"GatewayClass", "Gateway", "HTTPRoute", "GRPCRoute", "NginxGateway", "TLSRoute"}

func wKindID(k string) int {
	for i, n := range wKinds {
		if n == k {
			return i
		}
	}
	return 99
}

func wGroupOfKind(k int) int {
	switch k {
	case 1:
		return 1
	case 4:
		return 2
	}
	return 0
}

// ---- environment stubs (NGINX always takes the configuration)

type wGenerator struct{}

func (wGenerator) Generate(conf dataplane.Configuration) []file.File {
	return []file.File{{Path: "/etc/nginx/conf.d/http.conf", Type: file.TypeRegular, Content: []byte(fmt.Sprintf("# version %d\n", conf.Version))}}
}

func (wGenerator) GenerateDeploymentContext(dataplane.DeploymentContext) (file.File, error) {
	return file.File{Path: "/etc/nginx/main-includes/deployment_ctx.json", Type: file.TypeRegular, Content: []byte("{}")}, nil
}

type wFileMgr struct{}

func (wFileMgr) ReplaceFiles([]file.File) error { return nil }

type wRuntime struct{}

func (wRuntime) Reload(context.Context, int) error { return nil }
func (wRuntime) IsPlus() bool                      { return false }
func (wRuntime) GetUpstreams() (ngxclient.Upstreams, ngxclient.StreamUpstreams, error) {
	return nil, nil, errors.New("not plus")
}
func (wRuntime) UpdateHTTPServers(string, []ngxclient.UpstreamServer) error         { return nil }
func (wRuntime) UpdateStreamServers(string, []ngxclient.StreamUpstreamServer) error { return nil }

// wProcessor delegates to the real ChangeProcessorImpl and remembers what Process reported.
type wProcessor struct {
	state.ChangeProcessor
	lastCT state.ChangeType
	called bool
}

func (r *wProcessor) Process() (state.ChangeType, *graph.Graph) {
	ct, g := r.ChangeProcessor.Process()
	r.called, r.lastCT = true, ct
	return ct, g
}

// ---- request values

type wReq struct {
	Kind    int
	NN      types.NamespacedName
	Payload string
}

type wIntern struct {
	ns, names, payloads map[string]int
	nsL, nameL, payL    []string
	reqs                map[wReq]int
	reqL                []wReq
}

func newIntern() *wIntern {
	return &wIntern{ns: map[string]int{}, names: map[string]int{}, payloads: map[string]int{}, reqs: map[wReq]int{}}
}

func internStr(m map[string]int, l *[]string, s string) int {
	if v, ok := m[s]; ok {
		return v
	}
	m[s] = len(*l)
	*l = append(*l, s)
	return m[s]
}

func (t *wIntern) id(r wReq) int {
	if v, ok := t.reqs[r]; ok {
		return v
	}
	t.reqs[r] = len(t.reqL)
	t.reqL = append(t.reqL, r)
	return t.reqs[r]
}

// quad renders a request for the judge: [kind, ns, name, payload] as numbers.
func (t *wIntern) quad(r wReq) [4]int {
	return [4]int{r.Kind, internStr(t.ns, &t.nsL, r.NN.Namespace), internStr(t.names, &t.nameL, r.NN.Name),
		internStr(t.payloads, &t.payL, r.Payload)}
}

func stripVolatile(v any) any {
	switch x := v.(type) {
	case map[string]any:
		delete(x, "lastTransitionTime")
		delete(x, "message")
		for k, c := range x {
			x[k] = stripVolatile(c)
		}
	case []any:
		for i, c := range x {
			x[i] = stripVolatile(c)
		}
	}
	return v
}

// payloadOf is the canonical text of the object's status.
func payloadOf(obj client.Object) string {
	b, err := json.Marshal(obj)
	if err != nil {
		return "marshal-error"
	}
	var m map[string]any
	if json.Unmarshal(b, &m) != nil {
		return "unmarshal-error"
	}
	out, _ := json.Marshal(stripVolatile(m["status"]))
	return string(out)
}

// ---- recording client

type wWrite struct {
	call int // index of the UpdateGroup call / Enable (through the context), -1 unknown
	step int
	req  wReq
}

type wRecorder struct {
	client.Client // nil: only Get and Status().Update are reachable from status.Updater
	mu            sync.Mutex
	step          int
	writes        []wWrite
	// fault script: Status().Update of these resources is rejected every time (persistent API / webhook rejection)
	reject   map[wKey]bool
	rejected int
}

type wKey struct {
	Kind int
	NN   types.NamespacedName
}

func (c *wRecorder) Get(_ context.Context, key types.NamespacedName, obj client.Object, _ ...client.GetOption) error {
	// like a real Get, overwrite whatever a previous attempt left in obj: the stored object has no status
	if v := reflect.ValueOf(obj); v.Kind() == reflect.Ptr && !v.IsNil() {
		v.Elem().Set(reflect.Zero(v.Elem().Type()))
	}
	obj.SetNamespace(key.Namespace)
	obj.SetName(key.Name)
	return nil
}

func (c *wRecorder) Status() client.SubResourceWriter { return wStatusWriter{c} }

type wStatusWriter struct{ c *wRecorder }

func (s wStatusWriter) Create(context.Context, client.Object, client.Object, ...client.SubResourceCreateOption) error {
	panic("c09: unexpected Status().Create")
}

func (s wStatusWriter) Patch(context.Context, client.Object, client.Patch, ...client.SubResourcePatchOption) error {
	panic("c09: unexpected Status().Patch")
}

func (s wStatusWriter) Update(ctx context.Context, obj client.Object, _ ...client.SubResourceUpdateOption) error {
	call := -1
	if v, ok := ctx.Value(opKey{}).(int); ok {
		call = v
	}
	if k := (wKey{wKindID(p.KindOf(obj)), client.ObjectKeyFromObject(obj)}); s.c.reject[k] {
		s.c.mu.Lock()
		s.c.rejected++
		s.c.mu.Unlock()
		return errInjected
	}
	s.c.mu.Lock()
	s.c.writes = append(s.c.writes, wWrite{call: call, step: s.c.step, req: wReq{
		Kind: wKindID(p.KindOf(obj)), NN: client.ObjectKeyFromObject(obj), Payload: payloadOf(obj),
	}})
	s.c.mu.Unlock()
	return nil
}

// snapshot evaluates a request NOW: the status its setter writes on an object without status. ok=false when the
// setter reports "no change" against such an object (the Updater then skips the write; nothing reaches the client).
func snapshot(r status.UpdateRequest) (wReq, bool) {
	obj, ok := r.ResourceType.DeepCopyObject().(client.Object)
	if !ok {
		return wReq{Kind: 99}, false
	}
	obj.SetNamespace(r.NsName.Namespace)
	obj.SetName(r.NsName.Name)
	set := r.Setter(obj)
	return wReq{Kind: wKindID(p.KindOf(obj)), NN: r.NsName, Payload: payloadOf(obj)}, set
}

// ---- the pass-through spy between the handler and the updater

type wCall struct {
	step   int
	group  int
	vals   []wReq // snapshot at call time (silent requests left out)
	silent int
}

type wSpy struct {
	inner  status.GroupUpdater
	groups []string
	step   int
	calls  []wCall
}

func (s *wSpy) UpdateGroup(ctx context.Context, name string, reqs ...status.UpdateRequest) {
	g := -1
	for i, n := range s.groups {
		if n == name {
			g = i
		}
	}
	c := wCall{step: s.step, group: g}
	for _, r := range reqs {
		v, ok := snapshot(r)
		if ok {
			c.vals = append(c.vals, v)
		} else {
			c.silent++
		}
	}
	idx := len(s.calls)
	s.calls = append(s.calls, c)
	// the SAME slice goes on (no copy): aliasing between the handler and the updater is preserved
	s.inner.UpdateGroup(withOp(ctx, idx), name, reqs...)
}

// directUpdater is the updater of the FRESH (oracle) handler: a leader from the start.
type directUpdater struct{ upd *status.Updater }

func (d directUpdater) UpdateGroup(ctx context.Context, _ string, reqs ...status.UpdateRequest) {
	d.upd.Update(ctx, reqs...)
}

// ---- the cluster

type wWorld struct {
	objs    map[p.Key]client.Object
	order   []p.Key
	ctlNN   types.NamespacedName // the controller's NginxGateway
	nextAge int
}

const (
	wPodNS  = "nginx-gateway"
	wPodSvc = "nginx-gateway"
)

func (w *wWorld) put(o client.Object) {
	k := p.KeyOf(o)
	if _, ok := w.objs[k]; !ok {
		w.order = append(w.order, k)
	}
	w.objs[k] = o
}

func (w *wWorld) del(k p.Key) { delete(w.objs, k) }

func (w *wWorld) list() []client.Object {
	out := make([]client.Object, 0, len(w.order))
	seen := map[p.Key]bool{}
	for _, k := range w.order {
		if o, ok := w.objs[k]; ok && !seen[k] {
			seen[k] = true
			out = append(out, o.DeepCopyObject().(client.Object))
		}
	}
	return out
}

func (w *wWorld) keysOf(kind string) []p.Key {
	var out []p.Key
	seen := map[p.Key]bool{}
	for _, k := range w.order {
		if _, ok := w.objs[k]; ok && k.Kind == kind && !seen[k] {
			seen[k] = true
			out = append(out, k)
		}
	}
	return out
}

func (w *wWorld) age() int { w.nextAge++; return w.nextAge }

var (
	wNamespaces = []string{"default", "team-a"}
	wNames      = []string{"cafe", "tea"}
	wHosts      = []string{"cafe.example.com", "tea.example.com", "*.example.com", ""}
)

func mkRoute(r *rng.R, w *wWorld, kind, ns, name string) client.Object {
	parents := []gatewayv1.ParentReference{}
	gws := w.keysOf("Gateway")
	switch {
	case len(gws) > 0 && !r.Chance(1, 6):
		g := rng.Pick(r, gws)
		parents = append(parents, p.ParentRef(g.NN.Namespace, g.NN.Name, ""))
	default:
		parents = append(parents, p.ParentRef("default", "missing-gw", ""))
	}
	var hosts []string
	if h := rng.Pick(r, wHosts); h != "" {
		hosts = []string{h}
	}
	be := p.Backend{Ref: "default/svc0", Port: 80, Weight: -1}
	if r.Chance(1, 5) {
		be.Ref = "default/nosuch"
	}
	if kind == "HTTPRoute" {
		return p.HTTPRoute(ns, name, w.age(), parents, hosts,
			p.HTTPRule([]gatewayv1.HTTPRouteMatch{p.PathMatch("PathPrefix", rng.Pick(r, []string{"/", "/coffee", "/tea"}))}, be))
	}
	rule := gatewayv1.GRPCRouteRule{BackendRefs: []gatewayv1.GRPCBackendRef{{BackendRef: p.BackendRef(be)}}}
	return p.GRPCRoute(ns, name, w.age(), parents, hosts, rule)
}

func mkGateway(r *rng.R, w *wWorld, ns, name string) client.Object {
	l := p.Listener{Name: "http", Port: 80, Protocol: "HTTP", Hostname: rng.Pick(r, wHosts), FromNS: "All"}
	return p.Gateway(ns, name, p.DefaultClass, w.age(), l)
}

func mkNginxGateway(nn types.NamespacedName, gen int64, level string) client.Object {
	ng := &ngfAPI.NginxGateway{ObjectMeta: p.Meta(nn.Namespace, nn.Name, 0)}
	ng.Generation = gen
	lv := ngfAPI.ControllerLogLevel(level)
	ng.Spec.Logging = &ngfAPI.Logging{Level: &lv}
	return ng
}

func mkFrontSvc(ip string) client.Object {
	s := p.Service(wPodNS, wPodSvc, 80)
	s.Spec.Type = apiv1.ServiceTypeLoadBalancer
	if ip != "" {
		s.Status.LoadBalancer.Ingress = []apiv1.LoadBalancerIngress{{IP: ip}}
	}
	return s
}

func bump(o client.Object) client.Object {
	c := o.DeepCopyObject().(client.Object)
	c.SetGeneration(c.GetGeneration() + 1)
	return c
}

func genWorld(r *rng.R) *wWorld {
	w := &wWorld{objs: map[p.Key]client.Object{}}
	w.ctlNN = types.NamespacedName{Namespace: wPodNS, Name: "ngf-config"}
	if r.Chance(1, 2) {
		w.ctlNN = types.NamespacedName{Namespace: "default", Name: "cafe"} // shares namespace/name with other kinds
	}
	if !r.Chance(1, 12) {
		w.put(p.GatewayClass(p.DefaultClass, p.DefaultController, w.age()))
	}
	w.put(p.Service("default", "svc0", 80))
	w.put(p.EndpointSlice("default", "svc0", "a", []int32{80}, "10.1.0.1"))
	if !r.Chance(1, 8) {
		w.put(mkGateway(r, w, "default", "cafe"))
		if r.Chance(1, 3) {
			w.put(mkGateway(r, w, rng.Pick(r, wNamespaces), "tea"))
		}
	}
	for i, n := 0, r.Range(1, 3); i < n; i++ {
		kind := rng.Pick(r, []string{"HTTPRoute", "GRPCRoute"})
		// namespace/name collisions across kinds are the point: mostly default/cafe
		ns, name := "default", "cafe"
		if r.Chance(1, 3) {
			ns, name = rng.Pick(r, wNamespaces), rng.Pick(r, wNames)
		}
		w.put(mkRoute(r, w, kind, ns, name))
	}
	if r.Chance(1, 2) {
		w.put(mkFrontSvc("192.0.2.1"))
	}
	return w
}

// ---- one controller process (the real handler + processor) on a world

type wSys struct {
	ctrl *p.Controller
	proc *wProcessor
	h    *static.VerifC09Handler
}

func newWSys(ctlNN types.NamespacedName, upd status.GroupUpdater) *wSys {
	c := p.NewController(p.DefaultOptions())
	proc := &wProcessor{ChangeProcessor: c.Proc}
	h := static.VerifC09NewHandler(static.VerifC09Deps{
		ControllerName: p.DefaultController, Generator: wGenerator{}, FileMgr: wFileMgr{}, RuntimeMgr: wRuntime{},
		Processor: proc, Resolver: c.Resolver, StatusUpdater: upd, K8sClient: c.Client,
		DeployCtx: &licensingfakes.FakeCollector{},
		PodConfig: ngfConfig.GatewayPodConfig{ServiceName: wPodSvc, Namespace: wPodNS, PodIP: "10.0.0.1"},
		ControlConfigNSName: ctlNN,
	})
	return &wSys{ctrl: c, proc: proc, h: h}
}

// syncClient mirrors an object into the API-server stand-in the handler reads from (EndpointSlices for the resolver,
// the fronting Service for getGatewayAddresses).
func (s *wSys) syncClient(o client.Object, deleted bool) {
	ctx := context.Background()
	switch o.(type) {
	case *discoveryV1.EndpointSlice, *apiv1.Service:
	default:
		return
	}
	cp := o.DeepCopyObject().(client.Object)
	cp.SetResourceVersion("")
	if deleted {
		_ = s.ctrl.Client.Delete(ctx, cp)
		return
	}
	// replace the stored object as a whole (spec and status): delete + create
	_ = s.ctrl.Client.Delete(ctx, cp.DeepCopyObject().(client.Object))
	_ = s.ctrl.Client.Create(ctx, cp)
}

func upsertEv(o client.Object) interface{} {
	return &events.UpsertEvent{Resource: o.DeepCopyObject().(client.Object)}
}

func typeOf(kind string) ngftypes.ObjectType {
	switch kind {
	case "GatewayClass":
		return &gatewayv1.GatewayClass{}
	case "Gateway":
		return &gatewayv1.Gateway{}
	case "HTTPRoute":
		return &gatewayv1.HTTPRoute{}
	case "GRPCRoute":
		return &gatewayv1.GRPCRoute{}
	case "NginxGateway":
		return &ngfAPI.NginxGateway{}
	case "Service":
		return &apiv1.Service{}
	case "EndpointSlice":
		return &discoveryV1.EndpointSlice{}
	}
	return nil
}

// freshWrites: a NEW handler + processor, leader from the start, receives the whole cluster state as its first batch;
// returns what reaches the client, per group (by kind).
func freshWrites(ctlNN types.NamespacedName, objs []client.Object) (out [3][]wReq, panicked string) {
	rec := &wRecorder{}
	sys := newWSys(ctlNN, directUpdater{status.NewUpdater(rec, logr.Discard())})
	var batch events.EventBatch
	for _, o := range objs {
		sys.syncClient(o, false)
		batch = append(batch, upsertEv(o))
	}
	func() {
		defer func() {
			if r := recover(); r != nil {
				panicked = fmt.Sprintf("%v", r)
			}
		}()
		sys.h.HandleEventBatch(context.Background(), batch)
	}()
	for _, w := range rec.writes {
		g := wGroupOfKind(w.req.Kind)
		out[g] = append(out[g], w.req)
	}
	return out, panicked
}

// ---- a step of the generated history

type wStepKind int

const (
	stBatch wStepKind = iota
	stEnable
)

type wEvent struct {
	kind string // C | S | B | N   (model vocabulary)
}

type wStep struct {
	enable bool
	desc   string
	evs    []wEvent
	subs   []int           // groups the handler must submit in this step (specification, from the event kinds)
	state  []client.Object // the cluster after the step
	wrote  []wReq
	want   *[3][]wReq
}

// RunWiring generates and runs one case.
func runWiring(r *rng.R, maxSteps int, faults bool) (res wResult) {
	w := genWorld(r)
	rec := &wRecorder{}
	if faults {
		// one resource whose status the API server keeps rejecting: every Updater.Update call that contains it spends the
		// whole backoff (~1.5-2 s) on it, so these cases are few and short
		cands := []wKey{{0, types.NamespacedName{Name: p.DefaultClass}}, {2, types.NamespacedName{Namespace: "default", Name: "cafe"}},
			{3, types.NamespacedName{Namespace: "default", Name: "cafe"}}, {0, types.NamespacedName{Name: p.DefaultClass}}}
		rec.reject = map[wKey]bool{rng.Pick(r, cands): true}
		if maxSteps > 3 {
			maxSteps = 3
		}
	}
	lu := status.NewLeaderAwareGroupUpdater(status.NewUpdater(rec, logr.Discard()))
	run := runnables.NewEnableAfterBecameLeader(lu.Enable)
	groups := static.VerifC09GroupNames()
	spy := &wSpy{inner: lu, groups: groups}
	sys := newWSys(w.ctlNN, spy)
	ctx := context.Background()

	nSteps := r.Range(2, maxSteps)
	enableAt := -1 // the Enable is its own step, before batch step number enableAt
	if !r.Chance(1, 8) || faults {
		enableAt = r.Range(1, nSteps)
	}
	if faults && enableAt < nSteps-1 {
		nSteps = enableAt + 1 // at most two batches after the election
	}
	var steps []*wStep
	enableCalls := map[int]int{} // step -> call index used for Enable's context
	hasGraph := false
	ngGen := int64(1)
	ipN := 1

	doBatch := func(desc string, batch events.EventBatch, evs []wEvent) string {
		st := &wStep{desc: desc}
		steps = append(steps, st)
		idx := len(steps) - 1
		rec.step, spy.step = idx, idx
		sys.proc.called = false
		panicked := ""
		func() {
			defer func() {
				if rc := recover(); rc != nil {
					panicked = fmt.Sprintf("%v", rc)
				}
			}()
			sys.h.HandleEventBatch(ctx, batch)
		}()
		if panicked != "" {
			return panicked
		}
		st.evs = evs
		if sys.proc.called && sys.proc.lastCT != state.NoChange {
			st.evs = append(st.evs, wEvent{"B"})
		} else {
			st.evs = append(st.evs, wEvent{"N"})
		}
		hasGraph = sys.proc.ChangeProcessor.GetLatestGraph() != nil
		for _, e := range st.evs {
			switch e.kind {
			case "C":
				st.subs = append(st.subs, 2)
			case "S":
				st.subs = append(st.subs, 1)
			case "B":
				st.subs = append(st.subs, 0, 1)
			}
		}
		st.state = w.list()
		return ""
	}

	// mutations -------------------------------------------------------------------------------------------------
	type mut func() (string, events.EventBatch, []wEvent)
	routeUpsert := func() (string, events.EventBatch, []wEvent) {
		kind := rng.Pick(r, []string{"HTTPRoute", "GRPCRoute"})
		existing := append(w.keysOf("HTTPRoute"), w.keysOf("GRPCRoute")...)
		var o client.Object
		if len(existing) > 0 && r.Chance(1, 2) {
			k := rng.Pick(r, existing)
			o = mkRoute(r, w, k.Kind, k.NN.Namespace, k.NN.Name)
			o.SetGeneration(w.objs[k].GetGeneration() + 1)
			o.SetCreationTimestamp(w.objs[k].GetCreationTimestamp())
		} else {
			ns, name := "default", "cafe"
			if r.Chance(1, 3) {
				ns, name = rng.Pick(r, wNamespaces), rng.Pick(r, wNames)
			}
			o = mkRoute(r, w, kind, ns, name)
			if old, ok := w.objs[p.KeyOf(o)]; ok {
				o.SetGeneration(old.GetGeneration() + 1)
			}
		}
		w.put(o)
		return "upsert " + p.KeyOf(o).String(), events.EventBatch{upsertEv(o)}, nil
	}
	routeDelete := func() (string, events.EventBatch, []wEvent) {
		existing := append(w.keysOf("HTTPRoute"), w.keysOf("GRPCRoute")...)
		if len(existing) == 0 {
			return routeUpsert()
		}
		k := rng.Pick(r, existing)
		w.del(k)
		return "delete " + k.String(), events.EventBatch{&events.DeleteEvent{Type: typeOf(k.Kind), NamespacedName: k.NN}}, nil
	}
	gatewayChange := func() (string, events.EventBatch, []wEvent) {
		gws := w.keysOf("Gateway")
		if len(gws) > 0 && r.Chance(1, 4) {
			k := rng.Pick(r, gws)
			w.del(k)
			return "delete " + k.String(), events.EventBatch{&events.DeleteEvent{Type: typeOf("Gateway"), NamespacedName: k.NN}}, nil
		}
		var o client.Object
		if len(gws) > 0 && r.Chance(2, 3) {
			k := rng.Pick(r, gws)
			o = mkGateway(r, w, k.NN.Namespace, k.NN.Name)
			o.SetGeneration(w.objs[k].GetGeneration() + 1)
			o.SetCreationTimestamp(w.objs[k].GetCreationTimestamp())
		} else {
			o = mkGateway(r, w, rng.Pick(r, wNamespaces), rng.Pick(r, wNames))
			if old, ok := w.objs[p.KeyOf(o)]; ok {
				o.SetGeneration(old.GetGeneration() + 1)
				o.SetCreationTimestamp(old.GetCreationTimestamp())
			}
		}
		w.put(o)
		return "upsert " + p.KeyOf(o).String(), events.EventBatch{upsertEv(o)}, nil
	}
	classChange := func() (string, events.EventBatch, []wEvent) {
		k := p.Key{Kind: "GatewayClass", NN: types.NamespacedName{Name: p.DefaultClass}}
		if old, ok := w.objs[k]; ok {
			o := bump(old)
			w.put(o)
			return "upsert " + k.String(), events.EventBatch{upsertEv(o)}, nil
		}
		o := p.GatewayClass(p.DefaultClass, p.DefaultController, w.age())
		w.put(o)
		return "create " + k.String(), events.EventBatch{upsertEv(o)}, nil
	}
	endpoints := func() (string, events.EventBatch, []wEvent) {
		ipN++
		o := p.EndpointSlice("default", "svc0", "a", []int32{80}, fmt.Sprintf("10.1.0.%d", ipN))
		w.put(o)
		sys.syncClient(o, false)
		return "endpoints default/svc0", events.EventBatch{upsertEv(o)}, nil
	}
	control := func() (string, events.EventBatch, []wEvent) {
		k := p.Key{Kind: "NginxGateway", NN: w.ctlNN}
		if _, ok := w.objs[k]; ok && r.Chance(1, 4) {
			w.del(k)
			return "delete " + k.String(), events.EventBatch{&events.DeleteEvent{Type: typeOf("NginxGateway"), NamespacedName: k.NN}},
				[]wEvent{{"C"}}
		}
		ngGen++
		o := mkNginxGateway(w.ctlNN, ngGen, rng.Pick(r, []string{"info", "debug", "error", "bogus"}))
		w.put(o)
		return "upsert " + k.String(), events.EventBatch{upsertEv(o)}, []wEvent{{"C"}}
	}
	frontSvc := func() (string, events.EventBatch, []wEvent) {
		k := p.Key{Kind: "Service", NN: types.NamespacedName{Namespace: wPodNS, Name: wPodSvc}}
		var evs []wEvent
		if hasGraph {
			evs = []wEvent{{"S"}}
		}
		if old, ok := w.objs[k]; ok && r.Chance(1, 4) {
			w.del(k)
			sys.syncClient(old, true)
			return "delete " + k.String(), events.EventBatch{&events.DeleteEvent{Type: typeOf("Service"), NamespacedName: k.NN}}, evs
		}
		ipN++
		o := mkFrontSvc(fmt.Sprintf("192.0.2.%d", ipN))
		w.put(o)
		sys.syncClient(o, false)
		return "upsert " + k.String(), events.EventBatch{upsertEv(o)}, evs
	}
	noop := func() (string, events.EventBatch, []wEvent) {
		if r.Bool() {
			return "empty batch", events.EventBatch{}, nil
		}
		o := p.Service("team-a", "unused", 80)
		w.put(o)
		return "upsert unreferenced Service", events.EventBatch{upsertEv(o)}, nil
	}
	muts := []struct {
		w int
		f mut
	}{{22, routeUpsert}, {8, routeDelete}, {12, gatewayChange}, {6, classChange}, {12, endpoints}, {22, control}, {10, frontSvc}, {8, noop}}
	pick := func() mut {
		tot := 0
		for _, m := range muts {
			tot += m.w
		}
		x := r.Intn(tot)
		for _, m := range muts {
			if x < m.w {
				return m.f
			}
			x -= m.w
		}
		return noop
	}

	// start-up batch: everything that exists (sometimes the NginxGateway is already there, sometimes it arrives later)
	ngAtStart := r.Chance(1, 2)
	if ngAtStart {
		w.put(mkNginxGateway(w.ctlNN, ngGen, rng.Pick(r, []string{"info", "debug", "bogus"})))
	}
	var first events.EventBatch
	var firstEvs []wEvent
	for _, o := range w.list() {
		sys.syncClient(o, false)
		first = append(first, upsertEv(o))
		if p.KeyOf(o) == (p.Key{Kind: "NginxGateway", NN: w.ctlNN}) {
			firstEvs = append(firstEvs, wEvent{"C"})
		}
	}
	if pn := doBatch("start-up batch", first, firstEvs); pn != "" {
		return wResult{inconclusive: "handler panic in start-up batch: " + pn}
	}
	for i := 1; i <= nSteps; i++ {
		if i == enableAt {
			st := &wStep{enable: true, desc: "elected: EnableAfterBecameLeader.Start"}
			steps = append(steps, st)
			idx := len(steps) - 1
			rec.step, spy.step = idx, idx
			callIdx := 100000 + idx
			enableCalls[idx] = callIdx
			pn := ""
			func() {
				defer func() {
					if rc := recover(); rc != nil {
						pn = fmt.Sprintf("%v", rc)
					}
				}()
				if !run.NeedLeaderElection() {
					pn = "runnable does not need leader election"
				}
				if err := run.Start(withOp(ctx, callIdx)); err != nil {
					pn = err.Error()
				}
			}()
			if pn != "" {
				return wResult{inconclusive: "Enable: " + pn}
			}
			st.state = w.list()
		}
		var desc string
		var batch events.EventBatch
		var evs []wEvent
		if r.Chance(1, 6) { // mixed batch: a control-plane / fronting-Service event together with a graph change
			d1, b1, e1 := rng.Pick(r, []mut{control, frontSvc})()
			d2, b2, e2 := rng.Pick(r, []mut{routeUpsert, gatewayChange})()
			desc, batch, evs = d1+" + "+d2, append(b1, b2...), append(e1, e2...)
		} else {
			desc, batch, evs = pick()()
		}
		if pn := doBatch(desc, batch, evs); pn != "" {
			return wResult{inconclusive: "handler panic in batch (" + desc + "): " + pn}
		}
	}
	if !run.NeedLeaderElection() {
		return wResult{inconclusive: "runnable does not need leader election"}
	}

	// ---- observations -----------------------------------------------------------------------------------------
	for _, wr := range rec.writes {
		if wr.step >= 0 && wr.step < len(steps) {
			steps[wr.step].wrote = append(steps[wr.step].wrote, wr.req)
		}
	}
	// the fresh-handler oracle, for the steps that matter
	eIdx := -1
	for i, st := range steps {
		if st.enable {
			eIdx = i
		}
	}
	need := map[int]bool{}
	if eIdx >= 0 {
		for g := 0; g < 3; g++ {
			for i := eIdx - 1; i >= 0; i-- {
				if containsInt(steps[i].subs, g) {
					need[i] = true
					break
				}
			}
		}
		for i := eIdx + 1; i < len(steps); i++ {
			if len(steps[i].subs) > 0 {
				need[i] = true
			}
		}
	}
	fresh := 0
	for i := range steps {
		if need[i] {
			out, pn := freshWrites(w.ctlNN, steps[i].state)
			if pn != "" {
				return wResult{inconclusive: "fresh handler panic: " + pn}
			}
			steps[i].want = &out
			fresh++
		}
	}
	return renderWiring(steps, spy, rec, enableCalls, w, fresh)
}

func containsInt(l []int, x int) bool {
	for _, v := range l {
		if v == x {
			return true
		}
	}
	return false
}

type wResult struct {
	model, obs, judge, dict string
	inconclusive            string
	stats                   map[string]int
}

func idList(t *wIntern, rs []wReq) string {
	if len(rs) == 0 {
		return "-"
	}
	s := make([]string, len(rs))
	for i, r := range rs {
		s[i] = strconv.Itoa(t.id(r))
	}
	return strings.Join(s, ",")
}

func renderWiring(steps []*wStep, spy *wSpy, rec *wRecorder, enableCalls map[int]int, w *wWorld, fresh int) wResult {
	t := newIntern()
	stats := map[string]int{"fresh_handlers": fresh, "steps": len(steps)}
	// ---- model line: events with the values the spy saw, by position
	var msteps, ogroups, outs []string
	callsOfStep := map[int][]int{}
	for i, c := range spy.calls {
		callsOfStep[c.step] = append(callsOfStep[c.step], i)
		stats["silent_requests"] += c.silent
	}
	writesOfCall := map[int][]wReq{}
	var enableWrites []wReq
	for _, wr := range rec.writes {
		if wr.call >= 100000 {
			enableWrites = append(enableWrites, wr.req)
		} else {
			writesOfCall[wr.call] = append(writesOfCall[wr.call], wr.req)
		}
	}
	for si, st := range steps {
		if st.enable {
			// chunks of consecutive writes whose kind belongs to the same group; order = first appearance
			var chunks []string
			var order []string
			cur, curG := []wReq(nil), -1
			flushChunk := func() {
				if curG >= 0 {
					chunks = append(chunks, fmt.Sprintf("%d:%s", curG, idList(t, cur)))
				}
			}
			seen := map[int]bool{}
			for _, q := range enableWrites {
				g := wGroupOfKind(q.Kind)
				if g != curG {
					flushChunk()
					cur, curG = nil, g
					if !seen[g] {
						seen[g] = true
						order = append(order, strconv.Itoa(g))
					}
				}
				cur = append(cur, q)
			}
			flushChunk()
			msteps = append(msteps, "E:"+joinOr(order, ",", "-"))
			ogroups = append(ogroups, "-")
			outs = append(outs, joinOr(chunks, "|", "-"))
			stats["enable"]++
			stats[fmt.Sprintf("flush_groups_%d", len(order))]++
			continue
		}
		calls := callsOfStep[si]
		pos := 0
		next := func() string {
			if pos < len(calls) {
				v := idList(t, spy.calls[calls[pos]].vals)
				pos++
				return v
			}
			pos++
			return "-"
		}
		var evs []string
		for _, e := range st.evs {
			stats["ev_"+e.kind]++
			switch e.kind {
			case "C":
				evs = append(evs, "C:"+next())
			case "S":
				evs = append(evs, "S:"+next())
			case "B":
				a := next()
				evs = append(evs, "B:"+a+":"+next())
			case "N":
				evs = append(evs, "N")
			}
		}
		msteps = append(msteps, strings.Join(evs, "+"))
		var gs []string
		for _, ci := range calls {
			c := spy.calls[ci]
			gs = append(gs, strconv.Itoa(c.group))
			if ws := writesOfCall[ci]; len(ws) > 0 {
				outs = append(outs, fmt.Sprintf("%d:%s", c.group, idList(t, ws)))
			} else {
				outs = append(outs, "-")
			}
		}
		ogroups = append(ogroups, joinOr(gs, ",", "-"))
	}
	res := wResult{stats: stats}
	res.model = "evs=" + strings.Join(msteps, ";")
	res.obs = "groups=" + strings.Join(ogroups, ";") + " outs=" + joinOr(outs, ";", "-")

	// ---- judge line
	type jstep struct {
		E     bool        `json:"e"`
		Subs  []int       `json:"subs"`
		Want  [][][4]int  `json:"want"` // null, or one list per group
		Wrote [][4]int    `json:"wrote"`
		Desc  string      `json:"-"`
	}
	quads := func(rs []wReq) [][4]int {
		out := make([][4]int, 0, len(rs))
		for _, q := range rs {
			out = append(out, t.quad(q))
		}
		return out
	}
	var js []jstep
	sameNsName := 0
	for _, st := range steps {
		j := jstep{E: st.enable, Subs: st.subs, Wrote: quads(st.wrote)}
		if j.Subs == nil {
			j.Subs = []int{}
		}
		if st.want != nil {
			j.Want = [][][4]int{quads(st.want[0]), quads(st.want[1]), quads(st.want[2])}
		}
		if st.enable {
			byNN := map[types.NamespacedName]map[int]bool{}
			for _, q := range st.wrote {
				if byNN[q.NN] == nil {
					byNN[q.NN] = map[int]bool{}
				}
				byNN[q.NN][q.Kind] = true
			}
			for _, ks := range byNN {
				if len(ks) > 1 {
					sameNsName++
				}
			}
			stats["flush_writes"] += len(st.wrote)
		}
		js = append(js, j)
	}
	stats["flush_same_nsname_across_kinds"] = sameNsName
	bad := [][3]int{}
	for k := range rec.reject {
		q := t.quad(wReq{Kind: k.Kind, NN: k.NN})
		bad = append(bad, [3]int{q[0], q[1], q[2]})
	}
	stats["rejected_attempts"] = rec.rejected
	jb, _ := json.Marshal(map[string]any{"steps": js, "bad": bad})
	res.judge = string(jb)

	// ---- dictionary for humans
	type dreq struct {
		ID      int    `json:"id"`
		Kind    string `json:"kind"`
		NsName  string `json:"nsname"`
		Payload string `json:"status"`
	}
	var dl []dreq
	for i, q := range t.reqL {
		k := "?"
		if q.Kind < len(wKinds) {
			k = wKinds[q.Kind]
		}
		dl = append(dl, dreq{i, k, q.NN.String(), q.Payload})
	}
	var descs []string
	for i, st := range steps {
		descs = append(descs, fmt.Sprintf("%d: %s", i, st.desc))
	}
	sort.SliceStable(dl, func(i, j int) bool { return dl[i].ID < dl[j].ID })
	db, _ := json.Marshal(map[string]any{"requests": dl, "steps": descs, "kinds": wKinds, "namespaces": t.nsL,
		"names": t.nameL, "payloads": t.payL, "control_config": w.ctlNN.String()})
	res.dict = string(db)
	return res
}

var _ = metav1.Now

func runWiringCases(seed uint64, n, maxSteps int, faults bool) int {
	r := rng.New(seed)
	w := bufio.NewWriter(os.Stdout)
	defer w.Flush()
	anomalies := 0
	for i := 0; i < n && anomalies < 12; i++ {
		cr := r.Fork()
		ch := make(chan wResult, 1)
		go func() {
			defer func() {
				if pn := recover(); pn != nil {
					ch <- wResult{inconclusive: fmt.Sprintf("harness panic: %v", pn)}
				}
			}()
			ch <- runWiring(cr, maxSteps, faults)
		}()
		var res wResult
		select {
		case res = <-ch:
		case <-time.After(60 * time.Second):
			res = wResult{inconclusive: "timeout"}
		}
		if res.inconclusive != "" {
			anomalies++
			fmt.Fprintf(w, "X %s\n", strings.ReplaceAll(res.inconclusive, "\n", " "))
			w.Flush()
			continue
		}
		sb, _ := json.Marshal(res.stats)
		fmt.Fprintln(w, strings.Join([]string{"M " + res.model, "O " + res.obs, "J " + res.judge, "D " + res.dict, "S " + string(sb)}, "\t"))
		w.Flush()
	}
	return 0
}
