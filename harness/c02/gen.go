package c02

import (
	"fmt"
	"strings"

	apiv1 "k8s.io/api/core/v1"
	metav1 "k8s.io/apimachinery/pkg/apis/meta/v1"
	"k8s.io/apimachinery/pkg/labels"
	"sigs.k8s.io/controller-runtime/pkg/client"
	gatewayv1 "sigs.k8s.io/gateway-api/apis/v1"

	p "github.com/nginx/nginx-gateway-fabric/verifharness/pipeline"
	"github.com/nginx/nginx-gateway-fabric/verifharness/rng"
	"github.com/nginx/nginx-gateway-fabric/verifharness/scen"
)

var (
	nsPool    = []string{"default", "team-a", "team-b"}
	hostPool  = []string{"", "*.example.com", "cafe.example.com", "*.cafe.example.com", "foo.example.com", "example.com", "bar.org", "*.org"}
	pathPool  = []string{"/", "/coffee", "/coffee/", "/coffee/latte", "/coffeex", "/tea", "/t", "/a/b"}
	methods   = []string{"GET", "POST", "DELETE"}
	hdrNames  = []string{"version", "X-Env"}
	hdrValues = []string{"v1", "v2"}
	grpcSvcs  = []string{"helloworld.Greeter", "svc.A"}
	grpcMeths = []string{"SayHello", "Do"}
)

// GenRouting draws a scenario built for routing competition: one Gateway of our class with several
// listeners (overlapping hostnames, wildcard/exact, HTTP/HTTPS/TLS), routes that mostly attach, exact and
// prefix pairs on the same path, equal matches with different ages, method/header/query conditions,
// weighted and invalid backends, redirects, GRPC and TLS passthrough.
func GenRouting(r *rng.R) *scen.Scenario {
	s := &scen.Scenario{Opts: p.DefaultOptions(), Tags: map[string]int{}}
	tag := func(t string) { s.Tags[t]++ }
	age := 0
	nextAge := func() int {
		if r.Chance(25, 100) {
			tag("equal-age")
			return age
		}
		age++
		return age
	}

	for i, ns := range nsPool {
		labels := map[string]string{"kubernetes.io/metadata.name": ns}
		if i == 1 || r.Chance(20, 100) {
			labels["team"] = "dev"
		}
		s.Objs = append(s.Objs, p.Namespace(ns, labels))
	}
	s.Objs = append(s.Objs, p.GatewayClass(p.DefaultClass, p.DefaultController, nextAge()))

	type svcRef struct {
		ns, name string
		port     int32
	}
	var svcs []svcRef
	for _, ns := range nsPool {
		for i := 0; i < 3; i++ {
			name := fmt.Sprintf("svc%d", i)
			ports := []int32{80}
			if r.Chance(25, 100) {
				ports = append(ports, 8080)
			}
			s.Objs = append(s.Objs, p.Service(ns, name, ports...))
			for _, pt := range ports {
				svcs = append(svcs, svcRef{ns, name, pt})
			}
			if !r.Chance(15, 100) {
				s.Objs = append(s.Objs, p.EndpointSlice(ns, name, "s0", ports, fmt.Sprintf("10.0.%d.%d", len(svcs), r.Range(1, 9))))
			} else {
				tag("svc-no-endpoints")
			}
		}
		s.Objs = append(s.Objs, p.TLSSecret(ns, "tls-a", len(ns)))
	}
	if r.Chance(20, 100) {
		bad := p.TLSSecret("default", "tls-bad", 3)
		bad.Data[apiv1.TLSCertKey] = []byte("not a cert")
		s.Objs = append(s.Objs, bad)
	}

	// the gateway
	gwNS := rng.Pick(r, []string{"default", "default", "team-a"})
	var ls []p.Listener
	nl := r.Range(1, 5)
	for i := 0; i < nl; i++ {
		l := p.Listener{Name: fmt.Sprintf("l%d", i), Hostname: rng.Pick(r, hostPool)}
		switch k := r.Intn(100); {
		case k < 55:
			l.Protocol, l.Port = "HTTP", rng.Pick(r, []int32{80, 80, 8080})
		case k < 85:
			l.Protocol, l.Port = "HTTPS", rng.Pick(r, []int32{443, 443, 8443})
			l.CertRefs = []string{rng.Pick(r, []string{"tls-a", "tls-a", "tls-a", "tls-bad", "tls-missing"})}
			tag("https-listener")
		default:
			l.Protocol, l.Port = "TLS", rng.Pick(r, []int32{443, 8443, 9443})
			tag("tls-listener")
		}
		switch r.Intn(10) {
		case 0:
			l.FromNS = "Same"
			tag("from-same")
		case 1:
			l.FromNS = "Selector"
			l.Selector = map[string]string{"team": "dev"}
			tag("from-selector")
		default:
			l.FromNS = "All"
		}
		if r.Chance(10, 100) {
			l.Kinds = []string{rng.Pick(r, []string{"HTTPRoute", "GRPCRoute", "TLSRoute"})}
			tag("kinds-restricted")
		}
		if r.Chance(4, 100) && l.Protocol != "TLS" {
			l.Port = 9113
			tag("protected-port")
		}
		// the API server rejects two listeners with the same (port, protocol, hostname)
		dup := false
		for _, o := range ls {
			dup = dup || (o.Port == l.Port && o.Protocol == l.Protocol && o.Hostname == l.Hostname)
		}
		if dup {
			tag("dup-listener-skipped")
			continue
		}
		ls = append(ls, l)
	}
	s.Objs = append(s.Objs, p.Gateway(gwNS, "gw", p.DefaultClass, nextAge(), ls...))

	parents := func(routeNS string, proto ...string) []gatewayv1.ParentReference {
		gns := gwNS
		if gns == routeNS && r.Bool() {
			gns = ""
		}
		if r.Chance(45, 100) {
			// a listener of a fitting protocol if there is one
			var fit []p.Listener
			for _, l := range ls {
				for _, pr := range proto {
					if l.Protocol == pr {
						fit = append(fit, l)
					}
				}
			}
			if len(fit) == 0 || r.Chance(15, 100) {
				fit = ls
			}
			sec := rng.Pick(r, fit).Name
			if r.Chance(5, 100) {
				sec = "nope"
				tag("bad-section")
			}
			prs := []gatewayv1.ParentReference{p.ParentRef(gns, "gw", sec)}
			if r.Chance(25, 100) {
				sec2 := rng.Pick(r, fit).Name
				if sec2 != sec {
					prs = append(prs, p.ParentRef(gns, "gw", sec2))
				}
			}
			return prs
		}
		return []gatewayv1.ParentReference{p.ParentRef(gns, "gw", "")}
	}
	hostnames := func() []string {
		var hs []string
		for i, n := 0, rng.Pick(r, []int{0, 0, 1, 1, 1, 2}); i < n; i++ {
			h := rng.Pick(r, hostPool[1:])
			dup := false
			for _, x := range hs {
				dup = dup || x == h
			}
			if !dup {
				hs = append(hs, h)
			}
		}
		return hs
	}
	backends := func(routeNS string, max int) []p.Backend {
		var bs []p.Backend
		n := rng.Pick(r, []int{0, 1, 1, 1, 2, 2, 3})
		if n > max {
			n = max
		}
		for i := 0; i < n; i++ {
			sv := rng.Pick(r, svcs)
			b := p.Backend{Ref: sv.name, Port: sv.port, Weight: -1}
			if sv.ns != routeNS && r.Chance(35, 100) {
				b.Ref = sv.ns + "/" + sv.name
				if r.Chance(60, 100) {
					tag("crossns-grant")
					s.Objs = append(s.Objs, p.ReferenceGrant(sv.ns, fmt.Sprintf("rg-%d", len(s.Objs)),
						[]p.GrantFrom{{Group: "gateway.networking.k8s.io", Kind: rng.Pick(r, []string{"HTTPRoute", "HTTPRoute", "GRPCRoute", "TLSRoute"}), Namespace: routeNS}},
						[]p.GrantTo{{Kind: "Service", Name: rng.Pick(r, []string{"", sv.name})}}))
				} else {
					tag("crossns-no-grant")
				}
			}
			if r.Chance(55, 100) {
				b.Weight = int32(rng.Pick(r, []int{0, 1, 1, 2, 3, 10, 33, 50, 100}))
			}
			if r.Chance(8, 100) {
				switch r.Intn(3) {
				case 0:
					b.Ref = "no-such-svc"
				case 1:
					b.Port = 81
				default:
					b.Kind = "Foo"
				}
				tag("invalid-backend")
			}
			bs = append(bs, b)
		}
		return bs
	}

	httpMatch := func() gatewayv1.HTTPRouteMatch {
		m := p.PathMatch(rng.Pick(r, []string{"Exact", "PathPrefix", "PathPrefix"}), rng.Pick(r, pathPool))
		if r.Chance(25, 100) {
			m.Method = ptr(gatewayv1.HTTPMethod(rng.Pick(r, methods)))
		}
		if r.Chance(30, 100) {
			n := rng.Pick(r, []int{1, 1, 2})
			for i := 0; i < n && i < len(hdrNames); i++ {
				m.Headers = append(m.Headers, gatewayv1.HTTPHeaderMatch{
					Type: ptr(gatewayv1.HeaderMatchExact), Name: gatewayv1.HTTPHeaderName(hdrNames[(i+r.Intn(2))%2]),
					Value: rng.Pick(r, hdrValues),
				})
				if i == 1 && m.Headers[1].Name == m.Headers[0].Name {
					m.Headers = m.Headers[:1]
				}
			}
			if r.Chance(20, 100) {
				m.Headers = repeatHeaderName(r, m.Headers, s.Tags)
			}
		}
		if r.Chance(20, 100) {
			m.QueryParams = append(m.QueryParams, gatewayv1.HTTPQueryParamMatch{
				Type: ptr(gatewayv1.QueryParamMatchExact), Name: "q", Value: rng.Pick(r, []string{"1", "2"}),
			})
			if r.Chance(25, 100) {
				m.QueryParams = append(m.QueryParams, gatewayv1.HTTPQueryParamMatch{
					Type: ptr(gatewayv1.QueryParamMatchExact), Name: "lang", Value: "en",
				})
			}
		}
		if r.Chance(3, 100) {
			m.Path.Type = ptr(gatewayv1.PathMatchRegularExpression)
			tag("unsupported-path-type")
		}
		if r.Chance(2, 100) {
			m.Method = ptr(gatewayv1.HTTPMethod("CONNECT"))
			tag("unsupported-method")
		}
		return m
	}

	httpRule := func(ns string) gatewayv1.HTTPRouteRule {
		var ms []gatewayv1.HTTPRouteMatch
		for i, n := 0, rng.Pick(r, []int{1, 1, 2, 3}); i < n; i++ {
			ms = append(ms, httpMatch())
		}
		if r.Chance(6, 100) {
			ms = nil // defaulted to prefix "/"
		}
		rule := p.HTTPRule(ms)
		switch k := r.Intn(100); {
		case k < 12:
			rr := &gatewayv1.HTTPRequestRedirectFilter{}
			if r.Chance(70, 100) {
				rr.Scheme = ptr(rng.Pick(r, []string{"https", "http"}))
			}
			if r.Chance(70, 100) {
				rr.Hostname = ptr(gatewayv1.PreciseHostname("redirect.example.com"))
			}
			if r.Chance(30, 100) {
				rr.Port = ptr(gatewayv1.PortNumber(rng.Pick(r, []int{80, 443, 8080})))
			}
			if r.Chance(70, 100) {
				rr.StatusCode = ptr(rng.Pick(r, []int{301, 302}))
			}
			if r.Chance(30, 100) {
				if r.Bool() {
					rr.Path = &gatewayv1.HTTPPathModifier{Type: gatewayv1.FullPathHTTPPathModifier, ReplaceFullPath: ptr("/full")}
				} else {
					rr.Path = &gatewayv1.HTTPPathModifier{Type: gatewayv1.PrefixMatchHTTPPathModifier,
						ReplacePrefixMatch: ptr(rng.Pick(r, []string{"/", "/v2", "/x/"}))}
				}
				tag("redirect-path")
			}
			rule.Filters = append(rule.Filters, gatewayv1.HTTPRouteFilter{Type: gatewayv1.HTTPRouteFilterRequestRedirect, RequestRedirect: rr})
			tag("filter-redirect")
			return rule
		case k < 20:
			rule.Filters = append(rule.Filters, gatewayv1.HTTPRouteFilter{
				Type: gatewayv1.HTTPRouteFilterURLRewrite,
				URLRewrite: &gatewayv1.HTTPURLRewriteFilter{Path: &gatewayv1.HTTPPathModifier{
					Type: gatewayv1.PrefixMatchHTTPPathModifier, ReplacePrefixMatch: ptr(rng.Pick(r, []string{"/", "/v2", "/x/"}))}},
			})
			tag("filter-rewrite")
		case k < 26:
			rule.Filters = append(rule.Filters, gatewayv1.HTTPRouteFilter{
				Type: gatewayv1.HTTPRouteFilterRequestHeaderModifier,
				RequestHeaderModifier: &gatewayv1.HTTPHeaderFilter{
					Set: []gatewayv1.HTTPHeader{{Name: "X-Set", Value: "s"}}, Add: []gatewayv1.HTTPHeader{{Name: "X-Add", Value: "a"}}},
			})
			tag("filter-reqheader")
		case k < 30:
			rule.Filters = append(rule.Filters, gatewayv1.HTTPRouteFilter{
				Type: gatewayv1.HTTPRouteFilterRequestMirror,
				RequestMirror: &gatewayv1.HTTPRequestMirrorFilter{BackendRef: gatewayv1.BackendObjectReference{
					Name: "svc0", Port: ptr(gatewayv1.PortNumber(80))}},
			})
			tag("filter-unsupported")
		}
		for _, b := range backends(ns, 3) {
			rule.BackendRefs = append(rule.BackendRefs, gatewayv1.HTTPBackendRef{BackendRef: p.BackendRef(b)})
		}
		if len(rule.BackendRefs) > 0 && r.Chance(5, 100) {
			rule.BackendRefs[0].Filters = []gatewayv1.HTTPRouteFilter{{
				Type:                  gatewayv1.HTTPRouteFilterRequestHeaderModifier,
				RequestHeaderModifier: &gatewayv1.HTTPHeaderFilter{Set: []gatewayv1.HTTPHeader{{Name: "X-B", Value: "b"}}},
			}}
			tag("backendref-filter")
		}
		return rule
	}

	nh := r.Range(1, 5)
	var httpNames []string
	for i := 0; i < nh; i++ {
		ns := rng.Pick(r, nsPool)
		var rules []gatewayv1.HTTPRouteRule
		for j, n := 0, r.Range(1, 3); j < n; j++ {
			rules = append(rules, httpRule(ns))
		}
		// competition: repeat a match of an earlier rule of another route verbatim
		name := fmt.Sprintf("hr%d", i)
		httpNames = append(httpNames, ns+"/"+name)
		s.Objs = append(s.Objs, p.HTTPRoute(ns, name, nextAge(), parents(ns, "HTTP", "HTTPS"), hostnames(), rules...))
	}

	// competition on one path: a method match, a header match, a query match and a plain match in different
	// routes with the same hostnames and parents, so that only the precedence order decides (method > #headers >
	// #query > age > namespace/name > rule order)
	if r.Chance(45, 100) {
		tag("competition")
		cp := rng.Pick(r, pathPool)
		ct := rng.Pick(r, []string{"Exact", "PathPrefix", "PathPrefix"})
		hs := hostnames()
		pr := []gatewayv1.ParentReference{p.ParentRef(gwNS, "gw", "")}
		meth := rng.Pick(r, methods)
		// sometimes EVERY competitor carries the method: then the method level ties and the header count, the query
		// count, the Route's age and its name must still decide
		allMethod := r.Chance(40, 100)
		if allMethod {
			tag("competition-all-with-method")
		}
		mk := func(f func(m *gatewayv1.HTTPRouteMatch)) gatewayv1.HTTPRouteMatch {
			m := p.PathMatch(ct, cp)
			f(&m)
			if allMethod {
				m.Method = ptr(gatewayv1.HTTPMethod(meth))
			}
			return m
		}
		kinds := []func(m *gatewayv1.HTTPRouteMatch){
			func(m *gatewayv1.HTTPRouteMatch) { m.Method = ptr(gatewayv1.HTTPMethod(meth)) },
			func(m *gatewayv1.HTTPRouteMatch) {
				m.Headers = []gatewayv1.HTTPHeaderMatch{{Type: ptr(gatewayv1.HeaderMatchExact), Name: "version", Value: "v1"}}
			},
			func(m *gatewayv1.HTTPRouteMatch) {
				m.Headers = []gatewayv1.HTTPHeaderMatch{{Type: ptr(gatewayv1.HeaderMatchExact), Name: "version", Value: "v1"},
					{Type: ptr(gatewayv1.HeaderMatchExact), Name: "X-Env", Value: "v2"}}
			},
			func(m *gatewayv1.HTTPRouteMatch) {
				m.QueryParams = []gatewayv1.HTTPQueryParamMatch{{Type: ptr(gatewayv1.QueryParamMatchExact), Name: "q", Value: "1"}}
			},
			func(m *gatewayv1.HTTPRouteMatch) {
				m.QueryParams = []gatewayv1.HTTPQueryParamMatch{{Type: ptr(gatewayv1.QueryParamMatchExact), Name: "q", Value: "1"},
					{Type: ptr(gatewayv1.QueryParamMatchExact), Name: "lang", Value: "en"}}
			},
			func(m *gatewayv1.HTTPRouteMatch) {},
			func(m *gatewayv1.HTTPRouteMatch) {},
		}
		rng.Shuffle(r, kinds)
		nroutes := r.Range(2, 4)
		for i := 0; i < nroutes; i++ {
			ns := rng.Pick(r, nsPool)
			var rules []gatewayv1.HTTPRouteRule
			for j, nr := 0, r.Range(1, 2); j < nr; j++ {
				k := kinds[(i*2+j)%len(kinds)]
				sv := svcs[(i*2+j)%len(svcs)]
				b := p.Backend{Ref: sv.name, Port: sv.port, Weight: -1}
				if sv.ns != ns {
					b.Ref = sv.name // the same-named service of the route's namespace
				}
				rules = append(rules, p.HTTPRule([]gatewayv1.HTTPRouteMatch{mk(k)}, b))
			}
			name := fmt.Sprintf("comp%d", i)
			s.Objs = append(s.Objs, p.HTTPRoute(ns, name, nextAge(), pr, hs, rules...))
		}
	}

	// many rules that tie on every criterion except the rule order: the sort must be stable (a slice of more than
	// 12 elements is where Go's unstable sort stops being an insertion sort)
	if r.Chance(15, 100) {
		tag("tied-rules")
		var rules []gatewayv1.HTTPRouteRule
		for i, n := 0, r.Range(13, 16); i < n; i++ {
			m := p.PathMatch("PathPrefix", "/tied")
			if i%2 == 1 {
				m.Headers = []gatewayv1.HTTPHeaderMatch{{Type: ptr(gatewayv1.HeaderMatchExact), Name: "version", Value: "v1"}}
			}
			rule := p.HTTPRule([]gatewayv1.HTTPRouteMatch{m})
			rule.Filters = []gatewayv1.HTTPRouteFilter{{Type: gatewayv1.HTTPRouteFilterRequestRedirect,
				RequestRedirect: &gatewayv1.HTTPRequestRedirectFilter{
					Hostname: ptr(gatewayv1.PreciseHostname(fmt.Sprintf("r%d.example.com", i))), StatusCode: ptr(302)}}}
			rules = append(rules, rule)
		}
		s.Objs = append(s.Objs, p.HTTPRoute(gwNS, "tied", nextAge(), []gatewayv1.ParentReference{p.ParentRef(gwNS, "gw", "")}, nil, rules...))
	}

	ng := rng.Pick(r, []int{0, 0, 1, 1, 2})
	sameNameUsed := false
	for i := 0; i < ng; i++ {
		ns := rng.Pick(r, nsPool)
		name := fmt.Sprintf("gr%d", i)
		if r.Chance(30, 100) && len(httpNames) > 0 && !sameNameUsed {
			// same namespace/name as an HTTPRoute (DESIGN §7 row 15)
			ns, name = splitNN(rng.Pick(r, httpNames))
			sameNameUsed = true
			tag("grpc-http-same-name")
		}
		var rules []gatewayv1.GRPCRouteRule
		for j, n := 0, r.Range(1, 2); j < n; j++ {
			rule := gatewayv1.GRPCRouteRule{}
			for k, nm := 0, r.Intn(4); k < nm; k++ {
				m := gatewayv1.GRPCRouteMatch{}
				if r.Chance(60, 100) {
					m.Method = &gatewayv1.GRPCMethodMatch{
						Type: ptr(gatewayv1.GRPCMethodMatchExact), Service: ptr(rng.Pick(r, grpcSvcs)), Method: ptr(rng.Pick(r, grpcMeths)),
					}
					if r.Chance(5, 100) {
						m.Method.Method = nil // service-only: not supported by NGF
						tag("grpc-service-only")
					}
				}
				if r.Chance(40, 100) {
					m.Headers = append(m.Headers, gatewayv1.GRPCHeaderMatch{
						Type: ptr(gatewayv1.GRPCHeaderMatchExact), Name: "version", Value: rng.Pick(r, hdrValues),
					})
				}
				rule.Matches = append(rule.Matches, m)
			}
			for _, b := range backends(ns, 3) {
				rule.BackendRefs = append(rule.BackendRefs, gatewayv1.GRPCBackendRef{BackendRef: p.BackendRef(b)})
			}
			rules = append(rules, rule)
		}
		s.Objs = append(s.Objs, p.GRPCRoute(ns, name, nextAge(), parents(ns, "HTTP", "HTTPS"), hostnames(), rules...))
		tag("grpcroute")
	}

	nt := rng.Pick(r, []int{0, 0, 1, 2, 3})
	for i := 0; i < nt; i++ {
		ns := rng.Pick(r, nsPool)
		hs := hostnames()
		if len(hs) == 0 {
			hs = []string{rng.Pick(r, hostPool[1:])}
		}
		bs := backends(ns, 1)
		if len(bs) == 0 {
			bs = []p.Backend{{Ref: "svc0", Port: 80, Weight: -1}}
		}
		s.Objs = append(s.Objs, p.TLSRoute(ns, fmt.Sprintf("tr%d", i), nextAge(), parents(ns, "TLS"), hs, bs...))
		tag("tlsroute")
	}
	return s
}

func splitNN(s string) (string, string) {
	for i := 0; i < len(s); i++ {
		if s[i] == '/' {
			return s[:i], s[i+1:]
		}
	}
	return "", s
}

// repeatHeaderName appends one or two more entries for the header name of the LAST entry, spelled in another case and
// with another value: `[{X-Version: v1}, {x-version: v2}]`. The CRD admits it (listMapKey=name is case-sensitive), and
// Gateway API says that of equivalent (case-insensitive) header names only the FIRST entry counts.
func repeatHeaderName(r *rng.R, hs []gatewayv1.HTTPHeaderMatch, tags map[string]int) []gatewayv1.HTTPHeaderMatch {
	if len(hs) == 0 {
		return hs
	}
	first := hs[len(hs)-1]
	spell := []func(string) string{strings.ToUpper, strings.ToLower, strings.Title}
	used := map[string]bool{string(first.Name): true}
	vals := []string{"v1", "v2", "v3"}
	for i, n := 0, rng.Pick(r, []int{1, 1, 2}); i < n; i++ {
		name := rng.Pick(r, spell)(string(first.Name))
		if used[name] {
			continue
		}
		used[name] = true
		v := rng.Pick(r, vals)
		if v == first.Value {
			v = "v3"
		}
		hs = append(hs, gatewayv1.HTTPHeaderMatch{Type: ptr(gatewayv1.HeaderMatchExact), Name: gatewayv1.HTTPHeaderName(name), Value: v})
		tags["header-name-repeated-other-case"]++
	}
	return hs
}

// Generate mixes the shared scen generator (PBackendTLS off: BackendTLSPolicy validity is C16's subject) with
// the routing-heavy profile.
func Generate(r *rng.R) (*scen.Scenario, string) {
	if r.Chance(8, 100) {
		return GenSelectors(r), "selector"
	}
	if r.Chance(25, 100) {
		return GenFragment(r), "fragment"
	}
	if r.Chance(30, 100) {
		cfg := scen.DefaultConfig()
		cfg.PBackendTLS = 0
		cfg.PInvalid = 6
		sc := scen.Generate(r, cfg)
		dedupListeners(sc.Objs)
		admissibleFilters(sc.Objs)
		return sc, "scen"
	}
	sc := GenRouting(r)
	admissibleFilters(sc.Objs)
	return sc, "routing"
}

// AddNoise returns the scenario's objects plus resources that own no request: routes whose parentRefs do not
// attach (unknown / foreign / ignored gateway, unknown section, disallowed namespace), a route without a valid
// rule, a foreign class with its gateway, a younger Gateway of our class (ignored), unreferenced Services,
// Secrets and ReferenceGrants. maxAge must be ≥ every age used by the base scenario.
func AddNoise(r *rng.R, base []client.Object) ([]client.Object, []string) {
	out := append([]client.Object(nil), base...)
	var kinds []string
	maxAge := 0
	var gw *gatewayv1.Gateway
	for _, o := range base {
		if a := int(o.GetCreationTimestamp().Unix() - p.Epoch.Unix()); a > maxAge {
			maxAge = a
		}
		if g, ok := o.(*gatewayv1.Gateway); ok && string(g.Spec.GatewayClassName) == p.DefaultClass && gw == nil {
			gw = g
		}
	}
	a := maxAge + 5
	rule := p.HTTPRule([]gatewayv1.HTTPRouteMatch{p.PathMatch("PathPrefix", rng.Pick(r, pathPool))}, p.Backend{Ref: "svc0", Port: 80, Weight: -1})
	n := r.Range(1, 4)
	for i := 0; i < n; i++ {
		ns := rng.Pick(r, nsPool)
		name := fmt.Sprintf("x-noise%d", i)
		switch k := r.Intn(9); k {
		case 0:
			kinds = append(kinds, "route-unknown-gateway")
			out = append(out, p.HTTPRoute(ns, name, a+i, []gatewayv1.ParentReference{p.ParentRef(ns, "no-such-gw", "")}, []string{"cafe.example.com"}, rule))
		case 1:
			kinds = append(kinds, "foreign-class-gateway-route")
			out = append(out,
				p.GatewayClass("x-other", scen.ForeignController, a+i),
				p.Gateway(ns, "x-foreign-gw", "x-other", a+i, p.Listener{Name: "http", Port: 80, Protocol: "HTTP", FromNS: "All"}),
				p.HTTPRoute(ns, name, a+i, []gatewayv1.ParentReference{p.ParentRef(ns, "x-foreign-gw", "")}, nil, rule))
		case 2:
			if gw == nil {
				continue
			}
			kinds = append(kinds, "route-unknown-section")
			out = append(out, p.HTTPRoute(ns, name, a+i, []gatewayv1.ParentReference{p.ParentRef(gw.Namespace, gw.Name, "x-nope")}, nil, rule))
		case 3:
			if gw == nil {
				continue
			}
			kinds = append(kinds, "route-all-rules-invalid")
			bad := p.HTTPRule([]gatewayv1.HTTPRouteMatch{p.PathMatch("RegularExpression", "/.*")}, p.Backend{Ref: "svc0", Port: 80, Weight: -1})
			out = append(out, p.HTTPRoute(ns, name, a+i, []gatewayv1.ParentReference{p.ParentRef(gw.Namespace, gw.Name, "")}, nil, bad))
		case 4:
			if gw == nil {
				continue // without an older Gateway of our class the new one would be served
			}
			kinds = append(kinds, "younger-gateway-of-our-class")
			out = append(out,
				p.Gateway(ns, "x-gw-young", p.DefaultClass, a+i, p.Listener{Name: "http", Port: 80, Protocol: "HTTP", FromNS: "All"},
					p.Listener{Name: "alt", Port: 8080, Protocol: "HTTP", FromNS: "All", Hostname: "cafe.example.com"}),
				p.HTTPRoute(ns, name, a+i, []gatewayv1.ParentReference{p.ParentRef(ns, "x-gw-young", "")}, nil, rule))
		case 5:
			kinds = append(kinds, "unreferenced-service-secret-grant")
			out = append(out, p.Service(ns, "x-svc", 80), p.TLSSecret(ns, "x-tls", 5),
				p.ReferenceGrant(ns, "x-rg", []p.GrantFrom{{Group: "gateway.networking.k8s.io", Kind: "HTTPRoute", Namespace: "x-nowhere"}},
					[]p.GrantTo{{Kind: "Service"}}))
		case 6:
			if gw == nil {
				continue
			}
			kinds = append(kinds, "tlsroute-to-non-tls-listener-or-wrong-kind")
			// a route kind no listener of that section accepts: GRPCRoute/HTTPRoute to a TLS listener, TLSRoute to an HTTP one
			for _, l := range gw.Spec.Listeners {
				if l.Protocol == gatewayv1.TLSProtocolType {
					out = append(out, p.HTTPRoute(ns, name, a+i, []gatewayv1.ParentReference{p.ParentRef(gw.Namespace, gw.Name, string(l.Name))}, nil, rule))
				} else {
					out = append(out, p.TLSRoute(ns, name, a+i, []gatewayv1.ParentReference{p.ParentRef(gw.Namespace, gw.Name, string(l.Name))},
						[]string{"cafe.example.com"}, p.Backend{Ref: "svc0", Port: 80, Weight: -1}))
				}
				break
			}
		case 7:
			if gw == nil {
				continue
			}
			// a namespace no listener admits: only if every listener is Same/Selector and ns differs/unlabelled
			kinds = append(kinds, "route-from-new-namespace-not-allowed")
			allowedSomewhere := false
			for _, l := range gw.Spec.Listeners {
				if l.AllowedRoutes == nil || l.AllowedRoutes.Namespaces == nil || l.AllowedRoutes.Namespaces.From == nil ||
					*l.AllowedRoutes.Namespaces.From == gatewayv1.NamespacesFromAll {
					allowedSomewhere = true
					continue
				}
				// a Selector listener admits the new namespace when its label selector matches the namespace's labels —
				// the EMPTY selector {} matches every namespace
				if *l.AllowedRoutes.Namespaces.From == gatewayv1.NamespacesFromSelector && l.AllowedRoutes.Namespaces.Selector != nil {
					sel, err := metav1.LabelSelectorAsSelector(l.AllowedRoutes.Namespaces.Selector)
					if err != nil || sel.Matches(labels.Set{"kubernetes.io/metadata.name": "x-ns"}) {
						allowedSomewhere = true
					}
				}
			}
			if allowedSomewhere {
				kinds = kinds[:len(kinds)-1]
				continue
			}
			// sometimes the Namespace object itself is unknown (its event arrives later / it was deleted): a Selector
			// listener must then not admit the route (commit d734bd5: `return false` instead of a panic)
			if r.Bool() {
				out = append(out, p.Namespace("x-ns", map[string]string{"kubernetes.io/metadata.name": "x-ns"}))
			} else {
				kinds[len(kinds)-1] = "route-from-unknown-namespace-not-allowed"
			}
			out = append(out, p.HTTPRoute("x-ns", name, a+i, []gatewayv1.ParentReference{p.ParentRef(gw.Namespace, gw.Name, "")}, nil, rule))
		default:
			if gw == nil {
				continue
			}
			kinds = append(kinds, "route-hostname-disjoint-from-every-listener")
			// hostnames that intersect no listener: only when no listener is a catch-all
			disjoint := true
			for _, l := range gw.Spec.Listeners {
				if l.Hostname == nil || *l.Hostname == "" || *l.Hostname == "*.test" || *l.Hostname == "x.test" {
					disjoint = false
				}
			}
			if !disjoint {
				kinds = kinds[:len(kinds)-1]
				continue
			}
			out = append(out, p.HTTPRoute(ns, name, a+i, []gatewayv1.ParentReference{p.ParentRef(gw.Namespace, gw.Name, "")}, []string{"x.test"}, rule))
		}
	}
	return out, kinds
}

// dedupListeners drops listeners repeating the (port, protocol, hostname) of an earlier listener of the same
// Gateway: the CRD's CEL rule rejects such Gateways, so they are not admissible states.
func dedupListeners(objs []client.Object) {
	for _, o := range objs {
		g, ok := o.(*gatewayv1.Gateway)
		if !ok {
			continue
		}
		var keep []gatewayv1.Listener
		for _, l := range g.Spec.Listeners {
			dup := false
			for _, k := range keep {
				same := k.Port == l.Port && k.Protocol == l.Protocol &&
					((k.Hostname == nil && l.Hostname == nil) || (k.Hostname != nil && l.Hostname != nil && *k.Hostname == *l.Hostname))
				dup = dup || same
			}
			if !dup {
				keep = append(keep, l)
			}
		}
		g.Spec.Listeners = keep
	}
}

// admissibleFilters enforces the CEL rule of HTTPRouteRule: a filter with path type ReplacePrefixMatch requires
// exactly one match, of type PathPrefix.
func admissibleFilters(objs []client.Object) {
	for _, o := range objs {
		hr, ok := o.(*gatewayv1.HTTPRoute)
		if !ok {
			continue
		}
		for i := range hr.Spec.Rules {
			rule := &hr.Spec.Rules[i]
			prefixMod := false
			for _, f := range rule.Filters {
				if f.URLRewrite != nil && f.URLRewrite.Path != nil && f.URLRewrite.Path.Type == gatewayv1.PrefixMatchHTTPPathModifier {
					prefixMod = true
				}
				if f.RequestRedirect != nil && f.RequestRedirect.Path != nil && f.RequestRedirect.Path.Type == gatewayv1.PrefixMatchHTTPPathModifier {
					prefixMod = true
				}
			}
			if !prefixMod {
				continue
			}
			if len(rule.Matches) == 0 {
				rule.Matches = []gatewayv1.HTTPRouteMatch{p.PathMatch("PathPrefix", "/")}
			}
			rule.Matches = rule.Matches[:1]
			if rule.Matches[0].Path == nil {
				rule.Matches[0].Path = &gatewayv1.HTTPPathMatch{Value: ptr("/")}
			}
			rule.Matches[0].Path.Type = ptr(gatewayv1.PathMatchPathPrefix)
		}
	}
}
