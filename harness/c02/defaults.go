package c02

import (
	"sigs.k8s.io/controller-runtime/pkg/client"
	gatewayv1 "sigs.k8s.io/gateway-api/apis/v1"
	"sigs.k8s.io/gateway-api/apis/v1alpha2"
)

func ptr[T any](v T) *T { return &v }

// ApplyDefaults fills in the CRD defaults of gateway-api v1.2.1 (the `+kubebuilder:default` markers) that the
// API server would have applied before the controller sees an object. DESIGN §8: admissible = schema + CEL
// after defaulting. Only the defaults that matter for routing are applied.
func ApplyDefaults(objs []client.Object) {
	for _, o := range objs {
		switch t := o.(type) {
		case *gatewayv1.Gateway:
			for i := range t.Spec.Listeners {
				l := &t.Spec.Listeners[i]
				if l.AllowedRoutes == nil {
					l.AllowedRoutes = &gatewayv1.AllowedRoutes{}
				}
				if l.AllowedRoutes.Namespaces == nil {
					l.AllowedRoutes.Namespaces = &gatewayv1.RouteNamespaces{}
				}
				if l.AllowedRoutes.Namespaces.From == nil {
					l.AllowedRoutes.Namespaces.From = ptr(gatewayv1.NamespacesFromSame)
				}
				for k := range l.AllowedRoutes.Kinds {
					if l.AllowedRoutes.Kinds[k].Group == nil {
						l.AllowedRoutes.Kinds[k].Group = ptr(gatewayv1.Group(gatewayv1.GroupName))
					}
				}
				if l.TLS != nil {
					if l.TLS.Mode == nil {
						l.TLS.Mode = ptr(gatewayv1.TLSModeTerminate)
					}
					for k := range l.TLS.CertificateRefs {
						c := &l.TLS.CertificateRefs[k]
						if c.Group == nil {
							c.Group = ptr(gatewayv1.Group(""))
						}
						if c.Kind == nil {
							c.Kind = ptr(gatewayv1.Kind("Secret"))
						}
					}
				}
			}
		case *gatewayv1.HTTPRoute:
			defaultParents(t.Spec.ParentRefs)
			if t.Spec.Rules == nil {
				t.Spec.Rules = []gatewayv1.HTTPRouteRule{{}}
			}
			for i := range t.Spec.Rules {
				r := &t.Spec.Rules[i]
				if len(r.Matches) == 0 {
					r.Matches = []gatewayv1.HTTPRouteMatch{{}}
				}
				for k := range r.Matches {
					m := &r.Matches[k]
					if m.Path == nil {
						m.Path = &gatewayv1.HTTPPathMatch{}
					}
					if m.Path.Type == nil {
						m.Path.Type = ptr(gatewayv1.PathMatchPathPrefix)
					}
					if m.Path.Value == nil {
						m.Path.Value = ptr("/")
					}
					for h := range m.Headers {
						if m.Headers[h].Type == nil {
							m.Headers[h].Type = ptr(gatewayv1.HeaderMatchExact)
						}
					}
					for q := range m.QueryParams {
						if m.QueryParams[q].Type == nil {
							m.QueryParams[q].Type = ptr(gatewayv1.QueryParamMatchExact)
						}
					}
				}
				for k := range r.Filters {
					if rr := r.Filters[k].RequestRedirect; rr != nil && rr.StatusCode == nil {
						rr.StatusCode = ptr(302)
					}
				}
				for k := range r.BackendRefs {
					defaultBackend(&r.BackendRefs[k].BackendRef)
				}
			}
		case *gatewayv1.GRPCRoute:
			defaultParents(t.Spec.ParentRefs)
			for i := range t.Spec.Rules {
				r := &t.Spec.Rules[i]
				for k := range r.Matches {
					m := &r.Matches[k]
					if m.Method != nil && m.Method.Type == nil {
						m.Method.Type = ptr(gatewayv1.GRPCMethodMatchExact)
					}
					for h := range m.Headers {
						if m.Headers[h].Type == nil {
							m.Headers[h].Type = ptr(gatewayv1.GRPCHeaderMatchExact)
						}
					}
				}
				for k := range r.BackendRefs {
					defaultBackend(&r.BackendRefs[k].BackendRef)
				}
			}
		case *v1alpha2.TLSRoute:
			defaultParents(t.Spec.ParentRefs)
			for i := range t.Spec.Rules {
				for k := range t.Spec.Rules[i].BackendRefs {
					defaultBackend(&t.Spec.Rules[i].BackendRefs[k])
				}
			}
		}
	}
}

func defaultParents(ps []gatewayv1.ParentReference) {
	for i := range ps {
		if ps[i].Group == nil {
			ps[i].Group = ptr(gatewayv1.Group(gatewayv1.GroupName))
		}
		if ps[i].Kind == nil {
			ps[i].Kind = ptr(gatewayv1.Kind("Gateway"))
		}
	}
}

func defaultBackend(b *gatewayv1.BackendRef) {
	if b.Group == nil {
		b.Group = ptr(gatewayv1.Group(""))
	}
	if b.Kind == nil {
		b.Kind = ptr(gatewayv1.Kind("Service"))
	}
	if b.Weight == nil {
		b.Weight = ptr(int32(1))
	}
}
