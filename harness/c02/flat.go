package c02

import (
	"crypto/tls"
	"sort"

	apiv1 "k8s.io/api/core/v1"
	discoveryV1 "k8s.io/api/discovery/v1"
	metav1 "k8s.io/apimachinery/pkg/apis/meta/v1"
	"sigs.k8s.io/controller-runtime/pkg/client"
	gatewayv1 "sigs.k8s.io/gateway-api/apis/v1"
	"sigs.k8s.io/gateway-api/apis/v1alpha2"
	"sigs.k8s.io/gateway-api/apis/v1beta1"

	p "github.com/nginx/nginx-gateway-fabric/verifharness/pipeline"
)

// Flat is the scenario in the flat, explicit form handed to the Lean oracle (Spec/GatewayAPI.lean).
// It is a purely mechanical projection of the typed objects (no routing semantics): pointers become
// (has, value) pairs, timestamps become seconds since pipeline.Epoch. Two derived bits are computed
// here because Lean cannot: Secret.OK (type kubernetes.io/tls and the pair parses with crypto/tls)
// and Svc.Ports[].Ready (some EndpointSlice of the Service exposes the port with a ready address).
type Flat struct {
	Class     string    `json:"class"`
	Ctlr      string    `json:"ctlr"`
	Protected []int32   `json:"protected"`
	GCs       []FGC     `json:"gcs"`
	GWs       []FGW     `json:"gws"`
	NSs       []FNS     `json:"nss"`
	Routes    []FRoute  `json:"routes"`
	Svcs      []FSvc    `json:"svcs"`
	Grants    []FGrant  `json:"grants"`
	Secrets   []FSecret `json:"secrets"`
}

type FGC struct {
	Name   string `json:"name"`
	Ctlr   string `json:"ctlr"`
	Age    int64  `json:"age"`
	Params bool   `json:"params"`
}

// FSelReq is one matchExpressions requirement of allowedRoutes.namespaces.selector
type FSelReq struct {
	Key    string   `json:"key"`
	Op     string   `json:"op"`
	Values []string `json:"values"`
}

type FKind struct {
	Group string `json:"group"`
	Kind  string `json:"kind"`
}

type FCertRef struct {
	Group string `json:"group"`
	Kind  string `json:"kind"`
	HasNS bool   `json:"hasNs"`
	NS    string `json:"ns"`
	Name  string `json:"name"`
}

type FListener struct {
	Name     string            `json:"name"`
	Port     int32             `json:"port"`
	Proto    string            `json:"proto"`
	HasHost  bool              `json:"hasHost"`
	Host     string            `json:"host"`
	HasTLS   bool              `json:"hasTls"`
	TLSMode  string            `json:"tlsMode"` // "" = nil
	TLSOpts  int               `json:"tlsOpts"`
	Certs    []FCertRef        `json:"certs"`
	From     string            `json:"from"` // "" = allowedRoutes.namespaces absent
	HasSel   bool              `json:"hasSel"`
	SelMatch map[string]string `json:"selMatch"`
	SelExprs int               `json:"selExprs"`
	SelReqs  []FSelReq         `json:"selReqs"`
	HasKinds bool              `json:"hasKinds"`
	Kinds    []FKind           `json:"kinds"`
}

type FGW struct {
	NS        string      `json:"ns"`
	Name      string      `json:"name"`
	Class     string      `json:"class"`
	Age       int64       `json:"age"`
	Addresses int         `json:"addresses"`
	Listeners []FListener `json:"listeners"`
}

type FNS struct {
	Name   string            `json:"name"`
	Labels map[string]string `json:"labels"`
}

type FParent struct {
	Group      string `json:"group"`
	Kind       string `json:"kind"`
	HasNS      bool   `json:"hasNs"`
	NS         string `json:"ns"`
	Name       string `json:"name"`
	HasSection bool   `json:"hasSection"`
	Section    string `json:"section"`
	HasPort    bool   `json:"hasPort"`
}

type FKV struct {
	Type  string `json:"type"`
	Name  string `json:"name"`
	Value string `json:"value"`
}

// FMatch is an HTTPRouteMatch, or a GRPCRouteMatch (GRPC=true: HasMethod/MType/Service/GMethod, Headers).
type FMatch struct {
	PType   string `json:"ptype"`
	PValue  string `json:"pvalue"`
	Method  string `json:"method"` // HTTP method, "" = none
	Headers []FKV  `json:"headers"`
	Query   []FKV  `json:"query"`
	// GRPC
	HasGM      bool   `json:"hasGm"`
	GMType     string `json:"gmType"`
	HasService bool   `json:"hasService"`
	Service    string `json:"service"`
	HasGMethod bool   `json:"hasGMethod"`
	GMethod    string `json:"gmethod"`
}

type FHeader struct {
	Name  string `json:"name"`
	Value string `json:"value"`
}

type FFilter struct {
	Type    string `json:"type"`
	Present bool   `json:"present"` // the member matching Type is non-nil
	// RequestRedirect / URLRewrite
	Scheme    string `json:"scheme"`
	Hostname  string `json:"hostname"`
	HasPort   bool   `json:"hasPort"`
	Port      int32  `json:"port"`
	Code      int    `json:"code"`
	PathType  string `json:"pathType"` // "" = no path modifier
	PathValue string `json:"pathValue"`
	// header modifiers
	Set    []FHeader `json:"set"`
	Add    []FHeader `json:"add"`
	Remove []string  `json:"remove"`
}

type FBackend struct {
	Group    string `json:"group"`
	Kind     string `json:"kind"`
	HasNS    bool   `json:"hasNs"`
	NS       string `json:"ns"`
	Name     string `json:"name"`
	HasPort  bool   `json:"hasPort"`
	Port     int32  `json:"port"`
	Weight   int32  `json:"weight"`
	NFilters int    `json:"nfilters"`
}

type FRule struct {
	Matches  []FMatch   `json:"matches"`
	Filters  []FFilter  `json:"filters"`
	Backends []FBackend `json:"backends"`
}

type FRoute struct {
	Kind      string    `json:"kind"` // HTTPRoute | GRPCRoute | TLSRoute
	NS        string    `json:"ns"`
	Name      string    `json:"name"`
	Age       int64     `json:"age"`
	Parents   []FParent `json:"parents"`
	Hostnames []string  `json:"hostnames"`
	Rules     []FRule   `json:"rules"`
}

type FSvcPort struct {
	Port  int32 `json:"port"`
	Ready bool  `json:"ready"`
}

type FSvc struct {
	NS    string     `json:"ns"`
	Name  string     `json:"name"`
	Ports []FSvcPort `json:"ports"`
}

type FGrantFrom struct {
	Group string `json:"group"`
	Kind  string `json:"kind"`
	NS    string `json:"ns"`
}

type FGrantTo struct {
	Group   string `json:"group"`
	Kind    string `json:"kind"`
	HasName bool   `json:"hasName"`
	Name    string `json:"name"`
}

type FGrant struct {
	NS   string       `json:"ns"`
	From []FGrantFrom `json:"from"`
	To   []FGrantTo   `json:"to"`
}

type FSecret struct {
	NS   string `json:"ns"`
	Name string `json:"name"`
	OK   bool   `json:"ok"`
}

func age(m metav1.ObjectMeta) int64 { return m.CreationTimestamp.Unix() - p.Epoch.Unix() }

func str[T ~string](s *T) string {
	if s == nil {
		return ""
	}
	return string(*s)
}

func flatParents(ps []gatewayv1.ParentReference) []FParent {
	out := make([]FParent, 0, len(ps))
	for _, r := range ps {
		out = append(out, FParent{
			Group: str(r.Group), Kind: str(r.Kind), HasNS: r.Namespace != nil, NS: str(r.Namespace),
			Name: string(r.Name), HasSection: r.SectionName != nil, Section: str(r.SectionName), HasPort: r.Port != nil,
		})
	}
	return out
}

func flatBackend(b gatewayv1.BackendRef, nfilters int) FBackend {
	fb := FBackend{
		Group: str(b.Group), Kind: str(b.Kind), HasNS: b.Namespace != nil, NS: str(b.Namespace),
		Name: string(b.Name), HasPort: b.Port != nil, NFilters: nfilters,
	}
	if b.Port != nil {
		fb.Port = int32(*b.Port)
	}
	if b.Weight != nil {
		fb.Weight = *b.Weight
	} else {
		fb.Weight = 1
	}
	return fb
}

func flatHeaders(hs []gatewayv1.HTTPHeader) []FHeader {
	out := make([]FHeader, 0, len(hs))
	for _, h := range hs {
		out = append(out, FHeader{string(h.Name), h.Value})
	}
	return out
}

func flatHeaderFilter(f *FFilter, h *gatewayv1.HTTPHeaderFilter) {
	f.Present = h != nil
	f.Set, f.Add, f.Remove = []FHeader{}, []FHeader{}, []string{}
	if h != nil {
		f.Set, f.Add = flatHeaders(h.Set), flatHeaders(h.Add)
		f.Remove = append(f.Remove, h.Remove...)
	}
}

func flatPathMod(f *FFilter, pm *gatewayv1.HTTPPathModifier) {
	if pm == nil {
		return
	}
	f.PathType = string(pm.Type)
	switch pm.Type {
	case gatewayv1.FullPathHTTPPathModifier:
		f.PathValue = str(pm.ReplaceFullPath)
	case gatewayv1.PrefixMatchHTTPPathModifier:
		f.PathValue = str(pm.ReplacePrefixMatch)
	}
}

func flatHTTPFilter(f gatewayv1.HTTPRouteFilter) FFilter {
	out := FFilter{Type: string(f.Type), Set: []FHeader{}, Add: []FHeader{}, Remove: []string{}}
	switch f.Type {
	case gatewayv1.HTTPRouteFilterRequestRedirect:
		if r := f.RequestRedirect; r != nil {
			out.Present = true
			out.Scheme, out.Hostname = str(r.Scheme), str(r.Hostname)
			if r.Port != nil {
				out.HasPort, out.Port = true, int32(*r.Port)
			}
			if r.StatusCode != nil {
				out.Code = *r.StatusCode
			}
			flatPathMod(&out, r.Path)
		}
	case gatewayv1.HTTPRouteFilterURLRewrite:
		if r := f.URLRewrite; r != nil {
			out.Present = true
			out.Hostname = str(r.Hostname)
			flatPathMod(&out, r.Path)
		}
	case gatewayv1.HTTPRouteFilterRequestHeaderModifier:
		flatHeaderFilter(&out, f.RequestHeaderModifier)
	case gatewayv1.HTTPRouteFilterResponseHeaderModifier:
		flatHeaderFilter(&out, f.ResponseHeaderModifier)
	case gatewayv1.HTTPRouteFilterRequestMirror:
		out.Present = f.RequestMirror != nil
	case gatewayv1.HTTPRouteFilterExtensionRef:
		out.Present = f.ExtensionRef != nil
	}
	return out
}

func flatGRPCFilter(f gatewayv1.GRPCRouteFilter) FFilter {
	out := FFilter{Type: string(f.Type), Set: []FHeader{}, Add: []FHeader{}, Remove: []string{}}
	switch f.Type {
	case gatewayv1.GRPCRouteFilterRequestHeaderModifier:
		flatHeaderFilter(&out, f.RequestHeaderModifier)
	case gatewayv1.GRPCRouteFilterResponseHeaderModifier:
		flatHeaderFilter(&out, f.ResponseHeaderModifier)
	case gatewayv1.GRPCRouteFilterRequestMirror:
		out.Present = f.RequestMirror != nil
	case gatewayv1.GRPCRouteFilterExtensionRef:
		out.Present = f.ExtensionRef != nil
	}
	return out
}

func hostnames(hs []gatewayv1.Hostname) []string {
	out := make([]string, 0, len(hs))
	for _, h := range hs {
		out = append(out, string(h))
	}
	return out
}

// Flatten projects the objects. Objects of kinds the oracle does not read (policies, ConfigMaps …) are skipped.
func Flatten(objs []client.Object, opts p.Options) Flat {
	f := Flat{
		Class: opts.Class, Ctlr: opts.Controller, Protected: []int32{},
		GCs: []FGC{}, GWs: []FGW{}, NSs: []FNS{}, Routes: []FRoute{}, Svcs: []FSvc{}, Grants: []FGrant{}, Secrets: []FSecret{},
	}
	for port := range opts.ProtectedPorts {
		f.Protected = append(f.Protected, port)
	}
	sort.Slice(f.Protected, func(i, j int) bool { return f.Protected[i] < f.Protected[j] })

	// ready endpoints per (ns, svc, port name)
	type spKey struct{ ns, svc, portName string }
	ready := map[spKey]bool{}
	for _, o := range objs {
		es, ok := o.(*discoveryV1.EndpointSlice)
		if !ok {
			continue
		}
		svc := es.Labels[discoveryV1.LabelServiceName]
		any := false
		for _, ep := range es.Endpoints {
			if (ep.Conditions.Ready == nil || *ep.Conditions.Ready) && len(ep.Addresses) > 0 {
				any = true
			}
		}
		if !any {
			continue
		}
		for _, pt := range es.Ports {
			if pt.Name != nil {
				ready[spKey{es.Namespace, svc, *pt.Name}] = true
			}
		}
	}

	for _, o := range objs {
		switch t := o.(type) {
		case *gatewayv1.GatewayClass:
			f.GCs = append(f.GCs, FGC{t.Name, string(t.Spec.ControllerName), age(t.ObjectMeta), t.Spec.ParametersRef != nil})
		case *gatewayv1.Gateway:
			g := FGW{NS: t.Namespace, Name: t.Name, Class: string(t.Spec.GatewayClassName), Age: age(t.ObjectMeta),
				Addresses: len(t.Spec.Addresses), Listeners: []FListener{}}
			for _, l := range t.Spec.Listeners {
				fl := FListener{Name: string(l.Name), Port: int32(l.Port), Proto: string(l.Protocol),
					HasHost: l.Hostname != nil, Host: str(l.Hostname), Certs: []FCertRef{}, SelMatch: map[string]string{}, Kinds: []FKind{}, SelReqs: []FSelReq{}}
				if l.TLS != nil {
					fl.HasTLS = true
					fl.TLSMode = str(l.TLS.Mode)
					fl.TLSOpts = len(l.TLS.Options)
					for _, c := range l.TLS.CertificateRefs {
						fl.Certs = append(fl.Certs, FCertRef{str(c.Group), str(c.Kind), c.Namespace != nil, str(c.Namespace), string(c.Name)})
					}
				}
				if ar := l.AllowedRoutes; ar != nil {
					if ar.Namespaces != nil {
						fl.From = str(ar.Namespaces.From)
						if ar.Namespaces.Selector != nil {
							fl.HasSel = true
							for k, v := range ar.Namespaces.Selector.MatchLabels {
								fl.SelMatch[k] = v
							}
							fl.SelExprs = len(ar.Namespaces.Selector.MatchExpressions)
							for _, e := range ar.Namespaces.Selector.MatchExpressions {
								vs := append([]string{}, e.Values...)
								fl.SelReqs = append(fl.SelReqs, FSelReq{Key: e.Key, Op: string(e.Operator), Values: vs})
							}
						}
					}
					if ar.Kinds != nil {
						fl.HasKinds = true
						for _, k := range ar.Kinds {
							grp := gatewayv1.GroupName
							if k.Group != nil {
								grp = string(*k.Group)
							}
							fl.Kinds = append(fl.Kinds, FKind{grp, string(k.Kind)})
						}
					}
				}
				g.Listeners = append(g.Listeners, fl)
			}
			f.GWs = append(f.GWs, g)
		case *apiv1.Namespace:
			lb := map[string]string{}
			for k, v := range t.Labels {
				lb[k] = v
			}
			f.NSs = append(f.NSs, FNS{t.Name, lb})
		case *gatewayv1.HTTPRoute:
			r := FRoute{Kind: "HTTPRoute", NS: t.Namespace, Name: t.Name, Age: age(t.ObjectMeta),
				Parents: flatParents(t.Spec.ParentRefs), Hostnames: hostnames(t.Spec.Hostnames), Rules: []FRule{}}
			for _, rule := range t.Spec.Rules {
				fr := FRule{Matches: []FMatch{}, Filters: []FFilter{}, Backends: []FBackend{}}
				for _, m := range rule.Matches {
					fm := FMatch{Headers: []FKV{}, Query: []FKV{}, Method: str(m.Method)}
					if m.Path != nil {
						fm.PType, fm.PValue = str(m.Path.Type), str(m.Path.Value)
					}
					for _, h := range m.Headers {
						fm.Headers = append(fm.Headers, FKV{str(h.Type), string(h.Name), h.Value})
					}
					for _, q := range m.QueryParams {
						fm.Query = append(fm.Query, FKV{str(q.Type), string(q.Name), q.Value})
					}
					fr.Matches = append(fr.Matches, fm)
				}
				for _, fl := range rule.Filters {
					fr.Filters = append(fr.Filters, flatHTTPFilter(fl))
				}
				for _, b := range rule.BackendRefs {
					fr.Backends = append(fr.Backends, flatBackend(b.BackendRef, len(b.Filters)))
				}
				r.Rules = append(r.Rules, fr)
			}
			f.Routes = append(f.Routes, r)
		case *gatewayv1.GRPCRoute:
			r := FRoute{Kind: "GRPCRoute", NS: t.Namespace, Name: t.Name, Age: age(t.ObjectMeta),
				Parents: flatParents(t.Spec.ParentRefs), Hostnames: hostnames(t.Spec.Hostnames), Rules: []FRule{}}
			for _, rule := range t.Spec.Rules {
				fr := FRule{Matches: []FMatch{}, Filters: []FFilter{}, Backends: []FBackend{}}
				for _, m := range rule.Matches {
					fm := FMatch{Headers: []FKV{}, Query: []FKV{}}
					if m.Method != nil {
						fm.HasGM = true
						fm.GMType = str(m.Method.Type)
						fm.HasService, fm.Service = m.Method.Service != nil, str(m.Method.Service)
						fm.HasGMethod, fm.GMethod = m.Method.Method != nil, str(m.Method.Method)
					}
					for _, h := range m.Headers {
						fm.Headers = append(fm.Headers, FKV{str(h.Type), string(h.Name), h.Value})
					}
					fr.Matches = append(fr.Matches, fm)
				}
				for _, fl := range rule.Filters {
					fr.Filters = append(fr.Filters, flatGRPCFilter(fl))
				}
				for _, b := range rule.BackendRefs {
					fr.Backends = append(fr.Backends, flatBackend(b.BackendRef, len(b.Filters)))
				}
				r.Rules = append(r.Rules, fr)
			}
			f.Routes = append(f.Routes, r)
		case *v1alpha2.TLSRoute:
			r := FRoute{Kind: "TLSRoute", NS: t.Namespace, Name: t.Name, Age: age(t.ObjectMeta),
				Parents: flatParents(t.Spec.ParentRefs), Hostnames: hostnames(t.Spec.Hostnames), Rules: []FRule{}}
			for _, rule := range t.Spec.Rules {
				fr := FRule{Matches: []FMatch{}, Filters: []FFilter{}, Backends: []FBackend{}}
				for _, b := range rule.BackendRefs {
					fr.Backends = append(fr.Backends, flatBackend(b, 0))
				}
				r.Rules = append(r.Rules, fr)
			}
			f.Routes = append(f.Routes, r)
		case *apiv1.Service:
			s := FSvc{NS: t.Namespace, Name: t.Name, Ports: []FSvcPort{}}
			for _, pt := range t.Spec.Ports {
				s.Ports = append(s.Ports, FSvcPort{pt.Port, ready[spKey{t.Namespace, t.Name, pt.Name}]})
			}
			f.Svcs = append(f.Svcs, s)
		case *v1beta1.ReferenceGrant:
			g := FGrant{NS: t.Namespace, From: []FGrantFrom{}, To: []FGrantTo{}}
			for _, fr := range t.Spec.From {
				g.From = append(g.From, FGrantFrom{string(fr.Group), string(fr.Kind), string(fr.Namespace)})
			}
			for _, to := range t.Spec.To {
				g.To = append(g.To, FGrantTo{string(to.Group), string(to.Kind), to.Name != nil, str(to.Name)})
			}
			f.Grants = append(f.Grants, g)
		case *apiv1.Secret:
			ok := t.Type == apiv1.SecretTypeTLS
			if ok {
				_, err := tls.X509KeyPair(t.Data[apiv1.TLSCertKey], t.Data[apiv1.TLSPrivateKeyKey])
				ok = err == nil
			}
			f.Secrets = append(f.Secrets, FSecret{t.Namespace, t.Name, ok})
		}
	}
	return f
}
