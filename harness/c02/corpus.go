package c02

import (
	"encoding/json"
	"os"
	"path/filepath"

	"sigs.k8s.io/controller-runtime/pkg/client"
	gatewayv1 "sigs.k8s.io/gateway-api/apis/v1"

	p "github.com/nginx/nginx-gateway-fabric/verifharness/pipeline"
)

// Minimal scenarios: one per registered finding (the smallest state that shows it) plus regression inputs for the
// repaired ConvertGRPCMatches defect and for the precedence order. `-write-corpus dir` writes them as
// {"objs":[…]} files; props/c02.py replays the files of corpus/C02 first on every run.
func minimalScenarios() map[string][]client.Object {
	base := func(ls ...p.Listener) []client.Object {
		objs := []client.Object{
			p.Namespace("default", map[string]string{"kubernetes.io/metadata.name": "default"}),
			p.GatewayClass(p.DefaultClass, p.DefaultController, 1),
			p.Service("default", "svc0", 80), p.EndpointSlice("default", "svc0", "s0", []int32{80}, "10.0.0.1"),
			p.Service("default", "svc1", 80), p.EndpointSlice("default", "svc1", "s0", []int32{80}, "10.0.0.2"),
			p.Service("default", "svc2", 80), p.EndpointSlice("default", "svc2", "s0", []int32{80}, "10.0.0.3"),
			p.TLSSecret("default", "tls-a", 1),
			p.Gateway("default", "gw", p.DefaultClass, 2, ls...),
		}
		return objs
	}
	http80 := p.Listener{Name: "http", Port: 80, Protocol: "HTTP", FromNS: "All"}
	pr := []gatewayv1.ParentReference{p.ParentRef("", "gw", "")}
	be := func(name string) p.Backend { return p.Backend{Ref: name, Port: 80, Weight: -1} }
	hdr := func(m gatewayv1.HTTPRouteMatch, n, v string) gatewayv1.HTTPRouteMatch {
		m.Headers = []gatewayv1.HTTPHeaderMatch{{Type: ptr(gatewayv1.HeaderMatchExact), Name: gatewayv1.HTTPHeaderName(n), Value: v}}
		return m
	}
	redirectPrefix := func(rule gatewayv1.HTTPRouteRule, repl string) gatewayv1.HTTPRouteRule {
		rule.Filters = []gatewayv1.HTTPRouteFilter{{Type: gatewayv1.HTTPRouteFilterRequestRedirect,
			RequestRedirect: &gatewayv1.HTTPRequestRedirectFilter{StatusCode: ptr(302),
				Path: &gatewayv1.HTTPPathModifier{Type: gatewayv1.PrefixMatchHTTPPathModifier, ReplacePrefixMatch: ptr(repl)}}}}
		return rule
	}
	grpcRule := func(ms []gatewayv1.GRPCRouteMatch, bs ...p.Backend) gatewayv1.GRPCRouteRule {
		r := gatewayv1.GRPCRouteRule{Matches: ms}
		for _, b := range bs {
			r.BackendRefs = append(r.BackendRefs, gatewayv1.GRPCBackendRef{BackendRef: p.BackendRef(b)})
		}
		return r
	}
	gm := func(svc, meth string) gatewayv1.GRPCRouteMatch {
		return gatewayv1.GRPCRouteMatch{Method: &gatewayv1.GRPCMethodMatch{Type: ptr(gatewayv1.GRPCMethodMatchExact), Service: ptr(svc), Method: ptr(meth)}}
	}
	ghdr := func(v string) gatewayv1.GRPCRouteMatch {
		return gatewayv1.GRPCRouteMatch{Headers: []gatewayv1.GRPCHeaderMatch{{Type: ptr(gatewayv1.GRPCHeaderMatchExact), Name: "version", Value: v}}}
	}

	out := map[string][]client.Object{}
	out["01-no-fallback-to-less-specific-path"] = append(base(http80), p.HTTPRoute("default", "r", 3, pr, nil,
		p.HTTPRule([]gatewayv1.HTTPRouteMatch{hdr(p.PathMatch("PathPrefix", "/coffee"), "version", "v1")}, be("svc0")),
		p.HTTPRule([]gatewayv1.HTTPRouteMatch{p.PathMatch("PathPrefix", "/")}, be("svc1"))))
	out["02-prefix-with-trailing-slash"] = append(base(http80), p.HTTPRoute("default", "r", 3, pr, nil,
		p.HTTPRule([]gatewayv1.HTTPRouteMatch{p.PathMatch("PathPrefix", "/coffee/")}, be("svc0"))))
	out["03-https-tls-bare-suffix-overlap"] = append(base(
		p.Listener{Name: "https", Port: 443, Protocol: "HTTPS", Hostname: "*.example.com", CertRefs: []string{"tls-a"}, FromNS: "All"},
		p.Listener{Name: "tls", Port: 443, Protocol: "TLS", Hostname: "example.com", FromNS: "All"}),
		p.HTTPRoute("default", "r", 3, []gatewayv1.ParentReference{p.ParentRef("", "gw", "https")}, nil,
			p.HTTPRule([]gatewayv1.HTTPRouteMatch{p.PathMatch("PathPrefix", "/")}, be("svc0"))),
		p.TLSRoute("default", "t", 4, []gatewayv1.ParentReference{p.ParentRef("", "gw", "tls")}, []string{"example.com"}, be("svc1")))
	out["04-http-grpc-same-name-backend-group"] = append(base(http80),
		p.HTTPRoute("default", "r0", 3, pr, nil, p.HTTPRule([]gatewayv1.HTTPRouteMatch{p.PathMatch("PathPrefix", "/coffee")}, be("svc0"), be("svc1"))),
		p.GRPCRoute("default", "r0", 4, pr, nil, grpcRule([]gatewayv1.GRPCRouteMatch{gm("svc.A", "Do")}, be("svc2"), be("svc2"))))
	out["05-redirect-replace-prefix-internal-location"] = append(base(http80), p.HTTPRoute("default", "r", 3, pr, nil,
		redirectPrefix(p.HTTPRule([]gatewayv1.HTTPRouteMatch{hdr(p.PathMatch("PathPrefix", "/tea"), "version", "v1")}), "/v2")))
	out["06-http-and-grpc-share-path-rule-flag"] = append(base(http80),
		p.HTTPRoute("default", "h", 3, pr, nil, p.HTTPRule([]gatewayv1.HTTPRouteMatch{p.PathMatch("PathPrefix", "/")}, be("svc0"))),
		p.GRPCRoute("default", "g", 4, pr, nil, grpcRule([]gatewayv1.GRPCRouteMatch{ghdr("v2")}, be("svc1"))))
	out["07-https-listener-host-without-server"] = append(base(
		p.Listener{Name: "https", Port: 443, Protocol: "HTTPS", Hostname: "*.example.com", CertRefs: []string{"tls-a"}, FromNS: "All"}),
		p.HTTPRoute("default", "r", 3, pr, []string{"cafe.example.com"},
			p.HTTPRule([]gatewayv1.HTTPRouteMatch{p.PathMatch("PathPrefix", "/")}, be("svc0"))))
	out["08-grpc-internal-location-for-http-rule"] = append(base(http80),
		p.GRPCRoute("default", "g", 3, pr, nil, grpcRule([]gatewayv1.GRPCRouteMatch{gm("svc.A", "Do")}, be("svc1"))),
		p.HTTPRoute("default", "h", 4, pr, nil, func() gatewayv1.HTTPRouteRule {
			r := p.HTTPRule([]gatewayv1.HTTPRouteMatch{hdr(p.PathMatch("PathPrefix", "/tea"), "version", "v1")})
			r.Filters = []gatewayv1.HTTPRouteFilter{{Type: gatewayv1.HTTPRouteFilterRequestRedirect,
				RequestRedirect: &gatewayv1.HTTPRequestRedirectFilter{Scheme: ptr("https"), StatusCode: ptr(301)}}}
			return r
		}()))
	out["09-grpc-matches-keep-their-own-path"] = append(base(http80),
		p.GRPCRoute("default", "g", 3, pr, nil, grpcRule([]gatewayv1.GRPCRouteMatch{ghdr("v1"), gm("svc.A", "Do"), ghdr("v2")}, be("svc0"))))
	out["10-method-beats-header-count"] = append(base(http80),
		p.HTTPRoute("default", "a", 3, pr, nil, p.HTTPRule([]gatewayv1.HTTPRouteMatch{hdr(p.PathMatch("PathPrefix", "/tea"), "version", "v1")}, be("svc0"))),
		p.HTTPRoute("default", "b", 4, pr, nil, func() gatewayv1.HTTPRouteRule {
			m := p.PathMatch("PathPrefix", "/tea")
			m.Method = ptr(gatewayv1.HTTPMethodGet)
			return p.HTTPRule([]gatewayv1.HTTPRouteMatch{m}, be("svc1"))
		}()))
	for _, objs := range out {
		ApplyDefaults(objs)
	}
	return out
}

func writeCorpus(dir string) error {
	for name, objs := range minimalScenarios() {
		b, err := json.Marshal(map[string]json.RawMessage{"objs": p.EncodeObjects(objs)})
		if err != nil {
			return err
		}
		if err := os.WriteFile(filepath.Join(dir, name+".json"), append(b, '\n'), 0o644); err != nil {
			return err
		}
	}
	return nil
}
