package c02

import (
	"fmt"

	metav1 "k8s.io/apimachinery/pkg/apis/meta/v1"
	gatewayv1 "sigs.k8s.io/gateway-api/apis/v1"

	p "github.com/nginx/nginx-gateway-fabric/verifharness/pipeline"
	"github.com/nginx/nginx-gateway-fabric/verifharness/rng"
	"github.com/nginx/nginx-gateway-fabric/verifharness/scen"
)

// nsSelector is one allowedRoutes.namespaces.selector of the family.
type nsSelector struct {
	tag    string
	labels map[string]string
	exprs  []metav1.LabelSelectorRequirement
}

func req(key string, op metav1.LabelSelectorOperator, values ...string) metav1.LabelSelectorRequirement {
	return metav1.LabelSelectorRequirement{Key: key, Operator: op, Values: values}
}

// the selector family: the EMPTY selector (selects every namespace), matchLabels that hit / miss / need two labels,
// and every matchExpressions operator, alone and combined with matchLabels
var nsSelectors = []nsSelector{
	{tag: "sel-empty"},
	{tag: "sel-empty"},
	{tag: "sel-labels-hit", labels: map[string]string{"team": "dev"}},
	{tag: "sel-labels-miss", labels: map[string]string{"team": "nobody"}},
	{tag: "sel-labels-two", labels: map[string]string{"team": "dev", "env": "prod"}},
	{tag: "sel-in", exprs: []metav1.LabelSelectorRequirement{req("team", metav1.LabelSelectorOpIn, "dev", "ops")}},
	{tag: "sel-in-miss", exprs: []metav1.LabelSelectorRequirement{req("team", metav1.LabelSelectorOpIn, "qa")}},
	{tag: "sel-notin", exprs: []metav1.LabelSelectorRequirement{req("team", metav1.LabelSelectorOpNotIn, "dev")}},
	{tag: "sel-exists", exprs: []metav1.LabelSelectorRequirement{req("team", metav1.LabelSelectorOpExists)}},
	{tag: "sel-doesnotexist", exprs: []metav1.LabelSelectorRequirement{req("team", metav1.LabelSelectorOpDoesNotExist)}},
	{tag: "sel-labels-and-expr", labels: map[string]string{"team": "dev"},
		exprs: []metav1.LabelSelectorRequirement{req("env", metav1.LabelSelectorOpNotIn, "test")}},
	{tag: "sel-two-exprs", exprs: []metav1.LabelSelectorRequirement{
		req("team", metav1.LabelSelectorOpExists), req("env", metav1.LabelSelectorOpDoesNotExist)}},
}

// namespaces of the family: with several labels, one label, only the automatic name label, and none at all
var selNamespaces = []struct {
	name   string
	labels map[string]string
}{
	{"default", map[string]string{"kubernetes.io/metadata.name": "default"}},
	{"team-a", map[string]string{"kubernetes.io/metadata.name": "team-a", "team": "dev", "env": "prod"}},
	{"team-b", map[string]string{"kubernetes.io/metadata.name": "team-b", "team": "ops"}},
	{"bare", map[string]string{}},
}

// GenSelectors is the profile "selector": HTTP listeners with allowedRoutes.namespaces.from = Selector over the
// selector family above, one Route per namespace (its own path, its own backend) attached to the whole Gateway or to
// one listener. Which Routes a listener admits is decided by the label-selector semantics alone.
func GenSelectors(r *rng.R) *scen.Scenario {
	s := &scen.Scenario{Opts: p.DefaultOptions(), Tags: map[string]int{}}
	age := 0
	nextAge := func() int { age++; return age }
	for _, ns := range selNamespaces {
		s.Objs = append(s.Objs, p.Namespace(ns.name, ns.labels), p.Service(ns.name, "svc0", 80),
			p.EndpointSlice(ns.name, "svc0", "s0", []int32{80}, fmt.Sprintf("10.2.0.%d", r.Range(1, 9))))
	}
	s.Objs = append(s.Objs, p.GatewayClass(p.DefaultClass, p.DefaultController, nextAge()))

	hosts := []string{"", "cafe.example.com", "*.example.com", "bar.org"}
	var ls []p.Listener
	var sels []nsSelector
	for i, n := 0, r.Range(1, 4); i < n; i++ {
		sel := rng.Pick(r, nsSelectors)
		l := p.Listener{Name: fmt.Sprintf("l%d", i), Protocol: "HTTP", Port: rng.Pick(r, []int32{80, 80, 8080}),
			Hostname: hosts[i%len(hosts)], FromNS: "Selector", Selector: sel.labels}
		if r.Chance(12, 100) {
			// a sibling that admits by From=All / Same, for contrast
			l.FromNS, l.Selector, sel = rng.Pick(r, []string{"All", "Same"}), nil, nsSelector{tag: "sel-none"}
		}
		ls = append(ls, l)
		sels = append(sels, sel)
		s.Tags[sel.tag]++
	}
	gw := p.Gateway("default", "gw", p.DefaultClass, nextAge(), ls...)
	for i := range gw.Spec.Listeners {
		ar := gw.Spec.Listeners[i].AllowedRoutes
		if ar != nil && ar.Namespaces != nil && ar.Namespaces.Selector != nil && len(sels[i].exprs) > 0 {
			ar.Namespaces.Selector.MatchExpressions = append([]metav1.LabelSelectorRequirement(nil), sels[i].exprs...)
		}
	}
	s.Objs = append(s.Objs, gw)

	for i, ns := range selNamespaces {
		if r.Chance(15, 100) {
			continue
		}
		section := ""
		if r.Chance(35, 100) {
			section = rng.Pick(r, ls).Name
		}
		var hs []string
		if r.Chance(30, 100) {
			hs = []string{rng.Pick(r, []string{"cafe.example.com", "a.example.com", "bar.org"})}
		}
		rule := p.HTTPRule([]gatewayv1.HTTPRouteMatch{p.PathMatch("PathPrefix", "/"+ns.name)},
			p.Backend{Ref: "svc0", Port: 80, Weight: -1})
		rules := []gatewayv1.HTTPRouteRule{rule}
		if r.Chance(40, 100) {
			rules = append(rules, p.HTTPRule([]gatewayv1.HTTPRouteMatch{p.PathMatch("PathPrefix", "/")},
				p.Backend{Ref: "svc0", Port: 80, Weight: -1}))
		}
		s.Objs = append(s.Objs, p.HTTPRoute(ns.name, fmt.Sprintf("hr%d", i), nextAge(),
			[]gatewayv1.ParentReference{p.ParentRef("default", "gw", section)}, hs, rules...))
	}
	return s
}
