package c02

import (
	"fmt"
	"sort"
	"strings"
	"time"

	metav1 "k8s.io/apimachinery/pkg/apis/meta/v1"
	"k8s.io/apimachinery/pkg/types"
	gatewayv1 "sigs.k8s.io/gateway-api/apis/v1"

	ngxconfig "github.com/nginx/nginx-gateway-fabric/internal/mode/static/nginx/config"
	"github.com/nginx/nginx-gateway-fabric/internal/mode/static/state/dataplane"
	"github.com/nginx/nginx-gateway-fabric/internal/mode/static/state/graph"
	p "github.com/nginx/nginx-gateway-fabric/verifharness/pipeline"
	"github.com/nginx/nginx-gateway-fabric/verifharness/rng"
)

// Correspondence cases for the proved cores: the REAL functions are run here, the Lean driver (`model` mode)
// recomputes the answer from the same input, props/c02.py compares.
//
//	H  graph.findAcceptedHostnames / match / GetMoreSpecificHostname   ↔ Model/Hostname
//	S  dataplane.sortMatchRules (higherPriority)                        ↔ Model/Precedence.sortRules
//	L  config.createLocations (external location scheme)                ↔ Model/Precedence.genLocs
//	G  graph.ConvertGRPCMatches                                         ↔ Model/Precedence.convertGRPC (+ judge)
//	N  httpmatches.js under node                                        ↔ Model/NginxEval.Njs

type coreLine struct {
	K        string      `json:"k"`
	Listener string      `json:"listener,omitempty"`
	Routes   []string    `json:"routes,omitempty"`
	Pairs    []hostPair  `json:"pairs,omitempty"`
	Rules    interface{} `json:"rules,omitempty"`
	Matches  interface{} `json:"matches,omitempty"`
	Req      interface{} `json:"req,omitempty"`
	Out      interface{} `json:"out,omitempty"`
}

type hostPair struct {
	A string `json:"a"`
	B string `json:"b"`
}

var coreHosts = []string{"", "*.example.com", "example.com", "cafe.example.com", "*.cafe.example.com", "*.com", "badexample.com",
	"*.ample.com", "foo.example.com", "bar.org", "*.org", "a.b.cafe.example.com", "*.b.cafe.example.com", "com"}

func emitCores(r *rng.R, n int, emitLine func(Line)) {
	// the generic Line has no room for these; marshal separately through the same writer
	emit := func(c coreLine) { emitRaw(c) }
	for i := 0; i < n; i++ {
		coreH(r, emit)
		coreS(r, emit)
		coreL(r, emit)
		coreG(r, emit)
		coreN(r, emit)
	}
	// the witness of the repaired ConvertGRPCMatches defect, always
	coreGFixed(emit, []grpcM{{false, nil, nil, 1}, {true, ptr("svc"), ptr("m"), 0}, {false, nil, nil, 1}})
	coreGFixed(emit, []grpcM{{true, ptr("svc.A"), ptr("Do"), 0}, {false, nil, nil, 0}})
	_ = emitLine
}

func coreH(r *rng.R, emit func(coreLine)) {
	l := rng.Pick(r, coreHosts)
	var rs []string
	for i, k := 0, r.Intn(4); i < k; i++ {
		h := rng.Pick(r, coreHosts[1:])
		rs = append(rs, h)
	}
	var lh *gatewayv1.Hostname
	if l != "" || r.Bool() {
		lh = ptr(gatewayv1.Hostname(l))
	}
	var rhs []gatewayv1.Hostname
	for _, h := range rs {
		rhs = append(rhs, gatewayv1.Hostname(h))
	}
	acc := graph.VerifC02FindAcceptedHostnames(lh, rhs)
	if acc == nil {
		acc = []string{}
	}
	var pairs []hostPair
	type pout struct {
		Match bool   `json:"match"`
		More  string `json:"more"`
	}
	var pouts []pout
	for i := 0; i < 4; i++ {
		a, b := rng.Pick(r, coreHosts), rng.Pick(r, coreHosts)
		pairs = append(pairs, hostPair{a, b})
		pouts = append(pouts, pout{graph.VerifC02Match(a, b), graph.GetMoreSpecificHostname(a, b)})
	}
	if rs == nil {
		rs = []string{}
	}
	emit(coreLine{K: "H", Listener: l, Routes: rs, Pairs: pairs, Out: map[string]interface{}{"accepted": acc, "pairs": pouts}})
}

type sRule struct {
	M    bool   `json:"m"`
	H    int    `json:"h"`
	Q    int    `json:"q"`
	Age  int    `json:"age"`
	NS   string `json:"ns"`
	Name string `json:"name"`
	ID   int    `json:"id"`
}

func coreS(r *rng.R, emit func(coreLine)) {
	n := r.Range(0, 14)
	rules := make([]sRule, 0, n)
	mrs := make([]dataplane.MatchRule, 0, n)
	metas := map[string]*metav1.ObjectMeta{}
	for i := 0; i < n; i++ {
		sr := sRule{M: r.Chance(40, 100), H: r.Intn(3), Q: r.Intn(3), Age: r.Intn(3), NS: rng.Pick(r, []string{"a", "b", "ab", "team-a"}),
			Name: rng.Pick(r, []string{"r", "r0", "r1", "hr-1", "hr_1", "é"}), ID: i}
		rules = append(rules, sr)
		m := dataplane.Match{}
		if sr.M {
			m.Method = ptr("GET")
		}
		for k := 0; k < sr.H; k++ {
			m.Headers = append(m.Headers, dataplane.HTTPHeaderMatch{Name: fmt.Sprintf("h%d", k), Value: "v"})
		}
		for k := 0; k < sr.Q; k++ {
			m.QueryParams = append(m.QueryParams, dataplane.HTTPQueryParamMatch{Name: fmt.Sprintf("q%d", k), Value: "v"})
		}
		key := fmt.Sprintf("%d/%s/%s", sr.Age, sr.NS, sr.Name)
		if metas[key] == nil {
			metas[key] = &metav1.ObjectMeta{Namespace: sr.NS, Name: sr.Name,
				CreationTimestamp: metav1.NewTime(p.Epoch.Add(time.Duration(sr.Age) * time.Second))}
		}
		mrs = append(mrs, dataplane.MatchRule{Source: metas[key], Match: m,
			BackendGroup: dataplane.BackendGroup{Source: types.NamespacedName{Namespace: sr.NS, Name: sr.Name}, RuleIdx: i}})
	}
	dataplane.VerifC02SortMatchRules(mrs)
	order := make([]int, 0, n)
	for _, mr := range mrs {
		order = append(order, mr.BackendGroup.RuleIdx)
	}
	emit(coreLine{K: "S", Rules: rules, Out: order})
}

type lRule struct {
	Path   string `json:"path"`
	Prefix bool   `json:"prefix"`
}

type lLoc struct {
	Exact bool   `json:"exact"`
	Path  string `json:"path"`
	Rule  int    `json:"rule"`
}

var corePaths = []string{"/", "/coffee", "/coffee/", "/coffee/latte", "/coffee/latte/", "/coffeex", "/tea", "/t", "/t/", "/a/b"}

func coreL(r *rng.R, emit func(coreLine)) {
	seen := map[lRule]bool{}
	var rules []lRule
	for i, n := 0, r.Range(0, 7); i < n; i++ {
		lr := lRule{rng.Pick(r, corePaths), r.Chance(65, 100)}
		if !seen[lr] {
			seen[lr] = true
			rules = append(rules, lr)
		}
	}
	// buildServers sorts path rules by (path, type)
	sort.Slice(rules, func(i, j int) bool {
		if rules[i].Path != rules[j].Path {
			return rules[i].Path < rules[j].Path
		}
		return !rules[i].Prefix && rules[j].Prefix // "exact" < "prefix"
	})
	vs := &dataplane.VirtualServer{Hostname: "x.example.com", Port: 80}
	for i, lr := range rules {
		pt := dataplane.PathTypeExact
		if lr.Prefix {
			pt = dataplane.PathTypePrefix
		}
		vs.PathRules = append(vs.PathRules, dataplane.PathRule{Path: lr.Path, PathType: pt, MatchRules: []dataplane.MatchRule{{
			Source: &metav1.ObjectMeta{Namespace: "ns", Name: "r"},
			BackendGroup: dataplane.BackendGroup{Source: types.NamespacedName{Namespace: "ns", Name: "r"}, RuleIdx: i,
				Backends: []dataplane.Backend{{UpstreamName: fmt.Sprintf("u%d", i), Weight: 1, Valid: true}}},
		}}})
	}
	out := []lLoc{}
	for _, l := range ngxconfig.VerifC02CreateLocations(vs) {
		ll := lLoc{Path: l.Path, Rule: len(rules)}
		if strings.HasPrefix(l.Path, "= ") {
			ll.Exact, ll.Path = true, l.Path[2:]
		}
		if strings.HasPrefix(l.ProxyPass, "http://u") {
			fmt.Sscanf(strings.TrimPrefix(l.ProxyPass, "http://u"), "%d", &ll.Rule)
		}
		out = append(out, ll)
	}
	if rules == nil {
		rules = []lRule{}
	}
	emit(coreLine{K: "L", Rules: rules, Out: out})
}

type grpcM struct {
	HasGM   bool    `json:"hasGm"`
	Service *string `json:"service"`
	GMethod *string `json:"gmethod"`
	NH      int     `json:"nh"`
}

type convOut struct {
	Exact bool   `json:"exact"`
	Path  string `json:"path"`
	NH    int    `json:"nh"`
}

func coreGFixed(emit func(coreLine), ms []grpcM) {
	var in []gatewayv1.GRPCRouteMatch
	for _, m := range ms {
		g := gatewayv1.GRPCRouteMatch{}
		if m.HasGM {
			g.Method = &gatewayv1.GRPCMethodMatch{Type: ptr(gatewayv1.GRPCMethodMatchExact), Service: m.Service, Method: m.GMethod}
		}
		for k := 0; k < m.NH; k++ {
			g.Headers = append(g.Headers, gatewayv1.GRPCHeaderMatch{Name: gatewayv1.GRPCHeaderName(fmt.Sprintf("h%d", k)), Value: "v"})
		}
		in = append(in, g)
	}
	out := []convOut{}
	for _, hm := range graph.ConvertGRPCMatches(in) {
		c := convOut{NH: len(hm.Headers)}
		if hm.Path != nil {
			if hm.Path.Type != nil {
				c.Exact = *hm.Path.Type == gatewayv1.PathMatchExact
			}
			if hm.Path.Value != nil {
				c.Path = *hm.Path.Value
			}
		}
		out = append(out, c)
	}
	if ms == nil {
		ms = []grpcM{}
	}
	emit(coreLine{K: "G", Matches: ms, Out: out})
}

func coreG(r *rng.R, emit func(coreLine)) {
	var ms []grpcM
	for i, n := 0, r.Range(0, 4); i < n; i++ {
		m := grpcM{NH: r.Intn(3)}
		if r.Chance(55, 100) {
			m.HasGM = true
			if !r.Chance(8, 100) {
				m.Service = ptr(rng.Pick(r, grpcSvcs))
			}
			if !r.Chance(8, 100) {
				m.GMethod = ptr(rng.Pick(r, grpcMeths))
			}
		}
		ms = append(ms, m)
	}
	coreGFixed(emit, ms)
}

type njsMatch struct {
	Method       string   `json:"method,omitempty"`
	RedirectPath string   `json:"redirectPath,omitempty"`
	Headers      []string `json:"headers,omitempty"`
	Params       []string `json:"params,omitempty"`
	Any          bool     `json:"any,omitempty"`
}

type njsReq struct {
	Method  string      `json:"method"`
	Headers [][2]string `json:"headers"`
	Args    [][2]string `json:"args"`
}

func coreN(r *rng.R, emit func(coreLine)) {
	var ms []njsMatch
	for i, n := 0, r.Range(1, 4); i < n; i++ {
		m := njsMatch{RedirectPath: fmt.Sprintf("/_ngf-internal-rule0-route%d", i)}
		switch k := r.Intn(10); {
		case k == 0:
			m.Any = true
		default:
			if r.Chance(35, 100) {
				m.Method = rng.Pick(r, methods)
			}
			for j, hn := 0, r.Intn(3); j < hn; j++ {
				h := rng.Pick(r, hdrNames) + ":" + rng.Pick(r, hdrValues)
				if r.Chance(3, 100) {
					h = "broken-no-separator"
				}
				m.Headers = append(m.Headers, h)
			}
			for j, qn := 0, r.Intn(3); j < qn; j++ {
				q := rng.Pick(r, []string{"q", "lang", "Q"}) + "=" + rng.Pick(r, []string{"1", "2", "en", "a=b"})
				if r.Chance(3, 100) {
					q = rng.Pick(r, []string{"novalue", "=x", "k="})
				}
				m.Params = append(m.Params, q)
			}
		}
		if r.Chance(2, 100) {
			m.RedirectPath = ""
		}
		ms = append(ms, m)
	}
	// the request is built around one of the matches: every condition satisfied in one of several spellings, or
	// broken in one way (the variants the statement lists: name case, duplicate lines, comma lists, repeated /
	// reordered / case-changed query parameters)
	target := rng.Pick(r, ms)
	req := njsReq{Method: target.Method, Headers: [][2]string{}, Args: [][2]string{}}
	if req.Method == "" || r.Chance(15, 100) {
		req.Method = rng.Pick(r, append(methods, "PUT"))
	}
	for _, h := range target.Headers {
		kv := strings.SplitN(h, ":", 2)
		if len(kv) != 2 {
			continue
		}
		switch r.Intn(9) {
		case 0:
			req.Headers = append(req.Headers, [2]string{strings.ToUpper(kv[0]), kv[1]})
		case 1:
			req.Headers = append(req.Headers, [2]string{kv[0], kv[1] + ",zz"})
		case 2:
			req.Headers = append(req.Headers, [2]string{kv[0], "zz"}, [2]string{strings.ToLower(kv[0]), kv[1]})
		case 3:
			req.Headers = append(req.Headers, [2]string{kv[0], strings.ToUpper(kv[1])})
		case 4:
			req.Headers = append(req.Headers, [2]string{kv[0], "zz, " + kv[1]})
		case 5:
		default:
			req.Headers = append(req.Headers, [2]string{kv[0], kv[1]})
		}
	}
	for _, q := range target.Params {
		kv := strings.SplitN(q, "=", 2)
		if len(kv) != 2 {
			continue
		}
		switch r.Intn(9) {
		case 0:
			req.Args = append(req.Args, [2]string{kv[0], kv[1]}, [2]string{kv[0], "zz"})
		case 1:
			req.Args = append(req.Args, [2]string{kv[0], "zz"}, [2]string{kv[0], kv[1]})
		case 2:
			req.Args = append(req.Args, [2]string{strings.ToUpper(kv[0]), kv[1]})
		case 3:
			req.Args = append(req.Args, [2]string{"other", "1"}, [2]string{kv[0], kv[1]})
		case 4:
		default:
			req.Args = append(req.Args, [2]string{kv[0], kv[1]})
		}
	}
	if r.Chance(20, 100) {
		req.Headers = append(req.Headers, [2]string{rng.Pick(r, append(hdrNames, "Other")), rng.Pick(r, hdrValues)})
	}
	if r.Chance(20, 100) {
		req.Args = append(req.Args, [2]string{rng.Pick(r, []string{"q", "lang", "z"}), rng.Pick(r, []string{"1", "2", "en"})})
	}
	emit(coreLine{K: "N", Matches: ms, Req: req})
}
