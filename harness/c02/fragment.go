package c02

import (
	"fmt"

	gatewayv1 "sigs.k8s.io/gateway-api/apis/v1"

	p "github.com/nginx/nginx-gateway-fabric/verifharness/pipeline"
	"github.com/nginx/nginx-gateway-fabric/verifharness/rng"
	"github.com/nginx/nginx-gateway-fabric/verifharness/scen"
)

// GenFragment draws scenarios inside the fragment of Model/Pipeline.lean: HTTP listeners only (hostname optional,
// allowedRoutes Same/All), HTTPRoutes with hostnames, Exact/PathPrefix matches (no prefix value ending in "/") with
// optional method/header/query conditions, single or weighted backends (valid or not), optional RequestRedirect
// without path modifier; plus a foreign class / younger Gateway / unattached routes, which the model must ignore.
func GenFragment(r *rng.R) *scen.Scenario {
	s := &scen.Scenario{Opts: p.DefaultOptions(), Tags: map[string]int{}}
	age := 0
	nextAge := func() int {
		if !r.Chance(25, 100) {
			age++
		}
		return age
	}
	for _, ns := range nsPool {
		s.Objs = append(s.Objs, p.Namespace(ns, map[string]string{"kubernetes.io/metadata.name": ns}))
		for i := 0; i < 3; i++ {
			name := fmt.Sprintf("svc%d", i)
			s.Objs = append(s.Objs, p.Service(ns, name, 80))
			if !r.Chance(15, 100) {
				s.Objs = append(s.Objs, p.EndpointSlice(ns, name, "s0", []int32{80}, fmt.Sprintf("10.1.%d.%d", i, r.Range(1, 9))))
			}
		}
	}
	s.Objs = append(s.Objs, p.GatewayClass(p.DefaultClass, p.DefaultController, nextAge()))
	if r.Chance(30, 100) {
		s.Objs = append(s.Objs, p.GatewayClass("other", scen.ForeignController, nextAge()),
			p.Gateway("default", "foreign-gw", "other", nextAge(), p.Listener{Name: "http", Port: 80, Protocol: "HTTP", FromNS: "All"}))
	}
	gwNS := rng.Pick(r, []string{"default", "team-a"})
	var ls []p.Listener
	for i, n := 0, r.Range(1, 4); i < n; i++ {
		l := p.Listener{Name: fmt.Sprintf("l%d", i), Protocol: "HTTP", Port: rng.Pick(r, []int32{80, 80, 8080}),
			Hostname: rng.Pick(r, hostPool), FromNS: rng.Pick(r, []string{"All", "All", "Same"})}
		dup := false
		for _, o := range ls {
			dup = dup || (o.Port == l.Port && o.Hostname == l.Hostname)
		}
		if !dup {
			ls = append(ls, l)
		}
	}
	s.Objs = append(s.Objs, p.Gateway(gwNS, "gw", p.DefaultClass, nextAge(), ls...))
	if r.Chance(30, 100) {
		// a younger Gateway of our class: ignored
		s.Objs = append(s.Objs, p.Gateway("team-b", "gw-young", p.DefaultClass, 1000,
			p.Listener{Name: "http", Port: 80, Protocol: "HTTP", FromNS: "All"}))
	}
	paths := []string{"/", "/coffee", "/coffee/latte", "/coffeex", "/tea", "/t", "/a/b"}
	for i, n := 0, r.Range(1, 5); i < n; i++ {
		ns := rng.Pick(r, nsPool)
		var prs []gatewayv1.ParentReference
		switch k := r.Intn(12); {
		case k >= 10:
			// parentRef WITHOUT namespace: defaults to the Route's own namespace — attaches when the Route lives in
			// the Gateway's namespace, names a non-existing Gateway <route-ns>/gw otherwise (must stay unattached)
			prs = append(prs, p.ParentRef("", "gw", ""))
			s.Tags["parentref-without-namespace"]++
		case k < 5:
			prs = append(prs, p.ParentRef(gwNS, "gw", ""))
		case k < 8:
			prs = append(prs, p.ParentRef(gwNS, "gw", rng.Pick(r, ls).Name))
			if r.Chance(30, 100) {
				o := rng.Pick(r, ls).Name
				if o != string(*prs[0].SectionName) {
					prs = append(prs, p.ParentRef(gwNS, "gw", o))
				}
			}
		case k < 9:
			prs = append(prs, p.ParentRef(gwNS, "gw", "nope"))
		default:
			prs = append(prs, p.ParentRef("team-b", rng.Pick(r, []string{"gw-young", "no-such-gw"}), ""))
		}
		var hs []string
		for j, k := 0, rng.Pick(r, []int{0, 0, 1, 1, 2}); j < k; j++ {
			h := rng.Pick(r, hostPool[1:])
			dup := false
			for _, x := range hs {
				dup = dup || x == h
			}
			if !dup {
				hs = append(hs, h)
			}
		}
		var rules []gatewayv1.HTTPRouteRule
		for j, k := 0, r.Range(1, 3); j < k; j++ {
			var ms []gatewayv1.HTTPRouteMatch
			for a, b := 0, rng.Pick(r, []int{1, 1, 2}); a < b; a++ {
				m := p.PathMatch(rng.Pick(r, []string{"Exact", "PathPrefix", "PathPrefix"}), rng.Pick(r, paths))
				if r.Chance(25, 100) {
					m.Method = ptr(gatewayv1.HTTPMethod(rng.Pick(r, methods)))
				}
				if r.Chance(25, 100) {
					m.Headers = append(m.Headers, gatewayv1.HTTPHeaderMatch{Type: ptr(gatewayv1.HeaderMatchExact),
						Name: gatewayv1.HTTPHeaderName(rng.Pick(r, hdrNames)), Value: rng.Pick(r, hdrValues)})
					if r.Chance(30, 100) {
						m.Headers = repeatHeaderName(r, m.Headers, s.Tags)
					}
				}
				if r.Chance(20, 100) {
					m.QueryParams = append(m.QueryParams, gatewayv1.HTTPQueryParamMatch{Type: ptr(gatewayv1.QueryParamMatchExact),
						Name: "q", Value: rng.Pick(r, []string{"1", "2"})})
				}
				ms = append(ms, m)
				// mostly give a conditional match an unconditional companion on the same path (in the same rule), so
				// that the njs matcher always finds a match (Pipeline.noShadow: the region of the fragment theorem)
				if (m.Method != nil || len(m.Headers) > 0 || len(m.QueryParams) > 0) && r.Chance(70, 100) {
					ms = append(ms, p.PathMatch(string(*m.Path.Type), *m.Path.Value))
				}
			}
			rule := p.HTTPRule(ms)
			if r.Chance(20, 100) {
				rr := &gatewayv1.HTTPRequestRedirectFilter{StatusCode: ptr(rng.Pick(r, []int{301, 302}))}
				if r.Chance(60, 100) {
					rr.Scheme = ptr(rng.Pick(r, []string{"https", "http"}))
				}
				if r.Chance(60, 100) {
					rr.Hostname = ptr(gatewayv1.PreciseHostname("redirect.example.com"))
				}
				if r.Chance(40, 100) {
					rr.Port = ptr(gatewayv1.PortNumber(rng.Pick(r, []int{80, 443, 8080})))
				}
				rule.Filters = []gatewayv1.HTTPRouteFilter{{Type: gatewayv1.HTTPRouteFilterRequestRedirect, RequestRedirect: rr}}
			} else {
				for a, b := 0, rng.Pick(r, []int{0, 1, 1, 1, 2, 3}); a < b; a++ {
					be := p.Backend{Ref: fmt.Sprintf("svc%d", r.Intn(3)), Port: 80, Weight: -1}
					if r.Chance(50, 100) {
						be.Weight = int32(rng.Pick(r, []int{0, 1, 2, 3, 10, 33, 50}))
					}
					if r.Chance(10, 100) {
						be.Ref = rng.Pick(r, []string{"no-such-svc", "team-b/svc0"})
					}
					rule.BackendRefs = append(rule.BackendRefs, gatewayv1.HTTPBackendRef{BackendRef: p.BackendRef(be)})
				}
				if r.Chance(8, 100) {
					// a switched-off canary: weights that leave a rounding remainder, and a zero-weight backend listed LAST
					// (it must get no share at all)
					rule.BackendRefs = nil
					for a, w := range rng.Pick(r, [][]int32{{1, 1, 1, 0}, {1, 2, 0}, {3, 3, 1, 0}}) {
						be := p.Backend{Ref: fmt.Sprintf("svc%d", a%3), Port: 80, Weight: w}
						rule.BackendRefs = append(rule.BackendRefs, gatewayv1.HTTPBackendRef{BackendRef: p.BackendRef(be)})
					}
					s.Tags["zero-weight-backend-last"]++
				}
			}
			rules = append(rules, rule)
		}
		s.Objs = append(s.Objs, p.HTTPRoute(ns, fmt.Sprintf("hr%d", i), nextAge(), prs, hs, rules...))
	}
	return s
}
