// Package c02 drives the REAL pipeline (graph → dataplane → config generator) on routing-heavy scenarios and
// emits, per case, the flat scenario (input of the Lean oracle Spec/GatewayAPI) together with the text of the
// generated http.conf / stream.conf / matches.json (input of the Lean NGINX evaluator Model/NginxEval).
//
// Lines (one JSON object each):
//
//	{"k":"J","id":n,"profile":…,"flat":{…},"files":{"http":…,"stream":…,"matches":…},"obs":{…}}      judge case
//	{"k":"M","id":n,"flat":{… base+noise …},"a":{files of base},"b":{files of base+noise},"noise":[…]}  metamorphic pair
//	{"k":"H"|"S"|"L"|"G", …}   correspondence cases for the proved cores (see cores.go)
//	{"k":"P","id":n,"site":…}  the real code panicked (C05's subject; counted, not judged)
package c02

import (
	"bufio"
	"encoding/json"
	"flag"
	"fmt"
	"os"
	"sort"

	"sigs.k8s.io/controller-runtime/pkg/client"

	p "github.com/nginx/nginx-gateway-fabric/verifharness/pipeline"
	"github.com/nginx/nginx-gateway-fabric/verifharness/rng"
)

const (
	httpConf   = "/etc/nginx/conf.d/http.conf"
	streamConf = "/etc/nginx/stream-conf.d/stream.conf"
	matchesJS  = "/etc/nginx/conf.d/matches.json"
)

type Files struct {
	HTTP    string `json:"http"`
	Stream  string `json:"stream"`
	Matches string `json:"matches"`
}

type Obs struct {
	// Listeners: listener name -> Valid bit of the real graph (triage aid: the oracle computes validity itself)
	Listeners map[string]bool `json:"listeners"`
	// Attached: listener name -> sorted route keys attached in the real graph
	Attached map[string][]string `json:"attached"`
	Winner   string              `json:"winner"`
}

type Line struct {
	K       string         `json:"k"`
	ID      int            `json:"id"`
	Profile string         `json:"profile,omitempty"`
	Flat    *Flat          `json:"flat,omitempty"`
	Files   *Files         `json:"files,omitempty"`
	A       *Files         `json:"a,omitempty"`
	B       *Files         `json:"b,omitempty"`
	Obs     *Obs           `json:"obs,omitempty"`
	Noise   []string       `json:"noise,omitempty"`
	Site    string         `json:"site,omitempty"`
	Tags    map[string]int `json:"tags,omitempty"`
	// Objs: the typed objects (pipeline.EncodeObjects), only with -objs; the input format of -replay
	Objs json.RawMessage `json:"objs,omitempty"`
}

func runPipeline(objs []client.Object, opts p.Options) (*Files, *Obs, string) {
	_, out := p.RunFresh(objs, opts, nil)
	if out.Panic != "" {
		return nil, nil, p.PanicSite(out.Panic)
	}
	f := &Files{
		HTTP: p.FileText(out.Files, httpConf), Stream: p.FileText(out.Files, streamConf), Matches: p.FileText(out.Files, matchesJS),
	}
	obs := &Obs{Listeners: map[string]bool{}, Attached: map[string][]string{}}
	if out.Graph != nil && out.Graph.Gateway != nil {
		obs.Winner = out.Graph.Gateway.Source.Namespace + "/" + out.Graph.Gateway.Source.Name
		for _, l := range out.Graph.Gateway.Listeners {
			obs.Listeners[l.Name] = l.Valid
			var ks []string
			for k := range l.Routes {
				ks = append(ks, string(k.RouteType)+":"+k.NamespacedName.String())
			}
			for k := range l.L4Routes {
				ks = append(ks, "tls:"+k.NamespacedName.String())
			}
			sort.Strings(ks)
			obs.Attached[l.Name] = ks
		}
	}
	return f, obs, ""
}

var outW = bufio.NewWriterSize(os.Stdout, 1<<20)

func emitRaw(v interface{}) {
	b, err := json.Marshal(v)
	if err != nil {
		panic(err)
	}
	outW.Write(b)
	outW.WriteByte('\n')
	outW.Flush()
}

// Run is the entry point of harness/cmd/c02.
func Run(args []string) int {
	fs := flag.NewFlagSet("c02", flag.ContinueOnError)
	seed := fs.Uint64("seed", 1, "")
	n := fs.Int("n", 100, "judge cases")
	meta := fs.Int("meta", 30, "metamorphic pairs")
	cores := fs.Int("cores", 200, "correspondence cases per proved core")
	replay := fs.String("replay", "", "JSON file with {\"objs\": […]} to run instead of generating")
	withObjs := fs.Bool("objs", false, "include the typed objects in J lines (for corpus files)")
	only := fs.Int("only", -1, "emit only the J case with this id")
	wc := fs.String("write-corpus", "", "write the minimal scenarios into this directory and exit")
	if err := fs.Parse(args); err != nil {
		return 2
	}
	defer outW.Flush()
	emit := func(l Line) { emitRaw(l) }
	if *wc != "" {
		if err := writeCorpus(*wc); err != nil {
			fmt.Fprintln(os.Stderr, err)
			return 2
		}
		return 0
	}

	if *replay != "" {
		data, err := os.ReadFile(*replay)
		if err != nil {
			fmt.Fprintln(os.Stderr, err)
			return 2
		}
		var in struct {
			Objs json.RawMessage `json:"objs"`
		}
		if err := json.Unmarshal(data, &in); err != nil {
			fmt.Fprintln(os.Stderr, err)
			return 2
		}
		objs, err := p.DecodeObjects(in.Objs)
		if err != nil {
			fmt.Fprintln(os.Stderr, err)
			return 2
		}
		opts := p.DefaultOptions()
		files, obs, site := runPipeline(objs, opts)
		if site != "" {
			emit(Line{K: "P", Site: site})
			return 0
		}
		fl := Flatten(objs, opts)
		emit(Line{K: "J", Profile: "replay", Flat: &fl, Files: files, Obs: obs})
		return 0
	}

	r := rng.New(*seed)
	panics := 0
	for i := 0; i < *n && panics < 12; i++ {
		s, profile := Generate(r.Fork())
		ApplyDefaults(s.Objs)
		files, obs, site := runPipeline(s.Objs, s.Opts)
		if site != "" {
			panics++
			emit(Line{K: "P", ID: i, Site: site})
			continue
		}
		if *only >= 0 && i != *only {
			continue
		}
		fl := Flatten(s.Objs, s.Opts)
		l := Line{K: "J", ID: i, Profile: profile, Flat: &fl, Files: files, Obs: obs, Tags: s.Tags}
		if *withObjs {
			l.Objs = p.EncodeObjects(s.Objs)
		}
		emit(l)
	}
	if *only >= 0 {
		return 0
	}
	for i := 0; i < *meta && panics < 12; i++ {
		rr := r.Fork()
		s, profile := Generate(rr)
		ApplyDefaults(s.Objs)
		noisy, kinds := AddNoise(rr, s.Objs)
		if len(kinds) == 0 {
			continue
		}
		ApplyDefaults(noisy)
		fa, _, sa := runPipeline(s.Objs, s.Opts)
		fb, _, sb := runPipeline(noisy, s.Opts)
		if sa != "" || sb != "" {
			panics++
			emit(Line{K: "P", ID: 100000 + i, Site: sa + sb})
			continue
		}
		fl := Flatten(noisy, s.Opts)
		emit(Line{K: "M", ID: 100000 + i, Profile: profile, Flat: &fl, A: fa, B: fb, Noise: kinds})
	}
	emitCores(r.Fork(), *cores, emit)
	return 0
}
