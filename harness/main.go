// ngfharness drives the real nginx-gateway-fabric code in-process for the correspondence checks.
//
//	ngfharness <property> [flags]
//
// Output is a line protocol on stdout (see each package); diagnostics go to stderr.
// Each property registers itself in its own file cmd_<id>.go (func init) so that properties can be
// added without touching this file.
package main

import (
	"fmt"
	"os"
)

var commands = map[string]func([]string) int{}

func main() {
	if len(os.Args) < 2 {
		fmt.Fprintln(os.Stderr, "usage: ngfharness <property> [flags]")
		os.Exit(2)
	}
	f, ok := commands[os.Args[1]]
	if !ok {
		fmt.Fprintln(os.Stderr, "unknown property", os.Args[1])
		os.Exit(2)
	}
	os.Exit(f(os.Args[2:]))
}
