package c03

import (
	"strings"

	apiv1 "k8s.io/api/core/v1"
	"sigs.k8s.io/controller-runtime/pkg/client"
	gatewayv1 "sigs.k8s.io/gateway-api/apis/v1"
	"sigs.k8s.io/gateway-api/apis/v1alpha2"
	"sigs.k8s.io/gateway-api/apis/v1alpha3"

	ngfAPI "github.com/nginx/nginx-gateway-fabric/apis/v1alpha1"
	ngfAPIv2 "github.com/nginx/nginx-gateway-fabric/apis/v1alpha2"
	p "github.com/nginx/nginx-gateway-fabric/verifharness/pipeline"
)

// CorpusCase is a minimal hand-made cluster state (regression inputs for the defects of DESIGN §7).
type CorpusCase struct {
	Name string
	Case *Case
}

func base(nss ...string) ([]client.Object, []gatewayv1.ParentReference) {
	var objs []client.Object
	for _, ns := range nss {
		objs = append(objs, p.Namespace(ns, nil))
		objs = append(objs, p.Service(ns, "svc0", 80), p.Service(ns, "svc1", 80), p.Service(ns, "svc2", 80))
		objs = append(objs, p.EndpointSlice(ns, "svc0", "s", []int32{80}, "10.0.0.1"), p.EndpointSlice(ns, "svc1", "s", []int32{80}, "10.0.0.2"))
	}
	objs = append(objs, p.GatewayClass(p.DefaultClass, p.DefaultController, 1))
	objs = append(objs, p.Gateway(nss[0], "gw", p.DefaultClass, 2,
		p.Listener{Name: "http", Port: 80, Protocol: "HTTP", FromNS: "All"},
		p.Listener{Name: "tls", Port: 8443, Protocol: "TLS", Hostname: "*.example.com", FromNS: "All"}))
	return objs, []gatewayv1.ParentReference{p.ParentRef(nss[0], "gw", "")}
}

func two(ws ...int32) []p.Backend {
	var bs []p.Backend
	for i, w := range ws {
		bs = append(bs, p.Backend{Ref: []string{"svc0", "svc1", "svc2", "svc0"}[i%4], Port: 80, Weight: w})
	}
	return bs
}

// Corpus returns the regression cases; they run first on every check.
func Corpus() []CorpusCase {
	var out []CorpusCase
	mk := func(name string, objs []client.Object) {
		out = append(out, CorpusCase{Name: name, Case: &Case{Objs: objs, Tags: map[string]int{}}})
	}
	{
		objs, par := base("ns")
		objs = append(objs, p.HTTPRoute("ns", "plain", 3, par, nil, p.HTTPRule([]gatewayv1.HTTPRouteMatch{p.PathMatch("PathPrefix", "/")}, two(1, 1)...)))
		mk("plain-split", objs)
	}
	{
		objs, par := base("ns")
		objs = append(objs, p.HTTPRoute("ns", "my.route", 3, par, nil, p.HTTPRule([]gatewayv1.HTTPRouteMatch{p.PathMatch("PathPrefix", "/")}, two(1, 1)...)))
		mk("route-name-with-dot", objs)
	}
	{
		objs, par := base("a", "a--b")
		objs = append(objs, p.HTTPRoute("a--b", "c", 3, par, []string{"one.example.com"}, p.HTTPRule([]gatewayv1.HTTPRouteMatch{p.PathMatch("PathPrefix", "/")}, two(1, 1)...)))
		objs = append(objs, p.HTTPRoute("a", "b--c", 4, par, []string{"two.example.com"}, p.HTTPRule([]gatewayv1.HTTPRouteMatch{p.PathMatch("PathPrefix", "/")}, two(9, 1)...)))
		mk("double-hyphen-collision", objs)
	}
	{
		objs, par := base("ns")
		m1 := p.PathMatch("PathPrefix", "/foo")
		m1.Method = ptr(gatewayv1.HTTPMethodGet)
		m2 := p.PathMatch("PathPrefix", "/foo")
		m2.Method = ptr(gatewayv1.HTTPMethodPost)
		objs = append(objs, p.HTTPRoute("ns", "hr", 3, par, nil, p.HTTPRule([]gatewayv1.HTTPRouteMatch{m1, m2}, two(1)...)))
		csp := &ngfAPI.ClientSettingsPolicy{ObjectMeta: p.Meta("ns", "csp", 4)}
		csp.Spec.TargetRef = v1alpha2.LocalPolicyTargetReference{Group: "gateway.networking.k8s.io", Kind: "HTTPRoute", Name: "hr"}
		csp.Spec.Body = &ngfAPI.ClientBody{MaxSize: ptr(ngfAPI.Size("10m"))}
		objs = append(objs, csp)
		mk("two-matches-one-path-csp", objs)
	}
	{
		objs, par := base("ns")
		rule := p.HTTPRule([]gatewayv1.HTTPRouteMatch{p.PathMatch("PathPrefix", "/a(b")}, two(1)...)
		rule.Filters = []gatewayv1.HTTPRouteFilter{{Type: gatewayv1.HTTPRouteFilterURLRewrite, URLRewrite: &gatewayv1.HTTPURLRewriteFilter{
			Path: &gatewayv1.HTTPPathModifier{Type: gatewayv1.PrefixMatchHTTPPathModifier, ReplacePrefixMatch: ptr("/v2")},
		}}}
		objs = append(objs, p.HTTPRoute("ns", "hr", 3, par, nil, rule))
		mk("rewrite-prefix-unbalanced-paren", objs)
	}
	{
		objs, par := base("ns")
		long := "l" + strings.Repeat("o", 61) + "g"
		objs = append(objs, p.TLSRoute("ns", "tr", 3, par, []string{long + "." + long + ".example.com"}, p.Backend{Ref: "svc0", Port: 80, Weight: -1}))
		mk("tlsroute-long-hostname", objs)
	}
	{
		objs, par := base("ns")
		rule := p.HTTPRule([]gatewayv1.HTTPRouteMatch{p.PathMatch("PathPrefix", "/")}, two(1)...)
		rule.Filters = []gatewayv1.HTTPRouteFilter{{Type: gatewayv1.HTTPRouteFilterRequestHeaderModifier, RequestHeaderModifier: &gatewayv1.HTTPHeaderFilter{
			Add: []gatewayv1.HTTPHeader{{Name: "x.dot", Value: "v"}},
		}}}
		objs = append(objs, p.HTTPRoute("ns", "hr", 3, par, nil, rule))
		mk("add-header-name-with-dot-is-rejected", objs)
	}
	{
		objs, par := base("ns")
		objs = append(objs, p.HTTPRoute("ns", "hr", 3, par, nil, p.HTTPRule([]gatewayv1.HTTPRouteMatch{p.PathMatch("PathPrefix", "/")}, two(83, 42, 0)...)))
		mk("weights-83-42-0", objs)
	}
	{
		// one rule, two backends: svc0 has a BackendTLSPolicy (CA ConfigMap), svc1 has none -> the graph marks the
		// policy-bearing backend invalid (policy mismatch inside a group)
		objs, par := base("ns")
		cert, _ := p.CertPair(7)
		cm := &apiv1.ConfigMap{ObjectMeta: p.Meta("ns", "ca", 0), Data: map[string]string{"ca.crt": string(cert)}}
		btp := &v1alpha3.BackendTLSPolicy{ObjectMeta: p.Meta("ns", "btp", 3)}
		btp.Spec.TargetRefs = []v1alpha2.LocalPolicyTargetReferenceWithSectionName{{
			LocalPolicyTargetReference: v1alpha2.LocalPolicyTargetReference{Kind: "Service", Name: "svc0"},
		}}
		btp.Spec.Validation.Hostname = "backend.example.com"
		btp.Spec.Validation.CACertificateRefs = []gatewayv1.LocalObjectReference{{Kind: "ConfigMap", Name: "ca"}}
		objs = append(objs, cm, btp)
		objs = append(objs, p.HTTPRoute("ns", "hr", 4, par, nil, p.HTTPRule([]gatewayv1.HTTPRouteMatch{p.PathMatch("PathPrefix", "/")}, two(1, 1)...)))
		mk("backend-tls-policy-on-one-of-two-backends", objs)
	}
	for _, target := range []string{"HTTPRoute", "Gateway"} {
		// three ClientSettingsPolicies of three ages on one target, all setting body.maxSize: only the oldest may
		// stay valid, otherwise client_max_body_size is duplicated in the scope (loadable on the unchanged tree)
		objs, par := base("ns")
		objs = append(objs, p.HTTPRoute("ns", "hr", 3, par, nil, p.HTTPRule([]gatewayv1.HTTPRouteMatch{p.PathMatch("PathPrefix", "/")}, two(1)...)))
		for i, n := range []string{"csp-a", "csp-b", "csp-c"} {
			csp := &ngfAPI.ClientSettingsPolicy{ObjectMeta: p.Meta("ns", n, 10+i)}
			name := "hr"
			if target == "Gateway" {
				name = "gw"
			}
			csp.Spec.TargetRef = v1alpha2.LocalPolicyTargetReference{Group: "gateway.networking.k8s.io", Kind: gatewayv1.Kind(target), Name: gatewayv1.ObjectName(name)}
			csp.Spec.Body = &ngfAPI.ClientBody{MaxSize: ptr(ngfAPI.Size([]string{"1m", "2m", "3m"}[i]))}
			objs = append(objs, csp)
		}
		mk("three-conflicting-csp-on-"+strings.ToLower(target), objs)
	}
	{
		// HTTPRoute and GRPCRoute with the same namespace/name: the backend group key has no route kind
		objs, par := base("ns")
		objs = append(objs, p.HTTPRoute("ns", "same", 3, par, nil, p.HTTPRule([]gatewayv1.HTTPRouteMatch{p.PathMatch("PathPrefix", "/zzz")}, two(1)...)))
		gr := gatewayv1.GRPCRouteRule{Matches: []gatewayv1.GRPCRouteMatch{{Method: &gatewayv1.GRPCMethodMatch{
			Type: ptr(gatewayv1.GRPCMethodMatchExact), Service: ptr("svc.A"), Method: ptr("Do"),
		}}}}
		for _, b := range two(1, 1) {
			gr.BackendRefs = append(gr.BackendRefs, gatewayv1.GRPCBackendRef{BackendRef: p.BackendRef(b)})
		}
		objs = append(objs, p.GRPCRoute("ns", "same", 4, par, nil, gr))
		mk("http-and-grpc-route-same-name", objs)
	}
	{
		// HTTPRoute ns/same and GRPCRoute ns/same serve the same host:port/path, each with its own ClientSettingsPolicy
		objs, par := base("ns")
		objs = append(objs, p.HTTPRoute("ns", "same", 3, par, nil, p.HTTPRule([]gatewayv1.HTTPRouteMatch{p.PathMatch("PathPrefix", "/")}, two(1)...)))
		gr := gatewayv1.GRPCRouteRule{}
		for _, b := range two(1) {
			gr.BackendRefs = append(gr.BackendRefs, gatewayv1.GRPCBackendRef{BackendRef: p.BackendRef(b)})
		}
		objs = append(objs, p.GRPCRoute("ns", "same", 4, par, nil, gr))
		for i, kind := range []string{"HTTPRoute", "GRPCRoute"} {
			csp := &ngfAPI.ClientSettingsPolicy{ObjectMeta: p.Meta("ns", []string{"csp-http", "csp-grpc"}[i], 10+i)}
			csp.Spec.TargetRef = v1alpha2.LocalPolicyTargetReference{Group: "gateway.networking.k8s.io", Kind: gatewayv1.Kind(kind), Name: "same"}
			csp.Spec.Body = &ngfAPI.ClientBody{MaxSize: ptr(ngfAPI.Size([]string{"1m", "2m"}[i]))}
			objs = append(objs, csp)
		}
		mk("csp-on-http-and-grpc-route-same-name-same-path", objs)
	}
	{
		// two routes share cafe.example.com:80/x but have different hostname LISTS; each has its own ClientSettingsPolicy
		objs, par := base("ns")
		objs = append(objs, p.HTTPRoute("ns", "r1", 3, par, []string{"cafe.example.com"}, p.HTTPRule([]gatewayv1.HTTPRouteMatch{p.PathMatch("PathPrefix", "/x")}, two(1)...)))
		objs = append(objs, p.HTTPRoute("ns", "r2", 4, par, []string{"cafe.example.com", "foo.example.com"}, p.HTTPRule([]gatewayv1.HTTPRouteMatch{p.PathMatch("PathPrefix", "/x")}, two(1)...)))
		for i, rt := range []string{"r1", "r2"} {
			csp := &ngfAPI.ClientSettingsPolicy{ObjectMeta: p.Meta("ns", "csp-"+rt, 10+i)}
			csp.Spec.TargetRef = v1alpha2.LocalPolicyTargetReference{Group: "gateway.networking.k8s.io", Kind: "HTTPRoute", Name: gatewayv1.ObjectName(rt)}
			csp.Spec.Body = &ngfAPI.ClientBody{MaxSize: ptr(ngfAPI.Size([]string{"1m", "2m"}[i]))}
			objs = append(objs, csp)
		}
		mk("csp-on-two-routes-sharing-host-and-path", objs)
	}
	{
		// HTTPS listener without hostname + a route without hostnames: two servers `listen 443 ssl; server_name ~^;`
		objs, _ := base("ns")
		objs = append(objs, p.TLSSecret("ns", "tls", 1))
		objs = append(objs, p.Gateway("ns", "gw2", p.DefaultClass, 1, p.Listener{Name: "https", Port: 443, Protocol: "HTTPS", CertRefs: []string{"tls"}, FromNS: "All"}))
		objs = append(objs, p.HTTPRoute("ns", "hr", 3, []gatewayv1.ParentReference{p.ParentRef("ns", "gw2", "")}, nil,
			p.HTTPRule([]gatewayv1.HTTPRouteMatch{p.PathMatch("PathPrefix", "/")}, two(1)...)))
		mk("https-listener-without-hostname", objs)
	}
	// HTTPS and TLS (passthrough) listener on ONE port: the HTTPS servers of the port move to the unix socket
	// unix:/var/run/nginx/https<port>.sock behind the stream server. Every IP family, with and without routes
	// (seeded change C03-r3m3: an IPv6 `listen [::]:unix:…` of the default SSL server).
	for _, fam := range []string{"ipv4", "ipv6", "dual"} {
		for _, withRoutes := range []bool{true, false} {
			objs := []client.Object{p.Namespace("ns", nil), p.Service("ns", "svc0", 80), p.EndpointSlice("ns", "svc0", "s", []int32{80}, "10.0.0.1"),
				p.TLSSecret("ns", "tls", 1)}
			gc := p.GatewayClass(p.DefaultClass, p.DefaultController, 1)
			if fam != "dual" { // dual is the default of a GatewayClass without NginxProxy
				np := &ngfAPI.NginxProxy{ObjectMeta: p.Meta("", "np", 1)}
				np.Spec.IPFamily = ptr(map[string]ngfAPI.IPFamilyType{"ipv4": ngfAPI.IPv4, "ipv6": ngfAPI.IPv6}[fam])
				gc.Spec.ParametersRef = &gatewayv1.ParametersReference{Group: "gateway.nginx.org", Kind: "NginxProxy", Name: "np"}
				objs = append(objs, np)
			}
			objs = append(objs, gc, p.Gateway("ns", "gw", p.DefaultClass, 2,
				p.Listener{Name: "http", Port: 80, Protocol: "HTTP", FromNS: "All"},
				p.Listener{Name: "https", Port: 443, Protocol: "HTTPS", Hostname: "cafe.example.com", CertRefs: []string{"tls"}, FromNS: "All"},
				p.Listener{Name: "tls", Port: 443, Protocol: "TLS", Hostname: "app.tls.org", FromNS: "All"}))
			name := "https-and-tls-share-port-" + fam
			if withRoutes {
				objs = append(objs, p.HTTPRoute("ns", "hr", 3, []gatewayv1.ParentReference{p.ParentRef("ns", "gw", "https")}, []string{"cafe.example.com"},
					p.HTTPRule([]gatewayv1.HTTPRouteMatch{p.PathMatch("PathPrefix", "/")}, two(1)...)))
				objs = append(objs, p.TLSRoute("ns", "tr", 4, []gatewayv1.ParentReference{p.ParentRef("ns", "gw", "tls")}, []string{"app.tls.org"},
					p.Backend{Ref: "svc0", Port: 80, Weight: -1}))
			} else {
				name += "-no-routes"
			}
			mk(name, objs)
		}
	}
	{
		// NginxProxy telemetry WITHOUT exporter (only serviceName) + ObservabilityPolicies on an HTTPRoute and a GRPCRoute:
		// nothing loads ngx_otel_module, so the policies must not produce otel_* includes (seeded change C03-r4m1)
		objs := []client.Object{p.Namespace("ns", nil), p.Service("ns", "svc0", 80), p.EndpointSlice("ns", "svc0", "s", []int32{80}, "10.0.0.1")}
		np := &ngfAPI.NginxProxy{ObjectMeta: p.Meta("", "np", 1)}
		np.Spec.Telemetry = &ngfAPI.Telemetry{ServiceName: ptr("my-svc")}
		gc := p.GatewayClass(p.DefaultClass, p.DefaultController, 1)
		gc.Spec.ParametersRef = &gatewayv1.ParametersReference{Group: "gateway.nginx.org", Kind: "NginxProxy", Name: "np"}
		objs = append(objs, np, gc, p.Gateway("ns", "gw", p.DefaultClass, 2, p.Listener{Name: "http", Port: 80, Protocol: "HTTP", FromNS: "All"}))
		par := []gatewayv1.ParentReference{p.ParentRef("ns", "gw", "")}
		objs = append(objs, p.HTTPRoute("ns", "hr", 3, par, nil, p.HTTPRule([]gatewayv1.HTTPRouteMatch{p.PathMatch("PathPrefix", "/")}, two(1)...)))
		gr := gatewayv1.GRPCRouteRule{}
		for _, b := range two(1) {
			gr.BackendRefs = append(gr.BackendRefs, gatewayv1.GRPCBackendRef{BackendRef: p.BackendRef(b)})
		}
		objs = append(objs, p.GRPCRoute("ns", "gr", 4, par, []string{"grpc.example.com"}, gr))
		for i, t := range [][2]string{{"HTTPRoute", "hr"}, {"GRPCRoute", "gr"}} {
			op := &ngfAPIv2.ObservabilityPolicy{ObjectMeta: p.Meta("ns", "obs-"+t[1], 10+i)}
			op.Spec.TargetRefs = []v1alpha2.LocalPolicyTargetReference{{Group: "gateway.networking.k8s.io", Kind: gatewayv1.Kind(t[0]), Name: gatewayv1.ObjectName(t[1])}}
			op.Spec.Tracing = &ngfAPIv2.Tracing{Strategy: ngfAPIv2.TraceStrategyRatio, Ratio: ptr(int32([]int{25, 100}[i]))}
			objs = append(objs, op)
		}
		mk("telemetry-without-exporter-observability-policy", objs)
	}
	{
		// header modifier values with a backslash in front of `$`: NGINX keeps the backslash and still expands the variable,
		// so the validator must reject them (seeded change C03-r4m2)
		objs, par := base("ns")
		rule := p.HTTPRule([]gatewayv1.HTTPRouteMatch{p.PathMatch("PathPrefix", "/")}, two(1)...)
		rule.Filters = []gatewayv1.HTTPRouteFilter{
			{Type: gatewayv1.HTTPRouteFilterRequestHeaderModifier, RequestHeaderModifier: &gatewayv1.HTTPHeaderFilter{
				Set: []gatewayv1.HTTPHeader{{Name: "X-Set", Value: `a\$b`}}, Add: []gatewayv1.HTTPHeader{{Name: "X-Add", Value: `\$host`}}}},
			{Type: gatewayv1.HTTPRouteFilterResponseHeaderModifier, ResponseHeaderModifier: &gatewayv1.HTTPHeaderFilter{
				Set: []gatewayv1.HTTPHeader{{Name: "X-RSet", Value: `sp \$remote_addr x`}}, Add: []gatewayv1.HTTPHeader{{Name: "X-RAdd", Value: `end\$`}}}},
		}
		objs = append(objs, p.HTTPRoute("ns", "hr", 3, par, nil, rule))
		mk("header-value-backslash-dollar", objs)
	}
	{
		// the same route name in different namespaces, every route with a weighted rule 0 (and rule 1): three BackendGroups
		// per rule index, three split_clients variables (seeded change C15-r4m1: group key without the namespace)
		objs, par := base("ns", "other", "third")
		objs = append(objs, p.HTTPRoute("ns", "twin", 3, par, []string{"one.example.com"},
			p.HTTPRule([]gatewayv1.HTTPRouteMatch{p.PathMatch("PathPrefix", "/")}, two(1, 1)...),
			p.HTTPRule([]gatewayv1.HTTPRouteMatch{p.PathMatch("PathPrefix", "/b")}, two(2, 1, 1)...)))
		objs = append(objs, p.HTTPRoute("other", "twin", 4, par, []string{"two.example.com"},
			p.HTTPRule([]gatewayv1.HTTPRouteMatch{p.PathMatch("PathPrefix", "/")}, two(9, 1)...),
			p.HTTPRule([]gatewayv1.HTTPRouteMatch{p.PathMatch("PathPrefix", "/b")}, two(1, 3)...)))
		gr := gatewayv1.GRPCRouteRule{}
		for _, b := range two(1, 2) {
			gr.BackendRefs = append(gr.BackendRefs, gatewayv1.GRPCBackendRef{BackendRef: p.BackendRef(b)})
		}
		objs = append(objs, p.GRPCRoute("third", "twin", 5, par, []string{"grpc.example.com"}, gr))
		mk("same-route-name-in-three-namespaces-weighted", objs)
	}
	return out
}
