// Package c03 drives the REAL pipeline (graph -> dataplane -> generator) on cluster states that
// stress the loadability of the generated NGINX configuration (property C03): legal-but-unusual
// Kubernetes names, paths with regex metacharacters, several matches per path with attached
// policies, long hostnames on TLS listeners, Plus on/off, IP families.
package c03

import (
	"fmt"
	"strings"

	apiv1 "k8s.io/api/core/v1"
	discoveryV1 "k8s.io/api/discovery/v1"
	"sigs.k8s.io/controller-runtime/pkg/client"
	gatewayv1 "sigs.k8s.io/gateway-api/apis/v1"
	"sigs.k8s.io/gateway-api/apis/v1alpha2"
	"sigs.k8s.io/gateway-api/apis/v1alpha3"

	ngfAPI "github.com/nginx/nginx-gateway-fabric/apis/v1alpha1"
	ngfAPIv2 "github.com/nginx/nginx-gateway-fabric/apis/v1alpha2"
	p "github.com/nginx/nginx-gateway-fabric/verifharness/pipeline"
	"github.com/nginx/nginx-gateway-fabric/verifharness/rng"
	"github.com/nginx/nginx-gateway-fabric/verifharness/scen"
)

func ptr[T any](v T) *T { return &v }

var (
	label63 = "l" + strings.Repeat("o", 61) + "g"                                                 // 63-char DNS label
	name253 = label63 + "." + label63 + "." + label63 + "." + "e" + strings.Repeat("n", 59) + "d" // 253 chars

	nsPool    = []string{"default", "a", "a--b", "ns", "team-a", "x9", "9x", "a-b"}
	routePool = []string{"my.route", "a", "b--c", "c", "a--b", "b", "9lives", "r", "r.v2", "b-c", "x-rule1", label63, name253}
	svcPool   = []string{"svc0", "svc1", "my-svc", "s--x", "s" + strings.Repeat("v", 61) + "c", "b-80"}
	secPool   = []string{"tls-a", "tls.b", "tls--c"}
	polPool   = []string{"pol", "pol.v2", "p--q", "a"}

	// every path here is admissible per the Gateway API CRD (pattern + CEL rules), see admissiblePath
	pathPool = []string{
		"/", "/coffee", "/coffee/", "/tea", "/coffee/latte", "/t",
		"/a(b", "/a)b", "/a(b)", "/(x)*", "/x*", "/x**", "/x+y", "/a+*", "/d.ot", "/s'q", "/dol$lar", "/x$",
		"/~t", "/=eq", "/@at", "/%41", "/co,ma", "/a:b", "/a&b", "/a!b", "/a(b/", "/x*/", "/semi;colon", "/_ngf-internal-rule0-route0",
	}
	hostPool = []string{
		"cafe.example.com", "foo.example.com", "bar.example.com", "*.example.com", "x.foo.example.com",
		label63 + ".example.com", label63 + "." + label63 + ".example.com", "a." + label63 + ".example.com",
	}
	// The Gateway API admits ^[A-Za-z0-9!#$%&'*+\-.^_\x60|~]+$ ; NGF's validator (k8s IsHTTPHeaderName) only [-A-Za-z0-9]+ ,
	// so names with other characters make the rule invalid (negative controls).
	hdrPool = []string{
		"X-Add", "version", "X-u", "x-ADD", "Accept-Encoding", "a", "X-9", "x.dot", "X_u", "h#x", strings.Repeat("H", 200), strings.Repeat("h-", 100) + "x",
	}
	weightFamilies = [][]int32{{1, 1}, {83, 42, 0}, {1, 1, 1, 0}, {0, 0}, {0, 5}, {5, 0}, {1, 2, 3}, {9993, 7, 0}, {1000000, 1}, {1, 1, 1}, {33, 33, 34}}
)

// admissiblePath mirrors the HTTPPathMatch CRD validation of gateway-api v1.2.1 for Exact/PathPrefix:
// pattern ^(?:[-A-Za-z0-9/._~!$&'()*+,;=:@]|[%][0-9a-fA-F]{2})+$, must start with '/', and the CEL
// exclusions (//, /./, /../, %2f, %2F, #, suffix /.. or /.). Max length 1024.
func admissiblePath(s string) bool {
	if len(s) == 0 || len(s) > 1024 || s[0] != '/' {
		return false
	}
	for i := 0; i < len(s); i++ {
		c := s[i]
		switch {
		case c >= 'a' && c <= 'z', c >= 'A' && c <= 'Z', c >= '0' && c <= '9':
		case strings.IndexByte("-/._~!$&'()*+,;=:@", c) >= 0:
		case c == '%':
			if i+2 >= len(s) || !isHex(s[i+1]) || !isHex(s[i+2]) {
				return false
			}
			i += 2
		default:
			return false
		}
	}
	for _, bad := range []string{"//", "/./", "/../", "%2f", "%2F", "#"} {
		if strings.Contains(s, bad) {
			return false
		}
	}
	return !strings.HasSuffix(s, "/..") && !strings.HasSuffix(s, "/.")
}

func isHex(c byte) bool {
	return c >= '0' && c <= '9' || c >= 'a' && c <= 'f' || c >= 'A' && c <= 'F'
}

// Case is one generated cluster state with the controller options.
type Case struct {
	Objs []client.Object
	Plus bool
	Tags map[string]int
}

func (c *Case) tag(t string) { c.Tags[t]++ }

// hdrValue draws the value of a request/response header modifier. Header values are free-form strings for the API
// server (1..4096 characters, no pattern); NGF's validator (validateEscapedStringNoVarExpansion) must reject every value
// in which NGINX would see a variable reference or an unterminated string: a `$` anywhere — also behind a backslash,
// which does not escape `$` for ngx_http_script_compile —, an unescaped `"`, a trailing backslash.
func hdrValue(r *rng.R, c *Case) string {
	if r.Chance(3, 5) {
		return rng.Pick(r, []string{"a", "s", `q\"x`, `a \" b`, "semi;colon", "{b}", `back\\slash`, `tab\tx`})
	}
	c.tag("header-value-with-dollar-or-open-quote")
	return rng.Pick(r, []string{`a\$b`, `\$host`, `x\\$y`, `q\"$z`, `end\$`, `$plain`, `a${b}c`, `\\\$w`, `open"quote`, `trailing\`, `sp \$remote_addr x`})
}

// randomPath builds an admissible path from metacharacter-rich segments.
func randomPath(r *rng.R) string {
	alphabet := []string{"a", "b", "x", "(", ")", "*", "+", ".", "$", "'", "~", "=", "@", ",", ":", "&", "!", "-", "_", "%41", "9"}
	for try := 0; try < 20; try++ {
		n := r.Range(1, 3)
		var sb strings.Builder
		for i := 0; i < n; i++ {
			sb.WriteString("/")
			m := r.Range(1, 4)
			for j := 0; j < m; j++ {
				sb.WriteString(rng.Pick(r, alphabet))
			}
		}
		if r.Chance(1, 5) {
			sb.WriteString("/")
		}
		if admissiblePath(sb.String()) {
			return sb.String()
		}
	}
	return "/fallback"
}

// Generate draws one C03 scenario. mode 0 = the shared generator (scen), otherwise the emphasis generator.
func Generate(r *rng.R, mode int) *Case {
	if mode == 0 {
		s := scen.Generate(r, scen.DefaultConfig())
		c := &Case{Objs: s.Objs, Plus: r.Chance(1, 4), Tags: s.Tags}
		c.tag("gen-scen")
		sanitize(c)
		return c
	}
	c := &Case{Tags: map[string]int{}, Plus: r.Chance(1, 3)}
	c.tag("gen-emphasis")
	if c.Plus {
		c.tag("plus")
	}
	age := 0
	next := func() int { age++; return age }

	// a few namespaces (small, so that names collide across them)
	nss := []string{rng.Pick(r, nsPool)}
	for len(nss) < 3 {
		n := rng.Pick(r, nsPool)
		dup := false
		for _, m := range nss {
			dup = dup || m == n
		}
		if !dup {
			nss = append(nss, n)
		}
	}
	if r.Chance(1, 3) { // the collision pair of DESIGN §7 row 11
		nss = []string{"a", "a--b", rng.Pick(r, nsPool[3:])}
		c.tag("ns-collision-pair")
	}
	for _, ns := range nss {
		c.Objs = append(c.Objs, p.Namespace(ns, map[string]string{"kubernetes.io/metadata.name": ns}))
	}

	// GatewayClass (+ NginxProxy)
	gc := p.GatewayClass(p.DefaultClass, p.DefaultController, next())
	telemetry := false           // an exporter is configured: the otel module is loaded
	telemetryNoExporter := false // spec.telemetry present without exporter
	if r.Chance(2, 3) {
		np := &ngfAPI.NginxProxy{ObjectMeta: p.Meta("", "np", next())}
		switch r.Intn(4) {
		case 0:
			np.Spec.IPFamily = ptr(ngfAPI.IPv4)
			c.tag("ipv4")
		case 1:
			np.Spec.IPFamily = ptr(ngfAPI.IPv6)
			c.tag("ipv6")
		case 2:
			np.Spec.IPFamily = ptr(ngfAPI.Dual)
			c.tag("dual")
		}
		// telemetry shapes: absent / exporter (with or without interval+batch) / present WITHOUT exporter (every field of
		// spec.telemetry is optional: empty, or only serviceName / spanAttributes). Only an exporter loads ngx_otel_module.
		switch r.Intn(6) {
		case 0, 1, 2:
			telemetry = true
			c.tag("telemetry")
			np.Spec.Telemetry = &ngfAPI.Telemetry{Exporter: &ngfAPI.TelemetryExporter{
				Endpoint: rng.Pick(r, []string{"otel-collector:4317", "http://otel.example.com:4317", "c"}),
			}}
			if r.Bool() {
				np.Spec.Telemetry.Exporter.Interval = ptr(ngfAPI.Duration("5s"))
				np.Spec.Telemetry.Exporter.BatchSize = ptr(int32(512))
				np.Spec.Telemetry.Exporter.BatchCount = ptr(int32(4))
				c.tag("telemetry-exporter-interval-batch")
			}
		case 3, 4:
			np.Spec.Telemetry = &ngfAPI.Telemetry{}
			telemetryNoExporter = true
			c.tag("telemetry-without-exporter")
		}
		if np.Spec.Telemetry != nil {
			if r.Bool() {
				np.Spec.Telemetry.ServiceName = ptr(rng.Pick(r, []string{"my-svc", "S_1", "a"}))
			}
			if r.Bool() {
				np.Spec.Telemetry.SpanAttributes = []ngfAPI.SpanAttribute{{Key: "k 1", Value: `v \" q`}, {Key: "k2", Value: "semi;colon {x}"}}
			}
		}
		if r.Chance(1, 3) {
			mode := rng.Pick(r, []ngfAPI.RewriteClientIPModeType{ngfAPI.RewriteClientIPModeProxyProtocol, ngfAPI.RewriteClientIPModeXForwardedFor})
			np.Spec.RewriteClientIP = &ngfAPI.RewriteClientIP{
				Mode:             ptr(mode),
				SetIPRecursively: ptr(r.Bool()),
				TrustedAddresses: []ngfAPI.Address{{Type: ngfAPI.CIDRAddressType, Value: "10.0.0.0/8"}, {Type: ngfAPI.IPAddressType, Value: "2001:db8::1"}},
			}
			c.tag("rewrite-client-ip-" + string(mode))
		}
		if r.Chance(1, 4) {
			np.Spec.DisableHTTP2 = true
		}
		if r.Chance(1, 3) {
			np.Spec.Logging = &ngfAPI.NginxLogging{ErrorLevel: ptr(rng.Pick(r, []ngfAPI.NginxErrorLogLevel{"debug", "warn", "emerg"}))}
		}
		gc.Spec.ParametersRef = &gatewayv1.ParametersReference{Group: "gateway.nginx.org", Kind: "NginxProxy", Name: "np"}
		c.Objs = append(c.Objs, np)
	}
	c.Objs = append(c.Objs, gc)

	// secrets
	for _, ns := range nss {
		for i, s := range secPool {
			c.Objs = append(c.Objs, p.TLSSecret(ns, s, i+len(ns)))
		}
	}

	// gateway with listeners
	gwNS := nss[0]
	type lst struct {
		p.Listener
	}
	var ls []p.Listener
	addL := func(l p.Listener) {
		l.Name = fmt.Sprintf("l%d", len(ls))
		l.FromNS = "All"
		ls = append(ls, l)
	}
	addL(p.Listener{Port: 80, Protocol: "HTTP"})
	if r.Chance(2, 3) {
		addL(p.Listener{Port: 80, Protocol: "HTTP", Hostname: rng.Pick(r, hostPool)})
	}
	if r.Chance(3, 4) {
		sec := rng.Pick(r, secPool)
		addL(p.Listener{Port: 443, Protocol: "HTTPS", Hostname: rng.Pick(r, append([]string{""}, hostPool...)), CertRefs: []string{sec}})
		c.tag("https-listener")
	}
	tlsPassthrough := r.Chance(1, 2)
	tlsHost := ""
	if tlsPassthrough {
		port := rng.Pick(r, []int32{443, 8443})
		tlsHost = rng.Pick(r, []string{"", "*.example.com", "*.example.com", "*.tls.org", "*.tls.org", "app.tls.org"})
		addL(p.Listener{Port: port, Protocol: "TLS", Hostname: tlsHost})
		c.tag("tls-listener")
		if port == 443 {
			c.tag("tls-listener-on-443")
			// the HTTPS servers of a port shared with a TLS listener listen on a unix socket: per IP family
			if c.Tags["https-listener"] > 0 {
				fam := "dual"
				for _, f := range []string{"ipv4", "ipv6"} {
					if c.Tags[f] > 0 {
						fam = f
					}
				}
				c.tag("https-tls-share-port-" + fam)
			}
		}
	}
	gwName := rng.Pick(r, []string{"gw", "gw.v1", "g--w"})
	c.Objs = append(c.Objs, p.Gateway(gwNS, gwName, p.DefaultClass, next(), ls...))
	parents := []gatewayv1.ParentReference{p.ParentRef(gwNS, gwName, "")}

	// services (created lazily for every referenced backend)
	haveSvc := map[string]bool{}
	var svcKeys []string // in creation order (map iteration order must not leak into the scenario)
	ensureSvc := func(ns, name string) {
		if haveSvc[ns+"/"+name] {
			return
		}
		haveSvc[ns+"/"+name] = true
		svcKeys = append(svcKeys, ns+"/"+name)
		c.Objs = append(c.Objs, p.Service(ns, name, 80))
		if r.Chance(3, 4) {
			c.Objs = append(c.Objs, p.EndpointSlice(ns, name, "s0", []int32{80}, fmt.Sprintf("10.0.%d.%d", len(haveSvc)%200, r.Range(1, 9))))
		}
	}
	backends := func(ns string) []p.Backend {
		var ws []int32
		switch r.Intn(5) {
		case 0:
			ws = []int32{-1}
		case 1:
			ws = []int32{int32(rng.Pick(r, []int{0, 1, 7}))}
		default:
			ws = rng.Pick(r, weightFamilies)
			c.tag("weighted-backends")
		}
		var bs []p.Backend
		for _, w := range ws {
			s := rng.Pick(r, svcPool)
			ensureSvc(ns, s)
			bs = append(bs, p.Backend{Ref: s, Port: 80, Weight: w})
		}
		if r.Chance(1, 12) {
			bs[0].Ref = "no-such-svc"
		}
		return bs
	}
	routeHostnames := func() []string {
		var hs []string
		n := r.Intn(3)
		for i := 0; i < n; i++ {
			hs = append(hs, rng.Pick(r, hostPool[:7]))
		}
		return hs
	}
	pickPath := func() string {
		if r.Chance(1, 4) {
			c.tag("random-path")
			return randomPath(r)
		}
		return rng.Pick(r, pathPool)
	}

	type routeRef struct{ kind, ns, name string }
	var routes []routeRef
	used := map[string]bool{}

	// HTTPRoutes
	nh := r.Range(1, 4)
	for i := 0; i < nh; i++ {
		ns := rng.Pick(r, nss)
		name := rng.Pick(r, routePool)
		if c.Tags["ns-collision-pair"] > 0 && i < 2 {
			// a--b/c and a/b--c
			if i == 0 {
				ns, name = "a--b", "c"
			} else {
				ns, name = "a", "b--c"
			}
		}
		if used["H/"+ns+"/"+name] {
			continue
		}
		used["H/"+ns+"/"+name] = true
		if strings.Contains(name, ".") {
			c.tag("route-name-with-dot")
		}
		if len(name) >= 63 {
			c.tag("route-name-long")
		}
		var rules []gatewayv1.HTTPRouteRule
		nr := r.Range(1, 3)
		for j := 0; j < nr; j++ {
			path := pickPath()
			ptype := rng.Pick(r, []string{"Exact", "PathPrefix", "PathPrefix"})
			var ms []gatewayv1.HTTPRouteMatch
			filterKind := r.Intn(8) // 0 rewrite-prefix 1 redirect-prefix 2 rewrite-full 3 redirect-full 4 reqhdr 5 resphdr 6,7 none
			if filterKind <= 1 {
				// CEL: replacePrefixMatch needs exactly one PathPrefix match
				ms = []gatewayv1.HTTPRouteMatch{p.PathMatch("PathPrefix", path)}
			} else {
				nm := r.Range(1, 3)
				for k := 0; k < nm; k++ {
					m := p.PathMatch(ptype, path)
					if k > 0 && r.Chance(1, 3) {
						m = p.PathMatch(rng.Pick(r, []string{"Exact", "PathPrefix"}), pickPath())
					}
					if k > 0 || r.Chance(1, 3) {
						switch r.Intn(3) {
						case 0:
							m.Method = ptr(gatewayv1.HTTPMethod(rng.Pick(r, []string{"GET", "POST"})))
						case 1:
							hn := rng.Pick(r, hdrPool[:10])
							if !strings.Contains(hn, "$") {
								m.Headers = []gatewayv1.HTTPHeaderMatch{{Type: ptr(gatewayv1.HeaderMatchExact), Name: gatewayv1.HTTPHeaderName(hn), Value: rng.Pick(r, []string{"v1", `q"uote`, "sp ace", `b\s`})}}
							}
						default:
							m.QueryParams = []gatewayv1.HTTPQueryParamMatch{{Type: ptr(gatewayv1.QueryParamMatchExact), Name: gatewayv1.HTTPHeaderName(rng.Pick(r, []string{"q", "a b", `k"`})), Value: rng.Pick(r, []string{"1", "x;y", "{z}"})}}
						}
					}
					ms = append(ms, m)
				}
				if nm >= 2 {
					c.tag("multi-match-rule")
				}
			}
			rule := p.HTTPRule(ms, backends(ns)...)
			switch filterKind {
			case 0:
				rule.Filters = []gatewayv1.HTTPRouteFilter{{Type: gatewayv1.HTTPRouteFilterURLRewrite, URLRewrite: &gatewayv1.HTTPURLRewriteFilter{
					Path: &gatewayv1.HTTPPathModifier{Type: gatewayv1.PrefixMatchHTTPPathModifier, ReplacePrefixMatch: ptr(rng.Pick(r, []string{"/", "/v2", "/x/", "/r(e"}))},
				}}}
				c.tag("filter-rewrite-prefix")
			case 1:
				rule.Filters = []gatewayv1.HTTPRouteFilter{{Type: gatewayv1.HTTPRouteFilterRequestRedirect, RequestRedirect: &gatewayv1.HTTPRequestRedirectFilter{
					Path: &gatewayv1.HTTPPathModifier{Type: gatewayv1.PrefixMatchHTTPPathModifier, ReplacePrefixMatch: ptr(rng.Pick(r, []string{"/", "/v2", "/x/"}))},
				}}}
				rule.BackendRefs = nil
				c.tag("filter-redirect-prefix")
			case 2:
				rule.Filters = []gatewayv1.HTTPRouteFilter{{Type: gatewayv1.HTTPRouteFilterURLRewrite, URLRewrite: &gatewayv1.HTTPURLRewriteFilter{
					Hostname: ptr(gatewayv1.PreciseHostname("rewritten.example.com")),
					Path:     &gatewayv1.HTTPPathModifier{Type: gatewayv1.FullPathHTTPPathModifier, ReplaceFullPath: ptr(rng.Pick(r, []string{"/full", "/f(u*ll", "/"}))},
				}}}
				c.tag("filter-rewrite-full")
			case 3:
				rf := &gatewayv1.HTTPRequestRedirectFilter{
					Scheme: ptr(rng.Pick(r, []string{"http", "https"})), StatusCode: ptr(rng.Pick(r, []int{301, 302})),
				}
				if r.Bool() {
					rf.Hostname = ptr(gatewayv1.PreciseHostname("redirect.example.com"))
				}
				if r.Bool() {
					rf.Port = ptr(gatewayv1.PortNumber(rng.Pick(r, []int32{80, 443, 8080})))
				}
				if r.Bool() {
					rf.Path = &gatewayv1.HTTPPathModifier{Type: gatewayv1.FullPathHTTPPathModifier, ReplaceFullPath: ptr("/moved")}
				}
				rule.Filters = []gatewayv1.HTTPRouteFilter{{Type: gatewayv1.HTTPRouteFilterRequestRedirect, RequestRedirect: rf}}
				rule.BackendRefs = nil
				c.tag("filter-redirect")
			case 4:
				h1, h2 := rng.Pick(r, hdrPool), rng.Pick(r, hdrPool)
				hf := &gatewayv1.HTTPHeaderFilter{
					Add: []gatewayv1.HTTPHeader{{Name: gatewayv1.HTTPHeaderName(h1), Value: hdrValue(r, c)}},
				}
				if !strings.EqualFold(h1, h2) {
					hf.Set = []gatewayv1.HTTPHeader{{Name: gatewayv1.HTTPHeaderName(h2), Value: hdrValue(r, c)}}
				}
				if r.Bool() {
					hf.Remove = []string{"X-Gone"}
				}
				rule.Filters = []gatewayv1.HTTPRouteFilter{{Type: gatewayv1.HTTPRouteFilterRequestHeaderModifier, RequestHeaderModifier: hf}}
				c.tag("filter-reqheader")
				if strings.Trim(h1, "abcdefghijklmnopqrstuvwxyzABCDEFGHIJKLMNOPQRSTUVWXYZ0123456789-") != "" {
					c.tag("header-name-rejected-by-validator")
				}
			case 5:
				h1 := rng.Pick(r, hdrPool)
				rule.Filters = []gatewayv1.HTTPRouteFilter{{Type: gatewayv1.HTTPRouteFilterResponseHeaderModifier, ResponseHeaderModifier: &gatewayv1.HTTPHeaderFilter{
					Set:    []gatewayv1.HTTPHeader{{Name: gatewayv1.HTTPHeaderName(h1), Value: hdrValue(r, c)}},
					Add:    []gatewayv1.HTTPHeader{{Name: "X-RAdd", Value: hdrValue(r, c)}},
					Remove: []string{rng.Pick(r, hdrPool)},
				}}}
				c.tag("filter-respheader")
			}
			rules = append(rules, rule)
		}
		c.Objs = append(c.Objs, p.HTTPRoute(ns, name, next(), parents, routeHostnames(), rules...))
		routes = append(routes, routeRef{"HTTPRoute", ns, name})
	}

	// GRPCRoutes (sometimes with the same ns/name as an HTTPRoute)
	ng := r.Intn(3)
	for i := 0; i < ng; i++ {
		ns, name := rng.Pick(r, nss), rng.Pick(r, routePool)
		if len(routes) > 0 && r.Chance(1, 2) {
			ns, name = routes[0].ns, routes[0].name
			c.tag("grpc-same-name-as-http")
		}
		if used["G/"+ns+"/"+name] {
			continue
		}
		used["G/"+ns+"/"+name] = true
		var rules []gatewayv1.GRPCRouteRule
		for j := 0; j < r.Range(1, 2); j++ {
			rule := gatewayv1.GRPCRouteRule{}
			for k := 0; k < r.Intn(3); k++ {
				m := gatewayv1.GRPCRouteMatch{Method: &gatewayv1.GRPCMethodMatch{
					Type: ptr(gatewayv1.GRPCMethodMatchExact), Service: ptr(rng.Pick(r, []string{"helloworld.Greeter", "svc.A", "_s.B_1"})),
					Method: ptr(rng.Pick(r, []string{"SayHello", "Do"})),
				}}
				if r.Chance(1, 3) {
					m.Headers = []gatewayv1.GRPCHeaderMatch{{Type: ptr(gatewayv1.GRPCHeaderMatchExact), Name: "version", Value: "v1"}}
				}
				rule.Matches = append(rule.Matches, m)
			}
			for _, b := range backends(ns) {
				rule.BackendRefs = append(rule.BackendRefs, gatewayv1.GRPCBackendRef{BackendRef: p.BackendRef(b)})
			}
			if r.Chance(1, 3) { // header modifiers of a GRPCRoute go through the same value validator
				hf := &gatewayv1.HTTPHeaderFilter{Set: []gatewayv1.HTTPHeader{{Name: "X-Grpc-Set", Value: hdrValue(r, c)}},
					Add: []gatewayv1.HTTPHeader{{Name: "X-Grpc-Add", Value: hdrValue(r, c)}}}
				if r.Bool() {
					rule.Filters = []gatewayv1.GRPCRouteFilter{{Type: gatewayv1.GRPCRouteFilterRequestHeaderModifier, RequestHeaderModifier: hf}}
				} else {
					rule.Filters = []gatewayv1.GRPCRouteFilter{{Type: gatewayv1.GRPCRouteFilterResponseHeaderModifier, ResponseHeaderModifier: hf}}
				}
				c.tag("grpc-header-modifier")
			}
			rules = append(rules, rule)
		}
		c.Objs = append(c.Objs, p.GRPCRoute(ns, name, next(), parents, routeHostnames(), rules...))
		routes = append(routes, routeRef{"GRPCRoute", ns, name})
		c.tag("grpcroute")
	}

	// TLSRoutes with (possibly long) hostnames
	if tlsPassthrough {
		nt := r.Range(1, 2)
		for i := 0; i < nt; i++ {
			ns := rng.Pick(r, nss)
			s := rng.Pick(r, svcPool)
			// endpoint shapes of the passthrough backend: ready / no slice at all (ensureSvc), or slices that match the
			// port but hold only not-ready or terminating endpoints (the resolver returns an EMPTY list without error),
			// or slices of another port only
			switch shape := r.Intn(6); shape {
			case 3, 4, 5:
				s = []string{"tlsbe-notready", "tlsbe-terminating", "tlsbe-otherport"}[shape-3]
				if !haveSvc[ns+"/"+s] {
					haveSvc[ns+"/"+s] = true
					c.Objs = append(c.Objs, p.Service(ns, s, 80))
					es := p.EndpointSlice(ns, s, "s0", []int32{80}, "10.9.0.1", "10.9.0.2")
					switch shape {
					case 3:
						for k := range es.Endpoints {
							es.Endpoints[k].Conditions.Ready = ptr(false)
						}
					case 4:
						for k := range es.Endpoints {
							es.Endpoints[k].Conditions = discoveryV1.EndpointConditions{Ready: ptr(false), Serving: ptr(true), Terminating: ptr(true)}
						}
					case 5:
						es = p.EndpointSlice(ns, s, "s0", []int32{81}, "10.9.0.3")
					}
					c.Objs = append(c.Objs, es)
				}
				c.tag("tlsroute-backend-" + s[len("tlsbe-"):])
			default:
				ensureSvc(ns, s)
			}
			h := rng.Pick(r, hostPool)
			if strings.HasPrefix(h, "*") {
				h = "cafe.example.com"
			}
			if strings.HasSuffix(tlsHost, "tls.org") {
				h = rng.Pick(r, []string{"app.tls.org", "app.tls.org", label63 + "." + label63 + ".tls.org"})
			}
			if len(h) > 70 {
				c.tag("tlsroute-long-hostname")
			}
			c.Objs = append(c.Objs, p.TLSRoute(ns, fmt.Sprintf("tr%d", i), next(), parents, []string{h}, p.Backend{Ref: s, Port: 80, Weight: -1}))
			c.tag("tlsroute")
		}
	}

	// twins: routes with the SAME name in DIFFERENT namespaces (2, sometimes 3; HTTPRoutes and GRPCRoutes mixed), every one
	// with weighted rules (>= 2 backends) at the same rule indexes. Each needs its own BackendGroup / split_clients
	// variable $group_<ns>__<name>_rule<i>. (Same name AND namespace across kinds is the known finding
	// backend-group-key-shared-by-route-kinds: not produced here.)
	if len(nss) >= 2 && r.Chance(1, 4) {
		name := rng.Pick(r, []string{"twin", "shop", "api-v1"})
		members := 2
		if len(nss) >= 3 && r.Chance(1, 2) {
			members = 3
		}
		nrules := r.Range(1, 2)
		made := 0
		for mi := 0; mi < members; mi++ {
			ns := nss[mi]
			grpc := r.Chance(1, 3)
			key := map[bool]string{false: "H/", true: "G/"}[grpc] + ns + "/" + name
			if used["H/"+ns+"/"+name] || used["G/"+ns+"/"+name] {
				continue
			}
			used[key] = true
			weighted := func(j int) []p.Backend {
				var bs []p.Backend
				for k, w := range [][]int32{{1, 1}, {2, 1, 1}, {83, 42}, {1, 0, 3}}[(mi+j)%4] {
					s := svcPool[k%len(svcPool)]
					ensureSvc(ns, s)
					bs = append(bs, p.Backend{Ref: s, Port: 80, Weight: w})
				}
				return bs
			}
			host := []string{fmt.Sprintf("twin%d.example.com", mi)}
			if grpc {
				var rules []gatewayv1.GRPCRouteRule
				for j := 0; j < nrules; j++ {
					rule := gatewayv1.GRPCRouteRule{Matches: []gatewayv1.GRPCRouteMatch{{Method: &gatewayv1.GRPCMethodMatch{
						Type: ptr(gatewayv1.GRPCMethodMatchExact), Service: ptr("twin.Svc"), Method: ptr(fmt.Sprintf("M%d", j))}}}}
					for _, b := range weighted(j) {
						rule.BackendRefs = append(rule.BackendRefs, gatewayv1.GRPCBackendRef{BackendRef: p.BackendRef(b)})
					}
					rules = append(rules, rule)
				}
				c.Objs = append(c.Objs, p.GRPCRoute(ns, name, next(), parents, host, rules...))
				routes = append(routes, routeRef{"GRPCRoute", ns, name})
			} else {
				var rules []gatewayv1.HTTPRouteRule
				for j := 0; j < nrules; j++ {
					rules = append(rules, p.HTTPRule([]gatewayv1.HTTPRouteMatch{p.PathMatch("PathPrefix", fmt.Sprintf("/twin%d", j))}, weighted(j)...))
				}
				c.Objs = append(c.Objs, p.HTTPRoute(ns, name, next(), parents, host, rules...))
				routes = append(routes, routeRef{"HTTPRoute", ns, name})
			}
			made++
		}
		if made >= 2 {
			c.tag(fmt.Sprintf("same-route-name-in-%d-namespaces-weighted", made))
		}
	}

	// policies
	if len(routes) > 0 && r.Chance(2, 3) {
		t := rng.Pick(r, routes)
		csp := &ngfAPI.ClientSettingsPolicy{ObjectMeta: p.Meta(t.ns, rng.Pick(r, polPool), next())}
		csp.Spec.TargetRef = v1alpha2.LocalPolicyTargetReference{Group: "gateway.networking.k8s.io", Kind: gatewayv1.Kind(t.kind), Name: gatewayv1.ObjectName(t.name)}
		csp.Spec.Body = &ngfAPI.ClientBody{MaxSize: ptr(ngfAPI.Size(rng.Pick(r, []string{"10m", "0", "9999g"})))}
		if r.Bool() {
			csp.Spec.Body.Timeout = ptr(ngfAPI.Duration("30s"))
		}
		if r.Bool() {
			csp.Spec.KeepAlive = &ngfAPI.ClientKeepAlive{Requests: ptr(int32(100)), Time: ptr(ngfAPI.Duration("1h")),
				Timeout: &ngfAPI.ClientKeepAliveTimeout{Server: ptr(ngfAPI.Duration("75s")), Header: ptr(ngfAPI.Duration("20s"))}}
		}
		// a policy that sets nothing (body and keepAlive are optional): valid, its include file renders no directive.
		// Chosen without drawing from r, so that the rest of the scenario stream is unchanged.
		if (len(c.Objs)+len(routes))%5 == 0 {
			csp.Spec.Body, csp.Spec.KeepAlive = nil, nil
			c.tag("csp-empty-spec")
		}
		c.Objs = append(c.Objs, csp)
		c.tag("csp-on-route")
	}
	if r.Chance(1, 3) {
		csp := &ngfAPI.ClientSettingsPolicy{ObjectMeta: p.Meta(gwNS, "gw-csp", next())}
		csp.Spec.TargetRef = v1alpha2.LocalPolicyTargetReference{Group: "gateway.networking.k8s.io", Kind: "Gateway", Name: gatewayv1.ObjectName(gwName)}
		csp.Spec.Body = &ngfAPI.ClientBody{MaxSize: ptr(ngfAPI.Size("1m"))}
		c.Objs = append(c.Objs, csp)
		c.tag("csp-on-gateway")
	}
	// ObservabilityPolicies on routes: mostly with an exporter, but also without one / without telemetry at all (then the
	// policy must NOT be accepted: nothing loads the otel module or defines $otel_ratio_N)
	if (telemetry && r.Chance(3, 4) || telemetryNoExporter && r.Chance(4, 5) || !telemetry && !telemetryNoExporter && r.Chance(1, 6)) && len(routes) > 0 {
		t := rng.Pick(r, routes)
		if !telemetry {
			c.tag("observability-policy-without-exporter-on-" + strings.ToLower(t.kind))
		}
		op := &ngfAPIv2.ObservabilityPolicy{ObjectMeta: p.Meta(t.ns, rng.Pick(r, polPool), next())}
		op.Spec.TargetRefs = []v1alpha2.LocalPolicyTargetReference{{Group: "gateway.networking.k8s.io", Kind: gatewayv1.Kind(t.kind), Name: gatewayv1.ObjectName(t.name)}}
		tr := &ngfAPIv2.Tracing{Strategy: rng.Pick(r, []ngfAPIv2.TraceStrategy{ngfAPIv2.TraceStrategyRatio, ngfAPIv2.TraceStrategyParent})}
		if tr.Strategy == ngfAPIv2.TraceStrategyRatio && r.Chance(2, 3) {
			tr.Ratio = ptr(int32(rng.Pick(r, []int{0, 1, 25, 100})))
			c.tag(fmt.Sprintf("observability-ratio-%d", *tr.Ratio))
		}
		if r.Bool() {
			tr.Context = ptr(rng.Pick(r, []ngfAPIv2.TraceContext{"extract", "inject", "propagate", "ignore"}))
		}
		if r.Bool() {
			tr.SpanName = ptr(rng.Pick(r, []string{"my-span", `sp \" n`, "a b"}))
		}
		if r.Bool() {
			tr.SpanAttributes = []ngfAPI.SpanAttribute{{Key: "attr", Value: "val ue"}}
		}
		op.Spec.Tracing = tr
		c.Objs = append(c.Objs, op)
		c.tag("observability-policy")
	}
	// policy pairs/triples with DISJOINT fields in one section and an OVERLAPPING field in the other (conflict detection must
	// look at both sections): body disjoint + keepAlive overlapping, keepAlive disjoint + body overlapping, keepAlive.timeout
	// sub-fields (server / server+header), a third policy that overlaps only in keepAlive
	if r.Chance(1, 4) {
		kind, tns, tname := "Gateway", gwNS, gwName
		if len(routes) > 0 && r.Chance(2, 3) {
			t := rng.Pick(r, routes)
			kind, tns, tname = t.kind, t.ns, t.name
		}
		dur := func(s string) *ngfAPI.Duration { return ptr(ngfAPI.Duration(s)) }
		shapes := [][]ngfAPI.ClientSettingsPolicySpec{
			{{Body: &ngfAPI.ClientBody{MaxSize: ptr(ngfAPI.Size("1m"))}, KeepAlive: &ngfAPI.ClientKeepAlive{Requests: ptr(int32(100))}},
				{Body: &ngfAPI.ClientBody{Timeout: dur("30s")}, KeepAlive: &ngfAPI.ClientKeepAlive{Requests: ptr(int32(200))}}},
			{{Body: &ngfAPI.ClientBody{Timeout: dur("10s")}, KeepAlive: &ngfAPI.ClientKeepAlive{Time: dur("1h")}},
				{Body: &ngfAPI.ClientBody{MaxSize: ptr(ngfAPI.Size("2m"))}, KeepAlive: &ngfAPI.ClientKeepAlive{Time: dur("2h")}}},
			{{Body: &ngfAPI.ClientBody{MaxSize: ptr(ngfAPI.Size("1m"))}, KeepAlive: &ngfAPI.ClientKeepAlive{Timeout: &ngfAPI.ClientKeepAliveTimeout{Server: dur("75s")}}},
				{Body: &ngfAPI.ClientBody{Timeout: dur("30s")}, KeepAlive: &ngfAPI.ClientKeepAlive{Timeout: &ngfAPI.ClientKeepAliveTimeout{Server: dur("60s"), Header: dur("20s")}}}},
			{{Body: &ngfAPI.ClientBody{MaxSize: ptr(ngfAPI.Size("1m"))}, KeepAlive: &ngfAPI.ClientKeepAlive{Time: dur("1h")}},
				{Body: &ngfAPI.ClientBody{MaxSize: ptr(ngfAPI.Size("2m"))}, KeepAlive: &ngfAPI.ClientKeepAlive{Requests: ptr(int32(7))}}},
			{{Body: &ngfAPI.ClientBody{MaxSize: ptr(ngfAPI.Size("1m"))}}, {KeepAlive: &ngfAPI.ClientKeepAlive{Time: dur("1h")}},
				{Body: &ngfAPI.ClientBody{Timeout: dur("5s")}, KeepAlive: &ngfAPI.ClientKeepAlive{Time: dur("3h")}}},
		}
		si := r.Intn(len(shapes))
		for i, sp := range shapes[si] {
			csp := &ngfAPI.ClientSettingsPolicy{ObjectMeta: p.Meta(tns, fmt.Sprintf("shape%d-%d", si, i), next())}
			csp.Spec = sp
			csp.Spec.TargetRef = v1alpha2.LocalPolicyTargetReference{Group: "gateway.networking.k8s.io", Kind: gatewayv1.Kind(kind), Name: gatewayv1.ObjectName(tname)}
			c.Objs = append(c.Objs, csp)
		}
		c.tag(fmt.Sprintf("csp-shape-%d-on-%s", si, strings.ToLower(kind)))
	}
	// policy piles: 3-5 policies of ONE kind on ONE target with overlapping fields. Conflict resolution must leave
	// at most one policy per single-valued directive in every scope (server for gateway targets, location for routes).
	if r.Chance(2, 5) {
		kind, tns, tname := "Gateway", gwNS, gwName
		if len(routes) > 0 && r.Chance(2, 3) {
			t := rng.Pick(r, routes)
			kind, tns, tname = t.kind, t.ns, t.name
		}
		n := r.Range(3, 5)
		for i := 0; i < n; i++ {
			csp := &ngfAPI.ClientSettingsPolicy{ObjectMeta: p.Meta(tns, fmt.Sprintf("pile-%d", i), next())}
			csp.Spec.TargetRef = v1alpha2.LocalPolicyTargetReference{Group: "gateway.networking.k8s.io", Kind: gatewayv1.Kind(kind), Name: gatewayv1.ObjectName(tname)}
			if r.Chance(2, 3) {
				csp.Spec.Body = &ngfAPI.ClientBody{MaxSize: ptr(ngfAPI.Size(fmt.Sprintf("%dm", i+1)))}
				if r.Chance(1, 3) {
					csp.Spec.Body.Timeout = ptr(ngfAPI.Duration("30s"))
				}
			}
			if csp.Spec.Body == nil || r.Chance(1, 3) {
				ka := &ngfAPI.ClientKeepAlive{}
				switch r.Intn(3) {
				case 0:
					ka.Requests = ptr(int32(100 + i))
				case 1:
					ka.Time = ptr(ngfAPI.Duration("1h"))
				default:
					ka.Timeout = &ngfAPI.ClientKeepAliveTimeout{Server: ptr(ngfAPI.Duration("75s"))}
				}
				csp.Spec.KeepAlive = ka
			}
			c.Objs = append(c.Objs, csp)
		}
		c.tag("csp-pile-on-" + strings.ToLower(kind))
	}
	if telemetry && len(routes) > 0 && r.Chance(1, 3) {
		t := rng.Pick(r, routes)
		for i := 0; i < r.Range(3, 4); i++ {
			op := &ngfAPIv2.ObservabilityPolicy{ObjectMeta: p.Meta(t.ns, fmt.Sprintf("obs-pile-%d", i), next())}
			op.Spec.TargetRefs = []v1alpha2.LocalPolicyTargetReference{{Group: "gateway.networking.k8s.io", Kind: gatewayv1.Kind(t.kind), Name: gatewayv1.ObjectName(t.name)}}
			op.Spec.Tracing = &ngfAPIv2.Tracing{Strategy: ngfAPIv2.TraceStrategyRatio, Ratio: ptr(int32(10 * (i + 1))), SpanName: ptr(fmt.Sprintf("span-%d", i))}
			c.Objs = append(c.Objs, op)
		}
		c.tag("observability-pile")
	}
	if len(haveSvc) > 0 && r.Chance(1, 3) {
		for _, k := range []string{rng.Pick(r, svcKeys)} {
			ns, name, _ := strings.Cut(k, "/")
			usp := &ngfAPI.UpstreamSettingsPolicy{ObjectMeta: p.Meta(ns, "usp", next())}
			usp.Spec.TargetRefs = []v1alpha2.LocalPolicyTargetReference{{Group: "core", Kind: "Service", Name: gatewayv1.ObjectName(name)}}
			usp.Spec.ZoneSize = ptr(ngfAPI.Size("2m"))
			if r.Bool() {
				usp.Spec.KeepAlive = &ngfAPI.UpstreamKeepAlive{Connections: ptr(int32(8)), Requests: ptr(int32(10)), Time: ptr(ngfAPI.Duration("1m")), Timeout: ptr(ngfAPI.Duration("30s"))}
			}
			c.Objs = append(c.Objs, usp)
			c.tag("upstream-settings-policy")
			break
		}
	}
	if len(haveSvc) > 0 && r.Chance(1, 4) {
		for _, k := range []string{rng.Pick(r, svcKeys)} {
			ns, name, _ := strings.Cut(k, "/")
			cert, _ := p.CertPair(7)
			cmName := rng.Pick(r, []string{"ca-bundle", "ca.bundle", "c--a"})
			cm := &apiv1.ConfigMap{ObjectMeta: p.Meta(ns, cmName, 0), Data: map[string]string{"ca.crt": string(cert)}}
			btp := &v1alpha3.BackendTLSPolicy{ObjectMeta: p.Meta(ns, "btp", next())}
			btp.Spec.TargetRefs = []v1alpha2.LocalPolicyTargetReferenceWithSectionName{{
				LocalPolicyTargetReference: v1alpha2.LocalPolicyTargetReference{Kind: "Service", Name: gatewayv1.ObjectName(name)},
			}}
			btp.Spec.Validation.Hostname = "backend.example.com"
			if r.Bool() {
				btp.Spec.Validation.CACertificateRefs = []gatewayv1.LocalObjectReference{{Kind: "ConfigMap", Name: gatewayv1.ObjectName(cmName)}}
			} else {
				btp.Spec.Validation.WellKnownCACertificates = ptr(v1alpha3.WellKnownCACertificatesSystem)
			}
			c.Objs = append(c.Objs, cm, btp)
			c.tag("backend-tls-policy")
			break
		}
	}
	return c
}

// sanitize makes a scenario of the shared generator admissible w.r.t. two CEL rules of gateway-api v1.2.1
// that scen does not honour: listeners of a Gateway must be unique by (port, protocol, hostname), and a
// rule with a ReplacePrefixMatch path modifier must have exactly one PathPrefix match.
func sanitize(c *Case) {
	for _, o := range c.Objs {
		switch x := o.(type) {
		case *gatewayv1.Gateway:
			seen := map[string]bool{}
			var keep []gatewayv1.Listener
			for _, l := range x.Spec.Listeners {
				h := "<none>"
				if l.Hostname != nil {
					h = string(*l.Hostname)
				}
				k := fmt.Sprintf("%d/%s/%s", l.Port, l.Protocol, h)
				if seen[k] {
					c.tag("sanitized-duplicate-listener")
					continue
				}
				seen[k] = true
				keep = append(keep, l)
			}
			x.Spec.Listeners = keep
		case *gatewayv1.HTTPRoute:
			for i := range x.Spec.Rules {
				rule := &x.Spec.Rules[i]
				ok := len(rule.Matches) == 1 && rule.Matches[0].Path != nil && rule.Matches[0].Path.Type != nil &&
					*rule.Matches[0].Path.Type == gatewayv1.PathMatchPathPrefix
				var keep []gatewayv1.HTTPRouteFilter
				for _, f := range rule.Filters {
					pm := (*gatewayv1.HTTPPathModifier)(nil)
					if f.URLRewrite != nil {
						pm = f.URLRewrite.Path
					}
					if f.RequestRedirect != nil {
						pm = f.RequestRedirect.Path
					}
					if pm != nil && pm.Type == gatewayv1.PrefixMatchHTTPPathModifier && !ok {
						c.tag("sanitized-prefix-rewrite")
						continue
					}
					keep = append(keep, f)
				}
				rule.Filters = keep
			}
		}
	}
}
