package c03

import (
	"bufio"
	"crypto/sha1"
	"encoding/json"
	"errors"
	"flag"
	"fmt"
	"io"
	"os"
	"path/filepath"
	"regexp/syntax"
	"sort"
	"strconv"
	"strings"
	"sync"

	"github.com/go-logr/logr"
	crossplane "github.com/nginxinc/nginx-go-crossplane"
	"sigs.k8s.io/controller-runtime/pkg/client"

	ngfAPI "github.com/nginx/nginx-gateway-fabric/apis/v1alpha1"
	ngfConfig "github.com/nginx/nginx-gateway-fabric/internal/mode/static/config"
	ngxcfg "github.com/nginx/nginx-gateway-fabric/internal/mode/static/nginx/config"
	"github.com/nginx/nginx-gateway-fabric/internal/mode/static/nginx/config/http"
	"github.com/nginx/nginx-gateway-fabric/internal/mode/static/nginx/config/policies"
	"github.com/nginx/nginx-gateway-fabric/internal/mode/static/nginx/config/policies/clientsettings"
	"github.com/nginx/nginx-gateway-fabric/internal/mode/static/nginx/file"
	"github.com/nginx/nginx-gateway-fabric/internal/mode/static/state/dataplane"
	"github.com/nginx/nginx-gateway-fabric/internal/mode/static/state/graph"
	p "github.com/nginx/nginx-gateway-fabric/verifharness/pipeline"
	"github.com/nginx/nginx-gateway-fabric/verifharness/rng"
)

// FileJ is one generated file as handed to the Lean judge. Secret material is not passed (t = "").
type FileJ struct {
	P string `json:"p"`
	T string `json:"t"`
}

// NameJ is one observation of a real name-mangling function: kind, its inputs, the real result.
type NameJ struct {
	K    string   `json:"k"`
	A    []string `json:"a"`
	Real string   `json:"real"`
}

// LineJ is one output line of the harness.
type LineJ struct {
	ID     string              `json:"id"`
	Plus   bool                `json:"plus"`
	Files  []FileJ             `json:"files,omitempty"`
	XP     map[string][]string `json:"xp,omitempty"`    // crossplane token stream per conf file ("q:" prefix = quoted)
	XPErr  []string            `json:"xperr,omitempty"` // crossplane parse/analyse errors over the whole tree
	Names  []NameJ             `json:"names,omitempty"` // mangling observations
	Regex  map[string]bool     `json:"regex,omitempty"` // rewrite/location/map regexes -> Go regexp/syntax (Perl) accepts
	Tags   []string            `json:"tags,omitempty"`
	Panic  string              `json:"panic,omitempty"`
	Static bool                `json:"static,omitempty"` // the line carrying the static image files
	Desc   string              `json:"desc,omitempty"`
	Objs   json.RawMessage     `json:"objs,omitempty"` // only with -objs (replay files)
	// hints for classifying findings (facts about the INPUT, computed from the objects):
	SharedRoutes  []string `json:"shared_routes,omitempty"`   // safe-variable prefixes "group_<ns>__<name>_rule" of ns/name used by both an HTTPRoute and a GRPCRoute
	Colliding     []string `json:"colliding,omitempty"`       // safe-variable names produced by >= 2 distinct (ns, name, idx)
	InvalidTLS    []string `json:"invalid_tls,omitempty"`     // bundle files referenced through a BackendTLSPolicy by an INVALID backend of a rule
	CrossKindCSP  []string `json:"cross_kind_csp,omitempty"`  // directives set by two ClientSettingsPolicies that reach one path rule through an HTTPRoute and a GRPCRoute of the same ns/name
	CrossRouteCSP []string `json:"cross_route_csp,omitempty"` // same, but the two policies target routes with different names (the overlap check should have denied one)
	DupSSL404     []string `json:"dup_ssl_404,omitempty"`     // "<listen> <hostname>" of SSL servers emitted twice, one of them the route-less 404 server of a listener
}

func repoDir() string {
	if d := os.Getenv("VERIF_REPO"); d != "" {
		return d
	}
	return "/repo"
}

// mimeTypesStub stands for /etc/nginx/mime.types of the NGINX image (not part of the repository).
const mimeTypesStub = "types {\n    text/html html htm shtml;\n    application/grpc grpc;\n}\n"

// StaticFiles returns the files of the container image that the generated configuration relies on,
// read from the repository under test.
func StaticFiles(plus bool) ([]FileJ, error) {
	staticMu.Lock()
	defer staticMu.Unlock()
	if c, ok := staticCache[plus]; ok {
		return c, nil
	}
	out, err := readStaticFiles(plus)
	if err == nil {
		staticCache[plus] = out
	}
	return out, err
}

var (
	staticMu    sync.Mutex
	staticCache = map[bool][]FileJ{}
	// contents whose crossplane token stream was already handed to the Lean side (identical files are compared once)
	xpSeen sync.Map
)

func readStaticFiles(plus bool) ([]FileJ, error) {
	conf := repoDir() + "/internal/mode/static/nginx/conf/"
	main := "nginx.conf"
	if plus {
		main = "nginx-plus.conf"
	}
	var out []FileJ
	for _, f := range [][2]string{{main, "/etc/nginx/nginx.conf"}, {"grpc-error-pages.conf", "/etc/nginx/grpc-error-pages.conf"},
		{"grpc-error-locations.conf", "/etc/nginx/grpc-error-locations.conf"}} {
		b, err := os.ReadFile(conf + f[0])
		if err != nil {
			return nil, err
		}
		out = append(out, FileJ{P: f[1], T: string(b)})
	}
	out = append(out, FileJ{P: "/etc/nginx/mime.types", T: mimeTypesStub})
	return out, nil
}

func isConf(path string) bool { return strings.HasSuffix(path, ".conf") }

func lexXP(text string) []string {
	var out []string
	for t := range crossplane.Lex(strings.NewReader(text)) {
		if t.Error != nil {
			out = append(out, "ERR:"+t.Error.Error())
			break
		}
		if !t.IsQuoted && strings.HasPrefix(t.Value, "#") {
			continue // crossplane reports comments as tokens
		}
		if t.IsQuoted {
			out = append(out, "q:"+t.Value)
		} else {
			out = append(out, "b:"+t.Value)
		}
	}
	return out
}

type memFile struct{ *strings.Reader }

func (memFile) Close() error { return nil }

// parseXP runs crossplane's parser + analyser over nginx.conf with an in-memory file system.
func parseXP(all map[string]string) []string {
	paths := make([]string, 0, len(all))
	for k := range all {
		paths = append(paths, k)
	}
	sort.Strings(paths)
	opts := &crossplane.ParseOptions{
		Open: func(path string) (io.ReadCloser, error) {
			if t, ok := all[path]; ok {
				return memFile{strings.NewReader(t)}, nil
			}
			return nil, errors.New("open " + path + ": no such file")
		},
		Glob: func(pat string) ([]string, error) {
			var res []string
			for _, k := range paths {
				if ok, _ := filepath.Match(pat, k); ok {
					res = append(res, k)
				}
			}
			return res, nil
		},
		ErrorOnUnknownDirectives: true,
	}
	var errs []string
	func() {
		defer func() {
			if r := recover(); r != nil {
				errs = append(errs, fmt.Sprintf("crossplane panic: %v", r))
			}
		}()
		payload, err := crossplane.Parse("/etc/nginx/nginx.conf", opts)
		if err != nil {
			errs = append(errs, "fatal: "+err.Error())
			return
		}
		for _, e := range payload.Errors {
			errs = append(errs, e.File+": "+e.Error.Error())
		}
	}()
	return errs
}

var plusGen = ngxcfg.NewGeneratorImpl(true, &ngfConfig.UsageReportConfig{Endpoint: "product.connect.nginx.com", Resolver: "10.0.0.10"}, logr.Discard())

// RunCase runs the real pipeline on a case and produces the line for the judge.
func RunCase(id string, c *Case) LineJ {
	line := LineJ{ID: id, Plus: c.Plus}
	opts := p.DefaultOptions()
	_, out := p.RunFresh(c.Objs, opts, nil)
	if out.Panic != "" {
		line.Panic = p.PanicSite(out.Panic)
		return line
	}
	if os.Getenv("C03_DEBUG") != "" && out.Graph != nil {
		for k, r := range out.Graph.Routes {
			fmt.Fprintln(os.Stderr, "DEBUG", id, k, "valid", r.Valid, "attachable", r.Attachable, r.Conditions)
			for i, rule := range r.Spec.Rules {
				fmt.Fprintln(os.Stderr, "DEBUG  rule", i, rule.ValidMatches, rule.Filters.Valid)
			}
			for _, pr := range r.ParentRefs {
				fmt.Fprintln(os.Stderr, "DEBUG  parent", pr.Attachment)
			}
		}
	}
	if out.Conf == nil {
		return line
	}
	if os.Getenv("C03_DEBUG") != "" {
		for id := range out.Conf.CertBundles {
			fmt.Fprintln(os.Stderr, "DEBUG bundle", id)
		}
		for _, bg := range out.Conf.BackendGroups {
			for _, b := range bg.Backends {
				fmt.Fprintln(os.Stderr, "DEBUG group", bg.Source, bg.RuleIdx, b.UpstreamName, b.Valid, b.VerifyTLS)
			}
		}
		for k, v := range out.Graph.ReferencedCaCertConfigMaps {
			fmt.Fprintln(os.Stderr, "DEBUG cm", k, len(v.CACert))
		}
	}
	files := out.Files
	if c.Plus {
		func() {
			defer func() {
				if r := recover(); r != nil {
					line.Panic = fmt.Sprintf("generate(plus): %v", r)
				}
			}()
			conf := *out.Conf
			conf.AuxiliarySecrets = map[graph.SecretFileType][]byte{graph.PlusReportJWTToken: []byte("token")}
			files = plusGen.Generate(conf)
		}()
		if line.Panic != "" {
			return line
		}
	}
	fillFromFiles(&line, files, c.Plus)
	line.Names = observeNames(out.Graph, out.Conf)
	line.SharedRoutes, line.Colliding, line.InvalidTLS = hints(c.Objs, out.Conf)
	line.DupSSL404 = dupSSL404(out.Conf)
	line.CrossKindCSP, line.CrossRouteCSP = crossKindCSP(out.Conf)
	return line
}

func fillFromFiles(line *LineJ, files []file.File, plus bool) {
	all := map[string]string{}
	line.XP = map[string][]string{}
	for _, f := range p.SortedFiles(files) {
		text := ""
		if f.Type == file.TypeRegular && (isConf(f.Path) || strings.HasSuffix(f.Path, ".json")) {
			text = string(f.Content)
		}
		line.Files = append(line.Files, FileJ{P: f.Path, T: text})
		if isConf(f.Path) {
			all[f.Path] = text
			if _, dup := xpSeen.LoadOrStore(sha1.Sum([]byte(text)), true); !dup {
				line.XP[f.Path] = lexXP(text)
			}
		}
	}
	if st, err := StaticFiles(plus); err == nil {
		for _, f := range st {
			all[f.P] = f.T
		}
	}
	line.XPErr = parseXP(all)
	line.Regex = map[string]bool{}
	for _, t := range all {
		for _, re := range extractRegexes(t) {
			_, err := syntax.Parse(re, syntax.Perl)
			line.Regex[re] = err == nil
		}
	}
}

// extractRegexes finds the first argument of `rewrite` directives (bare tokens in NGF's output).
func extractRegexes(text string) []string {
	var out []string
	for _, l := range strings.Split(text, "\n") {
		f := strings.Fields(l)
		if len(f) >= 3 && f[0] == "rewrite" {
			out = append(out, f[1])
		}
	}
	return out
}

// observeNames calls the real mangling functions on the inputs that occur in this run.
func observeNames(g *graph.Graph, conf *dataplane.Configuration) []NameJ {
	var ns []NameJ
	seen := map[string]bool{}
	add := func(k string, real string, a ...string) {
		key := k + "\x00" + strings.Join(a, "\x00")
		if seen[key] {
			return
		}
		seen[key] = true
		ns = append(ns, NameJ{K: k, A: a, Real: real})
	}
	for i := range conf.BackendGroups {
		bg := conf.BackendGroups[i]
		add("group", bg.Name(), bg.Source.Namespace, bg.Source.Name, strconv.Itoa(bg.RuleIdx))
		add("safevar", ngxcfg.VerifC03SafeVar(bg.Name()), bg.Name())
	}
	if g != nil {
		for _, r := range g.Routes {
			for _, rule := range r.Spec.Rules {
				for _, br := range rule.BackendRefs {
					if br.Valid {
						add("upstream", br.ServicePortReference(), br.SvcNsName.Namespace, br.SvcNsName.Name, strconv.Itoa(int(br.ServicePort.Port)))
					}
				}
			}
		}
		if g.Gateway != nil {
			for _, l := range g.Gateway.Listeners {
				if l.ResolvedSecret != nil {
					want := "ssl_keypair_" + l.ResolvedSecret.Namespace + "_" + l.ResolvedSecret.Name
					real := ""
					for id := range conf.SSLKeyPairs {
						if string(id) == want {
							real = ngxcfg.VerifC03PEMFile(string(id))
						}
					}
					if real != "" {
						add("keypairfile", real, l.ResolvedSecret.Namespace, l.ResolvedSecret.Name)
					}
				}
			}
		}
		for _, btp := range g.BackendTLSPolicies {
			if btp.Valid && btp.CaCertRef.Name != "" {
				want := "cert_bundle_" + btp.CaCertRef.Namespace + "_" + btp.CaCertRef.Name
				for id := range conf.CertBundles {
					if string(id) == want {
						add("bundlefile", ngxcfg.VerifC03BundleFile(string(id)), btp.CaCertRef.Namespace, btp.CaCertRef.Name)
					}
				}
			}
		}
		var pols []policies.Policy
		for _, pol := range g.NGFPolicies {
			if csp, ok := pol.Source.(*ngfAPI.ClientSettingsPolicy); ok {
				pols = append(pols, csp)
				for _, f := range clientsettings.NewGenerator().GenerateForServer([]policies.Policy{csp}, http.Server{}) {
					add("cspfile", ngxcfg.VerifC03IncludesFolder()+"/"+f.Name, csp.Namespace, csp.Name)
				}
			}
		}
	}
	for _, s := range conf.TLSPassthroughServers {
		add("socktls", ngxcfg.VerifC03SocketTLS(s.Port, s.Hostname), strconv.Itoa(int(s.Port)), s.Hostname)
		add("passvar", ngxcfg.VerifC03PassthroughVar(s.Port), strconv.Itoa(int(s.Port)))
	}
	for _, s := range conf.SSLServers {
		add("sockhttps", ngxcfg.VerifC03SocketHTTPS(s.Port), strconv.Itoa(int(s.Port)))
	}
	for _, srv := range append(append([]dataplane.VirtualServer{}, conf.HTTPServers...), conf.SSLServers...) {
		for i, pr := range srv.PathRules {
			for j, mr := range pr.MatchRules {
				if i < 3 && j < 3 {
					add("internalloc", ngxcfg.VerifC03InternalLocPath(i, j), strconv.Itoa(i), strconv.Itoa(j))
				}
				for _, pm := range []*dataplane.HTTPPathModifier{pathModOfRewrite(mr.Filters.RequestURLRewrite), pathModOfRedirect(mr.Filters.RequestRedirect)} {
					if pm != nil && pm.Type == dataplane.ReplacePrefixMatch {
						add("rewriteprefix", ngxcfg.VerifC03MainRewritePrefix(pm.Replacement, pr.Path), pm.Replacement, pr.Path)
					}
				}
				if mr.Filters.RequestHeaderModifiers != nil {
					for _, h := range mr.Filters.RequestHeaderModifiers.Add {
						add("addhdrvar", ngxcfg.VerifC03AddHeaderVar(h.Name), h.Name)
					}
				}
			}
		}
	}
	return ns
}

// Run is the entry point of harness/cmd/c03.
//
//	c03 -seed S -n N            generated cases, one JSON line each (first line: the static image files)
//	c03 -replay file.json       re-run a replay (objects + plus flag)
func Run(args []string) int {
	fs := flag.NewFlagSet("c03", flag.ContinueOnError)
	seed := fs.Uint64("seed", 1, "")
	n := fs.Int("n", 100, "")
	withObjs := fs.Bool("objs", false, "include the objects in every line")
	only := fs.Int("only", -1, "emit only case #i (with objects)")
	replay := fs.String("replay", "", "")
	workers := fs.Int("j", 8, "parallel pipeline runs")
	fragment := fs.Int("fragment", 0, "emit only this many scenarios of C02's fragment profile (stream for driver mode `render`)")
	fragmentTLS := fs.Int("fragment-tls", 0, "emit only this many scenarios of C16's TLS fragment generator (stream for driver mode `rendertls`)")
	if err := fs.Parse(args); err != nil {
		return 2
	}
	w := bufio.NewWriterSize(os.Stdout, 1<<20)
	defer w.Flush()
	if *fragment > 0 {
		runFragments(w, *seed, *fragment, *only)
		return 0
	}
	if *fragmentTLS > 0 {
		runFragmentsTLS(w, *seed, *fragmentTLS, *only)
		return 0
	}
	enc := json.NewEncoder(w)
	enc.SetEscapeHTML(false)
	for _, plus := range []bool{false, true} {
		st, err := StaticFiles(plus)
		if err != nil {
			fmt.Fprintln(os.Stderr, "static files:", err)
			return 1
		}
		_ = enc.Encode(LineJ{ID: fmt.Sprintf("static-%v", plus), Static: true, Plus: plus, Files: st})
	}
	if *replay != "" {
		b, err := os.ReadFile(*replay)
		if err != nil {
			fmt.Fprintln(os.Stderr, err)
			return 1
		}
		var rp struct {
			Plus bool            `json:"plus"`
			Objs json.RawMessage `json:"objs"`
		}
		if err := json.Unmarshal(b, &rp); err != nil {
			fmt.Fprintln(os.Stderr, err)
			return 1
		}
		objs, err := p.DecodeObjects(rp.Objs)
		if err != nil {
			fmt.Fprintln(os.Stderr, err)
			return 1
		}
		line := RunCase("replay", &Case{Objs: objs, Plus: rp.Plus, Tags: map[string]int{}})
		line.Objs = rp.Objs
		_ = enc.Encode(line)
		return 0
	}
	type job struct {
		id   string
		c    *Case
		tags []string
		desc string
	}
	var jobs []job
	for _, cc := range Corpus() {
		jobs = append(jobs, job{id: "corpus-" + cc.Name, c: cc.Case, tags: []string{"corpus"}, desc: cc.Name})
	}
	r := rng.New(*seed)
	for i := 0; i < *n; i++ {
		cr := r.Fork()
		mode := 1
		if i%4 == 3 {
			mode = 0
		}
		c := Generate(cr, mode) // sequential: the scenario stream depends only on the seed
		if *only >= 0 && i != *only {
			continue
		}
		var tags []string
		for k := range c.Tags {
			tags = append(tags, k)
		}
		sort.Strings(tags)
		jobs = append(jobs, job{id: fmt.Sprintf("s%d-%d", *seed, i), c: c, tags: tags})
	}
	// the pipeline runs are independent (one fresh controller each): run them on a few goroutines, emit in order
	results := make([]LineJ, len(jobs))
	var wg sync.WaitGroup
	next := make(chan int)
	for w := 0; w < *workers; w++ {
		wg.Add(1)
		go func() {
			defer wg.Done()
			for i := range next {
				j := jobs[i]
				line := RunCase(j.id, j.c)
				line.Tags, line.Desc = j.tags, j.desc
				if *withObjs || (*only >= 0 && j.desc == "") {
					line.Objs = p.EncodeObjects(j.c.Objs)
				}
				results[i] = line
			}
		}()
	}
	for i := range jobs {
		next <- i
	}
	close(next)
	wg.Wait()
	for i := range results {
		_ = enc.Encode(results[i])
	}
	return 0
}

func hints(objs []client.Object, conf *dataplane.Configuration) (shared, colliding, invalidTLS []string) {
	kinds := map[string]map[string]bool{}
	for _, o := range objs {
		k := p.KindOf(o)
		if k == "HTTPRoute" || k == "GRPCRoute" {
			key := o.GetNamespace() + "\x00" + o.GetName()
			if kinds[key] == nil {
				kinds[key] = map[string]bool{}
			}
			kinds[key][k] = true
		}
	}
	for key, ks := range kinds {
		if len(ks) == 2 {
			ns, name, _ := strings.Cut(key, "\x00")
			shared = append(shared, strings.ReplaceAll("group_"+ns+"__"+name+"_rule", "-", "_"))
		}
	}
	sort.Strings(shared)
	byVar := map[string]map[string]bool{}
	for _, srv := range append(append([]dataplane.VirtualServer{}, conf.HTTPServers...), conf.SSLServers...) {
		for _, pr := range srv.PathRules {
			for _, mr := range pr.MatchRules {
				bg := mr.BackendGroup
				v := strings.ReplaceAll(bg.Name(), "-", "_")
				if byVar[v] == nil {
					byVar[v] = map[string]bool{}
				}
				byVar[v][bg.Source.Namespace+"/"+bg.Source.Name] = true
				for _, b := range bg.Backends {
					if !b.Valid && b.VerifyTLS != nil && b.VerifyTLS.CertBundleID != "" {
						f := ngxcfg.VerifC03BundleFile(string(b.VerifyTLS.CertBundleID))
						dup := false
						for _, x := range invalidTLS {
							dup = dup || x == f
						}
						if !dup {
							invalidTLS = append(invalidTLS, f)
						}
					}
				}
			}
		}
	}
	for v, srcs := range byVar {
		if len(srcs) > 1 {
			colliding = append(colliding, v)
		}
	}
	sort.Strings(colliding)
	sort.Strings(invalidTLS)
	return shared, colliding, invalidTLS
}

func pathModOfRewrite(f *dataplane.HTTPURLRewriteFilter) *dataplane.HTTPPathModifier {
	if f == nil {
		return nil
	}
	return f.Path
}

func pathModOfRedirect(f *dataplane.HTTPRequestRedirectFilter) *dataplane.HTTPPathModifier {
	if f == nil {
		return nil
	}
	return f.Path
}

func dupSSL404(conf *dataplane.Configuration) []string {
	type key struct {
		port int32
		host string
	}
	count, empty := map[key]int{}, map[key]bool{}
	for _, s := range conf.SSLServers {
		if s.IsDefault {
			continue
		}
		k := key{s.Port, s.Hostname}
		count[k]++
		if len(s.PathRules) == 0 {
			empty[k] = true
		}
	}
	var out []string
	for k, n := range count {
		if n > 1 && empty[k] {
			out = append(out, fmt.Sprintf("%d %s", k.port, k.host), fmt.Sprintf("[::]:%d %s", k.port, k.host))
		}
	}
	sort.Strings(out)
	return out
}

func cspDirectives(sp ngfAPI.ClientSettingsPolicySpec) []string {
	var out []string
	if sp.Body != nil {
		if sp.Body.MaxSize != nil {
			out = append(out, "client_max_body_size")
		}
		if sp.Body.Timeout != nil {
			out = append(out, "client_body_timeout")
		}
	}
	if sp.KeepAlive != nil {
		if sp.KeepAlive.Requests != nil {
			out = append(out, "keepalive_requests")
		}
		if sp.KeepAlive.Time != nil {
			out = append(out, "keepalive_time")
		}
		if sp.KeepAlive.Timeout != nil {
			out = append(out, "keepalive_timeout")
		}
	}
	return out
}

// crossKindCSP: a path rule that carries two different ClientSettingsPolicies, one targeting HTTPRoute ns/x and one
// targeting GRPCRoute ns/x (same namespace and name), both setting the same directive.
func crossKindCSP(conf *dataplane.Configuration) (sameName, otherRoute []string) {
	set, set2 := map[string]bool{}, map[string]bool{}
	for _, srv := range append(append([]dataplane.VirtualServer{}, conf.HTTPServers...), conf.SSLServers...) {
		for _, pr := range srv.PathRules {
			var csps []*ngfAPI.ClientSettingsPolicy
			seen := map[string]bool{}
			for _, pol := range pr.Policies {
				if c, ok := pol.(*ngfAPI.ClientSettingsPolicy); ok && !seen[c.Namespace+"/"+c.Name] {
					seen[c.Namespace+"/"+c.Name] = true
					csps = append(csps, c)
				}
			}
			for i := range csps {
				for j := i + 1; j < len(csps); j++ {
					a, b := csps[i], csps[j]
					if a.Spec.TargetRef.Kind == "Gateway" || b.Spec.TargetRef.Kind == "Gateway" {
						continue
					}
					dst := set2 // different route names (or namespaces)
					if a.Namespace == b.Namespace && a.Spec.TargetRef.Name == b.Spec.TargetRef.Name {
						if a.Spec.TargetRef.Kind == b.Spec.TargetRef.Kind {
							continue // same target: conflict resolution's business
						}
						dst = set
					}
					for _, da := range cspDirectives(a.Spec) {
						for _, db := range cspDirectives(b.Spec) {
							if da == db {
								dst[da] = true
							}
						}
					}
				}
			}
		}
	}
	for k := range set {
		sameName = append(sameName, k)
	}
	for k := range set2 {
		otherRoute = append(otherRoute, k)
	}
	sort.Strings(sameName)
	sort.Strings(otherRoute)
	return sameName, otherRoute
}
