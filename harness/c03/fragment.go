package c03

import (
	"crypto/tls"
	"encoding/json"
	"fmt"
	"io"

	apiv1 "k8s.io/api/core/v1"

	"github.com/nginx/nginx-gateway-fabric/verifharness/c02"
	"github.com/nginx/nginx-gateway-fabric/verifharness/c16"
	p "github.com/nginx/nginx-gateway-fabric/verifharness/pipeline"
	"github.com/nginx/nginx-gateway-fabric/verifharness/rng"
)

// FragJ is one line of the `-fragment` stream: a scenario of C02's `fragment` profile (inside the fragment of
// lean/NGF/Model/Pipeline.lean) in the flat form that PipelineTie.toFragment reads, with the REAL http.conf and
// matches.json the pipeline generated for it. The Lean side (driver mode `render`) renders the same scenario with
// Model/Render and compares (RenderTie.tie).
type FragJ struct {
	ID      string          `json:"id"`
	Frag    bool            `json:"frag"`
	Flat    *c02.Flat       `json:"flat,omitempty"`
	HTTP    string          `json:"http"`
	Matches string          `json:"matches"`
	Panic   string          `json:"panic,omitempty"`
	Objs    json.RawMessage `json:"objs,omitempty"`
}

const (
	httpConfPath = "/etc/nginx/conf.d/http.conf"
	matchesPath  = "/etc/nginx/conf.d/matches.json"
)

// runFragments emits n scenarios of the fragment profile (seed-determined), or only case `only` with its objects.
func runFragments(w io.Writer, seed uint64, n, only int) {
	enc := json.NewEncoder(w)
	enc.SetEscapeHTML(false)
	r := rng.New(seed ^ 0xc03f4a6)
	for i := 0; i < n; i++ {
		s := c02.GenFragment(r.Fork())
		c02.ApplyDefaults(s.Objs)
		if only >= 0 && i != only {
			continue
		}
		line := FragJ{ID: fmt.Sprintf("f%d-%d", seed, i), Frag: true}
		_, out := p.RunFresh(s.Objs, s.Opts, nil)
		if out.Panic != "" {
			line.Panic = p.PanicSite(out.Panic)
			_ = enc.Encode(line)
			continue
		}
		fl := c02.Flatten(s.Objs, s.Opts)
		line.Flat = &fl
		line.HTTP = p.FileText(out.Files, httpConfPath)
		line.Matches = p.FileText(out.Files, matchesPath)
		if only >= 0 {
			line.Objs = p.EncodeObjects(s.Objs)
		}
		_ = enc.Encode(line)
	}
}

// SecretJ is a TLS Secret of the scenario as Driver/C16 (`parseSecret`) reads it.
type SecretJ struct {
	NS     string `json:"ns"`
	Name   string `json:"name"`
	Type   string `json:"type"`
	Cert   string `json:"cert"`
	Key    string `json:"key"`
	PairOK bool   `json:"pairOK"`
}

// FragTLSJ is one line of the `-fragment-tls` stream: a scenario of C16's fragment generator (C02's fragment + HTTPS
// listeners, Secrets, ReferenceGrants) with the REAL http.conf / matches.json and the names of the real secret files.
// The Lean side (driver mode `rendertls`) renders it with Model/RenderTls and compares (RenderTlsTie.tie).
type FragTLSJ struct {
	ID      string          `json:"id"`
	Flat    *c02.Flat       `json:"flat,omitempty"`
	HTTP    string          `json:"http"`
	Matches string          `json:"matches"`
	Secrets []SecretJ       `json:"secrets"`
	SFiles  []string        `json:"sfiles"`
	Panic   string          `json:"panic,omitempty"`
	Objs    json.RawMessage `json:"objs,omitempty"`
}

func runFragmentsTLS(w io.Writer, seed uint64, n, only int) {
	enc := json.NewEncoder(w)
	enc.SetEscapeHTML(false)
	r := rng.New(seed ^ 0xc03716)
	for i := 0; i < n; i++ {
		s := c16.GenFragmentTLS(r.Fork())
		c02.ApplyDefaults(s.Objs)
		if only >= 0 && i != only {
			continue
		}
		line := FragTLSJ{ID: fmt.Sprintf("t%d-%d", seed, i), Secrets: []SecretJ{}, SFiles: []string{}}
		_, out := p.RunFresh(s.Objs, s.Opts, nil)
		if out.Panic != "" {
			line.Panic = p.PanicSite(out.Panic)
			_ = enc.Encode(line)
			continue
		}
		fl := c02.Flatten(s.Objs, s.Opts)
		line.Flat = &fl
		line.HTTP = p.FileText(out.Files, httpConfPath)
		line.Matches = p.FileText(out.Files, matchesPath)
		for _, o := range s.Objs {
			if x, ok := o.(*apiv1.Secret); ok {
				_, err := tls.X509KeyPair(x.Data[apiv1.TLSCertKey], x.Data[apiv1.TLSPrivateKeyKey])
				line.Secrets = append(line.Secrets, SecretJ{NS: x.Namespace, Name: x.Name, Type: string(x.Type),
					Cert: string(x.Data[apiv1.TLSCertKey]), Key: string(x.Data[apiv1.TLSPrivateKeyKey]), PairOK: err == nil})
			}
		}
		for _, f := range p.SortedFiles(out.Files) {
			if len(f.Path) > len("/etc/nginx/secrets/") && f.Path[:len("/etc/nginx/secrets/")] == "/etc/nginx/secrets/" {
				line.SFiles = append(line.SFiles, f.Path)
			}
		}
		if only >= 0 {
			line.Objs = p.EncodeObjects(s.Objs)
		}
		_ = enc.Encode(line)
	}
}
