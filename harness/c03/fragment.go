package c03

import (
	"encoding/json"
	"fmt"
	"io"

	"github.com/nginx/nginx-gateway-fabric/verifharness/c02"
	p "github.com/nginx/nginx-gateway-fabric/verifharness/pipeline"
	"github.com/nginx/nginx-gateway-fabric/verifharness/rng"
)

// FragJ is one line of the `-fragment` stream: a scenario of C02's `fragment` profile (inside the fragment of
// lean/NGF/Model/Pipeline.lean) in the flat form that PipelineTie.toFragment reads, with the REAL http.conf and
// matches.json the pipeline generated for it. The Lean side (driver mode `render`) renders the same scenario with
// Model/Render and compares (RenderTie.tie).
type FragJ struct {
	ID      string          `json:"id"`
	Frag    bool            `json:"frag"`
	Flat    *c02.Flat       `json:"flat,omitempty"`
	HTTP    string          `json:"http"`
	Matches string          `json:"matches"`
	Panic   string          `json:"panic,omitempty"`
	Objs    json.RawMessage `json:"objs,omitempty"`
}

const (
	httpConfPath = "/etc/nginx/conf.d/http.conf"
	matchesPath  = "/etc/nginx/conf.d/matches.json"
)

// runFragments emits n scenarios of the fragment profile (seed-determined), or only case `only` with its objects.
func runFragments(w io.Writer, seed uint64, n, only int) {
	enc := json.NewEncoder(w)
	enc.SetEscapeHTML(false)
	r := rng.New(seed ^ 0xc03f4a6)
	for i := 0; i < n; i++ {
		s := c02.GenFragment(r.Fork())
		c02.ApplyDefaults(s.Objs)
		if only >= 0 && i != only {
			continue
		}
		line := FragJ{ID: fmt.Sprintf("f%d-%d", seed, i), Frag: true}
		_, out := p.RunFresh(s.Objs, s.Opts, nil)
		if out.Panic != "" {
			line.Panic = p.PanicSite(out.Panic)
			_ = enc.Encode(line)
			continue
		}
		fl := c02.Flatten(s.Objs, s.Opts)
		line.Flat = &fl
		line.HTTP = p.FileText(out.Files, httpConfPath)
		line.Matches = p.FileText(out.Files, matchesPath)
		if only >= 0 {
			line.Objs = p.EncodeObjects(s.Objs)
		}
		_ = enc.Encode(line)
	}
}
