// Package c19 drives the real telemetry collector (telemetry.DataCollectorImpl.Collect with a fake
// graph/configuration getter and a fake Kubernetes reader) on generated graphs whose SnippetsFilters carry
// grammar-generated NGINX snippets, and the real cmd/gateway parseFlags (through the binary built with the
// overlay hook overlay/cmd/gateway/zz_verif_c19.go) on generated command lines.
//
// Output: one line per case, tab-separated parts
//
//	K <kind/profile/features>     statistics only
//	M <model input>               input of the Lean model (see lean/NGF/Driver/C19.lean)
//	O <observed>                  what the real code returned, in the model's output vocabulary
//	J <judge input>               input of the Lean judge (the property evaluated on the real output)
//	X <reason>                    inconclusive case (not representable / harness problem)
package c19

import (
	"bufio"
	"context"
	"encoding/hex"
	"flag"
	"fmt"
	"os"
	"os/exec"
	"path/filepath"
	"sort"
	"strings"
	"time"

	appsv1 "k8s.io/api/apps/v1"
	v1 "k8s.io/api/core/v1"
	metav1 "k8s.io/apimachinery/pkg/apis/meta/v1"
	"k8s.io/apimachinery/pkg/runtime/schema"
	"k8s.io/apimachinery/pkg/types"
	"sigs.k8s.io/controller-runtime/pkg/client"
	gatewayv1 "sigs.k8s.io/gateway-api/apis/v1"

	ngfAPI "github.com/nginx/nginx-gateway-fabric/apis/v1alpha1"
	"github.com/nginx/nginx-gateway-fabric/internal/framework/kinds"
	"github.com/nginx/nginx-gateway-fabric/internal/mode/static/config"
	"github.com/nginx/nginx-gateway-fabric/internal/mode/static/state/dataplane"
	"github.com/nginx/nginx-gateway-fabric/internal/mode/static/state/graph"
	"github.com/nginx/nginx-gateway-fabric/internal/mode/static/state/resolver"
	"github.com/nginx/nginx-gateway-fabric/internal/mode/static/telemetry"
	"github.com/nginx/nginx-gateway-fabric/verifharness/rng"
)

// ------------------------------------------------------------------ fake environment

type reader struct{}

func (reader) Get(_ context.Context, key client.ObjectKey, obj client.Object, _ ...client.GetOption) error {
	switch o := obj.(type) {
	case *v1.Pod:
		o.ObjectMeta = metav1.ObjectMeta{Name: key.Name, Namespace: key.Namespace,
			OwnerReferences: []metav1.OwnerReference{{Kind: "ReplicaSet", Name: "rs1"}}}
	case *appsv1.ReplicaSet:
		n := int32(2)
		o.Spec.Replicas = &n
		o.ObjectMeta = metav1.ObjectMeta{Name: key.Name, Namespace: key.Namespace,
			OwnerReferences: []metav1.OwnerReference{{Kind: "Deployment", Name: "d1", UID: "deployment-uid"}}}
	case *v1.Namespace:
		o.ObjectMeta = metav1.ObjectMeta{Name: key.Name, UID: "kube-system-uid"}
	default:
		return fmt.Errorf("unexpected Get %T", obj)
	}
	return nil
}

func (reader) List(_ context.Context, list client.ObjectList, _ ...client.ListOption) error {
	switch l := list.(type) {
	case *v1.NodeList:
		l.Items = []v1.Node{{
			ObjectMeta: metav1.ObjectMeta{Name: "node1"},
			Spec:       v1.NodeSpec{ProviderID: "kind://x"},
			Status:     v1.NodeStatus{NodeInfo: v1.NodeSystemInfo{KubeletVersion: "v1.30.1"}},
		}}
	case *v1.NamespaceList:
		l.Items = nil
	default:
		return fmt.Errorf("unexpected List %T", list)
	}
	return nil
}

type graphGetter struct{ g *graph.Graph }

func (g graphGetter) GetLatestGraph() *graph.Graph { return g.g }

type confGetter struct{ c *dataplane.Configuration }

func (c confGetter) GetLatestConfiguration() *dataplane.Configuration { return c.c }

// ------------------------------------------------------------------ encoding

func hx(s string) string {
	if s == "" {
		return "_"
	}
	return hex.EncodeToString([]byte(s))
}

func hexList(ss []string) string {
	if len(ss) == 0 {
		return "-"
	}
	out := make([]string, len(ss))
	for i, s := range ss {
		out[i] = hx(s)
	}
	return strings.Join(out, ",")
}

func natList(ns []int64) string {
	if len(ns) == 0 {
		return "-"
	}
	out := make([]string, len(ns))
	for i, n := range ns {
		out[i] = fmt.Sprint(n)
	}
	return strings.Join(out, ",")
}

func b01(b bool) string {
	if b {
		return "1"
	}
	return "0"
}

// ------------------------------------------------------------------ cases

type snip struct{ ctx, text string }

type filter struct {
	isNil bool
	snips []snip // distinct ctx keys
}

type policy struct {
	kind string // c o u x
	refs []bool // targetRef kind is Gateway?
}

type ups struct {
	err bool
	n   int
}

type summary struct {
	gc, gw, np   bool
	igc, igw     int
	routes       []byte // h g o
	l4, sec, svc int
	ups          []ups
	btp          int
	pols         []policy
	filters      []filter
}

func (s summary) filtersField() string {
	if len(s.filters) == 0 {
		return "~"
	}
	fs := make([]string, len(s.filters))
	for i, f := range s.filters {
		switch {
		case f.isNil:
			fs[i] = "nil"
		case len(f.snips) == 0:
			fs[i] = "empty"
		default:
			es := make([]string, len(f.snips))
			for j, sn := range f.snips {
				es[j] = hx(sn.ctx) + ":" + hx(sn.text)
			}
			fs[i] = strings.Join(es, ",")
		}
	}
	return strings.Join(fs, "|")
}

func (s summary) countsField() string {
	routes := "-"
	if len(s.routes) > 0 {
		rs := make([]string, len(s.routes))
		for i, r := range s.routes {
			rs[i] = string(r)
		}
		routes = strings.Join(rs, ",")
	}
	upss := "-"
	if len(s.ups) > 0 {
		us := make([]string, len(s.ups))
		for i, u := range s.ups {
			us[i] = b01(u.err) + ":" + fmt.Sprint(u.n)
		}
		upss = strings.Join(us, ",")
	}
	pols := "-"
	if len(s.pols) > 0 {
		ps := make([]string, len(s.pols))
		for i, p := range s.pols {
			bits := ""
			for _, b := range p.refs {
				bits += b01(b)
			}
			ps[i] = p.kind + ":" + bits
		}
		pols = strings.Join(ps, ",")
	}
	return fmt.Sprintf("gc=%s igc=%d gw=%s igw=%d routes=%s l4=%d sec=%d svc=%d ups=%s btp=%d pols=%s np=%s sf=%d",
		b01(s.gc), s.igc, b01(s.gw), s.igw, routes, s.l4, s.sec, s.svc, upss, s.btp, pols, b01(s.np), len(s.filters))
}

func nn(i int, p string) types.NamespacedName {
	return types.NamespacedName{Namespace: "ns" + fmt.Sprint(i%3), Name: fmt.Sprintf("%s-%d", p, i)}
}

// build constructs the real graph and configuration that the summary describes.
func (s summary) build() (*graph.Graph, *dataplane.Configuration) {
	g := &graph.Graph{}
	if s.gc {
		g.GatewayClass = &graph.GatewayClass{}
	}
	if s.gw {
		g.Gateway = &graph.Gateway{}
	}
	if s.igc > 0 {
		g.IgnoredGatewayClasses = map[types.NamespacedName]*gatewayv1.GatewayClass{}
		for i := 0; i < s.igc; i++ {
			g.IgnoredGatewayClasses[nn(i, "gc")] = &gatewayv1.GatewayClass{}
		}
	}
	if s.igw > 0 {
		g.IgnoredGateways = map[types.NamespacedName]*gatewayv1.Gateway{}
		for i := 0; i < s.igw; i++ {
			g.IgnoredGateways[nn(i, "gw")] = &gatewayv1.Gateway{}
		}
	}
	if len(s.routes) > 0 {
		g.Routes = map[graph.RouteKey]*graph.L7Route{}
		for i, r := range s.routes {
			rt := graph.RouteTypeHTTP
			switch r {
			case 'g':
				rt = graph.RouteTypeGRPC
			case 'o':
				rt = graph.RouteType("tls")
			}
			// invalid / unattached routes are part of g.Routes too: Valid alternates
			g.Routes[graph.RouteKey{NamespacedName: nn(i, "r"), RouteType: rt}] = &graph.L7Route{RouteType: rt, Valid: i%2 == 0}
		}
	}
	if s.l4 > 0 {
		g.L4Routes = map[graph.L4RouteKey]*graph.L4Route{}
		for i := 0; i < s.l4; i++ {
			g.L4Routes[graph.L4RouteKey{NamespacedName: nn(i, "l4")}] = &graph.L4Route{}
		}
	}
	if s.sec > 0 {
		g.ReferencedSecrets = map[types.NamespacedName]*graph.Secret{}
		for i := 0; i < s.sec; i++ {
			g.ReferencedSecrets[nn(i, "sec")] = &graph.Secret{}
		}
	}
	if s.svc > 0 {
		g.ReferencedServices = map[types.NamespacedName]*graph.ReferencedService{}
		for i := 0; i < s.svc; i++ {
			g.ReferencedServices[nn(i, "svc")] = &graph.ReferencedService{}
		}
	}
	if s.btp > 0 {
		g.BackendTLSPolicies = map[types.NamespacedName]*graph.BackendTLSPolicy{}
		for i := 0; i < s.btp; i++ {
			g.BackendTLSPolicies[nn(i, "btp")] = &graph.BackendTLSPolicy{}
		}
	}
	if len(s.pols) > 0 {
		g.NGFPolicies = map[graph.PolicyKey]*graph.Policy{}
		for i, p := range s.pols {
			kind := map[string]string{"c": kinds.ClientSettingsPolicy, "o": kinds.ObservabilityPolicy,
				"u": kinds.UpstreamSettingsPolicy, "x": "SomeOtherPolicy"}[p.kind]
			pol := &graph.Policy{Valid: i%2 == 0}
			for _, isGw := range p.refs {
				k := gatewayv1.Kind(kinds.HTTPRoute)
				if isGw {
					k = kinds.Gateway
				}
				pol.TargetRefs = append(pol.TargetRefs, graph.PolicyTargetRef{Kind: k, Group: gatewayv1.GroupName})
			}
			g.NGFPolicies[graph.PolicyKey{NsName: nn(i, "pol"), GVK: schema.GroupVersionKind{Group: ngfAPI.GroupName, Version: "v1alpha1", Kind: kind}}] = pol
		}
	}
	if s.np {
		g.NginxProxy = &graph.NginxProxy{}
	}
	if len(s.filters) > 0 {
		g.SnippetsFilters = map[types.NamespacedName]*graph.SnippetsFilter{}
		for i, f := range s.filters {
			if f.isNil {
				g.SnippetsFilters[nn(i, "sf")] = nil
				continue
			}
			sf := &graph.SnippetsFilter{Valid: len(f.snips) > 0, Referenced: i%2 == 0}
			if len(f.snips) > 0 {
				sf.Snippets = map[ngfAPI.NginxContext]string{}
				for _, sn := range f.snips {
					sf.Snippets[ngfAPI.NginxContext(sn.ctx)] = sn.text
				}
			}
			g.SnippetsFilters[nn(i, "sf")] = sf
		}
	}
	cfg := &dataplane.Configuration{}
	for i, u := range s.ups {
		up := dataplane.Upstream{Name: fmt.Sprintf("up%d", i)}
		if u.err {
			up.ErrorMsg = "no endpoints / resolve error"
		}
		for j := 0; j < u.n; j++ {
			up.Endpoints = append(up.Endpoints, resolver.Endpoint{Address: fmt.Sprintf("10.0.%d.%d", i, j), Port: 80})
		}
		cfg.Upstreams = append(cfg.Upstreams, up)
	}
	return g, cfg
}

var ctxKeys = []string{"main", "http", "http.server", "http.server.location"}
var ctxShort = map[string]string{"main": "main", "http": "http", "http.server": "server", "http.server.location": "location"}

func genSummary(r *rng.R, small bool) summary {
	k := 6
	if small {
		k = 2
	}
	s := summary{gc: r.Bool(), gw: r.Bool(), np: r.Bool(), igc: r.Intn(k), igw: r.Intn(k),
		l4: r.Intn(k), sec: r.Intn(k), svc: r.Intn(k), btp: r.Intn(k)}
	for i := r.Intn(k + 2); i > 0; i-- {
		s.routes = append(s.routes, "hhgo"[r.Intn(4)])
	}
	for i := r.Intn(k); i > 0; i-- {
		s.ups = append(s.ups, ups{err: r.Chance(1, 3), n: r.Intn(5)})
	}
	for i := r.Intn(k + 1); i > 0; i-- {
		p := policy{kind: string("ccoux"[r.Intn(5)])}
		for j := r.Intn(3); j > 0; j-- {
			p.refs = append(p.refs, r.Bool())
		}
		s.pols = append(s.pols, p)
	}
	return s
}

// ------------------------------------------------------------------ running the real collector

func collect(s summary) (data telemetry.Data, err error, panicked any) {
	defer func() {
		if r := recover(); r != nil {
			panicked = r
		}
	}()
	g, cfg := s.build()
	c := telemetry.NewDataCollectorImpl(telemetry.DataCollectorConfig{
		K8sClientReader:     reader{},
		GraphGetter:         graphGetter{g},
		ConfigurationGetter: confGetter{cfg},
		Version:             "verif",
		PodNSName:           types.NamespacedName{Namespace: "nginx-gateway", Name: "ngf-pod"},
		ImageSource:         "local",
		Flags:               config.Flags{Names: []string{"f"}, Values: []string{"default"}},
	})
	ctx, cancel := context.WithTimeout(context.Background(), 10*time.Second)
	defer cancel()
	data, err = c.Collect(ctx)
	return data, err, nil
}

func sortedKeys(m map[string]bool) []string {
	out := make([]string, 0, len(m))
	for k := range m {
		out = append(out, k)
	}
	sort.Strings(out)
	return out
}

type emitter struct {
	w         *bufio.Writer
	anomalies int
}

func (e *emitter) line(parts ...string) {
	e.w.WriteString(strings.Join(parts, "\t"))
	e.w.WriteByte('\n')
	e.w.Flush()
}

// runCase runs Collect once and emits the S line (directives) and, if withCounts, the R line (counts).
func (e *emitter) runCase(kind string, s summary, marks map[string]bool, withCounts bool) {
	data, err, p := collect(s)
	if p != nil {
		e.anomalies++
		e.line("K "+kind, "X panic "+hx(fmt.Sprint(p)), "M S filters="+s.filtersField())
		return
	}
	if err != nil {
		e.anomalies++
		e.line("K "+kind, "X error "+hx(err.Error()))
		return
	}
	ff := s.filtersField()
	obs := "dirs=" + hexList(data.SnippetsFiltersDirectives) + " counts=" + natList(data.SnippetsFiltersDirectivesCount)
	e.line("K "+kind, "M S filters="+ff, "O "+obs, "J S filters="+ff+" "+obs+" marks="+hexList(sortedKeys(marks)))
	if withCounts {
		c := data.NGFResourceCounts
		cf := s.countsField()
		o := fmt.Sprintf("gc=%d gw=%d http=%d grpc=%d tls=%d sec=%d svc=%d ep=%d btp=%d gwcsp=%d rtcsp=%d obs=%d usp=%d np=%d sf=%d",
			c.GatewayClassCount, c.GatewayCount, c.HTTPRouteCount, c.GRPCRouteCount, c.TLSRouteCount, c.SecretCount,
			c.ServiceCount, c.EndpointCount, c.BackendTLSPolicyCount, c.GatewayAttachedClientSettingsPolicyCount,
			c.RouteAttachedClientSettingsPolicyCount, c.ObservabilityPolicyCount, c.UpstreamSettingsPolicyCount,
			c.NginxProxyCount, c.SnippetsFilterCount)
		j := "R " + cf
		for _, f := range strings.Split(o, " ") {
			j += " r_" + f
		}
		e.line("K counts", "M R "+cf, "O "+o, "J "+j)
	}
}

// ------------------------------------------------------------------ flags through the real binary

var flagArgPool = []string{
	"--gateway-ctlr-name=gateway.nginx.org/CTLR-SECRET", "--gatewayclass=myclass-secret", "--gatewayclass=nginx",
	"--gateway=ns-secret/gw-secret", "--config=conf-secret", "--config=my-config", "--service=svc-secret", "--service=svc",
	"--update-gatewayclass-status=false", "--update-gatewayclass-status=true", "--update-gatewayclass-status",
	"--metrics-disable", "--metrics-disable=false", "--metrics-port=9113", "--metrics-port=9114",
	"--metrics-secure-serving", "--health-disable", "--health-port=8081", "--health-port=18081",
	"--leader-election-disable", "--leader-election-lock-name=nginx-gateway-leader-election-lock",
	"--leader-election-lock-name=lock-secret", "--product-telemetry-disable", "--gateway-api-experimental-features",
	"--nginx-plus", "--nginx-plus=true", "--usage-report-secret=nplus-license",
	"--usage-report-secret=my-license", "--usage-report-endpoint=report.secret.org:443", "--usage-report-endpoint=a.example.com",
	"--usage-report-resolver=10.9.8.7:53", "--usage-report-skip-verify", "--usage-report-client-ssl-secret=client-secret",
	"--usage-report-ca-secret=ca-secret", "--snippets-filters", "--snippets-filters=false",
	"-c=conf-short",
}

// arguments that make flag parsing fail (the flags parsed before them stay set)
var flagBadArgPool = []string{
	"--metrics-port=77777", "--health-port=x", "--nginx-plus=maybe", "--no-such-flag=1", "--gatewayclass=UPPER_CASE",
	"--gateway=no-slash", "--usage-report-endpoint=http://SECRET/", "--gateway-ctlr-name", "--config",
	"--usage-report-secret=", "--config=",
}

// non-boolean flags (string / int typed) and boolean flags of `gateway static-mode`
var flagNonBool = []string{"gateway-ctlr-name", "gatewayclass", "gateway", "config", "service", "metrics-port", "health-port",
	"leader-election-lock-name", "usage-report-secret", "usage-report-endpoint", "usage-report-resolver",
	"usage-report-client-ssl-secret", "usage-report-ca-secret"}
var flagBool = []string{"update-gatewayclass-status", "metrics-disable", "metrics-secure-serving", "health-disable",
	"leader-election-disable", "product-telemetry-disable", "gateway-api-experimental-features", "nginx-plus",
	"usage-report-skip-verify", "snippets-filters"}

// every spelling strconv.ParseBool accepts, and near misses; as the VALUE of a non-boolean flag they must still be
// reported as "user-defined" (several are legal resource names / hostnames, so the flag really gets set)
var boolLooking = []string{"1", "0", "t", "f", "true", "false", "T", "F", "TRUE", "FALSE", "True", "False"}
var boolNearMiss = []string{"yes", "no", "on", "off", "01", "tRuE", "truee", "t1", "-1", "y"}

func boolishArg(r *rng.R) string {
	switch r.Intn(4) {
	case 0: // boolean flag, non-canonical spelling (pflag canonicalises through strconv.FormatBool)
		return "--" + flagBool[r.Intn(len(flagBool))] + "=" + boolLooking[r.Intn(len(boolLooking))]
	case 1:
		return "--" + flagNonBool[r.Intn(len(flagNonBool))] + "=" + boolNearMiss[r.Intn(len(boolNearMiss))]
	default:
		return "--" + flagNonBool[r.Intn(len(flagNonBool))] + "=" + boolLooking[r.Intn(len(boolLooking))]
	}
}

func (e *emitter) runFlags(r *rng.R, gw string, n int) {
	var in strings.Builder
	var cases [][]string
	for i := 0; i < n; i++ {
		var args []string
		for k := r.Intn(7); k > 0; k-- {
			if r.Chance(1, 4) {
				args = append(args, boolishArg(r))
			} else if r.Chance(1, 12) {
				args = append(args, flagBadArgPool[r.Intn(len(flagBadArgPool))])
			} else {
				args = append(args, flagArgPool[r.Intn(len(flagArgPool))])
			}
		}
		if i == 0 {
			args = nil
		}
		if i >= 1 && i <= len(flagNonBool) {
			// sweep: one non-boolean flag set to a bool-looking value (rotating through the spellings)
			args = []string{"--" + flagNonBool[i-1] + "=" + boolLooking[(i+int(r.U64()%6))%6]}
		}
		cases = append(cases, args)
		if len(args) == 0 {
			in.WriteString("-\n")
		} else {
			in.WriteString(hexList(args) + "\n")
		}
	}
	ctx, cancel := context.WithTimeout(context.Background(), 120*time.Second)
	defer cancel()
	cmd := exec.CommandContext(ctx, gw)
	cmd.Env = append(os.Environ(), "VERIF_C19_SERVER=1")
	cmd.Stdin = strings.NewReader(in.String())
	out, err := cmd.Output()
	if err != nil {
		e.anomalies++
		e.line("K flags", "X gateway-binary-failed "+hx(err.Error()))
		return
	}
	lines := strings.Split(strings.TrimRight(string(out), "\n"), "\n")
	if len(lines) != len(cases) {
		e.anomalies++
		e.line("K flags", fmt.Sprintf("X gateway-binary-answered-%d-of-%d", len(lines), len(cases)))
		return
	}
	for i, l := range lines {
		if strings.HasPrefix(l, "panic ") || l == "bad" {
			e.anomalies++
			e.line("K flags", "X "+l)
			continue
		}
		f := map[string]string{}
		for _, kv := range strings.Split(l, " ") {
			k, v, _ := strings.Cut(kv, "=")
			f[k] = v
		}
		// a flag with Type()=="bool" whose String() is not true/false is not representable as FlagVal.bool
		if strings.Contains(f["flags"], ":o:") {
			for _, fl := range strings.Split(f["flags"], ",") {
				p := strings.Split(fl, ":")
				if len(p) == 5 && p[1] == "o" && p[4] == hx("bool") {
					e.anomalies++
					e.line("K flags", "X bool-flag-with-non-boolean-string "+fl)
				}
			}
		}
		obs := "names=" + f["names"] + " values=" + f["values"]
		kind := "flags-ok"
		if f["perr"] != "-" {
			kind = "flags-parse-error"
		}
		e.line("K "+kind+fmt.Sprintf("/args=%d", len(cases[i])), "M G flags="+f["flags"], "O "+obs, "J G flags="+f["flags"]+" "+obs+" args="+hexList(cases[i]))
	}
}

// ------------------------------------------------------------------ entry

func Run(args []string) int {
	fs := flag.NewFlagSet("c19", flag.ContinueOnError)
	seed := fs.Uint64("seed", 1, "seed")
	n := fs.Int("n", 300, "number of single-snippet cases")
	nAgg := fs.Int("nagg", 100, "number of multi-filter cases (aggregation, order, counts)")
	nRaw := fs.Int("nraw", 100, "number of raw adversarial texts (correspondence only)")
	nFlags := fs.Int("nflags", 60, "number of generated command lines")
	nPlat := fs.Int("nplat", 120, "number of platform cases (generated nodes / namespaces through the real Collect)")
	nHist := fs.Int("nhist", 40, "number of handler histories (real eventHandlerImpl + real change processor + real Collect after every batch)")
	nBatch := fs.Int("nbatch", 7, "batches per handler history")
	gw := fs.String("gw", "", "path of the gateway binary built with the C19 overlay hook")
	corpus := fs.String("corpus", "", "directory of regression snippets (<ctx>__name files), run first")
	if err := fs.Parse(args); err != nil {
		return 2
	}
	r := rng.New(*seed)
	e := &emitter{w: bufio.NewWriterSize(os.Stdout, 1<<20)}
	defer e.w.Flush()

	// corpus first
	if *corpus != "" {
		ents, _ := os.ReadDir(*corpus)
		for _, ent := range ents {
			b, err := os.ReadFile(filepath.Join(*corpus, ent.Name()))
			if err != nil {
				continue
			}
			short, _, _ := strings.Cut(ent.Name(), "__")
			key := "http.server"
			for k, v := range ctxShort {
				if v == short {
					key = k
				}
			}
			marks := map[string]bool{}
			for _, w := range strings.FieldsFunc(string(b), func(c rune) bool { return strings.ContainsRune(" \t\r\n;{}\"'#\\", c) }) {
				if len(w) >= 4 && strings.ToUpper(w) == w && strings.ToLower(w) != w {
					marks[w] = true
				}
			}
			s := summary{filters: []filter{{snips: []snip{{key, string(b)}}}}}
			e.runCase("corpus/"+ent.Name(), s, marks, false)
		}
	}

	// single snippet, single context: precise attribution of every reported string
	for i := 0; i < *n && e.anomalies < 12; i++ {
		g := &gen{r: r.Fork(), marks: map[string]bool{}, feats: map[string]bool{}}
		key := ctxKeys[g.r.Intn(len(ctxKeys))]
		text, prof := g.snippet(ctxShort[key])
		s := summary{filters: []filter{{snips: []snip{{key, text}}}}}
		e.runCase("single/"+prof+"/"+ctxShort[key]+"/"+strings.Join(sortedKeys(g.feats), "+"), s, g.marks, false)
	}

	// several filters and contexts: aggregation, order, de-duplication, resource counts
	for i := 0; i < *nAgg && e.anomalies < 12; i++ {
		g := &gen{r: r.Fork(), marks: map[string]bool{}, feats: map[string]bool{}}
		s := genSummary(g.r, i%4 == 0)
		tidyOnly := g.r.Chance(2, 3)
		for k := g.r.Intn(6); k > 0; k-- {
			switch {
			case g.r.Chance(1, 8):
				s.filters = append(s.filters, filter{isNil: true})
			case g.r.Chance(1, 8):
				s.filters = append(s.filters, filter{}) // invalid filter: no Snippets map
			default:
				f := filter{}
				keys := append([]string{}, ctxKeys...)
				if g.r.Chance(1, 6) {
					keys = append(keys, "stream", "HTTP")
				}
				rng.Shuffle(g.r, keys)
				for _, key := range keys[:g.r.Range(1, 4)] {
					short := ctxShort[key]
					if short == "" {
						short = "server"
					}
					g.profs = nil
					if tidyOnly {
						g.profs = profiles[:3]
					}
					text, _ := g.snippet(short)
					f.snips = append(f.snips, snip{key, text})
				}
				sort.Slice(f.snips, func(a, b int) bool { return f.snips[a].ctx < f.snips[b].ctx })
				s.filters = append(s.filters, f)
			}
		}
		kind := "agg/any"
		if tidyOnly {
			kind = "agg/tidy"
		}
		e.runCase(fmt.Sprintf("%s/filters=%d", kind, len(s.filters)), s, g.marks, true)
	}

	// raw adversarial text: model = implementation on parseSnippetValueIntoDirectives (one filter, one context)
	for i := 0; i < *nRaw && e.anomalies < 12; i++ {
		g := &gen{r: r.Fork(), marks: map[string]bool{}, feats: map[string]bool{}}
		text := g.rawAdversarial()
		s := summary{filters: []filter{{snips: []snip{{"http", text}}}}}
		data, err, p := collect(s)
		if p != nil || err != nil {
			e.anomalies++
			e.line("K raw", "X collect-failed "+hx(fmt.Sprint(p, err)), "M S filters="+s.filtersField())
			continue
		}
		e.line("K raw", "M S filters="+s.filtersField(),
			"O dirs="+hexList(data.SnippetsFiltersDirectives)+" counts="+natList(data.SnippetsFiltersDirectivesCount))
	}

	if *gw != "" && *nFlags > 0 {
		e.runFlags(r.Fork(), *gw, *nFlags)
	}

	// task C19-truth: platform string and handler histories (truth.go)
	if *nPlat > 0 {
		e.runPlatform(r.Fork(), *nPlat)
	}
	hr := r.Fork()
	for i := 0; i < *nHist && e.anomalies < 12; i++ {
		e.runHistory(i, hr.Fork(), *nBatch)
	}
	if e.anomalies >= 12 {
		fmt.Fprintln(os.Stderr, "c19: stopped early after 12 anomalies")
	}
	return 0
}
