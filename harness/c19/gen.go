package c19

import (
	"fmt"
	"strings"

	"github.com/nginx/nginx-gateway-fabric/verifharness/rng"
)

// ---------------------------------------------------------------------------------------------
// Grammar-based generator of NGINX snippet fragments.
//
// Directive names are lower-case words; every user-provided argument is a MARKED token: upper-case
// letters, digits and punctuation only (hostnames, paths, header values, passwords), so that a leak is
// recognisable in the report independently of any lexer: no correct report (lower-case directive name,
// "-", context name) can contain four consecutive characters of a marked token.
// ---------------------------------------------------------------------------------------------

type gstmt struct {
	name    string
	args    []string // rendered argument texts (already quoted if quoted)
	block   bool
	entries []gstmt // entries of the block
}

type gen struct {
	r     *rng.R
	marks map[string]bool
	feats map[string]bool // layout features used in this snippet (statistics only)
	profs []profile       // profiles to draw from (nil = all)
}

var simpleDirectives = map[string][]string{
	"main":     {"worker_priority", "worker_rlimit_nofile", "env", "load_module", "error_log", "pcre_jit", "worker_shutdown_timeout", "ssl_engine"},
	"http":     {"log_format", "limit_req_zone", "proxy_cache_path", "resolver", "aio", "client_body_timeout", "server_names_hash_bucket_size", "js_import", "keyval_zone"},
	"server":   {"add_header", "set", "ssl_certificate", "ssl_certificate_key", "auth_basic_user_file", "return", "rewrite", "allow", "deny", "client_max_body_size", "auth_delay", "ignore_invalid_headers", "proxy_ssl_password_file"},
	"location": {"proxy_set_header", "proxy_pass", "add_header", "limit_req", "auth_basic", "rewrite", "sub_filter", "keepalive_time", "allow", "proxy_hide_header", "auth_jwt_key_file", "proxy_cookie_domain"},
}

var blockDirectives = map[string][]string{
	"main":     {"events", "thread_pool_block"},
	"http":     {"map", "geo", "types", "split_clients", "upstream"},
	"server":   {"if", "location", "types"},
	"location": {"if", "limit_except", "types", "location"},
}

const upper = "ABCDEFGHIJKLMNOPQRSTUVWXYZ"
const alnumU = "ABCDEFGHIJKLMNOPQRSTUVWXYZ0123456789"

func (g *gen) word(n int) string {
	b := make([]byte, n)
	b[0] = upper[g.r.Intn(len(upper))]
	for i := 1; i < n; i++ {
		b[i] = alnumU[g.r.Intn(len(alnumU))]
	}
	return string(b)
}

// mark produces a secret-looking argument token (no whitespace, no NGINX special characters).
func (g *gen) mark() string {
	var s string
	switch g.r.Intn(7) {
	case 0:
		s = g.word(g.r.Range(4, 8)) + ".EXAMPLE.ORG"
	case 1:
		s = "/ETC/SSL/" + g.word(6) + ".KEY"
	case 2:
		s = "HTTPS://" + g.word(5) + ".CORP:8443/" + g.word(4)
	case 3:
		s = "10." + fmt.Sprint(g.r.Intn(256)) + ".77." + fmt.Sprint(g.r.Intn(256)) + "/24"
	case 4:
		s = "PASSWD=" + g.word(8)
	case 5:
		s = "$" + g.word(5) // a variable name chosen by the user
	default:
		s = g.word(g.r.Range(4, 10))
	}
	g.marks[s] = true
	return s
}

// quotedMark produces a quoted argument; withSemi puts a ';' inside.
func (g *gen) quotedMark(withSemi bool) string {
	q := "\""
	if g.r.Chance(1, 3) {
		q = "'"
	}
	parts := []string{g.mark()}
	for i := g.r.Intn(3); i > 0; i-- {
		parts = append(parts, g.mark())
	}
	var b strings.Builder
	b.WriteString(q)
	for i, p := range parts {
		if i > 0 {
			if withSemi && i == 1 {
				if g.r.Chance(1, 3) {
					b.WriteString("\\" + q) // an escaped quote right before the ';': still inside the quotes
				}
				b.WriteString(g.pick(";", "; ", " ; ", ";\n", ";  "))
			} else {
				b.WriteString(g.pick(" ", "  ", ", "))
			}
		}
		b.WriteString(p)
	}
	if withSemi && len(parts) == 1 {
		b.WriteString(g.pick(";", "; "))
		b.WriteString(g.mark())
	}
	if g.r.Chance(1, 6) {
		b.WriteString("\\" + q + g.mark()) // escaped quote inside
	}
	b.WriteString(q)
	return b.String()
}

func (g *gen) pick(xs ...string) string { return xs[g.r.Intn(len(xs))] }

type profile struct {
	name       string
	quoted     int // chance /10 that an argument is quoted
	quotedSemi int // chance /10 that a quoted argument contains ';'
	nameTab    int // chance /10 that the separator after the name is not a space
	argTab     int // chance /10 that a separator between arguments is not a single space
	comments   int // chance /10 per statement of a comment line before it / trailing after it
	blocks     int // chance /10 that a statement is a block directive
	escSemi    int // chance /10 of an argument with an escaped ';'
	varBrace   int // chance /10 of a ${VAR} argument
	glued      int // chance /10 that '{' is glued to the previous word
	crlf       int // chance /10 that line ends are CRLF
	indentTab  int // chance /10 that statements are indented with tabs
	midQuote   int // chance /10 of a bare argument with a quote in its middle / at its end (it's, a"b, x')
}

var profiles = []profile{
	{name: "tidy"},
	{name: "tidy"},
	{name: "tidy-indent", argTab: 4, indentTab: 6, crlf: 3},
	{name: "quoted", quoted: 5},
	{name: "quoted-semi", quoted: 6, quotedSemi: 6},
	{name: "ws-sep", nameTab: 5, argTab: 4},
	{name: "comment", comments: 5},
	{name: "block", blocks: 5},
	{name: "block-glued", blocks: 5, glued: 5},
	{name: "escape", escSemi: 4, varBrace: 4},
	{name: "midquote", quoted: 5, quotedSemi: 7, midQuote: 4},
	{name: "mixed", midQuote: 1, quoted: 3, quotedSemi: 3, nameTab: 2, argTab: 2, comments: 2, blocks: 2, escSemi: 1, varBrace: 1, glued: 1, crlf: 1, indentTab: 2},
}

func (g *gen) arg(p profile) string {
	switch {
	case g.r.Chance(p.midQuote, 10):
		// NGINX recognises quotes only at the START of a token (ngx_conf_read_token: `last_space`): a quote inside or at the
		// end of a bare word is an ordinary character and does not open a quoted section
		g.feats["midword-quote"] = true
		q := g.pick("'", "'", "\"")
		switch g.r.Intn(4) {
		case 0:
			return g.mark() + q + "S"
		case 1:
			return g.mark() + q + g.mark()
		case 2:
			return g.mark() + q
		default:
			return "$" + g.word(4) + q + g.mark() + q + g.mark() + q
		}
	case g.r.Chance(p.quoted, 10):
		semi := g.r.Chance(p.quotedSemi, 10)
		if semi {
			g.feats["quoted-semi"] = true
		} else {
			g.feats["quoted"] = true
		}
		return g.quotedMark(semi)
	case g.r.Chance(p.escSemi, 10):
		g.feats["escaped-semi"] = true
		return g.mark() + "\\;" + g.mark()
	case g.r.Chance(p.varBrace, 10):
		g.feats["var-brace"] = true
		return "${" + g.word(4) + "}" + g.mark()
	}
	return g.mark()
}

func (g *gen) stmt(ctx string, p profile, depth int) gstmt {
	if depth < 2 && g.r.Chance(p.blocks, 10) {
		names := blockDirectives[ctx]
		if names == nil {
			names = blockDirectives["http"]
		}
		s := gstmt{name: names[g.r.Intn(len(names))], block: true}
		for i := g.r.Intn(3); i > 0; i-- {
			s.args = append(s.args, g.arg(p))
		}
		inner := "location"
		for i := g.r.Intn(4); i > 0; i-- {
			if s.name == "map" || s.name == "geo" || s.name == "types" || s.name == "split_clients" {
				// entries are user data: "hostname value;"
				e := gstmt{name: g.mark()}
				e.args = []string{g.mark()}
				s.entries = append(s.entries, e)
			} else {
				s.entries = append(s.entries, g.stmt(inner, p, depth+1))
			}
		}
		g.feats["block"] = true
		return s
	}
	names := simpleDirectives[ctx]
	if names == nil {
		names = simpleDirectives["server"]
	}
	s := gstmt{name: names[g.r.Intn(len(names))]}
	for i := g.r.Range(0, 3); i > 0; i-- {
		s.args = append(s.args, g.arg(p))
	}
	return s
}

func (g *gen) comment(p profile) string {
	var b strings.Builder
	b.WriteString("#")
	for i := g.r.Range(0, 4); i > 0; i-- {
		b.WriteString(g.pick(" ", "", "  "))
		b.WriteString(g.mark())
		if g.r.Chance(1, 4) {
			b.WriteString(";")
		}
	}
	// NGINX ends a comment at LF only (ngx_conf_read_token: sharp_comment): a lone CR, a CR at the end (CRLF line ends),
	// tabs, ';', braces and quotes inside a comment are comment text
	if g.r.Chance(1, 2) {
		switch g.r.Intn(9) {
		case 7: // a backslash at the end of a comment does NOT continue it on the next line
			b.WriteString(" C:\\" + g.mark() + "\\")
		case 0:
			b.WriteString(" previously:\r" + g.mark() + " " + g.mark() + ";")
		case 1:
			b.WriteString("\r\t" + g.mark() + ";")
		case 2:
			b.WriteString(" {\r" + g.mark() + " " + g.mark() + "; }")
		case 3:
			b.WriteString("\r\"" + g.mark() + ";")
		case 4:
			b.WriteString("\t" + g.mark() + "\r")
		case 5:
			b.WriteString("\r\r" + g.mark() + " " + g.mark())
		case 6:
			b.WriteString(" '" + g.mark() + "\r" + g.mark() + ";\r")
		default:
			b.WriteString("\r" + g.pick("return", "set", "add_header", "proxy_pass") + " " + g.mark() + ";")
		}
		g.feats["comment-cr"] = true
	}
	g.feats["comment"] = true
	return b.String()
}

func (g *gen) render(b *strings.Builder, s gstmt, p profile, nl, indent string, last bool) {
	if p.quoted > 0 && s.name == strings.ToLower(s.name) && g.r.Chance(1, 8) {
		// NGINX strips the quotes of a quoted directive name
		g.feats["quoted-name"] = true
		q := g.pick("\"", "'")
		b.WriteString(q + s.name + q)
	} else {
		b.WriteString(s.name)
	}
	for i, a := range s.args {
		sep := " "
		if i == 0 && g.r.Chance(p.nameTab, 10) {
			sep = g.pick("\t", "\n", "\t\t", nl+indent, "\r\n")
			g.feats["name-ws-sep"] = true
		} else if i > 0 && g.r.Chance(p.argTab, 10) {
			sep = g.pick("\t", "  ", nl+"    ", " \t")
		}
		b.WriteString(sep)
		b.WriteString(a)
	}
	if s.block {
		if g.r.Chance(p.glued, 10) {
			g.feats["glued-brace"] = true
			b.WriteString("{")
		} else {
			b.WriteString(g.pick(" {", " {", nl+"{"))
		}
		if len(s.entries) == 0 {
			b.WriteString(g.pick(" ", "", nl))
		}
		for _, e := range s.entries {
			b.WriteString(g.pick(nl+"    ", " ", nl+"\t"))
			g.render(b, e, p, nl, indent+"    ", false)
		}
		if len(s.entries) > 0 {
			b.WriteString(g.pick(nl, " ", ""))
		}
		b.WriteString("}")
		return
	}
	if last && g.r.Chance(1, 8) {
		g.feats["no-final-semicolon"] = true
		return
	}
	b.WriteString(";")
}

// snippet returns (text, profile name).
func (g *gen) snippet(ctx string) (string, string) {
	ps := g.profs
	if ps == nil {
		ps = profiles
	}
	p := ps[g.r.Intn(len(ps))]
	nl := "\n"
	if g.r.Chance(p.crlf, 10) {
		nl = "\r\n"
		g.feats["crlf"] = true
	}
	indent := ""
	if g.r.Chance(p.indentTab, 10) {
		indent = g.pick("\t", "  ", "\t\t")
	}
	n := g.r.Range(1, 5)
	var b strings.Builder
	b.WriteString(g.pick("", "", nl, " ", indent))
	for i := 0; i < n; i++ {
		if g.r.Chance(p.comments, 10) {
			b.WriteString(g.comment(p))
			b.WriteString(nl)
			b.WriteString(indent)
		}
		s := g.stmt(ctx, p, 0)
		g.render(&b, s, p, nl, indent, i == n-1)
		if g.r.Chance(p.comments, 20) {
			b.WriteString(" ")
			b.WriteString(g.comment(p))
			b.WriteString(nl)
		} else if i < n-1 {
			b.WriteString(g.pick(nl, nl, " ", nl+nl, "", nl+indent))
		}
	}
	b.WriteString(g.pick("", nl, " ", nl+nl))
	return b.String(), p.name
}

// rawAdversarial produces arbitrary text over a small alphabet of NGINX-relevant characters; used for the
// model/implementation correspondence (and the lexer-independent mark check), including text NGINX rejects.
func (g *gen) rawAdversarial() string {
	alphabet := []string{" ", " ", "\t", "\n", "\r\n", ";", ";", "{", "}", "\"", "'", "#", "\\", "$", "${", "-",
		"a", "b", "add_header", "set", "map", " ", " ", "\v", "\f", "\u0085", "é", "x-y", "\x00"}
	var b strings.Builder
	for i := g.r.Range(0, 24); i > 0; i-- {
		if g.r.Chance(1, 5) {
			b.WriteString(g.mark())
		} else {
			b.WriteString(alphabet[g.r.Intn(len(alphabet))])
		}
	}
	return b.String()
}
