package c19

// Task C19-truth: two more streams through the REAL telemetry.DataCollectorImpl.Collect.
//
//  1. platform: the fake Kubernetes reader serves generated nodes (providerIDs with and without "://", OCIDs, host ids,
//     "openstack:/uuid", white space, non-ASCII, empty), node labels and namespaces; the reported ClusterPlatform goes to the
//     Lean model (PL lines: getPlatform) and the Lean judge (clause platform-not-closed).
//  2. handler histories: the REAL static.eventHandlerImpl (overlay accessor VerifC19NewHandler) wired to the REAL change
//     processor and service resolver of the shared pipeline; file manager / NGINX runtime stubs whose outcome the harness
//     chooses per batch {ok, ReplaceFiles error, Reload error, Plus API error}. After EVERY batch the real Collect runs, wired
//     as manager.go wires it: GraphGetter = the change processor, ConfigurationGetter = the event handler. The judge holds
//     every reported count against ONE snapshot taken independently: processor.GetLatestGraph() and the configuration
//     dataplane.BuildConfiguration builds from THAT graph.

import (
	"context"
	"errors"
	"fmt"
	"reflect"
	"sort"
	"strings"
	"time"

	ngxclient "github.com/nginxinc/nginx-plus-go-client/client"
	v1 "k8s.io/api/core/v1"
	discoveryV1 "k8s.io/api/discovery/v1"
	metav1 "k8s.io/apimachinery/pkg/apis/meta/v1"
	"k8s.io/apimachinery/pkg/types"
	"k8s.io/client-go/tools/record"
	"sigs.k8s.io/controller-runtime/pkg/client"
	gatewayv1 "sigs.k8s.io/gateway-api/apis/v1"

	"github.com/nginx/nginx-gateway-fabric/internal/framework/events"
	"github.com/nginx/nginx-gateway-fabric/internal/framework/kinds"
	frameworkStatus "github.com/nginx/nginx-gateway-fabric/internal/framework/status"
	static "github.com/nginx/nginx-gateway-fabric/internal/mode/static"
	"github.com/nginx/nginx-gateway-fabric/internal/mode/static/config"
	"github.com/nginx/nginx-gateway-fabric/internal/mode/static/licensing/licensingfakes"
	"github.com/nginx/nginx-gateway-fabric/internal/mode/static/nginx/file"
	"github.com/nginx/nginx-gateway-fabric/internal/mode/static/state"
	"github.com/nginx/nginx-gateway-fabric/internal/mode/static/state/dataplane"
	"github.com/nginx/nginx-gateway-fabric/internal/mode/static/state/graph"
	"github.com/nginx/nginx-gateway-fabric/internal/mode/static/telemetry"
	p "github.com/nginx/nginx-gateway-fabric/verifharness/pipeline"
	"github.com/nginx/nginx-gateway-fabric/verifharness/rng"
	"github.com/nginx/nginx-gateway-fabric/verifharness/scen"
)

// ------------------------------------------------------------------ platform

// envReader is the fake API reader of the platform stream: the nodes and namespaces are the generated ones.
type envReader struct {
	nodes      []v1.Node
	namespaces []string
}

func (e envReader) Get(ctx context.Context, key client.ObjectKey, obj client.Object, o ...client.GetOption) error {
	return reader{}.Get(ctx, key, obj, o...)
}

func (e envReader) List(_ context.Context, list client.ObjectList, _ ...client.ListOption) error {
	switch l := list.(type) {
	case *v1.NodeList:
		l.Items = e.nodes
	case *v1.NamespaceList:
		l.Items = nil
		for _, n := range e.namespaces {
			l.Items = append(l.Items, v1.Namespace{ObjectMeta: metav1.ObjectMeta{Name: n}})
		}
	default:
		return fmt.Errorf("unexpected List %T", list)
	}
	return nil
}

// providerIDs of the documented form <name>://<id>
var pidKnown = []string{
	"gce://my-project/us-central1-a/gke-NODE-7f3a", "aws:///us-east-1a/i-0ABCDEF1234567890", "azure:///subscriptions/SUB-ID/resourceGroups/RG/vm/0",
	"kind://docker/kind/kind-control-plane", "k3s://K3S-SERVER-1",
}
var pidOtherScheme = []string{
	"oci://ocid1.instance.oc1.phx.ANYHQLJTSECRETOCID", "vsphere://4230A0F0-UUID-SECRET", "openstack:///6F1A-UUID", "digitalocean://123456789",
	"ibm://ACCOUNT///CLUSTER/NODE", " oci ://x", "\tlinode\t://42", "equinixmetal://", "x://y://z", "a/b://c", "k8s.io/provider://n",
	"baremetalhost:///metal3/NODE-UID", "\u00a0nbsp\u00a0://id", "é-cloud://NODE", "alicloud://cn-hangzhou.i-SECRET", "external://HOST.CORP.EXAMPLE.COM",
}

// non-empty providerIDs WITHOUT "://" (Kubernetes does not enforce the format) and degenerate ones
var pidNoScheme = []string{
	"", "ocid1.instance.oc1.phx.ANYHQLJTSECRETOCID", "HOST-17.INTERNAL.CORP.EXAMPLE.COM", "openstack:/6F1A-UUID", "openstack:6F1A-UUID",
	"i-0ABCDEF1234567890", "node:/", "a:/ /b", "//double", ":/", ":", "/", "   ", "://", "  ://x", "\t://", "metal/rack-4/NODE-9",
	"kindly-not-kind", "awsome-host", "GCE://UPPER", "azurestack-NODE", "k3sup:NODE", "10.20.30.40", "uuid:4230A0F0-SECRET",
}

func genProviderID(r *rng.R) (string, string) {
	switch r.Intn(10) {
	case 0, 1:
		return rng.Pick(r, pidKnown), "known"
	case 2, 3, 4:
		return rng.Pick(r, pidOtherScheme), "other-scheme"
	case 5, 6, 7:
		return rng.Pick(r, pidNoScheme), "no-scheme"
	default:
		alphabet := []string{"a", "b", "k", "i", "n", "d", "g", "c", "e", "w", "s", ":", ":", "/", "/", "://", " ", "\t", ".", "-", "\u00a0", "é", "SECRET", "3"}
		var b strings.Builder
		for i := r.Range(0, 12); i > 0; i-- {
			b.WriteString(rng.Pick(r, alphabet))
		}
		return b.String(), "random"
	}
}

func (e *emitter) runPlatform(r *rng.R, n int) {
	for i := 0; i < n && e.anomalies < 12; i++ {
		pid, class := genProviderID(r)
		if i < len(pidNoScheme) {
			pid, class = pidNoScheme[i], "no-scheme" // deterministic sweep over the providerIDs without "://"
		} else if i < len(pidNoScheme)+len(pidOtherScheme) {
			pid, class = pidOtherScheme[i-len(pidNoScheme)], "other-scheme"
		} else if i < len(pidNoScheme)+len(pidOtherScheme)+len(pidKnown) {
			pid, class = pidKnown[i-len(pidNoScheme)-len(pidOtherScheme)], "known"
		}
		labels := map[string]string{}
		lab := "none"
		sweep := i < len(pidNoScheme)+len(pidOtherScheme)+len(pidKnown)
		if !sweep {
			switch r.Intn(8) {
			case 0:
				labels["node.openshift.io/os_id"] = "rhcos"
				lab = "openshift"
			case 1:
				labels["node.openshift.io/os_id"] = ""
				lab = "openshift-empty"
			case 2:
				labels["node.openshift.io/os_id2"] = "rhcos"
				labels["kubernetes.io/os"] = "linux"
				lab = "other-labels"
			}
		}
		nss := []string{"default", "kube-system"}
		if !sweep {
			switch r.Intn(8) {
			case 0:
				nss = append(nss, "cattle-system")
				lab += "+rancher"
			case 1:
				nss = append([]string{"cattle-system2", "cattle", "Cattle-System"}, nss...)
			case 2:
				nss = nil
			}
		}
		nodes := []v1.Node{{
			ObjectMeta: metav1.ObjectMeta{Name: "node1", Labels: labels},
			Spec:       v1.NodeSpec{ProviderID: pid},
			Status:     v1.NodeStatus{NodeInfo: v1.NodeSystemInfo{KubeletVersion: "v1.30.1"}},
		}}
		for k := r.Intn(3); k > 0; k-- { // further nodes are not looked at (nodes.Items[0])
			other := rng.Pick(r, pidOtherScheme)
			ol := map[string]string{}
			if r.Chance(1, 3) {
				ol["node.openshift.io/os_id"] = "rhcos"
			}
			nodes = append(nodes, v1.Node{ObjectMeta: metav1.ObjectMeta{Name: fmt.Sprintf("node%d", k+1), Labels: ol},
				Spec: v1.NodeSpec{ProviderID: other}})
		}
		var data telemetry.Data
		var err error
		var panicked any
		func() {
			defer func() {
				if rec := recover(); rec != nil {
					panicked = rec
				}
			}()
			g, cfg := summary{}.build()
			c := telemetry.NewDataCollectorImpl(telemetry.DataCollectorConfig{
				K8sClientReader:     envReader{nodes: nodes, namespaces: nss},
				GraphGetter:         graphGetter{g},
				ConfigurationGetter: confGetter{cfg},
				Version:             "verif",
				PodNSName:           types.NamespacedName{Namespace: "nginx-gateway", Name: "ngf-pod"},
				ImageSource:         "local",
				Flags:               config.Flags{Names: []string{"f"}, Values: []string{"default"}},
			})
			ctx, cancel := context.WithTimeout(context.Background(), 10*time.Second)
			defer cancel()
			data, err = c.Collect(ctx)
		}()
		if panicked != nil || err != nil {
			e.anomalies++
			e.line("K platform", "X collect-failed "+hx(fmt.Sprint(panicked, err)))
			continue
		}
		ks := make([]string, 0, len(labels))
		for k := range labels {
			ks = append(ks, k)
		}
		sort.Strings(ks)
		lf := "-"
		if len(ks) > 0 {
			parts := make([]string, len(ks))
			for j, k := range ks {
				parts[j] = hx(k) + ":" + hx(labels[k])
			}
			lf = strings.Join(parts, ",")
		}
		in := "PL labels=" + lf + " ns=" + hexList(nss) + " pid=" + hx(pid)
		obs := "platform=" + hx(data.ClusterPlatform)
		e.line("K platform/"+class+"/"+lab, "M "+in, "O "+obs, "J "+in+" "+obs)
	}
}

// ------------------------------------------------------------------ handler histories

type hStubGenerator struct{}

func (hStubGenerator) Generate(conf dataplane.Configuration) []file.File {
	return []file.File{{Path: "/etc/nginx/conf.d/http.conf", Type: file.TypeRegular,
		Content: []byte(fmt.Sprintf("# version %d\n", conf.Version))}}
}

func (hStubGenerator) GenerateDeploymentContext(dataplane.DeploymentContext) (file.File, error) {
	return file.File{Path: "/etc/nginx/main-includes/deployment_ctx.json", Type: file.TypeRegular, Content: []byte("{}")}, nil
}

type hStubFileMgr struct{ ok, called bool }

func (f *hStubFileMgr) ReplaceFiles([]file.File) error {
	f.called = true
	if !f.ok {
		return errors.New("verif: write failed: no space left on device")
	}
	return nil
}

type hStubRuntime struct {
	plus, reloadOK, apiOK bool
	failed                bool
}

func (r *hStubRuntime) Reload(context.Context, int) error {
	if !r.reloadOK {
		r.failed = true
		return errors.New("verif: nginx: [emerg] reload failed")
	}
	return nil
}
func (r *hStubRuntime) IsPlus() bool { return r.plus }
func (r *hStubRuntime) GetUpstreams() (ngxclient.Upstreams, ngxclient.StreamUpstreams, error) {
	if !r.apiOK {
		r.failed = true
		return nil, nil, errors.New("verif: NGINX Plus API unavailable")
	}
	return ngxclient.Upstreams{}, ngxclient.StreamUpstreams{}, nil
}
func (r *hStubRuntime) UpdateHTTPServers(string, []ngxclient.UpstreamServer) error         { return nil }
func (r *hStubRuntime) UpdateStreamServers(string, []ngxclient.StreamUpstreamServer) error { return nil }

// hRecProcessor delegates to the real ChangeProcessorImpl and records what Process returned.
type hRecProcessor struct {
	state.ChangeProcessor
	lastCT    state.ChangeType
	lastGraph *graph.Graph
}

func (r *hRecProcessor) Process() (state.ChangeType, *graph.Graph) {
	ct, g := r.ChangeProcessor.Process()
	r.lastCT = ct
	if ct != state.NoChange {
		r.lastGraph = g
	}
	return ct, g
}

type hNopUpdater struct{}

func (hNopUpdater) UpdateGroup(context.Context, string, ...frameworkStatus.UpdateRequest) {}

// summarize reads off a real graph and a real configuration exactly what collectGraphResourceCount is about: the sizes of
// the sets (independent reading: no call into the telemetry package).
func summarize(g *graph.Graph, cfg *dataplane.Configuration) summary {
	s := summary{gc: g.GatewayClass != nil, gw: g.Gateway != nil, np: g.NginxProxy != nil,
		igc: len(g.IgnoredGatewayClasses), igw: len(g.IgnoredGateways), l4: len(g.L4Routes),
		sec: len(g.ReferencedSecrets), svc: len(g.ReferencedServices), btp: len(g.BackendTLSPolicies)}
	var rk []string
	for k, rt := range g.Routes {
		c := "o"
		switch rt.RouteType {
		case graph.RouteTypeHTTP:
			c = "h"
		case graph.RouteTypeGRPC:
			c = "g"
		}
		rk = append(rk, k.NamespacedName.String()+"/"+string(k.RouteType)+"\x00"+c)
	}
	sort.Strings(rk)
	for _, k := range rk {
		s.routes = append(s.routes, k[len(k)-1])
	}
	type pk struct {
		key string
		pol policy
	}
	var pks []pk
	for k, pol := range g.NGFPolicies {
		kind := "x"
		switch k.GVK.Kind {
		case kinds.ClientSettingsPolicy:
			kind = "c"
		case kinds.ObservabilityPolicy:
			kind = "o"
		case kinds.UpstreamSettingsPolicy:
			kind = "u"
		}
		pl := policy{kind: kind}
		for _, ref := range pol.TargetRefs {
			pl.refs = append(pl.refs, ref.Kind == kinds.Gateway)
		}
		pks = append(pks, pk{k.NsName.String() + "/" + k.GVK.Kind, pl})
	}
	sort.Slice(pks, func(i, j int) bool { return pks[i].key < pks[j].key })
	for _, x := range pks {
		s.pols = append(s.pols, x.pol)
	}
	for range g.SnippetsFilters {
		s.filters = append(s.filters, filter{isNil: true})
	}
	if cfg != nil {
		for _, u := range cfg.Upstreams {
			s.ups = append(s.ups, ups{err: u.ErrorMsg != "", n: len(u.Endpoints)})
		}
	}
	return s
}

func semi(s string) string { return strings.ReplaceAll(s, " ", ";") }

func realCounts(c telemetry.NGFResourceCounts) string {
	return fmt.Sprintf("gc=%d;gw=%d;http=%d;grpc=%d;tls=%d;sec=%d;svc=%d;ep=%d;btp=%d;gwcsp=%d;rtcsp=%d;obs=%d;usp=%d;np=%d;sf=%d",
		c.GatewayClassCount, c.GatewayCount, c.HTTPRouteCount, c.GRPCRouteCount, c.TLSRouteCount, c.SecretCount,
		c.ServiceCount, c.EndpointCount, c.BackendTLSPolicyCount, c.GatewayAttachedClientSettingsPolicyCount,
		c.RouteAttachedClientSettingsPolicyCount, c.ObservabilityPolicyCount, c.UpstreamSettingsPolicyCount,
		c.NginxProxyCount, c.SnippetsFilterCount)
}

// cafeScenario: one Gateway with an HTTP listener, k HTTPRoutes, each to its own Service with 1-4 ready endpoints — every
// route contributes an upstream whose endpoints are counted, so that graph counts and EndpointCount move together.
func cafeScenario(r *rng.R) *scen.Scenario {
	s := &scen.Scenario{Opts: p.DefaultOptions(), Tags: map[string]int{"cafe": 1}}
	s.Objs = append(s.Objs, p.Namespace("default", map[string]string{"kubernetes.io/metadata.name": "default"}),
		p.GatewayClass(p.DefaultClass, p.DefaultController, 1),
		p.Gateway("default", "gw", p.DefaultClass, 2, p.Listener{Name: "http", Port: 80, Protocol: "HTTP"}))
	for i, k := 0, r.Range(2, 5); i < k; i++ {
		svc := fmt.Sprintf("app%d", i)
		s.Objs = append(s.Objs, p.Service("default", svc, 80))
		var addrs []string
		for a := r.Range(1, 4); a > 0; a-- {
			addrs = append(addrs, fmt.Sprintf("10.%d.0.%d", i+1, a))
		}
		s.Objs = append(s.Objs, p.EndpointSlice("default", svc, "s0", []int32{80}, addrs...))
		s.Objs = append(s.Objs, p.HTTPRoute("default", fmt.Sprintf("route%d", i), 3+i,
			[]gatewayv1.ParentReference{p.ParentRef("default", "gw", "http")}, []string{fmt.Sprintf("app%d.example.com", i)},
			p.HTTPRule([]gatewayv1.HTTPRouteMatch{p.PathMatch("PathPrefix", "/")}, p.Backend{Ref: svc, Port: 80, Weight: 1})))
	}
	return s
}

// runHistory drives one controller through nb batches and emits ONE line (model input H, observation, judge input H).
func (e *emitter) runHistory(id int, r *rng.R, nb int) {
	var sc *scen.Scenario
	base := "scen"
	if id%2 == 0 {
		sc, base = cafeScenario(r), "cafe"
	} else {
		scfg := scen.DefaultConfig()
		scfg.MaxHTTP, scfg.PInvalid, scfg.PCrossNS, scfg.PMissingClass = 6, 6, 12, 1 // more attached routes, hence more upstreams
		sc = scen.Generate(r, scfg)
	}
	plus := r.Chance(1, 3)
	opts := sc.Opts
	opts.Plus = plus
	c := p.NewController(opts)
	proc := &hRecProcessor{ChangeProcessor: c.Proc}
	fm := &hStubFileMgr{}
	rt := &hStubRuntime{plus: plus}
	h := static.VerifC19NewHandler(static.VerifC19Deps{
		Plus: plus, Generator: hStubGenerator{}, FileMgr: fm, RuntimeMgr: rt, Processor: proc, Resolver: c.Resolver,
		StatusUpdater: hNopUpdater{}, K8sClient: c.Client, DeployCtx: &licensingfakes.FakeCollector{},
		EventRecorder: record.NewFakeRecorder(1 << 12), CtlrName: opts.Controller,
	})
	// wired as internal/mode/static/manager.go wires the collector (fact collectorWiring): GraphGetter = the change
	// processor itself, ConfigurationGetter = the event handler
	collector := telemetry.NewDataCollectorImpl(telemetry.DataCollectorConfig{
		K8sClientReader:     reader{},
		GraphGetter:         c.Proc,
		ConfigurationGetter: h,
		Version:             "verif",
		PodNSName:           types.NamespacedName{Namespace: "nginx-gateway", Name: "ngf-pod"},
		ImageSource:         "local",
		Flags:               config.Flags{Names: []string{"f"}, Values: []string{"default"}},
	})

	cur := map[p.Key]client.Object{}
	var order []p.Key
	gone := map[p.Key]client.Object{}
	known := map[p.Key]bool{}
	for _, o := range sc.Objs {
		cp := o.DeepCopyObject().(client.Object)
		k := p.KeyOf(cp)
		if !known[k] {
			known[k] = true
			order = append(order, k)
		}
		cur[k] = cp
	}
	syncSlice := func(es *discoveryV1.EndpointSlice, del bool) {
		cp := es.DeepCopy()
		cp.ResourceVersion = ""
		existing := &discoveryV1.EndpointSlice{}
		err := c.Client.Get(context.Background(), client.ObjectKeyFromObject(cp), existing)
		switch {
		case del && err == nil:
			_ = c.Client.Delete(context.Background(), existing)
		case del:
		case err == nil:
			cp.ResourceVersion = existing.ResourceVersion
			_ = c.Client.Update(context.Background(), cp)
		default:
			_ = c.Client.Create(context.Background(), cp)
		}
	}
	upsert := func(o client.Object) interface{} {
		k := p.KeyOf(o)
		if !known[k] {
			known[k] = true
			order = append(order, k)
		}
		cur[k] = o
		delete(gone, k)
		if es, ok := o.(*discoveryV1.EndpointSlice); ok {
			syncSlice(es, false)
		}
		return &events.UpsertEvent{Resource: o.DeepCopyObject().(client.Object)}
	}
	del := func(k p.Key) interface{} {
		o := cur[k]
		delete(cur, k)
		gone[k] = o
		if es, ok := o.(*discoveryV1.EndpointSlice); ok {
			syncSlice(es, true)
		}
		t := reflect.New(reflect.TypeOf(o).Elem()).Interface().(client.Object) // bare type, as the reconciler sends it
		return &events.DeleteEvent{Type: t, NamespacedName: k.NN}
	}
	live := func(kindsWanted ...string) []p.Key {
		var out []p.Key
		for _, k := range order {
			if _, ok := cur[k]; !ok {
				continue
			}
			for _, w := range kindsWanted {
				if k.Kind == w {
					out = append(out, k)
				}
			}
		}
		return out
	}

	var msteps, osteps, jsteps, descr []string
	failedBatches, changed := 0, 0
	delivered := false
	for b := 0; b < nb; b++ {
		var batch events.EventBatch
		what := ""
		switch {
		case b == 0 && r.Chance(1, 8):
			what = "empty start-up batch"
		case !delivered:
			delivered = true
			for _, k := range order {
				batch = append(batch, upsert(cur[k]))
			}
			what = fmt.Sprintf("start-up batch: upsert %d objects", len(batch))
		default:
			x := r.Intn(100)
			switch {
			case x < 30: // a route goes away / comes back
				ks := live("HTTPRoute", "GRPCRoute", "TLSRoute")
				if len(ks) > 0 && (len(gone) == 0 || r.Chance(2, 3)) {
					for n := r.Range(1, 2); n > 0 && len(ks) > 0; n-- {
						i := r.Intn(len(ks))
						batch = append(batch, del(ks[i]))
						what += "delete " + ks[i].String() + "; "
						ks = append(ks[:i], ks[i+1:]...)
					}
				} else {
					var gk []p.Key
					for k := range gone {
						gk = append(gk, k)
					}
					sort.Slice(gk, func(i, j int) bool { return gk[i].String() < gk[j].String() })
					if len(gk) > 0 {
						k := rng.Pick(r, gk)
						batch = append(batch, upsert(gone[k]))
						what += "re-create " + k.String() + "; "
					}
				}
			case x < 60: // endpoints of a referenced Service change
				var refd []types.NamespacedName
				if proc.lastGraph != nil {
					for nn := range proc.lastGraph.ReferencedServices {
						refd = append(refd, nn)
					}
				}
				sort.Slice(refd, func(i, j int) bool { return refd[i].String() < refd[j].String() })
				// prefer Services that have an upstream in the configuration the handler holds (their endpoints are counted)
				if lc := h.GetLatestConfiguration(); lc != nil && r.Chance(3, 4) {
					var withUp []types.NamespacedName
					for _, nn := range refd {
						for _, u := range lc.Upstreams {
							if strings.HasPrefix(u.Name, nn.Namespace+"_"+nn.Name+"_") {
								withUp = append(withUp, nn)
								break
							}
						}
					}
					if len(withUp) > 0 {
						refd = withUp
					}
				}
				if len(refd) > 0 {
					svc := rng.Pick(r, refd)
					var slices []p.Key
					for _, k := range live("EndpointSlice") {
						if es := cur[k].(*discoveryV1.EndpointSlice); es.Labels[discoveryV1.LabelServiceName] == svc.Name && k.NN.Namespace == svc.Namespace {
							slices = append(slices, k)
						}
					}
					if len(slices) > 0 && r.Chance(1, 2) {
						k := rng.Pick(r, slices)
						batch = append(batch, del(k))
						what += "delete " + k.String() + "; "
					} else {
						var addrs []string
						for a := r.Range(1, 4); a > 0; a-- {
							addrs = append(addrs, fmt.Sprintf("10.99.%d.%d", r.Intn(200), r.Range(1, 250)))
						}
						ports := []int32{80}
						if so, ok := cur[p.Key{Kind: "Service", NN: svc}]; ok {
							ports = nil
							for _, sp := range so.(*v1.Service).Spec.Ports {
								ports = append(ports, sp.Port)
							}
						}
						es := p.EndpointSlice(svc.Namespace, svc.Name, fmt.Sprintf("hx%d", r.Intn(2)), ports, addrs...)
						batch = append(batch, upsert(es))
						what += fmt.Sprintf("upsert EndpointSlice %s/%s (%d addresses); ", es.Namespace, es.Name, len(addrs))
					}
				}
			case x < 72: // a Service / Gateway / Secret / policy goes away
				ks := live("Service", "Gateway", "Secret", "ClientSettingsPolicy", "BackendTLSPolicy", "GatewayClass", "ReferenceGrant")
				if len(ks) > 0 {
					k := rng.Pick(r, ks)
					batch = append(batch, del(k))
					what += "delete " + k.String() + "; "
				}
			case x < 84: // a route is edited
				ks := live("HTTPRoute")
				if len(ks) > 0 {
					k := rng.Pick(r, ks)
					hr := cur[k].DeepCopyObject().(*gatewayv1.HTTPRoute)
					hr.Generation++
					hr.Spec.Hostnames = append(hr.Spec.Hostnames, gatewayv1.Hostname(fmt.Sprintf("h%d.example.com", r.Intn(50))))
					if len(hr.Spec.Rules) > 0 && r.Bool() {
						hr.Spec.Rules = hr.Spec.Rules[:len(hr.Spec.Rules)-1] // fewer backends referenced
					}
					batch = append(batch, upsert(hr))
					what += "edit " + k.String() + "; "
				}
			default: // nothing relevant
			}
			if what == "" {
				what = "no events"
			}
		}

		// what the environment does with this batch's update
		fm.ok, rt.reloadOK, rt.apiOK = true, true, true
		outcome := "ok"
		if r.Chance(45, 100) {
			switch r.Intn(3) {
			case 0:
				fm.ok, outcome = false, "wf"
			case 1:
				rt.reloadOK, outcome = false, "rf"
			default:
				rt.apiOK, outcome = false, "af"
			}
		}
		fm.called, rt.failed = false, false
		proc.lastCT = state.NoChange

		panicked := ""
		var data telemetry.Data
		var cerr error
		func() {
			defer func() {
				if rec := recover(); rec != nil {
					panicked = fmt.Sprintf("%v", rec)
				}
			}()
			h.HandleEventBatch(context.Background(), batch)
			ctx, cancel := context.WithTimeout(context.Background(), 10*time.Second)
			defer cancel()
			data, cerr = collector.Collect(ctx)
		}()
		if panicked != "" {
			e.anomalies++
			e.line(fmt.Sprintf("K history/%d", id), "X panic "+hx(panicked))
			return
		}

		// independent snapshot: the processor's latest graph and the configuration built from THAT graph, now
		var snapG *graph.Graph
		func() {
			defer func() { _ = recover() }()
			snapG = c.Proc.GetLatestGraph()
		}()
		snap := "none"
		if snapG != nil {
			cfg := dataplane.BuildConfiguration(context.Background(), snapG, c.Resolver, 0)
			snap = semi(summarize(snapG, &cfg).countsField())
		}
		real := "r=none"
		obs := "none"
		if cerr == nil {
			rc := realCounts(data.NGFResourceCounts)
			obs = rc
			real = "r_" + strings.ReplaceAll(rc, ";", ";r_")
		}
		errBit := "0"
		if h.LatestReloadErr() != nil {
			errBit = "1"
		}
		if rt.failed || (fm.called && !fm.ok) {
			failedBatches++
		}
		switch proc.lastCT {
		case state.NoChange:
			msteps = append(msteps, "n")
		default:
			changed++
			ct := "c"
			if proc.lastCT == state.EndpointsOnlyChange {
				ct = "e"
			}
			cfg := dataplane.BuildConfiguration(context.Background(), proc.lastGraph, c.Resolver, 0)
			msteps = append(msteps, ct+";"+outcome+";"+semi(summarize(proc.lastGraph, &cfg).countsField()))
		}
		osteps = append(osteps, obs+";err="+errBit)
		jsteps = append(jsteps, snap+";"+real)
		ctn := map[state.ChangeType]string{state.NoChange: "NoChange", state.EndpointsOnlyChange: "EndpointsOnlyChange", state.ClusterStateChange: "ClusterStateChange"}[proc.lastCT]
		upd := map[string]string{"ok": "update succeeds", "wf": "ReplaceFiles fails", "rf": "Reload fails", "af": "Plus API fails"}[outcome]
		if proc.lastCT == state.NoChange {
			upd = "no update"
		}
		descr = append(descr, fmt.Sprintf("b%d: %s [%s, %s, error recorded by the handler=%s]", b, strings.TrimSuffix(what, "; "), ctn, upd, errBit))
	}
	kind := fmt.Sprintf("history/%s/plus=%s/failed=%d/changed=%d", base, b01(plus), failedBatches, changed)
	e.line("K "+kind, "M H plus="+b01(plus)+" steps="+strings.Join(msteps, "|"), "O out="+strings.Join(osteps, "|"),
		"J H steps="+strings.Join(jsteps, "|"), "D "+hx(strings.Join(descr, "\n")))
}
