package c17

// frag.go: metamorphic pairs (s, s ∪ X) INSIDE the fragment of the Lean pipeline model (Model/Pipeline.lean +
// Model/PipelineRefs.lean): tie of `noninterference_foreign_set` (Props/C17.lean §Pipeline) to the real code.
//
// s   : C06's in-fragment generator (c06.GenRefs on top of c02.GenFragment): one served Gateway, HTTP listeners,
//       HTTPRoutes, Services / backendRefs / ReferenceGrants redrawn.
// X   : GatewayClasses of other names (also one of OUR controller), Gateways of other classes (older, same names,
//       HTTPS listeners), HTTPRoutes attached to no listener of the served Gateway (foreign Gateway, unknown Gateway,
//       our Gateway's name in another namespace, unknown section, a Same-namespace listener from another namespace,
//       parentRef of another kind) that use OUR hostnames and paths, Services only they name (+EndpointSlices),
//       ReferenceGrants naming only those Services. All objects of s ∪ X arrive shuffled.
//
// Per pair three lines:
//   two lines in C06's `refs` format (k=e2e, c17=fragA|fragB): fed to `ngfdriver_C06 refs`, which compares
//       abstractConf(real http.conf) with genR of the decoded ScenarioR — on BOTH sides;
//   one line k=fragx with both flat views and whether the order-normalised generated files of the two runs are equal:
//       fed to `ngfdriver_C17 fragx` (hypotheses of the theorem on the decoded pair, conclusion on the model, verdict).

import (
	"encoding/json"
	"fmt"

	apiv1 "k8s.io/api/core/v1"
	"sigs.k8s.io/controller-runtime/pkg/client"
	gatewayv1 "sigs.k8s.io/gateway-api/apis/v1"

	"github.com/nginx/nginx-gateway-fabric/verifharness/c02"
	"github.com/nginx/nginx-gateway-fabric/verifharness/c06"
	p "github.com/nginx/nginx-gateway-fabric/verifharness/pipeline"
	"github.com/nginx/nginx-gateway-fabric/verifharness/rng"
	"github.com/nginx/nginx-gateway-fabric/verifharness/scen"
)

const matchesJSONPath = "/etc/nginx/conf.d/matches.json"

type fragSide struct {
	K       string   `json:"k"`
	C17     string   `json:"c17"`
	ID      string   `json:"id"`
	In      any      `json:"in"`
	Obs     any      `json:"obs"`
	Flat    any      `json:"flat"`
	Matches string   `json:"matches"`
	RefSvcs []string `json:"refsvcs"`
}

type fragPair struct {
	K       string         `json:"k"`
	ID      string         `json:"id"`
	A       map[string]any `json:"a"`
	B       map[string]any `json:"b"`
	FilesEq bool           `json:"filesEq"`
	FilesA  []string       `json:"filesA"`
	FilesB  []string       `json:"filesB"`
	X       []string       `json:"x"`
	Panic   string         `json:"panic,omitempty"`
}

// genFragX draws a foreign set for the in-fragment scenario objs.
func genFragX(r *rng.R, objs []client.Object, opts p.Options, tags map[string]int) []client.Object {
	var x []client.Object
	var nss, hosts []string
	var served *gatewayv1.Gateway
	classes := map[string]bool{}
	gwNames := map[jNN]bool{}
	paths := map[string]bool{}
	for _, o := range objs {
		switch v := o.(type) {
		case *apiv1.Namespace:
			nss = append(nss, v.Name)
		case *gatewayv1.GatewayClass:
			classes[v.Name] = true
		case *gatewayv1.Gateway:
			gwNames[jNN{v.Namespace, v.Name}] = true
			if string(v.Spec.GatewayClassName) == opts.Class && (served == nil || v.CreationTimestamp.Before(&served.CreationTimestamp)) {
				served = v
			}
		case *gatewayv1.HTTPRoute:
			for _, h := range v.Spec.Hostnames {
				hosts = append(hosts, string(h))
			}
			for _, rule := range v.Spec.Rules {
				for _, m := range rule.Matches {
					if m.Path != nil && m.Path.Value != nil {
						paths[*m.Path.Value] = true
					}
				}
			}
		}
	}
	if len(nss) == 0 {
		nss = []string{"default"}
	}
	var pathPool []string
	for _, k := range []string{"/", "/coffee", "/tea", "/coffee/latte", "/t", "/a/b", "/x"} {
		if paths[k] || r.Chance(30, 100) {
			pathPool = append(pathPool, k)
		}
	}
	if len(pathPool) == 0 {
		pathPool = []string{"/"}
	}
	// classes
	for _, c := range []struct{ name, ctlr string }{{"acme", scen.ForeignController}, {"istio", "example.net/istio"}, {"nginx-2", opts.Controller}} {
		if !classes[c.name] && r.Chance(50, 100) {
			classes[c.name] = true
			x = append(x, p.GatewayClass(c.name, c.ctlr, r.Intn(5)))
			tags["fragx-class"]++
		}
	}
	// gateways of other classes
	var fgws []jNN
	for i, n := 0, r.Range(1, 3); i < n; i++ {
		ns, name := rng.Pick(r, nss), fmt.Sprintf("xgw%d", i)
		if served != nil && r.Chance(40, 100) {
			name = served.Name // our Gateway's name in another namespace
			for _, cand := range nss {
				if !gwNames[jNN{cand, name}] {
					ns = cand
				}
			}
		}
		if gwNames[jNN{ns, name}] {
			continue
		}
		gwNames[jNN{ns, name}] = true
		ls := []p.Listener{{Name: "l0", Port: 80, Protocol: "HTTP", Hostname: rng.Pick(r, append([]string{""}, hosts...)), FromNS: "All"}}
		if r.Chance(40, 100) {
			ls = append(ls, p.Listener{Name: "tls", Port: 443, Protocol: "HTTPS", Hostname: "secure.example.com", CertRefs: []string{"xtls"}, FromNS: "All"})
		}
		x = append(x, p.Gateway(ns, name, rng.Pick(r, []string{"other", "acme", "ghost-class", "Nginx", "nginx-2"}), r.Intn(3)-5, ls...))
		fgws = append(fgws, jNN{ns, name})
		tags["fragx-gateway"]++
	}
	// foreign routes
	needSvc := map[string]bool{}
	grantFor := map[[2]string]bool{}
	for i, n := 0, r.Range(1, 4); i < n; i++ {
		ns := rng.Pick(r, nss)
		var prs []gatewayv1.ParentReference
		switch k := r.Intn(100); {
		case k < 35 && len(fgws) > 0:
			g := rng.Pick(r, fgws)
			prs = append(prs, p.ParentRef(g.NS, g.Name, rng.Pick(r, []string{"", "", "l0"})))
			tags["fragx-route-foreign-gateway"]++
		case k < 55 && served != nil:
			prs = append(prs, p.ParentRef(served.Namespace, served.Name, "no-such-listener"))
			tags["fragx-route-unknown-section"]++
		case k < 70 && served != nil:
			// a listener that admits its own namespace only, named from another namespace
			done := false
			for _, l := range served.Spec.Listeners {
				same := l.AllowedRoutes == nil || l.AllowedRoutes.Namespaces == nil || l.AllowedRoutes.Namespaces.From == nil ||
					*l.AllowedRoutes.Namespaces.From == gatewayv1.NamespacesFromSame
				if same && !done {
					for _, cand := range nss {
						if cand != served.Namespace {
							ns = cand
							prs = append(prs, p.ParentRef(served.Namespace, served.Name, string(l.Name)))
							tags["fragx-route-namespace-not-allowed"]++
							done = true
							break
						}
					}
				}
			}
			if !done {
				prs = append(prs, p.ParentRef(ns, "no-such-gw", ""))
			}
		case k < 85 && served != nil:
			// our Gateway's name, defaulted / explicit other namespace
			for _, cand := range nss {
				if !gwNames[jNN{cand, served.Name}] || (len(fgws) > 0 && cand != served.Namespace) {
					if cand != served.Namespace {
						ns = cand
						prs = append(prs, p.ParentRef("", served.Name, ""))
						tags["fragx-route-own-name-other-namespace"]++
						break
					}
				}
			}
			if len(prs) == 0 {
				prs = append(prs, p.ParentRef(ns, "no-such-gw", ""))
			}
		default:
			if served != nil && r.Bool() {
				pr := p.ParentRef(served.Namespace, served.Name, "")
				pr.Kind = ptr(gatewayv1.Kind("Service"))
				pr.Group = ptr(gatewayv1.Group(""))
				prs = append(prs, pr)
				tags["fragx-route-parent-kind-service"]++
			} else {
				prs = append(prs, p.ParentRef(ns, "no-such-gw", ""))
				tags["fragx-route-unknown-gateway"]++
			}
		}
		var hs []string
		if len(hosts) > 0 && r.Chance(70, 100) {
			hs = append(hs, rng.Pick(r, hosts))
		}
		var rules []gatewayv1.HTTPRouteRule
		for j, k := 0, r.Range(1, 2); j < k; j++ {
			rule := p.HTTPRule([]gatewayv1.HTTPRouteMatch{p.PathMatch(rng.Pick(r, []string{"Exact", "PathPrefix"}), rng.Pick(r, pathPool))})
			svcNS := ns
			if r.Chance(40, 100) {
				svcNS = rng.Pick(r, nss)
			}
			name := "xsvc0"
			if r.Chance(30, 100) {
				name = "svc0" // one of OUR Services (same namespace only: no grant of X may name it)
				svcNS = ns
			}
			b := gatewayv1.BackendRef{BackendObjectReference: gatewayv1.BackendObjectReference{
				Name: gatewayv1.ObjectName(name), Port: ptr(gatewayv1.PortNumber(80))}}
			if svcNS != ns {
				b.Namespace = ptr(gatewayv1.Namespace(svcNS))
				grantFor[[2]string{ns, svcNS}] = true
			}
			if name == "xsvc0" {
				needSvc[svcNS] = true
			}
			rule.BackendRefs = []gatewayv1.HTTPBackendRef{{BackendRef: b}}
			rules = append(rules, rule)
		}
		x = append(x, p.HTTPRoute(ns, fmt.Sprintf("xr%d", i), r.Intn(6)-3, prs, hs, rules...))
		tags["fragx-route"]++
	}
	for ns := range needSvc {
		if r.Chance(80, 100) {
			x = append(x, p.Service(ns, "xsvc0", 80), p.EndpointSlice(ns, "xsvc0", "x0", []int32{80}, "10.9.9.9"))
			tags["fragx-service"]++
		}
	}
	for k := range grantFor {
		if r.Chance(70, 100) {
			x = append(x, p.ReferenceGrant(k[1], "xgrant-"+k[0], []p.GrantFrom{{Group: gatewayv1.GroupName, Kind: "HTTPRoute", Namespace: k[0]}},
				[]p.GrantTo{{Group: "", Kind: "Service", Name: "xsvc0"}}))
			tags["fragx-grant"]++
		}
	}
	// deterministic order for the map-driven appends above
	sortObjs(x)
	// what the API server would default (parentRef group/kind, backendRef group/kind/weight, listener allowedRoutes)
	c02.ApplyDefaults(x)
	return x
}

func sortObjs(x []client.Object) {
	for i := 1; i < len(x); i++ {
		for j := i; j > 0 && p.KeyOf(x[j]).String() < p.KeyOf(x[j-1]).String(); j-- {
			x[j], x[j-1] = x[j-1], x[j]
		}
	}
}

func sideOf(id, tag string, objs []client.Object, opts p.Options, out p.Output) (fragSide, map[string]any) {
	fl := c02.Flatten(objs, opts)
	in := c06.Flatten(objs)
	refSvcs := []string{}
	if out.Graph != nil {
		for k := range out.Graph.ReferencedServices {
			refSvcs = append(refSvcs, k.Namespace+"/"+k.Name)
		}
	}
	s := fragSide{K: "e2e", C17: tag, ID: id, In: in, Obs: c06.Observe(out, objs, opts.Controller), Flat: &fl,
		Matches: p.FileText(out.Files, matchesJSONPath), RefSvcs: refSvcs}
	return s, map[string]any{"flat": &fl, "in": in}
}

func runFrag(e *emitter, r *rng.R, n int, tags map[string]int) {
	writeLine := func(v any) {
		b, err := json.Marshal(v)
		if err != nil {
			panic(err)
		}
		e.w.Write(b)
		e.w.WriteByte('\n')
		e.w.Flush()
	}
	panics := 0
	for i := 0; i < n && panics < 12; i++ {
		s := c06.GenRefs(r.Fork())
		opts := p.DefaultOptions()
		base := s.Objs
		x := genFragX(r.Fork(), base, opts, tags)
		all := append(cloneAll(base), x...)
		rng.Shuffle(r, all)
		_, outA := p.RunFresh(cloneAll(base), opts, nil)
		_, outB := p.RunFresh(cloneAll(all), opts, nil)
		id := fmt.Sprintf("f%d", i)
		sa, ja := sideOf(id, "fragA", base, opts, outA)
		sb, jb := sideOf(id, "fragB", all, opts, outB)
		writeLine(sa)
		writeLine(sb)
		fa, fb := FileHashes(outA.Files), FileHashes(outB.Files)
		eq := hashOf(fa) == hashOf(fb)
		if !eq && outA.Panic == "" && outB.Panic == "" {
			// the generator's output is not a function of its input in a few places (Go map order, C14): repeat
			tags["frag-repeated"]++
			ra, _ := repeat(r, base, opts, extraRuns)
			rb, _ := repeat(r, all, opts, extraRuns, x...)
			ra, rb = append(ra, hashOf(fa)), append(rb, hashOf(fb))
			for _, a := range ra {
				for _, b := range rb {
					eq = eq || a == b
				}
			}
		}
		pr := fragPair{K: "fragx", ID: id, A: ja, B: jb, FilesA: fa, FilesB: fb, FilesEq: eq, X: keysOf(x)}
		if outA.Panic != "" || outB.Panic != "" {
			pr.Panic = p.PanicSite(outA.Panic + outB.Panic)
			panics++
		}
		writeLine(pr)
		tags["frag-pair"]++
	}
}
