package c17

import (
	"sort"
	"strings"
)

// Order-normalisation of a generated NGINX file before hashing (DESIGN.md §8): the generator ranges over
// Go maps, so the order of the top-level blocks (upstream / server / map / split_clients …) and of the
// `server` lines inside an `upstream` block differs between two runs on the SAME input. Those orders carry
// no meaning for NGINX (every server block has an explicit listen/default_server and server_name).
// Everything inside a server / map / split_clients block keeps its order.

// topLevel splits text into its top-level statements (simple directives and whole blocks).
func topLevel(text string) []string {
	var out []string
	depth, start := 0, 0
	var quote byte
	for i := 0; i < len(text); i++ {
		c := text[i]
		switch {
		case quote != 0:
			if c == '\\' {
				i++
			} else if c == quote {
				quote = 0
			}
		case c == '"' || c == '\'':
			quote = c
		case c == '#':
			for i < len(text) && text[i] != '\n' {
				i++
			}
		case c == '{':
			depth++
		case c == '}':
			depth--
			if depth == 0 {
				out = append(out, strings.TrimSpace(text[start:i+1]))
				start = i + 1
			}
		case c == ';' && depth == 0:
			out = append(out, strings.TrimSpace(text[start:i+1]))
			start = i + 1
		}
	}
	if rest := strings.TrimSpace(text[start:]); rest != "" {
		out = append(out, rest)
	}
	return out
}

func normaliseConf(text string) string {
	stmts := topLevel(text)
	for i, s := range stmts {
		if strings.HasPrefix(s, "upstream ") {
			lines := strings.Split(s, "\n")
			var servers []int
			for j, l := range lines {
				if strings.HasPrefix(strings.TrimSpace(l), "server ") {
					servers = append(servers, j)
				}
			}
			vals := make([]string, len(servers))
			for k, j := range servers {
				vals[k] = lines[j]
			}
			sort.Strings(vals)
			for k, j := range servers {
				lines[j] = vals[k]
			}
			stmts[i] = strings.Join(lines, "\n")
		}
	}
	sort.Strings(stmts)
	return strings.Join(stmts, "\n")
}
