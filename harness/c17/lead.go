package c17

// lead.go: ownership-changing histories through the REAL status.LeaderAwareGroupUpdater.
//
// A long-lived controller (harness/pipeline, all events delivered) processes event batches; after every batch
// that rebuilt the graph its requests are submitted exactly as eventHandlerImpl.updateStatuses does:
//
//	UpdateGroup(ctx, "all-graphs-except-gateways", gcReqs+routeReqs+polReqs+ngfPolReqs+snippetsFilterReqs...)
//	UpdateGroup(ctx, "gateways", gwReqs...)
//
// to the real LeaderAwareGroupUpdater in front of the real status.Updater over a recording Kubernetes client
// (Get answers from the cluster as it is at that moment, Status().Update is recorded). The replica is NOT the
// leader for a prefix of the batches; Enable is called at a generated point.
//
// Lines:
//   {"k":"lead", "in":<cluster as of the last batch processed>, "j":{"phase":pre|enable|post,"reqs":[…],"writes":[…]}}
//     one per operation, judged by the Lean judge (no write before Enable; no request at/after Enable for an
//     object that is foreign at that moment);
//   {"k":"leadops","batches":[<state of every batch that rebuilt the graph>],"enableAfter":n,"outs":[[…]…]}
//     one per history: correspondence of the Lean composition (targets ∘ buildGraph through Leader.run).

import (
	"context"
	"encoding/json"
	"fmt"
	"reflect"
	"sort"

	"github.com/go-logr/logr"
	apierrors "k8s.io/apimachinery/pkg/api/errors"
	"k8s.io/apimachinery/pkg/runtime/schema"
	"k8s.io/apimachinery/pkg/types"
	"sigs.k8s.io/controller-runtime/pkg/client"
	gatewayv1 "sigs.k8s.io/gateway-api/apis/v1"
	"sigs.k8s.io/gateway-api/apis/v1alpha2"

	ngfAPI "github.com/nginx/nginx-gateway-fabric/apis/v1alpha1"
	"github.com/nginx/nginx-gateway-fabric/internal/framework/controller/predicate"
	frameworkStatus "github.com/nginx/nginx-gateway-fabric/internal/framework/status"
	"github.com/nginx/nginx-gateway-fabric/internal/mode/static/state"
	"github.com/nginx/nginx-gateway-fabric/internal/mode/static/state/graph"
	p "github.com/nginx/nginx-gateway-fabric/verifharness/pipeline"
	"github.com/nginx/nginx-gateway-fabric/verifharness/rng"
	"github.com/nginx/nginx-gateway-fabric/verifharness/scen"
)

// the group names of internal/mode/static/handler.go
const (
	groupAllExceptGateways = "all-graphs-except-gateways"
	groupGateways          = "gateways"
)

// leadClient is the Kubernetes client of the real status.Updater: Get answers from the harness cluster as it
// is NOW, Status().Update is recorded. Only these two are reachable from status.Updater.
type leadClient struct {
	client.Client // nil: any other method panics
	cl      *cluster
	gets    []p.Key
	updates []p.Key
}

func (c *leadClient) Get(_ context.Context, key types.NamespacedName, obj client.Object, _ ...client.GetOption) error {
	k := p.Key{Kind: p.KindOf(obj), NN: key}
	c.gets = append(c.gets, k)
	src, ok := c.cl.objs[k]
	if !ok {
		return apierrors.NewNotFound(schema.GroupResource{Resource: k.Kind}, key.Name)
	}
	reflect.ValueOf(obj).Elem().Set(reflect.ValueOf(src.DeepCopyObject()).Elem())
	return nil
}

func (c *leadClient) Status() client.SubResourceWriter { return leadStatusWriter{c} }

type leadStatusWriter struct{ c *leadClient }

func (s leadStatusWriter) Create(context.Context, client.Object, client.Object, ...client.SubResourceCreateOption) error {
	panic("c17: unexpected Status().Create")
}

func (s leadStatusWriter) Patch(context.Context, client.Object, client.Patch, ...client.SubResourcePatchOption) error {
	panic("c17: unexpected Status().Patch")
}

func (s leadStatusWriter) Update(_ context.Context, obj client.Object, _ ...client.SubResourceUpdateOption) error {
	s.c.updates = append(s.c.updates, p.KeyOf(obj))
	return nil
}

// take returns (and forgets) what the Updater did since the last call.
func (c *leadClient) take() (reqs, writes []string) {
	reqs, writes = []string{}, []string{}
	for _, k := range c.gets {
		reqs = append(reqs, TargetStr(k))
	}
	for _, k := range c.updates {
		writes = append(writes, TargetStr(k))
	}
	c.gets, c.updates = nil, nil
	sort.Strings(reqs)
	sort.Strings(writes)
	return reqs, writes
}

// splitRequests mirrors updateStatuses: the Gateway requests form their own group.
func splitRequests(reqs []frameworkStatus.UpdateRequest) (rest, gws []frameworkStatus.UpdateRequest) {
	for _, rq := range reqs {
		if _, ok := rq.ResourceType.(*gatewayv1.Gateway); ok {
			gws = append(gws, rq)
		} else {
			rest = append(rest, rq)
		}
	}
	return rest, gws
}

func safely(f func()) (panicked string) {
	defer func() {
		if r := recover(); r != nil {
			panicked = fmt.Sprint(r)
		}
	}()
	f()
	return ""
}

// runLead runs one history. enableAfter = number of batches (0 … steps+1) processed before Enable.
func runLead(e *emitter, r *rng.R, s *scen.Scenario, objs []client.Object, steps, enableAfter int, tags map[string]int, sc *script) {
	h := &hist{r: r, cl: newCluster(nil), ctl: p.NewController(s.Opts), opts: s.Opts, pred: false, tags: tags, store: map[string]string{},
		gcp: predicate.GatewayClassPredicate{ControllerName: s.Opts.Controller}}
	kc := &leadClient{cl: h.cl}
	lu := frameworkStatus.NewLeaderAwareGroupUpdater(frameworkStatus.NewUpdater(kc, logr.Discard()))
	ctx := context.Background()
	name := "random"
	if sc != nil {
		name = sc.name
	}
	var lastGraph *graph.Graph
	var batches []jState // state of every batch that rebuilt the graph
	var outs [][]string  // requests handed to the Updater by every operation (2 per such batch, 1 for Enable)
	changedBefore := 0
	enabled := false
	enable := func(step int) bool {
		if pn := safely(func() { lu.Enable(ctx) }); pn != "" {
			l := jLine{K: "lead", Tag: name + " enable-panic"}
			l.In = Flatten(cloneAll(h.cl.list()), s.Opts, lastGraph)
			l.J.Panic = pn
			e.emit(l)
			return false
		}
		enabled = true
		changedBefore = len(batches)
		rq, wr := kc.take()
		outs = append(outs, rq)
		// judged against the cluster as it is NOW (= as of the last batch processed before Enable)
		l := jLine{K: "lead", Tag: fmt.Sprintf("%s step%d enableAfter%d enable", name, step, enableAfter)}
		l.In = Flatten(cloneAll(h.cl.list()), s.Opts, lastGraph)
		l.J.X, l.J.Targets, l.J.Kept = []string{}, []string{}, []jKept{}
		l.J.Phase, l.J.Reqs, l.J.Writes = "enable", rq, wr
		e.emit(l)
		tags["lead-enable"]++
		if len(rq) > 0 {
			tags["lead-enable-flushed-requests"]++
		}
		return true
	}
	// start-up batch: everything that exists
	for _, o := range objs {
		h.upsert(o)
	}
	for step := 0; step <= steps; step++ {
		if step == enableAfter && !enabled {
			if !enable(step) {
				return
			}
		}
		if step > 0 && sc != nil {
			for _, op := range sc.steps[step-1] {
				op(h)
			}
		} else if step > 0 {
			for n := r.Range(1, 3); n > 0; n-- {
				h.op()
			}
		}
		h.ctl.Version = 0
		out := h.ctl.Apply(nil)
		if out.Panic != "" {
			l := jLine{K: "lead", Tag: name + " pipeline-panic"}
			l.In, l.Obs = Flatten(cloneAll(h.cl.list()), s.Opts, nil), Observe(out)
			l.J.Panic = l.Obs.Panic
			e.emit(l)
			return
		}
		if out.Change == state.NoChange {
			tags["lead-nochange"]++
			continue
		}
		lastGraph = out.Graph
		batches = append(batches, Flatten(cloneAll(h.cl.list()), s.Opts, out.Graph))
		rest, gws := splitRequests(out.Requests)
		phase := "pre"
		if enabled {
			phase = "post"
		}
		for _, g := range []struct {
			name string
			reqs []frameworkStatus.UpdateRequest
		}{{groupAllExceptGateways, rest}, {groupGateways, gws}} {
			if pn := safely(func() { lu.UpdateGroup(ctx, g.name, g.reqs...) }); pn != "" {
				l := jLine{K: "lead", Tag: name + " updategroup-panic"}
				l.In = Flatten(cloneAll(h.cl.list()), s.Opts, lastGraph)
				l.J.Panic = pn
				e.emit(l)
				return
			}
			rq, wr := kc.take()
			outs = append(outs, rq)
			l := jLine{K: "lead", Tag: fmt.Sprintf("%s step%d enableAfter%d %s %s", name, step, enableAfter, phase, g.name)}
			l.In = batches[len(batches)-1]
			l.J.X, l.J.Targets, l.J.Kept = []string{}, []string{}, []jKept{}
			l.J.Phase, l.J.Reqs, l.J.Writes = phase, rq, wr
			e.emit(l)
		}
		tags["lead-batch-"+phase]++
	}
	if !enabled {
		if !enable(steps + 1) {
			return
		}
	}
	b, _ := json.Marshal(map[string]any{"k": "leadops", "name": name, "batches": batches, "enableAfter": changedBefore, "outs": outs})
	e.w.Write(b)
	e.w.WriteByte('\n')
	e.w.Flush()
}

func runLeadRandom(e *emitter, r *rng.R, steps int, tags map[string]int) {
	s := scen.Generate(r.Fork(), scen.DefaultConfig())
	w := Emphasise(r.Fork(), s)
	objs := append(s.Objs, w.GenX(r.Fork(), s.Opts)...)
	tags["lead-random-history"]++
	runLead(e, r, s, objs, steps, r.Intn(steps+2), tags, nil)
}

// scripted ownership changes (every script is run with every possible Enable point)
func runLeadScripted(e *emitter, r *rng.R, tags map[string]int) {
	opts := p.DefaultOptions()
	foreign := scen.ForeignController
	gwKey := func(n string) p.Key { return p.Key{Kind: "Gateway", NN: client.ObjectKey{Namespace: "default", Name: n}} }
	hrKey := func(n string) p.Key { return p.Key{Kind: "HTTPRoute", NN: client.ObjectKey{Namespace: "default", Name: n}} }
	mkGw := func(n, class string, age int, port int32) *gatewayv1.Gateway {
		return p.Gateway("default", n, class, age, p.Listener{Name: "http", Port: port, Protocol: "HTTP"})
	}
	mkRoute := func(n, gw, path string) *gatewayv1.HTTPRoute {
		return p.HTTPRoute("default", n, 20, []gatewayv1.ParentReference{p.ParentRef("", gw, "")}, []string{"cafe.example.com"},
			p.HTTPRule([]gatewayv1.HTTPRouteMatch{p.PathMatch("PathPrefix", path)}, p.Backend{Ref: "svc0", Port: 80, Weight: -1}))
	}
	cluster := func() []client.Object {
		hr0 := mkRoute("hr0", "gw0", "/")
		hr0.Spec.Rules[0].Filters = []gatewayv1.HTTPRouteFilter{{Type: gatewayv1.HTTPRouteFilterExtensionRef, ExtensionRef: extRef("sf")}}
		sf := &ngfAPI.SnippetsFilter{ObjectMeta: p.Meta("default", "sf", 30)}
		sf.Spec.Snippets = []ngfAPI.Snippet{{Context: ngfAPI.NginxContextHTTP, Value: "aio on;"}}
		csp := &ngfAPI.ClientSettingsPolicy{ObjectMeta: p.Meta("default", "csp0", 31)}
		csp.Spec.TargetRef = v1alpha2.LocalPolicyTargetReference{Group: gatewayv1.GroupName, Kind: "Gateway", Name: "gw0"}
		csp.Spec.KeepAlive = &ngfAPI.ClientKeepAlive{Requests: ptr(int32(77))}
		return []client.Object{
			p.Namespace("default", nil),
			p.Service("default", "svc0", 80),
			p.EndpointSlice("default", "svc0", "s0", []int32{80}, "10.0.0.5"),
			p.GatewayClass(opts.Class, opts.Controller, 1),
			p.GatewayClass("nginx-2", opts.Controller, 2),
			p.GatewayClass("other", foreign, 3),
			mkGw("gw0", opts.Class, 10, 80), mkGw("gw1", opts.Class, 11, 8080), mkGw("fgw", "other", 1, 80),
			hr0, mkRoute("hr1", "gw1", "/one"), mkRoute("xr", "fgw", "/x"), sf, csp,
		}
	}
	edit := func(k p.Key, f func(o client.Object)) func(h *hist) {
		return func(h *hist) {
			cur, ok := h.cl.objs[k]
			if !ok {
				return
			}
			o := cur.DeepCopyObject().(client.Object)
			f(o)
			bump(o)
			h.upsert(o)
		}
	}
	reclass := func(gw, class string) func(h *hist) {
		return edit(gwKey(gw), func(o client.Object) { o.(*gatewayv1.Gateway).Spec.GatewayClassName = gatewayv1.ObjectName(class) })
	}
	retarget := func(route, gw string) func(h *hist) {
		return edit(hrKey(route), func(o client.Object) {
			o.(*gatewayv1.HTTPRoute).Spec.ParentRefs = []gatewayv1.ParentReference{p.ParentRef("", gw, "")}
		})
	}
	touch := edit(hrKey("hr1"), func(o client.Object) {
		hr := o.(*gatewayv1.HTTPRoute)
		if len(hr.Spec.Hostnames) == 1 {
			hr.Spec.Hostnames = append(hr.Spec.Hostnames, "tea.example.com")
		} else {
			hr.Spec.Hostnames = hr.Spec.Hostnames[:1]
		}
	})
	polTarget := func(gw string) func(h *hist) {
		return edit(p.Key{Kind: "ClientSettingsPolicy", NN: client.ObjectKey{Namespace: "default", Name: "csp0"}}, func(o client.Object) {
			o.(*ngfAPI.ClientSettingsPolicy).Spec.TargetRef.Name = gatewayv1.ObjectName(gw)
		})
	}
	setCtlr := func(class, ctlr string) func(h *hist) {
		return edit(p.Key{Kind: "GatewayClass", NN: client.ObjectKey{Name: class}}, func(o client.Object) {
			o.(*gatewayv1.GatewayClass).Spec.ControllerName = gatewayv1.GatewayController(ctlr)
		})
	}
	del := func(k p.Key) func(h *hist) { return func(h *hist) { h.delete(k) } }
	create := func(o client.Object) func(h *hist) {
		return func(h *hist) { h.upsert(o.DeepCopyObject().(client.Object)) }
	}
	type batch = []func(h *hist)
	scripts := []struct {
		name  string
		steps []batch
	}{
		{"lead-gateway-reclassed", []batch{{reclass("gw1", "other")}, {touch}}},
		{"lead-winner-gateway-reclassed", []batch{{reclass("gw0", "other")}, {reclass("fgw", opts.Class)}}},
		{"lead-parentref-retargeted", []batch{{retarget("hr0", "fgw")}, {retarget("xr", "gw1"), touch}}},
		{"lead-policy-target-moved", []batch{{polTarget("fgw")}, {touch}, {polTarget("gw1")}}},
		{"lead-configured-class-turns-foreign", []batch{{setCtlr(opts.Class, foreign)}, {touch}, {setCtlr(opts.Class, opts.Controller)}}},
		{"lead-ignored-class-turns-foreign", []batch{{setCtlr("nginx-2", foreign)}, {touch}}},
		{"lead-gateway-deleted-recreated-under-other-class", []batch{{del(gwKey("gw1"))}, {create(mkGw("gw1", "other", 40, 8080))}, {touch}}},
		{"lead-route-deleted-recreated-with-foreign-parent", []batch{{del(hrKey("hr0"))}, {create(mkRoute("hr0", "fgw", "/"))}}},
		{"lead-two-changes-one-batch", []batch{{reclass("gw1", "other"), retarget("hr1", "fgw"), polTarget("fgw")}}},
	}
	for _, sc := range scripts {
		for ea := 0; ea <= len(sc.steps)+1; ea++ {
			s := &scen.Scenario{Objs: cluster(), Opts: opts, Tags: map[string]int{}}
			tags["lead-scripted-history"]++
			runLead(e, r, s, s.Objs, len(sc.steps), ea, tags, &script{sc.name, sc.steps})
		}
	}
}
