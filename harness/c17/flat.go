// Package c17 drives the REAL pipeline (harness/pipeline) for property C17 (foreign resources are
// neither configured nor written to): metamorphic pairs s / s ∪ X, foreign-controlled configured
// class, and ownership-changing histories through a long-lived controller.
//
// flat.go: the flat JSON view of a cluster state that the Lean model/judge decode ("in"), and the
// summary of the real graph.Graph and UpdateRequests ("obs").
package c17

import (
	"crypto/sha256"
	"encoding/hex"
	"encoding/json"
	"sort"
	"strings"

	"k8s.io/apimachinery/pkg/types"
	"sigs.k8s.io/controller-runtime/pkg/client"
	gatewayv1 "sigs.k8s.io/gateway-api/apis/v1"
	"sigs.k8s.io/gateway-api/apis/v1alpha2"
	"sigs.k8s.io/gateway-api/apis/v1alpha3"

	ngfAPI "github.com/nginx/nginx-gateway-fabric/apis/v1alpha1"
	frameworkStatus "github.com/nginx/nginx-gateway-fabric/internal/framework/status"
	"github.com/nginx/nginx-gateway-fabric/internal/mode/static/nginx/config/policies"
	"github.com/nginx/nginx-gateway-fabric/internal/mode/static/nginx/file"
	"github.com/nginx/nginx-gateway-fabric/internal/mode/static/state/graph"
	p "github.com/nginx/nginx-gateway-fabric/verifharness/pipeline"
)

type jNN struct {
	NS   string `json:"ns"`
	Name string `json:"name"`
}

type jCfg struct {
	GC   string `json:"gc"`
	Ctlr string `json:"ctlr"`
}

type jClass struct {
	Name string `json:"name"`
	Ctlr string `json:"ctlr"`
}

type jGw struct {
	NS   string `json:"ns"`
	Name string `json:"name"`
	Cls  string `json:"cls"`
	Age  int64  `json:"age"`
}

type jPRef struct {
	Group *string `json:"group"`
	Kind  *string `json:"kind"`
	NS    *string `json:"ns"`
	Name  string  `json:"name"`
	Sect  *string `json:"sect"`
}

type jRoute struct {
	Kind     string  `json:"kind"`
	NS       string  `json:"ns"`
	Name     string  `json:"name"`
	Parents  []jPRef `json:"parents"`
	Valid    bool    `json:"valid"`    // oracle from the real graph (true when the route is not in it)
	Svcs     []jNN   `json:"svcs"`     // oracle from the real graph (spec-derived when the route is not in it)
	SpecSvcs []jNN   `json:"specSvcs"` // every Service named by a backendRef of the spec (judge side)
	// oracle from the real graph: process{HTTP,GRPC}RouteRules was reached (L7Route.Attachable); true when not in it
	RulesReached bool `json:"rulesReached"`
	// names of the ExtensionRef filters of the rules that pass validateFilter (what the resolver is called with)
	SfRefs []string `json:"sfRefs"`
}

type jTRef struct {
	Group string `json:"group"`
	Kind  string `json:"kind"`
	Name  string `json:"name"`
}

type jPolicy struct {
	GVK      string  `json:"gvk"`
	NS       string  `json:"ns"`
	Name     string  `json:"name"`
	Targets  []jTRef `json:"targets"`
	OtherAnc int     `json:"otherAnc"`
}

type jBtp struct {
	NS      string   `json:"ns"`
	Name    string   `json:"name"`
	Targets []string `json:"targets"`
	Full    bool     `json:"full"`
}

type jState struct {
	Cfg      jCfg      `json:"cfg"`
	Classes  []jClass  `json:"classes"`
	Gws      []jGw     `json:"gws"`
	Routes   []jRoute  `json:"routes"`
	Policies []jPolicy `json:"policies"`
	Btps     []jBtp    `json:"btps"`
	Snippets []jNN     `json:"snippets"`
}

func sp[T ~string](v *T) *string {
	if v == nil {
		return nil
	}
	s := string(*v)
	return &s
}

func flatParents(prs []gatewayv1.ParentReference) []jPRef {
	out := make([]jPRef, 0, len(prs))
	for _, pr := range prs {
		out = append(out, jPRef{Group: sp(pr.Group), Kind: sp(pr.Kind), NS: sp(pr.Namespace), Name: string(pr.Name), Sect: sp(pr.SectionName)})
	}
	return out
}

func specSvc(routeNS string, b gatewayv1.BackendObjectReference) (jNN, bool) {
	if b.Kind != nil && *b.Kind != "Service" {
		return jNN{}, false
	}
	if b.Group != nil && *b.Group != "" && *b.Group != "core" {
		return jNN{}, false
	}
	ns := routeNS
	if b.Namespace != nil {
		ns = string(*b.Namespace)
	}
	return jNN{ns, string(b.Name)}, true
}

func nnOf(n types.NamespacedName) jNN { return jNN{n.Namespace, n.Name} }

// extRefName: the name resolveExtRefFunc is called with for this filter, if validateFilter lets it through.
func extRefName(typ string, ref *gatewayv1.LocalObjectReference) (string, bool) {
	if typ != string(gatewayv1.HTTPRouteFilterExtensionRef) || ref == nil {
		return "", false
	}
	if ref.Name == "" || ref.Group != ngfAPI.GroupName || ref.Kind != "SnippetsFilter" {
		return "", false
	}
	return string(ref.Name), true
}

// Flatten renders objs for the Lean side. gr (may be nil) supplies the route oracle (valid, svcs).
func Flatten(objs []client.Object, opts p.Options, gr *graph.Graph) jState {
	st := jState{Cfg: jCfg{opts.Class, opts.Controller}, Classes: []jClass{}, Gws: []jGw{}, Routes: []jRoute{},
		Policies: []jPolicy{}, Btps: []jBtp{}, Snippets: []jNN{}}
	l7 := func(kind string, key graph.RouteKey, r *jRoute) {
		r.Valid, r.Svcs, r.RulesReached = true, r.SpecSvcs, true
		if gr == nil {
			return
		}
		if g, ok := gr.Routes[key]; ok {
			r.Valid = g.Valid
			r.RulesReached = g.Attachable
			r.Svcs = []jNN{}
			for _, rule := range g.Spec.Rules {
				for _, b := range rule.BackendRefs {
					if b.SvcNsName != (types.NamespacedName{}) {
						r.Svcs = append(r.Svcs, nnOf(b.SvcNsName))
					}
				}
			}
		}
	}
	for _, o := range objs {
		switch x := o.(type) {
		case *gatewayv1.GatewayClass:
			st.Classes = append(st.Classes, jClass{x.Name, string(x.Spec.ControllerName)})
		case *gatewayv1.Gateway:
			st.Gws = append(st.Gws, jGw{x.Namespace, x.Name, string(x.Spec.GatewayClassName),
				int64(x.CreationTimestamp.Time.Sub(p.Epoch).Seconds()) + 1000000})
		case *gatewayv1.HTTPRoute:
			r := jRoute{Kind: "HTTPRoute", NS: x.Namespace, Name: x.Name, Parents: flatParents(x.Spec.ParentRefs), SpecSvcs: []jNN{}, SfRefs: []string{}}
			for _, rule := range x.Spec.Rules {
				for _, f := range rule.Filters {
					if n, ok := extRefName(string(f.Type), f.ExtensionRef); ok {
						r.SfRefs = append(r.SfRefs, n)
					}
				}
				for _, b := range rule.BackendRefs {
					if s, ok := specSvc(x.Namespace, b.BackendObjectReference); ok {
						r.SpecSvcs = append(r.SpecSvcs, s)
					}
				}
			}
			l7("HTTPRoute", graph.CreateRouteKey(x), &r)
			st.Routes = append(st.Routes, r)
		case *gatewayv1.GRPCRoute:
			r := jRoute{Kind: "GRPCRoute", NS: x.Namespace, Name: x.Name, Parents: flatParents(x.Spec.ParentRefs), SpecSvcs: []jNN{}, SfRefs: []string{}}
			for _, rule := range x.Spec.Rules {
				for _, f := range rule.Filters {
					if n, ok := extRefName(string(f.Type), f.ExtensionRef); ok {
						r.SfRefs = append(r.SfRefs, n)
					}
				}
				for _, b := range rule.BackendRefs {
					if s, ok := specSvc(x.Namespace, b.BackendObjectReference); ok {
						r.SpecSvcs = append(r.SpecSvcs, s)
					}
				}
			}
			l7("GRPCRoute", graph.CreateRouteKey(x), &r)
			st.Routes = append(st.Routes, r)
		case *v1alpha2.TLSRoute:
			r := jRoute{Kind: "TLSRoute", NS: x.Namespace, Name: x.Name, Parents: flatParents(x.Spec.ParentRefs), SpecSvcs: []jNN{}, SfRefs: []string{}, RulesReached: true}
			for _, rule := range x.Spec.Rules {
				for _, b := range rule.BackendRefs {
					if s, ok := specSvc(x.Namespace, b.BackendObjectReference); ok {
						r.SpecSvcs = append(r.SpecSvcs, s)
					}
				}
			}
			r.Valid, r.Svcs = true, r.SpecSvcs
			if gr != nil {
				if g, ok := gr.L4Routes[graph.CreateRouteKeyL4(x)]; ok {
					r.Valid = g.Valid
					r.Svcs = []jNN{}
					if g.Spec.BackendRef.SvcNsName != (types.NamespacedName{}) {
						r.Svcs = append(r.Svcs, nnOf(g.Spec.BackendRef.SvcNsName))
					}
				}
			}
			st.Routes = append(st.Routes, r)
		case *v1alpha3.BackendTLSPolicy:
			b := jBtp{NS: x.Namespace, Name: x.Name, Targets: []string{}}
			for _, t := range x.Spec.TargetRefs {
				b.Targets = append(b.Targets, string(t.Name))
			}
			ours := false
			for _, a := range x.Status.Ancestors {
				if string(a.ControllerName) == opts.Controller {
					ours = true
				}
			}
			b.Full = len(x.Status.Ancestors) >= 16 && !ours
			st.Btps = append(st.Btps, b)
		case *ngfAPI.SnippetsFilter:
			st.Snippets = append(st.Snippets, jNN{x.Namespace, x.Name})
		default:
			if pol, ok := o.(policies.Policy); ok {
				jp := jPolicy{GVK: p.KindOf(o), NS: o.GetNamespace(), Name: o.GetName(), Targets: []jTRef{}}
				for _, t := range pol.GetTargetRefs() {
					jp.Targets = append(jp.Targets, jTRef{string(t.Group), string(t.Kind), string(t.Name)})
				}
				for _, a := range pol.GetPolicyStatus().Ancestors {
					if string(a.ControllerName) != opts.Controller {
						jp.OtherAnc++
					}
				}
				st.Policies = append(st.Policies, jp)
			}
		}
	}
	return st
}

// ------------------------------------------------------------------ observation of the real graph

type jObs struct {
	Empty    bool     `json:"empty"` // the graph is &Graph{} (early return)
	WC       string   `json:"wc"`
	IC       []string `json:"ic"`
	WG       string   `json:"wg"`
	IG       []string `json:"ig"`
	Routes   []string `json:"routes"`   // Kind/ns/name|valid|idx>ns/gw#sect;…
	Policies []string `json:"policies"` // Kind/ns/name|group,kind,name;…
	Svcs     []string `json:"svcs"`
	Btps     []string `json:"btps"`    // IsReferenced && !Ignored
	RefSnips []string `json:"refsnips"` // SnippetsFilters with Referenced == true
	Targets  []string `json:"targets"` // UpdateRequest targets
	Panic    string   `json:"panic,omitempty"`
}

func nnStr(n types.NamespacedName) string { return n.Namespace + "/" + n.Name }

func parentsStr(prs []graph.ParentRef) string {
	s := ""
	for i, pr := range prs {
		if i > 0 {
			s += ";"
		}
		sect := "~"
		if pr.SectionName != nil {
			sect = string(*pr.SectionName)
		}
		s += itoa(pr.Idx) + ">" + nnStr(pr.Gateway) + "#" + sect
	}
	return s
}

func itoa(i int) string {
	b, _ := json.Marshal(i)
	return string(b)
}

func b01(b bool) string {
	if b {
		return "1"
	}
	return "0"
}

// TargetStr names the object an UpdateRequest is addressed to, in the model's vocabulary.
func TargetStr(k p.Key) string {
	switch k.Kind {
	case "GatewayClass":
		return "cls/" + k.NN.Name
	case "Gateway":
		return "gw/" + nnStr(k.NN)
	case "HTTPRoute", "GRPCRoute", "TLSRoute":
		return k.Kind + "/" + nnStr(k.NN)
	case "BackendTLSPolicy":
		return "btp/" + nnStr(k.NN)
	case "SnippetsFilter":
		return "snip/" + nnStr(k.NN)
	default:
		return "pol:" + k.Kind + "/" + nnStr(k.NN)
	}
}

func RequestTargets(reqs []frameworkStatus.UpdateRequest) []string {
	out := []string{}
	for _, r := range reqs {
		out = append(out, TargetStr(p.Key{Kind: p.KindOf(r.ResourceType), NN: r.NsName}))
	}
	sort.Strings(out)
	return out
}

func Observe(out p.Output) jObs {
	ob := jObs{IC: []string{}, IG: []string{}, Routes: []string{}, Policies: []string{}, Svcs: []string{}, Btps: []string{}, Targets: []string{}, RefSnips: []string{}}
	if out.Panic != "" {
		ob.Panic = p.PanicSite(out.Panic)
		return ob
	}
	g := out.Graph
	if g == nil {
		return ob
	}
	ob.Empty = g.GatewayClass == nil && g.Gateway == nil && g.IgnoredGatewayClasses == nil && g.IgnoredGateways == nil &&
		g.Routes == nil && g.L4Routes == nil && g.NGFPolicies == nil && g.SnippetsFilters == nil && g.BackendTLSPolicies == nil &&
		g.ReferencedServices == nil && g.ReferencedSecrets == nil
	if g.GatewayClass != nil {
		ob.WC = g.GatewayClass.Source.Name
	}
	for k := range g.IgnoredGatewayClasses {
		ob.IC = append(ob.IC, k.Name)
	}
	if g.Gateway != nil {
		ob.WG = nnStr(client.ObjectKeyFromObject(g.Gateway.Source))
	}
	for k := range g.IgnoredGateways {
		ob.IG = append(ob.IG, nnStr(k))
	}
	for k, r := range g.Routes {
		kind := "HTTPRoute"
		if k.RouteType == graph.RouteTypeGRPC {
			kind = "GRPCRoute"
		}
		ob.Routes = append(ob.Routes, kind+"/"+nnStr(k.NamespacedName)+"|"+b01(r.Valid)+"|"+parentsStr(r.ParentRefs))
	}
	for k, r := range g.L4Routes {
		ob.Routes = append(ob.Routes, "TLSRoute/"+nnStr(k.NamespacedName)+"|"+b01(r.Valid)+"|"+parentsStr(r.ParentRefs))
	}
	for k, pol := range g.NGFPolicies {
		s := k.GVK.Kind + "/" + nnStr(k.NsName) + "|"
		for i, t := range pol.TargetRefs {
			if i > 0 {
				s += ";"
			}
			s += string(t.Group) + "," + string(t.Kind) + "," + t.Nsname.Name
		}
		ob.Policies = append(ob.Policies, s)
	}
	for k := range g.ReferencedServices {
		ob.Svcs = append(ob.Svcs, nnStr(k))
	}
	for k, b := range g.BackendTLSPolicies {
		if b.IsReferenced && !b.Ignored {
			ob.Btps = append(ob.Btps, nnStr(k))
		}
	}
	for k, sf := range g.SnippetsFilters {
		if sf.Referenced {
			ob.RefSnips = append(ob.RefSnips, nnStr(k))
		}
	}
	ob.Targets = RequestTargets(out.Requests)
	for _, l := range [][]string{ob.IC, ob.IG, ob.Routes, ob.Policies, ob.Svcs, ob.Btps, ob.RefSnips} {
		sort.Strings(l)
	}
	return ob
}

// FileHashes returns "path sha256(order-normalised content) type" per generated file, sorted by path.
func FileHashes(files []file.File) []string {
	out := []string{}
	for _, f := range p.SortedFiles(files) {
		content := f.Content
		if strings.HasSuffix(f.Path, ".conf") {
			content = []byte(normaliseConf(string(content)))
		}
		h := sha256.Sum256(content)
		out = append(out, f.Path+" "+hex.EncodeToString(h[:8])+" "+itoa(int(f.Type)))
	}
	return out
}
