package c17

// gen.go: property-specific emphasis on top of harness/scen — shared objects carrying status entries of
// other controllers, own policies, and the generated foreign set X.

import (
	"fmt"

	apiv1 "k8s.io/api/core/v1"
	metav1 "k8s.io/apimachinery/pkg/apis/meta/v1"
	"sigs.k8s.io/controller-runtime/pkg/client"
	gatewayv1 "sigs.k8s.io/gateway-api/apis/v1"
	"sigs.k8s.io/gateway-api/apis/v1alpha2"
	"sigs.k8s.io/gateway-api/apis/v1alpha3"

	ngfAPI "github.com/nginx/nginx-gateway-fabric/apis/v1alpha1"
	ngfAPIv2 "github.com/nginx/nginx-gateway-fabric/apis/v1alpha2"
	"github.com/nginx/nginx-gateway-fabric/internal/mode/static/nginx/config/policies"
	p "github.com/nginx/nginx-gateway-fabric/verifharness/pipeline"
	"github.com/nginx/nginx-gateway-fabric/verifharness/rng"
	"github.com/nginx/nginx-gateway-fabric/verifharness/scen"
)

func ptr[T any](v T) *T { return &v }

var foreignControllers = []string{
	scen.ForeignController,
	"gateway.nginx.org/nginx-gateway-controller-2", // our name as a proper prefix
	"gateway.nginx.org/NGINX-gateway-controller",   // differs in case only
	"example.net/istio",
}

var foreignClassNames = []string{"other", "acme", "nginx-x", "nginx2", "istio"}

func cond(typ, status, reason string) metav1.Condition {
	return metav1.Condition{Type: typ, Status: metav1.ConditionStatus(status), Reason: reason, Message: "written by " + reason,
		ObservedGeneration: 1, LastTransitionTime: metav1.NewTime(p.Epoch)}
}

func foreignParentStatus(r *rng.R, ns, name string) gatewayv1.RouteParentStatus {
	ps := gatewayv1.RouteParentStatus{
		ParentRef:      gatewayv1.ParentReference{Name: gatewayv1.ObjectName(name)},
		ControllerName: gatewayv1.GatewayController(rng.Pick(r, foreignControllers)),
		Conditions:     []metav1.Condition{cond("Accepted", "True", "Accepted"), cond("ResolvedRefs", "True", "ResolvedRefs")},
	}
	if ns != "" {
		ps.ParentRef.Namespace = ptr(gatewayv1.Namespace(ns))
	}
	if r.Chance(30, 100) {
		ps.ParentRef.SectionName = ptr(gatewayv1.SectionName("http"))
	}
	return ps
}

func foreignAncestorStatus(r *rng.R, ns, name string) v1alpha2.PolicyAncestorStatus {
	return v1alpha2.PolicyAncestorStatus{
		AncestorRef: gatewayv1.ParentReference{
			Group: ptr(gatewayv1.Group(gatewayv1.GroupName)), Kind: ptr(gatewayv1.Kind("Gateway")),
			Namespace: ptr(gatewayv1.Namespace(ns)), Name: gatewayv1.ObjectName(name),
		},
		ControllerName: gatewayv1.GatewayController(rng.Pick(r, foreignControllers)),
		Conditions:     []metav1.Condition{cond("Accepted", "True", "Accepted")},
	}
}

func routeParents(o client.Object) *[]gatewayv1.ParentReference {
	switch x := o.(type) {
	case *gatewayv1.HTTPRoute:
		return &x.Spec.ParentRefs
	case *gatewayv1.GRPCRoute:
		return &x.Spec.ParentRefs
	case *v1alpha2.TLSRoute:
		return &x.Spec.ParentRefs
	}
	return nil
}

func routeStatusParents(o client.Object) *[]gatewayv1.RouteParentStatus {
	switch x := o.(type) {
	case *gatewayv1.HTTPRoute:
		return &x.Status.Parents
	case *gatewayv1.GRPCRoute:
		return &x.Status.Parents
	case *v1alpha2.TLSRoute:
		return &x.Status.Parents
	}
	return nil
}

type world struct {
	ns      []string
	ownGws  []jNN // gateways of the configured class in the base scenario
	allGws  []jNN
	svcs    []string
	hosts   []string
	paths   []string
	ownRts  []client.Object
	age     int
	fClass  []string // names of foreign classes present in base ∪ X
	fGws    []jNN    // foreign gateways present in base ∪ X
	tags    map[string]int
	ownCtlr string
	classes map[string]bool // every GatewayClass name in base ∪ X
	ownSfs  []jNN           // SnippetsFilters of the base scenario that NO route of ours references
	refSfs  []jNN           // SnippetsFilters of the base scenario that a route of ours references
	danglingSfNS []string   // namespaces of routes of ours with an ExtensionRef to "sf-elsewhere", which does not exist there
	aux     map[string]bool
}

var snippetPool = map[ngfAPI.NginxContext][]string{
	ngfAPI.NginxContextMain:               {"worker_priority 0;", "worker_rlimit_core 1m;", "timer_resolution 100ms;"},
	ngfAPI.NginxContextHTTP:               {"aio on;", "tcp_nodelay on;", "reset_timedout_connection on;"},
	ngfAPI.NginxContextHTTPServer:         {"auth_delay 10s;", "ignore_invalid_headers off;"},
	ngfAPI.NginxContextHTTPServerLocation: {"limit_rate 1k;", "chunked_transfer_encoding off;"},
}

var snippetContexts = []ngfAPI.NginxContext{ngfAPI.NginxContextMain, ngfAPI.NginxContextHTTP,
	ngfAPI.NginxContextHTTPServer, ngfAPI.NginxContextHTTPServerLocation}

// snippetsFilter builds a SnippetsFilter with a random non-empty set of contexts (main/http preferred: those are
// emitted for every Referenced filter, whichever route references it).
func (w *world) snippetsFilter(r *rng.R, ns, name string) *ngfAPI.SnippetsFilter {
	sf := &ngfAPI.SnippetsFilter{ObjectMeta: p.Meta(ns, name, w.nextAge())}
	for _, c := range snippetContexts {
		pc := 40
		if c == ngfAPI.NginxContextMain || c == ngfAPI.NginxContextHTTP {
			pc = 65
		}
		if r.Chance(pc, 100) {
			sf.Spec.Snippets = append(sf.Spec.Snippets, ngfAPI.Snippet{Context: c, Value: rng.Pick(r, snippetPool[c])})
			w.tags["sf-context-"+string(c)]++
		}
	}
	if len(sf.Spec.Snippets) == 0 {
		c := snippetContexts[r.Intn(2)]
		sf.Spec.Snippets = []ngfAPI.Snippet{{Context: c, Value: rng.Pick(r, snippetPool[c])}}
		w.tags["sf-context-"+string(c)]++
	}
	if r.Chance(25, 100) {
		sf.Status.Controllers = []ngfAPI.ControllerStatus{{
			ControllerName: gatewayv1.GatewayController(rng.Pick(r, foreignControllers)),
			Conditions:     []metav1.Condition{cond("Accepted", "True", "Accepted")},
		}}
	}
	return sf
}

func extRef(name string) *gatewayv1.LocalObjectReference {
	return &gatewayv1.LocalObjectReference{Group: ngfAPI.GroupName, Kind: "SnippetsFilter", Name: gatewayv1.ObjectName(name)}
}

// addExtRef appends an ExtensionRef filter naming SnippetsFilter `name` to a random rule of an HTTPRoute/GRPCRoute.
func addExtRef(r *rng.R, o client.Object, name string) bool {
	switch x := o.(type) {
	case *gatewayv1.HTTPRoute:
		if len(x.Spec.Rules) == 0 {
			return false
		}
		i := r.Intn(len(x.Spec.Rules))
		x.Spec.Rules[i].Filters = append(x.Spec.Rules[i].Filters,
			gatewayv1.HTTPRouteFilter{Type: gatewayv1.HTTPRouteFilterExtensionRef, ExtensionRef: extRef(name)})
		return true
	case *gatewayv1.GRPCRoute:
		if len(x.Spec.Rules) == 0 {
			return false
		}
		i := r.Intn(len(x.Spec.Rules))
		x.Spec.Rules[i].Filters = append(x.Spec.Rules[i].Filters,
			gatewayv1.GRPCRouteFilter{Type: gatewayv1.GRPCRouteFilterExtensionRef, ExtensionRef: extRef(name)})
		return true
	}
	return false
}

// Emphasise modifies the base scenario in place: shared routes (extra parentRef to a foreign Gateway,
// parent statuses written by other controllers and a stale one of ours), own policies with ancestor
// statuses of other controllers, a SnippetsFilter.
func Emphasise(r *rng.R, s *scen.Scenario) *world {
	cfg := scen.DefaultConfig()
	w := &world{ns: cfg.Namespaces, hosts: cfg.Hostnames[1:], paths: cfg.Paths, tags: s.Tags, age: 500, ownCtlr: s.Opts.Controller,
		svcs: []string{"svc0", "svc1", "svc2"}, classes: map[string]bool{s.Opts.Class: true}, aux: map[string]bool{}}
	for _, o := range s.Objs {
		if gc, ok := o.(*gatewayv1.GatewayClass); ok {
			w.classes[gc.Name] = true
			if string(gc.Spec.ControllerName) != s.Opts.Controller {
				w.fClass = append(w.fClass, gc.Name)
			}
		}
		if g, ok := o.(*gatewayv1.Gateway); ok {
			w.allGws = append(w.allGws, jNN{g.Namespace, g.Name})
			if string(g.Spec.GatewayClassName) == s.Opts.Class {
				w.ownGws = append(w.ownGws, jNN{g.Namespace, g.Name})
			} else {
				w.fGws = append(w.fGws, jNN{g.Namespace, g.Name})
			}
		}
	}
	var extra []client.Object
	for _, o := range s.Objs {
		prs := routeParents(o)
		if prs == nil {
			continue
		}
		w.ownRts = append(w.ownRts, o)
		sps := routeStatusParents(o)
		if r.Chance(40, 100) {
			// shared route: also attached to a Gateway of another controller, which already wrote its status
			fns, fname := rng.Pick(r, w.ns), rng.Pick(r, []string{"foreign-gw", "mesh-gw", "gw0x"})
			*prs = append(*prs, p.ParentRef(fns, fname, ""))
			n := r.Range(1, 2)
			for i := 0; i < n; i++ {
				*sps = append(*sps, foreignParentStatus(r, fns, fname))
			}
			w.tags["shared-route-foreign-status"]++
		}
		if r.Chance(25, 100) && len(w.ownGws) > 0 {
			// a stale entry of ours (to be replaced), placed before or after the foreign ones
			g := rng.Pick(r, w.ownGws)
			own := gatewayv1.RouteParentStatus{
				ParentRef:      gatewayv1.ParentReference{Namespace: ptr(gatewayv1.Namespace(g.NS)), Name: gatewayv1.ObjectName(g.Name)},
				ControllerName: gatewayv1.GatewayController(s.Opts.Controller),
				Conditions:     []metav1.Condition{cond("Accepted", "False", "Stale")},
			}
			if r.Bool() {
				*sps = append([]gatewayv1.RouteParentStatus{own}, *sps...)
			} else {
				*sps = append(*sps, own)
			}
			w.tags["stale-own-status"]++
		}
		if _, isTLS := o.(*v1alpha2.TLSRoute); !isTLS && r.Chance(20, 100) {
			kind := "HTTPRoute"
			if _, ok := o.(*gatewayv1.GRPCRoute); ok {
				kind = "GRPCRoute"
			}
			if r.Bool() {
				csp := &ngfAPI.ClientSettingsPolicy{ObjectMeta: p.Meta(o.GetNamespace(), "csp-"+o.GetName(), w.nextAge())}
				csp.Spec.TargetRef = v1alpha2.LocalPolicyTargetReference{Group: gatewayv1.GroupName, Kind: gatewayv1.Kind(kind), Name: gatewayv1.ObjectName(o.GetName())}
				csp.Spec.KeepAlive = &ngfAPI.ClientKeepAlive{Requests: ptr(int32(77))}
				w.foreignAncestors(r, &csp.Status.Ancestors)
				extra = append(extra, csp)
				w.tags["own-csp-route"]++
			} else {
				op := &ngfAPIv2.ObservabilityPolicy{ObjectMeta: p.Meta(o.GetNamespace(), "obs-"+o.GetName(), w.nextAge())}
				op.Spec.TargetRefs = []v1alpha2.LocalPolicyTargetReference{
					{Group: gatewayv1.GroupName, Kind: gatewayv1.Kind(kind), Name: gatewayv1.ObjectName(o.GetName())},
					{Group: gatewayv1.GroupName, Kind: "HTTPRoute", Name: "xr-http-0"}, // a route of X, if present
				}
				op.Spec.Tracing = &ngfAPIv2.Tracing{Strategy: ngfAPIv2.TraceStrategyRatio}
				w.foreignAncestors(r, &op.Status.Ancestors)
				extra = append(extra, op)
				w.tags["own-obs-route"]++
			}
		}
	}
	if r.Chance(30, 100) {
		ns := rng.Pick(r, w.ns)
		usp := &ngfAPI.UpstreamSettingsPolicy{ObjectMeta: p.Meta(ns, "usp-own", w.nextAge())}
		usp.Spec.TargetRefs = []v1alpha2.LocalPolicyTargetReference{
			{Group: "core", Kind: "Service", Name: gatewayv1.ObjectName(rng.Pick(r, w.svcs))},
			{Group: "", Kind: "Service", Name: "xsvc0"},
		}
		usp.Spec.ZoneSize = ptr(ngfAPI.Size("2m"))
		w.foreignAncestors(r, &usp.Status.Ancestors)
		extra = append(extra, usp)
		w.tags["own-usp"]++
	}
	if r.Chance(40, 100) {
		// a SnippetsFilter of ours that NO route of ours references: its snippets must stay off whoever else names it
		sf := w.snippetsFilter(r, rng.Pick(r, w.ns), "sf0")
		extra = append(extra, sf)
		w.ownSfs = append(w.ownSfs, jNN{sf.Namespace, sf.Name})
		w.tags["snippets-filter"]++
	}
	if r.Chance(35, 100) {
		// SnippetsFilters referenced by routes of ours (Referenced: main/http/server/location includes are generated)
		for i, o := range w.ownRts {
			if i >= 2 || !r.Chance(60, 100) {
				continue
			}
			name := fmt.Sprintf("sf-own-%d", i)
			if addExtRef(r, o, name) {
				extra = append(extra, w.snippetsFilter(r, o.GetNamespace(), name))
				w.refSfs = append(w.refSfs, jNN{o.GetNamespace(), name})
				w.tags["own-route-snippets-filter"]++
			}
		}
	}
	if r.Chance(25, 100) && len(w.ownRts) > 0 {
		// a route of ours names a SnippetsFilter that does not exist in ITS namespace (X may hold one of that name elsewhere)
		o := rng.Pick(r, w.ownRts)
		if addExtRef(r, o, "sf-elsewhere") {
			w.danglingSfNS = append(w.danglingSfNS, o.GetNamespace())
			w.tags["own-route-dangling-extensionref"]++
		}
	}
	for _, o := range s.Objs {
		if pol, ok := o.(policies.Policy); ok && r.Chance(50, 100) {
			st := pol.GetPolicyStatus()
			w.foreignAncestors(r, &st.Ancestors)
			pol.SetPolicyStatus(st)
		}
		if b, ok := o.(*v1alpha3.BackendTLSPolicy); ok && r.Chance(50, 100) {
			w.foreignAncestors(r, &b.Status.Ancestors)
		}
	}
	s.Objs = append(s.Objs, extra...)
	return w
}

func (w *world) nextAge() int { w.age++; return w.age }

func (w *world) foreignAncestors(r *rng.R, a *[]v1alpha2.PolicyAncestorStatus) {
	if !r.Chance(50, 100) {
		return
	}
	n := r.Range(1, 2)
	if r.Chance(8, 100) {
		n = 16 // ancestors full of other controllers' entries
		w.tags["ancestors-full"]++
	}
	for i := 0; i < n; i++ {
		*a = append(*a, foreignAncestorStatus(r, rng.Pick(r, w.ns), fmt.Sprintf("mesh-gw%d", i)))
	}
	w.tags["policy-foreign-ancestors"]++
}

// foreignParentRef returns a parentRef that does NOT resolve to one of our Gateways.
func (w *world) foreignParentRef(r *rng.R, routeNS string) gatewayv1.ParentReference {
	k := r.Intn(100)
	switch {
	case k < 55 && len(w.fGws) > 0:
		g := rng.Pick(r, w.fGws)
		ns := g.NS
		if ns == routeNS && r.Bool() {
			ns = ""
		}
		sect := ""
		if r.Chance(30, 100) {
			sect = rng.Pick(r, []string{"http", "l0", "l1"})
		}
		w.tags["x-parent-foreign-gw"]++
		return p.ParentRef(ns, g.Name, sect)
	case k < 70 && len(w.ownGws) > 0:
		// names one of OUR gateways but is not a Gateway reference
		g := rng.Pick(r, w.ownGws)
		pr := p.ParentRef(g.NS, g.Name, "")
		switch v := r.Intn(9); v {
		case 0: // kind alone differs
			pr.Kind = ptr(gatewayv1.Kind("Service"))
		case 1: // GAMMA style Service parent
			pr.Kind = ptr(gatewayv1.Kind("Service"))
			pr.Group = ptr(gatewayv1.Group(""))
		case 2: // group alone differs
			pr.Group = ptr(gatewayv1.Group("networking.example.io"))
		case 3:
			pr.Kind = ptr(gatewayv1.Kind("Gateway"))
			pr.Group = ptr(gatewayv1.Group("gateway.example.io"))
		case 4: // explicit EMPTY group = the core API group, not the Gateway API: kind unset
			pr.Group = ptr(gatewayv1.Group(""))
			w.tags["x-parent-group-empty"]++
		case 5: // explicit empty group, kind Gateway
			pr.Kind = ptr(gatewayv1.Kind("Gateway"))
			pr.Group = ptr(gatewayv1.Group(""))
			w.tags["x-parent-group-empty"]++
		case 6:
			pr.Kind = ptr(gatewayv1.Kind("Gateway"))
			pr.Group = ptr(gatewayv1.Group("core"))
			w.tags["x-parent-group-core"]++
		case 7:
			pr.Group = ptr(gatewayv1.Group("example.com"))
		default:
			pr.Kind = ptr(gatewayv1.Kind("Service"))
			pr.Group = ptr(gatewayv1.Group("core"))
		}
		w.tags["x-parent-kind-mismatch"]++
		return pr
	case k < 85 && len(w.ownGws) > 0:
		// our gateway's name, wrong namespace (explicit, or by defaulting to the route's namespace)
		g := rng.Pick(r, w.ownGws)
		for _, ns := range w.ns {
			if ns != g.NS && !w.isGw(ns, g.Name, w.ownGws) {
				w.tags["x-parent-wrong-ns"]++
				if ns == routeNS {
					return p.ParentRef("", g.Name, "")
				}
				return p.ParentRef(ns, g.Name, "")
			}
		}
		fallthrough
	default:
		w.tags["x-parent-missing"]++
		return p.ParentRef(rng.Pick(r, w.ns), "no-such-gw", "")
	}
}

func (w *world) isGw(ns, name string, l []jNN) bool {
	for _, g := range l {
		if g.NS == ns && g.Name == name {
			return true
		}
	}
	return false
}

// GenX generates the foreign set X for the base scenario described by w.
func (w *world) GenX(r *rng.R, opts p.Options) []client.Object {
	var x []client.Object
	// classes of other controllers (other names)
	nc := r.Range(1, 2)
	for i := 0; i < nc; i++ {
		name := rng.Pick(r, foreignClassNames)
		if w.classes[name] {
			continue
		}
		w.classes[name] = true
		x = append(x, p.GatewayClass(name, rng.Pick(r, foreignControllers), r.Intn(3)))
		w.fClass = append(w.fClass, name)
		w.tags["x-class"]++
	}
	classes := append([]string{"ghost-class", "nginx-2", "Nginx"}, w.fClass...)
	// gateways of other classes, with our listeners' ports/hostnames/secrets and competing ages
	ng := r.Range(1, 3)
	for i := 0; i < ng; i++ {
		var ns, name string
		switch r.Intn(3) {
		case 0:
			if len(w.ownGws) > 0 { // our gateway's name in another namespace
				g := rng.Pick(r, w.ownGws)
				name = g.Name
				for _, n := range w.ns {
					if !w.isGw(n, name, w.allGws) {
						ns = n
					}
				}
			}
		case 1:
			if len(w.ownGws) > 0 { // our gateway's namespace, another name
				ns, name = rng.Pick(r, w.ownGws).NS, fmt.Sprintf("gw%dx", i)
			}
		}
		if ns == "" || w.isGw(ns, name, w.allGws) {
			ns, name = rng.Pick(r, w.ns), fmt.Sprintf("xgw%d", i)
		}
		if w.isGw(ns, name, w.allGws) {
			continue
		}
		ls := []p.Listener{
			{Name: "http", Port: 80, Protocol: "HTTP", Hostname: rng.Pick(r, append([]string{""}, w.hosts...)), FromNS: "All"},
			{Name: "l0", Port: 443, Protocol: "HTTPS", Hostname: rng.Pick(r, w.hosts), CertRefs: []string{"tls-a"}, FromNS: "All"},
		}
		if r.Bool() {
			ls = append(ls, p.Listener{Name: "l1", Port: 8443, Protocol: "TLS", Hostname: rng.Pick(r, w.hosts), FromNS: "All"})
		}
		age := r.Intn(4) // mostly OLDER than our gateways: would win if taken for ours
		if r.Chance(30, 100) {
			age = w.nextAge()
		}
		x = append(x, p.Gateway(ns, name, rng.Pick(r, classes), age, ls...))
		w.allGws = append(w.allGws, jNN{ns, name})
		w.fGws = append(w.fGws, jNN{ns, name})
		w.tags["x-gateway"]++
	}
	hostnames := func() []string {
		var hs []string
		for i := r.Intn(3); i > 0; i-- {
			hs = append(hs, rng.Pick(r, w.hosts))
		}
		return hs
	}
	backend := func() p.Backend {
		if r.Chance(25, 100) {
			return p.Backend{Ref: "xsvc0", Port: 80, Weight: -1}
		}
		return p.Backend{Ref: rng.Pick(r, w.svcs), Port: 80, Weight: -1}
	}
	xparents := func(ns string) []gatewayv1.ParentReference {
		var ps []gatewayv1.ParentReference
		for i := r.Range(1, 2); i > 0; i-- {
			ps = append(ps, w.foreignParentRef(r, ns))
		}
		return ps
	}
	var xhttp, xgrpc []jNN
	used := map[string]bool{}
	for _, o := range w.ownRts {
		used[p.KindOf(o)+"/"+o.GetNamespace()+"/"+o.GetName()] = true
	}
	pickName := func(kind, ns, dflt string) string {
		// prefer the name of one of OUR routes of ANOTHER kind in the same namespace
		if r.Chance(35, 100) {
			for _, o := range w.ownRts {
				if o.GetNamespace() == ns && p.KindOf(o) != kind && !used[kind+"/"+ns+"/"+o.GetName()] {
					w.tags["x-route-name-of-own-other-kind"]++
					return o.GetName()
				}
			}
		}
		return dflt
	}
	nh := r.Range(1, 3)
	for i := 0; i < nh; i++ {
		ns := rng.Pick(r, w.ns)
		name := pickName("HTTPRoute", ns, fmt.Sprintf("xr-http-%d", i))
		if used["HTTPRoute/"+ns+"/"+name] {
			continue
		}
		used["HTTPRoute/"+ns+"/"+name] = true
		rule := p.HTTPRule([]gatewayv1.HTTPRouteMatch{p.PathMatch("PathPrefix", rng.Pick(r, w.paths))}, backend())
		rt := p.HTTPRoute(ns, name, r.Intn(4), xparents(ns), hostnames(), rule)
		rt.Status.Parents = []gatewayv1.RouteParentStatus{foreignParentStatus(r, ns, "foreign-gw")}
		x = append(x, rt)
		xhttp = append(xhttp, jNN{ns, name})
		w.tags["x-httproute"]++
	}
	if r.Chance(60, 100) {
		ns := rng.Pick(r, w.ns)
		name := pickName("GRPCRoute", ns, "xr-grpc-0")
		if !used["GRPCRoute/"+ns+"/"+name] {
			used["GRPCRoute/"+ns+"/"+name] = true
			rule := gatewayv1.GRPCRouteRule{BackendRefs: []gatewayv1.GRPCBackendRef{{BackendRef: p.BackendRef(backend())}}}
			x = append(x, p.GRPCRoute(ns, name, r.Intn(4), xparents(ns), hostnames(), rule))
			xgrpc = append(xgrpc, jNN{ns, name})
			w.tags["x-grpcroute"]++
		}
	}
	if r.Chance(50, 100) {
		ns := rng.Pick(r, w.ns)
		name := pickName("TLSRoute", ns, "xr-tls-0")
		if !used["TLSRoute/"+ns+"/"+name] {
			used["TLSRoute/"+ns+"/"+name] = true
			x = append(x, p.TLSRoute(ns, name, r.Intn(4), xparents(ns), []string{rng.Pick(r, w.hosts)}, backend()))
			w.tags["x-tlsroute"]++
		}
	}
	// policies that target only foreign things
	np := r.Range(0, 3)
	for i := 0; i < np; i++ {
		switch r.Intn(5) {
		case 0: // a foreign gateway
			if len(w.fGws) == 0 {
				continue
			}
			g := rng.Pick(r, w.fGws)
			csp := &ngfAPI.ClientSettingsPolicy{ObjectMeta: p.Meta(g.NS, fmt.Sprintf("xcsp-gw-%d", i), r.Intn(4))}
			csp.Spec.TargetRef = v1alpha2.LocalPolicyTargetReference{Group: gatewayv1.GroupName, Kind: "Gateway", Name: gatewayv1.ObjectName(g.Name)}
			csp.Spec.Body = &ngfAPI.ClientBody{MaxSize: ptr(ngfAPI.Size("1k"))}
			x = append(x, csp)
			w.tags["x-policy-foreign-gw"]++
		case 1: // our gateway's name, looked up in the policy's (different) namespace
			if len(w.ownGws) == 0 {
				continue
			}
			g := rng.Pick(r, w.ownGws)
			for _, ns := range w.ns {
				if !w.isGw(ns, g.Name, w.ownGws) {
					csp := &ngfAPI.ClientSettingsPolicy{ObjectMeta: p.Meta(ns, fmt.Sprintf("xcsp-ns-%d", i), r.Intn(4))}
					csp.Spec.TargetRef = v1alpha2.LocalPolicyTargetReference{Group: gatewayv1.GroupName, Kind: "Gateway", Name: gatewayv1.ObjectName(g.Name)}
					csp.Spec.Body = &ngfAPI.ClientBody{MaxSize: ptr(ngfAPI.Size("1k"))}
					x = append(x, csp)
					w.tags["x-policy-own-gw-name-other-ns"]++
					break
				}
			}
		case 2: // a foreign HTTPRoute / GRPCRoute
			if len(xhttp) > 0 {
				t := rng.Pick(r, xhttp)
				csp := &ngfAPI.ClientSettingsPolicy{ObjectMeta: p.Meta(t.NS, fmt.Sprintf("xcsp-rt-%d", i), r.Intn(4))}
				csp.Spec.TargetRef = v1alpha2.LocalPolicyTargetReference{Group: gatewayv1.GroupName, Kind: "HTTPRoute", Name: gatewayv1.ObjectName(t.Name)}
				csp.Spec.Body = &ngfAPI.ClientBody{MaxSize: ptr(ngfAPI.Size("1k"))}
				csp.Status.Ancestors = []v1alpha2.PolicyAncestorStatus{foreignAncestorStatus(r, t.NS, "foreign-gw")}
				x = append(x, csp)
				w.tags["x-policy-foreign-route"]++
			}
		case 3:
			var refs []v1alpha2.LocalPolicyTargetReference
			ns := ""
			for _, t := range xhttp {
				if ns == "" || ns == t.NS {
					ns = t.NS
					refs = append(refs, v1alpha2.LocalPolicyTargetReference{Group: gatewayv1.GroupName, Kind: "HTTPRoute", Name: gatewayv1.ObjectName(t.Name)})
				}
			}
			for _, t := range xgrpc {
				if ns == t.NS {
					refs = append(refs, v1alpha2.LocalPolicyTargetReference{Group: gatewayv1.GroupName, Kind: "GRPCRoute", Name: gatewayv1.ObjectName(t.Name)})
				}
			}
			if len(refs) > 0 {
				op := &ngfAPIv2.ObservabilityPolicy{ObjectMeta: p.Meta(ns, fmt.Sprintf("xobs-%d", i), r.Intn(4))}
				op.Spec.TargetRefs = refs
				op.Spec.Tracing = &ngfAPIv2.Tracing{Strategy: ngfAPIv2.TraceStrategyRatio}
				x = append(x, op)
				w.tags["x-policy-obs-foreign-routes"]++
			}
		default: // a Service that only foreign routes name
			usp := &ngfAPI.UpstreamSettingsPolicy{ObjectMeta: p.Meta(rng.Pick(r, w.ns), fmt.Sprintf("xusp-%d", i), r.Intn(4))}
			usp.Spec.TargetRefs = []v1alpha2.LocalPolicyTargetReference{{Group: "core", Kind: "Service", Name: "xsvc0"}}
			usp.Spec.ZoneSize = ptr(ngfAPI.Size("3m"))
			x = append(x, usp)
			w.tags["x-policy-foreign-svc"]++
		}
	}
	// policies whose targetRefs carry a FOREIGN API group but a kind + name that collide with objects of ours (a Knative
	// `Service`, another project's `HTTPRoute` / `Gateway`): processPolicies must compare group AND kind. Alone, and mixed
	// with one core/gateway-group ref to an object that does not exist (what the CRDs' CEL rules still admit).
	fgroups := []string{"serving.knative.dev", "example.com", "networking.istio.io", "Core", "gateway.networking.k8s.io.example"}
	for i, n := 0, r.Range(0, 2); i < n; i++ {
		switch r.Intn(3) {
		case 0: // UpstreamSettingsPolicy -> foreign-group "Service" named like a backend Service of our routes
			ns := rng.Pick(r, w.ns)
			for _, o := range w.ownRts {
				if r.Chance(50, 100) {
					ns = o.GetNamespace()
				}
			}
			usp := &ngfAPI.UpstreamSettingsPolicy{ObjectMeta: p.Meta(ns, fmt.Sprintf("xusp-grp-%d", i), r.Intn(4))}
			usp.Spec.TargetRefs = []v1alpha2.LocalPolicyTargetReference{
				{Group: gatewayv1.Group(rng.Pick(r, fgroups)), Kind: "Service", Name: gatewayv1.ObjectName(rng.Pick(r, w.svcs))}}
			if r.Bool() {
				usp.Spec.TargetRefs = append(usp.Spec.TargetRefs,
					v1alpha2.LocalPolicyTargetReference{Group: rng.Pick(r, []gatewayv1.Group{"", "core"}), Kind: "Service", Name: "absent-svc"})
			}
			if r.Bool() {
				usp.Spec.TargetRefs = append(usp.Spec.TargetRefs, v1alpha2.LocalPolicyTargetReference{
					Group: gatewayv1.Group(rng.Pick(r, fgroups)), Kind: "Service", Name: gatewayv1.ObjectName(rng.Pick(r, w.svcs) + "")})
				if usp.Spec.TargetRefs[len(usp.Spec.TargetRefs)-1].Name == usp.Spec.TargetRefs[0].Name {
					usp.Spec.TargetRefs = usp.Spec.TargetRefs[:len(usp.Spec.TargetRefs)-1]
				}
			}
			usp.Spec.ZoneSize = ptr(ngfAPI.Size("7m"))
			usp.Spec.KeepAlive = &ngfAPI.UpstreamKeepAlive{Connections: ptr(int32(33))}
			x = append(x, usp)
			w.tags["x-policy-foreign-group-service"]++
		case 1: // ObservabilityPolicy -> foreign-group "HTTPRoute"/"GRPCRoute" named like a route of ours
			if len(w.ownRts) == 0 {
				continue
			}
			o := rng.Pick(r, w.ownRts)
			kind := p.KindOf(o)
			if kind == "TLSRoute" {
				kind = "HTTPRoute"
			}
			op := &ngfAPIv2.ObservabilityPolicy{ObjectMeta: p.Meta(o.GetNamespace(), fmt.Sprintf("xobs-grp-%d", i), r.Intn(4))}
			op.Spec.TargetRefs = []v1alpha2.LocalPolicyTargetReference{
				{Group: gatewayv1.Group(rng.Pick(r, fgroups)), Kind: gatewayv1.Kind(kind), Name: gatewayv1.ObjectName(o.GetName())}}
			if r.Bool() {
				op.Spec.TargetRefs = append(op.Spec.TargetRefs,
					v1alpha2.LocalPolicyTargetReference{Group: gatewayv1.GroupName, Kind: gatewayv1.Kind(kind), Name: "absent-route"})
			}
			op.Spec.Tracing = &ngfAPIv2.Tracing{Strategy: ngfAPIv2.TraceStrategyRatio}
			x = append(x, op)
			w.tags["x-policy-foreign-group-route"]++
		default: // ClientSettingsPolicy -> foreign-group "Gateway" named like a Gateway of ours
			if len(w.ownGws) == 0 {
				continue
			}
			g := rng.Pick(r, w.ownGws)
			csp := &ngfAPI.ClientSettingsPolicy{ObjectMeta: p.Meta(g.NS, fmt.Sprintf("xcsp-grp-%d", i), r.Intn(4))}
			csp.Spec.TargetRef = v1alpha2.LocalPolicyTargetReference{Group: gatewayv1.Group(rng.Pick(r, fgroups)), Kind: "Gateway", Name: gatewayv1.ObjectName(g.Name)}
			csp.Spec.Body = &ngfAPI.ClientBody{MaxSize: ptr(ngfAPI.Size("3k"))}
			x = append(x, csp)
			w.tags["x-policy-foreign-group-gateway"]++
		}
	}
	// BackendTLSPolicies that target a Service none of our routes names: valid ones and one for each way
	// validateBackendTLSPolicy rejects a policy (graph processing validates EVERY policy of the cluster)
	nb := r.Intn(3)
	for i := 0; i < nb; i++ {
		btp := &v1alpha3.BackendTLSPolicy{ObjectMeta: p.Meta(rng.Pick(r, w.ns), fmt.Sprintf("xbtp%d", i), r.Intn(4))}
		btp.Spec.TargetRefs = []v1alpha2.LocalPolicyTargetReferenceWithSectionName{{
			LocalPolicyTargetReference: v1alpha2.LocalPolicyTargetReference{Kind: "Service", Name: gatewayv1.ObjectName(rng.Pick(r, []string{"xsvc0", "xsvc1"}))},
		}}
		v := &btp.Spec.Validation
		v.Hostname = "x.example.com"
		cm := func(group, kind, name string) gatewayv1.LocalObjectReference {
			return gatewayv1.LocalObjectReference{Group: gatewayv1.Group(group), Kind: gatewayv1.Kind(kind), Name: gatewayv1.ObjectName(name)}
		}
		variant := r.Intn(10)
		switch variant {
		case 0: // valid
			v.WellKnownCACertificates = ptr(v1alpha3.WellKnownCACertificatesSystem)
		case 1: // Secret CA reference (supported by other implementations)
			v.CACertificateRefs = []gatewayv1.LocalObjectReference{cm("", "Secret", "ca")}
		case 2: // more than one CA reference
			v.CACertificateRefs = []gatewayv1.LocalObjectReference{cm("", "ConfigMap", "ca-bundle"), cm("", "ConfigMap", "ca-bundle-2")}
		case 3: // ConfigMap that does not exist
			v.CACertificateRefs = []gatewayv1.LocalObjectReference{cm("", "ConfigMap", "no-such-cm")}
		case 4: // CA reference of another group
			v.CACertificateRefs = []gatewayv1.LocalObjectReference{cm("example.com", "ConfigMap", "ca-bundle")}
		case 5: // hostname NGF rejects
			v.Hostname = "Bad_Host!.example.com"
			v.WellKnownCACertificates = ptr(v1alpha3.WellKnownCACertificatesSystem)
		case 6: // both kinds of CA
			v.CACertificateRefs = []gatewayv1.LocalObjectReference{cm("", "ConfigMap", "ca-bundle")}
			v.WellKnownCACertificates = ptr(v1alpha3.WellKnownCACertificatesSystem)
		case 7: // neither
		case 8: // unsupported well-known set
			v.WellKnownCACertificates = ptr(v1alpha3.WellKnownCACertificatesType("Mozilla"))
		default: // the ConfigMap of the base scenario's policy, where there is one (valid then)
			v.CACertificateRefs = []gatewayv1.LocalObjectReference{cm("core", "ConfigMap", "ca-bundle")}
		}
		if r.Chance(30, 100) {
			btp.Status.Ancestors = []v1alpha2.PolicyAncestorStatus{foreignAncestorStatus(r, btp.Namespace, "foreign-gw")}
		}
		x = append(x, btp)
		w.tags["x-btp"]++
		w.tags[fmt.Sprintf("x-btp-variant-%d", variant)]++
	}
	// SnippetsFilters that only Routes of X (foreign or unattached) reference, or nobody: their main/http/server/
	// location snippets must not reach our configuration. Also X routes naming an UNREFERENCED SnippetsFilter of ours.
	nsf := 0
	for _, o := range x {
		kind := p.KindOf(o)
		if kind != "HTTPRoute" && kind != "GRPCRoute" {
			continue
		}
		switch k := r.Intn(100); {
		case k < 55:
			name := fmt.Sprintf("xsf-%d", nsf)
			if addExtRef(r, o, name) {
				nsf++
				sf := w.snippetsFilter(r, o.GetNamespace(), name)
				if r.Chance(10, 100) {
					sf.Spec.Snippets = append(sf.Spec.Snippets, sf.Spec.Snippets[0]) // invalid: a context twice
					w.tags["x-sf-invalid"]++
				}
				x = append(x, sf)
				w.tags["x-sf-referenced-by-foreign-route"]++
			}
		case k < 75:
			for _, own := range w.ownSfs {
				if own.NS == o.GetNamespace() && addExtRef(r, o, own.Name) {
					w.tags["x-route-refs-own-unreferenced-sf"]++
					break
				}
			}
		}
	}
	if r.Chance(25, 100) {
		x = append(x, w.snippetsFilter(r, rng.Pick(r, w.ns), "xsf-lonely"))
		w.tags["x-sf-unreferenced"]++
	}
	// the NAME of a SnippetsFilter that a route of ours references, in ANOTHER namespace: the resolver looks filters
	// up in the route's namespace only
	for _, own := range w.refSfs {
		if !r.Chance(50, 100) {
			continue
		}
		for _, ns := range w.ns {
			if ns != own.NS && !w.aux["SnippetsFilter/"+ns+"/"+own.Name] {
				w.aux["SnippetsFilter/"+ns+"/"+own.Name] = true
				x = append(x, w.snippetsFilter(r, ns, own.Name))
				w.tags["x-sf-own-name-other-namespace"]++
				break
			}
		}
	}
	for _, dns := range w.danglingSfNS {
		for _, ns := range w.ns {
			if ns != dns && !w.aux["SnippetsFilter/"+ns+"/sf-elsewhere"] && r.Chance(70, 100) {
				w.aux["SnippetsFilter/"+ns+"/sf-elsewhere"] = true
				x = append(x, w.snippetsFilter(r, ns, "sf-elsewhere"))
				w.tags["x-sf-dangling-name-other-namespace"]++
				break
			}
		}
	}
	// objects that only foreign objects reference: the backend Service of the foreign routes (with endpoints and a
	// ReferenceGrant naming it), the CA ConfigMap of a foreign BackendTLSPolicy, the TLS Secret of a foreign Gateway
	if r.Chance(50, 100) {
		ns := rng.Pick(r, w.ns)
		x = append(x, p.Service(ns, "xsvc0", 80), p.EndpointSlice(ns, "xsvc0", "x0", []int32{80}, "10.9.9.9"))
		w.tags["x-aux-service"]++
		if r.Bool() {
			var from []p.GrantFrom
			for _, n := range w.ns {
				from = append(from, p.GrantFrom{Group: gatewayv1.GroupName, Kind: "HTTPRoute", Namespace: n},
					p.GrantFrom{Group: gatewayv1.GroupName, Kind: "GRPCRoute", Namespace: n})
			}
			x = append(x, p.ReferenceGrant(ns, "xgrant", from, []p.GrantTo{{Group: "", Kind: "Service", Name: "xsvc0"}}))
			w.tags["x-aux-referencegrant"]++
		}
	}
	for _, o := range x {
		switch v := o.(type) {
		case *v1alpha3.BackendTLSPolicy:
			if r.Chance(40, 100) {
				cert, _ := p.CertPair(7)
				v.Spec.Validation.WellKnownCACertificates = nil
				v.Spec.Validation.Hostname = "x.example.com"
				v.Spec.Validation.CACertificateRefs = []gatewayv1.LocalObjectReference{{Group: "", Kind: "ConfigMap", Name: "xca"}}
				if !w.aux["ConfigMap/"+v.Namespace+"/xca"] {
					w.aux["ConfigMap/"+v.Namespace+"/xca"] = true
					x = append(x, &apiv1.ConfigMap{ObjectMeta: p.Meta(v.Namespace, "xca", 0), Data: map[string]string{"ca.crt": string(cert)}})
				}
				w.tags["x-aux-configmap"]++
			}
		case *gatewayv1.Gateway:
			if r.Chance(40, 100) {
				for i := range v.Spec.Listeners {
					if v.Spec.Listeners[i].TLS != nil && len(v.Spec.Listeners[i].TLS.CertificateRefs) > 0 {
						v.Spec.Listeners[i].TLS.CertificateRefs[0].Name = "xtls"
						if !w.aux["Secret/"+v.Namespace+"/xtls"] {
							w.aux["Secret/"+v.Namespace+"/xtls"] = true
							x = append(x, p.TLSSecret(v.Namespace, "xtls", 9))
						}
						w.tags["x-aux-secret"]++
					}
				}
			}
		}
	}
	_ = opts
	return x
}

