package c17

// run.go: the three case families and the line protocol.
//
// Every output line is one JSON object
//   {"k":"base"|"meta"|"disabled"|"hist"|"histp","id":n,"in":<flat state>,"obs":<real graph summary>,"j":<judge data>}
// and is fed unchanged to the Lean driver in `model` mode (recomputes "obs" from "in") and in `judge`
// mode (evaluates the property on "in" and the real outputs in "j").

import (
	"bufio"
	"crypto/sha256"
	"encoding/hex"
	"encoding/json"
	"flag"
	"fmt"
	"os"
	"path/filepath"
	"reflect"
	"sort"
	"strings"

	metav1 "k8s.io/apimachinery/pkg/apis/meta/v1"
	"sigs.k8s.io/controller-runtime/pkg/client"
	"sigs.k8s.io/controller-runtime/pkg/event"
	gatewayv1 "sigs.k8s.io/gateway-api/apis/v1"
	"sigs.k8s.io/gateway-api/apis/v1alpha2"
	"sigs.k8s.io/gateway-api/apis/v1alpha3"

	ngfAPI "github.com/nginx/nginx-gateway-fabric/apis/v1alpha1"
	"github.com/nginx/nginx-gateway-fabric/internal/framework/controller/predicate"
	frameworkStatus "github.com/nginx/nginx-gateway-fabric/internal/framework/status"
	"github.com/nginx/nginx-gateway-fabric/internal/mode/static/nginx/config/policies"
	"github.com/nginx/nginx-gateway-fabric/internal/mode/static/state"
	"github.com/nginx/nginx-gateway-fabric/internal/mode/static/state/dataplane"
	"github.com/nginx/nginx-gateway-fabric/internal/mode/static/state/graph"
	p "github.com/nginx/nginx-gateway-fabric/verifharness/pipeline"
	"github.com/nginx/nginx-gateway-fabric/verifharness/rng"
	"github.com/nginx/nginx-gateway-fabric/verifharness/scen"
)

type jKept struct {
	Obj    string   `json:"obj"`
	Before []string `json:"before"` // entries of other controllers before the setter ran, in order
	After  []string `json:"after"`
	Wrote  bool     `json:"wrote"`
	HB     string   `json:"hb"` // hash of the whole status before / after
	HA     string   `json:"ha"`
}

type jJudge struct {
	X        []string `json:"x"`       // keys (model vocabulary) of the objects meant to be foreign
	Targets  []string `json:"targets"` // targets of the real UpdateRequests
	FilesA   []string `json:"filesA"`  // reference files (without X / default configuration)
	FilesB   []string `json:"filesB"`  // files of the run under test
	FilesF   []string `json:"filesF"`  // hist only: files of a fresh controller on the same state
	// The generator output is not a function of its input (Go map order reaches the text in a few places,
	// see notes/C17.md), so when the first reference run and the run under test differ both are repeated
	// with other arrival orders; one hash per run of all files / of all resulting statuses:
	RunsA  []string `json:"runsA"`
	RunsB  []string `json:"runsB"`
	RunsF  []string `json:"runsF"`
	SRunsA []string `json:"srunsA"`
	SRunsB []string `json:"srunsB"`
	SRunsF []string `json:"srunsF"`
	StatusA  []string `json:"statusA"` // resulting statuses (conditions without time/message), reference run
	StatusB  []string `json:"statusB"`
	Kept     []jKept  `json:"kept"`
	NoChange bool     `json:"nochange"`
	Panic    string   `json:"panic"`
	// lead lines: what the real Updater behind the real LeaderAwareGroupUpdater did during one operation
	Phase  string   `json:"phase,omitempty"`  // pre | enable | post
	Reqs   []string `json:"reqs,omitempty"`   // objects it was asked to write (client Get)
	Writes []string `json:"writes,omitempty"` // objects whose status it wrote (client Status().Update)
}

type jLine struct {
	K   string `json:"k"`
	ID  int    `json:"id"`
	In  jState `json:"in"`
	Obs jObs   `json:"obs"`
	J   jJudge `json:"j"`
	Tag string `json:"tag,omitempty"`
}

func hashOf(v any) string {
	b, _ := json.Marshal(v)
	h := sha256.Sum256(b)
	return hex.EncodeToString(h[:8])
}

func scrub(v any) any {
	switch x := v.(type) {
	case map[string]any:
		delete(x, "lastTransitionTime")
		delete(x, "message")
		for k, e := range x {
			x[k] = scrub(e)
		}
		return x
	case []any:
		for i, e := range x {
			x[i] = scrub(e)
		}
		return x
	}
	return v
}

func statusOf(o client.Object, scrubbed bool) any {
	b, _ := json.Marshal(o)
	var m map[string]any
	_ = json.Unmarshal(b, &m)
	st := m["status"]
	if scrubbed {
		st = scrub(st)
	}
	return st
}

// foreignEntries lists, in order, the status entries of o written by a controller other than ours.
func foreignEntries(o client.Object, ours string) []string {
	out := []string{}
	add := func(ctlr string, v any) {
		if ctlr != ours {
			out = append(out, ctlr+" "+hashOf(v))
		}
	}
	switch x := o.(type) {
	case *gatewayv1.HTTPRoute:
		for _, e := range x.Status.Parents {
			add(string(e.ControllerName), e)
		}
	case *gatewayv1.GRPCRoute:
		for _, e := range x.Status.Parents {
			add(string(e.ControllerName), e)
		}
	case *v1alpha2.TLSRoute:
		for _, e := range x.Status.Parents {
			add(string(e.ControllerName), e)
		}
	case *v1alpha3.BackendTLSPolicy:
		for _, e := range x.Status.Ancestors {
			add(string(e.ControllerName), e)
		}
	case *ngfAPI.SnippetsFilter:
		for _, e := range x.Status.Controllers {
			add(string(e.ControllerName), e)
		}
	default:
		if pol, ok := o.(policies.Policy); ok {
			for _, e := range pol.GetPolicyStatus().Ancestors {
				add(string(e.ControllerName), e)
			}
		}
	}
	return out
}

// applyAndSummarise runs the real setters on copies of objs and reports the resulting statuses and what
// happened to the entries of other controllers.
func applyAndSummarise(reqs []frameworkStatus.UpdateRequest, objs []client.Object, ours string) ([]string, []jKept) {
	res, written, _ := p.ApplyStatuses(reqs, objs)
	byKey := map[p.Key]client.Object{}
	for _, o := range objs {
		byKey[p.KeyOf(o)] = o
	}
	keys := make([]p.Key, 0, len(res))
	for k := range res {
		keys = append(keys, k)
	}
	sort.Slice(keys, func(i, j int) bool { return keys[i].String() < keys[j].String() })
	statuses := []string{}
	kept := []jKept{}
	for _, k := range keys {
		statuses = append(statuses, TargetStr(k)+" "+hashOf(statusOf(res[k], true)))
		before := foreignEntries(byKey[k], ours)
		after := foreignEntries(res[k], ours)
		if len(before) > 0 || len(after) > 0 || !written[k] {
			kept = append(kept, jKept{TargetStr(k), before, after, written[k],
				hashOf(statusOf(byKey[k], false)), hashOf(statusOf(res[k], false))})
		}
	}
	// live drift: other controllers added ancestor entries to an NGF policy AFTER our graph was built (status writes do
	// not bump the generation, so the controller never sees them): the setter runs on the live object and must carry
	// every one of them over, however many there are (15 or 16 foreign entries next to ours).
	drift := 0
	for _, rq := range reqs {
		k := p.Key{Kind: p.KindOf(rq.ResourceType), NN: rq.NsName}
		o, ok := byKey[k]
		if !ok || drift >= 4 {
			continue
		}
		pol, isPol := o.(policies.Policy)
		if !isPol {
			continue
		}
		drift++
		live := o.DeepCopyObject().(client.Object)
		st := pol.GetPolicyStatus()
		anc := append([]v1alpha2.PolicyAncestorStatus(nil), st.Ancestors...)
		nForeign := 0
		for _, a := range anc {
			if string(a.ControllerName) != ours {
				nForeign++
			}
		}
		want := 15 + drift%2
		for i := 0; nForeign < want; i++ {
			anc = append(anc, v1alpha2.PolicyAncestorStatus{
				AncestorRef: gatewayv1.ParentReference{
					Group: ptr(gatewayv1.Group(gatewayv1.GroupName)), Kind: ptr(gatewayv1.Kind("Gateway")),
					Namespace: ptr(gatewayv1.Namespace(o.GetNamespace())), Name: gatewayv1.ObjectName(fmt.Sprintf("drift-gw%d", i)),
				},
				ControllerName: gatewayv1.GatewayController(foreignControllers[i%len(foreignControllers)]),
				Conditions:     []metav1.Condition{cond("Accepted", "True", "Accepted")},
			})
			nForeign++
		}
		live.(policies.Policy).SetPolicyStatus(v1alpha2.PolicyStatus{Ancestors: anc})
		before := foreignEntries(live, ours)
		hb := hashOf(statusOf(live, false))
		wrote := rq.Setter(live)
		kept = append(kept, jKept{TargetStr(k) + "#live-drift", before, foreignEntries(live, ours), wrote, hb, hashOf(statusOf(live, false))})
	}
	return statuses, kept
}

func keysOf(objs []client.Object) []string {
	out := []string{}
	for _, o := range objs {
		k := p.KeyOf(o)
		switch k.Kind {
		case "Secret", "ConfigMap", "Service", "EndpointSlice", "ReferenceGrant", "Namespace":
			// no counterpart in the model state: declared, accepted by the judge on trust (never request targets)
			out = append(out, "aux:"+k.String())
		default:
			out = append(out, TargetStr(k))
		}
	}
	sort.Strings(out)
	return out
}

// withoutSnippetsOf drops the status entries of the SnippetsFilters of x: a SnippetsFilter is NGF's own CRD and
// always gets its status; what is compared is the status of everything else.
func withoutSnippetsOf(statuses []string, x []client.Object) []string {
	skip := map[string]bool{}
	for _, o := range x {
		if _, ok := o.(*ngfAPI.SnippetsFilter); ok {
			skip[TargetStr(p.KeyOf(o))] = true
		}
	}
	if len(skip) == 0 {
		return statuses
	}
	out := []string{}
	for _, st := range statuses {
		if i := strings.IndexByte(st, ' '); i < 0 || !skip[st[:i]] {
			out = append(out, st)
		}
	}
	return out
}

func defaultFiles(c *p.Controller) []string {
	return FileHashes(c.Gen.Generate(dataplane.GetDefaultConfiguration(&graph.Graph{}, 1)))
}

type emitter struct {
	w  *bufio.Writer
	id int
}

func (e *emitter) emit(l jLine) {
	e.id++
	l.ID = e.id
	b, err := json.Marshal(l)
	if err != nil {
		panic(err)
	}
	e.w.Write(b)
	e.w.WriteByte('\n')
	e.w.Flush()
}

func cloneAll(objs []client.Object) []client.Object {
	out := make([]client.Object, len(objs))
	for i, o := range objs {
		out[i] = o.DeepCopyObject().(client.Object)
	}
	return out
}

const extraRuns = 9

// repeat runs a fresh controller n more times on objs in other arrival orders and returns one hash per
// run of the generated files and of the resulting statuses.
func repeat(r *rng.R, objs []client.Object, opts p.Options, n int, x ...client.Object) (files, statuses []string) {
	for i := 0; i < n; i++ {
		cp := cloneAll(objs)
		rng.Shuffle(r, cp)
		c, out := p.RunFresh(cp, opts, nil)
		fh := FileHashes(out.Files)
		if out.Files == nil {
			fh = defaultFiles(c)
		}
		st, _ := applyAndSummarise(out.Requests, objs, opts.Controller)
		st = withoutSnippetsOf(st, x)
		files, statuses = append(files, hashOf(fh)), append(statuses, hashOf(st))
	}
	return files, statuses
}

// runMeta: one metamorphic pair. Returns false after a panic of the code under test.
func runMeta(e *emitter, r *rng.R, tags map[string]int) {
	s := scen.Generate(r.Fork(), scen.DefaultConfig())
	w := Emphasise(r.Fork(), s)
	base := s.Objs
	x := w.GenX(r.Fork(), s.Opts)
	for k, v := range s.Tags {
		tags[k] += v
	}
	ours := s.Opts.Controller

	all := append(cloneAll(base), x...)
	// the objects arrive in an arbitrary order
	rng.Shuffle(r, all)

	_, outA := p.RunFresh(cloneAll(base), s.Opts, nil)
	_, outB := p.RunFresh(cloneAll(all), s.Opts, nil)

	la := jLine{K: "base", In: Flatten(base, s.Opts, outA.Graph), Obs: Observe(outA)}
	la.J.X, la.J.FilesA, la.J.FilesB = []string{}, FileHashes(outA.Files), FileHashes(outA.Files)
	la.J.Targets = la.Obs.Targets
	la.J.Panic = la.Obs.Panic
	if outA.Panic == "" {
		la.J.StatusA, la.J.Kept = applyAndSummarise(outA.Requests, base, ours)
		la.J.StatusB = la.J.StatusA
	}
	la.J.RunsA, la.J.SRunsA = []string{hashOf(la.J.FilesA)}, []string{hashOf(la.J.StatusA)}
	la.J.RunsB, la.J.SRunsB = la.J.RunsA, la.J.SRunsA
	e.emit(la)
	if dumpDir != "" && e.id == dumpID-1 {
		for _, f := range outA.Files {
			os.WriteFile(dumpDir+"/A_"+filepath.Base(f.Path), f.Content, 0o644)
		}
		for _, f := range outB.Files {
			os.WriteFile(dumpDir+"/B_"+filepath.Base(f.Path), f.Content, 0o644)
		}
		os.WriteFile(dumpDir+"/objs.json", p.EncodeObjects(all), 0o644)
	}

	lb := jLine{K: "meta", In: Flatten(all, s.Opts, outB.Graph), Obs: Observe(outB)}
	lb.J.X = keysOf(x)
	lb.J.FilesA, lb.J.FilesB = FileHashes(outA.Files), FileHashes(outB.Files)
	lb.J.Targets = lb.Obs.Targets
	lb.J.Panic = lb.Obs.Panic
	lb.J.StatusA = la.J.StatusA
	if outB.Panic == "" {
		lb.J.StatusB, lb.J.Kept = applyAndSummarise(outB.Requests, all, ours)
		lb.J.StatusB = withoutSnippetsOf(lb.J.StatusB, x)
	}
	lb.J.RunsA, lb.J.SRunsA = []string{hashOf(lb.J.FilesA)}, []string{hashOf(lb.J.StatusA)}
	lb.J.RunsB, lb.J.SRunsB = []string{hashOf(lb.J.FilesB)}, []string{hashOf(lb.J.StatusB)}
	if outA.Panic == "" && outB.Panic == "" && (lb.J.RunsA[0] != lb.J.RunsB[0] || lb.J.SRunsA[0] != lb.J.SRunsB[0]) {
		tags["meta-repeated"]++
		fa, sa := repeat(r, base, s.Opts, extraRuns)
		fb, sb := repeat(r, all, s.Opts, extraRuns, x...)
		lb.J.RunsA, lb.J.SRunsA = append(lb.J.RunsA, fa...), append(lb.J.SRunsA, sa...)
		lb.J.RunsB, lb.J.SRunsB = append(lb.J.RunsB, fb...), append(lb.J.SRunsB, sb...)
	}
	e.emit(lb)
}

// runDisabled: the configured-name class names another controller.
func runDisabled(e *emitter, r *rng.R, tags map[string]int) {
	s := scen.Generate(r.Fork(), scen.DefaultConfig())
	w := Emphasise(r.Fork(), s)
	objs := s.Objs
	if r.Bool() {
		objs = append(objs, w.GenX(r.Fork(), s.Opts)...)
	}
	found := false
	fc := rng.Pick(r, foreignControllers)
	for _, o := range objs {
		if gc, ok := o.(*gatewayv1.GatewayClass); ok && gc.Name == s.Opts.Class {
			gc.Spec.ControllerName = gatewayv1.GatewayController(fc)
			found = true
		}
	}
	if !found {
		objs = append(objs, p.GatewayClass(s.Opts.Class, fc, 1))
	}
	if r.Chance(40, 100) {
		// another class that does name us must not bring anything back
		objs = append(objs, p.GatewayClass("nginx-3", s.Opts.Controller, 2))
		tags["disabled-with-own-other-class"]++
	}
	tags["disabled"]++
	rng.Shuffle(r, objs)
	c, out := p.RunFresh(cloneAll(objs), s.Opts, nil)
	l := jLine{K: "disabled", In: Flatten(objs, s.Opts, out.Graph), Obs: Observe(out)}
	l.J.X = []string{}
	l.J.FilesA, l.J.FilesB = defaultFiles(c), FileHashes(out.Files)
	l.J.Targets, l.J.Panic = l.Obs.Targets, l.Obs.Panic
	l.J.StatusA, l.J.StatusB, l.J.Kept = []string{}, []string{}, []jKept{}
	if out.Panic == "" {
		l.J.StatusB, l.J.Kept = applyAndSummarise(out.Requests, objs, s.Opts.Controller)
	}
	e.emit(l)
}

// ------------------------------------------------------------------ Go-side classification (generator aid;
// the Lean judge re-derives foreignness from "in" and reports x-not-foreign if this is wrong)

type classifier struct {
	opts     p.Options
	disabled bool
	ownGw    map[jNN]bool
	ownRoute map[string]bool
	ownSvc   map[jNN]bool
}

func refsOwn(c *classifier, ns string, prs []gatewayv1.ParentReference) bool {
	for _, pr := range prs {
		if pr.Kind != nil && *pr.Kind != "Gateway" {
			continue
		}
		if pr.Group != nil && *pr.Group != gatewayv1.GroupName {
			continue
		}
		n := ns
		if pr.Namespace != nil {
			n = string(*pr.Namespace)
		}
		if c.ownGw[jNN{n, string(pr.Name)}] {
			return true
		}
	}
	return false
}

func classify(objs []client.Object, opts p.Options) *classifier {
	c := &classifier{opts: opts, ownGw: map[jNN]bool{}, ownRoute: map[string]bool{}, ownSvc: map[jNN]bool{}}
	for _, o := range objs {
		switch x := o.(type) {
		case *gatewayv1.GatewayClass:
			if x.Name == opts.Class && string(x.Spec.ControllerName) != opts.Controller {
				c.disabled = true
			}
		case *gatewayv1.Gateway:
			if string(x.Spec.GatewayClassName) == opts.Class {
				c.ownGw[jNN{x.Namespace, x.Name}] = true
			}
		}
	}
	st := Flatten(objs, opts, nil)
	for _, o := range objs {
		if prs := routeParents(o); prs != nil && refsOwn(c, o.GetNamespace(), *prs) {
			c.ownRoute[p.KindOf(o)+"/"+o.GetNamespace()+"/"+o.GetName()] = true
		}
	}
	for _, rt := range st.Routes {
		if c.ownRoute[rt.Kind+"/"+rt.NS+"/"+rt.Name] {
			for _, s := range rt.SpecSvcs {
				c.ownSvc[s] = true
			}
		}
	}
	return c
}

// droppable: foreign, and not the configured-name class itself.
func (c *classifier) droppable(o client.Object) bool {
	switch x := o.(type) {
	case *gatewayv1.GatewayClass:
		return x.Name != c.opts.Class && string(x.Spec.ControllerName) != c.opts.Controller
	case *gatewayv1.Gateway:
		return string(x.Spec.GatewayClassName) != c.opts.Class
	case *gatewayv1.HTTPRoute, *gatewayv1.GRPCRoute, *v1alpha2.TLSRoute:
		return !c.ownRoute[p.KindOf(o)+"/"+o.GetNamespace()+"/"+o.GetName()]
	case *v1alpha3.BackendTLSPolicy:
		for _, t := range x.Spec.TargetRefs {
			if c.ownSvc[jNN{x.Namespace, string(t.Name)}] {
				return false
			}
		}
		return true
	}
	if pol, ok := o.(policies.Policy); ok {
		for _, t := range pol.GetTargetRefs() {
			nn := jNN{o.GetNamespace(), string(t.Name)}
			switch {
			case t.Group == gatewayv1.GroupName && t.Kind == "Gateway":
				if c.ownGw[nn] {
					return false
				}
			case t.Group == gatewayv1.GroupName && (t.Kind == "HTTPRoute" || t.Kind == "GRPCRoute"):
				if c.ownRoute[string(t.Kind)+"/"+nn.NS+"/"+nn.Name] {
					return false
				}
			case (t.Group == "" || t.Group == "core") && t.Kind == "Service":
				if c.ownSvc[nn] {
					return false
				}
			}
		}
		return true
	}
	return false
}

// ------------------------------------------------------------------ histories

type cluster struct {
	keys []p.Key
	objs map[p.Key]client.Object
}

func newCluster(objs []client.Object) *cluster {
	c := &cluster{objs: map[p.Key]client.Object{}}
	for _, o := range objs {
		c.put(o)
	}
	return c
}

func (c *cluster) put(o client.Object) {
	k := p.KeyOf(o)
	if _, ok := c.objs[k]; !ok {
		c.keys = append(c.keys, k)
	}
	c.objs[k] = o
}

func (c *cluster) del(k p.Key) {
	delete(c.objs, k)
	for i, x := range c.keys {
		if x == k {
			c.keys = append(c.keys[:i:i], c.keys[i+1:]...)
			break
		}
	}
}

func (c *cluster) list() []client.Object {
	out := make([]client.Object, 0, len(c.keys))
	for _, k := range c.keys {
		out = append(out, c.objs[k])
	}
	return out
}

func (c *cluster) ofKind(kinds ...string) []p.Key {
	var out []p.Key
	for _, k := range c.keys {
		for _, kind := range kinds {
			if k.Kind == kind {
				out = append(out, k)
			}
		}
	}
	return out
}

type hist struct {
	r     *rng.R
	cl    *cluster
	ctl   *p.Controller
	opts  p.Options
	pred  bool // deliver GatewayClass events through the real GatewayClassPredicate
	gcp   predicate.GatewayClassPredicate
	tags  map[string]int
	spare []client.Object // deleted objects that may come back
	store map[string]string // GatewayClass name -> controllerName as delivered to the controller
	// the GatewayClass event history, for the correspondence of the Lean class-store model (runClasses)
	clsStart  []jClass
	clsEvents []jClsEv
}

type jClsEv struct {
	Put *jClass `json:"put,omitempty"`
	Del string  `json:"del,omitempty"`
}

// storeTag describes how the controller's view of the configured-name class differs from the cluster.
func (h *hist) storeTag() string {
	truth, inCluster := "", false
	if o, ok := h.cl.objs[p.Key{Kind: "GatewayClass", NN: client.ObjectKey{Name: h.opts.Class}}]; ok {
		truth, inCluster = string(o.(*gatewayv1.GatewayClass).Spec.ControllerName), true
	}
	seen, inStore := h.store[h.opts.Class]
	switch {
	case inCluster && !inStore && truth != h.opts.Controller:
		return " store-lacks-foreign-configured-class"
	case inCluster && !inStore:
		return " store-lacks-own-configured-class"
	case !inCluster && inStore:
		return " store-keeps-deleted-configured-class"
	case inCluster && inStore && seen != truth:
		return " store-has-stale-configured-class"
	}
	return ""
}

func bump(o client.Object) { o.SetGeneration(o.GetGeneration() + 1) }

func (h *hist) upsert(o client.Object) {
	if gc, ok := o.(*gatewayv1.GatewayClass); ok {
		h.clsEvents = append(h.clsEvents, jClsEv{Put: &jClass{gc.Name, string(gc.Spec.ControllerName)}})
	}
	old, existed := h.cl.objs[p.KeyOf(o)]
	h.cl.put(o)
	if gc, ok := o.(*gatewayv1.GatewayClass); ok && h.pred {
		pass := false
		if existed {
			pass = h.gcp.Update(event.UpdateEvent{ObjectOld: old, ObjectNew: gc})
		} else {
			pass = h.gcp.Create(event.CreateEvent{Object: gc})
		}
		if !pass {
			h.tags["class-event-filtered"]++
			return
		}
	}
	if gc, ok := o.(*gatewayv1.GatewayClass); ok {
		h.store[gc.Name] = string(gc.Spec.ControllerName)
	}
	h.ctl.Upsert(o)
}

func (h *hist) delete(k p.Key) {
	old, ok := h.cl.objs[k]
	if !ok {
		return
	}
	h.cl.del(k)
	h.spare = append(h.spare, old)
	if k.Kind == "GatewayClass" {
		h.clsEvents = append(h.clsEvents, jClsEv{Del: k.NN.Name})
	}
	if _, isGC := old.(*gatewayv1.GatewayClass); isGC && h.pred {
		if !h.gcp.Delete(event.DeleteEvent{Object: old}) {
			h.tags["class-event-filtered"]++
			return
		}
	}
	if k.Kind == "GatewayClass" {
		delete(h.store, k.NN.Name)
	}
	h.ctl.Delete(reflect.New(reflect.TypeOf(old).Elem()).Interface().(client.Object), k.NN)
}

var classPool = []string{"nginx", "nginx-2", "other", "acme", "ghost-class"}

func (h *hist) op() {
	r := h.r
	switch r.Intn(9) {
	case 0, 1: // controllerName flip of a class (the configured one preferred)
		ks := h.cl.ofKind("GatewayClass")
		if _, have := h.cl.objs[p.Key{Kind: "GatewayClass", NN: client.ObjectKey{Name: h.opts.Class}}]; !have {
			ctlr := h.opts.Controller
			if r.Bool() {
				ctlr = rng.Pick(r, foreignControllers)
			}
			h.upsert(p.GatewayClass(h.opts.Class, ctlr, r.Intn(900)))
			h.tags["op-configured-class-create"]++
			return
		}
		k := rng.Pick(r, ks)
		for _, c := range ks {
			if c.NN.Name == h.opts.Class && r.Chance(60, 100) {
				k = c
			}
		}
		gc := h.cl.objs[k].DeepCopyObject().(*gatewayv1.GatewayClass)
		if string(gc.Spec.ControllerName) == h.opts.Controller {
			gc.Spec.ControllerName = gatewayv1.GatewayController(rng.Pick(r, foreignControllers))
		} else {
			gc.Spec.ControllerName = gatewayv1.GatewayController(h.opts.Controller)
		}
		bump(gc)
		h.upsert(gc)
		h.tags["op-class-flip"]++
	case 2: // class rename = delete + create under another name (same controller)
		ks := h.cl.ofKind("GatewayClass")
		if len(ks) == 0 {
			return
		}
		k := rng.Pick(r, ks)
		old := h.cl.objs[k].(*gatewayv1.GatewayClass)
		name := rng.Pick(r, classPool)
		if _, taken := h.cl.objs[p.Key{Kind: "GatewayClass", NN: client.ObjectKey{Name: name}}]; taken {
			return
		}
		h.delete(k)
		h.upsert(p.GatewayClass(name, string(old.Spec.ControllerName), r.Intn(900)))
		h.tags["op-class-rename"]++
	case 3: // a Gateway moves to another class
		ks := h.cl.ofKind("Gateway")
		if len(ks) == 0 {
			return
		}
		g := h.cl.objs[rng.Pick(r, ks)].DeepCopyObject().(*gatewayv1.Gateway)
		if string(g.Spec.GatewayClassName) == h.opts.Class {
			g.Spec.GatewayClassName = gatewayv1.ObjectName(rng.Pick(r, classPool[1:]))
		} else {
			g.Spec.GatewayClassName = gatewayv1.ObjectName(h.opts.Class)
		}
		bump(g)
		h.upsert(g)
		h.tags["op-gateway-reclass"]++
	case 4, 5: // a parentRef is retargeted (ours <-> foreign)
		ks := h.cl.ofKind("HTTPRoute", "GRPCRoute", "TLSRoute")
		gws := h.cl.ofKind("Gateway")
		if len(ks) == 0 || len(gws) == 0 {
			return
		}
		o := h.cl.objs[rng.Pick(r, ks)].DeepCopyObject().(client.Object)
		prs := routeParents(o)
		if len(*prs) == 0 {
			return
		}
		g := rng.Pick(r, gws)
		i := r.Intn(len(*prs))
		(*prs)[i] = p.ParentRef(g.NN.Namespace, g.NN.Name, "")
		switch k := r.Intn(100); {
		case k < 12:
			(*prs)[i].Kind = ptr(gatewayv1.Kind("Service"))
		case k < 24: // explicit empty group: the core API group, not a Gateway API Gateway
			(*prs)[i].Group = ptr(gatewayv1.Group(""))
		case k < 30:
			(*prs)[i].Group = ptr(gatewayv1.Group("core"))
			(*prs)[i].Kind = ptr(gatewayv1.Kind("Gateway"))
		}
		bump(o)
		h.upsert(o)
		h.tags["op-parent-retarget"]++
	case 6: // a policy is retargeted
		var ks []p.Key
		for _, k := range h.cl.keys {
			if _, ok := h.cl.objs[k].(*ngfAPI.ClientSettingsPolicy); ok {
				ks = append(ks, k)
			}
		}
		if len(ks) == 0 {
			return
		}
		csp := h.cl.objs[rng.Pick(r, ks)].DeepCopyObject().(*ngfAPI.ClientSettingsPolicy)
		var cands []v1alpha2.LocalPolicyTargetReference
		for _, k := range h.cl.keys {
			if k.NN.Namespace == csp.Namespace && (k.Kind == "Gateway" || k.Kind == "HTTPRoute" || k.Kind == "GRPCRoute") {
				cands = append(cands, v1alpha2.LocalPolicyTargetReference{Group: gatewayv1.GroupName, Kind: gatewayv1.Kind(k.Kind), Name: gatewayv1.ObjectName(k.NN.Name)})
			}
		}
		if len(cands) == 0 {
			return
		}
		csp.Spec.TargetRef = rng.Pick(r, cands)
		bump(csp)
		h.upsert(csp)
		h.tags["op-policy-retarget"]++
	case 7: // an object disappears
		ks := h.cl.ofKind("Gateway", "HTTPRoute", "GRPCRoute", "TLSRoute", "GatewayClass", "ClientSettingsPolicy", "ObservabilityPolicy")
		if len(ks) == 0 {
			return
		}
		h.delete(rng.Pick(r, ks))
		h.tags["op-delete"]++
	default: // a deleted object comes back
		if len(h.spare) == 0 {
			return
		}
		i := r.Intn(len(h.spare))
		o := h.spare[i]
		h.spare = append(h.spare[:i:i], h.spare[i+1:]...)
		if _, exists := h.cl.objs[p.KeyOf(o)]; exists {
			return
		}
		h.upsert(o.DeepCopyObject().(client.Object))
		h.tags["op-recreate"]++
	}
}

func runHist(e *emitter, r *rng.R, steps int, pred bool, tags map[string]int) {
	s := scen.Generate(r.Fork(), scen.DefaultConfig())
	w := Emphasise(r.Fork(), s)
	objs := append(s.Objs, w.GenX(r.Fork(), s.Opts)...)
	runHistory(e, r, s, objs, steps, pred, tags, nil)
}

// scripted histories (run first, in predicate mode): the ownership changes named in DESIGN.md §6 C17 / §7 row 23
// on a small hand-built cluster. Each script is a list of batches; a batch is a list of operations.
func runScripted(e *emitter, r *rng.R, tags map[string]int) {
	opts := p.DefaultOptions()
	foreign := scen.ForeignController
	cluster := func(classCtlr string) []client.Object {
		objs := []client.Object{
			p.Namespace("default", nil),
			p.Service("default", "svc0", 80),
			p.EndpointSlice("default", "svc0", "s0", []int32{80}, "10.0.0.5"),
			p.GatewayClass("nginx-2", opts.Controller, 2),
			p.GatewayClass("other", foreign, 3),
			p.Gateway("default", "gw0", opts.Class, 10, p.Listener{Name: "http", Port: 80, Protocol: "HTTP"}),
			p.Gateway("default", "gw1", opts.Class, 11, p.Listener{Name: "http", Port: 8080, Protocol: "HTTP"}),
			p.Gateway("default", "fgw", "other", 1, p.Listener{Name: "http", Port: 80, Protocol: "HTTP"}),
			p.HTTPRoute("default", "hr0", 20, []gatewayv1.ParentReference{p.ParentRef("", "gw0", "")}, []string{"cafe.example.com"},
				p.HTTPRule([]gatewayv1.HTTPRouteMatch{p.PathMatch("PathPrefix", "/")}, p.Backend{Ref: "svc0", Port: 80, Weight: -1})),
			p.HTTPRoute("default", "xr", 21, []gatewayv1.ParentReference{p.ParentRef("", "fgw", "")}, []string{"cafe.example.com"},
				p.HTTPRule([]gatewayv1.HTTPRouteMatch{p.PathMatch("PathPrefix", "/x")}, p.Backend{Ref: "svc0", Port: 80, Weight: -1})),
		}
		if classCtlr != "" {
			objs = append(objs, p.GatewayClass(opts.Class, classCtlr, 1))
		}
		return objs
	}
	setCtlr := func(name, ctlr string) func(h *hist) {
		return func(h *hist) {
			k := p.Key{Kind: "GatewayClass", NN: client.ObjectKey{Name: name}}
			if o, ok := h.cl.objs[k]; ok {
				gc := o.DeepCopyObject().(*gatewayv1.GatewayClass)
				gc.Spec.ControllerName = gatewayv1.GatewayController(ctlr)
				bump(gc)
				h.upsert(gc)
			} else {
				h.upsert(p.GatewayClass(name, ctlr, 1))
			}
		}
	}
	delClass := func(name string) func(h *hist) {
		return func(h *hist) { h.delete(p.Key{Kind: "GatewayClass", NN: client.ObjectKey{Name: name}}) }
	}
	touch := func(h *hist) { // an unrelated change of one of our routes forces a rebuild
		k := p.Key{Kind: "HTTPRoute", NN: client.ObjectKey{Namespace: "default", Name: "hr0"}}
		o := h.cl.objs[k].DeepCopyObject().(*gatewayv1.HTTPRoute)
		if len(o.Spec.Hostnames) == 1 {
			o.Spec.Hostnames = append(o.Spec.Hostnames, "tea.example.com")
		} else {
			o.Spec.Hostnames = o.Spec.Hostnames[:1]
		}
		bump(o)
		h.upsert(o)
	}
	retarget := func(route, gw string) func(h *hist) {
		return func(h *hist) {
			k := p.Key{Kind: "HTTPRoute", NN: client.ObjectKey{Namespace: "default", Name: route}}
			o := h.cl.objs[k].DeepCopyObject().(*gatewayv1.HTTPRoute)
			o.Spec.ParentRefs = []gatewayv1.ParentReference{p.ParentRef("", gw, "")}
			bump(o)
			h.upsert(o)
		}
	}
	reclass := func(gw, class string) func(h *hist) {
		return func(h *hist) {
			k := p.Key{Kind: "Gateway", NN: client.ObjectKey{Namespace: "default", Name: gw}}
			o := h.cl.objs[k].DeepCopyObject().(*gatewayv1.Gateway)
			o.Spec.GatewayClassName = gatewayv1.ObjectName(class)
			bump(o)
			h.upsert(o)
		}
	}
	type batch = []func(h *hist)
	scripts := []struct {
		name  string
		start string // controller of the configured-name class at start-up ("" = absent)
		steps []batch
	}{
		{"row23-create-foreign-configured-class", "", []batch{{setCtlr(opts.Class, foreign)}, {touch}, {setCtlr(opts.Class, opts.Controller)}, {touch}}},
		{"configured-class-flips", opts.Controller, []batch{{setCtlr(opts.Class, foreign)}, {touch}, {setCtlr(opts.Class, opts.Controller)}, {touch},
			{setCtlr(opts.Class, foreign), touch}}},
		{"configured-class-deleted-then-foreign", opts.Controller, []batch{{delClass(opts.Class)}, {setCtlr(opts.Class, foreign)}, {touch}}},
		{"start-foreign-then-ours", foreign, []batch{{touch}, {setCtlr(opts.Class, opts.Controller)}, {setCtlr(opts.Class, foreign)}, {touch}}},
		{"ignored-class-flips", opts.Controller, []batch{{setCtlr("nginx-2", foreign)}, {touch}, {setCtlr("nginx-2", opts.Controller)}, {touch}}},
		{"foreign-class-flips", opts.Controller, []batch{{setCtlr("other", opts.Controller)}, {touch}, {setCtlr("other", foreign)}, {touch},
			{delClass("other")}, {touch}}},
		{"parentref-retargeted", opts.Controller, []batch{{retarget("hr0", "fgw")}, {retarget("xr", "gw1")}, {retarget("hr0", "gw0"), retarget("xr", "fgw")}}},
		{"gateway-reclassed", opts.Controller, []batch{{reclass("gw0", "other")}, {reclass("fgw", opts.Class)}, {reclass("fgw", "other"), reclass("gw0", opts.Class)},
			{reclass("gw1", "nginx-2")}}},
	}
	for _, sc := range scripts {
		for _, pred := range []bool{true, false} {
			s := &scen.Scenario{Objs: cluster(sc.start), Opts: opts, Tags: map[string]int{}}
			var steps [][]func(h *hist)
			for _, b := range sc.steps {
				steps = append(steps, b)
			}
			tags["scripted-history"]++
			runHistory(e, r, s, s.Objs, len(steps), pred, tags, &script{sc.name, steps})
		}
	}
}

type script struct {
	name  string
	steps [][]func(h *hist)
}

func runHistory(e *emitter, r *rng.R, s *scen.Scenario, objs []client.Object, steps int, pred bool, tags map[string]int, sc *script) {
	h := &hist{r: r, cl: newCluster(nil), ctl: p.NewController(s.Opts), opts: s.Opts, pred: pred, tags: tags, store: map[string]string{},
		gcp: predicate.GatewayClassPredicate{ControllerName: s.Opts.Controller}}
	kind := "hist"
	if pred {
		kind = "histp"
	}
	// start-up: the first batch holds the configured-name class whatever its controller (Get by name);
	// the other classes arrive as informer Create events (filtered in -pred mode).
	for _, o := range objs {
		if gc, ok := o.(*gatewayv1.GatewayClass); ok && gc.Name == s.Opts.Class {
			h.cl.put(o)
			h.store[gc.Name] = string(gc.Spec.ControllerName)
			h.clsStart = append(h.clsStart, jClass{gc.Name, string(gc.Spec.ControllerName)})
			h.ctl.Upsert(o)
			continue
		}
		h.upsert(o)
	}
	var last p.Output
	for step := 0; step <= steps; step++ {
		if step > 0 && sc != nil {
			for _, op := range sc.steps[step-1] {
				op(h)
			}
		} else if step > 0 {
			for n := r.Range(1, 3); n > 0; n-- {
				h.op()
			}
		}
		h.ctl.Version = 0
		out := h.ctl.Apply(nil)
		cur := cloneAll(h.cl.list())
		l := jLine{K: kind, Tag: fmt.Sprintf("step%d", step) + h.storeTag()}
		if sc != nil {
			l.Tag = sc.name + " " + l.Tag
		}
		if out.Panic != "" {
			l.In, l.Obs = Flatten(cur, s.Opts, nil), Observe(out)
			l.J.Panic = l.Obs.Panic
			e.emit(l)
			return
		}
		nochange := out.Change == state.NoChange
		if nochange {
			out = last
			out.Requests = nil
			tags["hist-nochange"]++
		} else {
			last = out
		}
		cf := classify(cur, s.Opts)
		var kept, xs []client.Object
		for _, o := range cur {
			if cf.droppable(o) {
				xs = append(xs, o)
			} else {
				kept = append(kept, o)
			}
		}
		_, outA := p.RunFresh(cloneAll(kept), s.Opts, nil)
		_, outF := p.RunFresh(cloneAll(cur), s.Opts, nil)
		l.In, l.Obs = Flatten(cur, s.Opts, out.Graph), Observe(out)
		if nochange {
			l.Obs.Targets = []string{}
		}
		l.J.NoChange = nochange
		l.J.X = keysOf(xs)
		l.J.Targets = l.Obs.Targets
		l.J.FilesB = FileHashes(out.Files)
		l.J.FilesA = FileHashes(outA.Files)
		l.J.FilesF = FileHashes(outF.Files)
		if outA.Files == nil { // nothing relevant left: a fresh controller reports NoChange and writes nothing
			l.J.FilesA = defaultFiles(h.ctl)
		}
		if outF.Files == nil {
			l.J.FilesF = defaultFiles(h.ctl)
		}
		if out.Files == nil {
			l.J.FilesB = defaultFiles(h.ctl)
		}
		l.J.StatusA, _ = applyAndSummarise(outA.Requests, kept, s.Opts.Controller)
		l.J.StatusB, l.J.Kept = applyAndSummarise(out.Requests, cur, s.Opts.Controller)
		if nochange {
			l.J.StatusB = l.J.StatusA
		}
		l.J.RunsA, l.J.SRunsA = []string{hashOf(l.J.FilesA)}, []string{hashOf(l.J.StatusA)}
		l.J.RunsB, l.J.SRunsB = []string{hashOf(l.J.FilesB)}, []string{hashOf(l.J.StatusB)}
		if l.J.RunsA[0] != l.J.RunsB[0] || l.J.SRunsA[0] != l.J.SRunsB[0] {
			tags["hist-repeated"]++
			statusF, _ := applyAndSummarise(outF.Requests, cur, s.Opts.Controller)
			l.J.RunsF, l.J.SRunsF = []string{hashOf(l.J.FilesF)}, []string{hashOf(statusF)}
			fa, sa := repeat(r, kept, s.Opts, extraRuns)
			ff, sf := repeat(r, cur, s.Opts, extraRuns)
			l.J.RunsA, l.J.SRunsA = append(l.J.RunsA, fa...), append(l.J.SRunsA, sa...)
			l.J.RunsF, l.J.SRunsF = append(l.J.RunsF, ff...), append(l.J.SRunsF, sf...)
		}
		e.emit(l)
	}
	if pred {
		store, cluster := []string{}, []string{}
		for n, c := range h.store {
			store = append(store, n+"="+c)
		}
		for _, k := range h.cl.ofKind("GatewayClass") {
			cluster = append(cluster, k.NN.Name+"="+string(h.cl.objs[k].(*gatewayv1.GatewayClass).Spec.ControllerName))
		}
		sort.Strings(store)
		sort.Strings(cluster)
		if h.clsStart == nil {
			h.clsStart = []jClass{}
		}
		b, _ := json.Marshal(map[string]any{"k": "clsev", "ctlr": s.Opts.Controller, "start": h.clsStart, "events": h.clsEvents,
			"store": store, "cluster": cluster})
		e.w.Write(b)
		e.w.WriteByte('\n')
		e.w.Flush()
	}
}

var (
	dumpDir string
	dumpID  int
)

// Run is the entry point of harness/cmd/c17.
func Run(args []string) int {
	fs := flag.NewFlagSet("c17", flag.ContinueOnError)
	seed := fs.Uint64("seed", 1, "")
	n := fs.Int("n", 100, "metamorphic pairs")
	nd := fs.Int("disabled", 30, "foreign-controlled configured class cases")
	nh := fs.Int("hist", 20, "histories (half of them through the GatewayClass predicate)")
	nl := fs.Int("lead", 20, "random ownership-changing histories through the real LeaderAwareGroupUpdater")
	nf := fs.Int("frag", 0, "in-fragment pairs (s, s+X) for the pipeline-model tie")
	steps := fs.Int("steps", 8, "batches per history")
	fs.StringVar(&dumpDir, "dumpdir", "", "debug: write the files of the pair whose meta line has id -dumpid")
	fs.IntVar(&dumpID, "dumpid", 0, "")
	if err := fs.Parse(args); err != nil {
		return 2
	}
	e := &emitter{w: bufio.NewWriterSize(os.Stdout, 1<<20)}
	tags := map[string]int{}
	r := rng.New(*seed)
	if *nh > 0 {
		runScripted(e, r.Fork(), tags)
	}
	for i := 0; i < *n; i++ {
		runMeta(e, r.Fork(), tags)
	}
	for i := 0; i < *nd; i++ {
		runDisabled(e, r.Fork(), tags)
	}
	for i := 0; i < *nh; i++ {
		runHist(e, r.Fork(), *steps, i%2 == 1, tags)
	}
	if *nf > 0 {
		runFrag(e, r.Fork(), *nf, tags)
	}
	if *nl > 0 {
		runLeadScripted(e, r.Fork(), tags)
	}
	for i := 0; i < *nl; i++ {
		runLeadRandom(e, r.Fork(), *steps, tags)
	}
	b, _ := json.Marshal(map[string]any{"k": "tags", "tags": tags})
	e.w.Write(b)
	e.w.WriteByte('\n')
	e.w.Flush()
	return 0
}
