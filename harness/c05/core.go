package c05

import (
	"fmt"

	apiv1 "k8s.io/api/core/v1"
	discoveryV1 "k8s.io/api/discovery/v1"
	metav1 "k8s.io/apimachinery/pkg/apis/meta/v1"
	"k8s.io/apimachinery/pkg/util/intstr"
	"sigs.k8s.io/controller-runtime/pkg/client"

	p "github.com/nginx/nginx-gateway-fabric/verifharness/pipeline"
	"github.com/nginx/nginx-gateway-fabric/verifharness/rng"
)

func ptr[T any](v T) *T { return &v }

// coreObjects generates the built-in kinds the controller watches (Namespace, Service, EndpointSlice,
// Secret, ConfigMap) and the CRD metadata objects, in variants chosen to populate every field the
// controller reads (headless / ExternalName / dual-stack Services, named / unnamed / appProtocol ports,
// EndpointSlices with nil port / nil name / nil conditions / FQDN / IPv6 / no endpoints / no label,
// TLS Secrets valid / invalid / wrong type / missing key, CA ConfigMaps data / binaryData / garbage).
// All values are admissible for the built-in validation of those kinds.
func coreObjects(r *rng.R, u *universe, tag func(string)) []client.Object {
	var objs []client.Object
	for i, ns := range u.namespaces {
		labels := map[string]string{"kubernetes.io/metadata.name": ns}
		if i%2 == 1 || r.Chance(40, 100) {
			labels["team"] = "dev"
		}
		if r.Chance(30, 100) {
			labels["env"] = rng.Pick(r, []string{"dev", "prod"})
		}
		objs = append(objs, p.Namespace(ns, labels))
	}
	for _, ns := range u.namespaces {
		for _, name := range []string{"svc0", "svc1", "svc2"} {
			if name != "svc0" && r.Chance(25, 100) {
				continue
			}
			svc := &apiv1.Service{ObjectMeta: p.Meta(ns, name, 0)}
			svc.Spec.Type = apiv1.ServiceTypeClusterIP
			svc.Spec.ClusterIP = "10.96.0.10"
			svc.Spec.IPFamilies = []apiv1.IPFamily{apiv1.IPv4Protocol}
			ports := []int32{80}
			if r.Chance(40, 100) {
				ports = append(ports, 8080)
			}
			if r.Chance(15, 100) {
				ports = append(ports, 65535)
			}
			for _, pt := range ports {
				sp := apiv1.ServicePort{Name: fmt.Sprintf("p%d", pt), Port: pt, Protocol: apiv1.ProtocolTCP}
				switch r.Intn(4) {
				case 0:
					sp.TargetPort = intstr.FromInt32(pt%1000 + 8000)
				case 1:
					sp.TargetPort = intstr.FromString("web")
					tag("svc-targetport-string")
				case 2: // unset target port
				default:
					sp.TargetPort = intstr.FromInt32(pt)
				}
				if r.Chance(30, 100) {
					sp.AppProtocol = ptr(rng.Pick(r, []string{"kubernetes.io/h2c", "kubernetes.io/ws", "kubernetes.io/wss", "http", "example.com/custom"}))
					tag("svc-appprotocol")
				}
				if len(ports) == 1 && r.Chance(30, 100) {
					sp.Name = "" // a single port may be unnamed
					tag("svc-unnamed-port")
				}
				svc.Spec.Ports = append(svc.Spec.Ports, sp)
			}
			objs = append(objs, svc)
			objs = append(objs, slicesFor(r, svc, tag)...)
		}
		if r.Chance(70, 100) {
			svc := p.Service(ns, "headless", 80)
			svc.Spec.ClusterIP = apiv1.ClusterIPNone
			objs = append(objs, svc)
			objs = append(objs, slicesFor(r, svc, tag)...)
			tag("svc-headless")
		}
		if r.Chance(70, 100) {
			svc := &apiv1.Service{ObjectMeta: p.Meta(ns, "extname", 0)}
			svc.Spec.Type = apiv1.ServiceTypeExternalName
			svc.Spec.ExternalName = "backend.example.com"
			if r.Bool() {
				svc.Spec.Ports = []apiv1.ServicePort{{Name: "p80", Port: 80, Protocol: apiv1.ProtocolTCP}}
			}
			objs = append(objs, svc)
			tag("svc-externalname")
		}
		if r.Chance(70, 100) {
			svc := p.Service(ns, "dual", 80)
			svc.Spec.IPFamilies = []apiv1.IPFamily{apiv1.IPv4Protocol, apiv1.IPv6Protocol}
			svc.Spec.IPFamilyPolicy = ptr(apiv1.IPFamilyPolicyRequireDualStack)
			objs = append(objs, svc)
			objs = append(objs, slicesFor(r, svc, tag)...)
			tag("svc-dualstack")
		}
		if r.Chance(40, 100) {
			svc := p.Service(ns, "v6only", 80)
			svc.Spec.IPFamilies = []apiv1.IPFamily{apiv1.IPv6Protocol}
			objs = append(objs, svc)
			objs = append(objs, slicesFor(r, svc, tag)...)
			tag("svc-ipv6")
		}
		// secrets
		objs = append(objs, p.TLSSecret(ns, "tls-a", len(ns)))
		if r.Bool() {
			objs = append(objs, p.TLSSecret(ns, "tls-b", len(ns)+10))
		}
		if r.Chance(60, 100) {
			bad := p.TLSSecret(ns, "tls-bad", 3)
			switch r.Intn(5) {
			case 0:
				bad.Data[apiv1.TLSCertKey] = []byte("not a cert")
			case 1:
				bad.Type = apiv1.SecretTypeOpaque
			case 2:
				bad.Data[apiv1.TLSPrivateKeyKey] = []byte{}
			case 3:
				bad.Data = map[string][]byte{apiv1.TLSCertKey: {}, apiv1.TLSPrivateKeyKey: {}}
			default:
				_, k := p.CertPair(5)
				bad.Data[apiv1.TLSPrivateKeyKey] = k // key of another certificate
			}
			objs = append(objs, bad)
			tag("secret-invalid")
		}
		if r.Chance(40, 100) {
			c, _ := p.CertPair(7)
			objs = append(objs, &apiv1.Secret{ObjectMeta: p.Meta(ns, "ca-secret", 0), Type: apiv1.SecretTypeOpaque,
				Data: map[string][]byte{"ca.crt": c}})
		}
		// config maps
		cert, _ := p.CertPair(7)
		if r.Chance(80, 100) {
			objs = append(objs, &apiv1.ConfigMap{ObjectMeta: p.Meta(ns, "ca-bundle", 0), Data: map[string]string{"ca.crt": string(cert)}})
		}
		if r.Chance(50, 100) {
			cm := &apiv1.ConfigMap{ObjectMeta: p.Meta(ns, "ca-bad", 0)}
			switch r.Intn(3) {
			case 0:
				cm.Data = map[string]string{"ca.crt": "garbage"}
			case 1:
				cm.Data = map[string]string{"other": "x"}
			default: // no data at all
			}
			objs = append(objs, cm)
			tag("configmap-invalid")
		}
		if r.Chance(40, 100) {
			objs = append(objs, &apiv1.ConfigMap{ObjectMeta: p.Meta(ns, "ca-binary", 0), BinaryData: map[string][]byte{"ca.crt": cert}})
			tag("configmap-binary")
		}
	}
	// CRD metadata (delivered as PartialObjectMetadata by the metadata-only watch)
	for _, name := range []string{"gateways.gateway.networking.k8s.io", "httproutes.gateway.networking.k8s.io"} {
		if !r.Chance(50, 100) {
			continue
		}
		pm := &metav1.PartialObjectMetadata{
			TypeMeta:   metav1.TypeMeta{APIVersion: "apiextensions.k8s.io/v1", Kind: "CustomResourceDefinition"},
			ObjectMeta: p.Meta("", name, 0),
		}
		switch r.Intn(12) {
		case 0, 4, 5, 6, 7, 8, 9, 10, 11:
			pm.Annotations = map[string]string{"gateway.networking.k8s.io/bundle-version": "v1.2.1"}
		case 1:
			pm.Annotations = map[string]string{"gateway.networking.k8s.io/bundle-version": "v0.8.0"}
		case 2:
			pm.Annotations = map[string]string{"gateway.networking.k8s.io/bundle-version": "not-a-version"}
		default:
		}
		objs = append(objs, pm)
		tag("crd-metadata")
	}
	return objs
}

// slicesFor generates 0..2 EndpointSlices of a Service in the variants named above.
func slicesFor(r *rng.R, svc *apiv1.Service, tag func(string)) []client.Object {
	var out []client.Object
	n := r.Intn(3)
	for k := 0; k < n; k++ {
		es := &discoveryV1.EndpointSlice{
			ObjectMeta:  p.Meta(svc.Namespace, fmt.Sprintf("%s-s%d", svc.Name, k), 0),
			AddressType: discoveryV1.AddressTypeIPv4,
		}
		es.Labels = map[string]string{discoveryV1.LabelServiceName: svc.Name}
		v6 := false
		switch r.Intn(8) {
		case 0:
			es.AddressType = discoveryV1.AddressTypeIPv6
			v6 = true
			tag("es-ipv6")
		case 1:
			es.AddressType = discoveryV1.AddressTypeFQDN
			tag("es-fqdn")
		}
		for _, sp := range svc.Spec.Ports {
			ep := discoveryV1.EndpointPort{Name: ptr(sp.Name), Port: ptr(sp.Port + 8000 - (sp.Port/1000)*1000), Protocol: ptr(apiv1.ProtocolTCP)}
			if *ep.Port > 65535 || *ep.Port < 1 {
				ep.Port = ptr(int32(8080))
			}
			switch r.Intn(10) {
			case 0:
				ep.Port = nil // "all ports"
				tag("es-nil-port")
			case 1:
				ep.Name = nil
				tag("es-nil-portname")
			case 2:
				ep.Protocol = nil
			case 3:
				ep.AppProtocol = ptr("kubernetes.io/h2c")
			}
			es.Ports = append(es.Ports, ep)
		}
		if r.Chance(10, 100) {
			es.Ports = nil
			tag("es-no-ports")
		}
		ne := r.Intn(4)
		for a := 0; a < ne; a++ {
			e := discoveryV1.Endpoint{}
			switch {
			case es.AddressType == discoveryV1.AddressTypeFQDN:
				e.Addresses = []string{fmt.Sprintf("host%d.example.com", a)}
			case v6:
				e.Addresses = []string{fmt.Sprintf("fd00::%d", a+1)}
			default:
				e.Addresses = []string{fmt.Sprintf("10.%d.%d.%d", len(svc.Namespace), k, a+1)}
			}
			switch r.Intn(6) {
			case 0: // nil conditions
				tag("es-nil-conditions")
			case 1:
				e.Conditions.Ready = ptr(false)
			case 2:
				e.Conditions = discoveryV1.EndpointConditions{Ready: ptr(true), Serving: ptr(true), Terminating: ptr(false)}
				e.Hostname = ptr("pod-a")
				e.NodeName = ptr("node-1")
				e.Zone = ptr("zone-a")
				e.TargetRef = &apiv1.ObjectReference{Kind: "Pod", Name: "pod-a", Namespace: svc.Namespace}
			default:
				e.Conditions.Ready = ptr(true)
			}
			es.Endpoints = append(es.Endpoints, e)
		}
		if ne == 0 {
			tag("es-no-endpoints")
		}
		if r.Chance(8, 100) {
			delete(es.Labels, discoveryV1.LabelServiceName)
			tag("es-no-service-label")
		}
		out = append(out, es)
	}
	return out
}

// plusSecrets are the usage-reporting Secrets of the controller namespace in the variants an
// administrator can bring about with admissible Secret updates.
func plusSecrets(r *rng.R, cs *Case, tag func(string)) []client.Object {
	var out []client.Object
	if !cs.Plus {
		return nil
	}
	out = append(out, p.Namespace(PodNamespace, map[string]string{"kubernetes.io/metadata.name": PodNamespace}))
	lic := &apiv1.Secret{ObjectMeta: p.Meta(PodNamespace, PlusJWTSecret, 0), Type: apiv1.SecretTypeOpaque,
		Data: map[string][]byte{"license.jwt": []byte("eyJhbGciOi.fake.jwt")}}
	out = append(out, lic)
	if cs.PlusCA {
		c, _ := p.CertPair(8)
		out = append(out, &apiv1.Secret{ObjectMeta: p.Meta(PodNamespace, PlusCASecret, 0), Type: apiv1.SecretTypeOpaque,
			Data: map[string][]byte{"ca.crt": c}})
	}
	if cs.PlusCl {
		out = append(out, p.TLSSecret(PodNamespace, PlusClientSecret, 9))
	}
	tag("plus-secrets")
	return out
}
