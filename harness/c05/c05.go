package c05

import (
	"bufio"
	"encoding/json"
	"flag"
	"fmt"
	"os"
	"sort"
	"strings"
	"time"

	metav1 "k8s.io/apimachinery/pkg/apis/meta/v1"
	"sigs.k8s.io/controller-runtime/pkg/client"

	p "github.com/nginx/nginx-gateway-fabric/verifharness/pipeline"
	"github.com/nginx/nginx-gateway-fabric/verifharness/rng"
)

// Output: tab-separated parts per line.
//
//	S case=<id> step=<i> profile=<p> plus=<0|1> outcome=<ok|nochange|panic|hang> phase=<..> site=<file@func|-> ms=<n>
//	  \tM <view>                   model input (see view.go)
//	  \tP <first line of panic>    (panics only)
//	R <json>                       replay of the (shrunk) first case per distinct panic site
//	G <json>                       generator statistics (last line)

func siteToken(s string) string {
	if s == "" {
		return "-"
	}
	return strings.ReplaceAll(s, " ", "@")
}

type replayEvent struct {
	Del  bool            `json:"del,omitempty"`
	Kind string          `json:"kind"`
	Key  string          `json:"key"`
	Obj  json.RawMessage `json:"obj,omitempty"`
}

func encodeCase(cs *Case) any {
	var batches [][]replayEvent
	for _, b := range cs.Batches {
		var evs []replayEvent
		for _, e := range b {
			re := replayEvent{Del: e.Del, Kind: kindOf(e.Obj), Key: e.Obj.GetNamespace() + "/" + e.Obj.GetName()}
			{
				if _, ok := e.Obj.(*metav1.PartialObjectMetadata); ok {
					re.Obj, _ = json.Marshal(e.Obj)
				} else {
					arr := p.EncodeObjects([]client.Object{e.Obj})
					var xs []json.RawMessage
					_ = json.Unmarshal(arr, &xs)
					if len(xs) == 1 {
						re.Obj = withEmptySlices(e.Obj, xs[0])
					}
				}
			}
			evs = append(evs, re)
		}
		batches = append(batches, evs)
	}
	return map[string]any{"case": cs.ID, "profile": cs.Profile, "plus": cs.Plus, "plusCA": cs.PlusCA, "plusClient": cs.PlusCl,
		"batches": batches}
}

type replayCase struct {
	Case       int             `json:"case"`
	Profile    string          `json:"profile"`
	Plus       bool            `json:"plus"`
	PlusCA     bool            `json:"plusCA"`
	PlusClient bool            `json:"plusClient"`
	Batches    [][]replayEvent `json:"batches"`
}

// decodeCase reads a case written by encodeCase (either the bare case or {"replay": case, …}).
func decodeCase(b []byte) (*Case, error) {
	var wrap struct {
		Replay *replayCase `json:"replay"`
		Input  *struct {
			Replay *replayCase `json:"replay"`
		} `json:"input"`
	}
	var rc replayCase
	if err := json.Unmarshal(b, &wrap); err == nil && wrap.Replay != nil {
		rc = *wrap.Replay
	} else if wrap.Input != nil && wrap.Input.Replay != nil {
		rc = *wrap.Input.Replay
	} else if err := json.Unmarshal(b, &rc); err != nil {
		return nil, err
	}
	cs := &Case{ID: rc.Case, Profile: rc.Profile, Plus: rc.Plus, PlusCA: rc.PlusCA, PlusCl: rc.PlusClient, Tags: map[string]int{}}
	if cs.Profile == "" {
		cs.Profile = "replay"
	}
	for _, rb := range rc.Batches {
		var evs []Event
		for _, re := range rb {
			var obj client.Object
			if re.Kind == "CustomResourceDefinition" {
				pm := &metav1.PartialObjectMetadata{}
				if err := json.Unmarshal(re.Obj, pm); err != nil {
					return nil, err
				}
				obj = pm
			} else {
				objs, err := p.DecodeObjects([]byte("[" + string(re.Obj) + "]"))
				if err != nil {
					return nil, fmt.Errorf("%s %s: %w", re.Kind, re.Key, err)
				}
				obj = objs[0]
			}
			evs = append(evs, Event{Del: re.Del, Obj: obj})
		}
		cs.Batches = append(cs.Batches, evs)
	}
	return cs, nil
}

// firstBad returns the index of the first panicking / hanging step and its site.
func firstBad(cr CaseResult) (int, string) {
	for i, s := range cr.Steps {
		if s.Outcome == "panic" {
			return i, s.Site
		}
		if s.Outcome == "hang" {
			return i, "hang"
		}
	}
	return -1, ""
}

// shrink removes events while the same site keeps failing (bounded).
func shrink(cs *Case, site string, timeout time.Duration, budget int) *Case {
	cur := cs
	try := func(c *Case) bool {
		if budget <= 0 {
			return false
		}
		budget--
		_, s := firstBad(RunCase(c, timeout))
		return s == site
	}
	// cut the history after the failing step
	if i, _ := firstBad(RunCase(cur, timeout)); i >= 0 && i+1 < len(cur.Batches) {
		c2 := *cur
		c2.Batches = append([][]Event(nil), cur.Batches[:i+1]...)
		cur = &c2
	}
	changed := true
	for changed && budget > 0 {
		changed = false
		for bi := 0; bi < len(cur.Batches); bi++ {
			for ei := 0; ei < len(cur.Batches[bi]); ei++ {
				c2 := *cur
				c2.Batches = nil
				for j, b := range cur.Batches {
					if j != bi {
						c2.Batches = append(c2.Batches, b)
						continue
					}
					nb := append(append([]Event(nil), b[:ei]...), b[ei+1:]...)
					if len(nb) > 0 {
						c2.Batches = append(c2.Batches, nb)
					}
				}
				if len(c2.Batches) > 0 && try(&c2) {
					cur = &c2
					changed = true
					ei--
					if bi >= len(cur.Batches) {
						break
					}
				}
			}
		}
	}
	return cur
}

// Run is the entry point of harness/cmd/c05.
func Run(args []string) int {
	fs := flag.NewFlagSet("c05", flag.ContinueOnError)
	seed := fs.Uint64("seed", 1, "")
	n := fs.Int("n", 100, "number of cases")
	only := fs.Int("only", -1, "run only this case id (replay)")
	timeoutMs := fs.Int("timeout", 10000, "per-step timeout in ms")
	noShrink := fs.Bool("noshrink", false, "")
	dump := fs.Bool("dump", false, "print the replay JSON of every case run")
	fs.BoolVar(&Explain, "explain", false, "print graph conditions of every step to stderr")
	replay := fs.String("replay", "", "run the cases stored in these files (comma separated) instead of generating")
	focus := fs.String("focus", "", "file.go:func,… — raise the probability of objects / fields that reach these functions")
	units := fs.Bool("unit", false, "run the unit streams (real functions of the mirrored nil-guard sites on generated shapes) instead of cases")
	perms := fs.Bool("perms", false, "run the exhaustive small scope (all delivery orders of the selector scenario) instead of generating")
	if err := fs.Parse(args); err != nil {
		return 2
	}
	var replays []*Case
	if *replay != "" {
		for i, f := range strings.Split(*replay, ",") {
			b, err := os.ReadFile(f)
			if err != nil {
				fmt.Fprintln(os.Stderr, "c05:", err)
				return 3
			}
			cs, err := decodeCase(b)
			if err != nil {
				fmt.Fprintln(os.Stderr, "c05: replay", f, err)
				return 3
			}
			cs.ID = 1000000 + i
			replays = append(replays, cs)
		}
		*n = len(replays)
	}
	if *perms {
		replays = PermCases(false)
		*n = len(replays)
	}
	w := bufio.NewWriterSize(os.Stdout, 1<<20)
	defer w.Flush()
	if *units {
		RunUnits(w, *seed, *n)
		return 0
	}
	g, err := NewGen()
	if err != nil {
		fmt.Fprintln(os.Stderr, "c05:", err)
		return 3
	}
	g.Focus = ParseFocus(*focus)
	timeout := time.Duration(*timeoutMs) * time.Millisecond
	root := rng.New(*seed)
	tags := map[string]int{}
	sites := map[string]int{}
	outcomes := map[string]int{}
	steps, hangs := 0, 0
	var maxStep time.Duration
	for id := 0; id < *n; id++ {
		r := root.Fork()
		if *only >= 0 && id != *only {
			continue
		}
		var cs *Case
		if replays != nil {
			cs = replays[id]
		} else {
			cs = g.Case(r, id)
		}
		for t, c := range cs.Tags {
			tags[t] += c
		}
		tags["profile-"+cs.Profile]++
		cr := RunCase(cs, timeout)
		if *dump {
			b, _ := json.Marshal(encodeCase(cs))
			fmt.Fprintf(w, "R %s\n", b)
		}
		for i, s := range cr.Steps {
			steps++
			outcomes[s.Outcome]++
			if s.Elapsed > maxStep {
				maxStep = s.Elapsed
			}
			fmt.Fprintf(w, "S case=%d step=%d profile=%s plus=%s outcome=%s phase=%s site=%s ms=%d\tM %s",
				cs.ID, i, cs.Profile, b01(cs.Plus), s.Outcome, orDash(s.Phase), siteToken(s.Site), s.Elapsed.Milliseconds(), s.View)
			if s.Outcome == "panic" {
				fmt.Fprintf(w, "\tP %s", firstLine(s.Panic))
			}
			fmt.Fprintln(w)
		}
		w.Flush()
		if bi, site := firstBad(cr); bi >= 0 {
			sites[site]++
			if sites[site] == 1 {
				small := cs
				if !*noShrink && site != "hang" {
					small = shrink(cs, site, timeout, 300)
				}
				b, _ := json.Marshal(map[string]any{"site": site, "seed": *seed, "replay": encodeCase(small),
					"panic": firstLines(cr.Steps[bi].Panic, 40)})
				fmt.Fprintf(w, "R %s\n", b)
				w.Flush()
			}
		}
		if cr.Hang >= 0 {
			hangs++
			if hangs >= 2 {
				break // a spinning goroutine is still burning a core: stop here
			}
		}
	}
	pop, tot := 0, 0
	var missing []string
	for k := range g.Optional {
		tot++
		if g.Populated[k] > 0 {
			pop++
		} else {
			missing = append(missing, k)
		}
	}
	sort.Strings(missing)
	cels := map[string]int{}
	for k, ks := range g.Schemas {
		cels[k] = ks.CELs
	}
	stats := map[string]any{"tags": tags, "sites": sites, "outcomes": outcomes, "steps": steps,
		"optional_fields_total": tot, "optional_fields_populated": pop, "optional_fields_missing": missing,
		"objects_per_kind": g.Objects, "schema_invalid": g.SchemaInvalid, "max_step_ms": maxStep.Milliseconds(),
		"cel_rules_per_kind": cels}
	b, _ := json.Marshal(stats)
	fmt.Fprintf(w, "G %s\n", b)
	return 0
}

func orDash(s string) string {
	if s == "" {
		return "-"
	}
	return s
}

func firstLines(s string, n int) string {
	ls := strings.Split(s, "\n")
	if len(ls) > n {
		ls = ls[:n]
	}
	return strings.Join(ls, "\n")
}
