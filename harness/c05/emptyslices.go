package c05

import (
	"encoding/json"
	"reflect"
	"strings"
)

// The typed API objects marshal with `omitempty`, which drops EMPTY BUT NON-NIL slices — exactly what an
// informer produces for `field: []` in the stored object, and what some code paths distinguish from nil
// (`if x.List != nil { x.List[0] }`).  A replay must keep them: emptySlicePaths lists them, withEmptySlices puts
// them back into the generic JSON document.

type pathElem struct {
	key string
	idx int // -1: key
}

func emptySlicePaths(v reflect.Value, cur []pathElem, out *[][]pathElem, depth int) {
	if depth > 12 {
		return
	}
	switch v.Kind() {
	case reflect.Ptr, reflect.Interface:
		if !v.IsNil() {
			emptySlicePaths(v.Elem(), cur, out, depth+1)
		}
	case reflect.Struct:
		t := v.Type()
		for i := 0; i < t.NumField(); i++ {
			f := t.Field(i)
			if f.PkgPath != "" {
				continue
			}
			tag := f.Tag.Get("json")
			name := strings.Split(tag, ",")[0]
			if name == "-" {
				continue
			}
			if name == "" {
				if f.Anonymous || strings.Contains(tag, "inline") {
					emptySlicePaths(v.Field(i), cur, out, depth+1)
				}
				continue
			}
			emptySlicePaths(v.Field(i), append(append([]pathElem(nil), cur...), pathElem{name, -1}), out, depth+1)
		}
	case reflect.Slice:
		if v.IsNil() || v.Type().Elem().Kind() == reflect.Uint8 {
			return
		}
		if v.Len() == 0 {
			*out = append(*out, append([]pathElem(nil), cur...))
			return
		}
		for i := 0; i < v.Len(); i++ {
			emptySlicePaths(v.Index(i), append(append([]pathElem(nil), cur...), pathElem{"", i}), out, depth+1)
		}
	}
}

func withEmptySlices(obj any, raw json.RawMessage) json.RawMessage {
	var paths [][]pathElem
	emptySlicePaths(reflect.ValueOf(obj), nil, &paths, 0)
	if len(paths) == 0 {
		return raw
	}
	var doc any
	if err := json.Unmarshal(raw, &doc); err != nil {
		return raw
	}
	for _, p := range paths {
		// only below spec: metadata / status lists are not what the controller's validation reads
		if len(p) == 0 || p[0].key != "spec" {
			continue
		}
		cur := doc
		ok := true
		for i, e := range p {
			last := i == len(p)-1
			if e.idx >= 0 {
				l, isL := cur.([]any)
				if !isL || e.idx >= len(l) {
					ok = false
					break
				}
				cur = l[e.idx]
				continue
			}
			m, isM := cur.(map[string]any)
			if !isM {
				ok = false
				break
			}
			if last {
				if _, present := m[e.key]; !present {
					m[e.key] = []any{}
				}
				break
			}
			nxt, present := m[e.key]
			if !present {
				nm := map[string]any{}
				m[e.key] = nm
				nxt = nm
			}
			cur = nxt
		}
		_ = ok
	}
	b, err := json.Marshal(doc)
	if err != nil {
		return raw
	}
	return b
}
