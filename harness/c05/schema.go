package c05

import (
	"encoding/json"
	"fmt"
	"os"
	"os/exec"
	"path/filepath"
	"regexp"
	"sort"
	"strings"

	apiext "k8s.io/apiextensions-apiserver/pkg/apis/apiextensions/v1"
	"sigs.k8s.io/yaml"

	"github.com/nginx/nginx-gateway-fabric/verifharness/rng"
)

// ---------------------------------------------------------------------------------------------
// CRD schemas: the OpenAPI part of admissibility (types, enums, patterns, min/max, lengths, item
// counts, required, defaults) is READ from the CRD manifests the API server would be given:
// gateway-api v<version of /repo/go.mod> experimental channel from the module cache and
// /repo/config/crd/bases for the NGF kinds. The CEL rules (x-kubernetes-validations) cannot be
// evaluated offline (cel-go is not in the module cache); they are hand-encoded in cel.go.
// ---------------------------------------------------------------------------------------------

type kindSchema struct {
	Kind    string
	Group   string
	Version string
	Schema  *apiext.JSONSchemaProps
	CELs    int // number of x-kubernetes-validations rules in the schema (reported, hand-encoded)
}

// versionFor says which served version the controller's Go types use.
var versionFor = map[string]string{
	"GatewayClass": "v1", "Gateway": "v1", "HTTPRoute": "v1", "GRPCRoute": "v1", "TLSRoute": "v1alpha2",
	"ReferenceGrant": "v1beta1", "BackendTLSPolicy": "v1alpha3",
	"NginxProxy": "v1alpha1", "ClientSettingsPolicy": "v1alpha1", "ObservabilityPolicy": "v1alpha2",
	"UpstreamSettingsPolicy": "v1alpha1", "SnippetsFilter": "v1alpha1",
}

func repoRoot() string {
	if r := os.Getenv("VERIF_REPO"); r != "" {
		return r
	}
	return "/repo"
}

func modCache() string {
	if d := os.Getenv("GOMODCACHE"); d != "" {
		return d
	}
	if out, err := exec.Command("go", "env", "GOMODCACHE").Output(); err == nil && len(strings.TrimSpace(string(out))) > 0 {
		return strings.TrimSpace(string(out))
	}
	home, _ := os.UserHomeDir()
	return filepath.Join(home, "go", "pkg", "mod")
}

func gatewayAPIVersion() string {
	b, err := os.ReadFile(filepath.Join(repoRoot(), "go.mod"))
	if err != nil {
		return "v1.2.1"
	}
	m := regexp.MustCompile(`sigs\.k8s\.io/gateway-api (v[0-9][^\s]*)`).FindSubmatch(b)
	if m == nil {
		return "v1.2.1"
	}
	return string(m[1])
}

func countCEL(s *apiext.JSONSchemaProps) int {
	if s == nil {
		return 0
	}
	n := len(s.XValidations)
	for k := range s.Properties {
		p := s.Properties[k]
		n += countCEL(&p)
	}
	if s.Items != nil && s.Items.Schema != nil {
		n += countCEL(s.Items.Schema)
	}
	if s.AdditionalProperties != nil && s.AdditionalProperties.Schema != nil {
		n += countCEL(s.AdditionalProperties.Schema)
	}
	return n
}

// LoadSchemas reads the CRD manifests.
func LoadSchemas() (map[string]*kindSchema, error) {
	var files []string
	gw := filepath.Join(modCache(), "sigs.k8s.io", "gateway-api@"+gatewayAPIVersion(), "config", "crd", "experimental")
	a, _ := filepath.Glob(filepath.Join(gw, "gateway.networking.k8s.io_*.yaml"))
	b, _ := filepath.Glob(filepath.Join(repoRoot(), "config", "crd", "bases", "*.yaml"))
	files = append(files, a...)
	files = append(files, b...)
	out := map[string]*kindSchema{}
	for _, f := range files {
		raw, err := os.ReadFile(f)
		if err != nil {
			return nil, err
		}
		var crd apiext.CustomResourceDefinition
		if err := yaml.Unmarshal(raw, &crd); err != nil {
			return nil, fmt.Errorf("%s: %w", f, err)
		}
		kind := crd.Spec.Names.Kind
		want, ok := versionFor[kind]
		if !ok {
			continue
		}
		for i := range crd.Spec.Versions {
			v := crd.Spec.Versions[i]
			if v.Name != want || v.Schema == nil || v.Schema.OpenAPIV3Schema == nil {
				continue
			}
			out[kind] = &kindSchema{Kind: kind, Group: crd.Spec.Group, Version: v.Name, Schema: v.Schema.OpenAPIV3Schema,
				CELs: countCEL(v.Schema.OpenAPIV3Schema)}
		}
	}
	for k := range versionFor {
		if out[k] == nil {
			return nil, fmt.Errorf("CRD schema for %s not found (looked in %s and %s/config/crd/bases)", k, gw, repoRoot())
		}
	}
	return out, nil
}

// ---------------------------------------------------------------------------------------------
// generation
// ---------------------------------------------------------------------------------------------

type sgen struct {
	r    *rng.R
	u    *universe
	pOpt int            // percent: probability of populating an optional property
	bias int            // percent: probability of choosing the value the controller supports / that resolves
	cov  map[string]int // schema paths of optional properties populated
	kind string
}

func pathKey(path []string) string { return strings.Join(path, ".") }

func enumStrings(s *apiext.JSONSchemaProps) []string {
	var out []string
	for _, e := range s.Enum {
		var v string
		if json.Unmarshal(e.Raw, &v) == nil {
			out = append(out, v)
		}
	}
	return out
}

// unionMembers recognises discriminated unions: an object with an enum property `type` whose values
// name sibling properties (RequestMirror -> requestMirror, ReplaceFullPath -> replaceFullPath,
// Hostname -> hostname, URI -> uri). The CRDs enforce "member set iff type says so" by CEL.
func unionMembers(s *apiext.JSONSchemaProps) map[string]string {
	t, ok := s.Properties["type"]
	if !ok {
		return nil
	}
	vals := enumStrings(&t)
	if len(vals) == 0 {
		return nil
	}
	m := map[string]string{}
	for _, v := range vals {
		for cand := range s.Properties {
			if cand != "type" && strings.EqualFold(cand, v) {
				m[v] = cand
			}
		}
	}
	if len(m) == 0 {
		return nil
	}
	return m
}

func (g *sgen) gen(s *apiext.JSONSchemaProps, path []string) any {
	if len(s.Enum) > 0 {
		var v any
		e := rng.Pick(g.r, s.Enum)
		_ = json.Unmarshal(e.Raw, &v)
		if hv, ok := g.u.hintEnum(g, path, enumStrings(s)); ok {
			return hv
		}
		return v
	}
	if s.XIntOrString {
		if g.r.Bool() {
			return g.r.Range(1, 100)
		}
		return "50%"
	}
	switch s.Type {
	case "object":
		return g.genObject(s, path)
	case "array":
		return g.genArray(s, path)
	case "string":
		return g.genString(s, path)
	case "integer", "number":
		return g.genInt(s, path)
	case "boolean":
		return g.r.Bool()
	}
	if s.XPreserveUnknownFields != nil && *s.XPreserveUnknownFields {
		return map[string]any{}
	}
	return nil
}

func (g *sgen) genObject(s *apiext.JSONSchemaProps, path []string) any {
	obj := map[string]any{}
	if len(s.Properties) == 0 {
		if s.AdditionalProperties != nil && s.AdditionalProperties.Schema != nil {
			n := g.r.Intn(3)
			for i := 0; i < n; i++ {
				k, v := g.u.mapEntry(g, path)
				obj[k] = v
			}
		}
		return obj
	}
	req := map[string]bool{}
	for _, r := range s.Required {
		req[r] = true
	}
	union := unionMembers(s)
	member := ""
	names := make([]string, 0, len(s.Properties))
	for k := range s.Properties {
		names = append(names, k)
	}
	sort.Strings(names)
	if union != nil {
		t := s.Properties["type"]
		tv := g.gen(&t, append(path, "type")).(string)
		obj["type"] = tv
		member = union[tv]
		g.cov[pathKey(append(path, "type="+tv))]++
	}
	isMember := map[string]bool{}
	for _, m := range union {
		isMember[m] = true
	}
	for _, k := range names {
		if union != nil && k == "type" {
			continue
		}
		ps := s.Properties[k]
		sub := append(append([]string{}, path...), k)
		if isMember[k] {
			if k != member {
				continue
			}
		} else if !req[k] {
			if !g.u.wantOptional(g, sub) {
				continue
			}
		}
		v := g.gen(&ps, sub)
		if v == nil {
			continue
		}
		obj[k] = v
		if !req[k] {
			g.cov[pathKey(sub)]++
		}
	}
	return obj
}

func (g *sgen) genArray(s *apiext.JSONSchemaProps, path []string) any {
	if s.Items == nil || s.Items.Schema == nil {
		return []any{}
	}
	lo, hi := 0, 3
	if s.MinItems != nil {
		lo = int(*s.MinItems)
	}
	if s.MaxItems != nil && int(*s.MaxItems) < hi {
		hi = int(*s.MaxItems)
	}
	if hi < lo {
		hi = lo
	}
	n := g.u.arrayLen(g, path, lo, hi)
	out := make([]any, 0, n)
	sub := append(append([]string{}, path...), "[]")
	for i := 0; i < n; i++ {
		v := g.gen(s.Items.Schema, sub)
		if v != nil {
			out = append(out, v)
		}
	}
	// x-kubernetes-list-type=set / map keys: keep elements distinct
	if s.XListType != nil && (*s.XListType == "set" || *s.XListType == "map") {
		seen := map[string]bool{}
		var d []any
		for _, v := range out {
			key := ""
			if *s.XListType == "map" {
				if m, ok := v.(map[string]any); ok {
					for _, k := range s.XListMapKeys {
						key += fmt.Sprint(m[k]) + "\x00"
					}
				}
			} else {
				b, _ := json.Marshal(v)
				key = string(b)
			}
			if !seen[key] {
				seen[key] = true
				d = append(d, v)
			}
		}
		out = d
		if out == nil {
			out = []any{}
		}
	}
	return out
}

var reCache = map[string]*regexp.Regexp{}

func compilePattern(p string) *regexp.Regexp {
	if re, ok := reCache[p]; ok {
		return re
	}
	re, err := regexp.Compile(p)
	if err != nil {
		re = nil
	}
	reCache[p] = re
	return re
}

func strOK(s *apiext.JSONSchemaProps, v string) bool {
	if s.MinLength != nil && int64(len(v)) < *s.MinLength {
		return false
	}
	if s.MaxLength != nil && int64(len(v)) > *s.MaxLength {
		return false
	}
	if s.Pattern != "" {
		re := compilePattern(s.Pattern)
		if re != nil && !re.MatchString(v) {
			return false
		}
	}
	return true
}

// generic candidates tried (in random order) when the path-specific pool has nothing admissible
var fallbackStrings = []string{
	"a", "x-1", "my-value", "example.com", "cafe.example.com", "10s", "500ms", "1h", "1m", "/", "/a", "GET",
	"10.0.0.1", "10.0.0.0/8", "::1", "fd00::/8", "debug", "4k", "10m", "abc", "A", "v1", "1", "100", "on", "off",
	"X-Header", "value", "svc", "http://example.com", "example.com:4317", "otel.example.com:4317", "my_var", "key",
	"spiffe://cluster.local/ns/a/sa/b", "16", "2s", "30", "1s", "gateway.networking.k8s.io", "Service", "",
	"example.com/controller", "nginx", "kubernetes.io/tls", "0", "worker", "basic", "my.service", "Method",
	"include /etc/nginx/extra.conf;", "limit_req zone=one;", "$remote_addr", "my-zone", "64k",
}

func (g *sgen) genString(s *apiext.JSONSchemaProps, path []string) any {
	if s.Format == "date-time" {
		return "2024-01-01T00:00:00Z"
	}
	pool := g.u.hintString(g, path)
	var ok []string
	for _, c := range pool {
		if strOK(s, c) {
			ok = append(ok, c)
		}
	}
	if len(ok) > 0 {
		if g.u.firstIsPreferred(path) && g.r.Chance(g.bias, 100) {
			return ok[0]
		}
		return rng.Pick(g.r, ok)
	}
	var fb []string
	for _, c := range fallbackStrings {
		if strOK(s, c) {
			fb = append(fb, c)
		}
	}
	if len(fb) > 0 {
		return rng.Pick(g.r, fb)
	}
	panic(fmt.Sprintf("c05 generator: no admissible string for %s %s (pattern %q, len %v..%v)", g.kind, pathKey(path),
		s.Pattern, s.MinLength, s.MaxLength))
}

func (g *sgen) genInt(s *apiext.JSONSchemaProps, path []string) any {
	lo, hi := int64(0), int64(1<<31-1)
	if s.Minimum != nil {
		lo = int64(*s.Minimum)
		if s.ExclusiveMinimum {
			lo++
		}
	}
	if s.Maximum != nil {
		hi = int64(*s.Maximum)
		if s.ExclusiveMaximum {
			hi--
		}
	}
	cands := g.u.hintInt(g, path)
	if len(cands) > 0 && cands[0] >= lo && cands[0] <= hi && g.r.Chance(g.bias*2/3, 100) {
		return cands[0]
	}
	cands = append(cands, lo, hi, lo+1, (lo+hi)/2)
	var ok []int64
	for _, c := range cands {
		if c >= lo && c <= hi {
			ok = append(ok, c)
		}
	}
	return rng.Pick(g.r, ok)
}

// ---------------------------------------------------------------------------------------------
// defaulting (what the API server does with `default:` before the object reaches a controller)
// ---------------------------------------------------------------------------------------------

func applyDefaults(s *apiext.JSONSchemaProps, v any) any {
	switch s.Type {
	case "object":
		m, ok := v.(map[string]any)
		if !ok {
			return v
		}
		for k := range s.Properties {
			ps := s.Properties[k]
			cur, has := m[k]
			if !has && ps.Default != nil {
				var d any
				if json.Unmarshal(ps.Default.Raw, &d) == nil {
					m[k] = d
					cur, has = d, true
				}
			}
			if has {
				m[k] = applyDefaults(&ps, cur)
			}
		}
		if s.AdditionalProperties != nil && s.AdditionalProperties.Schema != nil {
			for k, cur := range m {
				m[k] = applyDefaults(s.AdditionalProperties.Schema, cur)
			}
		}
		return m
	case "array":
		a, ok := v.([]any)
		if !ok || s.Items == nil || s.Items.Schema == nil {
			return v
		}
		for i := range a {
			a[i] = applyDefaults(s.Items.Schema, a[i])
		}
		return a
	}
	return v
}

// ---------------------------------------------------------------------------------------------
// validation of the OpenAPI part (self-check of the generator: an object failing this would not be
// admitted, so it is dropped and counted)
// ---------------------------------------------------------------------------------------------

func validate(s *apiext.JSONSchemaProps, v any, path string, errs *[]string) {
	if len(s.Enum) > 0 {
		b, _ := json.Marshal(v)
		ok := false
		for _, e := range s.Enum {
			if string(e.Raw) == string(b) {
				ok = true
			}
		}
		if !ok {
			*errs = append(*errs, fmt.Sprintf("%s: %s not in enum", path, b))
		}
	}
	switch s.Type {
	case "object":
		m, ok := v.(map[string]any)
		if !ok {
			*errs = append(*errs, path+": not an object")
			return
		}
		for _, r := range s.Required {
			if _, ok := m[r]; !ok {
				*errs = append(*errs, path+"."+r+": required")
			}
		}
		if s.MinProperties != nil && int64(len(m)) < *s.MinProperties {
			*errs = append(*errs, path+": too few properties")
		}
		if s.MaxProperties != nil && int64(len(m)) > *s.MaxProperties {
			*errs = append(*errs, path+": too many properties")
		}
		for k, cur := range m {
			if ps, ok := s.Properties[k]; ok {
				validate(&ps, cur, path+"."+k, errs)
			} else if s.AdditionalProperties != nil && s.AdditionalProperties.Schema != nil {
				validate(s.AdditionalProperties.Schema, cur, path+"."+k, errs)
			} else if len(s.Properties) > 0 {
				*errs = append(*errs, path+"."+k+": unknown field")
			}
		}
	case "array":
		a, ok := v.([]any)
		if !ok {
			*errs = append(*errs, path+": not an array")
			return
		}
		if s.MinItems != nil && int64(len(a)) < *s.MinItems {
			*errs = append(*errs, path+": too few items")
		}
		if s.MaxItems != nil && int64(len(a)) > *s.MaxItems {
			*errs = append(*errs, path+": too many items")
		}
		if s.Items != nil && s.Items.Schema != nil {
			for i, e := range a {
				validate(s.Items.Schema, e, fmt.Sprintf("%s[%d]", path, i), errs)
			}
		}
	case "string":
		if s.XIntOrString {
			return
		}
		str, ok := v.(string)
		if !ok {
			*errs = append(*errs, path+": not a string")
			return
		}
		if s.Format == "" && !strOK(s, str) {
			*errs = append(*errs, fmt.Sprintf("%s: %q violates pattern/length (%s)", path, str, s.Pattern))
		}
	case "integer", "number":
		var f float64
		switch n := v.(type) {
		case int:
			f = float64(n)
		case int64:
			f = float64(n)
		case float64:
			f = n
		default:
			*errs = append(*errs, path+": not a number")
			return
		}
		if s.Minimum != nil && (f < *s.Minimum || (s.ExclusiveMinimum && f == *s.Minimum)) {
			*errs = append(*errs, fmt.Sprintf("%s: %v below minimum", path, f))
		}
		if s.Maximum != nil && (f > *s.Maximum || (s.ExclusiveMaximum && f == *s.Maximum)) {
			*errs = append(*errs, fmt.Sprintf("%s: %v above maximum", path, f))
		}
	case "boolean":
		if _, ok := v.(bool); !ok {
			*errs = append(*errs, path+": not a boolean")
		}
	}
}

// optionalPaths enumerates the schema paths of every optional property (and every union member) under
// spec: the denominator of the "every optional field populated in some case" coverage measure.
func optionalPaths(s *apiext.JSONSchemaProps, path []string, out map[string]bool, depth int) {
	if depth > 14 {
		return
	}
	switch s.Type {
	case "object":
		req := map[string]bool{}
		for _, r := range s.Required {
			req[r] = true
		}
		union := unionMembers(s)
		for v := range union {
			out[pathKey(append(path, "type="+v))] = true
		}
		for k := range s.Properties {
			ps := s.Properties[k]
			sub := append(append([]string{}, path...), k)
			if !req[k] && !(union != nil && k == "type") {
				out[pathKey(sub)] = true
			}
			optionalPaths(&ps, sub, out, depth+1)
		}
	case "array":
		if s.Items != nil && s.Items.Schema != nil {
			optionalPaths(s.Items.Schema, append(append([]string{}, path...), "[]"), out, depth+1)
		}
	}
}
