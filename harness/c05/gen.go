package c05

import (
	"encoding/json"
	"fmt"
	"reflect"
	"sort"
	"strings"
	"time"

	apiv1 "k8s.io/api/core/v1"
	metav1 "k8s.io/apimachinery/pkg/apis/meta/v1"
	"sigs.k8s.io/controller-runtime/pkg/client"
	gatewayv1 "sigs.k8s.io/gateway-api/apis/v1"

	p "github.com/nginx/nginx-gateway-fabric/verifharness/pipeline"
	"github.com/nginx/nginx-gateway-fabric/verifharness/rng"
	"github.com/nginx/nginx-gateway-fabric/verifharness/scen"
)

// Gen holds the loaded schemas and the coverage accumulated over all generated cases.
type Gen struct {
	Schemas       map[string]*kindSchema
	Optional      map[string]bool // "<Kind>.<schema path>" of every optional property under spec
	Populated     map[string]int  // the ones populated in some generated object
	SchemaInvalid map[string]int  // objects dropped because the self-check of the OpenAPI part failed
	Objects       map[string]int  // generated objects per kind
	Focus         *Focus          // -focus: raise the probability of objects / fields that reach the named functions
}

// Focus is derived from the `file:function` pairs of broken rows of the deref inventory (props/c05.py passes
// them when `every_deref_guarded_or_justified` no longer checks): which kinds to generate more of, whether the
// healthy "deep" skeleton is needed to reach the function (dataplane / config generation), and a high population
// probability for optional fields.  Without -focus the generator draws exactly the same cases as before.
type Focus struct {
	Spec  string
	Kinds map[string]bool
	Deep  bool
}

var focusByFile = map[string]struct {
	kinds []string
	deep  bool
}{
	"httproute.go":            {[]string{"HTTPRoute"}, true},
	"common_filter.go":        {[]string{"HTTPRoute", "GRPCRoute", "SnippetsFilter"}, true},
	"extension_ref_filter.go": {[]string{"HTTPRoute", "GRPCRoute", "SnippetsFilter"}, true},
	"snippets_filter.go":      {[]string{"HTTPRoute", "SnippetsFilter"}, true},
	"grpcroute.go":            {[]string{"GRPCRoute"}, true},
	"tlsroute.go":             {[]string{"TLSRoute"}, true},
	"route_common.go":         {[]string{"HTTPRoute", "GRPCRoute", "TLSRoute", "Gateway"}, true},
	"gateway_listener.go":     {[]string{"Gateway"}, false},
	"gateway.go":              {[]string{"Gateway"}, false},
	"gatewayclass.go":         {[]string{"GatewayClass"}, false},
	"backend_tls_policy.go":   {[]string{"BackendTLSPolicy", "HTTPRoute"}, true},
	"backend_refs.go":         {[]string{"BackendTLSPolicy", "HTTPRoute", "GRPCRoute"}, true},
	"nginxproxy.go":           {[]string{"NginxProxy"}, true},
	"policies.go":             {[]string{"ClientSettingsPolicy", "ObservabilityPolicy", "UpstreamSettingsPolicy", "HTTPRoute"}, true},
	"policy_ancestor.go":      {[]string{"ClientSettingsPolicy", "ObservabilityPolicy", "UpstreamSettingsPolicy", "BackendTLSPolicy"}, true},
	"reference_grant.go":      {[]string{"ReferenceGrant", "HTTPRoute"}, false},
	"configuration.go":        {[]string{"HTTPRoute", "GRPCRoute", "TLSRoute", "NginxProxy", "BackendTLSPolicy"}, true},
	"convert.go":              {[]string{"HTTPRoute", "GRPCRoute"}, true},
	"servers.go":              {[]string{"HTTPRoute", "GRPCRoute"}, true},
	"stream_servers.go":       {[]string{"TLSRoute"}, true},
	"upstreams.go":            {[]string{"HTTPRoute", "UpstreamSettingsPolicy", "BackendTLSPolicy"}, true},
	"split_clients.go":        {[]string{"HTTPRoute"}, true},
	"maps.go":                 {[]string{"HTTPRoute", "GRPCRoute", "TLSRoute"}, true},
	"telemetry.go":            {[]string{"NginxProxy", "ObservabilityPolicy"}, true},
	"base_http_config.go":     {[]string{"NginxProxy", "SnippetsFilter"}, true},
	"main_config.go":          {[]string{"NginxProxy", "SnippetsFilter"}, true},
	"generator.go":            {[]string{"ClientSettingsPolicy", "ObservabilityPolicy", "UpstreamSettingsPolicy"}, true},
	"validator.go":            {[]string{"ClientSettingsPolicy", "ObservabilityPolicy", "UpstreamSettingsPolicy"}, true},
	"processor.go":            {[]string{"UpstreamSettingsPolicy"}, true},
	"prepare_requests.go":     {[]string{"HTTPRoute", "GRPCRoute", "TLSRoute", "Gateway", "BackendTLSPolicy"}, true},
}

// ParseFocus reads "file.go:func,file.go:func,…" (the function names only document the target).
func ParseFocus(spec string) *Focus {
	if spec == "" {
		return nil
	}
	f := &Focus{Spec: spec, Kinds: map[string]bool{}}
	for _, part := range strings.Split(spec, ",") {
		file := part
		if i := strings.Index(part, ":"); i >= 0 {
			file = part[:i]
		}
		if i := strings.LastIndex(file, "/"); i >= 0 {
			file = file[i+1:]
		}
		if e, ok := focusByFile[file]; ok {
			for _, k := range e.kinds {
				f.Kinds[k] = true
			}
			f.Deep = f.Deep || e.deep
		} else {
			f.Deep = true
		}
	}
	return f
}

// want reports whether the focus asks for (more) objects of the kind.
func (g *Gen) want(kind string) bool { return g.Focus != nil && g.Focus.Kinds[kind] }

// popt replaces the drawn population probability by a high one under focus.
func (g *Gen) popt(r *rng.R, drawn int) int {
	if g.Focus == nil {
		return drawn
	}
	return rng.Pick(r, []int{60, 90, 100, 100})
}

func NewGen() (*Gen, error) {
	s, err := LoadSchemas()
	if err != nil {
		return nil, err
	}
	g := &Gen{Schemas: s, Optional: map[string]bool{}, Populated: map[string]int{}, SchemaInvalid: map[string]int{},
		Objects: map[string]int{}}
	for k, ks := range s {
		spec, ok := ks.Schema.Properties["spec"]
		if !ok {
			continue
		}
		optionalPaths(&spec, []string{k, "spec"}, g.Optional, 0)
	}
	return g, nil
}

// object generates one admissible object of the kind: schema-driven population, CEL repairs,
// defaulting, self-check, decoding into the typed Go object the controller receives.
func (g *Gen) object(r *rng.R, u *universe, kind, ns, name string, age, pOpt int) client.Object {
	return g.objectB(r, u, kind, ns, name, age, pOpt, 80)
}

func (g *Gen) objectB(r *rng.R, u *universe, kind, ns, name string, age, pOpt, bias int) client.Object {
	ks := g.Schemas[kind]
	specSchema := ks.Schema.Properties["spec"]
	sg := &sgen{r: r, u: u, pOpt: pOpt, bias: bias, cov: map[string]int{}, kind: kind}
	spec, _ := sg.gen(&specSchema, []string{kind, "spec"}).(map[string]any)
	if spec == nil {
		spec = map[string]any{}
	}
	switch kind {
	case "HTTPRoute":
		fixHTTPRoute(r, spec, ns, u)
	case "GRPCRoute":
		fixGRPCRoute(r, spec, ns, u)
	case "TLSRoute":
		fixTLSRoute(r, spec, ns, u)
	case "Gateway":
		fixGateway(r, spec, u)
	case "BackendTLSPolicy":
		fixBackendTLSPolicy(spec)
	default:
		fixNGF(kind, spec)
	}
	spec, _ = applyDefaults(&specSchema, spec).(map[string]any)
	// round-trip through JSON so that numbers have one representation, then self-check
	raw, err := json.Marshal(spec)
	if err != nil {
		panic(err)
	}
	var norm any
	_ = json.Unmarshal(raw, &norm)
	var errs []string
	validate(&specSchema, norm, kind+".spec", &errs)
	if len(errs) > 0 {
		g.SchemaInvalid[kind+": "+errs[0]]++
		return nil
	}
	for k, v := range sg.cov {
		g.Populated[k] += v
	}
	g.Objects[kind]++
	meta := map[string]any{
		"name": name, "generation": 1,
		"creationTimestamp": p.Epoch.Add(time.Duration(age) * time.Second).Format(time.RFC3339),
	}
	if ns != "" {
		meta["namespace"] = ns
	}
	doc := map[string]any{"apiVersion": ks.Group + "/" + ks.Version, "kind": kind, "metadata": meta, "spec": norm}
	b, _ := json.Marshal([]any{doc})
	objs, err := p.DecodeObjects(b)
	if err != nil {
		panic(fmt.Sprintf("c05 generator: %s does not decode: %v\n%s", kind, err, b))
	}
	return objs[0]
}

func (g *Gen) schemaObjects(r *rng.R, u *universe, tag func(string)) []client.Object {
	var objs []client.Object
	age := 0
	next := func() int {
		if !r.Chance(20, 100) {
			age++
		}
		return age
	}
	pOpt := g.popt(r, rng.Pick(r, []int{15, 35, 60, 90, 100}))
	bias := rng.Pick(r, []int{50, 75, 90, 97, 100})
	tag(fmt.Sprintf("popt-%d", pOpt))
	tag(fmt.Sprintf("bias-%d", bias))
	gwNS := func() string {
		if r.Chance(70, 100) {
			return "default"
		}
		return rng.Pick(r, u.namespaces)
	}
	add := func(o client.Object) {
		if o != nil {
			objs = append(objs, o)
		}
	}
	// classes
	if !r.Chance(4, 100) {
		gc := g.objectB(r, u, "GatewayClass", "", "nginx", next(), pOpt, bias)
		if gc != nil {
			setField(gc, "controllerName", p.DefaultController)
		}
		add(gc)
	} else {
		tag("missing-class")
	}
	if r.Chance(30, 100) {
		gc := g.objectB(r, u, "GatewayClass", "", "other", next(), pOpt, bias)
		if gc != nil {
			setField(gc, "controllerName", scen.ForeignController)
		}
		add(gc)
	}
	if r.Chance(15, 100) {
		add(g.objectB(r, u, "GatewayClass", "", "nginx-2", next(), pOpt, bias))
	}
	if c := r.Chance(60, 100); c || g.want("NginxProxy") {
		add(g.objectB(r, u, "NginxProxy", "", "np0", next(), pOpt, bias))
	}
	// gateways
	ngw := r.Range(1, 2)
	for i := 0; i < ngw; i++ {
		add(g.objectB(r, u, "Gateway", gwNS(), fmt.Sprintf("gw%d", i), next(), pOpt, bias))
	}
	if r.Chance(20, 100) {
		add(g.objectB(r, u, "Gateway", rng.Pick(r, u.namespaces), "foreign-gw", next(), pOpt, bias))
	}
	for i := 0; i < r.Range(1, 3) || (i < 2 && g.want("HTTPRoute")); i++ {
		add(g.objectB(r, u, "HTTPRoute", rng.Pick(r, u.namespaces), u.hroutes[i], next(), pOpt, bias))
	}
	for i := 0; i < r.Intn(3) || (i < 2 && g.want("GRPCRoute")); i++ {
		add(g.objectB(r, u, "GRPCRoute", rng.Pick(r, u.namespaces), u.groutes[i], next(), pOpt, bias))
	}
	for i := 0; i < r.Intn(3) || (i < 2 && g.want("TLSRoute")); i++ {
		add(g.objectB(r, u, "TLSRoute", rng.Pick(r, u.namespaces), fmt.Sprintf("tr%d", i), next(), pOpt, bias))
	}
	for i := 0; i < r.Intn(3) || (i < 2 && g.want("ReferenceGrant")); i++ {
		add(g.objectB(r, u, "ReferenceGrant", rng.Pick(r, u.namespaces), fmt.Sprintf("rg%d", i), next(), pOpt, bias))
	}
	for i := 0; i < r.Intn(3) || (i < 2 && g.want("BackendTLSPolicy")); i++ {
		add(foreignStatus(r, g.objectB(r, u, "BackendTLSPolicy", rng.Pick(r, u.namespaces), fmt.Sprintf("btp%d", i), next(), pOpt, bias), tag))
	}
	for i := 0; i < r.Intn(3) || (i < 2 && g.want("SnippetsFilter")); i++ {
		add(g.objectB(r, u, "SnippetsFilter", rng.Pick(r, u.namespaces), fmt.Sprintf("sf%d", i), next(), pOpt, bias))
	}
	for i := 0; i < r.Intn(3) || (i < 2 && g.want("ClientSettingsPolicy")); i++ {
		add(foreignStatus(r, g.objectB(r, u, "ClientSettingsPolicy", rng.Pick(r, u.namespaces), fmt.Sprintf("csp%d", i), next(), pOpt, bias), tag))
	}
	for i := 0; i < r.Intn(3) || (i < 2 && g.want("ObservabilityPolicy")); i++ {
		add(foreignStatus(r, g.objectB(r, u, "ObservabilityPolicy", rng.Pick(r, u.namespaces), fmt.Sprintf("op%d", i), next(), pOpt, bias), tag))
	}
	for i := 0; i < r.Intn(3) || (i < 2 && g.want("UpstreamSettingsPolicy")); i++ {
		add(foreignStatus(r, g.objectB(r, u, "UpstreamSettingsPolicy", rng.Pick(r, u.namespaces), fmt.Sprintf("usp%d", i), next(), pOpt, bias), tag))
	}
	return objs
}

// foreignStatus fills the status of a policy / route with n entries written by OTHER controllers
// (admissible: the status sub-resource is shared; maxItems is 16 for policy ancestors, 32 for route
// parents).
func foreignStatus(r *rng.R, o client.Object, tag func(string)) client.Object {
	if o == nil || !r.Chance(25, 100) {
		return o
	}
	cond := map[string]any{"type": "Accepted", "status": "True", "reason": "Accepted", "message": "ok",
		"lastTransitionTime": "2024-01-01T00:00:00Z", "observedGeneration": 1}
	entry := func(i int, refKey string) map[string]any {
		return map[string]any{
			refKey:           map[string]any{"group": "gateway.networking.k8s.io", "kind": "Gateway", "namespace": "default", "name": fmt.Sprintf("other-gw-%d", i)},
			"controllerName": "example.com/other-controller",
			"conditions":     []any{cond},
		}
	}
	kind := kindOf(o)
	field, refKey, max := "ancestors", "ancestorRef", 16
	switch kind {
	case "HTTPRoute", "GRPCRoute", "TLSRoute":
		field, refKey, max = "parents", "parentRef", 32
	case "BackendTLSPolicy", "ClientSettingsPolicy", "ObservabilityPolicy", "UpstreamSettingsPolicy":
	default:
		return o
	}
	n := rng.Pick(r, []int{1, max - 1, max, max})
	var entries []any
	for i := 0; i < n; i++ {
		entries = append(entries, entry(i, refKey))
	}
	patch(o, func(m map[string]any) { m["status"] = map[string]any{field: entries} })
	tag(fmt.Sprintf("foreign-status-%s-%d", kind, n))
	return o
}

// forceForeignStatus is foreignStatus without the dice.
func forceForeignStatus(o client.Object, n int) client.Object {
	cond := map[string]any{"type": "Accepted", "status": "True", "reason": "Accepted", "message": "ok",
		"lastTransitionTime": "2024-01-01T00:00:00Z", "observedGeneration": 1}
	var entries []any
	for i := 0; i < n; i++ {
		entries = append(entries, map[string]any{
			"ancestorRef":    map[string]any{"group": "gateway.networking.k8s.io", "kind": "Gateway", "namespace": "default", "name": fmt.Sprintf("other-gw-%d", i)},
			"controllerName": "example.com/other-controller",
			"conditions":     []any{cond},
		})
	}
	patch(o, func(m map[string]any) { m["status"] = map[string]any{"ancestors": entries} })
	return o
}

// patch edits a typed object through its JSON form (apiVersion/kind are added for the decoder).
func patch(o client.Object, f func(m map[string]any)) {
	if o == nil {
		return
	}
	arr := p.EncodeObjects([]client.Object{o})
	var ms []map[string]any
	if err := json.Unmarshal(arr, &ms); err != nil || len(ms) != 1 {
		panic(fmt.Sprint("c05 patch: ", err))
	}
	f(ms[0])
	b, _ := json.Marshal(ms)
	objs, err := p.DecodeObjects(b)
	if err != nil {
		panic(fmt.Sprint("c05 patch: ", err))
	}
	reflect.ValueOf(o).Elem().Set(reflect.ValueOf(objs[0]).Elem())
}

// deepObjects is the "deep" family: a healthy skeleton (class, winning Gateway with valid HTTP / HTTPS /
// TLS listeners, every namespace, services with endpoints, secrets) so that BuildConfiguration and the
// generator run on real content, carrying schema-populated routes / policies / filters with mostly
// supported values attached to that Gateway.
func (g *Gen) deepObjects(r *rng.R, u *universe, tag func(string)) []client.Object {
	var objs []client.Object
	age := 0
	next := func() int { age++; return age }
	pOpt := g.popt(r, rng.Pick(r, []int{20, 50, 80, 100}))
	bias := rng.Pick(r, []int{85, 93, 97, 100})
	tag(fmt.Sprintf("deep-popt-%d", pOpt))
	tag(fmt.Sprintf("deep-bias-%d", bias))
	add := func(o client.Object) {
		if o != nil {
			objs = append(objs, o)
		}
	}
	gc := p.GatewayClass(p.DefaultClass, p.DefaultController, next())
	if c := r.Chance(50, 100); c || g.want("NginxProxy") {
		np := g.objectB(r, u, "NginxProxy", "", "np0", next(), pOpt, 100)
		if np != nil {
			add(np)
			gc.Spec.ParametersRef = &gatewayv1.ParametersReference{Group: "gateway.nginx.org", Kind: "NginxProxy", Name: "np0"}
			tag("deep-nginxproxy")
		}
	}
	add(gc)
	// the winning gateway: three healthy listeners + whatever the schema generator adds
	gw := g.objectB(r, u, "Gateway", "default", "gw0", next(), pOpt, bias)
	if gw == nil {
		gw = p.Gateway("default", "gw0", p.DefaultClass, next())
	}
	from := rng.Pick(r, []string{"All", "All", "Selector"})
	patch(gw, func(m map[string]any) {
		spec := asMap(m["spec"])
		spec["gatewayClassName"] = p.DefaultClass
		delete(spec, "addresses")
		nsel := map[string]any{"from": from}
		if from == "Selector" {
			nsel["selector"] = map[string]any{"matchLabels": map[string]any{"kubernetes.io/metadata.name": rng.Pick(r, u.namespaces)}}
			if r.Bool() {
				nsel["selector"] = map[string]any{"matchExpressions": []any{map[string]any{"key": "kubernetes.io/metadata.name",
					"operator": "In", "values": []any{"default", "team-a", "team-b"}}}}
			}
		}
		healthy := []any{
			map[string]any{"name": "http", "port": 80, "protocol": "HTTP", "allowedRoutes": map[string]any{"namespaces": nsel}},
			map[string]any{"name": "https", "port": 443, "protocol": "HTTPS", "allowedRoutes": map[string]any{"namespaces": nsel},
				"tls": map[string]any{"mode": "Terminate", "certificateRefs": []any{map[string]any{"kind": "Secret", "group": "", "name": "tls-a"}}}},
			map[string]any{"name": "tls", "port": 8443, "protocol": "TLS", "allowedRoutes": map[string]any{"namespaces": nsel},
				"tls": map[string]any{"mode": "Passthrough"}},
		}
		if r.Chance(50, 100) {
			healthy[0].(map[string]any)["hostname"] = rng.Pick(r, []string{"*.example.com", "cafe.example.com"})
		}
		var extra []any
		for _, x := range asList(spec["listeners"]) {
			l := asMap(x)
			n := str(l["name"])
			pt := toInt(l["port"])
			if n == "http" || n == "https" || n == "tls" || pt == 80 || pt == 443 || pt == 8443 {
				continue
			}
			extra = append(extra, l)
		}
		spec["listeners"] = append(healthy, extra...)
	})
	add(gw)
	parents := func() []any {
		ref := map[string]any{"group": "gateway.networking.k8s.io", "kind": "Gateway", "namespace": "default", "name": "gw0"}
		if r.Chance(30, 100) {
			ref["sectionName"] = rng.Pick(r, []string{"http", "https", "tls"})
		}
		return []any{ref}
	}
	routeNS := func() string { return rng.Pick(r, u.namespaces) }
	attach := func(o client.Object) client.Object {
		if o == nil {
			return nil
		}
		if r.Chance(85, 100) {
			patch(o, func(m map[string]any) { asMap(m["spec"])["parentRefs"] = parents() })
		}
		return o
	}
	for i := 0; i < r.Range(1, 3) || (i < 2 && g.want("HTTPRoute")); i++ {
		add(foreignStatus(r, attach(g.objectB(r, u, "HTTPRoute", routeNS(), u.hroutes[i], next(), pOpt, bias)), tag))
	}
	// a plain canary route to a plain Service keeps the upstream / proxy_pass path exercised in every deep
	// case; the policies below may then target exactly that Service
	cns := routeNS()
	canary := p.HTTPRoute(cns, "hr-canary", next(), []gatewayv1.ParentReference{p.ParentRef("default", "gw0", "")}, nil,
		p.HTTPRule([]gatewayv1.HTTPRouteMatch{p.PathMatch("PathPrefix", "/canary")}, p.Backend{Ref: "svc0", Port: 80, Weight: -1}))
	add(canary)
	// policies aimed at the canary route / its Service / the Gateway, so that policy generation runs
	gwGroup := "gateway.networking.k8s.io"
	if c := r.Chance(50, 100); c || g.want("ClientSettingsPolicy") {
		csp := g.objectB(r, u, "ClientSettingsPolicy", cns, "csp-canary", next(), pOpt, 100)
		target := map[string]any{"group": gwGroup, "kind": "HTTPRoute", "name": "hr-canary"}
		if r.Chance(30, 100) {
			target = map[string]any{"group": gwGroup, "kind": "Gateway", "name": "gw0"}
			if csp != nil {
				csp.SetNamespace("default")
			}
		}
		patch(csp, func(m map[string]any) { asMap(m["spec"])["targetRef"] = target })
		add(foreignStatus(r, csp, tag))
		tag("deep-csp-canary")
	}
	if c := r.Chance(50, 100); c || g.want("ObservabilityPolicy") {
		op := g.objectB(r, u, "ObservabilityPolicy", cns, "op-canary", next(), 100, 100)
		patch(op, func(m map[string]any) {
			asMap(m["spec"])["targetRefs"] = []any{map[string]any{"group": gwGroup, "kind": "HTTPRoute", "name": "hr-canary"}}
		})
		add(foreignStatus(r, op, tag))
		tag("deep-op-canary")
	}
	if c := r.Chance(50, 100); c || g.want("UpstreamSettingsPolicy") {
		usp := g.objectB(r, u, "UpstreamSettingsPolicy", cns, "usp-canary", next(), pOpt, 100)
		patch(usp, func(m map[string]any) {
			asMap(m["spec"])["targetRefs"] = []any{map[string]any{"group": "core", "kind": "Service", "name": "svc0"}}
		})
		add(foreignStatus(r, usp, tag))
		tag("deep-usp-canary")
	}
	if c := r.Chance(35, 100); c || g.want("BackendTLSPolicy") {
		btp := g.objectB(r, u, "BackendTLSPolicy", cns, "btp-canary", next(), pOpt, 100)
		if btp != nil {
			patch(btp, func(m map[string]any) {
				asMap(m["spec"])["targetRefs"] = []any{map[string]any{"group": "", "kind": "Service", "name": "svc0"}}
			})
			if r.Chance(60, 100) {
				// 16 ancestors of other controllers: the list is full for us
				btp = forceForeignStatus(btp, 16)
				tag("btp-canary-ancestors-full")
			}
			add(btp)
		}
	}
	for i := 0; i < r.Intn(3) || (i < 2 && g.want("GRPCRoute")); i++ {
		add(attach(g.objectB(r, u, "GRPCRoute", routeNS(), u.groutes[i], next(), pOpt, bias)))
	}
	for i := 0; i < r.Intn(3) || (i < 2 && g.want("TLSRoute")); i++ {
		tr := attach(g.objectB(r, u, "TLSRoute", routeNS(), fmt.Sprintf("tr%d", i), next(), pOpt, bias))
		if tr != nil && r.Chance(70, 100) {
			// exactly one rule with one backendRef is what the controller supports
			patch(tr, func(m map[string]any) {
				rules := asList(asMap(m["spec"])["rules"])
				if len(rules) > 0 {
					rule := asMap(rules[0])
					if brs := asList(rule["backendRefs"]); len(brs) > 0 {
						rule["backendRefs"] = brs[:1]
					}
					asMap(m["spec"])["rules"] = []any{rule}
				}
			})
		}
		add(tr)
	}
	for i := 0; i < r.Intn(3) || (i < 2 && g.want("ReferenceGrant")); i++ {
		add(g.objectB(r, u, "ReferenceGrant", rng.Pick(r, u.namespaces), fmt.Sprintf("rg%d", i), next(), pOpt, bias))
	}
	for i := 0; i < r.Intn(3) || (i < 2 && g.want("BackendTLSPolicy")); i++ {
		add(foreignStatus(r, g.objectB(r, u, "BackendTLSPolicy", rng.Pick(r, u.namespaces), fmt.Sprintf("btp%d", i), next(), pOpt, bias), tag))
	}
	for i := 0; i < r.Intn(3) || (i < 2 && g.want("SnippetsFilter")); i++ {
		add(g.objectB(r, u, "SnippetsFilter", rng.Pick(r, u.namespaces), fmt.Sprintf("sf%d", i), next(), pOpt, bias))
	}
	for i := 0; i < r.Intn(3) || (i < 2 && g.want("ClientSettingsPolicy")); i++ {
		add(foreignStatus(r, g.objectB(r, u, "ClientSettingsPolicy", rng.Pick(r, u.namespaces), fmt.Sprintf("csp%d", i), next(), pOpt, bias), tag))
	}
	for i := 0; i < r.Intn(3) || (i < 2 && g.want("ObservabilityPolicy")); i++ {
		add(foreignStatus(r, g.objectB(r, u, "ObservabilityPolicy", rng.Pick(r, u.namespaces), fmt.Sprintf("op%d", i), next(), pOpt, bias), tag))
	}
	for i := 0; i < r.Intn(3) || (i < 2 && g.want("UpstreamSettingsPolicy")); i++ {
		add(foreignStatus(r, g.objectB(r, u, "UpstreamSettingsPolicy", rng.Pick(r, u.namespaces), fmt.Sprintf("usp%d", i), next(), pOpt, bias), tag))
	}
	return objs
}

// setField sets spec.<field> of a typed object (used to pin the controller name).
func setField(o client.Object, field string, val any) {
	patch(o, func(m map[string]any) { asMap(m["spec"])[field] = val })
}

// rank orders kinds from dependencies (low) to dependants (high).
func rank(o client.Object) int {
	switch kindOf(o) {
	case "CustomResourceDefinition":
		return 0
	case "Namespace":
		return 1
	case "Secret", "ConfigMap":
		return 2
	case "Service":
		return 3
	case "EndpointSlice":
		return 4
	case "NginxProxy":
		return 5
	case "GatewayClass":
		return 6
	case "ReferenceGrant":
		return 7
	case "SnippetsFilter":
		return 8
	case "Gateway":
		return 9
	case "BackendTLSPolicy":
		return 10
	case "HTTPRoute", "GRPCRoute", "TLSRoute":
		return 11
	}
	return 12 // policies
}

func objKey(o client.Object) string {
	return kindOf(o) + "/" + o.GetNamespace() + "/" + o.GetName()
}

// schedule turns a set of objects into a history: an order (random / dependants first / dependencies
// first), a batching, then deletes of some objects (dependencies before dependants as well), updates
// and re-creations.
func schedule(r *rng.R, cs *Case, objs []client.Object) {
	objs = append([]client.Object(nil), objs...)
	sort.SliceStable(objs, func(i, j int) bool { return objKey(objs[i]) < objKey(objs[j]) })
	order := r.Intn(4)
	switch order {
	case 0:
		rng.Shuffle(r, objs)
		cs.Tags["order-random"]++
	case 1, 2:
		rng.Shuffle(r, objs)
		sort.SliceStable(objs, func(i, j int) bool { return rank(objs[i]) > rank(objs[j]) })
		cs.Tags["order-dependants-first"]++
	default:
		rng.Shuffle(r, objs)
		sort.SliceStable(objs, func(i, j int) bool { return rank(objs[i]) < rank(objs[j]) })
		cs.Tags["order-dependencies-first"]++
	}
	var evs []Event
	for _, o := range objs {
		evs = append(evs, Event{Obj: o})
	}
	// deletes / updates / re-creates
	nExtra := r.Intn(6)
	for i := 0; i < nExtra && len(objs) > 0; i++ {
		o := rng.Pick(r, objs)
		switch r.Intn(3) {
		case 0:
			evs = append(evs, Event{Del: true, Obj: o})
			cs.Tags["delete"]++
			if r.Bool() {
				evs = append(evs, Event{Obj: o})
				cs.Tags["recreate"]++
			}
		case 1:
			evs = append(evs, Event{Obj: o})
			cs.Tags["re-upsert"]++
		default:
			// delete a dependency of the lowest ranks (namespace, secret, service) while dependants stay
			var deps []client.Object
			for _, d := range objs {
				if rank(d) <= 4 {
					deps = append(deps, d)
				}
			}
			if len(deps) > 0 {
				d := rng.Pick(r, deps)
				evs = append(evs, Event{Del: true, Obj: d})
				cs.Tags["delete-dependency"]++
			}
		}
	}
	// batching
	mode := r.Intn(4)
	for len(evs) > 0 {
		n := 1
		switch mode {
		case 0:
			n = len(evs)
		case 1:
			n = 1 + r.Intn(3)
		case 2:
			n = 1 + r.Intn(len(evs))
		default:
			n = 1 + r.Intn(8)
		}
		if n > len(evs) {
			n = len(evs)
		}
		cs.Batches = append(cs.Batches, evs[:n])
		evs = evs[n:]
	}
	cs.Tags[fmt.Sprintf("batching-mode-%d", mode)]++
}

// selectorScenario is the focused family for the namespace-lookup site: a Gateway whose listener admits
// routes by namespace selector, a route in some namespace, and the Namespace object delivered before,
// with, or after them.
func selectorScenario(r *rng.R, cs *Case) {
	gwNS, rtNS := rng.Pick(r, []string{"default", "team-a"}), rng.Pick(r, []string{"default", "team-a", "team-b"})
	sel := map[string]string{"team": "dev"}
	l := p.Listener{Name: "l0", Port: 80, Protocol: "HTTP", FromNS: "Selector", Selector: sel}
	kind := r.Intn(3)
	if kind == 2 {
		l = p.Listener{Name: "l0", Port: 443, Protocol: "TLS", FromNS: "Selector", Selector: sel}
	}
	gw := p.Gateway(gwNS, "gw0", p.DefaultClass, 1, l)
	if r.Chance(25, 100) {
		// matchExpressions instead of matchLabels
		gw.Spec.Listeners[0].AllowedRoutes.Namespaces.Selector = &metav1.LabelSelector{
			MatchExpressions: []metav1.LabelSelectorRequirement{{Key: "team", Operator: metav1.LabelSelectorOpIn, Values: []string{"dev"}}},
		}
	}
	gc := p.GatewayClass(p.DefaultClass, p.DefaultController, 0)
	var route client.Object
	parents := p.ParentRef(gwNS, "gw0", "")
	switch kind {
	case 0:
		route = p.HTTPRoute(rtNS, "hr0", 2, nil, nil,
			p.HTTPRule([]gatewayv1.HTTPRouteMatch{p.PathMatch("PathPrefix", "/")}, p.Backend{Ref: "svc0", Port: 80, Weight: -1}))
	case 1:
		route = p.GRPCRoute(rtNS, "gr0", 2, nil, nil)
	default:
		route = p.TLSRoute(rtNS, "tr0", 2, nil, []string{"cafe.example.com"}, p.Backend{Ref: "svc0", Port: 80, Weight: -1})
	}
	setParents(route, parents)
	labels := map[string]string{"kubernetes.io/metadata.name": rtNS}
	if r.Bool() {
		labels["team"] = "dev"
	}
	nsObj := p.Namespace(rtNS, labels)
	svc := p.Service(rtNS, "svc0", 80)
	first := []Event{{Obj: gc}, {Obj: gw}, {Obj: route}, {Obj: svc}}
	rng.Shuffle(r, first)
	switch r.Intn(4) {
	case 0: // namespace first
		cs.Batches = [][]Event{{{Obj: nsObj}}, first}
		cs.Tags["selector-namespace-first"]++
	case 1: // same batch
		b := append([]Event{{Obj: nsObj}}, first...)
		rng.Shuffle(r, b)
		cs.Batches = [][]Event{b}
		cs.Tags["selector-namespace-same-batch"]++
	case 2: // namespace after
		cs.Batches = [][]Event{first, {{Obj: nsObj}}}
		cs.Tags["selector-namespace-after"]++
	default: // namespace deleted while the route stays
		cs.Batches = [][]Event{{{Obj: nsObj}}, first, {{Del: true, Obj: nsObj}, {Obj: svc}}, {{Obj: gw}}}
		cs.Tags["selector-namespace-deleted"]++
	}
}

// admitParentRefs repairs the parentRefs of a route produced by the shared scenario generator so that
// they satisfy the CEL rules of the CRD (scen is only "mostly valid": it can repeat a parent without
// distinguishing sectionNames, which the API server rejects).
func admitParentRefs(r *rng.R, u *universe, route client.Object) {
	patch(route, func(m map[string]any) { fixParentRefs(r, asMap(m["spec"]), route.GetNamespace(), u) })
}

func setParents(route client.Object, parent any) {
	pb, _ := json.Marshal(parent)
	var pm any
	_ = json.Unmarshal(pb, &pm)
	patch(route, func(m map[string]any) { asMap(m["spec"])["parentRefs"] = []any{pm} })
}

// Case draws case number id.
func (g *Gen) Case(r *rng.R, id int) *Case {
	cs := &Case{ID: id, Tags: map[string]int{}}
	tag := func(t string) { cs.Tags[t]++ }
	cs.Plus = r.Chance(40, 100)
	if cs.Plus {
		cs.PlusCA, cs.PlusCl = r.Bool(), r.Bool()
		tag("plus")
	}
	u := newUniverse()
	k := id % 10
	if g.Focus != nil {
		// focused search: the deep skeleton in 8 of 10 cases when the function needs attached routes, schema otherwise
		if g.Focus.Deep && k < 8 {
			k = 6
		} else {
			k = 3
		}
		tag("focus")
	}
	switch {
	case k >= 6 && k <= 8:
		cs.Profile = "deep"
		objs := coreObjects(r, u, tag)
		objs = append(objs, g.deepObjects(r, u, tag)...)
		objs = append(objs, plusSecrets(r, cs, tag)...)
		schedule(r, cs, objs)
	case k == 9:
		cs.Profile = "selector"
		selectorScenario(r, cs)
		if cs.Plus {
			cs.Batches = append([][]Event{eventsOf(plusSecrets(r, cs, tag))}, cs.Batches...)
		}
		return cs
	case k < 3:
		cs.Profile = "scen"
		s := scen.Generate(r.Fork(), scen.DefaultConfig())
		for t, n := range s.Tags {
			cs.Tags["scen:"+t] += n
		}
		for _, o := range s.Objs {
			switch kindOf(o) {
			case "HTTPRoute", "GRPCRoute", "TLSRoute":
				admitParentRefs(r, u, o)
			}
		}
		objs := append(s.Objs, plusSecrets(r, cs, tag)...)
		schedule(r, cs, objs)
	default:
		cs.Profile = "schema"
		objs := coreObjects(r, u, tag)
		objs = append(objs, g.schemaObjects(r, u, tag)...)
		objs = append(objs, plusSecrets(r, cs, tag)...)
		schedule(r, cs, objs)
	}
	plusSecretEdit(r, cs)
	return cs
}

// plusSecretEdit appends an admissible update of one usage-reporting Secret that drops or renames the
// data key the controller was started with (the API server admits any Opaque Secret content).
func plusSecretEdit(r *rng.R, cs *Case) {
	if !cs.Plus || !r.Chance(12, 100) {
		return
	}
	name, data := PlusJWTSecret, map[string][]byte{"license": []byte("renamed-key")}
	switch {
	case cs.PlusCA && r.Bool():
		name, data = PlusCASecret, map[string][]byte{}
	case cs.PlusCl && r.Bool():
		c, _ := p.CertPair(9)
		name, data = PlusClientSecret, map[string][]byte{"tls.crt": c}
	}
	sec := &apiv1.Secret{ObjectMeta: p.Meta(PodNamespace, name, 0), Type: apiv1.SecretTypeOpaque, Data: data}
	cs.Batches = append(cs.Batches, []Event{{Obj: sec}})
	cs.Tags["plus-secret-field-removed"]++
	cs.Injected = append(cs.Injected, "Secret/"+PodNamespace+"/"+name+":field-removed")
}

// permutations returns all orderings of xs.
func permutations[T any](xs []T) [][]T {
	if len(xs) <= 1 {
		return [][]T{append([]T(nil), xs...)}
	}
	var out [][]T
	for i := range xs {
		rest := append(append([]T(nil), xs[:i]...), xs[i+1:]...)
		for _, p := range permutations(rest) {
			out = append(out, append([]T{xs[i]}, p...))
		}
	}
	return out
}

// PermCases is the exhaustive small scope: the five objects of the selector scenario (Namespace,
// GatewayClass, Gateway with a Selector listener, one route, its Service) for each route kind, in ALL 120
// delivery orders, each order batched as one event per batch and as every two-batch split.
func PermCases(plus bool) []*Case {
	var out []*Case
	id := 2000000
	for kind := 0; kind < 3; kind++ {
		sel := map[string]string{"team": "dev"}
		l := p.Listener{Name: "l0", Port: 80, Protocol: "HTTP", FromNS: "Selector", Selector: sel}
		if kind == 2 {
			l = p.Listener{Name: "l0", Port: 443, Protocol: "TLS", FromNS: "Selector", Selector: sel}
		}
		gw := p.Gateway("default", "gw0", p.DefaultClass, 1, l)
		gc := p.GatewayClass(p.DefaultClass, p.DefaultController, 0)
		var route client.Object
		switch kind {
		case 0:
			route = p.HTTPRoute("team-a", "hr0", 2, nil, nil,
				p.HTTPRule([]gatewayv1.HTTPRouteMatch{p.PathMatch("PathPrefix", "/")}, p.Backend{Ref: "svc0", Port: 80, Weight: -1}))
		case 1:
			route = p.GRPCRoute("team-a", "gr0", 2, nil, nil)
		default:
			route = p.TLSRoute("team-a", "tr0", 2, nil, []string{"cafe.example.com"}, p.Backend{Ref: "svc0", Port: 80, Weight: -1})
		}
		setParents(route, p.ParentRef("default", "gw0", ""))
		ns := p.Namespace("team-a", map[string]string{"kubernetes.io/metadata.name": "team-a", "team": "dev"})
		svc := p.Service("team-a", "svc0", 80)
		for _, perm := range permutations([]client.Object{ns, gc, gw, route, svc}) {
			evs := eventsOf(perm)
			for split := 0; split < len(evs); split++ {
				cs := &Case{ID: id, Profile: "perm", Plus: plus, Tags: map[string]int{"perm": 1}}
				id++
				if split == 0 {
					for _, e := range evs {
						cs.Batches = append(cs.Batches, []Event{e})
					}
				} else {
					cs.Batches = [][]Event{evs[:split], evs[split:]}
				}
				if plus {
					cs.Batches = append([][]Event{eventsOf(plusSecrets(nil, cs, func(string) {}))}, cs.Batches...)
				}
				out = append(out, cs)
			}
		}
	}
	return out
}

func eventsOf(objs []client.Object) []Event {
	var out []Event
	for _, o := range objs {
		out = append(out, Event{Obj: o})
	}
	return out
}
